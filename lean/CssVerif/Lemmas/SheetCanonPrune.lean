import CssVerif.Lemmas.SheetCanonIdem
import CssVerif.Lemmas.SheetCanonWF
/-!
# Lemmas for C03 (sheet level): rules that serialise to nothing (`prune`)
-/
namespace CssVerif.SheetCanon
open CssVerif.Proto (Cps)
open CssVerif.Struct CssVerif.SheetSpec CssVerif.AtRules
set_option linter.unusedSimpArgs false
set_option linter.unusedVariables false

/-! ## what is written stays written -/

theorem re_layItems_isEmpty (om : Bool) (lv : Nat) (l : List SItem) (h : NoSemi l) :
    (re (layItems om lv l)).isEmpty = l.isEmpty := by
  cases l with
  | nil => rfl
  | cons j rest =>
    obtain ⟨x, xs, hx⟩ := re_layItems_cons om lv j rest h
    rw [hx]; rfl

theorem blockEmpty_canon (lv : Nat) (b : SBlock) : blockEmpty (canonBlock lv b) = blockEmpty b := by
  have e : realItems (canonBlock lv b) = re (layItems true lv (realItems b)) := rfl
  simp only [blockEmpty, e, re_layItems_isEmpty _ _ _ (realItems_noSemi b)]

theorem reB_layItems_isEmpty (lv : Nat) (l : List SItem) (h : AllBare l) :
    (reB (layItems true lv l)).isEmpty = l.isEmpty := by
  cases l with
  | nil => rfl
  | cons j rest =>
    obtain ⟨x, xs, hx⟩ := reB_layItems_cons lv j rest h
    rw [hx]; rfl

theorem marginEmpty_canon (lv : Nat) (b : SBlock) : marginEmpty (canonMarginBlock lv b) = marginEmpty b := by
  have h := reB_layItems_isEmpty lv _ (marginItems_allBare b)
  simp only [reB] at h
  simp only [marginEmpty, canonMarginBlock]
  exact h

theorem pruneMargins_pageMargins (lv : Nat) (l : List (SPageItem × WGap)) (h : pruneMargins l = l) :
    pruneMargins (pageMargins lv l) = pageMargins lv l := by
  induction l with
  | nil => rfl
  | cons p rest ih =>
    obtain ⟨i, w⟩ := p
    cases i with
    | item it =>
      simp only [pruneMargins, List.cons.injEq, true_and] at h
      simpa [pageMargins] using ih h
    | margin n kw g b =>
      simp only [pruneMargins] at h
      by_cases hm : marginEmpty b = true
      · simp only [hm, ↓reduceIte] at h
        -- `pruneMargins rest` is no longer than `rest`
        have hl : (pruneMargins rest).length ≤ rest.length := by
          clear h ih
          induction rest with
          | nil => simp [pruneMargins]
          | cons q r ihr =>
            obtain ⟨j, w'⟩ := q
            cases j with
            | item it => simp [pruneMargins]; exact ihr
            | margin n' kw' g' b' => simp only [pruneMargins]; split <;> simp <;> omega
        have := congrArg List.length h
        simp at this; omega
      · have hm' : marginEmpty b = false := by simpa using hm
        simp only [hm', Bool.false_eq_true, ↓reduceIte, List.cons.injEq, true_and] at h
        simp only [pageMargins, pruneMargins, marginEmpty_canon, hm', Bool.false_eq_true, ↓reduceIte, ih h]

theorem pruneMargins_asPageItems (l : List (SItem × WGap)) : pruneMargins (asPageItems l) = asPageItems l := by
  induction l with
  | nil => rfl
  | cons p rest ih => obtain ⟨i, w⟩ := p; simp [asPageItems, pruneMargins, ih]

theorem pruneMargins_append (a b : List (SPageItem × WGap)) :
    pruneMargins (a ++ b) = pruneMargins a ++ pruneMargins b := by
  induction a with
  | nil => rfl
  | cons p rest ih =>
    obtain ⟨i, w⟩ := p
    cases i with
    | item it => simp [pruneMargins, ih]
    | margin n kw g blk => simp only [List.cons_append, pruneMargins]; split <;> simp [ih]

theorem prunePageBlock_canon (lv : Nat) (b : SPageBlock) (h : prunePageBlock b = b) :
    prunePageBlock (canonPageBlock lv b) = canonPageBlock lv b := by
  have hi : pruneMargins b.items = b.items := by
    have := congrArg SPageBlock.items h
    simpa [prunePageBlock] using this
  simp only [prunePageBlock, canonPageBlock, pruneMargins_append, pruneMargins_asPageItems,
    pruneMargins_pageMargins lv _ hi]

theorem pageMargins_isEmpty (lv lv' : Nat) (l : List (SPageItem × WGap)) :
    (pageMargins lv l).isEmpty = (pageMargins lv' l).isEmpty := by
  induction l with
  | nil => rfl
  | cons p rest ih => obtain ⟨i, w⟩ := p; cases i <;> simp [pageMargins, ih]

theorem pageEmpty_canon (lv : Nat) (b : SPageBlock) : pageEmpty (canonPageBlock lv b) = pageEmpty b := by
  have hn : NoSemi (pagePlain b.items ++ (b.last.map SItem.decl).toList) := by
    intro i hi
    simp only [List.mem_append] at hi
    rcases hi with hi | hi
    · exact pagePlain_noSemi _ i hi
    · cases hb : b.last <;> simp_all
  have h1 := re_layItems_isEmpty (pageMargins lv b.items).isEmpty lv _ hn
  simp only [re] at h1
  simp only [pageEmpty, canonPageBlock, pagePlain_append, pageMargins_append, pagePlain_asPageItems,
    pageMargins_asPageItems, pagePlain_pageMargins, List.append_nil, List.nil_append, h1]
  congr 1
  rw [pageMargins_isEmpty 0 lv (pageMargins lv b.items), pageMargins_idem, pageMargins_isEmpty lv 0]

/-- number of rules of a list -/
def rulesLen : SRules → Nat
  | .nil => 0
  | .cons _ _ rest => rulesLen rest + 1

theorem pruneRules_len : (rs : SRules) → rulesLen (pruneRules rs) ≤ rulesLen rs
  | .nil => by simp [pruneRules]
  | .cons r w rest => by
    have ih := pruneRules_len rest
    simp only [pruneRules]
    cases pruneRule r with
    | none => simp only [rulesLen]; omega
    | some r' => simp only [rulesLen]; omega

mutual
theorem pruneRule_canon (lv : Nat) : (r : SRule) → pruneRule r = some r → pruneRule (canonRule lv r) = some (canonRule lv r)
  | .comment b, _ => by simp [canonRule, pruneRule]
  | .style sel blk, h => by
    simp only [pruneRule] at h
    simp only [canonRule, pruneRule, blockEmpty_canon]
    split at h
    · cases h
    · rename_i hb; simp [hb]
  | .unknown t, _ => by simp [canonRule, pruneRule]
  | .media kw g1 mq g2 name lead rules, h => by
    simp only [pruneRule] at h
    have hr : pruneRules rules = rules := by
      cases hp : pruneRules rules with
      | nil => simp [hp] at h
      | cons r w rest => simp only [hp, Option.some.injEq, SRule.media.injEq, true_and] at h; rw [← h]
    have ih := pruneRules_canon (lv + 1) true rules hr
    simp only [canonRule, pruneRule, ih]
    cases rules with
    | nil => simp [pruneRules] at h
    | cons r w rest => simp [canonRules]
  | .fontface kw g1 blk, h => by
    simp only [pruneRule] at h
    simp only [canonRule, pruneRule, blockEmpty_canon]
    split at h
    · cases h
    · rename_i hb; simp [hb]
  | .page kw g0 sel g1 blk, h => by
    simp only [pruneRule] at h
    split at h
    · cases h
    · rename_i hb
      have hblk : prunePageBlock blk = blk := by
        simp only [Option.some.injEq, SRule.page.injEq, true_and] at h; exact h
      simp only [canonRule, pruneRule, prunePageBlock_canon _ _ hblk, pageEmpty_canon]
      rw [hblk] at hb
      simp [hb]
theorem pruneRules_canon (lv : Nat) (inner : Bool) : (rs : SRules) → pruneRules rs = rs →
    pruneRules (canonRules lv inner rs) = canonRules lv inner rs
  | .nil, _ => by simp [canonRules, pruneRules]
  | .cons r w rest, h => by
    simp only [pruneRules] at h
    cases hp : pruneRule r with
    | none =>
      -- then `pruneRules rest` would be the longer list `cons r w rest`
      simp only [hp] at h
      have hl := pruneRules_len rest
      rw [h] at hl
      simp only [rulesLen] at hl
      omega
    | some r' =>
      simp only [hp, SRules.cons.injEq, true_and] at h
      obtain ⟨h1, h2⟩ := h
      subst h1
      simp only [canonRules, pruneRules, pruneRule_canon lv r' hp, pruneRules_canon lv inner rest h2]
end

/-! ## `prune` is idempotent -/

theorem pruneMargins_idem (l : List (SPageItem × WGap)) : pruneMargins (pruneMargins l) = pruneMargins l := by
  induction l with
  | nil => rfl
  | cons p rest ih =>
    obtain ⟨i, w⟩ := p
    cases i with
    | item it => simp [pruneMargins, ih]
    | margin n kw g b =>
      by_cases hm : marginEmpty b = true
      · simp [pruneMargins, hm, ih]
      · have hm' : marginEmpty b = false := by simpa using hm
        simp [pruneMargins, hm', ih]

theorem prunePageBlock_idem (b : SPageBlock) : prunePageBlock (prunePageBlock b) = prunePageBlock b := by
  simp [prunePageBlock, pruneMargins_idem]

mutual
theorem pruneRule_idem : (r r' : SRule) → pruneRule r = some r' → pruneRule r' = some r'
  | .comment b, r', h => by simp only [pruneRule, Option.some.injEq] at h; subst h; rfl
  | .style sel blk, r', h => by
    simp only [pruneRule] at h
    split at h
    · cases h
    · rename_i hb
      simp only [Option.some.injEq] at h; subst h
      simp [pruneRule, hb]
  | .unknown t, r', h => by simp only [pruneRule, Option.some.injEq] at h; subst h; rfl
  | .media kw g1 mq g2 name lead rules, r', h => by
    simp only [pruneRule] at h
    have ih := pruneRules_idem rules
    cases hp : pruneRules rules with
    | nil => simp [hp] at h
    | cons r w rest =>
      simp only [hp, Option.some.injEq] at h; subst h
      rw [hp] at ih
      simp only [pruneRule, ih]
  | .fontface kw g1 blk, r', h => by
    simp only [pruneRule] at h
    split at h
    · cases h
    · rename_i hb
      simp only [Option.some.injEq] at h; subst h
      simp [pruneRule, hb]
  | .page kw g0 sel g1 blk, r', h => by
    simp only [pruneRule] at h
    split at h
    · cases h
    · rename_i hb
      simp only [Option.some.injEq] at h; subst h
      simp [pruneRule, prunePageBlock_idem, hb]
theorem pruneRules_idem : (rs : SRules) → pruneRules (pruneRules rs) = pruneRules rs
  | .nil => by simp [pruneRules]
  | .cons r w rest => by
    have ih := pruneRules_idem rest
    simp only [pruneRules]
    cases hp : pruneRule r with
    | none => simp only [ih]
    | some r' => simp only [pruneRules, pruneRule_idem r r' hp, ih]
end

theorem pruneVars_idem (l : List (SVar × WGap)) : pruneVars (pruneVars l) = pruneVars l := by
  simp [pruneVars, List.filter_filter]

theorem varWritten_canon (r : SVar) : varWritten (canonVar r) = varWritten r := by
  cases r with
  | comment b => rfl
  | unknown t => rfl
  | variables kw g0 blk =>
    have e : varDecls (canonVarBlock 1 blk) = reV (layVarItems 1 (varDecls blk)) := rfl
    simp only [canonVar, varWritten, e]
    cases hd : varDecls blk with
    | nil => rfl
    | cons d rest =>
      obtain ⟨x, xs, hx⟩ := reV_layVarItems_cons 1 d rest
      rw [hx]; rfl

theorem pruneVars_layStmts (more : Bool) (l : List (SVar × WGap)) (h : pruneVars l = l) :
    pruneVars (layStmts canonVar more l) = layStmts canonVar more l := by
  have hall : ∀ p ∈ l, varWritten p.1 = true := by
    have := List.filter_eq_self.mp h
    exact this
  apply List.filter_eq_self.mpr
  intro p hp
  obtain ⟨q, hq, e⟩ := layStmts_mem _ _ _ p hp
  rw [e, varWritten_canon]; exact hall q hq

theorem prune_idem (s : SSheet) : prune (prune s) = prune s := by
  simp [prune, pruneRules_idem, pruneVars_idem]

/-- the serializer's spelling has no rule that is not written -/
theorem prune_canonV (s : SSheet) (h : prune s = s) : prune (canonV s) = canonV s := by
  have hr : pruneRules s.rules = s.rules := by
    have := congrArg SSheet.rules h
    simpa [prune] using this
  have hv : pruneVars s.variables = s.variables := by
    have := congrArg SSheet.variables h
    simpa [prune] using this
  simp only [prune, canonV, pruneRules_canon 0 false s.rules hr, pruneVars_layStmts _ _ hv]

theorem canon_idem_aux (s : SSheet) : canon (canon s) = canon s := by
  unfold canon
  rw [prune_canonV _ (prune_idem s), canonV_idem]

/-! ## `prune` keeps well-formedness and adds no token -/

theorem pruneMargins_mem (l : List (SPageItem × WGap)) : ∀ p ∈ pruneMargins l, p ∈ l := by
  induction l with
  | nil => intro p hp; cases hp
  | cons q rest ih =>
    obtain ⟨i, w⟩ := q
    intro p hp
    cases i with
    | item it =>
      simp only [pruneMargins, List.mem_cons] at hp ⊢
      rcases hp with rfl | hp
      · exact Or.inl rfl
      · exact Or.inr (ih p hp)
    | margin n kw g b =>
      simp only [pruneMargins] at hp
      split at hp
      · exact List.mem_cons_of_mem _ (ih p hp)
      · simp only [List.mem_cons] at hp ⊢
        rcases hp with rfl | hp
        · exact Or.inl rfl
        · exact Or.inr (ih p hp)

theorem marginNames_pruneMargins (l : List (SPageItem × WGap)) :
    (marginNames (pruneMargins l)).Sublist (marginNames l) := by
  induction l with
  | nil => exact List.Sublist.refl _
  | cons q rest ih =>
    obtain ⟨i, w⟩ := q
    cases i with
    | item it => simpa [pruneMargins, marginNames] using ih
    | margin n kw g b =>
      simp only [pruneMargins]
      split
      · exact List.Sublist.cons _ ih
      · simpa [marginNames] using ih

theorem prunePageBlock_wf (O : Oracle) (M : List Cps) (sel : SPageSel) (blk : SPageBlock) (h : PageWF O M sel blk) :
    PageWF O M sel (prunePageBlock blk) :=
  ⟨h.selWF, fun p hp => h.itemsWF p (pruneMargins_mem _ p hp), h.lastWF,
    (marginNames_pruneMargins blk.items).nodup h.distinct⟩

mutual
theorem pruneRule_wf (O : Oracle) (M : List Cps) (ns : List (Cps × Cps)) (im : Bool) :
    (r r' : SRule) → r.WF O M ns im → pruneRule r = some r' → r'.WF O M ns im
  | .comment b, r', _, h => by simp only [pruneRule, Option.some.injEq] at h; subst h; trivial
  | .style sel blk, r', hw, h => by
    simp only [pruneRule] at h
    split at h
    · cases h
    · simp only [Option.some.injEq] at h; subst h; exact hw
  | .unknown t, r', hw, h => by simp only [pruneRule, Option.some.injEq] at h; subst h; exact hw
  | .media kw g1 mq g2 name lead rules, r', hw, h => by
    have hw : MqOk mq ∧ O.mediaOk (mediaHead g1 mq g2) = true ∧ rules.WF O M ns true ∧ NameWF name := hw
    have ih := pruneRules_wf O M ns true rules hw.2.2.1
    simp only [pruneRule] at h
    cases hp : pruneRules rules with
    | nil => simp [hp] at h
    | cons r w rest =>
      simp only [hp, Option.some.injEq] at h; subst h
      rw [hp] at ih
      exact (⟨hw.1, hw.2.1, ih, hw.2.2.2⟩ :
        MqOk mq ∧ O.mediaOk (mediaHead g1 mq g2) = true ∧ (SRules.cons r w rest).WF O M ns true ∧ NameWF name)
  | .fontface kw g1 blk, r', hw, h => by
    simp only [pruneRule] at h
    split at h
    · cases h
    · simp only [Option.some.injEq] at h; subst h; exact hw
  | .page kw g0 sel g1 blk, r', hw, h => by
    have hw : PageWF O M sel blk := hw
    simp only [pruneRule] at h
    split at h
    · cases h
    · simp only [Option.some.injEq] at h; subst h
      exact (prunePageBlock_wf O M sel blk hw : PageWF O M sel (prunePageBlock blk))
theorem pruneRules_wf (O : Oracle) (M : List Cps) (ns : List (Cps × Cps)) (im : Bool) :
    (rs : SRules) → rs.WF O M ns im → (pruneRules rs).WF O M ns im
  | .nil, _ => by simp only [pruneRules]; trivial
  | .cons r w rest, hw => by
    have hw : r.WF O M ns im ∧ rest.WF O M ns im := hw
    have ih := pruneRules_wf O M ns im rest hw.2
    simp only [pruneRules]
    cases hp : pruneRule r with
    | none => exact ih
    | some r' =>
      exact (⟨pruneRule_wf O M ns im r r' hw.1 hp, ih⟩ : r'.WF O M ns im ∧ (pruneRules rest).WF O M ns im)
end

theorem prune_wf (O : Oracle) (M : List Cps) (s : SSheet) (h : s.WF O M) : (prune s).WF O M :=
  ⟨h.charsetOk, h.importsOk, h.namespacesOk, h.prefixes, h.uris,
    fun p hp => h.variablesOk p (List.mem_filter.mp hp).1, pruneRules_wf O M _ false s.rules h.rulesOk⟩

theorem renderPageItems_prune (l : List (SPageItem × WGap)) :
    ∀ t ∈ renderPageItems (pruneMargins l), t ∈ renderPageItems l := by
  induction l with
  | nil => intro t ht; exact ht
  | cons q rest ih =>
    obtain ⟨i, w⟩ := q
    intro t ht
    cases i with
    | item it =>
      simp only [pruneMargins, renderPageItems, List.mem_append] at ht ⊢
      rcases ht with ht | ht | ht
      · exact Or.inl ht
      · exact Or.inr (Or.inl ht)
      · exact Or.inr (Or.inr (ih t ht))
    | margin n kw g b =>
      simp only [pruneMargins] at ht
      split at ht
      · simp only [renderPageItems, List.mem_append]; exact Or.inr (Or.inr (ih t ht))
      · simp only [renderPageItems, List.mem_append] at ht ⊢
        rcases ht with ht | ht | ht
        · exact Or.inl ht
        · exact Or.inr (Or.inl ht)
        · exact Or.inr (Or.inr (ih t ht))

mutual
theorem pruneRule_toks : (r r' : SRule) → pruneRule r = some r' → ∀ t ∈ r'.toks, t ∈ r.toks
  | .comment b, r', h => by simp only [pruneRule, Option.some.injEq] at h; subst h; exact fun t ht => ht
  | .style sel blk, r', h => by
    simp only [pruneRule] at h
    split at h
    · cases h
    · simp only [Option.some.injEq] at h; subst h; exact fun t ht => ht
  | .unknown ts, r', h => by simp only [pruneRule, Option.some.injEq] at h; subst h; exact fun t ht => ht
  | .media kw g1 mq g2 name lead rules, r', h => by
    have ih := pruneRules_toks rules
    simp only [pruneRule] at h
    cases hp : pruneRules rules with
    | nil => simp [hp] at h
    | cons r w rest =>
      simp only [hp, Option.some.injEq] at h; subst h
      rw [hp] at ih
      intro t ht
      simp only [SRule.toks, List.mem_cons, List.mem_append] at ht ⊢
      rcases ht with ht | ht | ht | ht | ht | ht | ht | ht | ht
      · exact Or.inl ht
      · exact Or.inr (Or.inl ht)
      · exact Or.inr (Or.inr (Or.inl ht))
      · exact Or.inr (Or.inr (Or.inr (Or.inl ht)))
      · exact Or.inr (Or.inr (Or.inr (Or.inr (Or.inl ht))))
      · exact Or.inr (Or.inr (Or.inr (Or.inr (Or.inr (Or.inl ht)))))
      · exact Or.inr (Or.inr (Or.inr (Or.inr (Or.inr (Or.inr (Or.inl ht))))))
      · exact Or.inr (Or.inr (Or.inr (Or.inr (Or.inr (Or.inr (Or.inr (Or.inl (ih t ht))))))))
      · exact Or.inr (Or.inr (Or.inr (Or.inr (Or.inr (Or.inr (Or.inr (Or.inr ht)))))))
  | .fontface kw g1 blk, r', h => by
    simp only [pruneRule] at h
    split at h
    · cases h
    · simp only [Option.some.injEq] at h; subst h; exact fun t ht => ht
  | .page kw g0 sel g1 blk, r', h => by
    simp only [pruneRule] at h
    split at h
    · cases h
    · simp only [Option.some.injEq] at h; subst h
      intro t ht
      simp only [SRule.toks, SPageBlock.toks, prunePageBlock, List.mem_cons, List.mem_append] at ht ⊢
      rcases ht with ht | ht | ht | ht | ht | (ht | ht | ht) | ht
      · exact Or.inl ht
      · exact Or.inr (Or.inl ht)
      · exact Or.inr (Or.inr (Or.inl ht))
      · exact Or.inr (Or.inr (Or.inr (Or.inl ht)))
      · exact Or.inr (Or.inr (Or.inr (Or.inr (Or.inl ht))))
      · exact Or.inr (Or.inr (Or.inr (Or.inr (Or.inr (Or.inl (Or.inl ht))))))
      · exact Or.inr (Or.inr (Or.inr (Or.inr (Or.inr (Or.inl (Or.inr (Or.inl (renderPageItems_prune _ t ht))))))))
      · exact Or.inr (Or.inr (Or.inr (Or.inr (Or.inr (Or.inl (Or.inr (Or.inr ht)))))))
      · exact Or.inr (Or.inr (Or.inr (Or.inr (Or.inr (Or.inr ht)))))
theorem pruneRules_toks : (rs : SRules) → ∀ t ∈ (pruneRules rs).toks, t ∈ rs.toks
  | .nil => by simp [pruneRules]
  | .cons r w rest => by
    have ih := pruneRules_toks rest
    intro t ht
    simp only [pruneRules] at ht
    simp only [SRules.toks, List.mem_append]
    cases hp : pruneRule r with
    | none => rw [hp] at ht; exact Or.inr (Or.inr (ih t ht))
    | some r' =>
      rw [hp] at ht
      simp only [SRules.toks, List.mem_append] at ht
      rcases ht with ht | ht | ht
      · exact Or.inl (pruneRule_toks r r' hp t ht)
      · exact Or.inr (Or.inl ht)
      · exact Or.inr (Or.inr (ih t ht))
end

theorem renderVars_prune (l : List (SVar × WGap)) : ∀ t ∈ renderVars (pruneVars l), t ∈ renderVars l := by
  induction l with
  | nil => intro t ht; exact ht
  | cons q rest ih =>
    obtain ⟨r, w⟩ := q
    intro t ht
    simp only [pruneVars, List.filter_cons] at ht
    simp only [renderVars, List.mem_append]
    split at ht
    · simp only [renderVars, List.mem_append] at ht
      rcases ht with ht | ht | ht
      · exact Or.inl ht
      · exact Or.inr (Or.inl ht)
      · exact Or.inr (Or.inr (ih t ht))
    · exact Or.inr (Or.inr (ih t ht))

theorem prune_tidy (s : SSheet) (h : TidyL (render s)) : TidyL (render (prune s)) := by
  refine h.mono ?_
  intro t ht
  simp only [render, prune, List.mem_append] at ht ⊢
  rcases ht with ht | ht | ht | ht | ht | ht | ht
  · exact Or.inl ht
  · exact Or.inr (Or.inl ht)
  · exact Or.inr (Or.inr (Or.inl ht))
  · exact Or.inr (Or.inr (Or.inr (Or.inl ht)))
  · exact Or.inr (Or.inr (Or.inr (Or.inr (Or.inl (renderVars_prune _ t ht)))))
  · exact Or.inr (Or.inr (Or.inr (Or.inr (Or.inr (Or.inl (pruneRules_toks _ t ht))))))
  · exact Or.inr (Or.inr (Or.inr (Or.inr (Or.inr (Or.inr ht)))))

theorem canon_wf_aux (O : Oracle) (M : List Cps) (s : SSheet) (h : s.WF O M) (hs : HrefSafe s)
    (ha : Accepts O (canon s)) (ht : TidyL (render s)) : (canon s).WF O M :=
  canonV_wf O M (prune s) (prune_wf O M s h) ⟨hs.imports, hs.namespaces⟩ ha (prune_tidy s ht)

theorem canon_erase_aux (s : SSheet) : (canon s).erase = (prune s).erase := canonV_erase (prune s)

end CssVerif.SheetCanon
