import CssVerif.Lemmas.Ns
import CssVerif.Model.NsShare
/-!
Helper lemmas about the two-sheet model (`Model/NsShare.lean`): what `wstep` does to the two rule lists.
-/
namespace CssVerif.Ns
open CssVerif.Proto

@[simp] theorem World.sheet_setSheet_same (w : World) (side : Bool) (s : Sheet) :
    (w.setSheet side s).sheet side = s := by cases side <;> rfl

@[simp] theorem World.sheet_setSheet_other (w : World) (side : Bool) (s : Sheet) :
    (w.setSheet side s).sheet (!side) = w.sheet (!side) := by cases side <;> rfl

@[simp] theorem World.setSheet_obj (w : World) (side : Bool) (s : Sheet) : (w.setSheet side s).obj = w.obj := by
  cases side <;> rfl

@[simp] theorem World.sheet_with_obj (w : World) (o : Option Obj) (sd : Bool) :
    ({ w with obj := o } : World).sheet sd = w.sheet sd := by cases sd <;> rfl

theorem World.setSheet_self (w : World) (side : Bool) : w.setSheet side (w.sheet side) = w := by
  cases side <;> rfl

theorem bodyIndex_spec {s : Sheet} {k i : Nat} (h : bodyIndex s k = some i) :
    ∃ r, s[i]? = some r ∧ r.isNs = false := by
  induction s generalizing k i with
  | nil => simp [bodyIndex] at h
  | cons r t ih =>
    unfold bodyIndex at h
    cases hr : r.isNs with
    | true =>
      simp only [hr, if_true] at h
      cases hb : bodyIndex t k with
      | none => simp [hb] at h
      | some j =>
        simp only [hb, Option.map_some, Option.some.injEq] at h
        subst h
        obtain ⟨x, hx, hxn⟩ := ih hb
        exact ⟨x, by simpa using hx, hxn⟩
    | false =>
      simp only [hr, Bool.false_eq_true, if_false] at h
      cases k with
      | zero =>
        simp only [Option.some.injEq] at h
        subst h
        exact ⟨r, rfl, hr⟩
      | succ k =>
        simp only at h
        cases hb : bodyIndex t k with
        | none => simp [hb] at h
        | some j =>
          simp only [hb, Option.map_some, Option.some.injEq] at h
          subst h
          obtain ⟨x, hx, hxn⟩ := ih hb
          exact ⟨x, by simpa using hx, hxn⟩

/-- replacing the rule at a rank by a style rule whose URIs the sheet declares keeps the sheet consistent -/
theorem good_setAtRank {s : Sheet} (k : Option Nat) {x : List Sel} (h : Good s)
    (hx : ∀ u ∈ selsUris x, u ∈ nsUris s) : Good (setAtRank s k (.style x)) := by
  unfold setAtRank
  cases k with
  | none => exact h
  | some k =>
    simp only
    cases hb : bodyIndex s k with
    | none => exact h
    | some i =>
      simp only
      obtain ⟨r, hr, hrn⟩ := bodyIndex_spec hb
      obtain ⟨pre, post, rfl, rfl⟩ := split_at hr
      rw [set_split]
      exact good_set_style hrn h hx

/-- `insertStyle` either returns an index or refuses without change -/
theorem insertStyle_cases (s : Sheet) (r : Rule) (idx : Option Nat) (io : Bool) :
    (∃ j, (insertStyle s r idx io).2 = .ok (some j)) ∨ (∃ e, insertStyle s r idx io = (s, .err e)) := by
  unfold insertStyle
  simp only
  split
  · exact Or.inr ⟨_, rfl⟩
  · split
    · exact Or.inl ⟨_, rfl⟩
    · split
      · exact Or.inr ⟨_, rfl⟩
      · exact Or.inl ⟨_, rfl⟩

/-- what an operation of the one-sheet model, applied to one sheet of the world, does to the two rule lists —
unless it is `selectorText =` on the followed object: the one-sheet step (or nothing) on that sheet, nothing on
the other -/
theorem wstep_on_sheets (w : World) (side : Bool) (op : Op)
    (hno : ∀ i sels, op = .setSelText i sels → w.objIndex side ≠ some i) :
    ((wstep w (.on side op)).1.sheet side = (step (w.sheet side) op).1 ∨
      (wstep w (.on side op)).1.sheet side = w.sheet side) ∧
    (wstep w (.on side op)).1.sheet (!side) = w.sheet (!side) := by
  cases op with
  | setSelText i sels =>
    have := hno i sels rfl
    simp only [wstep, this, if_false]
    simp
  | parse init src =>
    simp only [wstep]
    cases w.obj <;> simp
  | insStyleObj x idx io => simp [wstep]
  | rawDel i => simp [wstep]
  | delRule i =>
    simp only [wstep]
    split
    · split
      · simp
      · cases w.obj with
        | none => simp
        | some o =>
          simp only
          split <;> simp
    · simp
  | insStyleText x idx io =>
    simp only [wstep]
    split
    · cases w.obj <;> simp
    · simp
  | insNs p u idx io =>
    simp only [wstep]
    cases w.obj with
    | none => simp
    | some o => simp only; split <;> simp
  | insNsText p u c0 c1 c2 idx io =>
    simp only [wstep]
    cases w.obj with
    | none => simp
    | some o => simp only; split <;> simp
  | setNs p u =>
    simp only [wstep]
    cases w.obj with
    | none => simp
    | some o => simp only; split <;> simp
  | delNs p =>
    simp only [wstep]
    cases w.obj with
    | none => simp
    | some o => simp only; split <;> simp
  | setPrefix i q =>
    simp only [wstep]
    cases w.obj with
    | none => simp
    | some o => simp only; split <;> simp
  | setNsText i p u c0 c1 c2 =>
    simp only [wstep]
    cases w.obj with
    | none => simp
    | some o => simp only; split <;> simp
  | insMediaText i x idx =>
    simp only [wstep]
    cases w.obj with
    | none => simp
    | some o => simp only; split <;> simp

/-- both sheets of the world are consistent -/
def WGood (w : World) : Prop := ∀ side, Good (w.sheet side)

/-- the followed object may get a new selector text: every list it is in belongs to its parent sheet, or it
has no parent (a detached object resolves against the empty mapping) -/
def ObjSelOk (o : Obj) : Prop := ∀ side, o.pos side ≠ none → o.owner = some side ∨ o.owner = none

/-- the guards of the two-sheet operations: those of the one-sheet model (`OpOk`), and
* the sheet that receives the object declares the URIs its selectors refer to (C15-foreign-style-rule),
* `selectorText =` on the object only while it is not in the list of a sheet other than its parent
  (C15-rule-in-two-sheets). -/
def WOpOk (w : World) : WOp → Prop
  | .on side op => OpOk (w.sheet side) op ∧
      (∀ i sels, op = .setSelText i sels → w.objIndex side = some i → ∀ o, w.obj = some o → ObjSelOk o)
  | .grab _ _ _ => True
  | .share to _ _ => ∀ o, w.obj = some o → ∀ u ∈ selsUris o.sels, u ∈ nsUris (w.sheet to)
  | .objSel _ => ∀ o, w.obj = some o → ObjSelOk o

def WAllOk : World → List WOp → Prop
  | _, [] => True
  | w, op :: t => WOpOk w op ∧ WAllOk (wstep w op).1 t

/-- `rule.selectorText = …` on the followed object keeps both sheets consistent under `ObjSelOk` -/
theorem wgood_objSetSel {w : World} {o : Obj} (sels : List SSel) (h : WGood w) (hok : ObjSelOk o) :
    WGood (objSetSel w o sels).1 := by
  unfold objSetSel
  split
  · exact h
  · cases hr : resolveSels (w.objDict o) sels with
    | error e => exact h
    | ok x =>
      simp only
      have huris := resolveSels_uris hr
      -- the URIs of the new selectors are declared in every list the object is in
      have key : ∀ side, o.pos side ≠ none → ∀ u ∈ selsUris x, u ∈ nsUris (w.sheet side) := by
        intro side hp u hu
        have hv := huris u hu
        rcases hok side hp with ho | ho
        · simp only [World.objDict, ho] at hv
          exact ((h side).values u).mp hv
        · simp [World.objDict, ho, Dict.values] at hv
      intro side
      cases side with
      | false =>
        show Good (setAtRank w.a o.posA (.style x))
        cases hp : o.posA with
        | none => exact h false
        | some k =>
          exact good_setAtRank (some k) (h false) (key false (by simp [Obj.pos, hp]))
      | true =>
        show Good (setAtRank w.b o.posB (.style x))
        cases hp : o.posB with
        | none => exact h true
        | some k =>
          exact good_setAtRank (some k) (h true) (key true (by simp [Obj.pos, hp]))

end CssVerif.Ns
