import CssVerif.Model.NumF64
/-!
Helper lemmas for C18 (binary64 layer): the numerical core of the bridge between the exact layer and CPython's floats.
-/
namespace CssVerif.Num

/-- rounding `A / B` to the nearest integer gives `n` whenever `A / B` is closer than one half to `n` -/
theorem roundHE_recovers (A B n : Nat) (h1 : 2 * (A - n * B) < B) (h2 : 2 * (n * B - A) < B) :
    roundHE (A / B) (A % B) B = n := by
  have hB : 0 < B := by omega
  by_cases hge : n * B ≤ A
  · -- A = n*B + r with 2r < B
    have hr : A = B * n + (A - n * B) := by rw [Nat.mul_comm]; omega
    have hlt : A - n * B < B := by omega
    have hq : A / B = n := by
      rw [hr, Nat.mul_add_div hB, Nat.div_eq_of_lt hlt]; simp
    have hm : A % B = A - n * B := by
      rw [hr, Nat.mul_add_mod, Nat.mod_eq_of_lt hlt]; omega
    unfold roundHE
    rw [hq, hm]; simp [h1]
  · -- A = (n-1)*B + (B - r') with 2r' < B, r' > 0
    have hlt : A < n * B := Nat.lt_of_not_ge hge
    have hn : 1 ≤ n := by
      cases n with
      | zero => simp at hlt
      | succ k => omega
    have hr' : n * B - A < B := by omega
    have e : n * B = (n - 1) * B + B := by
      have : n = (n - 1) + 1 := by omega
      conv => lhs; rw [this, Nat.add_mul]; simp
    have hr : A = B * (n - 1) + (B - (n * B - A)) := by rw [Nat.mul_comm B]; omega
    have hlt2 : B - (n * B - A) < B := by omega
    have hq : A / B = n - 1 := by
      rw [hr, Nat.mul_add_div hB, Nat.div_eq_of_lt hlt2]; simp
    have hm : A % B = B - (n * B - A) := by
      rw [hr, Nat.mul_add_mod, Nat.mod_eq_of_lt hlt2]; omega
    unfold roundHE
    rw [hq, hm]
    have c1 : ¬ (2 * (B - (n * B - A)) < B) := by omega
    have c2 : 2 * (B - (n * B - A)) > B := by omega
    simp [c1, c2]; omega

/-- the numerical core of the binary64 bridge: a double `m / 2^j` with `j ≥ 20` (every double below 2^33 has such
an exponent) that lies within half an ulp `1 / 2^(j+1)` of the decimal `n6 / 10^6` is printed by `'%f'` with
exactly the six-place digits `n6` -/
theorem sixth_decimal_recovered (m j n6 : Nat) (hj : 20 ≤ j)
    (h1 : 2 * (m * 10 ^ 6 - n6 * 2 ^ j) ≤ 10 ^ 6) (h2 : 2 * (n6 * 2 ^ j - m * 10 ^ 6) ≤ 10 ^ 6) :
    roundHE (m * 10 ^ 6 / 2 ^ j) (m * 10 ^ 6 % 2 ^ j) (2 ^ j) = n6 := by
  have hB : 10 ^ 6 < 2 ^ j := by
    have : 2 ^ 20 ≤ 2 ^ j := Nat.pow_le_pow_right (by decide) hj
    have : (10 : Nat) ^ 6 < 2 ^ 20 := by decide
    omega
  exact roundHE_recovers _ _ _ (by omega) (by omega)


/-- `'%f' % x` for such a double is the six-place rendering of `n6 / 10^6` -/
theorem pctF_of_close (neg : Bool) (m j n6 : Nat) (hj : 20 ≤ j)
    (h1 : 2 * (m * 10 ^ 6 - n6 * 2 ^ j) ≤ 10 ^ 6) (h2 : 2 * (n6 * 2 ^ j - m * 10 ^ 6) ≤ 10 ^ 6) :
    F.pctF { neg := neg, m := m, e := -(j : Int) } =
      (if neg then [cMinus] else []) ++ natToDigits (n6 / 10 ^ 6) ++ cDot ::
        (List.replicate (6 - (natToDigits (n6 % 10 ^ 6)).length) cZero ++ natToDigits (n6 % 10 ^ 6)) := by
  have hr := sixth_decimal_recovered m j n6 hj h1 h2
  unfold F.pctF scaledDiv
  have e1 : ¬ (-(-(j : Int)) < 0) := by omega
  have e2 : (-(-(j : Int))).toNat = j := by omega
  simp only [e1, if_false, e2, Nat.one_mul, hr]

/-- rounding half to even moves a quotient by at most one half -/
theorem roundHE_close (n d : Nat) (hd : 0 < d) :
    2 * (roundHE (n / d) (n % d) d * d - n) ≤ d ∧ 2 * (n - roundHE (n / d) (n % d) d * d) ≤ d := by
  have hdm : d * (n / d) + n % d = n := Nat.div_add_mod n d
  have hr : n % d < d := Nat.mod_lt n hd
  have hc : n / d * d = d * (n / d) := Nat.mul_comm _ _
  have hs : (n / d + 1) * d = d * (n / d) + d := by rw [Nat.add_mul, hc]; simp
  unfold roundHE
  split
  · rw [hc]; omega
  · split
    · rw [hs]; omega
    · split
      · rw [hc]; omega
      · rw [hs]; omega

/-- **accuracy of the float conversion of the model**: whatever exponent is chosen, the double `m · 2^-j` returned
for `num / den` lies within half a unit in the last place, `|m / 2^j - num / den| ≤ 1 / 2^(j+1)` (the inequality is
multiplied out) -/
theorem roundAt_half_ulp (num den : Nat) (hd : 0 < den) (e2 : Int) (m j : Nat)
    (h : roundAt num den e2 = some (m, -(j : Int))) (hj : 0 < j) :
    2 * (m * den - num * 2 ^ j) ≤ den ∧ 2 * (num * 2 ^ j - m * den) ≤ den := by
  unfold roundAt at h
  simp only at h
  by_cases hc : roundHE (scaledDiv num den e2).1 (scaledDiv num den e2).2.1 (scaledDiv num den e2).2.2 = 2 ^ 53
  · -- the carry into the next binade: `e2 = -(j+1)`, rounded mantissa `2^53`
    simp only [hc, if_true] at h
    split at h
    · cases h
    · injection h with h
      injection h with hm he
      have he2 : e2 = -((j + 1 : Nat) : Int) := by omega
      subst he2
      have hneg : (-((j + 1 : Nat) : Int)) < 0 := by omega
      have hab : (-((j + 1 : Nat) : Int)).natAbs = j + 1 := by omega
      unfold scaledDiv at hc
      simp only [hneg, if_true, hab] at hc
      have := roundHE_close (num * 2 ^ (j + 1)) den hd
      rw [hc] at this
      subst hm
      have e53 : (2 : Nat) ^ 53 = 2 * 2 ^ 52 := by decide
      have ej : num * 2 ^ (j + 1) = 2 * (num * 2 ^ j) := by rw [Nat.pow_succ]; ac_rfl
      rw [e53, ej, Nat.mul_assoc] at this
      omega
  · simp only [hc, if_false] at h
    split at h
    · cases h
    · injection h with h
      injection h with hm he
      subst he
      have hneg : (-(j : Int)) < 0 := by omega
      have hab : (-(j : Int)).natAbs = j := by omega
      unfold scaledDiv at hm
      simp only [hneg, if_true, hab] at hm
      have := roundHE_close (num * 2 ^ j) den hd
      rw [hm] at this
      exact this

theorem nearestF64_half_ulp (num den : Nat) (hd : 0 < den) (m j : Nat)
    (h : nearestF64 num den = some (m, -(j : Int))) (hj : 0 < j) :
    2 * (m * den - num * 2 ^ j) ≤ den ∧ 2 * (num * 2 ^ j - m * den) ≤ den :=
  roundAt_half_ulp num den hd _ m j h hj

/-- the double of a literal with `k ≤ 6` fraction digits and digits `n` (value `n / 10^k`), when its exponent is
`≤ -20`, is printed by `'%f'` with exactly the six-place digits `n · 10^(6-k)` -/
theorem pctF_of_nearest (neg : Bool) (n k m j : Nat) (hk : k ≤ 6) (hj : 20 ≤ j)
    (h : nearestF64 n (10 ^ k) = some (m, -(j : Int))) :
    F.pctF { neg := neg, m := m, e := -(j : Int) } =
      (if neg then [cMinus] else []) ++ natToDigits (n * 10 ^ (6 - k) / 10 ^ 6) ++ cDot ::
        (List.replicate (6 - (natToDigits (n * 10 ^ (6 - k) % 10 ^ 6)).length) cZero ++
          natToDigits (n * 10 ^ (6 - k) % 10 ^ 6)) := by
  have hpos : 0 < 10 ^ k := Nat.pow_pos (by decide)
  obtain ⟨a1, a2⟩ := nearestF64_half_ulp n (10 ^ k) hpos m j h (by omega)
  have e6 : (10 : Nat) ^ 6 = 10 ^ k * 10 ^ (6 - k) := by rw [← Nat.pow_add]; congr 1; omega
  have c : 0 < 10 ^ (6 - k) := Nat.pow_pos (by decide)
  apply pctF_of_close neg m j (n * 10 ^ (6 - k)) hj
  · -- multiply the half-ulp inequality by 10^(6-k)
    have : 2 * (m * 10 ^ k - n * 2 ^ j) * 10 ^ (6 - k) ≤ 10 ^ k * 10 ^ (6 - k) := Nat.mul_le_mul_right _ a1
    rw [e6]
    have e : m * (10 ^ k * 10 ^ (6 - k)) - n * 10 ^ (6 - k) * 2 ^ j = (m * 10 ^ k - n * 2 ^ j) * 10 ^ (6 - k) := by
      rw [Nat.sub_mul]; congr 1 <;> ac_rfl
    rw [e]; rw [Nat.mul_assoc] at this; exact this
  · have : 2 * (n * 2 ^ j - m * 10 ^ k) * 10 ^ (6 - k) ≤ 10 ^ k * 10 ^ (6 - k) := Nat.mul_le_mul_right _ a2
    rw [e6]
    have e : n * 10 ^ (6 - k) * 2 ^ j - m * (10 ^ k * 10 ^ (6 - k)) = (n * 2 ^ j - m * 10 ^ k) * 10 ^ (6 - k) := by
      rw [Nat.sub_mul]; congr 1 <;> ac_rfl
    rw [e]; rw [Nat.mul_assoc] at this; exact this

/-- **the window**: a normal double (`2^52 ≤ m`) `m · 2^-j` that is the conversion of a decimal `n / 10^k` with at most
six fraction digits and value below `2^33` has `j ≥ 20` — below `2^33` half an ulp is less than half a unit of the
sixth decimal (`10^6 < 2^20`), which is exactly why the window of `C18-float-digits` ends at `2^33` -/
theorem window_exponent (n k m j : Nat) (hk : k ≤ 6) (hj : 0 < j) (hm : 2 ^ 52 ≤ m)
    (hn : n < 2 ^ 33 * 10 ^ k) (h : nearestF64 n (10 ^ k) = some (m, -(j : Int))) : 20 ≤ j := by
  have hpos : 0 < 10 ^ k := Nat.pow_pos (by decide)
  obtain ⟨a1, _⟩ := nearestF64_half_ulp n (10 ^ k) hpos m j h hj
  have hT : 10 ^ k ≤ 10 ^ 6 := Nat.pow_le_pow_right (by decide) hk
  have hA : 2 ^ 52 * 10 ^ k ≤ m * 10 ^ k := Nat.mul_le_mul_right _ hm
  apply Classical.byContradiction
  intro hlt
  have hj19 : j ≤ 19 := by omega
  have hB : n * 2 ^ j ≤ n * 2 ^ 19 := Nat.mul_le_mul_left _ (Nat.pow_le_pow_right (by decide) hj19)
  generalize 10 ^ k = T at *
  generalize m * T = A at *
  generalize n * 2 ^ j = B at *
  have e52 : (2 : Nat) ^ 52 = 4503599627370496 := by decide
  have e33 : (2 : Nat) ^ 33 = 8589934592 := by decide
  have e19 : (2 : Nat) ^ 19 = 524288 := by decide
  have e6 : (10 : Nat) ^ 6 = 1000000 := by decide
  rw [e52] at hA; rw [e33] at hn; rw [e19] at hB; rw [e6] at hT
  omega

/-- for every literal with at most six fraction digits and value below `2^33` whose double is normal with a negative
exponent, `'%f'` of that double prints exactly the literal's value on six places -/
theorem pctF_in_window (neg : Bool) (n k m j : Nat) (hk : k ≤ 6) (hj : 0 < j) (hm : 2 ^ 52 ≤ m)
    (hn : n < 2 ^ 33 * 10 ^ k) (h : nearestF64 n (10 ^ k) = some (m, -(j : Int))) :
    F.pctF { neg := neg, m := m, e := -(j : Int) } =
      (if neg then [cMinus] else []) ++ natToDigits (n * 10 ^ (6 - k) / 10 ^ 6) ++ cDot ::
        (List.replicate (6 - (natToDigits (n * 10 ^ (6 - k) % 10 ^ 6)).length) cZero ++
          natToDigits (n * 10 ^ (6 - k) % 10 ^ 6)) :=
  pctF_of_nearest neg n k m j hk (window_exponent n k m j hk hj hm hn h) h

end CssVerif.Num
