import CssVerif.Model.NumF64
/-!
Helper lemmas for C18 (binary64 layer): the numerical core of the bridge between the exact layer and CPython's floats.
-/
namespace CssVerif.Num

/-- rounding `A / B` to the nearest integer gives `n` whenever `A / B` is closer than one half to `n` -/
theorem roundHE_recovers (A B n : Nat) (h1 : 2 * (A - n * B) < B) (h2 : 2 * (n * B - A) < B) :
    roundHE (A / B) (A % B) B = n := by
  have hB : 0 < B := by omega
  by_cases hge : n * B ≤ A
  · -- A = n*B + r with 2r < B
    have hr : A = B * n + (A - n * B) := by rw [Nat.mul_comm]; omega
    have hlt : A - n * B < B := by omega
    have hq : A / B = n := by
      rw [hr, Nat.mul_add_div hB, Nat.div_eq_of_lt hlt]; simp
    have hm : A % B = A - n * B := by
      rw [hr, Nat.mul_add_mod, Nat.mod_eq_of_lt hlt]; omega
    unfold roundHE
    rw [hq, hm]; simp [h1]
  · -- A = (n-1)*B + (B - r') with 2r' < B, r' > 0
    have hlt : A < n * B := Nat.lt_of_not_ge hge
    have hn : 1 ≤ n := by
      cases n with
      | zero => simp at hlt
      | succ k => omega
    have hr' : n * B - A < B := by omega
    have e : n * B = (n - 1) * B + B := by
      have : n = (n - 1) + 1 := by omega
      conv => lhs; rw [this, Nat.add_mul]; simp
    have hr : A = B * (n - 1) + (B - (n * B - A)) := by rw [Nat.mul_comm B]; omega
    have hlt2 : B - (n * B - A) < B := by omega
    have hq : A / B = n - 1 := by
      rw [hr, Nat.mul_add_div hB, Nat.div_eq_of_lt hlt2]; simp
    have hm : A % B = B - (n * B - A) := by
      rw [hr, Nat.mul_add_mod, Nat.mod_eq_of_lt hlt2]; omega
    unfold roundHE
    rw [hq, hm]
    have c1 : ¬ (2 * (B - (n * B - A)) < B) := by omega
    have c2 : 2 * (B - (n * B - A)) > B := by omega
    simp [c1, c2]; omega

/-- the numerical core of the binary64 bridge: a double `m / 2^j` with `j ≥ 20` (every double below 2^33 has such
an exponent) that lies within half an ulp `1 / 2^(j+1)` of the decimal `n6 / 10^6` is printed by `'%f'` with
exactly the six-place digits `n6` -/
theorem sixth_decimal_recovered (m j n6 : Nat) (hj : 20 ≤ j)
    (h1 : 2 * (m * 10 ^ 6 - n6 * 2 ^ j) ≤ 10 ^ 6) (h2 : 2 * (n6 * 2 ^ j - m * 10 ^ 6) ≤ 10 ^ 6) :
    roundHE (m * 10 ^ 6 / 2 ^ j) (m * 10 ^ 6 % 2 ^ j) (2 ^ j) = n6 := by
  have hB : 10 ^ 6 < 2 ^ j := by
    have : 2 ^ 20 ≤ 2 ^ j := Nat.pow_le_pow_right (by decide) hj
    have : (10 : Nat) ^ 6 < 2 ^ 20 := by decide
    omega
  exact roundHE_recovers _ _ _ (by omega) (by omega)


/-- `'%f' % x` for such a double is the six-place rendering of `n6 / 10^6` -/
theorem pctF_of_close (neg : Bool) (m j n6 : Nat) (hj : 20 ≤ j)
    (h1 : 2 * (m * 10 ^ 6 - n6 * 2 ^ j) ≤ 10 ^ 6) (h2 : 2 * (n6 * 2 ^ j - m * 10 ^ 6) ≤ 10 ^ 6) :
    F.pctF { neg := neg, m := m, e := -(j : Int) } =
      (if neg then [cMinus] else []) ++ natToDigits (n6 / 10 ^ 6) ++ cDot ::
        (List.replicate (6 - (natToDigits (n6 % 10 ^ 6)).length) cZero ++ natToDigits (n6 % 10 ^ 6)) := by
  have hr := sixth_decimal_recovered m j n6 hj h1 h2
  unfold F.pctF scaledDiv
  have e1 : ¬ (-(-(j : Int)) < 0) := by omega
  have e2 : (-(-(j : Int))).toNat = j := by omega
  simp only [e1, if_false, e2, Nat.one_mul, hr]

/-- rounding half to even moves a quotient by at most one half -/
theorem roundHE_close (n d : Nat) (hd : 0 < d) :
    2 * (roundHE (n / d) (n % d) d * d - n) ≤ d ∧ 2 * (n - roundHE (n / d) (n % d) d * d) ≤ d := by
  have hdm : d * (n / d) + n % d = n := Nat.div_add_mod n d
  have hr : n % d < d := Nat.mod_lt n hd
  have hc : n / d * d = d * (n / d) := Nat.mul_comm _ _
  have hs : (n / d + 1) * d = d * (n / d) + d := by rw [Nat.add_mul, hc]; simp
  unfold roundHE
  split
  · rw [hc]; omega
  · split
    · rw [hs]; omega
    · split
      · rw [hc]; omega
      · rw [hs]; omega

/-- **accuracy of the float conversion of the model**: whatever exponent is chosen, the double `m · 2^-j` returned
for `num / den` lies within half a unit in the last place, `|m / 2^j - num / den| ≤ 1 / 2^(j+1)` (the inequality is
multiplied out) -/
theorem roundAt_half_ulp (num den : Nat) (hd : 0 < den) (e2 : Int) (m j : Nat)
    (h : roundAt num den e2 = some (m, -(j : Int))) (hj : 0 < j) :
    2 * (m * den - num * 2 ^ j) ≤ den ∧ 2 * (num * 2 ^ j - m * den) ≤ den := by
  unfold roundAt at h
  simp only at h
  by_cases hc : roundHE (scaledDiv num den e2).1 (scaledDiv num den e2).2.1 (scaledDiv num den e2).2.2 = 2 ^ 53
  · -- the carry into the next binade: `e2 = -(j+1)`, rounded mantissa `2^53`
    simp only [hc, if_true] at h
    split at h
    · cases h
    · injection h with h
      injection h with hm he
      have he2 : e2 = -((j + 1 : Nat) : Int) := by omega
      subst he2
      have hneg : (-((j + 1 : Nat) : Int)) < 0 := by omega
      have hab : (-((j + 1 : Nat) : Int)).natAbs = j + 1 := by omega
      unfold scaledDiv at hc
      simp only [hneg, if_true, hab] at hc
      have := roundHE_close (num * 2 ^ (j + 1)) den hd
      rw [hc] at this
      subst hm
      have e53 : (2 : Nat) ^ 53 = 2 * 2 ^ 52 := by decide
      have ej : num * 2 ^ (j + 1) = 2 * (num * 2 ^ j) := by rw [Nat.pow_succ]; ac_rfl
      rw [e53, ej, Nat.mul_assoc] at this
      omega
  · simp only [hc, if_false] at h
    split at h
    · cases h
    · injection h with h
      injection h with hm he
      subst he
      have hneg : (-(j : Int)) < 0 := by omega
      have hab : (-(j : Int)).natAbs = j := by omega
      unfold scaledDiv at hm
      simp only [hneg, if_true, hab] at hm
      have := roundHE_close (num * 2 ^ j) den hd
      rw [hm] at this
      exact this

theorem nearestF64_half_ulp (num den : Nat) (hd : 0 < den) (m j : Nat)
    (h : nearestF64 num den = some (m, -(j : Int))) (hj : 0 < j) :
    2 * (m * den - num * 2 ^ j) ≤ den ∧ 2 * (num * 2 ^ j - m * den) ≤ den :=
  roundAt_half_ulp num den hd _ m j h hj

/-- the double of a literal with `k ≤ 6` fraction digits and digits `n` (value `n / 10^k`), when its exponent is
`≤ -20`, is printed by `'%f'` with exactly the six-place digits `n · 10^(6-k)` -/
theorem pctF_of_nearest (neg : Bool) (n k m j : Nat) (hk : k ≤ 6) (hj : 20 ≤ j)
    (h : nearestF64 n (10 ^ k) = some (m, -(j : Int))) :
    F.pctF { neg := neg, m := m, e := -(j : Int) } =
      (if neg then [cMinus] else []) ++ natToDigits (n * 10 ^ (6 - k) / 10 ^ 6) ++ cDot ::
        (List.replicate (6 - (natToDigits (n * 10 ^ (6 - k) % 10 ^ 6)).length) cZero ++
          natToDigits (n * 10 ^ (6 - k) % 10 ^ 6)) := by
  have hpos : 0 < 10 ^ k := Nat.pow_pos (by decide)
  obtain ⟨a1, a2⟩ := nearestF64_half_ulp n (10 ^ k) hpos m j h (by omega)
  have e6 : (10 : Nat) ^ 6 = 10 ^ k * 10 ^ (6 - k) := by rw [← Nat.pow_add]; congr 1; omega
  have c : 0 < 10 ^ (6 - k) := Nat.pow_pos (by decide)
  apply pctF_of_close neg m j (n * 10 ^ (6 - k)) hj
  · -- multiply the half-ulp inequality by 10^(6-k)
    have : 2 * (m * 10 ^ k - n * 2 ^ j) * 10 ^ (6 - k) ≤ 10 ^ k * 10 ^ (6 - k) := Nat.mul_le_mul_right _ a1
    rw [e6]
    have e : m * (10 ^ k * 10 ^ (6 - k)) - n * 10 ^ (6 - k) * 2 ^ j = (m * 10 ^ k - n * 2 ^ j) * 10 ^ (6 - k) := by
      rw [Nat.sub_mul]; congr 1 <;> ac_rfl
    rw [e]; rw [Nat.mul_assoc] at this; exact this
  · have : 2 * (n * 2 ^ j - m * 10 ^ k) * 10 ^ (6 - k) ≤ 10 ^ k * 10 ^ (6 - k) := Nat.mul_le_mul_right _ a2
    rw [e6]
    have e : n * 10 ^ (6 - k) * 2 ^ j - m * (10 ^ k * 10 ^ (6 - k)) = (n * 2 ^ j - m * 10 ^ k) * 10 ^ (6 - k) := by
      rw [Nat.sub_mul]; congr 1 <;> ac_rfl
    rw [e]; rw [Nat.mul_assoc] at this; exact this

/-- **the window**: a normal double (`2^52 ≤ m`) `m · 2^-j` that is the conversion of a decimal `n / 10^k` with at most
six fraction digits and value below `2^33` has `j ≥ 20` — below `2^33` half an ulp is less than half a unit of the
sixth decimal (`10^6 < 2^20`), which is exactly why the window of `C18-float-digits` ends at `2^33` -/
theorem window_exponent (n k m j : Nat) (hk : k ≤ 6) (hj : 0 < j) (hm : 2 ^ 52 ≤ m)
    (hn : n < 2 ^ 33 * 10 ^ k) (h : nearestF64 n (10 ^ k) = some (m, -(j : Int))) : 20 ≤ j := by
  have hpos : 0 < 10 ^ k := Nat.pow_pos (by decide)
  obtain ⟨a1, _⟩ := nearestF64_half_ulp n (10 ^ k) hpos m j h hj
  have hT : 10 ^ k ≤ 10 ^ 6 := Nat.pow_le_pow_right (by decide) hk
  have hA : 2 ^ 52 * 10 ^ k ≤ m * 10 ^ k := Nat.mul_le_mul_right _ hm
  apply Classical.byContradiction
  intro hlt
  have hj19 : j ≤ 19 := by omega
  have hB : n * 2 ^ j ≤ n * 2 ^ 19 := Nat.mul_le_mul_left _ (Nat.pow_le_pow_right (by decide) hj19)
  generalize 10 ^ k = T at *
  generalize m * T = A at *
  generalize n * 2 ^ j = B at *
  have e52 : (2 : Nat) ^ 52 = 4503599627370496 := by decide
  have e33 : (2 : Nat) ^ 33 = 8589934592 := by decide
  have e19 : (2 : Nat) ^ 19 = 524288 := by decide
  have e6 : (10 : Nat) ^ 6 = 1000000 := by decide
  rw [e52] at hA; rw [e33] at hn; rw [e19] at hB; rw [e6] at hT
  omega

/-- for every literal with at most six fraction digits and value below `2^33` whose double is normal with a negative
exponent, `'%f'` of that double prints exactly the literal's value on six places -/
theorem pctF_in_window (neg : Bool) (n k m j : Nat) (hk : k ≤ 6) (hj : 0 < j) (hm : 2 ^ 52 ≤ m)
    (hn : n < 2 ^ 33 * 10 ^ k) (h : nearestF64 n (10 ^ k) = some (m, -(j : Int))) :
    F.pctF { neg := neg, m := m, e := -(j : Int) } =
      (if neg then [cMinus] else []) ++ natToDigits (n * 10 ^ (6 - k) / 10 ^ 6) ++ cDot ::
        (List.replicate (6 - (natToDigits (n * 10 ^ (6 - k) % 10 ^ 6)).length) cZero ++
          natToDigits (n * 10 ^ (6 - k) % 10 ^ 6)) :=
  pctF_of_nearest neg n k m j hk (window_exponent n k m j hk hj hm hn h) h

theorem scaledDiv_neg (num den t : Nat) (ht : 0 < t) :
    scaledDiv num den (-(t : Int)) = (num * 2 ^ t / den, num * 2 ^ t % den, den) := by
  have hneg : (-(t : Int)) < 0 := by omega
  have hab : (-(t : Int)).natAbs = t := by omega
  simp [scaledDiv, hab, ht]

/-- **the exponent the conversion chooses**: for `0 < num / den < 2^W`, `W ≤ 51`, with `den < 2^20` (decimals with at
most six fraction digits) `chooseExp` returns a negative exponent `-t`, `t ≥ 52 - W`, at which the truncated quotient
has exactly 53 bits -/
theorem chooseExp_window_gen (W : Nat) (hW : W ≤ 51) (num den : Nat) (hnum : 0 < num) (hden : 0 < den)
    (hwin : num < 2 ^ W * den) (hsmall : den < 2 ^ 20) :
    ∃ t : Nat, chooseExp num den = -(t : Int) ∧ 52 - W ≤ t ∧ 0 < t ∧ 2 ^ 52 ≤ num * 2 ^ t / den ∧
      num * 2 ^ t / den < 2 ^ 53 := by
  have ha1 := Nat.log2_self_le (Nat.pos_iff_ne_zero.mp hnum)
  have ha2 := @Nat.lt_log2_self num
  have hb1 := Nat.log2_self_le (Nat.pos_iff_ne_zero.mp hden)
  have hb2 := @Nat.lt_log2_self den
  unfold chooseExp
  generalize Nat.log2 num = a at *
  generalize Nat.log2 den = b at *
  have hb20 : b < 20 := by
    have : 2 ^ b < 2 ^ 20 := Nat.lt_of_le_of_lt hb1 hsmall
    exact (Nat.pow_lt_pow_iff_right (by decide)).mp this
  have hab : a < W + 1 + b := by
    have h1 : 2 ^ a < 2 ^ W * 2 ^ (b + 1) :=
      Nat.lt_of_le_of_lt ha1 (Nat.lt_trans hwin ((Nat.mul_lt_mul_left (Nat.pow_pos (by decide))).mpr hb2))
    rw [← Nat.pow_add] at h1
    have := (Nat.pow_lt_pow_iff_right (by decide)).mp h1
    omega
  -- s = -(e0)
  obtain ⟨s, hs⟩ : ∃ s : Nat, s = 52 + b - a := ⟨_, rfl⟩
  have hs19 : 52 - W ≤ s := by omega
  have hs1 : 1 ≤ s := by omega
  have hs71 : s ≤ 71 := by omega
  have he0 : (a : Int) - (b : Int) - 52 = -(s : Int) := by omega
  have he1 : -(s : Int) - 1 = -((s + 1 : Nat) : Int) := by omega
  have e1 : 2 ^ a * 2 ^ s = 2 ^ 52 * 2 ^ b := by
    rw [← Nat.pow_add, ← Nat.pow_add]; congr 1; omega
  have e2 : 2 ^ (a + 1) * 2 ^ s = 2 * (2 ^ 52 * 2 ^ b) := by
    rw [Nat.pow_succ, Nat.mul_right_comm, e1, Nat.mul_comm]
  have hX1 : 2 ^ 52 * 2 ^ b ≤ num * 2 ^ s := e1 ▸ Nat.mul_le_mul_right (2 ^ s) ha1
  have hX2 : num * 2 ^ s < 2 * (2 ^ 52 * 2 ^ b) :=
    e2 ▸ (Nat.mul_lt_mul_right (Nat.pow_pos (by decide))).mpr ha2
  have hX' : num * 2 ^ (s + 1) = 2 * (num * 2 ^ s) := by rw [Nat.pow_succ]; ac_rfl
  have e52 : (2 : Nat) ^ 52 = 4503599627370496 := by decide
  have e53 : (2 : Nat) ^ 53 = 9007199254740992 := by decide
  have hb2' : den < 2 * 2 ^ b := by rw [Nat.pow_succ] at hb2; omega
  -- the quotient at e0 is below 2^53, the one at e0 - 1 at least 2^52
  have q0lt : num * 2 ^ s / den < 2 ^ 53 := by
    rw [Nat.div_lt_iff_lt_mul hden, e53]; rw [e52] at hX2; omega
  simp only [he0, he1, scaledDiv_neg num den s (by omega), scaledDiv_neg num den (s + 1) (by omega)]
  by_cases hp : 2 ^ 52 ≤ num * 2 ^ s / den
  · refine ⟨s, ?_, hs19, hs1, hp, q0lt⟩
    simp only [hp, q0lt, decide_true, Bool.and_self, if_true]
    have : ¬ (-(s : Int) < -1074) := by omega
    rw [if_neg this]
  · have hp' : num * 2 ^ s / den < 2 ^ 52 := Nat.lt_of_not_ge hp
    have q1ge : 2 ^ 52 ≤ num * 2 ^ (s + 1) / den := by
      rw [Nat.le_div_iff_mul_le hden, hX', e52]; rw [e52] at hX1; omega
    have q1lt : num * 2 ^ (s + 1) / den < 2 ^ 53 := by
      rw [Nat.div_lt_iff_lt_mul hden, hX', e53]
      rw [Nat.div_lt_iff_lt_mul hden, e52] at hp'; omega
    refine ⟨s + 1, ?_, by omega, by omega, q1ge, q1lt⟩
    simp only [hp, q1ge, q1lt, decide_true, decide_false, Bool.false_and, Bool.and_self, if_true, if_false,
      Bool.false_eq_true]
    have : ¬ (-((s + 1 : Nat) : Int) < -1074) := by omega
    rw [if_neg this]

/-- the instance for the window of `C18-float-digits`: below `2^33` the exponent is at most `-19` -/
theorem chooseExp_window (num den : Nat) (hnum : 0 < num) (hden : 0 < den) (hwin : num < 2 ^ 33 * den)
    (hsmall : den < 2 ^ 20) :
    ∃ t : Nat, chooseExp num den = -(t : Int) ∧ 19 ≤ t ∧ 2 ^ 52 ≤ num * 2 ^ t / den ∧ num * 2 ^ t / den < 2 ^ 53 := by
  obtain ⟨t, h1, h2, _, h4, h5⟩ := chooseExp_window_gen 33 (by decide) num den hnum hden hwin hsmall
  exact ⟨t, h1, by omega, h4, h5⟩

theorem roundHE_bounds (q r d : Nat) : q ≤ roundHE q r d ∧ roundHE q r d ≤ q + 1 := by
  unfold roundHE
  split
  · omega
  · split
    · omega
    · split <;> omega

/-- inside the window the conversion returns a normal double with a negative exponent -/
theorem nearestF64_window (num den : Nat) (hnum : 0 < num) (hden : 0 < den) (hwin : num < 2 ^ 33 * den)
    (hsmall : den < 2 ^ 20) :
    ∃ m j : Nat, nearestF64 num den = some (m, -(j : Int)) ∧ 0 < j ∧ 2 ^ 52 ≤ m := by
  obtain ⟨t, ht, h19, hq1, hq2⟩ := chooseExp_window num den hnum hden hwin hsmall
  have hb := roundHE_bounds (num * 2 ^ t / den) (num * 2 ^ t % den) den
  unfold nearestF64 roundAt
  simp only [ht, scaledDiv_neg num den t (by omega)]
  by_cases hc : roundHE (num * 2 ^ t / den) (num * 2 ^ t % den) den = 2 ^ 53
  · refine ⟨2 ^ 52, t - 1, ?_, by omega, Nat.le_refl _⟩
    have e : -(t : Int) + 1 = -((t - 1 : Nat) : Int) := by omega
    have hno : ¬ (-((t - 1 : Nat) : Int) + 52 ≥ 1024) := by omega
    simp only [hc, if_true, e, hno, if_false]
  · refine ⟨roundHE (num * 2 ^ t / den) (num * 2 ^ t % den) den, t, ?_, by omega, Nat.le_trans hq1 hb.1⟩
    have hno : ¬ (-(t : Int) + 52 ≥ 1024) := by omega
    simp only [hc, if_false, hno]

/-- **the `'%f'` step of the bridge on the whole window, without hypotheses on the double**: for every non-zero
literal with digits `n`, `k ≤ 6` fraction digits and value below `2^33`, the double that the conversion returns is
printed by `'%f'` as exactly `n · 10^(6-k)` on six places -/
theorem pctF_window (neg : Bool) (n k : Nat) (hk : k ≤ 6) (hn0 : 0 < n) (hn : n < 2 ^ 33 * 10 ^ k) :
    ∃ m j : Nat, nearestF64 n (10 ^ k) = some (m, -(j : Int)) ∧
      F.pctF { neg := neg, m := m, e := -(j : Int) } =
        (if neg then [cMinus] else []) ++ natToDigits (n * 10 ^ (6 - k) / 10 ^ 6) ++ cDot ::
          (List.replicate (6 - (natToDigits (n * 10 ^ (6 - k) % 10 ^ 6)).length) cZero ++
            natToDigits (n * 10 ^ (6 - k) % 10 ^ 6)) := by
  have hpos : 0 < 10 ^ k := Nat.pow_pos (by decide)
  have hsm : 10 ^ k < 2 ^ 20 :=
    Nat.lt_of_le_of_lt (Nat.pow_le_pow_right (by decide) hk) (by decide)
  obtain ⟨m, j, h, hj, hm⟩ := nearestF64_window n (10 ^ k) hn0 hpos hn hsm
  exact ⟨m, j, h, pctF_in_window neg n k m j hk hj hm hn h⟩

/-- the same through `float(sign + ip + '.' + fp)` -/
theorem toF64_pctF_window (sign ip fp : List Nat) (hk : fp.length ≤ 6) (hn0 : natOfDigits (ip ++ fp) ≠ 0)
    (hn : natOfDigits (ip ++ fp) < 2 ^ 33 * 10 ^ fp.length) :
    ∃ x : F64, toF64 sign ip fp = some x ∧
      F.pctF x =
        (if sign == [cMinus] then [cMinus] else []) ++
          natToDigits (natOfDigits (ip ++ fp) * 10 ^ (6 - fp.length) / 10 ^ 6) ++ cDot ::
          (List.replicate (6 - (natToDigits (natOfDigits (ip ++ fp) * 10 ^ (6 - fp.length) % 10 ^ 6)).length) cZero ++
            natToDigits (natOfDigits (ip ++ fp) * 10 ^ (6 - fp.length) % 10 ^ 6)) := by
  obtain ⟨m, j, h, hp⟩ := pctF_window (sign == [cMinus]) (natOfDigits (ip ++ fp)) fp.length hk
    (Nat.pos_of_ne_zero hn0) hn
  refine ⟨{ neg := sign == [cMinus], m := m, e := -(j : Int) }, ?_, hp⟩
  unfold toF64
  simp only [hn0, if_false, h]

end CssVerif.Num
