import CssVerif.Model.NumF64
/-!
Helper lemmas for C18 (binary64 layer): the numerical core of the bridge between the exact layer and CPython's floats.
-/
namespace CssVerif.Num

/-- rounding `A / B` to the nearest integer gives `n` whenever `A / B` is closer than one half to `n` -/
theorem roundHE_recovers (A B n : Nat) (h1 : 2 * (A - n * B) < B) (h2 : 2 * (n * B - A) < B) :
    roundHE (A / B) (A % B) B = n := by
  have hB : 0 < B := by omega
  by_cases hge : n * B ≤ A
  · -- A = n*B + r with 2r < B
    have hr : A = B * n + (A - n * B) := by rw [Nat.mul_comm]; omega
    have hlt : A - n * B < B := by omega
    have hq : A / B = n := by
      rw [hr, Nat.mul_add_div hB, Nat.div_eq_of_lt hlt]; simp
    have hm : A % B = A - n * B := by
      rw [hr, Nat.mul_add_mod, Nat.mod_eq_of_lt hlt]; omega
    unfold roundHE
    rw [hq, hm]; simp [h1]
  · -- A = (n-1)*B + (B - r') with 2r' < B, r' > 0
    have hlt : A < n * B := Nat.lt_of_not_ge hge
    have hn : 1 ≤ n := by
      cases n with
      | zero => simp at hlt
      | succ k => omega
    have hr' : n * B - A < B := by omega
    have e : n * B = (n - 1) * B + B := by
      have : n = (n - 1) + 1 := by omega
      conv => lhs; rw [this, Nat.add_mul]; simp
    have hr : A = B * (n - 1) + (B - (n * B - A)) := by rw [Nat.mul_comm B]; omega
    have hlt2 : B - (n * B - A) < B := by omega
    have hq : A / B = n - 1 := by
      rw [hr, Nat.mul_add_div hB, Nat.div_eq_of_lt hlt2]; simp
    have hm : A % B = B - (n * B - A) := by
      rw [hr, Nat.mul_add_mod, Nat.mod_eq_of_lt hlt2]; omega
    unfold roundHE
    rw [hq, hm]
    have c1 : ¬ (2 * (B - (n * B - A)) < B) := by omega
    have c2 : 2 * (B - (n * B - A)) > B := by omega
    simp [c1, c2]; omega

/-- the numerical core of the binary64 bridge: a double `m / 2^j` with `j ≥ 20` (every double below 2^33 has such
an exponent) that lies within half an ulp `1 / 2^(j+1)` of the decimal `n6 / 10^6` is printed by `'%f'` with
exactly the six-place digits `n6` -/
theorem sixth_decimal_recovered (m j n6 : Nat) (hj : 20 ≤ j)
    (h1 : 2 * (m * 10 ^ 6 - n6 * 2 ^ j) ≤ 10 ^ 6) (h2 : 2 * (n6 * 2 ^ j - m * 10 ^ 6) ≤ 10 ^ 6) :
    roundHE (m * 10 ^ 6 / 2 ^ j) (m * 10 ^ 6 % 2 ^ j) (2 ^ j) = n6 := by
  have hB : 10 ^ 6 < 2 ^ j := by
    have : 2 ^ 20 ≤ 2 ^ j := Nat.pow_le_pow_right (by decide) hj
    have : (10 : Nat) ^ 6 < 2 ^ 20 := by decide
    omega
  exact roundHE_recovers _ _ _ (by omega) (by omega)


/-- `'%f' % x` for such a double is the six-place rendering of `n6 / 10^6` -/
theorem pctF_of_close (neg : Bool) (m j n6 : Nat) (hj : 20 ≤ j)
    (h1 : 2 * (m * 10 ^ 6 - n6 * 2 ^ j) ≤ 10 ^ 6) (h2 : 2 * (n6 * 2 ^ j - m * 10 ^ 6) ≤ 10 ^ 6) :
    F.pctF { neg := neg, m := m, e := -(j : Int) } =
      (if neg then [cMinus] else []) ++ natToDigits (n6 / 10 ^ 6) ++ cDot ::
        (List.replicate (6 - (natToDigits (n6 % 10 ^ 6)).length) cZero ++ natToDigits (n6 % 10 ^ 6)) := by
  have hr := sixth_decimal_recovered m j n6 hj h1 h2
  unfold F.pctF scaledDiv
  have e1 : ¬ (-(-(j : Int)) < 0) := by omega
  have e2 : (-(-(j : Int))).toNat = j := by omega
  simp only [e1, if_false, e2, Nat.one_mul, hr]

end CssVerif.Num
