import CssVerif.Model.ParseAll
/-!
# The media engine stays inside its model on tokens of the domain `mediaDom`

`Media.parseL` / `parseQ` answer `unsupported` only at an EOF token, at a colour FUNCTION in value position, or at
one of the punctuation values `( ) : ,` carried by a token that is not a CHAR. None of them is in `mediaDom`.
There is no fuel: both parsers are structural recursions over the token list.
-/
namespace CssVerif.MediaTotal
open CssVerif.Media CssVerif.Proto

structure Dom (t : Tok) : Prop where
  notEof : t.typ ≠ .eof
  notColorFn : ¬ (t.typ = .function ∧ colorFunctions.contains (normalize t.val) = true)
  punct : (t.val == cOpen || t.val == cClose || t.val == cColon || t.val == cComma) = true → t.typ = .char

theorem dom_of (t : Tok) (h : ParseAll.mediaDom t = true) : Dom t := by
  simp only [ParseAll.mediaDom, Bool.and_eq_true, Bool.or_eq_true, bne_iff_ne, ne_eq,
    beq_iff_eq, Bool.and_eq_false_iff, beq_eq_false_iff_ne, Bool.not_eq_eq_eq_not, Bool.not_true] at h
  obtain ⟨⟨h1, h2⟩, h3⟩ := h
  refine ⟨h1, ?_, ?_⟩
  · rintro ⟨ha, hb⟩
    rcases h2 with h2 | h2
    · exact h2 ha
    · rw [hb] at h2; cases h2
  · intro hp
    rcases h3 with h3 | h3
    · rw [hp] at h3; cases h3
    · exact h3

theorem valueKind_supported (t : Tok) (h : Dom t) : valueKind t ≠ some none := by
  unfold valueKind
  split
  · simp
  · split
    · rename_i hc; exact absurd hc h.notColorFn
    · split
      · simp
      · split <;> simp

theorem charOk_of (t : Tok) (h : Dom t) (c : Cps) (hc : c = cOpen ∨ c = cClose ∨ c = cColon ∨ c = cComma)
    (hv : charIs t c = true) : t.typ = .char := by
  apply h.punct
  simp only [charIs, beq_iff_eq] at hv
  simp only [Bool.or_eq_true, beq_iff_eq]
  rcases hc with rfl | rfl | rfl | rfl
  · exact Or.inl (Or.inl (Or.inl hv))
  · exact Or.inl (Or.inl (Or.inr hv))
  · exact Or.inl (Or.inr hv)
  · exact Or.inr hv

theorem stepQ_supported (partof : Bool) (st : QSt) (t : Tok) (h : Dom t) : stepQ partof st t ≠ .unsupported := by
  intro hr
  have hO := charOk_of t h cOpen (Or.inl rfl)
  have hC := charOk_of t h cClose (Or.inr (Or.inl rfl))
  have hK := charOk_of t h cColon (Or.inr (Or.inr (Or.inl rfl)))
  have hV := valueKind_supported t h
  unfold stepQ at hr
  cases hs : st.s <;> simp only [hs] at hr
  all_goals repeat' split at hr
  all_goals first
    | (cases hr; done)
    | (rename_i h1 h2; first | exact h2 (decide_eq_true (hO h1)) | exact h2 (decide_eq_true (hC h1)) | exact h2 (decide_eq_true (hK h1)))
    | (rename_i heq; exact hV heq)

/-- stand-alone `MediaQuery(tokens)` -/
theorem parseQ_supported (l : List Tok) (st : QSt) (h : ∀ t ∈ l, ParseAll.mediaDom t = true) :
    parseQ st l ≠ .unsupported := by
  induction l generalizing st with
  | nil => unfold parseQ; split <;> simp
  | cons t ts ih =>
    have hd := dom_of t (h t List.mem_cons_self)
    have hts : ∀ x ∈ ts, ParseAll.mediaDom x = true := fun x hx => h x (List.mem_cons_of_mem _ hx)
    unfold parseQ
    split
    · exact ih _ hts
    · exact ih _ hts
    · simp
    · rename_i he; exact absurd he hd.notEof
    · split
      · exact ih _ hts
      · simp
      · simp
      · rename_i hu; exact absurd hu (stepQ_supported false st t hd)

theorem listStep_supported (st : LSt) (t : Tok) (h : Dom t) : listStep st t ≠ .unsupported := by
  have hs := stepQ_supported true {} t h
  have hV := charOk_of t h cComma (Or.inr (Or.inr (Or.inr rfl)))
  unfold listStep
  intro hr
  repeat' split at hr
  all_goals first
    | (cases hr; done)
    | (rename_i hu; exact hs hu)
    | (rename_i h1 h2; exact h2 (hV h1))
    | skip

/-- `MediaList.mediaText = tokens` (and the stand-alone list, and the repaired hand-back): never `unsupported` -/
theorem parseL_supported (strict ft : Bool) (l : List Tok) (st : LSt) (h : ∀ t ∈ l, ParseAll.mediaDom t = true) :
    parseL strict ft st l ≠ .unsupported := by
  induction l generalizing st with
  | nil =>
    unfold parseL
    repeat' split
    all_goals simp
  | cons t ts ih =>
    have hd := dom_of t (h t List.mem_cons_self)
    have hts : ∀ x ∈ ts, ParseAll.mediaDom x = true := fun x hx => h x (List.mem_cons_of_mem _ hx)
    have hq := fun q => stepQ_supported true q t hd
    have hl := fun s => listStep_supported s t hd
    intro hr
    unfold parseL at hr
    repeat' split at hr
    all_goals first
      | exact ih _ hts hr
      | (cases hr; done)
      | (rename_i he; exact absurd he hd.notEof)
      | (rename_i heq; exact hq _ heq)
      | (rename_i heq; exact hl _ heq)

end CssVerif.MediaTotal
