import CssVerif.Lemmas.SelTokScan
import CssVerif.Lemmas.SelTokStr
import CssVerif.Lemmas.SelTokName
import CssVerif.Model.SelText
/-!
# The tokenizer model in front of the selector model: a plain token list is what its text tokenizes to

`tokensOf_plain`: for every token list `l` with `plainChain l` the tokenizer model, run on the concatenation of the
token values, returns exactly `l` (types and values). Per token: `tok_step` (one iteration of the loop of
`tokenize2.py` yields that token and continues behind it), from the class lemmas of `Lemmas/SelTokScan.lean`.
-/
namespace CssVerif.Sel
open CssVerif.Proto CssVerif.Gen.C05

/-- one iteration of the tokenizer's loop yields exactly the token `t` and continues behind it -/
def Step (t : Tok) (stop : Cps) : Prop :=
  ∀ fuel line col, ∃ line' col', CssVerif.Tok.loop false true (fuel + 1) (t.val ++ stop) line col =
    CssVerif.Tok.Res.cons ⟨typeStr t.typ, t.val, line, col, t.val, t.val, true⟩
      (CssVerif.Tok.loop false true fuel stop line' col')

theorem inRanges_eq (cs : List (Nat × Nat)) (c : Nat) : inRanges cs c = CssVerif.Tok.inR cs c := rfl

/-- `Tok.loop_step` with comments switched on (the token may be a COMMENT) -/
theorem loop_step_c (fuel : Nat) (w stop : Cps) (line col : Nat) (name : String)
    (hw : w ≠ []) (hfast : ∀ c t, w = c :: t → fastChars.contains c = false)
    (hscan : CssVerif.Tok.scan false true (w ++ stop) productions = .hit name w.length)
    (hval : CssVerif.Tok.valueOf (w ++ stop) name w = some ⟨name, w, w⟩) :
    ∃ line' col', CssVerif.Tok.loop false true (fuel + 1) (w ++ stop) line col =
      CssVerif.Tok.Res.cons ⟨name, w, line, col, w, w, true⟩ (CssVerif.Tok.loop false true fuel stop line' col') := by
  cases w with
  | nil => exact absurd rfl hw
  | cons c t =>
    have hf := hfast c t rfl
    refine ⟨(CssVerif.Tok.advance line col (c :: t)).1, (CssVerif.Tok.advance line col (c :: t)).2, ?_⟩
    have htake : List.take (c :: t).length (c :: t ++ stop) = c :: t := by
      rw [List.take_left']; rfl
    have hdrop : List.drop (c :: t).length (c :: t ++ stop) = stop := by
      rw [List.drop_left']; rfl
    simp only [List.cons_append] at hscan hval htake hdrop ⊢
    rw [CssVerif.Tok.loop]
    simp only [hf, Bool.false_eq_true, if_false, hscan, CssVerif.Tok.complete_false, htake, hval, hdrop]
    simp

theorem lexstep_of (t : Tok) (stop : Cps) (name : String) (hname : typeStr t.typ = name)
    (hw : t.val ≠ []) (hfast : ∀ c r, t.val = c :: r → fastChars.contains c = false)
    (hscan : CssVerif.Tok.scan false true (t.val ++ stop) productions = .hit name t.val.length)
    (hval : CssVerif.Tok.valueOf (t.val ++ stop) name t.val = some ⟨name, t.val, t.val⟩) : Step t stop := by
  intro fuel line col
  rw [hname]
  exact loop_step_c fuel t.val stop line col name hw hfast hscan hval

theorem headIn_conv {P Q : Nat → Prop} {s : Cps} (h : CssVerif.Tok.HeadIn P s) (hpq : ∀ c, P c → Q c) :
    CssVerif.Tok.HeadIn Q s := CssVerif.Tok.headIn_mono h hpq

theorem no92_of_ranges (cs : List (Nat × Nat)) (h : CssVerif.Tok.inR cs 92 = false) (l : Cps)
    (hl : ∀ x ∈ l, CssVerif.Tok.inR cs x = true) : ∀ x ∈ l, x ≠ 92 := by
  intro x hx e
  have := hl x hx
  rw [e, h] at this
  cases this

theorem eq_dropLast_of_getLast? {l : List Nat} {a : Nat} (h : l.getLast? = some a) : l = l.dropLast ++ [a] := by
  have hne : l ≠ [] := by intro e; simp [e] at h
  have h2 := List.dropLast_concat_getLast hne
  rw [List.getLast?_eq_some_getLast hne] at h
  simp only [Option.some.injEq] at h
  rw [h] at h2
  exact h2.symm

/-! ## one token -/

theorem name_head_not_fast {v : Cps} (hv : plainName v = true) :
    ∀ c r, v = c :: r → fastChars.contains c = false := by
  intro c r e
  obtain ⟨c', t, e', hc⟩ := CssVerif.Tok.plainName_head hv
  rw [e] at e'
  simp only [List.cons.injEq] at e'
  rw [e'.1]
  exact CssVerif.Tok.not_fast_of_ranges CssVerif.Tok.nameHeads (by decide) _ hc

theorem valueOf_unesc_id (s : Cps) (name : String) (found : Cps) (h1 : unescTypes.contains name = true)
    (h2 : cleanTypes.contains name = false) (h : CssVerif.Tok.unescape found = found) :
    CssVerif.Tok.valueOf s name found = some ⟨name, found, found⟩ := by
  simp only [CssVerif.Tok.valueOf, h1, h2, CssVerif.Tok.subU_eq_unescape, h, Bool.false_eq_true, if_false, if_true]

theorem plainName_ne {v : Cps} (hv : plainName v = true) : v ≠ [] := by
  intro e; rw [e] at hv; simp [plainName] at hv

theorem lexstep_ident (v stop : Cps) (h : plainName v = true)
    (hs : CssVerif.Tok.HeadIn (fun c => inRanges nameStopR c = true) stop) : Step ⟨.ident, v⟩ stop := by
  apply lexstep_of _ stop "IDENT" rfl (plainName_ne h) (name_head_not_fast h)
  · exact CssVerif.Tok.scan_name_ident true v stop h hs
  · exact valueOf_unesc_id _ _ _ (by decide) (by decide) (CssVerif.Tok.unescape_name h)

theorem lexstep_hash (v stop : Cps) (h : (match v with
      | 35 :: n :: ns => nameBody (n :: ns)
      | _ => false) = true)
    (hs : CssVerif.Tok.HeadIn (fun c => inRanges nameStopR c = true) stop) : Step ⟨.hash, v⟩ stop := by
  split at h
  · rename_i n ns
    apply lexstep_of _ stop "HASH" rfl (by simp)
    · intro c' r e; simp only [List.cons.injEq] at e; obtain ⟨rfl, _⟩ := e; decide
    · exact CssVerif.Tok.scan_name_hash true n ns stop h hs
    · apply valueOf_unesc_id _ _ _ (by decide) (by decide)
      rw [CssVerif.Tok.unescape_cons_plain 35 _ (by decide), CssVerif.Tok.unescape_body _ _ (Nat.le_refl _) h]
  · cases h

theorem lexstep_function (v stop : Cps) (h1 : v.getLast? = some 40) (h2 : plainName v.dropLast = true)
    (h3 : (CssVerif.Tok.pyLower v.dropLast != andWord) = true) : Step ⟨.function, v⟩ stop := by
  have hvv := eq_dropLast_of_getLast? h1
  generalize v.dropLast = w at h2 h3 hvv
  subst hvv
  apply lexstep_of _ stop "FUNCTION" rfl (by simp)
  · intro c r e
    obtain ⟨c', t, e', hc⟩ := CssVerif.Tok.plainName_head h2
    rw [e'] at e
    simp only [List.cons_append, List.cons.injEq] at e
    rw [← e.1]
    exact CssVerif.Tok.not_fast_of_ranges CssVerif.Tok.nameHeads (by decide) _ hc
  · have := CssVerif.Tok.scan_name_function true w stop h2 h3
    simp only [List.append_assoc, List.cons_append, List.nil_append, List.length_append, List.length_cons,
      List.length_nil] at this ⊢
    exact this
  · apply valueOf_unesc_id _ _ _ (by decide) (by decide)
    exact CssVerif.Tok.unescape_name_paren h2

theorem mem_takeWhile_p {p : Nat → Bool} : ∀ (l : List Nat) (c : Nat), c ∈ l.takeWhile p → p c = true := by
  intro l
  induction l with
  | nil => intro c h; simp at h
  | cons a t ih =>
    intro c h
    simp only [List.takeWhile_cons] at h
    split at h
    · rename_i ha
      rcases List.mem_cons.mp h with rfl | h
      · exact ha
      · exact ih c h
    · simp at h

theorem dim_split (v : Cps) (h1 : (v.takeWhile (inRanges digitR)).isEmpty = false) :
    ∃ d ds, v = d :: ds ++ v.dropWhile (inRanges digitR) ∧ ∀ c ∈ d :: ds, CssVerif.Tok.isDigit c = true := by
  have hv : v = v.takeWhile (inRanges digitR) ++ v.dropWhile (inRanges digitR) := (List.takeWhile_append_dropWhile).symm
  have hdig : ∀ c ∈ v.takeWhile (inRanges digitR), CssVerif.Tok.isDigit c = true := by
    intro c hc
    have := mem_takeWhile_p _ c hc
    simpa [inRanges, digitR, CssVerif.Tok.isDigit] using this
  cases hds : v.takeWhile (inRanges digitR) with
  | nil => rw [hds] at h1; simp at h1
  | cons d ds =>
    rw [hds] at hv hdig
    exact ⟨d, ds, hv, hdig⟩

theorem lexstep_dimension (v stop : Cps) (h : (match v with
      | c :: r =>
        if c == 43 || c == 45 then
          !(r.takeWhile (inRanges digitR)).isEmpty && plainName (r.dropWhile (inRanges digitR))
        else !((c :: r).takeWhile (inRanges digitR)).isEmpty && plainName ((c :: r).dropWhile (inRanges digitR))
      | [] => false) = true)
    (hs : CssVerif.Tok.HeadIn (fun c => inRanges nameStopR c = true) stop) : Step ⟨.dimension, v⟩ stop := by
  cases v with
  | nil => simp at h
  | cons c r =>
    simp only at h
    split at h
    · rename_i hsg
      simp only [Bool.or_eq_true, beq_iff_eq] at hsg
      simp only [Bool.and_eq_true, Bool.not_eq_true'] at h
      obtain ⟨d, ds, hr, hdig⟩ := dim_split r h.1
      generalize r.dropWhile (inRanges digitR) = u at h hr
      subst hr
      apply lexstep_of _ stop "DIMENSION" rfl (by simp)
      · intro c' t e; simp only [List.cons.injEq] at e; obtain ⟨rfl, _⟩ := e
        rcases hsg with rfl | rfl <;> decide
      · have := CssVerif.Tok.scan_signed_dimension true c hsg d ds u stop hdig h.2 hs
        simp only [List.cons_append, List.append_assoc, List.length_cons, List.length_append] at this ⊢
        rw [this]; congr 1; omega
      · apply valueOf_unesc_id _ _ _ (by decide) (by decide)
        have hc92 : c ≠ 92 := by rcases hsg with rfl | rfl <;> decide
        rw [CssVerif.Tok.unescape_cons_plain c _ hc92, CssVerif.Tok.unescape_append_plain _ _ (by
          intro x hx e
          have := hdig x hx
          rw [e] at this; revert this; decide), CssVerif.Tok.unescape_name h.2]
    · simp only [Bool.and_eq_true, Bool.not_eq_true'] at h
      obtain ⟨d, ds, hr, hdig⟩ := dim_split (c :: r) h.1
      generalize (c :: r).dropWhile (inRanges digitR) = u at h hr
      rw [hr]
      apply lexstep_of _ stop "DIMENSION" rfl (by simp)
      · intro c' t e; simp only [List.cons_append, List.cons.injEq] at e; obtain ⟨rfl, _⟩ := e
        have := hdig d (by simp)
        exact CssVerif.Tok.not_fast_of_ranges [(48, 57)] (by decide) _ (by simpa [CssVerif.Tok.inR, CssVerif.Tok.isDigit] using this)
      · have := CssVerif.Tok.scan_name_dimension true d ds u stop hdig h.2 hs
        simp only [List.append_assoc, List.length_append] at this ⊢
        exact this
      · apply valueOf_unesc_id _ _ _ (by decide) (by decide)
        rw [CssVerif.Tok.unescape_append_plain _ _ (by
          intro x hx e
          have := hdig x hx
          rw [e] at this; revert this; decide), CssVerif.Tok.unescape_name h.2]

theorem lexstep_s (v stop : Cps) (h1 : v.isEmpty = false) (h2 : v.all (inRanges wsR) = true)
    (hs : CssVerif.Tok.HeadIn (fun c => inRanges wsR c = false) stop) : Step ⟨.s, v⟩ stop := by
  cases v with
  | nil => simp at h1
  | cons c run =>
    simp only [List.all_cons, Bool.and_eq_true, List.all_eq_true] at h2
    apply lexstep_of _ stop "S" rfl (by simp)
    · intro c' r e; simp only [List.cons.injEq] at e; obtain ⟨rfl, _⟩ := e
      exact CssVerif.Tok.not_fast_of_ranges CssVerif.Tok.wsRanges (by decide) _ h2.1
    · exact CssVerif.Tok.scan_ws true c run stop h2.1 h2.2 hs
    · exact CssVerif.Tok.valueOf_plain _ _ _ (by decide) (by decide)

theorem lexstep_fast (c : Nat) (stop : Cps) (hc : fastChars.contains c = true) : Step ⟨.char, [c]⟩ stop := by
  intro fuel line col
  refine ⟨line, col + 1, ?_⟩
  show CssVerif.Tok.loop false true (fuel + 1) (c :: stop) line col = _
  rw [CssVerif.Tok.loop]
  simp only [hc, if_true, typeStr]

theorem lexstep_char_scan (c : Nat) (stop : Cps) (hf : fastChars.contains c = false)
    (hscan : CssVerif.Tok.scan false true (c :: stop) productions = .hit "CHAR" 1) : Step ⟨.char, [c]⟩ stop := by
  apply lexstep_of _ stop "CHAR" rfl (by simp)
  · intro c' r e; simp only [List.cons.injEq] at e; obtain ⟨rfl, _⟩ := e; exact hf
  · exact hscan
  · exact CssVerif.Tok.valueOf_plain _ _ _ (by decide) (by decide)

theorem lexstep_fixed (typ : TT) (name : String) (w : Cps) (k : Nat) (hn : typeStr typ = name)
    (hm : (name, w, k) ∈ CssVerif.Tok.fixedLexemes) (stop : Cps) : Step ⟨typ, w⟩ stop := by
  obtain ⟨_, _, _, hne⟩ := CssVerif.Tok.fixedLexemes_ok _ hm
  have htab : ∀ e ∈ CssVerif.Tok.fixedLexemes, unescTypes.contains e.1 = false ∧ (e.1 == "ATKEYWORD") = false ∧
      fastChars.contains (e.2.1.headD 0) = false := by decide
  obtain ⟨h1, h2, h4⟩ := htab _ hm
  apply lexstep_of _ stop name hn hne
  · intro c t e; simp only at e; subst e; simpa using h4
  · exact CssVerif.Tok.scan_fixed true name w k hm stop
  · exact CssVerif.Tok.valueOf_plain _ _ _ h1 h2

theorem lexstep_string (v stop : Cps) (h : (match v with
      | q :: r => (q == 34 || q == 39) && r.getLast? == some q && r.dropLast.all (strPlain q)
      | [] => false) = true) : Step ⟨.string, v⟩ stop := by
  cases v with
  | nil => simp at h
  | cons q r =>
    simp only [Bool.and_eq_true, Bool.or_eq_true, beq_iff_eq, List.all_eq_true] at h
    obtain ⟨⟨hq, hlast⟩, hbody⟩ := h
    have hr := eq_dropLast_of_getLast? hlast
    have hb : ∀ c ∈ r.dropLast, CssVerif.Tok.strPlainCp q c = true := hbody
    have hq92 : q ≠ 92 := by rcases hq with rfl | rfl <;> decide
    have hv : q :: r = q :: r.dropLast ++ [q] := by rw [List.cons_append, ← hr]
    apply lexstep_of _ stop "STRING" rfl (by simp)
    · intro c' t e; simp only [List.cons.injEq] at e; obtain ⟨rfl, _⟩ := e
      rcases hq with rfl | rfl <;> decide
    · show CssVerif.Tok.scan false true ((q :: r) ++ stop) productions = .hit "STRING" (q :: r).length
      have := CssVerif.Tok.scan_string true q hq r.dropLast stop hb
      have hl : (q :: r).length = r.dropLast.length + 2 := by rw [hv]; simp
      rw [hl, hv]
      simpa [List.append_assoc] using this
    · show CssVerif.Tok.valueOf _ "STRING" (q :: r) = some ⟨"STRING", q :: r, q :: r⟩
      rw [hv]
      exact CssVerif.Tok.valueOf_string _ q r.dropLast hb hq92

theorem lexstep_comment (v stop : Cps) (h : (match v with
      | 47 :: 42 :: r => cmTail r
      | _ => false) = true) : Step ⟨.comment, v⟩ stop := by
  split at h
  · rename_i r
    apply lexstep_of _ stop "COMMENT" rfl (by simp)
    · intro c' t e; simp only [List.cons.injEq] at e; obtain ⟨rfl, _⟩ := e; decide
    · have := CssVerif.Tok.scan_comment_gen true r stop h
      simp only [List.length_cons] at this ⊢
      exact this
    · exact CssVerif.Tok.valueOf_plain _ _ _ (by decide) (by decide)
  · cases h

theorem digits_of_all {l : Cps} (h : l.all (inRanges digitR) = true) : ∀ c ∈ l, CssVerif.Tok.isDigit c = true := by
  simp only [List.all_eq_true] at h
  intro c hc
  have := h c hc
  simpa [inRanges, digitR, CssVerif.Tok.isDigit] using this

theorem lexstep_number (v stop : Cps) (h : (match v with
      | c :: r => if c == 43 || c == 45 then !r.isEmpty && r.all (inRanges digitR) else (c :: r).all (inRanges digitR)
      | [] => false) = true)
    (hs : CssVerif.Tok.HeadIn (fun c => inRanges numStopR c = true) stop) : Step ⟨.number, v⟩ stop := by
  cases v with
  | nil => simp at h
  | cons c r =>
    simp only at h
    split at h
    · rename_i hsg
      simp only [Bool.or_eq_true, beq_iff_eq] at hsg
      simp only [Bool.and_eq_true, Bool.not_eq_true'] at h
      cases r with
      | nil => simp at h
      | cons d ds =>
        have hd := digits_of_all h.2
        apply lexstep_of _ stop "NUMBER" rfl (by simp)
        · intro c' t e; simp only [List.cons.injEq] at e; obtain ⟨rfl, _⟩ := e
          rcases hsg with rfl | rfl <;> decide
        · have := CssVerif.Tok.scan_signed_number true c hsg d ds stop hd hs
          simpa using this
        · exact CssVerif.Tok.valueOf_plain _ _ _ (by decide) (by decide)
    · have hd := digits_of_all h
      apply lexstep_of _ stop "NUMBER" rfl (by simp)
      · intro c' t e; simp only [List.cons.injEq] at e; obtain ⟨rfl, _⟩ := e
        have := hd c (by simp)
        exact CssVerif.Tok.not_fast_of_ranges [(48, 57)] (by decide) _ (by simpa [CssVerif.Tok.inR, CssVerif.Tok.isDigit] using this)
      · exact CssVerif.Tok.scan_number_stop true c r stop hd hs
      · exact CssVerif.Tok.valueOf_plain _ _ _ (by decide) (by decide)

theorem headIn_ne61 {stop : Cps} (h : CssVerif.Tok.HeadIn (fun c => (c != 61) = true) stop) :
    CssVerif.Tok.HeadIn (fun x => x ≠ 61) stop :=
  CssVerif.Tok.headIn_mono h (fun c hc => by simpa using hc)

theorem not_digit_of {c : Nat} (h : (!inRanges digitR c) = true) : CssVerif.Tok.isDigit c = false := by
  simp only [inRanges, digitR, List.any_cons, List.any_nil, Bool.or_false, Bool.not_eq_true'] at h
  simpa [CssVerif.Tok.isDigit] using h

/-- **one token**: a plain token followed by the end of the text or by a code point it may be followed by comes
out of one iteration of the tokenizer's loop as itself, and the loop continues behind it -/
theorem tok_step (t : Tok) (stop : Cps) (hp : t.plain = true)
    (hs : CssVerif.Tok.HeadIn (fun c => t.follow c = true) stop) : Step t stop := by
  obtain ⟨typ, v⟩ := t
  simp only [Tok.plain, Bool.and_eq_true] at hp
  obtain ⟨_, hp⟩ := hp
  cases typ <;> simp only [Tok.plainCls, Bool.false_eq_true] at hp
  case ident => exact lexstep_ident v stop hp (by simpa [Tok.follow] using hs)
  case hash => exact lexstep_hash v stop hp (by simpa [Tok.follow] using hs)
  case function =>
    simp only [Bool.and_eq_true, beq_iff_eq] at hp
    exact lexstep_function v stop hp.1.1 hp.1.2 hp.2
  case s =>
    simp only [Bool.and_eq_true, Bool.not_eq_true'] at hp
    exact lexstep_s v stop hp.1 hp.2 (CssVerif.Tok.headIn_mono hs (fun c hc => by simpa [Tok.follow] using hc))
  case string => exact lexstep_string v stop hp
  case comment => exact lexstep_comment v stop hp
  case number => exact lexstep_number v stop hp (by simpa [Tok.follow] using hs)
  case dimension => exact lexstep_dimension v stop hp (by simpa [Tok.follow] using hs)
  case includes => simp only [beq_iff_eq] at hp; subst hp; exact lexstep_fixed _ "INCLUDES" _ 13 rfl (by decide) stop
  case dashmatch => simp only [beq_iff_eq] at hp; subst hp; exact lexstep_fixed _ "DASHMATCH" _ 14 rfl (by decide) stop
  case prefixmatch => simp only [beq_iff_eq] at hp; subst hp; exact lexstep_fixed _ "PREFIXMATCH" _ 15 rfl (by decide) stop
  case suffixmatch => simp only [beq_iff_eq] at hp; subst hp; exact lexstep_fixed _ "SUFFIXMATCH" _ 16 rfl (by decide) stop
  case substringmatch =>
    simp only [beq_iff_eq] at hp; subst hp; exact lexstep_fixed _ "SUBSTRINGMATCH" _ 17 rfl (by decide) stop
  case char =>
    split at hp
    · rename_i c
      simp only [plainChars, List.contains_cons, List.contains_nil, Bool.or_false, Bool.or_eq_true, beq_iff_eq] at hp
      rcases hp with rfl | rfl | rfl | rfl | rfl | rfl | rfl | rfl | rfl | rfl | rfl | rfl | rfl
      · exact lexstep_fast 44 stop (by decide)
      · exact lexstep_fast 58 stop (by decide)
      · exact lexstep_fast 62 stop (by decide)
      · exact lexstep_fast 91 stop (by decide)
      · exact lexstep_fast 93 stop (by decide)
      · exact lexstep_char_scan 61 stop (by decide) (CssVerif.Tok.scan_char_rej true 61 (by decide) (by decide) (by decide) stop)
      · exact lexstep_char_scan 41 stop (by decide) (CssVerif.Tok.scan_char_rej true 41 (by decide) (by decide) (by decide) stop)
      · exact lexstep_char_scan 42 stop (by decide) (CssVerif.Tok.scan_star true stop (headIn_ne61 (by simpa [Tok.follow] using hs)))
      · exact lexstep_char_scan 124 stop (by decide) (CssVerif.Tok.scan_bar true stop (headIn_ne61 (by simpa [Tok.follow] using hs)))
      · exact lexstep_char_scan 126 stop (by decide) (CssVerif.Tok.scan_tilde true stop (headIn_ne61 (by simpa [Tok.follow] using hs)))
      · exact lexstep_char_scan 46 stop (by decide) (CssVerif.Tok.scan_dot true stop
          (CssVerif.Tok.headIn_mono hs (fun c hc => not_digit_of (by simpa [Tok.follow] using hc))))
      · exact lexstep_char_scan 43 stop (by decide) (CssVerif.Tok.scan_plus true stop
          (CssVerif.Tok.headIn_mono hs (fun c hc => by
            have : (!inRanges digitR c) = true ∧ c ≠ 46 := by simpa [Tok.follow] using hc
            exact ⟨not_digit_of this.1, this.2⟩)))
      · exact lexstep_char_scan 45 stop (by decide) (CssVerif.Tok.scan_minus true stop
          (CssVerif.Tok.headIn_mono hs (fun c hc => by
            have h' : inRanges minusStopR c = true := by simpa [Tok.follow] using hc
            exact h')))
    · cases hp

/-! ## a chain of tokens -/

theorem ofName_typeStr (t : Tok) (hp : t.plain = true) : TT.ofName (codes (typeStr t.typ)) = t.typ := by
  obtain ⟨typ, v⟩ := t
  simp only [Tok.plain, Bool.and_eq_true] at hp
  obtain ⟨_, hp⟩ := hp
  cases typ <;> simp only [Tok.plainCls, Bool.false_eq_true] at hp <;> (dsimp only; decide)

theorem plain_head (t : Tok) (hp : t.plain = true) :
    ∃ c w, t.val = c :: w ∧ CssVerif.Tok.inR [(0, 63), (65, 238), (240, 253), (255, 1114111)] c = true := by
  simp only [Tok.plain, Bool.and_eq_true] at hp
  cases hv : t.val with
  | nil => rw [hv] at hp; simp [headOk] at hp
  | cons c w => rw [hv] at hp; exact ⟨c, w, rfl, hp.1⟩

theorem flat_cons (t : Tok) (l : List Tok) : flat (t :: l) = t.val ++ flat l := by simp [flat]

/-- the loop of the tokenizer on the text of a plain chain yields exactly the chain -/
theorem loop_chain : ∀ (l : List Tok), plainChain l = true → ∀ (fuel line col : Nat), (flat l).length < fuel →
    (CssVerif.Tok.loop false true fuel (flat l) line col).items.map ofItem = l ∧
    ∀ it ∈ (CssVerif.Tok.loop false true fuel (flat l) line col).items, it.emit = true := by
  intro l
  induction l with
  | nil =>
    intro _ fuel line col _
    simp [flat, CssVerif.Tok.loop_nil_items]
  | cons t ts ih =>
    intro hch fuel line col hf
    obtain ⟨k, rfl⟩ : ∃ k, fuel = k + 1 := ⟨fuel - 1, by omega⟩
    cases ts with
    | nil =>
      have hp : t.plain = true := hch
      obtain ⟨l', c', hstep⟩ := tok_step t [] hp (Or.inl rfl) k line col
      have hflat : flat [t] = t.val ++ [] := by simp [flat]
      rw [hflat, hstep]
      simp [CssVerif.Tok.Res.cons, CssVerif.Tok.loop_nil_items, ofItem, ofName_typeStr t hp]
    | cons u us =>
      simp only [plainChain, Bool.and_eq_true] at hch
      obtain ⟨⟨hp, hfol⟩, hrest⟩ := hch
      obtain ⟨c0, w0, hu0, _⟩ := plain_head u (by
        cases us with
        | nil => exact hrest
        | cons x xs => simp only [plainChain, Bool.and_eq_true] at hrest; exact hrest.1.1)
      rw [hu0] at hfol
      have hstop : CssVerif.Tok.HeadIn (fun c => t.follow c = true) (flat (u :: us)) :=
        Or.inr ⟨c0, w0 ++ flat us, by rw [flat_cons, hu0]; rfl, hfol⟩
      obtain ⟨l1, c1, hstep⟩ := tok_step t (flat (u :: us)) hp hstop k line col
      obtain ⟨ct, wt, hvt, _⟩ := plain_head t hp
      have hlen : (flat (u :: us)).length < k := by
        rw [flat_cons, hvt] at hf
        simp only [List.length_append, List.length_cons] at hf
        omega
      have := ih hrest k l1 c1 hlen
      rw [flat_cons, hstep]
      simp only [CssVerif.Tok.Res.cons, List.map_cons, List.mem_cons]
      refine ⟨by rw [this.1]; simp [ofItem, ofName_typeStr t hp], ?_⟩
      intro it hit
      rcases hit with rfl | hit
      · rfl
      · exact this.2 it hit

/-- **the tokenizer returns a plain chain**: `Tokenizer().tokenize(text)` on the concatenated values of a plain
token list yields exactly that token list (types and values) -/
theorem tokensOf_plain (l : List Tok) (h : plainChain l = true) : tokensOf (flat l) = l := by
  have hstart : CssVerif.Tok.HeadIn (fun c => CssVerif.Tok.inR [(0, 63), (65, 238), (240, 253), (255, 1114111)] c = true) (flat l) := by
    cases l with
    | nil => left; rfl
    | cons t ts =>
      obtain ⟨c, w, hv, hc⟩ := plain_head t (by
        cases ts with
        | nil => exact h
        | cons x xs => simp only [plainChain, Bool.and_eq_true] at h; exact h.1.1)
      right; exact ⟨c, w ++ flat ts, by rw [flat_cons, hv]; rfl, hc⟩
  have hbom : bomRe.first (flat l) = none := by
    apply CssVerif.Tok.first_none_of_ms_nil
    exact CssVerif.Tok.ms_nil_of_headIn (cs := [(0, 63), (65, 238), (240, 253), (255, 1114111)]) (by decide) (by decide) hstart
  have hcs : CssVerif.Tok.hasAt (flat l) charsetStart = false := by
    rcases hstart with h0 | ⟨c, t, h0, hc⟩
    · rw [h0]; decide
    · rw [h0]
      have hc64 : c ≠ 64 := by intro e; rw [e] at hc; revert hc; decide
      simp [CssVerif.Tok.hasAt, charsetStart, hc64]
  have hab : CssVerif.Tok.afterBom (flat l) = flat l := by simp [CssVerif.Tok.afterBom, hbom]
  have hbi : CssVerif.Tok.bomItems (flat l) = [] := by simp [CssVerif.Tok.bomItems, hbom]
  have hac : CssVerif.Tok.afterCharset (flat l) = flat l := by simp [CssVerif.Tok.afterCharset, hcs]
  have hci : CssVerif.Tok.charsetItems (flat l) = [] := by simp [CssVerif.Tok.charsetItems, hcs]
  have hsc : CssVerif.Tok.startCol (flat l) = 1 := by simp [CssVerif.Tok.startCol, hcs]
  obtain ⟨hmap, hemit⟩ := loop_chain l h ((flat l).length + 1) 1 1 (Nat.lt_succ_self _)
  have hml : CssVerif.Tok.mainLoop (flat l) false true =
      CssVerif.Tok.loop false true ((flat l).length + 1) (flat l) 1 1 := by
    simp only [CssVerif.Tok.mainLoop, hab, hac, hsc]
  have heof : ∀ st, CssVerif.Tok.eofItems false st = [] := by
    intro st; unfold CssVerif.Tok.eofItems; split <;> simp
  simp only [tokensOf, CssVerif.Tok.Res.tokens, CssVerif.Tok.tokenize, CssVerif.Tok.body, hbi, hab, hci, heof,
    List.nil_append, List.append_nil, hml]
  rw [List.filter_eq_self.mpr hemit]
  exact hmap

end CssVerif.Sel
