import CssVerif.Lemmas.Profiles
import CssVerif.Model.MacroRank
/-!
# Lemmas for C14 — termination of the macro expansion for macro sets without a cycle

1. the scanner `toks` on a text that was put together from pieces (what one `re.sub` pass produces);
2. `subPass_phNames`: the placeholders of the text after one pass are exactly the placeholders of the bodies that
   were substituted, in order — the wrapping `(?:…)` keeps text from fusing into new placeholders;
3. ranks: one pass lowers the highest rank present; termination, totality, stability under the fuel;
4. the executable checks (`acyclicB`, `closedB`, `propsClosedB`) imply the propositions;
5. `init`: a sufficient condition for the constructor to go through.
-/
namespace CssVerif.Profiles

/-! ## 1. the scanner on composed texts -/

/-- what the scanner gives back when an attempt `{acc` fails -/
def flushed (acc : Str) : List Seg := (123 :: acc.reverse).map Seg.ch

theorem segNames_append (a b : List Seg) : segNames (a ++ b) = segNames a ++ segNames b := by
  induction a with
  | nil => rfl
  | cons x t ih => cases x <;> simp [segNames, ih]

theorem segNames_map_ch (l : Str) : segNames (l.map Seg.ch) = [] := by
  induction l with
  | nil => rfl
  | cons x t ih => simpa [segNames] using ih

theorem segNames_flushed (acc : Str) : segNames (flushed acc) = [] := segNames_map_ch _

theorem isLower_isNameCh (c : Nat) (h : isLower c = true) : isNameCh c = true := by
  simp [isNameCh, h]

theorem not_isLower_of_not_isNameCh (c : Nat) (h : isNameCh c = false) : isLower c = false := by
  cases hl : isLower c with
  | false => rfl
  | true => rw [isLower_isNameCh c hl] at h; cases h

/-- a character that can neither continue nor close a placeholder sends the scanner back to the start -/
theorem toks_some_breaker (acc : Str) (c : Nat) (t : Str) (hc : isNameCh c = false) (h125 : c ≠ 125) :
    toks (some acc) (c :: t) = flushed acc ++ toks none (c :: t) := by
  have hl := not_isLower_of_not_isNameCh c hc
  by_cases ha : acc = []
  · subst ha
    by_cases h123 : c = 123
    · subst h123; simp [toks, flushed, hl]
    · simp [toks, flushed, hl, h123]
  · by_cases h123 : c = 123
    · subst h123; simp [toks, flushed, ha, hc]
    · simp [toks, flushed, ha, hc, h125, h123]

theorem toks_some_nil (acc : Str) : toks (some acc) [] = flushed acc := by
  simp [toks, flushed]

/-- a breaker other than `{` splits the text into two independent parts -/
theorem toks_append_breaker (st : Option Str) (a : Str) (c : Nat) (b : Str) (hc : isNameCh c = false)
    (h125 : c ≠ 125) (h123 : c ≠ 123) : toks st (a ++ c :: b) = toks st a ++ .ch c :: toks none b := by
  induction a generalizing st with
  | nil =>
    cases st with
    | none => simp [toks, h123]
    | some acc =>
      rw [List.nil_append, toks_some_breaker acc c b hc h125, toks_some_nil]
      simp [toks, h123]
  | cons x t ih =>
    cases st with
    | none =>
      by_cases hx : x = 123
      · simp [toks, hx, ih]
      · simp [toks, hx, ih]
    | some acc =>
      simp only [List.cons_append, toks]
      split
      · split
        · exact ih _
        · split
          · simp [ih]
          · simp [ih]
      · split
        · exact ih _
        · split
          · simp [ih]
          · split
            · simp [ih]
            · simp [ih]

/-- the text read so far can still become a placeholder: nothing, or a lower-case letter followed by name characters
(`acc` is the reversed text) -/
def ValidAcc (acc : Str) : Prop :=
  acc = [] ∨ ∃ a rest, acc.reverse = a :: rest ∧ isLower a = true ∧ ∀ x ∈ rest, isNameCh x = true

theorem validAcc_single (c : Nat) (h : isLower c = true) : ValidAcc [c] :=
  Or.inr ⟨c, [], rfl, h, by simp⟩

theorem validAcc_cons (acc : Str) (c : Nat) (hv : ValidAcc acc) (ha : acc ≠ []) (hc : isNameCh c = true) :
    ValidAcc (c :: acc) := by
  cases hv with
  | inl h => exact absurd h ha
  | inr h =>
    obtain ⟨a, rest, h1, h2, h3⟩ := h
    refine Or.inr ⟨a, rest ++ [c], by simp [h1], h2, ?_⟩
    intro x hx
    simp only [List.mem_append, List.mem_singleton] at hx
    cases hx with
    | inl h => exact h3 x h
    | inr h => subst h; exact hc

/-- reading name characters in the middle of an attempt -/
theorem toks_some_namechars (acc : Str) (w r : Str) (ha : acc ≠ []) (hw : ∀ x ∈ w, isNameCh x = true) :
    toks (some acc) (w ++ r) = toks (some (w.reverse ++ acc)) r := by
  induction w generalizing acc with
  | nil => rfl
  | cons x t ih =>
    have hx : isNameCh x = true := hw x (by simp)
    simp only [List.cons_append, toks, ha, if_false, hx, if_true]
    rw [ih (x :: acc) (by simp) (fun y hy => hw y (by simp [hy]))]
    simp

/-- `{` followed by text that can still become a placeholder is an attempt in progress -/
theorem toks_none_attempt (acc : Str) (r : Str) (hv : ValidAcc acc) :
    toks none (123 :: (acc.reverse ++ r)) = toks (some acc) r := by
  cases hv with
  | inl h => subst h; simp [toks]
  | inr h =>
    obtain ⟨a, rest, h1, h2, h3⟩ := h
    rw [h1]
    simp only [toks, if_true, List.cons_append, h2]
    rw [toks_some_namechars [a] rest r (by simp) h3]
    have : rest.reverse ++ [a] = acc := by
      have := congrArg List.reverse h1
      simpa using this.symm
    rw [this]

/-! ### what `substSegs` returns -/

theorem substSegs_ch (m : Dict Str) (c : Nat) (t : List Seg) (r : Str) :
    substSegs m (.ch c :: t) = .ok r ↔ ∃ r', substSegs m t = .ok r' ∧ r = c :: r' := by
  simp only [substSegs]
  cases h : substSegs m t with
  | error e => simp
  | ok r' => simp [eq_comm]

theorem substSegs_chars (m : Dict Str) (l : Str) (t : List Seg) (r : Str) :
    substSegs m (l.map Seg.ch ++ t) = .ok r ↔ ∃ r', substSegs m t = .ok r' ∧ r = l ++ r' := by
  induction l generalizing r with
  | nil => simp
  | cons x u ih =>
    simp only [List.map_cons, List.cons_append, substSegs_ch, ih]
    constructor
    · rintro ⟨r', ⟨r'', h1, h2⟩, h3⟩
      exact ⟨r'', h1, by rw [h3, h2]⟩
    · rintro ⟨r', h1, h2⟩
      exact ⟨u ++ r', ⟨r', h1, rfl⟩, by rw [h2]⟩

theorem substSegs_ph (m : Dict Str) (n : Str) (t : List Seg) (r : Str) :
    substSegs m (.ph n :: t) = .ok r ↔
      ∃ body r', dget m n = some body ∧ substSegs m t = .ok r' ∧ r = 40 :: 63 :: 58 :: (body ++ 41 :: r') := by
  simp only [substSegs]
  cases hb : dget m n with
  | none => simp
  | some body =>
    cases h : substSegs m t with
    | error e => simp
    | ok r' => simp [eq_comm]

/-- the only exception of a pass is the `KeyError` of an undefined macro -/
theorem substSegs_error (m : Dict Str) (l : List Seg) (e : Exc) (h : substSegs m l = .error e) :
    ∃ k, e = .keyError k ∧ k ∈ segNames l ∧ dget m k = none := by
  induction l with
  | nil => simp [substSegs] at h
  | cons x t ih =>
    cases x with
    | ch c =>
      simp only [substSegs] at h
      cases ht : substSegs m t with
      | ok r => simp [ht] at h
      | error e' =>
        simp only [ht] at h
        cases h
        obtain ⟨k, h1, h2, h3⟩ := ih ht
        exact ⟨k, h1, by simpa [segNames] using h2, h3⟩
    | ph n =>
      simp only [substSegs] at h
      cases hb : dget m n with
      | none =>
        simp only [hb] at h
        cases h
        exact ⟨n, rfl, by simp [segNames], hb⟩
      | some body =>
        simp only [hb] at h
        cases ht : substSegs m t with
        | ok r => simp [ht] at h
        | error e' =>
          simp only [ht] at h
          cases h
          obtain ⟨k, h1, h2, h3⟩ := ih ht
          exact ⟨k, h1, by simp [segNames, h2], h3⟩

theorem substSegs_defined (m : Dict Str) (l : List Seg) (h : ∀ n ∈ segNames l, (dget m n).isSome) :
    ∃ r, substSegs m l = .ok r := by
  cases hs : substSegs m l with
  | ok r => exact ⟨r, rfl⟩
  | error e =>
    obtain ⟨k, _, h2, h3⟩ := substSegs_error m l e hs
    have := h k h2
    rw [h3] at this
    cases this

/-- the text a pending attempt renders to starts with `{` or with the `(` of a substituted macro -/
theorem render_pending_head (m : Dict Str) (acc : Str) (v r : Str) (h : substSegs m (toks (some acc) v) = .ok r) :
    ∃ c t, r = c :: t ∧ isNameCh c = false ∧ c ≠ 125 := by
  induction v generalizing acc r with
  | nil =>
    rw [toks_some_nil] at h
    have := (substSegs_chars m (123 :: acc.reverse) [] r).mp (by simpa [flushed] using h)
    obtain ⟨r', _, h2⟩ := this
    exact ⟨123, acc.reverse ++ r', by simpa using h2, by decide, by decide⟩
  | cons c t ih =>
    simp only [toks] at h
    split at h
    · split at h
      · exact ih _ _ h
      · split at h
        · obtain ⟨r', _, h2⟩ := (substSegs_ch m 123 _ r).mp h
          exact ⟨123, r', h2, by decide, by decide⟩
        · obtain ⟨r', _, h2⟩ := (substSegs_ch m 123 _ r).mp h
          exact ⟨123, r', h2, by decide, by decide⟩
    · split at h
      · exact ih _ _ h
      · split at h
        · obtain ⟨body, r', _, _, h3⟩ := (substSegs_ph m _ _ r).mp h
          exact ⟨40, _, h3, by decide, by decide⟩
        · split at h
          · obtain ⟨r', _, h2⟩ := (substSegs_chars m (123 :: acc.reverse) _ r).mp h
            exact ⟨123, acc.reverse ++ r', by simpa using h2, by decide, by decide⟩
          · obtain ⟨r', _, h2⟩ := (substSegs_chars m (123 :: acc.reverse) _ r).mp h
            exact ⟨123, acc.reverse ++ r', by simpa using h2, by decide, by decide⟩

/-! ## 2. the placeholders after one pass -/

/-- the placeholders of the body of a macro (none for an undefined one) -/
def bodyPhs (m : Dict Str) (k : Str) : List Str :=
  match dget m k with
  | some b => phNames b
  | none => []

def ValidSt : Option Str → Prop
  | none => True
  | some acc => ValidAcc acc

/-- the scanner on the rendered text finds the placeholders of the substituted bodies and nothing else -/
theorem render_segNames (m : Dict Str) (st : Option Str) (v : Str) (hv : ValidSt st) (r : Str)
    (h : substSegs m (toks st v) = .ok r) :
    segNames (toks none r) = (segNames (toks st v)).flatMap (bodyPhs m) := by
  induction v generalizing st r with
  | nil =>
    cases st with
    | none =>
      simp only [toks, substSegs] at h
      cases h
      simp [toks, segNames]
    | some acc =>
      rw [toks_some_nil] at h ⊢
      obtain ⟨r', h1, h2⟩ := (substSegs_chars m (123 :: acc.reverse) [] r).mp (by simpa [flushed] using h)
      simp only [substSegs] at h1
      cases h1
      have hr : r = 123 :: (acc.reverse ++ []) := by simpa using h2
      rw [hr, toks_none_attempt acc [] hv, toks_some_nil, segNames_flushed]
      simp
  | cons c t ih =>
    cases st with
    | none =>
      by_cases hc : c = 123
      · simp only [toks, hc, if_true] at h ⊢
        exact ih (some []) (Or.inl rfl) r h
      · simp only [toks, hc, if_false] at h ⊢
        obtain ⟨r', h1, h2⟩ := (substSegs_ch m c _ r).mp h
        subst h2
        simp only [toks, hc, if_false, segNames]
        exact ih none trivial r' h1
    | some acc =>
      have hva : ValidAcc acc := hv
      by_cases ha : acc = []
      · subst ha
        by_cases hl : isLower c = true
        · have hk : toks (some []) (c :: t) = toks (some [c]) t := by simp [toks, hl]
          rw [hk] at h ⊢
          exact ih (some [c]) (validAcc_single c hl) r h
        · by_cases h123 : c = 123
          · -- `{{`
            have hk : toks (some []) (c :: t) = .ch 123 :: toks (some []) t := by simp [toks, h123, isLower]
            rw [hk] at h ⊢
            obtain ⟨r', h1, h2⟩ := (substSegs_ch m 123 _ r).mp h
            obtain ⟨x, u, hxu, hx1, hx2⟩ := render_pending_head m [] t r' h1
            subst h2
            have : toks none (123 :: r') = flushed [] ++ toks none r' := by
              rw [hxu]
              simp only [toks, if_true]
              exact toks_some_breaker [] x u hx1 hx2
            rw [this, segNames_append, segNames_flushed]
            simp only [segNames, List.nil_append]
            exact ih (some []) (Or.inl rfl) r' h1
          · have hk : toks (some []) (c :: t) = .ch 123 :: .ch c :: toks none t := by simp [toks, h123, hl]
            rw [hk] at h ⊢
            obtain ⟨r1, h1, h2⟩ := (substSegs_ch m 123 _ r).mp h
            obtain ⟨r2, h3, h4⟩ := (substSegs_ch m c _ r1).mp h1
            subst h2; subst h4
            have : toks none (123 :: c :: r2) = .ch 123 :: .ch c :: toks none r2 := by simp [toks, h123, hl]
            rw [this]
            simp only [segNames]
            exact ih none trivial r2 h3
      · by_cases hn : isNameCh c = true
        · have hk : toks (some acc) (c :: t) = toks (some (c :: acc)) t := by simp [toks, ha, hn]
          rw [hk] at h ⊢
          exact ih (some (c :: acc)) (validAcc_cons acc c hva ha hn) r h
        · have hn' : isNameCh c = false := by simpa using hn
          by_cases h125 : c = 125
          · -- the placeholder is complete
            have hk : toks (some acc) (c :: t) = .ph acc.reverse :: toks none t := by
              subst h125; simp [toks, ha, isNameCh, isLower]
            rw [hk] at h ⊢
            obtain ⟨body, r', h1, h2, h3⟩ := (substSegs_ph m _ _ r).mp h
            subst h3
            have e1 : toks none (40 :: 63 :: 58 :: (body ++ 41 :: r'))
                = .ch 40 :: .ch 63 :: .ch 58 :: (toks none body ++ .ch 41 :: toks none r') := by
              simp only [toks]
              simp only [show (40 : Nat) ≠ 123 by decide, show (63 : Nat) ≠ 123 by decide,
                show (58 : Nat) ≠ 123 by decide, if_false]
              rw [toks_append_breaker none body 41 r' (by decide) (by decide) (by decide)]
            rw [e1]
            simp only [segNames, segNames_append, List.flatMap_cons, bodyPhs, h1]
            rw [ih none trivial r' h2]
            rfl
          · by_cases h123 : c = 123
            · -- `{abc{`
              have hk : toks (some acc) (c :: t) = flushed acc ++ toks (some []) t := by
                subst h123; simp [toks, ha, isNameCh, isLower, flushed]
              rw [hk] at h ⊢
              obtain ⟨r', h1, h2⟩ := (substSegs_chars m (123 :: acc.reverse) _ r).mp h
              obtain ⟨x, u, hxu, hx1, hx2⟩ := render_pending_head m [] t r' h1
              subst h2
              have : toks none (123 :: acc.reverse ++ r') = flushed acc ++ toks none r' := by
                rw [List.cons_append, toks_none_attempt acc r' hva, hxu]
                exact toks_some_breaker acc x u hx1 hx2
              rw [this]
              simp only [segNames_append, segNames_flushed, List.nil_append]
              exact ih (some []) (Or.inl rfl) r' h1
            · have hk : toks (some acc) (c :: t) = flushed acc ++ .ch c :: toks none t := by
                simp [toks, ha, hn', h125, h123, flushed]
              rw [hk] at h ⊢
              obtain ⟨r1, h1, h2⟩ := (substSegs_chars m (123 :: acc.reverse) _ r).mp h
              obtain ⟨r2, h3, h4⟩ := (substSegs_ch m c _ r1).mp h1
              subst h2; subst h4
              have : toks none (123 :: acc.reverse ++ c :: r2) = flushed acc ++ .ch c :: toks none r2 := by
                rw [List.cons_append, toks_none_attempt acc (c :: r2) hva, toks_some_breaker acc c r2 hn' h125]
                simp [toks, h123]
              rw [this]
              simp only [segNames_append, segNames_flushed, List.nil_append, segNames]
              exact ih none trivial r2 h3

/-- `re.sub` once: the placeholders of the result are the placeholders of the bodies of the macros that were
replaced, in order -/
theorem subPass_phNames (m : Dict Str) (v r : Str) (h : subPass m v = .ok r) :
    phNames r = (phNames v).flatMap (bodyPhs m) :=
  render_segNames m none v trivial r h

theorem hasPh_iff (s : Str) : hasPh s = true ↔ phNames s ≠ [] := by
  unfold hasPh phNames
  generalize toks none s = l
  induction l with
  | nil => simp [segNames]
  | cons x t ih => cases x <;> simp [segNames, Seg.isPh, ih]

theorem hasPh_false_iff (s : Str) : hasPh s = false ↔ phNames s = [] := by
  have := hasPh_iff s
  cases h : hasPh s <;> simp_all

/-! ## 3. ranks: one pass lowers the highest rank present -/

/-- `rk` is a rank function for the macro set: every macro used by the body of a defined macro ranks lower -/
def RankedBy (rk : Str → Nat) (m : Dict Str) : Prop :=
  ∀ k body, dget m k = some body → ∀ n ∈ phNames body, rk n < rk k

/-- the macro set has no cycle (among the macros that can be reached at all) -/
def Acyclic (m : Dict Str) : Prop := ∃ rk, RankedBy rk m

/-- every macro used by the body of a defined macro is defined -/
def Closed (m : Dict Str) : Prop :=
  ∀ k body, dget m k = some body → ∀ n ∈ phNames body, (dget m n).isSome

theorem depthL_ge (rk : Str → Nat) (l : List Str) (n : Str) (h : n ∈ l) : rk n + 1 ≤ depthL rk l := by
  induction l with
  | nil => cases h
  | cons x t ih =>
    simp only [depthL, List.foldr_cons]
    cases List.mem_cons.mp h with
    | inl e => subst e; exact Nat.le_max_left _ _
    | inr e => exact Nat.le_trans (ih e) (Nat.le_max_right _ _)

theorem depthL_le (rk : Str → Nat) (l : List Str) (b : Nat) (h : ∀ n ∈ l, rk n + 1 ≤ b) : depthL rk l ≤ b := by
  induction l with
  | nil => simp [depthL]
  | cons x t ih =>
    simp only [depthL, List.foldr_cons]
    exact Nat.max_le.mpr ⟨h x (by simp), ih (fun n hn => h n (by simp [hn]))⟩

theorem depthL_eq_zero (rk : Str → Nat) (l : List Str) (h : depthL rk l = 0) : l = [] := by
  cases l with
  | nil => rfl
  | cons x t =>
    have := depthL_ge rk (x :: t) x (by simp)
    omega

theorem mem_bodyPhs (m : Dict Str) (k n : Str) (h : n ∈ bodyPhs m k) :
    ∃ body, dget m k = some body ∧ n ∈ phNames body := by
  unfold bodyPhs at h
  cases hb : dget m k with
  | none => simp [hb] at h
  | some body => exact ⟨body, rfl, by simpa [hb] using h⟩

/-- one `re.sub` pass lowers the depth -/
theorem subPass_depth (rk : Str → Nat) (m : Dict Str) (hr : RankedBy rk m) (v r : Str) (h : subPass m v = .ok r)
    (hp : hasPh v = true) : depth rk r < depth rk v := by
  have hne := (hasPh_iff v).mp hp
  have hpos : 1 ≤ depth rk v := by
    cases hl : phNames v with
    | nil => exact absurd hl hne
    | cons x t =>
      have := depthL_ge rk (phNames v) x (by rw [hl]; simp)
      unfold depth; omega
  have : depth rk r ≤ depth rk v - 1 := by
    unfold depth
    rw [subPass_phNames m v r h]
    apply depthL_le
    intro n hn
    obtain ⟨k, hk, hnk⟩ := List.mem_flatMap.mp hn
    obtain ⟨body, hb, hnb⟩ := mem_bodyPhs m k n hnk
    have h1 := hr k body hb n hnb
    have h2 := depthL_ge rk (phNames v) k hk
    omega
  omega

theorem subPass_error (m : Dict Str) (v : Str) (e : Exc) (h : subPass m v = .error e) :
    ∃ k, e = .keyError k ∧ k ∈ phNames v ∧ dget m k = none :=
  substSegs_error m _ e h

/-- **termination**: with a rank function for the macro set, the `while` loop makes at most `depth` passes — a
fuel of that size never runs out, whatever the value (defined macros or not) -/
theorem expandValue_terminates (rk : Str → Nat) (m : Dict Str) (hr : RankedBy rk m) (f : Nat) (v : Str)
    (hf : depth rk v ≤ f) : expandValue m f v ≠ .error .diverges := by
  induction f generalizing v with
  | zero =>
    have : phNames v = [] := depthL_eq_zero rk _ (by unfold depth at hf; omega)
    have hp := (hasPh_false_iff v).mpr this
    simp [expandValue, hp]
  | succ f ih =>
    simp only [expandValue]
    by_cases hp : hasPh v = true
    · simp only [hp, if_true]
      cases hs : subPass m v with
      | error e =>
        obtain ⟨k, hk, _⟩ := subPass_error m v e hs
        simp [hk]
      | ok v' =>
        simp only
        have := subPass_depth rk m hr v v' hs hp
        exact ih v' (by omega)
    · simp [hp]

/-- the passes are counted by `passCount`: never more than `depth` -/
theorem passCount_le_depth (rk : Str → Nat) (m : Dict Str) (hr : RankedBy rk m) (f : Nat) (v : Str) (n : Nat)
    (h : passCount m f v = .ok n) : n ≤ depth rk v := by
  induction f generalizing v n with
  | zero =>
    simp only [passCount] at h
    split at h
    · cases h
    · cases h; omega
  | succ f ih =>
    simp only [passCount] at h
    by_cases hp : hasPh v = true
    · simp only [hp, if_true] at h
      cases hs : subPass m v with
      | error e => simp [hs] at h
      | ok v' =>
        simp only [hs] at h
        cases hc : passCount m f v' with
        | error e => simp [hc] at h
        | ok n' =>
          simp only [hc] at h
          cases h
          have := subPass_depth rk m hr v v' hs hp
          have := ih v' n' hc
          omega
    · simp only [hp] at h
      cases h; omega

/-- `passCount` and `expandValue` are the same loop -/
theorem passCount_isOk (m : Dict Str) (f : Nat) (v : Str) :
    (∃ n, passCount m f v = .ok n) ↔ ∃ r, expandValue m f v = .ok r := by
  induction f generalizing v with
  | zero =>
    simp only [passCount, expandValue]
    split <;> simp
  | succ f ih =>
    simp only [passCount, expandValue]
    by_cases hp : hasPh v = true
    · simp only [hp, if_true]
      cases hs : subPass m v with
      | error e => simp
      | ok v' =>
        simp only
        rw [← ih v']
        cases hc : passCount m f v' <;> simp
    · simp [hp]

/-- **totality**: a rank function, no undefined macro anywhere — the expansion returns a text without placeholders -/
theorem expandValue_total (rk : Str → Nat) (m : Dict Str) (hr : RankedBy rk m) (hc : Closed m) (f : Nat) (v : Str)
    (hf : depth rk v ≤ f) (hd : ∀ n ∈ phNames v, (dget m n).isSome) :
    ∃ r, expandValue m f v = .ok r ∧ hasPh r = false := by
  induction f generalizing v with
  | zero =>
    have : phNames v = [] := depthL_eq_zero rk _ (by unfold depth at hf; omega)
    have hp := (hasPh_false_iff v).mpr this
    exact ⟨v, by simp [expandValue, hp], hp⟩
  | succ f ih =>
    simp only [expandValue]
    by_cases hp : hasPh v = true
    · simp only [hp, if_true]
      obtain ⟨v', hs⟩ := substSegs_defined m (toks none v) hd
      have hs' : subPass m v = .ok v' := hs
      simp only [hs']
      have hlt := subPass_depth rk m hr v v' hs' hp
      apply ih v' (by omega)
      intro n hn
      rw [subPass_phNames m v v' hs'] at hn
      obtain ⟨k, _, hnk⟩ := List.mem_flatMap.mp hn
      obtain ⟨body, hb, hnb⟩ := mem_bodyPhs m k n hnk
      exact hc k body hb n hnb
    · have hp' : hasPh v = false := by simpa using hp
      exact ⟨v, by simp [hp'], hp'⟩

/-- **the fuel is no part of the result**: once the loop has ended (with a text or with the `KeyError` of an
undefined macro), more fuel gives the same answer -/
theorem expandValue_stable (m : Dict Str) (f g : Nat) (v : Str) (hfg : f ≤ g)
    (h : expandValue m f v ≠ .error .diverges) : expandValue m g v = expandValue m f v := by
  induction f generalizing g v with
  | zero =>
    simp only [expandValue] at h ⊢
    by_cases hp : hasPh v = true
    · simp [hp] at h
    · cases g <;> simp [expandValue, hp]
  | succ f ih =>
    cases g with
    | zero => omega
    | succ g =>
      simp only [expandValue] at h ⊢
      by_cases hp : hasPh v = true
      · simp only [hp, if_true] at h ⊢
        cases hs : subPass m v with
        | error e => rfl
        | ok v' =>
          simp only [hs] at h ⊢
          exact ih g v' (by omega) h
      · simp [hp]

/-- the same for a whole property table -/
theorem expandDict_total (rk : Str → Nat) (m : Dict Str) (hr : RankedBy rk m) (hc : Closed m) (f : Nat)
    (d : Dict PVal) (hf : ∀ k s, (k, PVal.pat s) ∈ d → depth rk s ≤ f)
    (hd : ∀ k s, (k, PVal.pat s) ∈ d → ∀ n ∈ phNames s, (dget m n).isSome) :
    ∃ ex, expandDict f m d = .ok ex := by
  induction d with
  | nil => exact ⟨[], rfl⟩
  | cons x t ih =>
    obtain ⟨ex, hex⟩ := ih (fun k s h => hf k s (by simp [h])) (fun k s h => hd k s (by simp [h]))
    obtain ⟨k, pv⟩ := x
    cases pv with
    | fn i => exact ⟨(k, .fn i) :: ex, by simp [expandDict, hex]⟩
    | pat s =>
      obtain ⟨r, hr', _⟩ := expandValue_total rk m hr hc f s (hf k s (by simp)) (hd k s (by simp))
      exact ⟨(k, .pat r) :: ex, by simp [expandDict, hr', hex]⟩

theorem expandDict_not_diverges (rk : Str → Nat) (m : Dict Str) (hr : RankedBy rk m) (f : Nat)
    (d : Dict PVal) (hf : ∀ k s, (k, PVal.pat s) ∈ d → depth rk s ≤ f) :
    expandDict f m d ≠ .error .diverges := by
  induction d with
  | nil => simp [expandDict]
  | cons x t ih =>
    have iht := ih (fun k s h => hf k s (by simp [h]))
    obtain ⟨k, pv⟩ := x
    cases pv with
    | fn i =>
      simp only [expandDict]
      cases hx : expandDict f m t with
      | ok r => simp
      | error e => rw [hx] at iht; simpa using iht
    | pat s =>
      have hs := expandValue_terminates rk m hr f s (hf k s (by simp))
      simp only [expandDict]
      cases hv : expandValue m f s with
      | error e => rw [hv] at hs; simpa using hs
      | ok s' =>
        simp only
        cases hx : expandDict f m t with
        | ok r => simp
        | error e => rw [hx] at iht; simpa using iht

/-! ## 3b. totality from what a value can reach (no condition on macros the value does not reach) -/

/-- every macro the value reaches is defined, to depth `f` (so no cycle on the way): the expansion returns a text
without placeholders, within `f` passes -/
theorem expandValue_total_deep (m : Dict Str) (f : Nat) (v : Str)
    (hd : ∀ n ∈ phNames v, definedDeep m f n = true) : ∃ r, expandValue m f v = .ok r ∧ hasPh r = false := by
  induction f generalizing v with
  | zero =>
    have : phNames v = [] := by
      cases h : phNames v with
      | nil => rfl
      | cons x t => have := hd x (by rw [h]; simp); simp [definedDeep] at this
    have hp := (hasPh_false_iff v).mpr this
    exact ⟨v, by simp [expandValue, hp], hp⟩
  | succ f ih =>
    simp only [expandValue]
    by_cases hp : hasPh v = true
    · simp only [hp, if_true]
      have hdef : ∀ n ∈ segNames (toks none v), (dget m n).isSome := by
        intro n hn
        have := hd n hn
        simp only [definedDeep] at this
        cases hb : dget m n with
        | none => simp [hb] at this
        | some b => rfl
      obtain ⟨v', hs⟩ := substSegs_defined m (toks none v) hdef
      have hs' : subPass m v = .ok v' := hs
      simp only [hs']
      apply ih v'
      intro n hn
      rw [subPass_phNames m v v' hs'] at hn
      obtain ⟨k, hk, hnk⟩ := List.mem_flatMap.mp hn
      obtain ⟨body, hb, hnb⟩ := mem_bodyPhs m k n hnk
      have := hd k hk
      simp only [definedDeep, hb] at this
      exact List.all_eq_true.mp this n hnb
    · have hp' : hasPh v = false := by simpa using hp
      exact ⟨v, by simp [hp'], hp'⟩

theorem expandDict_total_deep (m : Dict Str) (f : Nat) (d : Dict PVal) (h : propsDeepB m f d = true) :
    ∃ ex, expandDict f m d = .ok ex := by
  induction d with
  | nil => exact ⟨[], rfl⟩
  | cons x t ih =>
    unfold propsDeepB at h
    simp only [List.all_cons, Bool.and_eq_true] at h
    obtain ⟨ex, hex⟩ := ih (by unfold propsDeepB; exact h.2)
    obtain ⟨k, pv⟩ := x
    cases pv with
    | fn i => exact ⟨(k, .fn i) :: ex, by simp [expandDict, hex]⟩
    | pat s =>
      obtain ⟨r, hr', _⟩ := expandValue_total_deep m f s (fun n hn => List.all_eq_true.mp h.1 n hn)
      exact ⟨(k, .pat r) :: ex, by simp [expandDict, hr', hex]⟩

/-! ## 4. the executable checks -/

theorem maxRank_some (rk : Str → Option Nat) (l : List Str) (b : Nat) (h : maxRank rk l = some b) :
    ∀ n ∈ l, ∃ a, rk n = some a ∧ a + 1 ≤ b := by
  induction l generalizing b with
  | nil => intro n hn; cases hn
  | cons x t ih =>
    simp only [maxRank] at h
    cases hx : rk x with
    | none => simp [hx] at h
    | some a =>
      cases ht : maxRank rk t with
      | none => simp [hx, ht] at h
      | some b' =>
        simp only [hx, ht, Option.some.injEq] at h
        intro n hn
        cases List.mem_cons.mp hn with
        | inl e => subst e; exact ⟨a, hx, by omega⟩
        | inr e =>
          obtain ⟨a', h1, h2⟩ := ih b' ht n e
          exact ⟨a', h1, by omega⟩

theorem maxRank_le (rk : Str → Option Nat) (l : List Str) (b c : Nat) (h : maxRank rk l = some b)
    (hc : ∀ n ∈ l, ∀ a, rk n = some a → a + 1 ≤ c) : b ≤ c := by
  induction l generalizing b with
  | nil => simp only [maxRank, Option.some.injEq] at h; omega
  | cons x t ih =>
    simp only [maxRank] at h
    cases hx : rk x with
    | none => simp [hx] at h
    | some a =>
      cases ht : maxRank rk t with
      | none => simp [hx, ht] at h
      | some b' =>
        simp only [hx, ht, Option.some.injEq] at h
        have h1 := hc x (by simp) a hx
        have h2 := ih b' ht (fun n hn => hc n (by simp [hn]))
        omega

theorem maxRank_congr (rk rk' : Str → Option Nat) (l : List Str) (b : Nat) (h : maxRank rk l = some b)
    (hc : ∀ n ∈ l, ∀ a, rk n = some a → rk' n = some a) : maxRank rk' l = some b := by
  induction l generalizing b with
  | nil => simpa [maxRank] using h
  | cons x t ih =>
    simp only [maxRank] at h ⊢
    cases hx : rk x with
    | none => simp [hx] at h
    | some a =>
      cases ht : maxRank rk t with
      | none => simp [hx, ht] at h
      | some b' =>
        simp only [hx, ht] at h
        rw [hc x (by simp) a hx, ih b' ht (fun n hn => hc n (by simp [hn]))]
        exact h

/-- a rank that was found is found with any deeper search -/
theorem rankOf_mono (m : Dict Str) (f g : Nat) (k : Str) (a : Nat) (hfg : f ≤ g) (h : rankOf m f k = some a) :
    rankOf m g k = some a := by
  induction f generalizing g k a with
  | zero => simp [rankOf] at h
  | succ f ih =>
    cases g with
    | zero => omega
    | succ g =>
      simp only [rankOf] at h ⊢
      cases hb : dget m k with
      | none => simpa [hb] using h
      | some body =>
        simp only [hb] at h ⊢
        exact maxRank_congr _ _ _ a h (fun n _ a' ha' => ih g n a' (by omega) ha')

theorem rankOf_lt (m : Dict Str) (f : Nat) (k : Str) (a : Nat) (h : rankOf m f k = some a) : a < f := by
  induction f generalizing k a with
  | zero => simp [rankOf] at h
  | succ f ih =>
    simp only [rankOf] at h
    cases hb : dget m k with
    | none => simp only [hb, Option.some.injEq] at h; omega
    | some body =>
      simp only [hb] at h
      have := maxRank_le _ _ a f h (fun n _ a' ha' => ih n a' ha')
      omega

theorem rankFn_le (m : Dict Str) (k : Str) : rankFn m k ≤ m.length := by
  unfold rankFn
  cases h : rankOf m (m.length + 1) k with
  | none => simp
  | some a => have := rankOf_lt m _ k a h; simp; omega

theorem depth_rankFn_le (m : Dict Str) (v : Str) : depth (rankFn m) v ≤ m.length + 1 := by
  unfold depth
  apply depthL_le
  intro n _
  have := rankFn_le m n
  omega

/-- the check computes a rank function -/
theorem acyclicB_ranked (m : Dict Str) (h : acyclicB m = true) : RankedBy (rankFn m) m := by
  intro k body hb n hn
  have hk : k ∈ dkeys m := (dget_isSome_iff_mem_dkeys m k).mp (by simp [hb])
  unfold acyclicB at h
  have hk' := List.all_eq_true.mp h k hk
  cases hr : rankOf m (m.length + 1) k with
  | none => simp [hr] at hk'
  | some a =>
    have hr' := hr
    simp only [rankOf, hb] at hr'
    obtain ⟨a', h1, h2⟩ := maxRank_some _ _ a hr' n hn
    have h3 := rankOf_mono m m.length (m.length + 1) n a' (by omega) h1
    simp only [rankFn, hr, h3, Option.getD_some]
    omega

theorem acyclicB_acyclic (m : Dict Str) (h : acyclicB m = true) : Acyclic m := ⟨rankFn m, acyclicB_ranked m h⟩

theorem closedB_closed (m : Dict Str) (h : closedB m = true) : Closed m := by
  intro k body hb n hn
  have hmem := dget_some_mem m k body hb
  unfold closedB at h
  have := List.all_eq_true.mp h (k, body) hmem
  exact List.all_eq_true.mp this n hn

theorem propsClosedB_spec (m : Dict Str) (d : Dict PVal) (h : propsClosedB m d = true) :
    ∀ k s, (k, PVal.pat s) ∈ d → ∀ n ∈ phNames s, (dget m n).isSome := by
  intro k s hks n hn
  unfold propsClosedB at h
  have := List.all_eq_true.mp h (k, .pat s) hks
  exact List.all_eq_true.mp this n hn

/-- a macro set that passes the check: `|m| + 1` passes are enough for every value -/
theorem acyclicB_terminates (m : Dict Str) (h : acyclicB m = true) (f : Nat) (hf : m.length + 1 ≤ f) (v : Str) :
    expandValue m f v ≠ .error .diverges :=
  expandValue_terminates (rankFn m) m (acyclicB_ranked m h) f v (Nat.le_trans (depth_rankFn_le m v) hf)

/-- a property table whose macros are all defined expands under a closed macro set that passes the check -/
theorem expandDict_ok_of_checks (m : Dict Str) (f : Nat) (d : Dict PVal) (hac : acyclicB m = true)
    (hcl : closedB m = true) (hpc : propsClosedB m d = true) (hf : m.length + 1 ≤ f) :
    ∃ ex, expandDict f m d = .ok ex :=
  expandDict_total (rankFn m) m (acyclicB_ranked m hac) (closedB_closed m hcl) f d
    (fun _ s _ => Nat.le_trans (depth_rankFn_le m s) hf) (propsClosedB_spec m d hpc)

/-! ## 5. the constructor -/

/-- the start of the loop of `addProfiles` on a registry without profiles -/
theorem bulk_start (cfg : Cfg) (r : Reg) (l : List ProfileDef) (hinv : Inv cfg r) (hempty : r.names = [])
    (hnd : (l.map (·.name)).Nodup) : Bulk cfg (bulkEnv cfg.base l) [] l (preloadMacros r l) := by
  obtain ⟨p1, p2, p3, p4, p5, p6, p7, p8⟩ := preload_spec r l hnd
  have hrawnone : ∀ n, dget r.raw n = none := by
    intro n
    cases hd : dget r.raw n with
    | none => rfl
    | some e =>
      have := (hinv.rawDom n).mp (by simp [hd])
      rw [hempty] at this; simp at this
  have hused : SameEnv r.used cfg.base := by
    have := hinv.used
    rw [hempty] at this
    exact this
  have hck : r.compiled = [] := by
    have := hinv.ckeys
    rw [hempty] at this
    cases hc : r.compiled with
    | nil => rfl
    | cons a t => rw [hc] at this; simp [dkeys] at this
  refine ⟨by rw [p2, hempty]; rfl, by simpa using hnd, by rw [p1]; exact bulkEnv_sameEnv hused l,
    by simp, ?_, ?_, by rw [p3, p2, hempty, hck]; rfl, by simp, by rw [p5, p3]; exact hinv.known⟩
  · intro d hd
    rw [p6 d hd]
    split
    · rfl
    · rename_i ht
      simp [macrosOf, hrawnone, dm, ht]
  · intro n hn
    cases p8 n hn with
    | inl h => rw [hrawnone] at h; simp at h
    | inr h => simpa using h

/-- a bulk add of new, distinct names on a registry without profiles goes through when every table expands under
the macros of all entries -/
theorem addProfiles_empty_ok (cfg : Cfg) (r : Reg) (l : List ProfileDef) (hinv : Inv cfg r) (hempty : r.names = [])
    (hnd : (l.map (·.name)).Nodup)
    (hex : ∀ d ∈ l, ∃ ex, expandDict cfg.fuel (bulkEnv cfg.base l) d.props = .ok ex) :
    (addProfiles cfg r l).2 = none := by
  have hb := bulk_start cfg r l hinv hempty hnd
  obtain ⟨h1, _, _⟩ := bulk_loop cfg _ [] l _ hb hex
  have hraw : (addProfilesRaw cfg r l).2 = none := by
    unfold addProfilesRaw
    simp only [h1, hempty, List.isEmpty_nil, Bool.not_true, Bool.false_or, hnd, decide_true, Bool.not_true]
    simp [h1]
  unfold addProfiles
  rw [atomic_ok' _ r hraw]
  exact hraw

/-- `Profiles()` does not raise: distinct names, a macro set (base macros updated with the macros of all tables)
that passes the cycle check and is closed, no undefined macro in a property, fuel above the number of macros -/
theorem init_ok_of_checks (cfg : Cfg) (l : List ProfileDef) (hnd : (l.map (·.name)).Nodup)
    (hac : acyclicB (bulkEnv cfg.base l) = true) (hcl : closedB (bulkEnv cfg.base l) = true)
    (hpc : ∀ d ∈ l, propsClosedB (bulkEnv cfg.base l) d.props = true)
    (hf : (bulkEnv cfg.base l).length + 1 ≤ cfg.fuel) : (init cfg l).2 = none := by
  have hinv : Inv cfg (empty cfg) :=
    ⟨by simp [empty], by simp [empty, dget], by simp [empty, dget], SameEnv.refl _, rfl, by simp [empty], rfl⟩
  have := addProfiles_empty_ok cfg (empty cfg) l hinv rfl hnd
    (fun d hd => expandDict_ok_of_checks _ _ _ hac hcl (hpc d hd) hf)
  unfold init
  simp [this]

/-- the same from what the properties reach: every macro a property uses is defined, and so on down, within the
fuel — nothing is asked of macros no property reaches -/
theorem init_ok_of_deep (cfg : Cfg) (l : List ProfileDef) (hnd : (l.map (·.name)).Nodup)
    (hpd : ∀ d ∈ l, propsDeepB (bulkEnv cfg.base l) cfg.fuel d.props = true) : (init cfg l).2 = none := by
  have hinv : Inv cfg (empty cfg) :=
    ⟨by simp [empty], by simp [empty, dget], by simp [empty, dget], SameEnv.refl _, rfl, by simp [empty], rfl⟩
  have := addProfiles_empty_ok cfg (empty cfg) l hinv rfl hnd
    (fun d hd => expandDict_total_deep _ _ _ (hpd d hd))
  unfold init
  simp [this]

end CssVerif.Profiles
