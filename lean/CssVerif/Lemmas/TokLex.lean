import CssVerif.Lemmas.Tok
/-!
# Toolkit for T5.6 (lexeme separation): first-character analysis of `Re`, greedy runs, and the per-class
scan lemmas used by `Props/C05.lean`.
-/
namespace CssVerif.Tok
open CssVerif CssVerif.Gen.C05

/-! ## first-character analysis -/

/-- `c` lies in one of the ranges -/
def inR (cs : List (Nat × Nat)) (c : Nat) : Bool := cs.any fun q => q.1 ≤ c && c ≤ q.2

/-- syntactic: the class cannot contain any code point of the ranges `cs` -/
def clsFails (neg : Bool) (rs cs : List (Nat × Nat)) : Bool :=
  if neg then cs.all fun q => rs.any fun p => p.1 ≤ q.1 && q.2 ≤ p.2
  else cs.all fun q => rs.all fun p => p.2 < q.1 || q.2 < p.1

theorem clsFails_sound (neg : Bool) (rs cs : List (Nat × Nat)) (c : Nat) (h : clsFails neg rs cs = true)
    (hc : inR cs c = true) : Re.inCls neg rs c = false := by
  simp only [inR, List.any_eq_true, Bool.and_eq_true, decide_eq_true_eq] at hc
  obtain ⟨q, hq, hq1, hq2⟩ := hc
  unfold clsFails at h
  cases neg with
  | true =>
    simp only [if_true, List.all_eq_true, List.any_eq_true, Bool.and_eq_true, decide_eq_true_eq] at h
    obtain ⟨p, hp, hp1, hp2⟩ := h q hq
    have : (rs.any fun p => decide (p.1 ≤ c) && decide (c ≤ p.2)) = true := by
      simp only [List.any_eq_true, Bool.and_eq_true, decide_eq_true_eq]
      exact ⟨p, hp, by omega, by omega⟩
    simp [Re.inCls, this]
  | false =>
    simp only [Bool.false_eq_true, if_false, List.all_eq_true, Bool.or_eq_true, decide_eq_true_eq] at h
    have : (rs.any fun p => decide (p.1 ≤ c) && decide (c ≤ p.2)) = false := by
      apply Bool.eq_false_iff.mpr
      intro hh
      simp only [List.any_eq_true, Bool.and_eq_true, decide_eq_true_eq] at hh
      obtain ⟨p, hp, hp1, hp2⟩ := hh
      have := h q hq p hp
      omega
    simp [Re.inCls, this]

/-- `(noStart, onlyEmpty)`: syntactic, for inputs whose first code point lies in the ranges `cs` —
`noStart`: `r` has no match at all; `onlyEmpty`: every match of `r` has length 0. -/
def startInfo (cs : List (Nat × Nat)) : Re → Bool × Bool
  | .eps => (false, true)
  | .cls neg rs => (clsFails neg rs cs, clsFails neg rs cs)
  | .seq a b =>
    ((startInfo cs a).1 || ((startInfo cs a).2 && (startInfo cs b).1),
     (startInfo cs a).1 || ((startInfo cs a).2 && (startInfo cs b).2))
  | .alt a b => ((startInfo cs a).1 && (startInfo cs b).1, (startInfo cs a).2 && (startInfo cs b).2)
  | .star a _ => (false, (startInfo cs a).1 || (startInfo cs a).2)
  | .rep a m n _ => (decide (0 < m) && ((startInfo cs a).1 || n == 0), (startInfo cs a).1 || (startInfo cs a).2)
  | .eol => (false, true)

def noStart (cs : List (Nat × Nat)) (r : Re) : Bool := (startInfo cs r).1

theorem flatMap_congr' {α β : Type} (l : List α) (f g : α → List β) (h : ∀ x ∈ l, f x = g x) :
    l.flatMap f = l.flatMap g := by
  induction l with
  | nil => rfl
  | cons a t ih =>
    simp only [List.flatMap_cons]
    rw [h a (by simp), ih (fun x hx => h x (List.mem_cons_of_mem _ hx))]

theorem repMs_all_zero (f : Cps → List Nat) (g : Bool) (s : Cps) (hf : ∀ l ∈ f s, l = 0) :
    ∀ (n m : Nat) (l : Nat), l ∈ Re.repMs f g m n s → l = 0 := by
  intro n
  induction n with
  | zero => intro m l h; simp only [Re.repMs] at h; split at h <;> simp at h; exact h
  | succ n ih =>
    intro m l h
    simp only [Re.repMs] at h
    have key : ∀ l, l ∈ ((f s).flatMap fun l1 => (Re.repMs f g (m - 1) n (s.drop l1)).map (l1 + ·)) → l = 0 := by
      intro l hl
      simp only [List.mem_flatMap, List.mem_map] at hl
      obtain ⟨l1, h1, l2, h2, rfl⟩ := hl
      have e1 := hf l1 h1
      subst e1
      simp only [List.drop_zero] at h2
      have := ih (m - 1) l2 h2
      omega
    split at h
    · split at h
      · simp only [List.mem_append, List.mem_singleton] at h
        rcases h with h | h
        · exact key l h
        · exact h
      · simp only [List.mem_cons] at h
        rcases h with h | h
        · exact h
        · exact key l h
    · exact key l h

theorem startInfo_sound (cs : List (Nat × Nat)) (c : Nat) (hc : inR cs c = true) : ∀ r : Re,
    ((startInfo cs r).1 = true → ∀ t, r.ms (c :: t) = []) ∧
    ((startInfo cs r).2 = true → ∀ t l, l ∈ r.ms (c :: t) → l = 0) := by
  intro r
  induction r with
  | eps => exact ⟨by simp [startInfo], by intro _ t l h; simpa [Re.ms] using h⟩
  | cls neg rs =>
    constructor
    · intro h t; simp only [startInfo] at h; simp [Re.ms, clsFails_sound _ _ _ _ h hc]
    · intro h t l hl; simp only [startInfo] at h; simp [Re.ms, clsFails_sound _ _ _ _ h hc] at hl
  | seq a b iha ihb =>
    have hempty : (startInfo cs a).2 = true → ∀ t, (Re.seq a b).ms (c :: t) =
        ((a.ms (c :: t)).flatMap fun _ => b.ms (c :: t)) := by
      intro h2 t
      simp only [Re.ms]
      apply flatMap_congr'
      intro l1 hl1
      have := iha.2 h2 t l1 hl1
      subst this
      simp
    constructor
    · intro h t
      simp only [startInfo, Bool.or_eq_true, Bool.and_eq_true] at h
      rcases h with h | ⟨h2, h3⟩
      · simp [Re.ms, iha.1 h t]
      · rw [hempty h2 t, ihb.1 h3 t]; simp
    · intro h t l hl
      simp only [startInfo, Bool.or_eq_true, Bool.and_eq_true] at h
      rcases h with h | ⟨h2, h3⟩
      · simp [Re.ms, iha.1 h t] at hl
      · rw [hempty h2 t] at hl
        simp only [List.mem_flatMap] at hl
        obtain ⟨_, _, hl⟩ := hl
        exact ihb.2 h3 t l hl
  | alt a b iha ihb =>
    constructor
    · intro h t
      simp only [startInfo, Bool.and_eq_true] at h
      simp [Re.ms, iha.1 h.1 t, ihb.1 h.2 t]
    · intro h t l hl
      simp only [startInfo, Bool.and_eq_true] at h
      simp only [Re.ms, List.mem_append] at hl
      rcases hl with hl | hl
      · exact iha.2 h.1 t l hl
      · exact ihb.2 h.2 t l hl
  | star a g iha =>
    constructor
    · intro h; simp [startInfo] at h
    · intro h t l hl
      simp only [startInfo, Bool.or_eq_true] at h
      have hz : ∀ l ∈ a.ms (c :: t), l = 0 := by
        rcases h with h | h
        · intro l hl; simp [iha.1 h t] at hl
        · exact iha.2 h t
      have hfil : (a.ms (c :: t)).filter (· > 0) = [] := by
        apply List.filter_eq_nil_iff.mpr
        intro x hx; have := hz x hx; simp [this]
      simp only [Re.ms, List.length_cons, Re.starMs, hfil, List.flatMap_nil] at hl
      split at hl <;> simp at hl <;> exact hl
  | rep a m n g iha =>
    constructor
    · intro h t
      simp only [startInfo, Bool.and_eq_true, decide_eq_true_eq, Bool.or_eq_true, beq_iff_eq] at h
      obtain ⟨hm, h⟩ := h
      have hm0 : ¬ m = 0 := by omega
      simp only [Re.ms]
      cases n with
      | zero => simp [Re.repMs, hm0]
      | succ n =>
        rcases h with h | h
        · simp [Re.repMs, hm0, iha.1 h t]
        · omega
    · intro h t l hl
      simp only [startInfo, Bool.or_eq_true] at h
      have hz : ∀ l ∈ a.ms (c :: t), l = 0 := by
        rcases h with h | h
        · intro l hl; simp [iha.1 h t] at hl
        · exact iha.2 h t
      exact repMs_all_zero a.ms g (c :: t) hz n m l hl
  | eol =>
    constructor
    · intro h; simp [startInfo] at h
    · intro _ t l hl; simp only [Re.ms] at hl; split at hl <;> simp at hl; exact hl

theorem noStart_sound {cs : List (Nat × Nat)} {c : Nat} {r : Re} (h : noStart cs r = true) (hc : inR cs c = true)
    (t : Cps) : r.ms (c :: t) = [] :=
  (startInfo_sound cs c hc r).1 h t

theorem first_none_of_noStart {cs : List (Nat × Nat)} {c : Nat} {r : Re} (h : noStart cs r = true)
    (hc : inR cs c = true) (t : Cps) : r.first (c :: t) = none := by
  simp [Re.first, noStart_sound h hc t]

/-- a pattern that cannot match the empty string has no match on the empty input -/
theorem ms_nil_of_nonNullable {r : Re} (h : r.nonNullable = true) : r.ms [] = [] := by
  cases hm : r.ms [] with
  | nil => rfl
  | cons x xs =>
    have hx : x ∈ r.ms [] := by rw [hm]; simp
    have h1 := Re.nonNullable_sound r h [] x hx
    have h2 := Re.ms_bounded r [] x hx
    simp at h2; omega

/-! ## scanning in partial-sheet mode -/

theorem scan_false_none {doC : Bool} {s : Cps} {n : String} {r : Re} {ps : List (String × Re)}
    (h : r.first s = none) : scan false doC s ((n, r) :: ps) = scan false doC s ps := by
  simp [scan, h]

theorem scan_false_hit {doC : Bool} {s : Cps} {n : String} {r : Re} {ps : List (String × Re)} {l : Nat}
    (h : r.first s = some l) (hic : identContinue n s l = false) :
    scan false doC s ((n, r) :: ps) = .hit n l := by
  simp [scan, h, hic]

/-- every production of the list is rejected by the first code point -/
def rejectAll (cs : List (Nat × Nat)) (ps : List (String × Re)) : Bool := ps.all fun p => noStart cs p.2

theorem scan_false_reject {doC : Bool} {cs : List (Nat × Nat)} {c : Nat} (hc : inR cs c = true) (t : Cps) :
    ∀ (pre rest : List (String × Re)), rejectAll cs pre = true →
      scan false doC (c :: t) (pre ++ rest) = scan false doC (c :: t) rest := by
  intro pre
  induction pre with
  | nil => intro rest _; rfl
  | cons p ps ih =>
    intro rest h
    obtain ⟨n, r⟩ := p
    simp only [rejectAll, List.all_cons, Bool.and_eq_true] at h
    rw [List.cons_append, scan_false_none (first_none_of_noStart h.1 hc t)]
    exact ih rest h.2

/-! ## greedy runs -/

/-- `[n, n-1, …, 0]` -/
def countdown : Nat → List Nat
  | 0 => [0]
  | n + 1 => (n + 1) :: countdown n

theorem countdown_succ (n : Nat) : (countdown n).map (1 + ·) ++ [0] = countdown (n + 1) := by
  induction n with
  | zero => rfl
  | succ n ih =>
    show (1 + (n + 1)) :: ((countdown n).map (1 + ·) ++ [0]) = (n + 1 + 1) :: countdown (n + 1)
    rw [ih, Nat.add_comm 1 (n + 1)]

theorem mem_countdown {n l : Nat} (h : l ∈ countdown n) : l ≤ n := by
  induction n with
  | zero => simp [countdown] at h; omega
  | succ n ih =>
    simp only [countdown, List.mem_cons] at h
    rcases h with h | h
    · omega
    · have := ih h; omega

theorem head_countdown (n : Nat) : (countdown n).head? = some n := by cases n <;> rfl

/-- greedy star over a run of code points each of which the body matches with exactly `[1]`, stopped by an input
the body does not match: the successes are `[|run|, …, 0]` -/
theorem starMs_run (f : Cps → List Nat) (P : Nat → Bool) (hP : ∀ c t, P c = true → f (c :: t) = [1]) (rest : Cps)
    (hstop : f rest = []) : ∀ (run : Cps) (fuel : Nat), (∀ c ∈ run, P c = true) → run.length < fuel →
      Re.starMs f true fuel (run ++ rest) = countdown run.length := by
  intro run
  induction run with
  | nil =>
    intro fuel _ hf
    obtain ⟨k, rfl⟩ : ∃ k, fuel = k + 1 := ⟨fuel - 1, by simp at hf; omega⟩
    simp [Re.starMs, hstop, countdown]
  | cons c r ih =>
    intro fuel hall hf
    obtain ⟨k, rfl⟩ : ∃ k, fuel = k + 1 := ⟨fuel - 1, by simp at hf; omega⟩
    have hc : P c = true := hall c (by simp)
    have hr : ∀ x ∈ r, P x = true := fun x hx => hall x (List.mem_cons_of_mem _ hx)
    have hk : r.length < k := by simp at hf; omega
    simp only [Re.starMs, List.cons_append, hP c _ hc, if_true]
    have : List.filter (fun x => decide (x > 0)) [1] = [1] := by decide
    rw [this]
    simp only [List.flatMap_cons, List.flatMap_nil, List.append_nil, List.drop_one, List.tail_cons]
    rw [ih k hr hk, List.length_cons]
    exact countdown_succ r.length

theorem seq_ms_nil {a b : Re} {s : Cps} (h : ∀ l ∈ a.ms s, b.ms (s.drop l) = []) : (Re.seq a b).ms s = [] := by
  simp only [Re.ms, List.flatMap_eq_nil_iff]
  intro l hl
  simp [h l hl]

/-! ## NUMBER class -/

def isDigit (c : Nat) : Bool := 48 ≤ c && c ≤ 57

/-- what may follow a lexeme: the end of the text, or the single space that separates it from the next one -/
def Sep (s : Cps) : Prop := s = [] ∨ ∃ rest, s = 32 :: rest

def digitRe : Re := Re.cls false [(48, 57)]
def signOpt : Re := Re.rep (Re.cls false [(43, 43), (45, 45)]) 0 1 true
def numA : Re := Re.seq signOpt (Re.seq (Re.star digitRe true) (Re.seq (Re.cls false [(46, 46)]) (Re.seq digitRe (Re.star digitRe true))))
def numB : Re := Re.seq signOpt (Re.seq digitRe (Re.star digitRe true))
def numRe : Re := Re.alt numA numB

theorem reNUMBER_eq : reNUMBER = numRe := rfl
theorem reDIMENSION_eq : reDIMENSION = Re.seq numRe reIDENT := by decide
theorem rePERCENTAGE_eq : rePERCENTAGE = Re.seq numRe (Re.cls false [(37, 37)]) := rfl

theorem inCls_digit (c : Nat) : Re.inCls false [(48, 57)] c = isDigit c := by
  simp [Re.inCls, isDigit]

theorem digit_ms_cons (c : Nat) (t : Cps) (h : isDigit c = true) : digitRe.ms (c :: t) = [1] := by
  simp [digitRe, Re.ms, inCls_digit, h]

theorem signOpt_ms (s : Cps) (h : ∀ c t, s = c :: t → c ≠ 43 ∧ c ≠ 45) : signOpt.ms s = [0] := by
  cases s with
  | nil => simp [signOpt, Re.ms, Re.repMs]
  | cons c t =>
    obtain ⟨h1, h2⟩ := h c t rfl
    have : Re.inCls false [(43, 43), (45, 45)] c = false := by
      simp [Re.inCls]; omega
    simp [signOpt, Re.ms, Re.repMs, this]

/-- the input is empty or starts with a code point satisfying `Q` -/
def HeadIn (Q : Nat → Prop) (s : Cps) : Prop := s = [] ∨ ∃ c t, s = c :: t ∧ Q c

theorem headIn_drop (Q : Nat → Prop) (ds stop : Cps) (hd : ∀ c ∈ ds, Q c) (hs : HeadIn Q stop) :
    ∀ l, l ≤ ds.length → HeadIn Q ((ds ++ stop).drop l) := by
  induction ds with
  | nil => intro l hl; simp at hl; subst hl; simpa using hs
  | cons c r ih =>
    intro l hl
    cases l with
    | zero => right; exact ⟨c, r ++ stop, rfl, hd c (by simp)⟩
    | succ l =>
      simp only [List.cons_append, List.drop_succ_cons]
      exact ih (fun x hx => hd x (List.mem_cons_of_mem _ hx)) l (by simp at hl; omega)

theorem seq_cls_ms_nil_of_head (rs : List (Nat × Nat)) (Y : Re) (s : Cps)
    (h : HeadIn (fun c => Re.inCls false rs c = false) s) : (Re.seq (Re.cls false rs) Y).ms s = [] := by
  rcases h with rfl | ⟨c, t, rfl, hc⟩
  · simp [Re.ms]
  · simp [Re.ms, hc]

theorem cls_ms_nil_of_head (rs : List (Nat × Nat)) (s : Cps)
    (h : HeadIn (fun c => Re.inCls false rs c = false) s) : (Re.cls false rs).ms s = [] := by
  rcases h with rfl | ⟨c, t, rfl, hc⟩
  · simp [Re.ms]
  · simp [Re.ms, hc]

theorem headIn_mono {Q R : Nat → Prop} {s : Cps} (h : HeadIn Q s) (hqr : ∀ c, Q c → R c) : HeadIn R s := by
  rcases h with rfl | ⟨c, t, rfl, hc⟩
  · left; rfl
  · right; exact ⟨c, t, rfl, hqr c hc⟩

theorem seq_ms_left_zero {a b : Re} {s : Cps} (h : a.ms s = [0]) : (Re.seq a b).ms s = b.ms s := by
  simp [Re.ms, h]

/-- what may follow a run of digits: the end of the text or a code point from the ranges `cs`, none of which is a
digit or a full stop -/
structure NumStop (cs : List (Nat × Nat)) (stop : Cps) : Prop where
  head : HeadIn (fun c => inR cs c = true) stop
  nodigit : clsFails false [(48, 57)] cs = true
  nodot : clsFails false [(46, 46)] cs = true

theorem sep_numStop {stop : Cps} (h : Sep stop) : NumStop [(32, 32)] stop := by
  refine ⟨?_, by decide, by decide⟩
  rcases h with rfl | ⟨rest, rfl⟩
  · left; rfl
  · right; exact ⟨32, rest, rfl, by decide⟩

theorem digit_ms_stop {cs : List (Nat × Nat)} (s : Cps) (h : NumStop cs s) : digitRe.ms s = [] := by
  apply cls_ms_nil_of_head
  exact headIn_mono h.head (fun c hc => clsFails_sound false _ cs c h.nodigit hc)

theorem star_digit_ms {cs : List (Nat × Nat)} (ds stop : Cps) (hd : ∀ c ∈ ds, isDigit c = true) (hs : NumStop cs stop) :
    (Re.star digitRe true).ms (ds ++ stop) = countdown ds.length := by
  simp only [Re.ms]
  exact starMs_run digitRe.ms isDigit digit_ms_cons stop (digit_ms_stop stop hs) ds _ hd (by simp; omega)

theorem inR_cons_digit {cs : List (Nat × Nat)} (c : Nat) (h : isDigit c = true) : inR ((48, 57) :: cs) c = true := by
  simp only [isDigit, Bool.and_eq_true, decide_eq_true_eq] at h
  simp [inR, h.1, h.2]

theorem inR_cons_of {cs : List (Nat × Nat)} (q : Nat × Nat) (c : Nat) (h : inR cs c = true) : inR (q :: cs) c = true := by
  simp only [inR, List.any_cons, Bool.or_eq_true]; right; exact h

/-- every position of digits ++ stop up to the end of the digits starts with a digit or a stop code point -/
theorem num_heads {cs : List (Nat × Nat)} (ds stop : Cps) (hd : ∀ c ∈ ds, isDigit c = true) (hs : NumStop cs stop)
    (l : Nat) (hl : l ≤ ds.length) : HeadIn (fun c => inR ((48, 57) :: cs) c = true) ((ds ++ stop).drop l) :=
  headIn_drop _ ds stop (fun c hc => inR_cons_digit c (hd c hc))
    (headIn_mono hs.head (fun c hc => inR_cons_of _ c hc)) l hl

theorem numA_ms {cs : List (Nat × Nat)} (d : Nat) (ds stop : Cps) (hd : ∀ c ∈ d :: ds, isDigit c = true)
    (hs : NumStop cs stop) : numA.ms (d :: ds ++ stop) = [] := by
  have hd0 : isDigit d = true := hd d (by simp)
  have hsign : signOpt.ms (d :: ds ++ stop) = [0] := by
    apply signOpt_ms
    intro c t h
    simp only [List.cons_append, List.cons.injEq] at h
    obtain ⟨rfl, _⟩ := h
    simp only [isDigit, Bool.and_eq_true, decide_eq_true_eq] at hd0
    omega
  have hdot : clsFails false [(46, 46)] ((48, 57) :: cs) = true := by
    have := hs.nodot
    simp only [clsFails, Bool.false_eq_true, if_false, List.all_cons, Bool.and_eq_true] at this ⊢
    exact ⟨by decide, this⟩
  have hrest : (Re.seq (Re.star digitRe true) (Re.seq (Re.cls false [(46, 46)]) (Re.seq digitRe (Re.star digitRe true)))).ms
      (d :: ds ++ stop) = [] := by
    apply seq_ms_nil
    intro l hl
    rw [star_digit_ms (d :: ds) stop hd hs] at hl
    have hle := mem_countdown hl
    apply seq_cls_ms_nil_of_head
    exact headIn_mono (num_heads (d :: ds) stop hd hs l hle) (fun c hc => clsFails_sound false _ _ c hdot hc)
  show (Re.seq signOpt _).ms _ = []
  rw [seq_ms_left_zero hsign, hrest]

theorem numB_ms {cs : List (Nat × Nat)} (d : Nat) (ds stop : Cps) (hd : ∀ c ∈ d :: ds, isDigit c = true)
    (hs : NumStop cs stop) : numB.ms (d :: ds ++ stop) = (countdown ds.length).map (1 + ·) := by
  have hd0 : isDigit d = true := hd d (by simp)
  have hsign : signOpt.ms (d :: ds ++ stop) = [0] := by
    apply signOpt_ms
    intro c t h
    simp only [List.cons_append, List.cons.injEq] at h
    obtain ⟨rfl, _⟩ := h
    simp only [isDigit, Bool.and_eq_true, decide_eq_true_eq] at hd0
    omega
  show (Re.seq signOpt _).ms _ = _
  rw [seq_ms_left_zero hsign]
  have hstar := star_digit_ms ds stop (fun c hc => hd c (List.mem_cons_of_mem _ hc)) hs
  have h1 : digitRe.ms (d :: (ds ++ stop)) = [1] := digit_ms_cons d _ hd0
  show List.flatMap _ (digitRe.ms (d :: (ds ++ stop))) = _
  rw [h1]
  simp only [List.flatMap_cons, List.flatMap_nil, List.append_nil, List.drop_one]
  show List.map _ ((digitRe.star true).ms (ds ++ stop)) = _
  rw [hstar]

theorem numRe_ms {cs : List (Nat × Nat)} (d : Nat) (ds stop : Cps) (hd : ∀ c ∈ d :: ds, isDigit c = true)
    (hs : NumStop cs stop) : numRe.ms (d :: ds ++ stop) = (countdown ds.length).map (1 + ·) := by
  show numA.ms _ ++ numB.ms _ = _
  rw [numA_ms d ds stop hd hs, numB_ms d ds stop hd hs]; rfl

theorem numRe_first {cs : List (Nat × Nat)} (d : Nat) (ds stop : Cps) (hd : ∀ c ∈ d :: ds, isDigit c = true)
    (hs : NumStop cs stop) : numRe.first (d :: ds ++ stop) = some (d :: ds).length := by
  simp only [Re.first, numRe_ms d ds stop hd hs, List.head?_map, head_countdown, Option.map_some, List.length_cons]
  congr 1; omega

theorem ms_nil_of_headIn {cs : List (Nat × Nat)} {r : Re} (hns : noStart cs r = true) (hnn : r.nonNullable = true)
    {s : Cps} (h : HeadIn (fun c => inR cs c = true) s) : r.ms s = [] := by
  rcases h with rfl | ⟨c, t, rfl, hc⟩
  · exact ms_nil_of_nonNullable hnn
  · exact noStart_sound hns hc t

/-- after a match of `numRe` on digits + stop, nothing that cannot start with a digit or a stop code point follows -/
theorem num_then_nil {cs : List (Nat × Nat)} (X : Re) (hns : noStart ((48, 57) :: cs) X = true)
    (hnn : X.nonNullable = true) (d : Nat) (ds stop : Cps) (hd : ∀ c ∈ d :: ds, isDigit c = true)
    (hs : NumStop cs stop) : (Re.seq numRe X).ms (d :: ds ++ stop) = [] := by
  apply seq_ms_nil
  intro l hl
  rw [numRe_ms d ds stop hd hs] at hl
  simp only [List.mem_map] at hl
  obtain ⟨k, hk, rfl⟩ := hl
  have hle : 1 + k ≤ (d :: ds).length := by have := mem_countdown hk; simp; omega
  exact ms_nil_of_headIn hns hnn (num_heads (d :: ds) stop hd hs (1 + k) hle)

theorem first_none_of_ms_nil {r : Re} {s : Cps} (h : r.ms s = []) : r.first s = none := by simp [Re.first, h]

/-- **NUMBER class**: a non-empty run of ASCII digits followed by the end of the text or a space is scanned as one
NUMBER token covering exactly the digits (partial-sheet mode). -/
theorem scan_number (doC : Bool) (d : Nat) (ds stop : Cps) (hd : ∀ c ∈ d :: ds, isDigit c = true) (hs : Sep stop) :
    scan false doC (d :: ds ++ stop) productions = .hit "NUMBER" (d :: ds).length := by
  have hd0 : inR [(48, 57)] d = true := by
    have := hd d (by simp)
    simpa [inR, isDigit] using this
  have hsplit : productions = productions.take 5 ++
      (("DIMENSION", reDIMENSION) :: ("PERCENTAGE", rePERCENTAGE) :: ("NUMBER", reNUMBER) :: productions.drop 8) := by
    decide
  rw [hsplit]
  rw [List.cons_append, scan_false_reject hd0 _ _ _ (by decide)]
  rw [scan_false_none (first_none_of_ms_nil (by
    rw [reDIMENSION_eq]; exact num_then_nil reIDENT (by decide) (by decide) d ds stop hd (sep_numStop hs)))]
  rw [scan_false_none (first_none_of_ms_nil (by
    rw [rePERCENTAGE_eq]; exact num_then_nil _ (by decide) (by decide) d ds stop hd (sep_numStop hs)))]
  apply scan_false_hit
  · rw [reNUMBER_eq]; exact numRe_first d ds stop hd (sep_numStop hs)
  · simp [identContinue]

/-! ## first-character analysis: exactly one code point -/

/-- syntactic: the class surely contains every code point of the ranges `cs` -/
def clsContains (neg : Bool) (rs cs : List (Nat × Nat)) : Bool := clsFails (!neg) rs cs

theorem clsContains_sound (neg : Bool) (rs cs : List (Nat × Nat)) (c : Nat) (h : clsContains neg rs cs = true)
    (hc : inR cs c = true) : Re.inCls neg rs c = true := by
  have := clsFails_sound (!neg) rs cs c h hc
  cases neg with
  | true => simp only [Bool.not_true, Re.inCls] at this ⊢; simpa using this
  | false => simp only [Bool.not_false, Re.inCls] at this ⊢; simpa using this

/-- syntactic: at an input whose first code point lies in `cs`, the successes of `r` are exactly `[1]` -/
def exactlyOne (cs : List (Nat × Nat)) : Re → Bool
  | .cls neg rs => clsContains neg rs cs
  | .alt a b => (exactlyOne cs a && noStart cs b) || (noStart cs a && exactlyOne cs b)
  | _ => false

theorem exactlyOne_sound (cs : List (Nat × Nat)) (c : Nat) (hc : inR cs c = true) : ∀ r : Re,
    exactlyOne cs r = true → ∀ t, r.ms (c :: t) = [1] := by
  intro r
  induction r with
  | cls neg rs => intro h t; simp only [exactlyOne] at h; simp [Re.ms, clsContains_sound _ _ _ _ h hc]
  | alt a b iha ihb =>
    intro h t
    simp only [exactlyOne, Bool.or_eq_true, Bool.and_eq_true] at h
    rcases h with ⟨h1, h2⟩ | ⟨h1, h2⟩
    · simp [Re.ms, iha h1 t, noStart_sound h2 hc t]
    · simp [Re.ms, ihb h2 t, noStart_sound h1 hc t]
  | eps => intro h; simp [exactlyOne] at h
  | seq a b _ _ => intro h; simp [exactlyOne] at h
  | star a g _ => intro h; simp [exactlyOne] at h
  | rep a m n g _ => intro h; simp [exactlyOne] at h
  | eol => intro h; simp [exactlyOne] at h

/-! ## S: the separator -/

def wsRanges : List (Nat × Nat) := [(9, 9), (13, 13), (10, 10), (12, 12), (32, 32)]

/-- a single space followed by the end of the text or by a code point that is not white space is one S token -/
theorem scan_space (doC : Bool) (next : Cps) (h : HeadIn (fun c => Re.inCls false wsRanges c = false) next) :
    scan false doC (32 :: next) productions = .hit "S" 1 := by
  have hp : productions = ("S", reS) :: productions.drop 1 := by decide
  rw [hp]
  apply scan_false_hit
  · have hstar : (Re.star (Re.cls false wsRanges) true).ms next = [0] := by
      show Re.starMs (Re.cls false wsRanges).ms true (next.length + 1) next = [0]
      have := starMs_run (Re.cls false wsRanges).ms (fun _ => false) (by intro c t h; cases h) next
        (cls_ms_nil_of_head wsRanges next h) [] (next.length + 1) (by simp) (by simp)
      simpa [countdown] using this
    show (Re.seq (Re.cls false wsRanges) (Re.star (Re.cls false wsRanges) true)).first (32 :: next) = some 1
    rw [first_seq_cls_cons]
    have : Re.inCls false wsRanges 32 = true := by decide
    simp [this, Re.first, hstar]
  · simp [identContinue]

/-! ## IDENT class (plain identifiers) -/

/-- `{nmstart}` and `{nmchar}` as they occur in the generated IDENT production -/
def nmstartRe : Re := match reIDENT with
  | .seq _ (.seq ns _) => ns
  | _ => .eps
def nmcharRe : Re := match reIDENT with
  | .seq _ (.seq _ (.star nc _)) => nc
  | _ => .eps
def dashOpt : Re := Re.rep (Re.cls false [(45, 45)]) 0 2 true

theorem reIDENT_eq : reIDENT = Re.seq dashOpt (Re.seq nmstartRe (Re.star nmcharRe true)) := by decide

/-- first code point of a plain identifier: a letter other than `u`/`U`, or `_` -/
def identStart : List (Nat × Nat) := [(65, 84), (86, 90), (95, 95), (97, 116), (118, 122)]
/-- further code points: letters, digits, `-`, `_` -/
def identRest : List (Nat × Nat) := [(45, 45), (48, 57), (65, 90), (95, 95), (97, 122)]

theorem dashOpt_ms (c : Nat) (t : Cps) (h : c ≠ 45) : dashOpt.ms (c :: t) = [0] := by
  have : Re.inCls false [(45, 45)] c = false := by simp [inCls_single, h]
  simp [dashOpt, Re.ms, Re.repMs, this]

theorem sep_headIn32 {stop : Cps} (h : Sep stop) : HeadIn (fun c => inR [(32, 32)] c = true) stop := by
  rcases h with rfl | ⟨rest, rfl⟩
  · left; rfl
  · right; exact ⟨32, rest, rfl, by decide⟩

/-- first code point of an identifier where `u`/`U` need not be excluded (after `@`) -/
def nameStart : List (Nat × Nat) := [(65, 90), (95, 95), (97, 122)]

theorem ident_first_gen (st : List (Nat × Nat)) (hst1 : exactlyOne st nmstartRe = true)
    (hst2 : clsFails false [(45, 45)] st = true) (c : Nat) (cs stop : Cps) (hc : inR st c = true)
    (hcs : ∀ x ∈ cs, inR identRest x = true) (hs : Sep stop) :
    reIDENT.first (c :: cs ++ stop) = some (c :: cs).length := by
  have hc45 : c ≠ 45 := by
    intro e
    have := clsFails_sound false _ st c hst2 hc
    rw [e] at this; revert this; decide
  have h1 : nmstartRe.ms (c :: (cs ++ stop)) = [1] := exactlyOne_sound st c hc nmstartRe hst1 _
  have hstar : (Re.star nmcharRe true).ms (cs ++ stop) = countdown cs.length := by
    show Re.starMs nmcharRe.ms true ((cs ++ stop).length + 1) (cs ++ stop) = _
    apply starMs_run nmcharRe.ms (fun x => inR identRest x)
    · intro x t hx; exact exactlyOne_sound identRest x hx nmcharRe (by decide) t
    · exact ms_nil_of_headIn (cs := [(32, 32)]) (by decide) (by decide) (sep_headIn32 hs)
    · exact hcs
    · simp; omega
  rw [reIDENT_eq]
  show ((Re.seq dashOpt _).ms _).head? = _
  rw [List.cons_append, seq_ms_left_zero (dashOpt_ms c _ hc45)]
  show (List.flatMap _ (nmstartRe.ms (c :: (cs ++ stop)))).head? = _
  rw [h1]
  simp only [List.flatMap_cons, List.flatMap_nil, List.append_nil, List.drop_one]
  show (List.map _ ((Re.star nmcharRe true).ms (cs ++ stop))).head? = _
  rw [hstar, List.head?_map, head_countdown]
  simp only [Option.map_some, List.length_cons]
  congr 1; omega

theorem ident_first (c : Nat) (cs stop : Cps) (hc : inR identStart c = true)
    (hcs : ∀ x ∈ cs, inR identRest x = true) (hs : Sep stop) :
    reIDENT.first (c :: cs ++ stop) = some (c :: cs).length :=
  ident_first_gen identStart (by decide) (by decide) c cs stop hc hcs hs

/-- **IDENT class**: a plain identifier (first code point a letter other than u/U or `_`; then letters, digits,
`-`, `_`) followed by the end of the text or a space is scanned as one IDENT token covering exactly the identifier. -/
theorem scan_ident (doC : Bool) (c : Nat) (cs stop : Cps) (hc : inR identStart c = true)
    (hcs : ∀ x ∈ cs, inR identRest x = true) (hs : Sep stop) :
    scan false doC (c :: cs ++ stop) productions = .hit "IDENT" (c :: cs).length := by
  have hsplit : productions = productions.take 3 ++ (("IDENT", reIDENT) :: productions.drop 4) := by decide
  rw [hsplit, List.cons_append, scan_false_reject hc _ _ _ (by decide)]
  apply scan_false_hit (ident_first c cs stop hc hcs hs)
  -- the code point after the identifier is not `(`
  have hget : (c :: (cs ++ stop))[(c :: cs).length]? ≠ some 40 := by
    have : (c :: (cs ++ stop))[(c :: cs).length]? = stop[0]? := by
      rw [← List.cons_append, List.getElem?_append_right (Nat.le_refl _)]; simp
    rw [this]
    rcases hs with rfl | ⟨rest, rfl⟩ <;> simp
  simp only [identContinue, Bool.and_eq_false_iff]
  right
  simpa using hget

/-! ## fixed lexemes: the match operators and CDO -/

theorem lit_first : ∀ (w rest : Cps), w ≠ [] → (Re.lit w).first (w ++ rest) = some w.length := by
  intro w
  induction w with
  | nil => intro rest h; exact absurd rfl h
  | cons a t ih =>
    intro rest _
    cases t with
    | nil => simp [Re.lit, first_cls_cons, inCls_single]
    | cons b u =>
      have := ih rest (by simp)
      simp only [Re.lit, List.cons_append, first_seq_cls_cons, inCls_single, decide_true, if_true]
      simp only [List.cons_append] at this
      rw [this]; simp; omega

/-- the fixed lexemes: (token type, text, index in `productions`) -/
def fixedLexemes : List (String × Cps × Nat) :=
  [("INCLUDES", [126, 61], 13), ("DASHMATCH", [124, 61], 14), ("PREFIXMATCH", [94, 61], 15),
   ("SUFFIXMATCH", [36, 61], 16), ("SUBSTRINGMATCH", [42, 61], 17), ("CDO", [60, 33, 45, 45], 18)]

/-- table check: each fixed lexeme is the literal production at its index, every earlier production is rejected by
the lexeme's first code point, and its type is not subject to the IDENT special case -/
theorem fixedLexemes_ok : ∀ e ∈ fixedLexemes,
    productions = productions.take e.2.2 ++ ((e.1, Re.lit e.2.1) :: productions.drop (e.2.2 + 1)) ∧
    rejectAll [(e.2.1.headD 0, e.2.1.headD 0)] (productions.take e.2.2) = true ∧
    e.1 ≠ "IDENT" ∧ e.2.1 ≠ [] := by decide

/-- **fixed lexemes**: a match operator or `<!--`, whatever follows, is scanned as that one token -/
theorem scan_fixed (doC : Bool) (name : String) (w : Cps) (k : Nat) (h : (name, w, k) ∈ fixedLexemes) (rest : Cps) :
    scan false doC (w ++ rest) productions = .hit name w.length := by
  obtain ⟨hsplit, hrej, hname, hne⟩ := fixedLexemes_ok _ h
  simp only at hsplit hrej hname hne
  cases w with
  | nil => exact absurd rfl hne
  | cons a t =>
    rw [hsplit, List.cons_append, scan_false_reject (cs := [(a, a)]) (by simp [inR]) _ _ _ hrej]
    apply scan_false_hit
    · have := lit_first (a :: t) rest (by simp)
      simpa using this
    · simp [identContinue, hname]

/-! ## PERCENTAGE, DIMENSION, HASH classes -/

theorem drop_length_append (a b : Cps) : (a ++ b).drop a.length = b := by simp

/-- **PERCENTAGE class**: ASCII digits followed by `%` -/
theorem scan_percentage (doC : Bool) (d : Nat) (ds rest : Cps) (hd : ∀ c ∈ d :: ds, isDigit c = true) :
    scan false doC (d :: ds ++ 37 :: rest) productions = .hit "PERCENTAGE" ((d :: ds).length + 1) := by
  have hd0 : inR [(48, 57)] d = true := by
    have := hd d (by simp); simpa [inR, isDigit] using this
  have hs : NumStop [(37, 37)] (37 :: rest) :=
    ⟨Or.inr ⟨37, rest, rfl, by decide⟩, by decide, by decide⟩
  have hsplit : productions = productions.take 5 ++
      (("DIMENSION", reDIMENSION) :: ("PERCENTAGE", rePERCENTAGE) :: productions.drop 7) := by decide
  rw [hsplit, List.cons_append, scan_false_reject hd0 _ _ _ (by decide)]
  rw [scan_false_none (first_none_of_ms_nil (by
    rw [reDIMENSION_eq]; exact num_then_nil reIDENT (by decide) (by decide) d ds _ hd hs))]
  apply scan_false_hit
  · rw [rePERCENTAGE_eq]
    apply first_seq_some (numRe_first d ds _ hd hs)
    rw [drop_length_append, first_cls_cons]
    decide
  · simp [identContinue]

/-- **DIMENSION class**: ASCII digits followed by a plain identifier (the unit) -/
theorem scan_dimension (doC : Bool) (d : Nat) (ds : Cps) (c : Nat) (cs stop : Cps)
    (hd : ∀ x ∈ d :: ds, isDigit x = true) (hc : inR identStart c = true)
    (hcs : ∀ x ∈ cs, inR identRest x = true) (hst : Sep stop) :
    scan false doC (d :: ds ++ (c :: cs ++ stop)) productions = .hit "DIMENSION" ((d :: ds).length + (c :: cs).length) := by
  have hd0 : inR [(48, 57)] d = true := by
    have := hd d (by simp); simpa [inR, isDigit] using this
  have hs : NumStop identStart (c :: cs ++ stop) :=
    ⟨Or.inr ⟨c, cs ++ stop, rfl, hc⟩, by decide, by decide⟩
  have hsplit : productions = productions.take 5 ++ (("DIMENSION", reDIMENSION) :: productions.drop 6) := by decide
  rw [hsplit, List.cons_append, scan_false_reject hd0 _ _ _ (by decide)]
  apply scan_false_hit
  · rw [reDIMENSION_eq]
    apply first_seq_some (numRe_first d ds _ hd hs)
    rw [drop_length_append]
    exact ident_first c cs stop hc hcs hst
  · simp [identContinue]

theorem reHASH_eq : reHASH = Re.seq (Re.cls false [(35, 35)]) (Re.seq nmcharRe (Re.star nmcharRe true)) := by decide

/-- **HASH class**: `#` followed by name code points (letters, digits, `-`, `_`) -/
theorem scan_hash (doC : Bool) (n : Nat) (ns stop : Cps) (hn : inR identRest n = true)
    (hns : ∀ x ∈ ns, inR identRest x = true) (hs : Sep stop) :
    scan false doC (35 :: n :: ns ++ stop) productions = .hit "HASH" (35 :: n :: ns).length := by
  have hsplit : productions = productions.take 8 ++ (("HASH", reHASH) :: productions.drop 9) := by decide
  rw [hsplit, List.cons_append, scan_false_reject (cs := [(35, 35)]) (by decide) _ _ _ (by decide)]
  apply scan_false_hit
  · have h1 : nmcharRe.ms (n :: (ns ++ stop)) = [1] := exactlyOne_sound identRest n hn nmcharRe (by decide) _
    have hstar : (Re.star nmcharRe true).ms (ns ++ stop) = countdown ns.length := by
      show Re.starMs nmcharRe.ms true ((ns ++ stop).length + 1) (ns ++ stop) = _
      apply starMs_run nmcharRe.ms (fun x => inR identRest x)
      · intro x t hx; exact exactlyOne_sound identRest x hx nmcharRe (by decide) t
      · exact ms_nil_of_headIn (cs := [(32, 32)]) (by decide) (by decide) (sep_headIn32 hs)
      · exact hns
      · simp; omega
    rw [reHASH_eq, first_seq_cls_cons]
    have h35 : Re.inCls false [(35, 35)] 35 = true := by decide
    simp only [h35, if_true, List.cons_append]
    show Option.map _ ((List.flatMap _ (nmcharRe.ms (n :: (ns ++ stop)))).head?) = _
    rw [h1]
    simp only [List.flatMap_cons, List.flatMap_nil, List.append_nil, List.drop_one]
    show Option.map _ ((List.map _ ((Re.star nmcharRe true).ms (ns ++ stop))).head?) = _
    rw [hstar, List.head?_map, head_countdown]
    simp only [Option.map_some, List.length_cons]
    congr 1; omega
  · simp [identContinue]

/-! ## one step of the loop on a scanned lexeme -/

theorem complete_false (s : Cps) (name : String) (found : Cps) : complete false s name found = some ⟨name, found⟩ := by
  simp [complete]

theorem valueOf_plain (s : Cps) (name : String) (found : Cps) (h1 : unescTypes.contains name = false)
    (h2 : (name == "ATKEYWORD") = false) : valueOf s name found = some ⟨name, found, found⟩ := by
  simp only [valueOf, h1, h2, Bool.false_eq_true, if_false]

theorem unescape_id : ∀ (s : Cps), (∀ c ∈ s, c ≠ 92) → unescape s = s := by
  intro s
  induction s with
  | nil => intro _; rfl
  | cons c t ih =>
    intro h
    have hc : c ≠ 92 := h c (by simp)
    have : unescape (c :: t) = c :: unescape t := by
      show unescapeF (t.length + 1) (c :: t) = _
      simp only [unescapeF, hc, ne_eq, not_false_eq_true, if_true]
      rfl
    rw [this, ih (fun x hx => h x (List.mem_cons_of_mem _ hx))]

theorem valueOf_unesc (s : Cps) (name : String) (found : Cps) (h1 : unescTypes.contains name = true)
    (h2 : cleanTypes.contains name = false) (h : ∀ c ∈ found, c ≠ 92) :
    valueOf s name found = some ⟨name, found, found⟩ := by
  simp only [valueOf, h1, h2, subU_eq_unescape, unescape_id found h, Bool.false_eq_true, if_false, if_true]

theorem valueOf_ident (s found : Cps) (h : ∀ c ∈ found, c ≠ 92) :
    valueOf s "IDENT" found = some ⟨"IDENT", found, found⟩ :=
  valueOf_unesc s "IDENT" found (by decide) (by decide) h

/-- one iteration of the loop when the scan hits `name` with `l` code points and the value is the text itself -/
theorem loop_step (doC : Bool) (fuel : Nat) (w stop : Cps) (line col : Nat) (name : String)
    (hw : w ≠ []) (hfast : ∀ c t, w = c :: t → fastChars.contains c = false)
    (hscan : scan false doC (w ++ stop) productions = .hit name w.length)
    (name' : String) (hval : valueOf (w ++ stop) name w = some ⟨name', w, w⟩) (hnc : (name' != "COMMENT") = true) :
    ∃ line' col', loop false doC (fuel + 1) (w ++ stop) line col =
      Res.cons ⟨name', w, line, col, w, w, true⟩ (loop false doC fuel stop line' col') := by
  cases w with
  | nil => exact absurd rfl hw
  | cons c t =>
    have hf := hfast c t rfl
    refine ⟨(advance line col (c :: t)).1, (advance line col (c :: t)).2, ?_⟩
    have htake : List.take (c :: t).length (c :: t ++ stop) = c :: t := by
      rw [List.take_left']; rfl
    have hdrop : List.drop (c :: t).length (c :: t ++ stop) = stop := by
      rw [List.drop_left']; rfl
    simp only [List.cons_append] at hscan hval htake hdrop ⊢
    rw [loop]
    simp only [hf, Bool.false_eq_true, if_false, hscan, complete_false, htake, hval, hdrop]
    simp [hnc]

/-! ## ATKEYWORD class (plain and reserved at-keywords) -/

theorem inR_eq_inCls (cs : List (Nat × Nat)) (c : Nat) : inR cs c = Re.inCls false cs c := by
  simp [inR, Re.inCls]

theorem reATKEYWORD_eq : reATKEYWORD = Re.seq (Re.cls false [(64, 64)]) reIDENT := by decide

/-- **ATKEYWORD class** (scan): `@` followed by a plain identifier -/
theorem scan_atkeyword (doC : Bool) (c : Nat) (cs stop : Cps) (hc : inR nameStart c = true)
    (hcs : ∀ x ∈ cs, inR identRest x = true) (hs : Sep stop) :
    scan false doC (64 :: c :: cs ++ stop) productions = .hit "ATKEYWORD" (64 :: c :: cs).length := by
  have hsplit : productions = productions.take 12 ++ (("ATKEYWORD", reATKEYWORD) :: productions.drop 13) := by decide
  rw [hsplit, List.cons_append, scan_false_reject (cs := [(64, 64)]) (by decide) _ _ _ (by decide)]
  apply scan_false_hit
  · rw [reATKEYWORD_eq, first_seq_cls_cons]
    have h64 : Re.inCls false [(64, 64)] 64 = true := by decide
    simp only [h64, if_true]
    have := ident_first_gen nameStart (by decide) (by decide) c cs stop hc hcs hs
    rw [List.cons_append] at this
    rw [List.cons_append, this]
    simp only [Option.map_some, List.length_cons]
    congr 1; omega
  · simp [identContinue]

/-- code points of a plain at-keyword: `@`, letters, digits, `-`, `_` -/
def atChars : List (Nat × Nat) := [(45, 45), (48, 57), (64, 90), (95, 95), (97, 122)]

theorem subGo_id (r : Re) (f : Cps → Option Cps) (cs : List (Nat × Nat)) (hns : noStart cs r = true) :
    ∀ (s : Cps), (∀ x ∈ s, inR cs x = true) → subGo r f s 0 = some s := by
  intro s
  induction s with
  | nil => intro _; rfl
  | cons c t ih =>
    intro h
    have hc := h c (by simp)
    simp only [subGo, first_none_of_noStart hns hc t, ih (fun x hx => h x (List.mem_cons_of_mem _ hx))]
    rfl

theorem normalizeU_plain (s : Cps) (hs : ∀ x ∈ s, inR atChars x = true) (hne : s ≠ []) :
    normalizeU s = some (pyLower s) := by
  have h92 : ∀ x ∈ s, x ≠ 92 := by
    intro x hx e; have := hs x hx; rw [e] at this; revert this; decide
  have hemp : s.isEmpty = false := by cases s <;> simp_all
  simp only [normalizeU, subU_eq_unescape, unescape_id s h92, normalize, hemp, Bool.false_eq_true, if_false,
    subGo_id simpleescapesRe _ atChars (by decide) s hs, Option.map_some]

/-- the type the tokenizer gives to the at-keyword spelled `w` (case-insensitive lookup in the generated table) -/
def atType (w : Cps) : String :=
  match atkeywords.lookup (pyLower w) with
  | some sym => sym
  | none => "ATKEYWORD"

theorem valueOf_atkeyword (s w : Cps) (hw : ∀ x ∈ w, inR atChars x = true) (hne : w ≠ [])
    (hcs : w ≠ charsetKw) : valueOf s "ATKEYWORD" w = some ⟨atType w, w, w⟩ := by
  have h1 : unescTypes.contains "ATKEYWORD" = false := by decide
  have h2 : ("ATKEYWORD" == "ATKEYWORD") = true := by decide
  have h3 : (w == charsetKw) = false := by simpa using hcs
  simp only [valueOf, h1, h2, Bool.false_eq_true, if_false, if_true, normalizeU_plain w hw hne, atType]
  cases atkeywords.lookup (pyLower w) with
  | some sym => rfl
  | none => simp [h3]

theorem atType_not_comment (w : Cps) : (atType w != "COMMENT") = true := by
  unfold atType
  cases h : atkeywords.lookup (pyLower w) with
  | none => decide
  | some sym =>
    have hm := lookup_mem _ _ _ h
    have : ∀ p ∈ atkeywords, (p.2 != "COMMENT") = true := by decide
    exact this _ hm

/-! ## grammar tokens with plain lexemes (the classes covered by T5.6) -/

inductive Lex where
  | num (d : Nat) (ds : Cps)                       -- NUMBER: ASCII digits
  | ident (c : Nat) (cs : Cps)                     -- IDENT: plain identifier
  | fixed (name : String) (w : Cps) (k : Nat)      -- a match operator or CDO
  | fast (c : Nat)                                 -- one of the single-character tokens `,:;{}>[]`
  | pct (d : Nat) (ds : Cps)                       -- PERCENTAGE: ASCII digits, `%`
  | dim (d : Nat) (ds : Cps) (c : Nat) (cs : Cps)  -- DIMENSION: ASCII digits, plain identifier
  | hash (n : Nat) (ns : Cps)                      -- HASH: `#`, name code points
  | atkw (c : Nat) (cs : Cps)                      -- ATKEYWORD or a reserved at-rule symbol: `@`, plain identifier

def Lex.text : Lex → Cps
  | .num d ds => d :: ds
  | .ident c cs => c :: cs
  | .fixed _ w _ => w
  | .fast c => [c]
  | .pct d ds => d :: ds ++ [37]
  | .dim d ds c cs => d :: ds ++ c :: cs
  | .hash n ns => 35 :: n :: ns
  | .atkw c cs => 64 :: c :: cs

def Lex.typ : Lex → String
  | .num _ _ => "NUMBER"
  | .ident _ _ => "IDENT"
  | .fixed name _ _ => name
  | .fast _ => "CHAR"
  | .pct _ _ => "PERCENTAGE"
  | .dim _ _ _ _ => "DIMENSION"
  | .hash _ _ => "HASH"
  | .atkw c cs => atType (64 :: c :: cs)

/-- well-formed lexemes: escape-free spellings of the class -/
def Lex.WF : Lex → Prop
  | .num d ds => ∀ c ∈ d :: ds, isDigit c = true
  | .ident c cs => inR identStart c = true ∧ ∀ x ∈ cs, inR identRest x = true
  | .fixed name w k => (name, w, k) ∈ fixedLexemes
  | .fast c => fastChars.contains c = true
  | .pct d ds => ∀ c ∈ d :: ds, isDigit c = true
  | .dim d ds c cs => (∀ x ∈ d :: ds, isDigit x = true) ∧ inR identStart c = true ∧ ∀ x ∈ cs, inR identRest x = true
  | .hash n ns => inR identRest n = true ∧ ∀ x ∈ ns, inR identRest x = true
  | .atkw c cs => inR nameStart c = true ∧ (∀ x ∈ cs, inR identRest x = true) ∧ 64 :: c :: cs ≠ charsetKw

/-- the lexemes joined by single spaces -/
def render : List Lex → Cps
  | [] => []
  | [t] => t.text
  | t :: u :: ts => t.text ++ 32 :: render (u :: ts)

/-- the expected (type, value) pairs: the tokens with an S token between neighbours -/
def expected : List Lex → List (String × Cps)
  | [] => []
  | [t] => [(t.typ, t.text)]
  | t :: u :: ts => (t.typ, t.text) :: ("S", [32]) :: expected (u :: ts)

def proj (it : Item) : String × Cps := (it.typ, it.value)

/-- first code points of well-formed lexemes: not white space, not a BOM code point -/
def lexHeads : List (Nat × Nat) := [(33, 127)]

theorem lex_head (t : Lex) (h : t.WF) : ∃ c w, t.text = c :: w ∧ inR lexHeads c = true := by
  cases t with
  | num d ds =>
    refine ⟨d, ds, rfl, ?_⟩
    have := h d (by simp)
    simp only [isDigit, Bool.and_eq_true, decide_eq_true_eq] at this
    simp [inR, lexHeads]; omega
  | ident c cs =>
    refine ⟨c, cs, rfl, ?_⟩
    have := h.1
    simp only [inR, identStart, List.any_cons, List.any_nil, Bool.or_false, Bool.or_eq_true, Bool.and_eq_true,
      decide_eq_true_eq] at this
    simp [inR, lexHeads]; omega
  | fixed name w k =>
    have hmem : (name, w, k) ∈ fixedLexemes := h
    simp only [fixedLexemes, List.mem_cons, Prod.mk.injEq, List.mem_nil_iff, or_false] at hmem
    rcases hmem with ⟨_, rfl, _⟩ | ⟨_, rfl, _⟩ | ⟨_, rfl, _⟩ | ⟨_, rfl, _⟩ | ⟨_, rfl, _⟩ | ⟨_, rfl, _⟩ <;>
      exact ⟨_, _, rfl, by decide⟩
  | fast c =>
    refine ⟨c, [], rfl, ?_⟩
    have hc : fastChars.contains c = true := h
    simp only [fastChars, List.contains_cons, List.contains_nil, Bool.or_false, Bool.or_eq_true, beq_iff_eq] at hc
    rcases hc with rfl | rfl | rfl | rfl | rfl | rfl | rfl | rfl <;> decide
  | pct d ds =>
    refine ⟨d, ds ++ [37], rfl, ?_⟩
    have := h d (by simp)
    simp only [isDigit, Bool.and_eq_true, decide_eq_true_eq] at this
    simp [inR, lexHeads]; omega
  | dim d ds c cs =>
    refine ⟨d, ds ++ c :: cs, rfl, ?_⟩
    have := h.1 d (by simp)
    simp only [isDigit, Bool.and_eq_true, decide_eq_true_eq] at this
    simp [inR, lexHeads]; omega
  | hash n ns => exact ⟨35, n :: ns, rfl, by decide⟩
  | atkw c cs => exact ⟨64, c :: cs, rfl, by decide⟩

theorem render_head (t : Lex) (ts : List Lex) (h : t.WF) :
    ∃ c w, render (t :: ts) = c :: w ∧ inR lexHeads c = true := by
  obtain ⟨c, w, hw, hc⟩ := lex_head t h
  cases ts with
  | nil => exact ⟨c, w, hw, hc⟩
  | cons u us => exact ⟨c, w ++ 32 :: render (u :: us), by simp [render, hw], hc⟩

theorem not_fast_of_ranges (cs : List (Nat × Nat)) (h : (fastChars.all fun f => !inR cs f) = true) (c : Nat)
    (hc : inR cs c = true) : fastChars.contains c = false := by
  apply Bool.eq_false_iff.mpr
  intro hf
  have hmem : c ∈ fastChars := by simpa using hf
  have := List.all_eq_true.mp h c hmem
  simp [hc] at this

/-- one loop iteration per lexeme: the token `(typ, text)` is produced and the loop continues after the lexeme -/
theorem lex_step (doC : Bool) (t : Lex) (h : t.WF) (stop : Cps) (hs : Sep stop) (fuel line col : Nat) :
    ∃ line' col', loop false doC (fuel + 1) (t.text ++ stop) line col =
      Res.cons ⟨t.typ, t.text, line, col, t.text, t.text, true⟩ (loop false doC fuel stop line' col') := by
  cases t with
  | num d ds =>
    have hd0 : inR [(48, 57)] d = true := by
      have := h d (by simp); simpa [inR, isDigit] using this
    apply loop_step doC fuel (d :: ds) stop line col "NUMBER" (by simp)
    · intro c t e; simp only [List.cons.injEq] at e; obtain ⟨rfl, _⟩ := e
      exact not_fast_of_ranges [(48, 57)] (by decide) _ hd0
    · exact scan_number doC d ds stop h hs
    · exact valueOf_plain _ _ _ (by decide) (by decide)
    · rfl
  | ident c cs =>
    apply loop_step doC fuel (c :: cs) stop line col "IDENT" (by simp)
    · intro c' t e; simp only [List.cons.injEq] at e; obtain ⟨rfl, _⟩ := e
      exact not_fast_of_ranges identStart (by decide) _ h.1
    · exact scan_ident doC c cs stop h.1 h.2 hs
    · apply valueOf_ident
      intro x hx
      have hx' : inR identRest x = true ∨ inR identStart x = true := by
        rcases List.mem_cons.mp hx with rfl | hx
        · exact Or.inr h.1
        · exact Or.inl (h.2 x hx)
      intro e; subst e
      rcases hx' with hx' | hx' <;> revert hx' <;> decide
    · rfl
  | fixed name w k =>
    have hmem : (name, w, k) ∈ fixedLexemes := h
    obtain ⟨_, _, hname, hne⟩ := fixedLexemes_ok _ hmem
    have htab : ∀ e ∈ fixedLexemes, unescTypes.contains e.1 = false ∧ (e.1 == "ATKEYWORD") = false ∧
        (e.1 != "COMMENT") = true ∧ fastChars.contains (e.2.1.headD 0) = false := by decide
    obtain ⟨h1, h2, h3, h4⟩ := htab _ hmem
    apply loop_step doC fuel w stop line col name hne
    · intro c t e; subst e; simpa using h4
    · exact scan_fixed doC name w k hmem stop
    · exact valueOf_plain _ _ _ h1 h2
    · exact h3
  | pct d ds =>
    have hd0 : inR [(48, 57)] d = true := by
      have := h d (by simp); simpa [inR, isDigit] using this
    apply loop_step doC fuel (d :: ds ++ [37]) stop line col "PERCENTAGE" (by simp)
    · intro c t e; simp only [List.cons_append, List.cons.injEq] at e; obtain ⟨rfl, _⟩ := e
      exact not_fast_of_ranges [(48, 57)] (by decide) _ hd0
    · have := scan_percentage doC d ds stop h
      simpa [List.append_assoc] using this
    · exact valueOf_plain _ _ _ (by decide) (by decide)
    · rfl
  | dim d ds c cs =>
    have hd0 : inR [(48, 57)] d = true := by
      have := h.1 d (by simp); simpa [inR, isDigit] using this
    apply loop_step doC fuel (d :: ds ++ c :: cs) stop line col "DIMENSION" (by simp)
    · intro c' t e; simp only [List.cons_append, List.cons.injEq] at e; obtain ⟨rfl, _⟩ := e
      exact not_fast_of_ranges [(48, 57)] (by decide) _ hd0
    · have := scan_dimension doC d ds c cs stop h.1 h.2.1 h.2.2 hs
      have e : (d :: ds ++ c :: cs).length = (d :: ds).length + (c :: cs).length := by simp; omega
      rw [e]
      simpa [List.append_assoc] using this
    · apply valueOf_unesc _ _ _ (by decide) (by decide)
      intro x hx e
      have hx' : x ∈ d :: ds ∨ x ∈ c :: cs := by
        rw [List.cons_append] at hx
        rcases List.mem_cons.mp hx with e1 | hx
        · left; rw [e1]; simp
        · rcases List.mem_append.mp hx with h1 | h1
          · left; exact List.mem_cons_of_mem _ h1
          · right; exact h1
      rcases hx' with hx' | hx'
      · have := h.1 _ hx'; rw [e] at this; revert this; decide
      · rcases List.mem_cons.mp hx' with e1 | hx'
        · have := h.2.1; rw [← e1, e] at this; revert this; decide
        · have := h.2.2 _ hx'; rw [e] at this; revert this; decide
    · rfl
  | hash n ns =>
    apply loop_step doC fuel (35 :: n :: ns) stop line col "HASH" (by simp)
    · intro c t e; simp only [List.cons.injEq] at e; obtain ⟨rfl, _⟩ := e; decide
    · exact scan_hash doC n ns stop h.1 h.2 hs
    · apply valueOf_unesc _ _ _ (by decide) (by decide)
      intro x hx e
      rcases List.mem_cons.mp hx with e1 | hx
      · rw [e] at e1; cases e1
      · rcases List.mem_cons.mp hx with e1 | hx
        · have := h.1; rw [← e1, e] at this; revert this; decide
        · have := h.2 _ hx; rw [e] at this; revert this; decide
    · rfl
  | atkw c cs =>
    have hall : ∀ x ∈ 64 :: c :: cs, inR atChars x = true := by
      intro x hx
      rcases List.mem_cons.mp hx with e | hx
      · rw [e]; decide
      · rcases List.mem_cons.mp hx with e | hx
        · rw [e, inR_eq_inCls]; exact clsContains_sound false atChars nameStart c (by decide) h.1
        · rw [inR_eq_inCls]; exact clsContains_sound false atChars identRest x (by decide) (h.2.1 x hx)
    apply loop_step doC fuel (64 :: c :: cs) stop line col "ATKEYWORD" (by simp)
    · intro c' t e; simp only [List.cons.injEq] at e; obtain ⟨rfl, _⟩ := e; decide
    · exact scan_atkeyword doC c cs stop h.1 h.2.1 hs
    · exact valueOf_atkeyword _ _ hall (by simp) h.2.2
    · exact atType_not_comment _
  | fast c =>
    have hc : fastChars.contains c = true := h
    refine ⟨line, col + 1, ?_⟩
    show loop false doC (fuel + 1) (c :: stop) line col = _
    rw [loop]
    simp only [hc, if_true, Lex.typ, Lex.text]

theorem nonws_of_lexHead (c : Nat) (h : inR lexHeads c = true) : Re.inCls false wsRanges c = false := by
  exact clsFails_sound false wsRanges lexHeads c (by decide) h

/-- the separator: one S token, then the loop continues with the next lexeme -/
theorem space_step (doC : Bool) (next : Cps) (hn : HeadIn (fun c => inR lexHeads c = true) next)
    (fuel line col : Nat) :
    ∃ line' col', loop false doC (fuel + 1) (32 :: next) line col =
      Res.cons ⟨"S", [32], line, col, [32], [32], true⟩ (loop false doC fuel next line' col') := by
  have := loop_step doC fuel [32] next line col "S" (by simp)
    (by intro c t e; simp only [List.cons.injEq] at e; obtain ⟨rfl, _⟩ := e; decide)
    (scan_space doC next (headIn_mono hn nonws_of_lexHead)) "S"
    (valueOf_plain _ _ _ (by decide) (by decide)) (by decide)
  simpa using this

/-- **T5.6 on the loop**: lexemes joined by single spaces come back as exactly those tokens with S between them -/
theorem loop_lexemes (doC : Bool) : ∀ (ts : List Lex), (∀ t ∈ ts, t.WF) → ∀ (fuel line col : Nat),
    (render ts).length < fuel →
      (loop false doC fuel (render ts) line col).items.map proj = expected ts ∧
      ∀ it ∈ (loop false doC fuel (render ts) line col).items, it.emit = true := by
  intro ts
  induction ts with
  | nil =>
    intro _ fuel line col _
    simp [render, loop_nil_items, expected]
  | cons t ts ih =>
    intro hwf fuel line col hf
    have ht : t.WF := hwf t (by simp)
    have hts : ∀ u ∈ ts, u.WF := fun u hu => hwf u (List.mem_cons_of_mem _ hu)
    obtain ⟨k, rfl⟩ : ∃ k, fuel = k + 1 := ⟨fuel - 1, by omega⟩
    cases ts with
    | nil =>
      obtain ⟨l', c', hstep⟩ := lex_step doC t ht [] (Or.inl rfl) k line col
      simp only [List.append_nil] at hstep
      simp only [render, hstep, Res.cons, loop_nil_items, expected]
      simp [proj]
    | cons u us =>
      have hu : u.WF := hts u (by simp)
      obtain ⟨l1, c1, hstep⟩ := lex_step doC t ht (32 :: render (u :: us)) (Or.inr ⟨_, rfl⟩) k line col
      obtain ⟨hc, hw, hhead, hin⟩ := render_head u us hu
      have hlen : (render (u :: us)).length + 1 < k := by
        obtain ⟨c0, w0, hw0, _⟩ := lex_head t ht
        simp only [render, List.length_append, List.length_cons, hw0] at hf
        omega
      obtain ⟨k', rfl⟩ : ∃ k', k = k' + 1 := ⟨k - 1, by omega⟩
      obtain ⟨l2, c2, hsp⟩ := space_step doC (render (u :: us)) (Or.inr ⟨hc, hw, hhead, hin⟩) k' l1 c1
      have := ih hts k' l2 c2 (by omega)
      simp only [render, hstep, hsp, Res.cons, expected, List.map_cons, List.mem_cons]
      refine ⟨by simp [proj, this.1], ?_⟩
      intro it hit
      rcases hit with rfl | rfl | hit
      · rfl
      · rfl
      · exact this.2 it hit

theorem render_start (ts : List Lex) (h : ∀ t ∈ ts, t.WF) :
    HeadIn (fun c => inR lexHeads c = true) (render ts) := by
  cases ts with
  | nil => left; rfl
  | cons t us =>
    obtain ⟨c, w, hw, hc⟩ := render_head t us (h t (by simp))
    right; exact ⟨c, w, hw, hc⟩

theorem tokenize_lexemes (doC : Bool) (ts : List Lex) (h : ∀ t ∈ ts, t.WF)
    (hcs : hasAt (render ts) charsetStart = false) :
    (tokenize (render ts) false doC).tokens.map proj = expected ts := by
  have hstart := render_start ts h
  have hbom : bomRe.first (render ts) = none := by
    apply first_none_of_ms_nil
    exact ms_nil_of_headIn (cs := lexHeads) (by decide) (by decide) hstart
  have hab : afterBom (render ts) = render ts := by simp [afterBom, hbom]
  have hbi : bomItems (render ts) = [] := by simp [bomItems, hbom]
  have hac : afterCharset (render ts) = render ts := by simp [afterCharset, hcs]
  have hci : charsetItems (render ts) = [] := by simp [charsetItems, hcs]
  have hsc : startCol (render ts) = 1 := by simp [startCol, hcs]
  obtain ⟨hmap, hemit⟩ := loop_lexemes doC ts h ((render ts).length + 1) 1 1 (Nat.lt_succ_self _)
  have hml : mainLoop (render ts) false doC = loop false doC ((render ts).length + 1) (render ts) 1 1 := by
    simp only [mainLoop, hab, hac, hsc]
  have heof : ∀ st, eofItems false st = [] := by
    intro st; unfold eofItems; split <;> simp
  simp only [Res.tokens, tokenize, body, hbi, hab, hci, heof, List.nil_append, List.append_nil, hml]
  have : List.filter (fun x => x.emit) (loop false doC ((render ts).length + 1) (render ts) 1 1).items =
      (loop false doC ((render ts).length + 1) (render ts) 1 1).items := List.filter_eq_self.mpr hemit
  rw [this]
  exact hmap

end CssVerif.Tok
