import CssVerif.Model.Sel
/-! helper lemmas for the selector model (`Model/Sel.lean`); property theorems are in `Props/C16.lean` -/
namespace CssVerif.Sel

theorem run_append (ns : NsMap) (st : St) (l1 l2 : List Tok) :
    run ns st (l1 ++ l2) = (run ns st l1 >>= fun st' => run ns st' l2) := by
  induction l1 generalizing st with
  | nil => simp [run]
  | cons t ts ih =>
    simp only [List.cons_append, run]
    cases step ns st t with
    | error e => simp [bind, Except.bind]
    | ok st' => simp [bind, Except.bind, ih]

end CssVerif.Sel
