import CssVerif.Lemmas.TokLex
/-!
# Lexeme classes of the selector grammar with *general* stops (no separating space)

`Lemmas/TokLex.lean` (C05) scans a lexeme that is followed by the end of the text or a space. Selectors put lexemes
next to each other (`a.b#c[d|=e]:not(f)`), so here the same classes are scanned with whatever may follow them:
a name stops at any ASCII code point that is no name code point, no backslash and no `(`; white space at anything
that is no white space; `* | ~` at anything but `=`; `.` at anything but a digit; a FUNCTION, a STRING, a COMMENT,
`=`, `)` and the match operators at anything.
-/
namespace CssVerif.Tok
open CssVerif CssVerif.Gen.C05

/-- what may follow a name: ASCII code points that are no name code points, no backslash and no `(` -/
def nameStops : List (Nat × Nat) := [(0, 39), (41, 44), (46, 47), (58, 64), (91, 91), (93, 94), (96, 96), (123, 127)]

theorem scan_false_skip {doC : Bool} {s : Cps} {n : String} {r : Re} {ps : List (String × Re)} {l : Nat}
    (h : r.first s = some l) (hic : identContinue n s l = true) :
    scan false doC s ((n, r) :: ps) = scan false doC s ps := by
  simp [scan, h, hic]

theorem first_of_ms_cons {r : Re} {s : Cps} {l : Nat} {tl : List Nat} (h : r.ms s = l :: tl) : r.first s = some l := by
  simp [Re.first, h]

theorem first_countdown {r : Re} {s : Cps} {n : Nat} (h : r.ms s = countdown n) : r.first s = some n := by
  simp [Re.first, h, head_countdown]

/-! ## names: IDENT, HASH, FUNCTION -/

theorem star_nmchar (stops : List (Nat × Nat)) (hns : noStart stops nmcharRe = true) (cs stop : Cps)
    (hcs : ∀ x ∈ cs, inR identRest x = true) (hs : HeadIn (fun x => inR stops x = true) stop) :
    (Re.star nmcharRe true).ms (cs ++ stop) = countdown cs.length := by
  show Re.starMs nmcharRe.ms true ((cs ++ stop).length + 1) (cs ++ stop) = _
  apply starMs_run nmcharRe.ms (fun x => inR identRest x)
  · intro x t hx; exact exactlyOne_sound identRest x hx nmcharRe (by decide) t
  · exact ms_nil_of_headIn hns (by decide) hs
  · exact hcs
  · simp; omega

/-- `ident_first_gen` of C05 with a general stop -/
theorem ident_first_stop (stops : List (Nat × Nat)) (hns : noStart stops nmcharRe = true)
    (c : Nat) (cs stop : Cps) (hc : inR identStart c = true)
    (hcs : ∀ x ∈ cs, inR identRest x = true) (hs : HeadIn (fun x => inR stops x = true) stop) :
    reIDENT.first (c :: cs ++ stop) = some (c :: cs).length := by
  have hc45 : c ≠ 45 := by
    intro e
    have := clsFails_sound false [(45, 45)] identStart c (by decide) hc
    rw [e] at this; revert this; decide
  have h1 : nmstartRe.ms (c :: (cs ++ stop)) = [1] := exactlyOne_sound identStart c hc nmstartRe (by decide) _
  have hstar := star_nmchar stops hns cs stop hcs hs
  rw [reIDENT_eq]
  show ((Re.seq dashOpt _).ms _).head? = _
  rw [List.cons_append, seq_ms_left_zero (dashOpt_ms c _ hc45)]
  show (List.flatMap _ (nmstartRe.ms (c :: (cs ++ stop)))).head? = _
  rw [h1]
  simp only [List.flatMap_cons, List.flatMap_nil, List.append_nil, List.drop_one]
  show (List.map _ ((Re.star nmcharRe true).ms (cs ++ stop))).head? = _
  rw [hstar, List.head?_map, head_countdown]
  simp only [Option.map_some, List.length_cons]
  congr 1; omega

theorem head_ne_of_headIn {Q : Nat → Prop} {stop : Cps} {a : Nat} (h : HeadIn Q stop) (hq : ¬ Q a) :
    stop[0]? ≠ some a := by
  rcases h with rfl | ⟨c, t, rfl, hc⟩
  · simp
  · simp only [List.getElem?_cons_zero, ne_eq, Option.some.injEq]
    intro e; subst e; exact hq hc

/-- **IDENT** followed by the end of the text or any `nameStops` code point -/
theorem scan_ident_stop (doC : Bool) (c : Nat) (cs stop : Cps) (hc : inR identStart c = true)
    (hcs : ∀ x ∈ cs, inR identRest x = true) (hs : HeadIn (fun x => inR nameStops x = true) stop) :
    scan false doC (c :: cs ++ stop) productions = .hit "IDENT" (c :: cs).length := by
  have hsplit : productions = productions.take 3 ++ (("IDENT", reIDENT) :: productions.drop 4) := by decide
  rw [hsplit, List.cons_append, scan_false_reject hc _ _ _ (by decide)]
  apply scan_false_hit (ident_first_stop nameStops (by decide) c cs stop hc hcs hs)
  have hget : (c :: (cs ++ stop))[(c :: cs).length]? ≠ some 40 := by
    have : (c :: (cs ++ stop))[(c :: cs).length]? = stop[0]? := by
      rw [← List.cons_append, List.getElem?_append_right (Nat.le_refl _)]; simp
    rw [this]
    exact head_ne_of_headIn hs (by decide)
  simp only [identContinue, Bool.and_eq_false_iff]
  right
  simpa using hget

/-- **HASH** followed by the end of the text or any `nameStops` code point -/
theorem scan_hash_stop (doC : Bool) (n : Nat) (ns stop : Cps) (hn : inR identRest n = true)
    (hns : ∀ x ∈ ns, inR identRest x = true) (hs : HeadIn (fun x => inR nameStops x = true) stop) :
    scan false doC (35 :: n :: ns ++ stop) productions = .hit "HASH" (35 :: n :: ns).length := by
  have hsplit : productions = productions.take 8 ++ (("HASH", reHASH) :: productions.drop 9) := by decide
  rw [hsplit, List.cons_append, scan_false_reject (cs := [(35, 35)]) (by decide) _ _ _ (by decide)]
  apply scan_false_hit
  · have h1 : nmcharRe.ms (n :: (ns ++ stop)) = [1] := exactlyOne_sound identRest n hn nmcharRe (by decide) _
    have hstar := star_nmchar nameStops (by decide) ns stop hns hs
    rw [reHASH_eq, first_seq_cls_cons]
    have h35 : Re.inCls false [(35, 35)] 35 = true := by decide
    simp only [h35, if_true, List.cons_append]
    show Option.map _ ((List.flatMap _ (nmcharRe.ms (n :: (ns ++ stop)))).head?) = _
    rw [h1]
    simp only [List.flatMap_cons, List.flatMap_nil, List.append_nil, List.drop_one]
    show Option.map _ ((List.map _ ((Re.star nmcharRe true).ms (ns ++ stop))).head?) = _
    rw [hstar, List.head?_map, head_countdown]
    simp only [Option.map_some, List.length_cons]
    congr 1; omega
  · simp [identContinue]

theorem reFUNCTION_eq :
    reFUNCTION = Re.seq dashOpt (Re.seq nmstartRe (Re.seq (Re.star nmcharRe true) (Re.cls false [(40, 40)]))) := by
  decide

/-- **FUNCTION**: a plain identifier other than `and` (any case) directly followed by `(` — whatever follows -/
theorem scan_function (doC : Bool) (c : Nat) (cs rest : Cps) (hc : inR identStart c = true)
    (hcs : ∀ x ∈ cs, inR identRest x = true) (hand : (pyLower (c :: cs) != andWord) = true) :
    scan false doC (c :: cs ++ 40 :: rest) productions = .hit "FUNCTION" ((c :: cs).length + 1) := by
  have hstop : HeadIn (fun x => inR [(40, 40)] x = true) (40 :: rest) := Or.inr ⟨40, rest, rfl, by decide⟩
  have hsplit : productions = productions.take 3 ++
      (("IDENT", reIDENT) :: ("FUNCTION", reFUNCTION) :: productions.drop 5) := by decide
  rw [hsplit, List.cons_append, scan_false_reject hc _ _ _ (by decide)]
  have hid := ident_first_stop [(40, 40)] (by decide) c cs (40 :: rest) hc hcs hstop
  rw [List.cons_append] at hid
  have htake : (c :: (cs ++ 40 :: rest)).take (c :: cs).length = c :: cs := by
    rw [← List.cons_append, List.take_left']; rfl
  have hget : (c :: (cs ++ 40 :: rest))[(c :: cs).length]? = some 40 := by
    rw [← List.cons_append, List.getElem?_append_right (Nat.le_refl _)]; simp
  have hlt : (c :: cs).length < (c :: (cs ++ 40 :: rest)).length := by simp
  rw [scan_false_skip hid (by simp only [identContinue, htake, hand, hget, hlt]; simp)]
  apply scan_false_hit
  · rw [reFUNCTION_eq]
    have hc45 : c ≠ 45 := by
      intro e
      have := clsFails_sound false [(45, 45)] identStart c (by decide) hc
      rw [e] at this; revert this; decide
    have e0 : (c :: cs).length + 1 = 0 + (1 + (cs.length + 1)) := by simp; omega
    rw [e0]
    apply first_seq_some (first_of_ms_cons (dashOpt_ms c _ hc45))
    rw [List.drop_zero]
    apply first_seq_some (first_of_ms_cons (exactlyOne_sound identStart c hc nmstartRe (by decide) _))
    rw [List.drop_one, List.tail_cons]
    apply first_seq_some (first_countdown (star_nmchar [(40, 40)] (by decide) cs (40 :: rest) hcs hstop))
    rw [List.drop_left']
    · rw [first_cls_cons]; decide
    · rfl
  · simp [identContinue]

/-! ## white space -/

theorem cls_ms_one (rs : List (Nat × Nat)) (c : Nat) (t : Cps) (h : inR rs c = true) :
    (Re.cls false rs).ms (c :: t) = [1] := by
  rw [inR_eq_inCls] at h
  simp [Re.ms, h]

/-- **S**: a non-empty run of white space followed by the end of the text or anything that is no white space -/
theorem scan_ws (doC : Bool) (c : Nat) (run next : Cps) (hc : inR wsRanges c = true)
    (hrun : ∀ x ∈ run, inR wsRanges x = true) (hn : HeadIn (fun x => inR wsRanges x = false) next) :
    scan false doC (c :: run ++ next) productions = .hit "S" (c :: run).length := by
  have hp : productions = ("S", reS) :: productions.drop 1 := by decide
  rw [hp]
  apply scan_false_hit
  · have hstar : (Re.star (Re.cls false wsRanges) true).ms (run ++ next) = countdown run.length := by
      show Re.starMs (Re.cls false wsRanges).ms true ((run ++ next).length + 1) (run ++ next) = _
      apply starMs_run (Re.cls false wsRanges).ms (fun x => inR wsRanges x)
      · intro x t hx; exact cls_ms_one wsRanges x t hx
      · exact cls_ms_nil_of_head wsRanges next (headIn_mono hn (fun x hx => by rw [← inR_eq_inCls]; exact hx))
      · exact hrun
      · simp; omega
    show (Re.seq (Re.cls false wsRanges) (Re.star (Re.cls false wsRanges) true)).first (c :: (run ++ next)) = _
    rw [first_seq_cls_cons, ← inR_eq_inCls, hc]
    simp only [if_true, first_countdown hstar, Option.map_some, List.length_cons]
    congr 1; omega
  · simp [identContinue]

/-! ## single characters -/

theorem reCHAR_first (c : Nat) (rest : Cps) (h1 : c ≠ 34) (h2 : c ≠ 39) : reCHAR.first (c :: rest) = some 1 := by
  show (Re.cls true [(34, 34), (39, 39)]).first (c :: rest) = some 1
  rw [first_cls_cons]
  have : Re.inCls true [(34, 34), (39, 39)] c = true := by
    simp [Re.inCls]; omega
  simp [this]

/-- a code point that every production before CHAR rejects is a CHAR token whatever follows (`=`, `)`, …) -/
theorem scan_char_rej (doC : Bool) (c : Nat) (hrej : rejectAll [(c, c)] (productions.take 20) = true)
    (h1 : c ≠ 34) (h2 : c ≠ 39) (rest : Cps) : scan false doC (c :: rest) productions = .hit "CHAR" 1 := by
  have hsplit : productions = productions.take 20 ++ [("CHAR", reCHAR)] := by decide
  rw [hsplit, scan_false_reject (cs := [(c, c)]) (by simp [inR]) _ _ _ hrej]
  exact scan_false_hit (reCHAR_first c rest h1 h2) (by simp [identContinue])

/-- `c` followed by anything but `=` where the only production before CHAR that can start with `c` is the operator
`c=` at index `k` (`*` 17, `|` 14, `~` 13) -/
theorem scan_char_noeq (doC : Bool) (c k : Nat) (name : String)
    (hsplit : productions = productions.take k ++ ((name, Re.seq (Re.cls false [(c, c)]) (Re.cls false [(61, 61)])) ::
      ((productions.drop (k + 1)).take (19 - k) ++ [("CHAR", reCHAR)])))
    (hr1 : rejectAll [(c, c)] (productions.take k) = true)
    (hr2 : rejectAll [(c, c)] ((productions.drop (k + 1)).take (19 - k)) = true)
    (h1 : c ≠ 34) (h2 : c ≠ 39) (stop : Cps) (hs : HeadIn (fun x => x ≠ 61) stop) :
    scan false doC (c :: stop) productions = .hit "CHAR" 1 := by
  have hcc : inR [(c, c)] c = true := by simp [inR]
  rw [hsplit, scan_false_reject hcc _ _ _ hr1]
  rw [scan_false_none (by
    rw [first_seq_cls_cons]
    have : Re.inCls false [(c, c)] c = true := by simp [inCls_single]
    simp only [this, if_true]
    rcases hs with rfl | ⟨x, t, rfl, hx⟩
    · simp [first_cls_nil]
    · simp [first_cls_cons, inCls_single, hx])]
  rw [scan_false_reject hcc _ _ _ hr2]
  exact scan_false_hit (reCHAR_first c stop h1 h2) (by simp [identContinue])

theorem scan_star (doC : Bool) (stop : Cps) (hs : HeadIn (fun x => x ≠ 61) stop) :
    scan false doC (42 :: stop) productions = .hit "CHAR" 1 :=
  scan_char_noeq doC 42 17 "SUBSTRINGMATCH" (by decide) (by decide) (by decide) (by decide) (by decide) stop hs

theorem scan_bar (doC : Bool) (stop : Cps) (hs : HeadIn (fun x => x ≠ 61) stop) :
    scan false doC (124 :: stop) productions = .hit "CHAR" 1 :=
  scan_char_noeq doC 124 14 "DASHMATCH" (by decide) (by decide) (by decide) (by decide) (by decide) stop hs

theorem scan_tilde (doC : Bool) (stop : Cps) (hs : HeadIn (fun x => x ≠ 61) stop) :
    scan false doC (126 :: stop) productions = .hit "CHAR" 1 :=
  scan_char_noeq doC 126 13 "INCLUDES" (by decide) (by decide) (by decide) (by decide) (by decide) stop hs

/-! ## `.` and `+`: CHAR unless a number starts there -/

theorem star_digit_nodigit (s : Cps) (h : HeadIn (fun c => isDigit c = false) s) :
    (Re.star digitRe true).ms s = [0] := by
  show Re.starMs digitRe.ms true (s.length + 1) s = [0]
  have hnil : digitRe.ms s = [] :=
    cls_ms_nil_of_head _ s (headIn_mono h (fun c hc => by rw [inCls_digit]; exact hc))
  simp [Re.starMs, hnil]

theorem digit_ms_nodigit (s : Cps) (h : HeadIn (fun c => isDigit c = false) s) : digitRe.ms s = [] :=
  cls_ms_nil_of_head _ s (headIn_mono h (fun c hc => by rw [inCls_digit]; exact hc))

/-- no number starts at a `.` that is not followed by a digit -/
theorem numRe_ms_dot (stop : Cps) (hs : HeadIn (fun c => isDigit c = false) stop) : numRe.ms (46 :: stop) = [] := by
  have hsign : signOpt.ms (46 :: stop) = [0] := signOpt_ms _ (by
    intro c t h; simp only [List.cons.injEq] at h; obtain ⟨rfl, _⟩ := h; decide)
  have h46 : HeadIn (fun c => isDigit c = false) (46 :: stop) := Or.inr ⟨46, stop, rfl, by decide⟩
  have hA : numA.ms (46 :: stop) = [] := by
    show (Re.seq signOpt _).ms _ = []
    rw [seq_ms_left_zero hsign]
    show (Re.seq (Re.star digitRe true) _).ms _ = []
    rw [seq_ms_left_zero (star_digit_nodigit _ h46)]
    apply seq_ms_nil
    intro l hl
    have hl1 : l = 1 := by
      have : (Re.cls false [(46, 46)]).ms (46 :: stop) = [1] := by simp [Re.ms, Re.inCls]
      rw [this] at hl; simpa using hl
    subst hl1
    rw [List.drop_one, List.tail_cons]
    apply seq_ms_nil
    intro l hl
    rw [show (digitRe.ms stop) = [] from digit_ms_nodigit stop hs] at hl
    simp at hl
  have hB : numB.ms (46 :: stop) = [] := by
    show (Re.seq signOpt _).ms _ = []
    rw [seq_ms_left_zero hsign]
    apply seq_ms_nil
    intro l hl
    rw [show (digitRe.ms (46 :: stop)) = [] from digit_ms_nodigit _ h46] at hl
    simp at hl
  show numA.ms _ ++ numB.ms _ = []
  rw [hA, hB]; rfl

theorem seq_ms_nil_left {a b : Re} {s : Cps} (h : a.ms s = []) : (Re.seq a b).ms s = [] := by
  simp [Re.ms, h]

/-- **`.`** followed by the end of the text or anything but a digit is a CHAR token -/
theorem scan_dot (doC : Bool) (stop : Cps) (hs : HeadIn (fun c => isDigit c = false) stop) :
    scan false doC (46 :: stop) productions = .hit "CHAR" 1 := by
  have hcc : inR [(46, 46)] 46 = true := by decide
  have hsplit : productions = productions.take 5 ++
      (("DIMENSION", reDIMENSION) :: ("PERCENTAGE", rePERCENTAGE) :: ("NUMBER", reNUMBER) ::
        ((productions.drop 8).take 12 ++ [("CHAR", reCHAR)])) := by decide
  rw [hsplit, scan_false_reject hcc _ _ _ (by decide)]
  rw [scan_false_none (first_none_of_ms_nil (by rw [reDIMENSION_eq]; exact seq_ms_nil_left (numRe_ms_dot stop hs)))]
  rw [scan_false_none (first_none_of_ms_nil (by rw [rePERCENTAGE_eq]; exact seq_ms_nil_left (numRe_ms_dot stop hs)))]
  rw [scan_false_none (first_none_of_ms_nil (by rw [reNUMBER_eq]; exact numRe_ms_dot stop hs))]
  rw [scan_false_reject hcc _ _ _ (by decide)]
  exact scan_false_hit (reCHAR_first 46 stop (by decide) (by decide)) (by simp [identContinue])

theorem numTailA_nil (s : Cps) (h : HeadIn (fun c => isDigit c = false ∧ c ≠ 46) s) :
    (Re.seq (Re.star digitRe true) (Re.seq (Re.cls false [(46, 46)]) (Re.seq digitRe (Re.star digitRe true)))).ms s = [] := by
  rw [seq_ms_left_zero (star_digit_nodigit s (headIn_mono h (fun c hc => hc.1)))]
  exact seq_cls_ms_nil_of_head _ _ s (headIn_mono h (fun c hc => by simp [inCls_single, hc.2]))

theorem numTailB_nil (s : Cps) (h : HeadIn (fun c => isDigit c = false) s) :
    (Re.seq digitRe (Re.star digitRe true)).ms s = [] :=
  seq_ms_nil_left (digit_ms_nodigit s h)

/-- no number starts at a `+` that is followed neither by a digit nor by a full stop -/
theorem numRe_ms_plus (stop : Cps) (hs : HeadIn (fun c => isDigit c = false ∧ c ≠ 46) stop) :
    numRe.ms (43 :: stop) = [] := by
  have hsign : signOpt.ms (43 :: stop) = [1, 0] := by
    simp [signOpt, Re.ms, Re.repMs, Re.inCls]
  have h43 : HeadIn (fun c => isDigit c = false ∧ c ≠ 46) (43 :: stop) := Or.inr ⟨43, stop, rfl, by decide⟩
  have hA : numA.ms (43 :: stop) = [] := by
    apply seq_ms_nil
    intro l hl
    rw [hsign] at hl
    simp only [List.mem_cons, List.mem_nil_iff, or_false] at hl
    rcases hl with rfl | rfl
    · exact numTailA_nil _ hs
    · exact numTailA_nil _ h43
  have hB : numB.ms (43 :: stop) = [] := by
    apply seq_ms_nil
    intro l hl
    rw [hsign] at hl
    simp only [List.mem_cons, List.mem_nil_iff, or_false] at hl
    rcases hl with rfl | rfl
    · exact numTailB_nil _ (headIn_mono hs (fun c hc => hc.1))
    · exact numTailB_nil _ (headIn_mono h43 (fun c hc => hc.1))
  show numA.ms _ ++ numB.ms _ = []
  rw [hA, hB]; rfl

/-- **`+`** followed by the end of the text or anything but a digit or a full stop is a CHAR token -/
theorem scan_plus (doC : Bool) (stop : Cps) (hs : HeadIn (fun c => isDigit c = false ∧ c ≠ 46) stop) :
    scan false doC (43 :: stop) productions = .hit "CHAR" 1 := by
  have hcc : inR [(43, 43)] 43 = true := by decide
  have hsplit : productions = productions.take 5 ++
      (("DIMENSION", reDIMENSION) :: ("PERCENTAGE", rePERCENTAGE) :: ("NUMBER", reNUMBER) ::
        ((productions.drop 8).take 12 ++ [("CHAR", reCHAR)])) := by decide
  rw [hsplit, scan_false_reject hcc _ _ _ (by decide)]
  rw [scan_false_none (first_none_of_ms_nil (by rw [reDIMENSION_eq]; exact seq_ms_nil_left (numRe_ms_plus stop hs)))]
  rw [scan_false_none (first_none_of_ms_nil (by rw [rePERCENTAGE_eq]; exact seq_ms_nil_left (numRe_ms_plus stop hs)))]
  rw [scan_false_none (first_none_of_ms_nil (by rw [reNUMBER_eq]; exact numRe_ms_plus stop hs))]
  rw [scan_false_reject hcc _ _ _ (by decide)]
  exact scan_false_hit (reCHAR_first 43 stop (by decide) (by decide)) (by simp [identContinue])

/-! ## NUMBER with a general stop -/

/-- what may follow an unsigned integer: `nameStops` without `%` and `.` -/
def numStops : List (Nat × Nat) :=
  [(0, 36), (38, 39), (41, 44), (47, 47), (58, 64), (91, 91), (93, 94), (96, 96), (123, 127)]

/-- **NUMBER**: ASCII digits followed by the end of the text or a `numStops` code point -/
theorem scan_number_stop (doC : Bool) (d : Nat) (ds stop : Cps) (hd : ∀ c ∈ d :: ds, isDigit c = true)
    (hs : HeadIn (fun c => inR numStops c = true) stop) :
    scan false doC (d :: ds ++ stop) productions = .hit "NUMBER" (d :: ds).length := by
  have hns : NumStop numStops stop := ⟨hs, by decide, by decide⟩
  have hd0 : inR [(48, 57)] d = true := by
    have := hd d (by simp)
    simpa [inR, isDigit] using this
  have hsplit : productions = productions.take 5 ++
      (("DIMENSION", reDIMENSION) :: ("PERCENTAGE", rePERCENTAGE) :: ("NUMBER", reNUMBER) :: productions.drop 8) := by
    decide
  rw [hsplit]
  rw [List.cons_append, scan_false_reject hd0 _ _ _ (by decide)]
  rw [scan_false_none (first_none_of_ms_nil (by
    rw [reDIMENSION_eq]; exact num_then_nil reIDENT (by decide) (by decide) d ds stop hd hns))]
  rw [scan_false_none (first_none_of_ms_nil (by
    rw [rePERCENTAGE_eq]; exact num_then_nil _ (by decide) (by decide) d ds stop hd hns))]
  apply scan_false_hit
  · rw [reNUMBER_eq]; exact numRe_first d ds stop hd hns
  · simp [identContinue]

/-! ## signed integers: `+1`, `-1` -/

theorem signOpt_ms_sign (sg : Nat) (hsg : sg = 43 ∨ sg = 45) (t : Cps) : signOpt.ms (sg :: t) = [1, 0] := by
  rcases hsg with rfl | rfl <;> simp [signOpt, Re.ms, Re.repMs, Re.inCls]

theorem numTailA_digits_nil {cs : List (Nat × Nat)} (d : Nat) (ds stop : Cps) (hd : ∀ c ∈ d :: ds, isDigit c = true)
    (hs : NumStop cs stop) :
    (Re.seq (Re.star digitRe true) (Re.seq (Re.cls false [(46, 46)]) (Re.seq digitRe (Re.star digitRe true)))).ms
      (d :: ds ++ stop) = [] := by
  have hd0 : isDigit d = true := hd d (by simp)
  have hsign : signOpt.ms (d :: ds ++ stop) = [0] := by
    apply signOpt_ms
    intro c t h
    simp only [List.cons_append, List.cons.injEq] at h
    obtain ⟨rfl, _⟩ := h
    simp only [isDigit, Bool.and_eq_true, decide_eq_true_eq] at hd0
    omega
  have := numA_ms d ds stop hd hs
  unfold numA at this
  rw [seq_ms_left_zero hsign] at this
  exact this

theorem numTailB_digits {cs : List (Nat × Nat)} (d : Nat) (ds stop : Cps) (hd : ∀ c ∈ d :: ds, isDigit c = true)
    (hs : NumStop cs stop) :
    (Re.seq digitRe (Re.star digitRe true)).ms (d :: ds ++ stop) = (countdown ds.length).map (1 + ·) := by
  have hd0 : isDigit d = true := hd d (by simp)
  have hsign : signOpt.ms (d :: ds ++ stop) = [0] := by
    apply signOpt_ms
    intro c t h
    simp only [List.cons_append, List.cons.injEq] at h
    obtain ⟨rfl, _⟩ := h
    simp only [isDigit, Bool.and_eq_true, decide_eq_true_eq] at hd0
    omega
  have := numB_ms d ds stop hd hs
  unfold numB at this
  rw [seq_ms_left_zero hsign] at this
  exact this

theorem flatMap_two {β : Type} (f : Nat → List β) (a b : Nat) : [a, b].flatMap f = f a ++ f b := by simp

/-- successes of the number pattern on sign, digits, stop -/
theorem numRe_ms_signed {cs : List (Nat × Nat)} (sg : Nat) (hsg : sg = 43 ∨ sg = 45) (d : Nat) (ds stop : Cps)
    (hd : ∀ c ∈ d :: ds, isDigit c = true) (hs : NumStop cs stop) :
    numRe.ms (sg :: (d :: ds ++ stop)) = (countdown ds.length).map (fun k => 1 + (1 + k)) := by
  have hsgn : isDigit sg = false ∧ sg ≠ 46 := by rcases hsg with rfl | rfl <;> decide
  have hsh : HeadIn (fun c => isDigit c = false ∧ c ≠ 46) (sg :: (d :: ds ++ stop)) := Or.inr ⟨sg, _, rfl, hsgn⟩
  have hA : numA.ms (sg :: (d :: ds ++ stop)) = [] := by
    show (Re.seq signOpt _).ms _ = []
    apply seq_ms_nil
    intro l hl
    rw [signOpt_ms_sign sg hsg] at hl
    simp only [List.mem_cons, List.mem_nil_iff, or_false] at hl
    rcases hl with rfl | rfl
    · rw [List.drop_one, List.tail_cons]; exact numTailA_digits_nil d ds stop hd hs
    · exact numTailA_nil _ hsh
  have hB : numB.ms (sg :: (d :: ds ++ stop)) = (countdown ds.length).map (fun k => 1 + (1 + k)) := by
    show List.flatMap (fun l1 => ((Re.seq digitRe (Re.star digitRe true)).ms
      ((sg :: (d :: ds ++ stop)).drop l1)).map (l1 + ·)) (signOpt.ms (sg :: (d :: ds ++ stop))) = _
    rw [signOpt_ms_sign sg hsg, flatMap_two]
    simp only [List.drop_one, List.tail_cons, List.drop_zero]
    rw [show (Re.seq digitRe (Re.star digitRe true)).ms (d :: ds ++ stop) = _ from numTailB_digits d ds stop hd hs,
      show (Re.seq digitRe (Re.star digitRe true)).ms (sg :: (d :: ds ++ stop)) = [] from
        numTailB_nil _ (headIn_mono hsh (fun c hc => hc.1))]
    simp [List.map_map, Function.comp_def]
  show numA.ms _ ++ numB.ms _ = _
  rw [hA, hB]; rfl

theorem signed_then_nil {cs : List (Nat × Nat)} (X : Re) (hns : noStart ((48, 57) :: cs) X = true)
    (hnn : X.nonNullable = true) (sg : Nat) (hsg : sg = 43 ∨ sg = 45) (d : Nat) (ds stop : Cps)
    (hd : ∀ c ∈ d :: ds, isDigit c = true) (hs : NumStop cs stop) :
    (Re.seq numRe X).ms (sg :: (d :: ds ++ stop)) = [] := by
  apply seq_ms_nil
  intro l hl
  rw [numRe_ms_signed sg hsg d ds stop hd hs] at hl
  simp only [List.mem_map] at hl
  obtain ⟨k, hk, rfl⟩ := hl
  have hle : 1 + k ≤ (d :: ds).length := by have := mem_countdown hk; simp; omega
  have : (sg :: (d :: ds ++ stop)).drop (1 + (1 + k)) = (d :: ds ++ stop).drop (1 + k) := by
    rw [Nat.add_comm 1 (1 + k), List.drop_succ_cons]
  rw [this]
  exact ms_nil_of_headIn hns hnn (num_heads (d :: ds) stop hd hs (1 + k) hle)

/-- IDENT / FUNCTION do not start at a sign that is followed by a digit -/
theorem noname_signed (sg : Nat) (hsg : sg = 43 ∨ sg = 45) (d : Nat) (t : Cps) (hd0 : isDigit d = true) (Y : Re) :
    (Re.seq dashOpt (Re.seq nmstartRe Y)).ms (sg :: d :: t) = [] := by
  have hcc : inR [(43, 43), (45, 45)] sg = true := by rcases hsg with rfl | rfl <;> decide
  have hdd : inR [(48, 57)] d = true := by simpa [inR, isDigit] using hd0
  apply seq_ms_nil
  intro l hl
  have hl' : l = 0 ∨ l = 1 := by
    rcases hsg with rfl | rfl
    · have : dashOpt.ms (43 :: d :: t) = [0] := dashOpt_ms 43 _ (by decide)
      rw [this] at hl; simp at hl; exact Or.inl hl
    · have hd45 : d ≠ 45 := by
        intro e; rw [e] at hd0; revert hd0; decide
      have h1 : Re.inCls false [(45, 45)] d = false := by simp [inCls_single, hd45]
      have h2 : Re.inCls false [(45, 45)] 45 = true := by decide
      have : dashOpt.ms (45 :: d :: t) = [1, 0] := by
        simp [dashOpt, Re.ms, Re.repMs, h1, h2]
      rw [this] at hl; simp at hl; omega
  rcases hl' with rfl | rfl
  · rw [List.drop_zero]
    exact seq_ms_nil_left (noStart_sound (cs := [(43, 43), (45, 45)]) (by decide) hcc _)
  · rw [List.drop_one, List.tail_cons]
    exact seq_ms_nil_left (noStart_sound (cs := [(48, 57)]) (by decide) hdd _)

theorem numRe_first_signed {cs : List (Nat × Nat)} (sg : Nat) (hsg : sg = 43 ∨ sg = 45) (d : Nat) (ds stop : Cps)
    (hd : ∀ c ∈ d :: ds, isDigit c = true) (hs : NumStop cs stop) :
    numRe.first (sg :: (d :: ds ++ stop)) = some ((d :: ds).length + 1) := by
  simp only [Re.first, numRe_ms_signed sg hsg d ds stop hd hs, List.head?_map, head_countdown, Option.map_some,
    List.length_cons]
  congr 1; omega

/-- **signed NUMBER** `+1` / `-1`: a sign, ASCII digits, then the end of the text or a `numStops` code point -/
theorem scan_signed_number (doC : Bool) (sg : Nat) (hsg : sg = 43 ∨ sg = 45) (d : Nat) (ds stop : Cps)
    (hd : ∀ c ∈ d :: ds, isDigit c = true) (hs : HeadIn (fun c => inR numStops c = true) stop) :
    scan false doC (sg :: (d :: ds ++ stop)) productions = .hit "NUMBER" ((d :: ds).length + 1) := by
  have hns : NumStop numStops stop := ⟨hs, by decide, by decide⟩
  have hcc : inR [(43, 43), (45, 45)] sg = true := by rcases hsg with rfl | rfl <;> decide
  have hsplit : productions = productions.take 3 ++ (("IDENT", reIDENT) :: ("FUNCTION", reFUNCTION) ::
      ("DIMENSION", reDIMENSION) :: ("PERCENTAGE", rePERCENTAGE) :: ("NUMBER", reNUMBER) :: productions.drop 8) := by
    decide
  rw [hsplit, scan_false_reject hcc _ _ _ (by decide)]
  -- IDENT / FUNCTION: after the optional dashes a name start is required, but a digit (or the sign) stands there
  have hnoname : ∀ (Y : Re), (Re.seq dashOpt (Re.seq nmstartRe Y)).ms (sg :: (d :: ds ++ stop)) = [] := by
    intro Y
    have hd0 : isDigit d = true := hd d (by simp)
    have hdd : inR [(48, 57)] d = true := by simpa [inR, isDigit] using hd0
    apply seq_ms_nil
    intro l hl
    have hl' : l = 0 ∨ l = 1 := by
      rcases hsg with rfl | rfl
      · have : dashOpt.ms (43 :: (d :: ds ++ stop)) = [0] := dashOpt_ms 43 _ (by decide)
        rw [this] at hl; simp at hl; exact Or.inl hl
      · have hd45 : d ≠ 45 := by
          intro e; rw [e] at hd0; revert hd0; decide
        have h1 : Re.inCls false [(45, 45)] d = false := by simp [inCls_single, hd45]
        have h2 : Re.inCls false [(45, 45)] 45 = true := by decide
        have : dashOpt.ms (45 :: (d :: ds ++ stop)) = [1, 0] := by
          simp [dashOpt, Re.ms, Re.repMs, h1, h2]
        rw [this] at hl; simp at hl; omega
    rcases hl' with rfl | rfl
    · rw [List.drop_zero]
      exact seq_ms_nil_left (noStart_sound (cs := [(43, 43), (45, 45)]) (by decide) hcc _)
    · rw [List.drop_one, List.tail_cons, List.cons_append]
      exact seq_ms_nil_left (noStart_sound (cs := [(48, 57)]) (by decide) hdd _)
  rw [scan_false_none (first_none_of_ms_nil (by rw [reIDENT_eq]; exact hnoname _))]
  rw [scan_false_none (first_none_of_ms_nil (by rw [reFUNCTION_eq]; exact hnoname _))]
  rw [scan_false_none (first_none_of_ms_nil (by
    rw [reDIMENSION_eq]; exact signed_then_nil reIDENT (by decide) (by decide) sg hsg d ds stop hd hns))]
  rw [scan_false_none (first_none_of_ms_nil (by
    rw [rePERCENTAGE_eq]; exact signed_then_nil _ (by decide) (by decide) sg hsg d ds stop hd hns))]
  apply scan_false_hit
  · rw [reNUMBER_eq]
    simp only [Re.first, numRe_ms_signed sg hsg d ds stop hd hns, List.head?_map, head_countdown, Option.map_some,
      List.length_cons]
    congr 1; omega
  · simp [identContinue]

/-! ## `-` alone -/

theorem dashOpt_ms_dash' (c : Nat) (t : Cps) (h : c ≠ 45) : dashOpt.ms (45 :: c :: t) = [1, 0] := by
  have h1 : Re.inCls false [(45, 45)] c = false := by simp [inCls_single, h]
  have h2 : Re.inCls false [(45, 45)] 45 = true := by decide
  simp [dashOpt, Re.ms, Re.repMs, h1, h2]

/-- what may follow a lone `-`: no `-`, `.`, digit, letter, `_`, backslash, non-ASCII -/
def minusStops : List (Nat × Nat) := [(0, 44), (47, 47), (58, 64), (91, 91), (93, 94), (96, 96), (123, 127)]

theorem numRe_ms_minus (stop : Cps) (hs : HeadIn (fun c => isDigit c = false ∧ c ≠ 46) stop) :
    numRe.ms (45 :: stop) = [] := by
  have hsign : signOpt.ms (45 :: stop) = [1, 0] := signOpt_ms_sign 45 (Or.inr rfl) stop
  have h45 : HeadIn (fun c => isDigit c = false ∧ c ≠ 46) (45 :: stop) := Or.inr ⟨45, stop, rfl, by decide⟩
  have hA : numA.ms (45 :: stop) = [] := by
    apply seq_ms_nil
    intro l hl
    rw [hsign] at hl
    simp only [List.mem_cons, List.mem_nil_iff, or_false] at hl
    rcases hl with rfl | rfl
    · exact numTailA_nil _ hs
    · exact numTailA_nil _ h45
  have hB : numB.ms (45 :: stop) = [] := by
    apply seq_ms_nil
    intro l hl
    rw [hsign] at hl
    simp only [List.mem_cons, List.mem_nil_iff, or_false] at hl
    rcases hl with rfl | rfl
    · exact numTailB_nil _ (headIn_mono hs (fun c hc => hc.1))
    · exact numTailB_nil _ (headIn_mono h45 (fun c hc => hc.1))
  show numA.ms _ ++ numB.ms _ = []
  rw [hA, hB]; rfl

/-- **`-`** followed by the end of the text or a `minusStops` code point is a CHAR token -/
theorem scan_minus (doC : Bool) (stop : Cps) (hs : HeadIn (fun c => inR minusStops c = true) stop) :
    scan false doC (45 :: stop) productions = .hit "CHAR" 1 := by
  have hcc : inR [(45, 45)] 45 = true := by decide
  have hnum : HeadIn (fun c => isDigit c = false ∧ c ≠ 46) stop :=
    headIn_mono hs (fun c hc => by
      simp only [inR, minusStops, List.any_cons, List.any_nil, Bool.or_false, Bool.or_eq_true, Bool.and_eq_true,
        decide_eq_true_eq] at hc
      simp only [isDigit, Bool.and_eq_false_iff, decide_eq_false_iff_not]
      omega)
  have hdash : dashOpt.ms (45 :: stop) = [1, 0] := by
    rcases hs with rfl | ⟨x, t, rfl, hx⟩
    · decide
    · have hx45 : x ≠ 45 := by intro e; rw [e] at hx; revert hx; decide
      exact dashOpt_ms_dash' x t hx45
  have hnoname : ∀ (Y : Re), (Re.seq dashOpt (Re.seq nmstartRe Y)).ms (45 :: stop) = [] := by
    intro Y
    apply seq_ms_nil
    intro l hl
    rw [hdash] at hl
    simp only [List.mem_cons, List.mem_nil_iff, or_false] at hl
    rcases hl with rfl | rfl
    · rw [List.drop_one, List.tail_cons]
      exact seq_ms_nil_left (ms_nil_of_headIn (cs := minusStops) (by decide) (by decide) hs)
    · rw [List.drop_zero]
      exact seq_ms_nil_left (noStart_sound (cs := [(45, 45)]) (by decide) hcc _)
  have hsplit : productions = productions.take 3 ++ (("IDENT", reIDENT) :: ("FUNCTION", reFUNCTION) ::
      ("DIMENSION", reDIMENSION) :: ("PERCENTAGE", rePERCENTAGE) :: ("NUMBER", reNUMBER) ::
        ((productions.drop 8).take 11 ++ (("CDC", reCDC) :: [("CHAR", reCHAR)]))) := by decide
  rw [hsplit, scan_false_reject hcc _ _ _ (by decide)]
  rw [scan_false_none (first_none_of_ms_nil (by rw [reIDENT_eq]; exact hnoname _))]
  rw [scan_false_none (first_none_of_ms_nil (by rw [reFUNCTION_eq]; exact hnoname _))]
  rw [scan_false_none (first_none_of_ms_nil (by rw [reDIMENSION_eq]; exact seq_ms_nil_left (numRe_ms_minus stop hnum)))]
  rw [scan_false_none (first_none_of_ms_nil (by rw [rePERCENTAGE_eq]; exact seq_ms_nil_left (numRe_ms_minus stop hnum)))]
  rw [scan_false_none (first_none_of_ms_nil (by rw [reNUMBER_eq]; exact numRe_ms_minus stop hnum))]
  rw [scan_false_reject hcc _ _ _ (by decide)]
  rw [scan_false_none (by
    show (Re.seq (Re.cls false [(45, 45)]) (Re.seq (Re.cls false [(45, 45)]) (Re.cls false [(62, 62)]))).first _ = none
    rw [first_seq_cls_cons]
    have h45 : Re.inCls false [(45, 45)] 45 = true := by decide
    simp only [h45, if_true]
    rcases hs with rfl | ⟨x, t, rfl, hx⟩
    · simp [first_seq_cls_nil]
    · have hx45 : x ≠ 45 := by intro e; rw [e] at hx; revert hx; decide
      simp [first_seq_cls_cons, inCls_single, hx45])]
  exact scan_false_hit (reCHAR_first 45 stop (by decide) (by decide)) (by simp [identContinue])

end CssVerif.Tok
