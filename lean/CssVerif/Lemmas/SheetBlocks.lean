import CssVerif.Model.SheetBlocks
import CssVerif.Lemmas.SheetList
import CssVerif.Lemmas.SheetRaw
/-!
# C09 — lemmas about declaration blocks and properties as objects (`Model/SheetBlocks.lean`)
-/
namespace CssVerif.SheetEdit
open CssVerif.Proto (Cps)

@[simp] theorem upd_same {α β : Type} [DecidableEq α] (f : α → β) (a : α) (v : β) : upd f a v a = v := by
  simp [upd]

theorem upd_other {α β : Type} [DecidableEq α] (f : α → β) (a : α) (v : β) {x : α} (h : x ≠ a) :
    upd f a v x = f x := by
  simp [upd, h]

/-- what `alloc` does: the new identities are the next ones, the new objects name `b`, nothing else changes -/
theorem alloc_spec (h : PHeap) (b : Option BId) (names : List Cps) :
    (h.alloc b names).1.next = h.next + names.length ∧
    (∀ p ∈ (h.alloc b names).2, ∃ n, p = .made n ∧ h.next ≤ n ∧ n < (h.alloc b names).1.next) ∧
    (∀ p, p ∈ (h.alloc b names).2 → (h.alloc b names).1.parent p = b) ∧
    (∀ p, p ∉ (h.alloc b names).2 → (h.alloc b names).1.parent p = h.parent p) := by
  induction names generalizing h with
  | nil => simp [PHeap.alloc]
  | cons n ns ih =>
    obtain ⟨h1, h2, h3, h4⟩ := ih ⟨upd h.parent (PId.made h.next) b, upd h.name (PId.made h.next) n, h.next + 1⟩
    simp only [PHeap.alloc]
    refine ⟨by rw [h1]; simp; omega, ?_, ?_, ?_⟩
    · intro p hp
      rcases List.mem_cons.mp hp with rfl | hp
      · exact ⟨h.next, rfl, Nat.le_refl _, by rw [h1]; simp; omega⟩
      · obtain ⟨m, rfl, hm1, hm2⟩ := h2 p hp
        exact ⟨m, rfl, by simp at hm1; omega, hm2⟩
    · intro p hp
      rcases List.mem_cons.mp hp with rfl | hp
      · rw [h4 _ (fun e => by obtain ⟨m, hm, hm1, _⟩ := h2 _ e; cases hm; simp at hm1; omega)]; simp
      · exact h3 p hp
    · intro p hp
      have hne : p ≠ PId.made h.next := fun e => hp (by rw [e]; exact List.mem_cons_self)
      rw [h4 p (fun e => hp (List.mem_cons_of_mem _ e))]; exact upd_other _ _ _ hne

theorem alloc_length (h : PHeap) (b : Option BId) (names : List Cps) : (h.alloc b names).2.length = names.length := by
  induction names generalizing h with
  | nil => rfl
  | cons n ns ih => simp [PHeap.alloc, ih]

/-- a property that names a block was created before `next` -/
theorem DLinks.old_of_parent {ds : DSt} (hl : DLinks ds) {n : Nat} {b : BId}
    (h : ds.ph.parent (.made n) = some b) : n < ds.ph.next := by
  rcases Nat.lt_or_ge n ds.ph.next with h1 | h1
  · exact h1
  · rw [hl.freshP n h1] at h; cases h

/-- the objects `alloc` makes are none of the properties that already name a block -/
theorem DLinks.not_alloc {ds : DSt} (hl : DLinks ds) (ob : Option BId) (names : List Cps) {p : PId} {b : BId}
    (h : ds.ph.parent p = some b) : p ∉ (ds.ph.alloc ob names).2 := by
  intro hp
  obtain ⟨n, rfl, hn, _⟩ := (alloc_spec ds.ph ob names).2.1 p hp
  have := hl.old_of_parent h
  omega

theorem DLinks.style_inj {ds : DSt} (hl : DLinks ds) {r1 r2 : Nat} (h : ds.style r1 = ds.style r2) : r1 = r2 := by
  have h1 := hl.blockUp r1
  have h2 := hl.blockUp r2
  rw [h, h2] at h1
  exact (Option.some.inj h1).symm

theorem DLinks.style_not_fresh {ds : DSt} (hl : DLinks ds) (rid n : Nat) (hn : ds.nextB ≤ n) :
    ds.style rid ≠ .made n := by
  intro h
  have h1 := hl.blockUp rid
  rw [h, (hl.freshB n hn).1] at h1
  cases h1

theorem DLinks.parent_not_fresh {ds : DSt} (hl : DLinks ds) (p : PId) (n : Nat) (hn : ds.nextB ≤ n) :
    ds.ph.parent p ≠ some (.made n) := by
  intro h
  have := hl.propOnly p _ h
  rw [(hl.freshB n hn).2] at this
  cases this

/-! ## the primitive edits keep the links -/

theorem newStyleAt_links (ds : DSt) (rid : Nat) (names : List Cps) (hl : DLinks ds) :
    DLinks (newStyleAt ds rid names) := by
  have hsp := alloc_spec ds.ph (some (BId.made ds.nextB)) names
  obtain ⟨hnext, hids, hnew, hold⟩ := hsp
  have hfresh : ds.style rid ≠ BId.made ds.nextB := hl.style_not_fresh rid _ (Nat.le_refl _)
  have hbp : (newStyleAt ds rid names).bprule =
      upd (upd ds.bprule (BId.made ds.nextB) (some rid)) (ds.style rid) none := by
    simp [newStyleAt, hfresh]
  refine ⟨?_, ?_, ?_, ?_, ?_, ?_⟩
  · intro r
    rw [hbp]
    show upd _ _ _ (upd ds.style rid (BId.made ds.nextB) r) = some r
    by_cases hr : r = rid
    · subst hr
      rw [upd_same, upd_other _ _ _ (Ne.symm hfresh), upd_same]
    · rw [upd_other _ _ _ hr]
      have h1 : ds.style r ≠ ds.style rid := fun e => hr (hl.style_inj e)
      have h2 : ds.style r ≠ BId.made ds.nextB := hl.style_not_fresh r _ (Nat.le_refl _)
      rw [upd_other _ _ _ h1, upd_other _ _ _ h2]
      exact hl.blockUp r
  · intro b r hb
    rw [hbp] at hb
    show upd ds.style rid (BId.made ds.nextB) r = b
    by_cases h1 : b = ds.style rid
    · rw [h1, upd_same] at hb; cases hb
    · rw [upd_other _ _ _ h1] at hb
      by_cases h2 : b = BId.made ds.nextB
      · rw [h2, upd_same] at hb
        cases hb
        rw [upd_same, h2]
      · rw [upd_other _ _ _ h2] at hb
        have hs := hl.blockOnly b r hb
        have hr : r ≠ rid := fun e => h1 (by rw [← hs, e])
        rw [upd_other _ _ _ hr]; exact hs
  · intro b p hp
    show (ds.ph.alloc (some (BId.made ds.nextB)) names).1.parent p = some b
    change p ∈ upd ds.bprops (BId.made ds.nextB) (ds.ph.alloc (some (BId.made ds.nextB)) names).2 b at hp
    by_cases hb : b = BId.made ds.nextB
    · rw [hb, upd_same] at hp
      rw [hb]; exact hnew p hp
    · rw [upd_other _ _ _ hb] at hp
      have hpar := hl.propUp b p hp
      rw [hold p (hl.not_alloc _ _ hpar)]; exact hpar
  · intro p b hp
    change (ds.ph.alloc (some (BId.made ds.nextB)) names).1.parent p = some b at hp
    show p ∈ upd ds.bprops (BId.made ds.nextB) (ds.ph.alloc (some (BId.made ds.nextB)) names).2 b
    by_cases hin : p ∈ (ds.ph.alloc (some (BId.made ds.nextB)) names).2
    · rw [hnew p hin] at hp
      cases hp
      rw [upd_same]; exact hin
    · rw [hold p hin] at hp
      have hb : b ≠ BId.made ds.nextB := fun e => hl.parent_not_fresh p _ (Nat.le_refl _) (by rw [← e]; exact hp)
      rw [upd_other _ _ _ hb]; exact hl.propOnly p b hp
  · intro n hn
    change ds.nextB + 1 ≤ n at hn
    rw [hbp]
    show upd _ _ _ _ = none ∧ upd ds.bprops (BId.made ds.nextB) _ (BId.made n) = []
    have h1 : BId.made n ≠ ds.style rid := fun e => hl.style_not_fresh rid n (by omega) e.symm
    have h2 : BId.made n ≠ BId.made ds.nextB := by intro e; cases e; omega
    rw [upd_other _ _ _ h1, upd_other _ _ _ h2, upd_other _ _ _ h2]
    exact hl.freshB n (by omega)
  · intro n hn
    change (ds.ph.alloc (some (BId.made ds.nextB)) names).1.next ≤ n at hn
    show (ds.ph.alloc (some (BId.made ds.nextB)) names).1.parent (PId.made n) = none
    have hin : PId.made n ∉ (ds.ph.alloc (some (BId.made ds.nextB)) names).2 := by
      intro e
      obtain ⟨m, hm, _, hm2⟩ := hids _ e
      cases hm; omega
    rw [hold _ hin]
    exact hl.freshP n (by omega)

theorem blockTextAt_links (ds : DSt) (rid : Nat) (names : List Cps) (hl : DLinks ds) :
    DLinks (blockTextAt ds rid names) := by
  obtain ⟨hnext, hids, hnew, hold⟩ := alloc_spec ds.ph (some (ds.style rid)) names
  have hnotold : ∀ p, p ∈ (ds.ph.alloc (some (ds.style rid)) names).2 → p ∉ ds.bprops (ds.style rid) :=
    fun p hp e => hl.not_alloc _ _ (hl.propUp _ p e) hp
  refine ⟨hl.blockUp, hl.blockOnly, ?_, ?_, (fun n hn => by
    have hne : BId.made n ≠ ds.style rid := fun e => hl.style_not_fresh rid n hn e.symm
    exact ⟨(hl.freshB n hn).1, by
      show upd ds.bprops (ds.style rid) _ (BId.made n) = []
      rw [upd_other _ _ _ hne]; exact (hl.freshB n hn).2⟩), ?_⟩
  · intro b p hp
    change p ∈ upd ds.bprops (ds.style rid) (ds.ph.alloc (some (ds.style rid)) names).2 b at hp
    show (if p ∈ ds.bprops (ds.style rid) then none else (ds.ph.alloc (some (ds.style rid)) names).1.parent p) = some b
    by_cases hb : b = ds.style rid
    · rw [hb, upd_same] at hp
      rw [if_neg (hnotold p hp), hnew p hp, hb]
    · rw [upd_other _ _ _ hb] at hp
      have hpar := hl.propUp b p hp
      have hno : p ∉ ds.bprops (ds.style rid) := fun e => hb (by
        have := hl.propUp _ p e; rw [hpar] at this; exact Option.some.inj this)
      rw [if_neg hno, hold p (hl.not_alloc _ _ hpar)]; exact hpar
  · intro p b hp
    change (if p ∈ ds.bprops (ds.style rid) then none else (ds.ph.alloc (some (ds.style rid)) names).1.parent p) = some b at hp
    show p ∈ upd ds.bprops (ds.style rid) (ds.ph.alloc (some (ds.style rid)) names).2 b
    by_cases hno : p ∈ ds.bprops (ds.style rid)
    · rw [if_pos hno] at hp; cases hp
    · rw [if_neg hno] at hp
      by_cases hin : p ∈ (ds.ph.alloc (some (ds.style rid)) names).2
      · rw [hnew p hin] at hp
        cases hp
        rw [upd_same]; exact hin
      · rw [hold p hin] at hp
        have hb : b ≠ ds.style rid := fun e => hno (by rw [← e]; exact hl.propOnly p b hp)
        rw [upd_other _ _ _ hb]; exact hl.propOnly p b hp
  · intro n hn
    change (ds.ph.alloc (some (ds.style rid)) names).1.next ≤ n at hn
    show (if PId.made n ∈ ds.bprops (ds.style rid) then none else
      (ds.ph.alloc (some (ds.style rid)) names).1.parent (PId.made n)) = none
    split
    · rfl
    · have hin : PId.made n ∉ (ds.ph.alloc (some (ds.style rid)) names).2 := by
        intro e
        obtain ⟨m, hm, _, hm2⟩ := hids _ e
        cases hm; omega
      rw [hold _ hin]
      exact hl.freshP n (by omega)

theorem appendPropAt_links (ds : DSt) (rid : Nat) (name : Cps) (hl : DLinks ds) :
    DLinks (appendPropAt ds rid name) := by
  obtain ⟨hnext, hids, hnew, hold⟩ := alloc_spec ds.ph (some (ds.style rid)) [name]
  refine ⟨hl.blockUp, hl.blockOnly, ?_, ?_, (fun n hn => by
    have hne : BId.made n ≠ ds.style rid := fun e => hl.style_not_fresh rid n hn e.symm
    exact ⟨(hl.freshB n hn).1, by
      show upd ds.bprops (ds.style rid) _ (BId.made n) = []
      rw [upd_other _ _ _ hne]; exact (hl.freshB n hn).2⟩), ?_⟩
  · intro b p hp
    change p ∈ upd ds.bprops (ds.style rid) (ds.bprops (ds.style rid) ++ (ds.ph.alloc (some (ds.style rid)) [name]).2) b at hp
    show (ds.ph.alloc (some (ds.style rid)) [name]).1.parent p = some b
    by_cases hb : b = ds.style rid
    · rw [hb, upd_same] at hp
      rcases List.mem_append.mp hp with hp | hp
      · have hpar := hl.propUp _ p hp
        rw [hold p (hl.not_alloc _ _ hpar), hb]; exact hpar
      · rw [hnew p hp, hb]
    · rw [upd_other _ _ _ hb] at hp
      have hpar := hl.propUp b p hp
      rw [hold p (hl.not_alloc _ _ hpar)]; exact hpar
  · intro p b hp
    change (ds.ph.alloc (some (ds.style rid)) [name]).1.parent p = some b at hp
    show p ∈ upd ds.bprops (ds.style rid) (ds.bprops (ds.style rid) ++ (ds.ph.alloc (some (ds.style rid)) [name]).2) b
    by_cases hin : p ∈ (ds.ph.alloc (some (ds.style rid)) [name]).2
    · rw [hnew p hin] at hp
      cases hp
      rw [upd_same]; exact List.mem_append_right _ hin
    · rw [hold p hin] at hp
      by_cases hb : b = ds.style rid
      · rw [hb, upd_same]; exact List.mem_append_left _ (by rw [← hb]; exact hl.propOnly p b hp)
      · rw [upd_other _ _ _ hb]; exact hl.propOnly p b hp
  · intro n hn
    change (ds.ph.alloc (some (ds.style rid)) [name]).1.next ≤ n at hn
    show (ds.ph.alloc (some (ds.style rid)) [name]).1.parent (PId.made n) = none
    have hin : PId.made n ∉ (ds.ph.alloc (some (ds.style rid)) [name]).2 := by
      intro e
      obtain ⟨m, hm, _, hm2⟩ := hids _ e
      cases hm; omega
    rw [hold _ hin]
    exact hl.freshP n (by omega)

theorem loosePropAt_links (ds : DSt) (name : Cps) (hl : DLinks ds) : DLinks (loosePropAt ds name) := by
  obtain ⟨hnext, hids, hnew, hold⟩ := alloc_spec ds.ph none [name]
  refine ⟨hl.blockUp, hl.blockOnly, ?_, ?_, hl.freshB, ?_⟩
  · intro b p hp
    show (ds.ph.alloc none [name]).1.parent p = some b
    have hpar := hl.propUp b p hp
    rw [hold p (hl.not_alloc _ _ hpar)]; exact hpar
  · intro p b hp
    change (ds.ph.alloc none [name]).1.parent p = some b at hp
    by_cases hin : p ∈ (ds.ph.alloc none [name]).2
    · rw [hnew p hin] at hp; cases hp
    · rw [hold p hin] at hp; exact hl.propOnly p b hp
  · intro n hn
    change (ds.ph.alloc none [name]).1.next ≤ n at hn
    show (ds.ph.alloc none [name]).1.parent (PId.made n) = none
    by_cases hin : PId.made n ∈ (ds.ph.alloc none [name]).2
    · exact hnew _ hin
    · rw [hold _ hin]; exact hl.freshP n (by omega)

theorem removePropAt_links (ds : DSt) (rid : Nat) (name : Cps) (hl : DLinks ds) :
    DLinks (removePropAt ds rid name) := by
  refine ⟨hl.blockUp, hl.blockOnly, ?_, ?_, (fun n hn => by
    have hne : BId.made n ≠ ds.style rid := fun e => hl.style_not_fresh rid n hn e.symm
    exact ⟨(hl.freshB n hn).1, by
      show upd ds.bprops (ds.style rid) _ (BId.made n) = []
      rw [upd_other _ _ _ hne]; exact (hl.freshB n hn).2⟩), ?_⟩
  · intro b p hp
    change p ∈ upd ds.bprops (ds.style rid)
      ((ds.bprops (ds.style rid)).filter (fun p => !(ds.ph.name p == name))) b at hp
    show (if p ∈ (ds.bprops (ds.style rid)).filter (fun p => ds.ph.name p == name) then none
      else ds.ph.parent p) = some b
    by_cases hb : b = ds.style rid
    · rw [hb, upd_same] at hp
      have hp' := List.mem_filter.mp hp
      have hno : p ∉ (ds.bprops (ds.style rid)).filter (fun p => ds.ph.name p == name) := by
        intro e
        have := (List.mem_filter.mp e).2
        simp [this] at hp'
      rw [if_neg hno, hb]; exact hl.propUp _ p hp'.1
    · rw [upd_other _ _ _ hb] at hp
      have hpar := hl.propUp b p hp
      have hno : p ∉ (ds.bprops (ds.style rid)).filter (fun p => ds.ph.name p == name) := by
        intro e
        have := hl.propUp _ p (List.mem_filter.mp e).1
        rw [hpar] at this
        exact hb (Option.some.inj this)
      rw [if_neg hno]; exact hpar
  · intro p b hp
    change (if p ∈ (ds.bprops (ds.style rid)).filter (fun p => ds.ph.name p == name) then none
      else ds.ph.parent p) = some b at hp
    show p ∈ upd ds.bprops (ds.style rid)
      ((ds.bprops (ds.style rid)).filter (fun p => !(ds.ph.name p == name))) b
    by_cases hrem : p ∈ (ds.bprops (ds.style rid)).filter (fun p => ds.ph.name p == name)
    · rw [if_pos hrem] at hp; cases hp
    · rw [if_neg hrem] at hp
      have hmem := hl.propOnly p b hp
      by_cases hb : b = ds.style rid
      · rw [hb, upd_same]
        rw [hb] at hmem
        refine List.mem_filter.mpr ⟨hmem, ?_⟩
        cases hname : (ds.ph.name p == name)
        · rfl
        · exact absurd (List.mem_filter.mpr ⟨hmem, hname⟩) hrem
      · rw [upd_other _ _ _ hb]; exact hmem
  · intro n hn
    show (if PId.made n ∈ (ds.bprops (ds.style rid)).filter (fun p => ds.ph.name p == name) then none
      else ds.ph.parent (PId.made n)) = none
    split
    · rfl
    · exact hl.freshP n hn

/-- handing a rule its own block is no change of the links -/
theorem shareStyleAt_self_links (ds : DSt) (rid : Nat) (hl : DLinks ds) : DLinks (shareStyleAt ds rid rid) := by
  have hst : upd ds.style rid (ds.style rid) = ds.style := by
    funext x; by_cases h : x = rid
    · rw [h, upd_same]
    · rw [upd_other _ _ _ h]
  have hbp : upd ds.bprule (ds.style rid) (some rid) = ds.bprule := by
    funext x; by_cases h : x = ds.style rid
    · rw [h, upd_same, hl.blockUp rid]
    · rw [upd_other _ _ _ h]
  have : shareStyleAt ds rid rid = ds := by
    simp [shareStyleAt, hst, hbp]
  rw [this]; exact hl

theorem init_links (st : St) : DLinks (DSt.init st) := by
  refine ⟨fun _ => rfl, ?_, ?_, ?_, fun _ _ => ⟨rfl, rfl⟩, fun _ _ => rfl⟩
  · intro b r h
    cases b with
    | init x => simp [DSt.init, initBprule] at h; simp [DSt.init, h]
    | made n => simp [DSt.init, initBprule] at h
  · intro b p hp
    cases b with
    | init x => simp [DSt.init, initBprops] at hp; subst hp; rfl
    | made n => simp [DSt.init, initBprops] at hp
  · intro p b h
    change initParent p = some b at h
    unfold initParent at h
    split at h
    · cases h; simp [DSt.init, initBprops]
    · cases h

theorem styledAt_same {st : St} {path src : List Nat} (h : path = src) : styledAt st path = styledAt st src := by
  rw [h]

/-- every operation keeps the links of declaration blocks and properties -/
theorem dstep_links (ds : DSt) (op : DOp) (hl : DLinks ds) (hs : DOpOK op) : DLinks (dstep ds op).1 := by
  cases op with
  | sheet op =>
    have hkeep : ∀ st', DLinks { ds with st := st' } := fun st' =>
      ⟨hl.blockUp, hl.blockOnly, hl.propUp, hl.propOnly, hl.freshB, hl.freshP⟩
    cases op with
    | nSetText path kids =>
      simp only [dstep]
      split
      · split
        · exact newStyleAt_links _ _ _ (hkeep _)
        · exact hkeep _
      · exact hkeep _
    | _ => exact hkeep _
  | newStyle path items form =>
    simp only [dstep]
    split
    · exact hl
    · split
      · exact hl
      · exact newStyleAt_links _ _ _ hl
  | shareStyle path src =>
    simp only [dstep]
    have hs' : path = src := hs
    subst hs'
    split
    · rename_i rid sid h1 h2
      rw [h1] at h2
      cases h2
      exact shareStyleAt_self_links _ _ hl
    · exact hl
  | blockText path items =>
    simp only [dstep]
    split
    · exact hl
    · split
      · exact hl
      · exact blockTextAt_links _ _ _ hl
  | setProp path name wf empty replace =>
    simp only [dstep]
    split
    · exact hl
    · split
      · exact hl
      · split
        · exact removePropAt_links _ _ _ hl
        · split
          · exact hl
          · split
            · exact hl
            · exact appendPropAt_links _ _ _ hl
  | setPropObj path name =>
    simp only [dstep]
    split
    · exact hl
    · split
      · exact hl
      · split
        · exact loosePropAt_links _ _ hl
        · exact appendPropAt_links _ _ _ hl
  | removeProp path name =>
    simp only [dstep]
    split
    · exact hl
    · split
      · exact hl
      · exact removePropAt_links _ _ _ hl
  | sharePropObj path src i => exact absurd hs (by simp [DOpOK])
  | rawDelete path i => exact absurd hs (by simp [DOpOK])
  | rawInsert s i => exact absurd hs (by simp [DOpOK])
  | reinsert path index => exact absurd hs (by simp [DOpOK])

instance (op : DOp) : Decidable (DOpOK op) := by cases op <;> unfold DOpOK <;> exact inferInstance

/-- an operation on declaration blocks / properties leaves the rule tree alone -/
theorem dstep_st (ds : DSt) (op : DOp) (h : ∀ o, op ≠ .sheet o)
    (hraw : ¬ ((∃ p i, op = .rawDelete p i) ∨ (∃ s i, op = .rawInsert s i) ∨ (∃ p i, op = .reinsert p i))) :
    (dstep ds op).1.st = ds.st := by
  cases op with
  | sheet o => exact absurd rfl (h o)
  | newStyle path items form => simp only [dstep]; split; rfl; split <;> rfl
  | shareStyle path src => simp only [dstep]; split <;> rfl
  | blockText path items => simp only [dstep]; split; rfl; split <;> rfl
  | setProp path name wf empty replace =>
    simp only [dstep]; split; rfl; split; rfl; split; rfl; split; rfl; split <;> rfl
  | setPropObj path name => simp only [dstep]; split; rfl; split; rfl; split <;> rfl
  | removeProp path name => simp only [dstep]; split; rfl; split <;> rfl
  | sharePropObj path src i =>
    simp only [dstep]; split
    · split; rfl; split; rfl; split <;> rfl
    · rfl
  | rawDelete path i => exact absurd rfl (by intro e; exact hraw (Or.inl ⟨path, i, e⟩))
  | rawInsert s i => exact absurd rfl (by intro e; exact hraw (Or.inr (Or.inl ⟨s, i, e⟩)))
  | reinsert path index => exact absurd rfl (by intro e; exact hraw (Or.inr (Or.inr ⟨path, index, e⟩)))

/-- the edits around the DOM methods leave blocks and properties alone -/
theorem dstep_raw_links (ds : DSt) (op : DOp) (hl : DLinks ds)
    (h : (∃ p i, op = .rawDelete p i) ∨ (∃ s i, op = .rawInsert s i) ∨ (∃ p i, op = .reinsert p i)) :
    DLinks (dstep ds op).1 := by
  rcases h with ⟨p, i, rfl⟩ | ⟨s, i, rfl⟩ | ⟨p, i, rfl⟩ <;>
    exact ⟨hl.blockUp, hl.blockOnly, hl.propUp, hl.propOnly, hl.freshB, hl.freshP⟩

theorem dstep_sheet_st (ds : DSt) (op : Op) : (dstep ds (.sheet op)).1.st = (step ds.st op).1 := by
  cases op with
  | nSetText path kids =>
    simp only [dstep]
    split
    · split <;> rfl
    · rfl
  | _ => rfl

/-- what an accepted new block does -/
theorem newStyleAt_effect (ds : DSt) (rid : Nat) (names : List Cps) (hl : DLinks ds) :
    (newStyleAt ds rid names).style rid ≠ ds.style rid ∧
    (newStyleAt ds rid names).bprule (ds.style rid) = none ∧
    (newStyleAt ds rid names).bprule ((newStyleAt ds rid names).style rid) = some rid ∧
    ((newStyleAt ds rid names).bprops ((newStyleAt ds rid names).style rid)).length = names.length ∧
    ds.style rid ∈ (newStyleAt ds rid names).goneB := by
  have hfresh : ds.style rid ≠ BId.made ds.nextB := hl.style_not_fresh rid _ (Nat.le_refl _)
  have hst : (newStyleAt ds rid names).style rid = BId.made ds.nextB := by simp [newStyleAt]
  refine ⟨by rw [hst]; exact Ne.symm hfresh, ?_, (newStyleAt_links ds rid names hl).blockUp rid, ?_, by simp [newStyleAt]⟩
  · simp [newStyleAt, hfresh]
  · rw [hst]
    show (upd ds.bprops (BId.made ds.nextB) (ds.ph.alloc (some (BId.made ds.nextB)) names).2 (BId.made ds.nextB)).length = _
    rw [upd_same]; exact alloc_length _ _ _

/-- what `removeProperty` does: no property of that name stays; the removed ones name nothing and are recorded -/
theorem removePropAt_effect (ds : DSt) (rid : Nat) (name : Cps) :
    (∀ p ∈ (removePropAt ds rid name).bprops ((removePropAt ds rid name).style rid),
        (removePropAt ds rid name).ph.name p ≠ name) ∧
    (∀ p ∈ ds.bprops (ds.style rid), ds.ph.name p = name →
        (removePropAt ds rid name).ph.parent p = none ∧ p ∈ (removePropAt ds rid name).goneP) := by
  constructor
  · intro p hp
    change p ∈ upd ds.bprops (ds.style rid) _ (ds.style rid) at hp
    rw [upd_same] at hp
    have := (List.mem_filter.mp hp).2
    show ds.ph.name p ≠ name
    intro e; simp [e] at this
  · intro p hp hn
    have hrem : p ∈ (ds.bprops (ds.style rid)).filter (fun p => ds.ph.name p == name) :=
      List.mem_filter.mpr ⟨hp, by simp [hn]⟩
    constructor
    · show (if p ∈ (ds.bprops (ds.style rid)).filter (fun p => ds.ph.name p == name) then none
        else ds.ph.parent p) = none
      rw [if_pos hrem]
    · show p ∈ ds.goneP ++ _
      exact List.mem_append_right _ hrem

end CssVerif.SheetEdit
