import CssVerif.Lemmas.Out
/-!
# Layout lemmas for the value / selector / media layer (`serObj`)
-/
namespace CssVerif.Out
open CssVerif.Proto (Cps)

theorem ne_of_beq_false {a b : Cps} (h : (a == b) = false) : a ≠ b := by
  intro e; subst e; simp at h

/-- closed form of `lexA`: the contribution of one call, by type -/
theorem lexA_eq (p : Prefs) (v : AVal) (ty : Cps) (f : Fl) :
    lexA p v ty f =
      if ty == t_COMMENT then (if p.keepComments then stripWs v.text else [])
      else if ty == t_S then []
      else if ty == t_STRING then (match v with | .none => [] | _ => stripWs (pyString v.text))
      else if ty == t_URI then stripWs (pyUri v.text)
      else if ty == t_HASH then stripWs (hash p v.text)
      else stripWs v.text := by
  unfold lexA appendPre
  by_cases h1 : ty == t_COMMENT
  · have e : ty = t_COMMENT := by simpa using h1
    subst e
    have a1 : (t_COMMENT == t_STRING) = false := by decide
    have a2 : (t_COMMENT == t_URI) = false := by decide
    cases v <;> by_cases hk : p.keepComments = true <;> simp [AVal.truthy, AVal.text, a1, a2, hk, stripWs]
    all_goals (rename_i s; cases s <;> simp [stripWs])
  · simp only [h1, Bool.false_eq_true, if_false]
    by_cases h2 : ty == t_S
    · have e : ty = t_S := by simpa using h2
      subst e
      have a1 : (t_S == t_STRING) = false := by decide
      have a2 : (t_S == t_URI) = false := by decide
      have a3 : stripWs [32] = [] := by decide
      cases v <;> by_cases hk : f.keepS = true <;> simp [AVal.truthy, a1, a2, hk, a3]
      all_goals (rename_i s; cases s <;> simp)
    · simp only [h2, Bool.false_eq_true, if_false]
      by_cases h3 : ty == t_STRING
      · simp only [h3, if_true, Bool.or_true, Bool.true_or, Bool.not_true, Bool.false_eq_true, if_false]
        cases v <;> simp
      · simp only [h3, Bool.false_eq_true, if_false]
        by_cases h4 : ty == t_URI
        · simp [h4]
        · simp only [h4, Bool.false_eq_true, if_false, Bool.or_false]
          by_cases h5 : ty == t_HASH
          · simp only [h5, if_true]
            cases v with
            | none => simp [AVal.truthy, AVal.text, hash, stripWs]
            | obj t => simp [AVal.truthy]
            | str s => cases s <;> simp [AVal.truthy, AVal.text, hash, stripWs]
          · simp only [h5, Bool.false_eq_true, if_false]
            cases v with
            | none => simp [AVal.truthy, AVal.text, stripWs]
            | obj t => simp [AVal.truthy, AVal.text]
            | str s => cases s <;> simp [AVal.truthy, AVal.text, stripWs]


def specialTy (ty : Cps) : Bool := ty == t_STRING || ty == t_URI || ty == t_HASH

/-- the two values denote the same content up to white space; for the types whose PRE phase rewrites the text
(STRING, URI, HASH) they must be identical -/
def AValRel (ty : Cps) (v w : AVal) : Prop :=
  (specialTy ty = true → v = w) ∧ stripWs v.text = stripWs w.text

theorem AValRel.refl (ty : Cps) (v : AVal) : AValRel ty v v := ⟨fun _ => rfl, rfl⟩

theorem hash_contentEq {p q : Prefs} (h : ContentEq p q) (x : Cps) : hash p x = hash q x := by
  unfold hash; rw [h.minimizeColorHash]

theorem lexA_congr {p q : Prefs} (h : ContentEq p q) {ty : Cps} {v w : AVal} (r : AValRel ty v w) (f g : Fl) :
    lexA p v ty f = lexA q w ty g := by
  rw [lexA_eq, lexA_eq]
  by_cases h1 : ty == t_COMMENT
  · simp only [h1, if_true, h.keepComments, r.2]
  · simp only [h1, Bool.false_eq_true, if_false]
    by_cases h2 : ty == t_S
    · simp [h2]
    · simp only [h2, Bool.false_eq_true, if_false]
      by_cases h3 : ty == t_STRING
      · have : v = w := r.1 (by simp [specialTy, h3])
        subst this; simp only [h3, if_true]
      · simp only [h3, Bool.false_eq_true, if_false]
        by_cases h4 : ty == t_URI
        · have : v = w := r.1 (by simp [specialTy, h4])
          subst this; simp only [h4, if_true]
        · simp only [h4, Bool.false_eq_true, if_false]
          by_cases h5 : ty == t_HASH
          · have : v = w := r.1 (by simp [specialTy, h5])
            subst this; simp only [h5, if_true, hash_contentEq h]
          · simp only [h5, Bool.false_eq_true, if_false, r.2]

/-- white-space-free content of a call sequence -/
def lexC (p : Prefs) (cs : List Call) : Cps := (cs.map fun c => lexA p c.v c.ty c.f).flatten

theorem stripWs_value_runCalls {p : Prefs} (hp : WsPrefs p) (il : Nat) (cs : List Call) (e : Cps) :
    stripWs (value (runCalls p il cs) e) = lexC p cs ++ stripWs e := by
  rw [stripWs_value, core_runCalls hp]; simp [core_nil, lexC]

/-- pointwise relation of two lists (core Lean has no `Forall₂`) -/
inductive All2 {α β : Type} (R : α → β → Prop) : List α → List β → Prop
  | nil : All2 R [] []
  | cons {a b l m} : R a b → All2 R l m → All2 R (a :: l) (b :: m)

def CallRel (c d : Call) : Prop := c.ty = d.ty ∧ AValRel c.ty c.v d.v

theorem lexC_congr {p q : Prefs} (h : ContentEq p q) {cs ds : List Call} (r : All2 CallRel cs ds) :
    lexC p cs = lexC q ds := by
  induction r with
  | nil => rfl
  | @cons c d cs' ds' hd _ ih =>
    have e : lexA p c.v c.ty c.f = lexA q d.v d.ty d.f := by
      rw [← hd.1]; exact lexA_congr h hd.2 _ _
    simp only [lexC, List.map_cons, List.flatten_cons] at *
    rw [e, ih]


/-! ### evaluated items -/

def EValRel : EVal → EVal → Prop
  | .str s, .str s' => s = s'
  | .tup s, .tup s' => s = s'
  | .none, .none => True
  | .obj t, .obj t' => stripWs t = stripWs t'
  | _, _ => False

def EVal.isObj : EVal → Bool
  | .obj _ => true
  | _ => false

/-- same type, related value; a nested object never has a type whose PRE phase rewrites the text -/
def EItemRel (a b : EItem) : Prop :=
  a.1 = b.1 ∧ EValRel a.2 b.2 ∧ (a.2.isObj = true → specialTy a.1 = false)

theorem aval_rel {x y : EVal} (ty : Cps) (r : EValRel x y) (ho : x.isObj = true → specialTy ty = false) :
    AValRel ty x.aval y.aval := by
  cases x <;> cases y <;> simp only [EValRel] at r
  · subst r; exact AValRel.refl _ _
  · subst r; exact AValRel.refl _ _
  · exact AValRel.refl _ _
  · refine ⟨fun hs => ?_, r⟩
    have := ho rfl
    rw [this] at hs; exact absurd hs (by decide)

theorem avalText_rel {x y : EVal} (ty : Cps) (r : EValRel x y) (ho : x.isObj = true → specialTy ty = false) :
    AValRel ty x.avalText y.avalText := by
  cases x <;> cases y <;> simp only [EValRel] at r
  · subst r; exact AValRel.refl _ _
  · subst r; exact AValRel.refl _ _
  · exact AValRel.refl _ _
  · refine ⟨fun hs => ?_, r⟩
    have := ho rfl
    rw [this] at hs; exact absurd hs (by decide)

theorem All2.map {α β γ δ : Type} {R : α → β → Prop} {S : γ → δ → Prop} {f : α → γ} {g : β → δ}
    (hfg : ∀ a b, R a b → S (f a) (g b)) {l : List α} {m : List β} (r : All2 R l m) : All2 S (l.map f) (m.map g) := by
  induction r with
  | nil => exact .nil
  | cons h _ ih => exact .cons (hfg _ _ h) ih

theorem All2.filter {α β : Type} {R : α → β → Prop} {f : α → Bool} {g : β → Bool}
    (hfg : ∀ a b, R a b → f a = g b) {l : List α} {m : List β} (r : All2 R l m) :
    All2 R (l.filter f) (m.filter g) := by
  induction r with
  | nil => exact .nil
  | @cons a b l' m' h _ ih =>
    simp only [List.filter_cons, hfg a b h]
    split
    · exact .cons h ih
    · exact ih

theorem All2.append {α β : Type} {R : α → β → Prop} {l1 l2 : List α} {m1 m2 : List β}
    (r1 : All2 R l1 m1) (r2 : All2 R l2 m2) : All2 R (l1 ++ l2) (m1 ++ m2) := by
  induction r1 with
  | nil => exact r2
  | cons h _ ih => exact .cons h ih

theorem CallRel.same (c : Call) : CallRel c c := ⟨rfl, AValRel.refl _ _⟩

theorem requote_same (s : Cps) : True := trivial

theorem pvalueCalls_rel {a b : List EItem} (r : All2 EItemRel a b) : All2 CallRel (pvalueCalls a) (pvalueCalls b) := by
  unfold pvalueCalls
  refine All2.map (fun x y h => ?_) r
  obtain ⟨h1, h2, h3⟩ := h
  rcases x with ⟨tx, vx⟩
  rcases y with ⟨ty, vy⟩
  simp only at h1 h2 h3
  subst h1
  cases vx <;> cases vy <;> simp only [EValRel] at h2
  · subst h2; exact CallRel.same _
  · subst h2; exact CallRel.same _
  · exact CallRel.same _
  · refine ⟨rfl, fun hs => ?_, h2⟩
    have := h3 rfl
    simp only at hs
    rw [this] at hs; exact absurd hs (by decide)

theorem avalCall_rel {x y : EItem} (h : EItemRel x y) (f g : Fl) :
    CallRel { v := x.2.aval, ty := x.1, f := f } { v := y.2.aval, ty := y.1, f := g } := by
  obtain ⟨h1, h2, h3⟩ := h
  exact ⟨h1, aval_rel _ h2 h3⟩

theorem funcCalls_rel (vo : Bool) {a b : List EItem} (r : All2 EItemRel a b) :
    All2 CallRel (funcCalls vo a) (funcCalls vo b) := by
  unfold funcCalls
  have hf := All2.filter (R := EItemRel) (f := fun it => !(vo && it.1 == t_CSSComment))
    (g := fun it => !(vo && it.1 == t_CSSComment)) (fun x y h => by simp [h.1]) r
  exact All2.map (R := EItemRel) (S := CallRel) (f := fun it => ({ v := it.2.aval, ty := it.1 } : Call))
    (g := fun it => ({ v := it.2.aval, ty := it.1 } : Call)) (fun x y h => avalCall_rel h _ _) hf

theorem calcCalls_rel {a b : List EItem} (r : All2 EItemRel a b) : All2 CallRel (calcCalls a) (calcCalls b) := by
  unfold calcCalls
  refine All2.map (fun x y h => ?_) r
  obtain ⟨h1, h2, h3⟩ := h
  rcases x with ⟨tx, vx⟩
  rcases y with ⟨ty, vy⟩
  simp only at h1 h2 h3
  subst h1
  cases vx <;> cases vy <;> simp only [EValRel] at h2
  · subst h2; split <;> exact ⟨rfl, AValRel.refl _ _⟩
  · subst h2; split <;> exact ⟨rfl, AValRel.refl _ _⟩
  · exact CallRel.same _
  · refine ⟨rfl, fun hs => ?_, h2⟩
    have := h3 rfl
    simp only at hs
    rw [this] at hs; exact absurd hs (by decide)

theorem msCalls_rel {a b : List EItem} (r : All2 EItemRel a b) : All2 CallRel (msCalls a) (msCalls b) := by
  unfold msCalls
  refine All2.map (fun x y h => ?_) r
  exact ⟨rfl, aval_rel t_None h.2.1 (fun _ => (by decide : specialTy t_None = false))⟩

theorem selectorCalls_rel {a b : List EItem} (r : All2 EItemRel a b) :
    All2 CallRel (selectorCalls a) (selectorCalls b) := by
  unfold selectorCalls
  refine All2.map (fun x y h => ?_) r
  obtain ⟨h1, h2, h3⟩ := h
  rcases x with ⟨tx, vx⟩
  rcases y with ⟨ty, vy⟩
  simp only at h1 h2 h3
  subst h1
  cases vx <;> cases vy <;> simp only [EValRel] at h2
  · subst h2; exact CallRel.same _
  · subst h2; exact CallRel.same _
  · exact CallRel.same _
  · rename_i t1 t2
    exact ⟨rfl, aval_rel (x := .obj t1) (y := .obj t2) _ (by simp only [EValRel]; exact h2) h3⟩

theorem mlistCalls_rel {a b : List EItem} (r : All2 EItemRel a b) (fd : Bool) :
    All2 CallRel (mlistCalls fd a) (mlistCalls fd b) := by
  induction r generalizing fd with
  | nil => exact .nil
  | @cons x y l m h _ ih =>
    obtain ⟨tx, vx⟩ := x
    obtain ⟨ty, vy⟩ := y
    have e : tx = ty := h.1
    subst e
    simp only [mlistCalls]
    refine All2.append ?_ (.cons (avalCall_rel h _ _) (ih _))
    split
    · exact .cons (CallRel.same _) .nil
    · exact .nil

theorem mqueryCalls_rel {a b : List EItem} (r : All2 EItemRel a b) (nm : Bool) :
    All2 CallRel (mqueryCalls nm a) (mqueryCalls nm b) := by
  induction r generalizing nm with
  | nil => exact .nil
  | @cons x y l m h _ ih =>
    obtain ⟨tx, vx⟩ := x
    obtain ⟨ty, vy⟩ := y
    have e : tx = ty := h.1
    subst e
    simp only [mqueryCalls]
    split
    · exact .cons (CallRel.same _) (.cons (avalCall_rel h _ _) (ih _))
    · exact .cons (avalCall_rel h _ _) (ih _)

end CssVerif.Out
