import CssVerif.Lemmas.MacroRank
/-!
# Lemmas for C14 — the cycle check is complete: a macro set with a rank function passes `acyclicB`

If the search for the rank of `k` runs out of a fuel `f`, there are `f` distinct defined macros on a chain below `k`
(their ranks under ANY rank function decrease strictly); with `f = |m| + 1` that is one more than there are keys.
-/
namespace CssVerif.Profiles

theorem maxRank_none (rk : Str → Option Nat) (l : List Str) (h : maxRank rk l = none) : ∃ n ∈ l, rk n = none := by
  induction l with
  | nil => simp [maxRank] at h
  | cons x t ih =>
    simp only [maxRank] at h
    cases hx : rk x with
    | none => exact ⟨x, by simp, hx⟩
    | some a =>
      cases ht : maxRank rk t with
      | none =>
        obtain ⟨n, hn, h2⟩ := ih ht
        exact ⟨n, by simp [hn], h2⟩
      | some b => simp [hx, ht] at h

/-- the search ran out of fuel: a chain of `f` distinct defined macros whose ranks are at most that of `k` -/
theorem rankOf_none_chain (rk : Str → Nat) (m : Dict Str) (hr : RankedBy rk m) (f : Nat) (k : Str)
    (h : rankOf m f k = none) :
    ∃ l : List Str, l.length = f ∧ l.Nodup ∧ ∀ x ∈ l, x ∈ dkeys m ∧ rk x ≤ rk k := by
  induction f generalizing k with
  | zero => exact ⟨[], rfl, List.nodup_nil, fun x hx => by cases hx⟩
  | succ f ih =>
    simp only [rankOf] at h
    cases hb : dget m k with
    | none => simp [hb] at h
    | some body =>
      simp only [hb] at h
      obtain ⟨n, hn, hnone⟩ := maxRank_none _ _ h
      obtain ⟨l, hl, hnd, hall⟩ := ih n hnone
      have hlt := hr k body hb n hn
      refine ⟨k :: l, by simp [hl], ?_, ?_⟩
      · rw [List.nodup_cons]
        refine ⟨fun hk => ?_, hnd⟩
        have := (hall k hk).2
        omega
      · intro x hx
        cases List.mem_cons.mp hx with
        | inl e =>
          subst e
          exact ⟨(dget_isSome_iff_mem_dkeys m x).mp (by simp [hb]), Nat.le_refl _⟩
        | inr e =>
          have := hall x e
          exact ⟨this.1, by omega⟩

theorem length_le_filter_ne (l : List Str) (a : Str) (h : l.Nodup) :
    l.length ≤ (l.filter fun x => !decide (x = a)).length + 1 := by
  induction l with
  | nil => simp
  | cons x t ih =>
    rw [List.nodup_cons] at h
    by_cases hx : x = a
    · subst hx
      have : (t.filter fun y => !decide (y = x)) = t := by
        apply List.filter_eq_self.mpr
        intro y hy
        have : y ≠ x := fun e => h.1 (e ▸ hy)
        simp [this]
      rw [List.filter_cons_of_neg (by simp), this]
      simp
    · have := ih h.2
      rw [List.filter_cons_of_pos (by simp [hx])]
      simp only [List.length_cons]
      omega

/-- distinct elements of a list are no more than the list is long -/
theorem nodup_subset_length (d l : List Str) (hnd : l.Nodup) (hs : ∀ x ∈ l, x ∈ d) : l.length ≤ d.length := by
  induction d generalizing l with
  | nil =>
    cases l with
    | nil => simp
    | cons x t => exact absurd (hs x (by simp)) (by simp)
  | cons a d' ih =>
    have h1 := length_le_filter_ne l a hnd
    have h2 := ih (l.filter fun x => !decide (x = a)) (hnd.filter _) (by
      intro x hx
      obtain ⟨hxl, hne⟩ := List.mem_filter.mp hx
      have hne' : x ≠ a := by simpa using hne
      cases List.mem_cons.mp (hs x hxl) with
      | inl e => exact absurd e hne'
      | inr e => exact e)
    simp only [List.length_cons]
    omega

/-- **completeness** of the cycle check -/
theorem acyclic_acyclicB (m : Dict Str) (h : Acyclic m) : acyclicB m = true := by
  obtain ⟨rk, hr⟩ := h
  unfold acyclicB
  apply List.all_eq_true.mpr
  intro k _
  cases hk : rankOf m (m.length + 1) k with
  | some a => rfl
  | none =>
    obtain ⟨l, hl, hnd, hall⟩ := rankOf_none_chain rk m hr (m.length + 1) k hk
    have := nodup_subset_length (dkeys m) l hnd (fun x hx => (hall x hx).1)
    simp only [dkeys, List.length_map] at this
    omega

theorem acyclicB_iff (m : Dict Str) : acyclicB m = true ↔ Acyclic m :=
  ⟨acyclicB_acyclic m, acyclic_acyclicB m⟩

end CssVerif.Profiles
