import CssVerif.Model.CodecInner
/-!
Lemmas about the inner codecs: a reader's verdict is never revised by more data, hence the scanning loop
splits at any point of the data (`scanS_append`) — the fact behind every chunking theorem of C07.
-/
namespace CssVerif.Codec

theorem run_done_append (r : Rd) (l ext : List Nat) (j cp k : Nat) (h : r.run l j = .done cp k) :
    r.run (l ++ ext) j = .done cp k := by
  induction l generalizing r j with
  | nil =>
    cases r with
    | done c => simpa [Rd.run] using h
    | bad => simp [Rd.run] at h
    | more f => simp [Rd.run] at h
  | cons b t ih =>
    cases r with
    | done c => simpa [Rd.run] using h
    | bad => simp [Rd.run] at h
    | more f => simp only [Rd.run, List.cons_append] at h ⊢; exact ih _ _ h

theorem run_bad_append (r : Rd) (l ext : List Nat) (j : Nat) (h : r.run l j = .bad) :
    r.run (l ++ ext) j = .bad := by
  induction l generalizing r j with
  | nil =>
    cases r with
    | done c => simp [Rd.run] at h
    | bad => simp [Rd.run]
    | more f => simp [Rd.run] at h
  | cons b t ih =>
    cases r with
    | done c => simp [Rd.run] at h
    | bad => simp [Rd.run]
    | more f => simp only [Rd.run, List.cons_append] at h ⊢; exact ih _ _ h

/-- a character's length never exceeds the data it was read from -/
theorem run_done_le (r : Rd) (l : List Nat) (j cp k : Nat) (h : r.run l j = .done cp k) :
    j ≤ k ∧ k ≤ j + l.length := by
  induction l generalizing r j with
  | nil =>
    cases r with
    | done c => simp [Rd.run] at h; omega
    | bad => simp [Rd.run] at h
    | more f => simp [Rd.run] at h
  | cons b t ih =>
    cases r with
    | done c => simp [Rd.run] at h; omega
    | bad => simp [Rd.run] at h
    | more f =>
      simp only [Rd.run] at h
      have := ih _ _ h
      simp only [List.length_cons]; omega

/-- continue a partial result with what the rest of the data gives -/
def Res.andThen (r : Res) (k : List Nat → Res) : Res :=
  if r.err then ⟨r.text, [], true⟩ else ⟨r.text ++ (k r.pend).text, (k r.pend).pend, (k r.pend).err⟩

theorem Res.cons_andThen (c : Nat) (r : Res) (k : List Nat → Res) :
    (r.cons c).andThen k = (r.andThen k).cons c := by
  unfold Res.andThen Res.cons
  by_cases h : r.err = true <;> simp [h]

/-- **splitting law**: scanning `a ++ b` is scanning `a` (as non-final data), then scanning what `a`
left undecoded followed by `b` -/
theorem scanS_append (first : Nat → Rd) (a b : List Nat) (s : Nat) (f : Bool) (hs : s ≤ a.length) :
    scanS first (a ++ b) s f = (scanS first a s false).andThen (fun p => scanS first (p ++ b) 0 f) := by
  induction a generalizing s with
  | nil =>
    have : s = 0 := by simpa using hs
    subst this
    simp [scanS, Res.andThen]
  | cons x t ih =>
    cases s with
    | succ s' =>
      simp only [List.cons_append, scanS]
      exact ih s' (by simpa using hs)
    | zero =>
      simp only [List.cons_append, scanS]
      cases hr : (first x).run t 0 with
      | done cp j =>
        have hj := run_done_le _ _ _ _ _ hr
        rw [run_done_append _ _ b _ _ _ hr]
        simp only []
        rw [ih j (by omega), Res.cons_andThen]
      | bad =>
        rw [run_bad_append _ _ b _ hr]
        simp [Res.andThen, Res.fail]
      | need =>
        simp only [Bool.false_eq_true, if_false]
        simp [Res.andThen, scanS]

theorem scan_append (first : Nat → Rd) (a b : List Nat) (f : Bool) :
    scan first (a ++ b) f = (scan first a false).andThen (fun p => scan first (p ++ b) f) :=
  scanS_append first a b 0 f (Nat.zero_le _)

/-- the undecoded tail lies inside the data after the bytes still to be skipped -/
theorem scanS_pend_le (first : Nat → Rd) (l : List Nat) (s : Nat) (f : Bool) (hs : s ≤ l.length) :
    (scanS first l s f).pend.length + s ≤ l.length := by
  induction l generalizing s with
  | nil => simp [scanS] at hs ⊢; exact hs
  | cons x t ih =>
    cases s with
    | succ s' =>
      simp only [scanS, List.length_cons]
      have := ih s' (by simpa using hs)
      omega
    | zero =>
      simp only [scanS]
      cases hr : (first x).run t 0 with
      | done cp j =>
        have hj := run_done_le _ _ _ _ _ hr
        have := ih j (by omega)
        simp only [Res.cons, List.length_cons]; omega
      | bad => simp [Res.fail]
      | need => cases f <;> simp [Res.fail]

theorem scan_pend_le (first : Nat → Rd) (l : List Nat) (f : Bool) :
    (scan first l f).pend.length ≤ l.length := by
  have := scanS_pend_le first l 0 f (Nat.zero_le _)
  simpa [scan] using this

/-- nothing decoded and no error: nothing consumed -/
theorem scan_text_nil (first : Nat → Rd) (l : List Nat) (f : Bool)
    (he : (scan first l f).err = false) (ht : (scan first l f).text = []) : (scan first l f).pend = l := by
  unfold scan at *
  cases l with
  | nil => simp [scanS]
  | cons x t =>
    simp only [scanS] at *
    cases hr : (first x).run t 0 with
    | done cp j => simp [hr, Res.cons] at ht
    | bad => simp [hr, Res.fail] at he
    | need => cases f <;> simp [hr, Res.fail] at he ⊢

/-- a decoded character of a reader that always asks for `m` more bytes consumed at least `m + 1` bytes -/
theorem scan_consumed (first : Nat → Rd) (m : Nat)
    (hm : ∀ x t cp j, (first x).run t 0 = .done cp j → m ≤ j)
    (l : List Nat) (f : Bool) (ht : (scan first l f).text ≠ []) :
    (scan first l f).pend.length + (m + 1) ≤ l.length := by
  unfold scan at *
  cases l with
  | nil => simp [scanS] at ht
  | cons x t =>
    simp only [scanS] at *
    cases hr : (first x).run t 0 with
    | done cp j =>
      have hj := run_done_le _ _ _ _ _ hr
      have h1 := hm _ _ _ _ hr
      have := scanS_pend_le first t j f (by omega)
      simp only [Res.cons, List.length_cons]; omega
    | bad => simp [hr, Res.fail] at ht
    | need => cases f <;> simp [hr, Res.fail] at ht

end CssVerif.Codec
