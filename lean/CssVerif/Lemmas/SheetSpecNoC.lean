import CssVerif.Lemmas.SheetSpecSheet
/-!
# C02, T2.3: comment parsing switched off

`CSSParser(parseComments=False)` makes the tokenizer drop every COMMENT token (`tokenize2.py:240`,
`parse.py:65`).  `SSheet.noC` is the spelled sheet without any comment (comment rules and items, comments in
gaps, comments inside opaque parts); `strip_render` says that dropping the comment tokens of `render s` gives
`render s.noC`; `SSheet.noC_erase` says that `s.noC` denotes `eraseCRules s.erase`, the abstract sheet without
comments.
-/
namespace CssVerif.SheetSpec
open CssVerif.Proto (Cps)
open CssVerif.Struct CssVerif.AtRules
set_option linter.unusedSimpArgs false
set_option linter.unusedVariables false

/-! ## comments off: the tokenizer drops COMMENT tokens (`tokenize2.py:240`, `parse.py:65`) -/

def GapTok.isWs : GapTok → Bool
  | .ws _ => true
  | .cm _ => false

def Gap.noC (g : Gap) : Gap := g.filter GapTok.isWs

def noCPrio : Option (Gap × Cps × Mask × Gap) → Option (Gap × Cps × Mask × Gap)
  | none => none
  | some (g4, n, sp, g5) => some (g4.noC, n, sp, g5.noC)

def SDecl.noC (d : SDecl) : SDecl :=
  { name := d.name, nameSp := d.nameSp, g1 := d.g1.noC, g2 := d.g2.noC, value := strip d.value, g3 := d.g3.noC,
    prio := noCPrio d.prio }

/-- block items without the comments; the white space after a dropped comment joins the gap before it -/
def noCItems : List (SItem × WGap) → WGap × List (SItem × WGap)
  | [] => ([], [])
  | (.comment _, w) :: rest => (w ++ (noCItems rest).1, (noCItems rest).2)
  | (.decl d, w) :: rest => ([], (.decl d.noC, w ++ (noCItems rest).1) :: (noCItems rest).2)
  | (.unknown t, w) :: rest => ([], (.unknown (strip t), w ++ (noCItems rest).1) :: (noCItems rest).2)
  | (.semi, w) :: rest => ([], (.semi, w ++ (noCItems rest).1) :: (noCItems rest).2)

def SBlock.noC (b : SBlock) : SBlock :=
  { lead := b.lead ++ (noCItems b.items).1, items := (noCItems b.items).2, last := b.last.map SDecl.noC }

theorem strip_append (a b : List Tok) : strip (a ++ b) = strip a ++ strip b := by simp [strip]

theorem strip_gap (g : Gap) : strip (Gap.toks g) = Gap.toks g.noC := by
  induction g with
  | nil => rfl
  | cons a g ih =>
    cases a with
    | ws w =>
      have : Gap.noC (GapTok.ws w :: g) = GapTok.ws w :: Gap.noC g := by simp [Gap.noC, List.filter_cons, GapTok.isWs]
      rw [this]
      simp only [Gap.toks, List.map_cons] at ih ⊢
      rw [← ih]
      simp [strip, List.filter_cons, notComment, GapTok.tok, Ws.tok]
    | cm b =>
      have : Gap.noC (GapTok.cm b :: g) = Gap.noC g := by simp [Gap.noC, List.filter_cons, GapTok.isWs]
      rw [this, ← ih]
      simp [strip, List.filter_cons, notComment, GapTok.tok, commentTok, Gap.toks]

theorem strip_wgap (w : WGap) : strip (WGap.toks w) = WGap.toks w := by
  simp only [strip, WGap.toks, List.filter_eq_self, List.mem_map]
  rintro t ⟨a, _, rfl⟩
  simp [notComment, Ws.tok]

theorem strip_keep (t : Tok) (l : List Tok) (h : t.typ ≠ .comment) : strip (t :: l) = t :: strip l := by
  simp [strip, List.filter_cons, notComment, h]

theorem strip_semi : strip [semiTok] = [semiTok] := rfl
theorem strip_commentTok (b : Cps) : strip [commentTok b] = [] := rfl

theorem wgap_toks_append (a b : WGap) : WGap.toks (a ++ b) = WGap.toks a ++ WGap.toks b := by
  simp [WGap.toks]

theorem strip_renderPrio (p : Option (Gap × Cps × Mask × Gap)) : strip (renderPrio p) = renderPrio (noCPrio p) := by
  cases p with
  | none => rfl
  | some p =>
    obtain ⟨g4, n, sp, g5⟩ := p
    simp only [renderPrio, noCPrio]
    rw [strip_keep _ _ (by simp [bangTok, charTok]), strip_append, strip_gap, strip_keep _ _ (by simp [identTok]),
      strip_gap]

theorem strip_sdecl (d : SDecl) : strip d.toks = d.noC.toks := by
  simp only [SDecl.toks, SDecl.noC]
  rw [strip_keep _ _ (by simp [identTok]), strip_append, strip_gap, strip_keep _ _ (by simp [colonTok, charTok]),
    strip_append, strip_gap, strip_append, strip_append, strip_gap, strip_renderPrio]

theorem strip_items (items : List (SItem × WGap)) :
    strip (renderItems items) = WGap.toks (noCItems items).1 ++ renderItems (noCItems items).2 := by
  induction items with
  | nil => rfl
  | cons p rest ih =>
    obtain ⟨i, w⟩ := p
    simp only [renderItems, strip_append, strip_wgap, ih]
    cases i with
    | decl d =>
      simp only [SItem.toks, noCItems, renderItems, strip_append, strip_sdecl, wgap_toks_append, strip_semi]
      simp [WGap.toks]
    | comment b =>
      simp only [SItem.toks, noCItems, wgap_toks_append, strip_commentTok]
      simp
    | unknown t =>
      simp only [SItem.toks, noCItems, renderItems, wgap_toks_append]
      simp [WGap.toks]
    | semi =>
      simp only [SItem.toks, noCItems, renderItems, wgap_toks_append, strip_semi]
      simp [WGap.toks]

theorem strip_block (b : SBlock) : strip b.toks = b.noC.toks := by
  simp only [SBlock.toks, SBlock.noC, strip_append, strip_wgap, strip_items, wgap_toks_append]
  cases hl : b.last with
  | none => simp [renderLast, strip]
  | some d => simp [renderLast, strip_sdecl]

def noCMore : List (Gap × List Tok × Gap) → List (Gap × List Tok × Gap)
  | [] => []
  | (pre, c, post) :: rest => (pre.noC, strip c, post.noC) :: noCMore rest

def SSel.noC (s : SSel) : SSel := { first := strip s.first, post := s.post.noC, more := noCMore s.more }

theorem strip_more (more : List (Gap × List Tok × Gap)) : strip (renderMore more) = renderMore (noCMore more) := by
  induction more with
  | nil => rfl
  | cons p rest ih =>
    obtain ⟨pre, c, post⟩ := p
    simp only [renderMore, noCMore]
    rw [strip_keep _ _ (by simp [commaTok, charTok]), strip_append, strip_gap, strip_append, strip_append, strip_gap, ih]

theorem strip_sel (s : SSel) : strip s.toks = s.noC.toks := by
  simp only [SSel.toks, SSel.noC, strip_append, strip_gap, strip_more]

def noCPageItems : List (SPageItem × WGap) → WGap × List (SPageItem × WGap)
  | [] => ([], [])
  | (.item (.comment _), w) :: rest => (w ++ (noCPageItems rest).1, (noCPageItems rest).2)
  | (.item (.decl d), w) :: rest => ([], (.item (.decl d.noC), w ++ (noCPageItems rest).1) :: (noCPageItems rest).2)
  | (.item (.unknown t), w) :: rest => ([], (.item (.unknown (strip t)), w ++ (noCPageItems rest).1) :: (noCPageItems rest).2)
  | (.item .semi, w) :: rest => ([], (.item .semi, w ++ (noCPageItems rest).1) :: (noCPageItems rest).2)
  | (.margin n kw g b, w) :: rest =>
    ([], (.margin n kw g.noC b.noC, w ++ (noCPageItems rest).1) :: (noCPageItems rest).2)

def SPageBlock.noC (b : SPageBlock) : SPageBlock :=
  { lead := b.lead ++ (noCPageItems b.items).1, items := (noCPageItems b.items).2, last := b.last.map SDecl.noC }

def SPageSel.noC (s : SPageSel) : SPageSel := { name := s.name, mid := [], pseudo := s.pseudo, pseudoSp := s.pseudoSp }

theorem strip_pageItems (items : List (SPageItem × WGap)) :
    strip (renderPageItems items) = WGap.toks (noCPageItems items).1 ++ renderPageItems (noCPageItems items).2 := by
  induction items with
  | nil => rfl
  | cons p rest ih =>
    obtain ⟨i, w⟩ := p
    simp only [renderPageItems, strip_append, strip_wgap, ih]
    cases i with
    | item it =>
      cases it with
      | decl d =>
        simp only [SPageItem.toks, SItem.toks, noCPageItems, renderPageItems, strip_append, strip_sdecl,
          wgap_toks_append, strip_semi]
        simp [WGap.toks]
      | comment b =>
        simp only [SPageItem.toks, SItem.toks, noCPageItems, wgap_toks_append, strip_commentTok]
        simp
      | unknown t =>
        simp only [SPageItem.toks, SItem.toks, noCPageItems, renderPageItems, wgap_toks_append]
        simp [WGap.toks]
      | semi =>
        simp only [SPageItem.toks, SItem.toks, noCPageItems, renderPageItems, wgap_toks_append, strip_semi]
        simp [WGap.toks]
    | margin n kw g b =>
      simp only [SPageItem.toks, noCPageItems, renderPageItems, wgap_toks_append]
      rw [strip_keep _ _ (by simp), strip_append, strip_gap, strip_keep _ _ (by simp [lbraceTok, charTok]),
        strip_append, strip_block]
      simp [strip, List.filter_cons, notComment, rbraceTok, charTok, WGap.toks]

theorem strip_pageBlock (b : SPageBlock) : strip b.toks = b.noC.toks := by
  simp only [SPageBlock.toks, SPageBlock.noC, strip_append, strip_wgap, strip_pageItems, wgap_toks_append]
  cases hl : b.last with
  | none => simp [renderLast, strip]
  | some d => simp [renderLast, strip_sdecl]

theorem strip_pageSel (s : SPageSel) : strip s.toks = s.noC.toks := by
  simp only [SPageSel.toks, SPageSel.noC, strip_append]
  congr 1
  · cases s.name with
    | none => rfl
    | some n =>
      simp only [List.map_nil]
      rw [strip_keep _ _ (by simp [identTok])]
      congr 1
      simp only [strip, List.filter_eq_nil_iff, List.mem_map]
      rintro t ⟨b, _, rfl⟩
      simp [notComment, commentTok]
  · cases s.pseudo with
    | none => rfl
    | some p => rfl

/-- the optional name without the comments of its gap -/
def SName.noC : SName → SName
  | some (q, n, g) => some (q, n, g.noC)
  | none => none

theorem strip_nameToks (name : SName) (l : List Tok) :
    strip (nameToks name ++ l) = nameToks (SName.noC name) ++ strip l := by
  cases name with
  | none => rfl
  | some p =>
    obtain ⟨q, n, g⟩ := p
    simp only [nameToks, SName.noC, List.cons_append]
    rw [strip_keep _ _ (by simp [strTok]), strip_append, strip_gap]

theorem SName.noC_value (name : SName) : (SName.noC name).map (·.2.1) = name.map (·.2.1) := by
  cases name with
  | none => rfl
  | some p => rfl

mutual
def SRule.noC : SRule → SRule
  | .comment b => .comment b
  | .style sel blk => .style sel.noC blk.noC
  | .unknown t => .unknown (strip t)
  | .media kw g1 mq g2 name lead rules =>
    .media kw g1.noC (strip mq) g2.noC (SName.noC name) (lead ++ (SRules.noC rules).1) (SRules.noC rules).2
  | .fontface kw g1 blk => .fontface kw g1.noC blk.noC
  | .page kw g0 sel g1 blk => .page kw g0.noC sel.noC g1.noC blk.noC
/-- the rules without the comment rules; the white space after a dropped comment joins the gap before it -/
def SRules.noC : SRules → WGap × SRules
  | .nil => ([], .nil)
  | .cons (.comment _) w rest => (w ++ (SRules.noC rest).1, (SRules.noC rest).2)
  | .cons (.style sel blk) w rest => ([], .cons (SRule.noC (.style sel blk)) (w ++ (SRules.noC rest).1) (SRules.noC rest).2)
  | .cons (.unknown t) w rest => ([], .cons (SRule.noC (.unknown t)) (w ++ (SRules.noC rest).1) (SRules.noC rest).2)
  | .cons (.media kw g1 mq g2 name lead rules) w rest =>
    ([], .cons (SRule.noC (.media kw g1 mq g2 name lead rules)) (w ++ (SRules.noC rest).1) (SRules.noC rest).2)
  | .cons (.fontface kw g1 blk) w rest =>
    ([], .cons (SRule.noC (.fontface kw g1 blk)) (w ++ (SRules.noC rest).1) (SRules.noC rest).2)
  | .cons (.page kw g0 sel g1 blk) w rest =>
    ([], .cons (SRule.noC (.page kw g0 sel g1 blk)) (w ++ (SRules.noC rest).1) (SRules.noC rest).2)
end

theorem strip_atTok (typ : TT) (kw : Mask) (name : String) (l : List Tok) (h : typ ≠ .comment) :
    strip (atTok typ kw name :: l) = atTok typ kw name :: strip l := strip_keep _ _ (by simpa [atTok] using h)

theorem strip_braces (inner : List Tok) : strip (lbraceTok :: (inner ++ [rbraceTok])) = lbraceTok :: (strip inner ++ [rbraceTok]) := by
  rw [strip_keep _ _ (by simp [lbraceTok, charTok]), strip_append]
  rfl

mutual
theorem strip_srule : ∀ (r : SRule), (∀ b, r ≠ .comment b) → strip r.toks = r.noC.toks
  | .comment b, h => absurd rfl (h b)
  | .style sel blk, _ => by
    simp only [SRule.toks, SRule.noC, strip_append, strip_sel, strip_braces, strip_block]
  | .unknown t, _ => by simp [SRule.toks, SRule.noC]
  | .media kw g1 mq g2 name lead rules, _ => by
    simp only [SRule.toks, SRule.noC]
    rw [strip_atTok _ _ _ _ (by decide), strip_append, strip_gap, strip_append, strip_append, strip_gap,
      strip_nameToks,
      show lbraceTok :: (WGap.toks lead ++ (rules.toks ++ [rbraceTok])) =
        lbraceTok :: ((WGap.toks lead ++ rules.toks) ++ [rbraceTok]) by simp, strip_braces,
      strip_append, strip_wgap, strip_srules rules, wgap_toks_append]
    simp
  | .fontface kw g1 blk, _ => by
    simp only [SRule.toks, SRule.noC]
    rw [strip_atTok _ _ _ _ (by decide), strip_append, strip_gap, strip_braces, strip_block]
  | .page kw g0 sel g1 blk, _ => by
    simp only [SRule.toks, SRule.noC]
    rw [strip_atTok _ _ _ _ (by decide), strip_append, strip_gap, strip_append, strip_pageSel, strip_append, strip_gap,
      strip_braces, strip_pageBlock]
theorem strip_srules : ∀ (rs : SRules), strip rs.toks = WGap.toks (SRules.noC rs).1 ++ (SRules.noC rs).2.toks
  | .nil => rfl
  | .cons (.comment b) w rest => by
    simp only [SRules.toks, SRule.toks, SRules.noC, strip_append, strip_wgap, strip_srules rest, wgap_toks_append,
      strip_commentTok]
    simp
  | .cons (.style sel blk) w rest => by
    simp only [SRules.toks, SRules.noC, strip_append, strip_wgap, strip_srules rest, wgap_toks_append,
      strip_srule (.style sel blk) (by simp)]
    simp [WGap.toks]
  | .cons (.unknown t) w rest => by
    simp only [SRules.toks, SRules.noC, strip_append, strip_wgap, strip_srules rest, wgap_toks_append,
      strip_srule (.unknown t) (by simp)]
    simp [WGap.toks]
  | .cons (.media kw g1 mq g2 name lead rules) w rest => by
    simp only [SRules.toks, SRules.noC, strip_append, strip_wgap, strip_srules rest, wgap_toks_append,
      strip_srule (.media kw g1 mq g2 name lead rules) (by simp)]
    simp [WGap.toks]
  | .cons (.fontface kw g1 blk) w rest => by
    simp only [SRules.toks, SRules.noC, strip_append, strip_wgap, strip_srules rest, wgap_toks_append,
      strip_srule (.fontface kw g1 blk) (by simp)]
    simp [WGap.toks]
  | .cons (.page kw g0 sel g1 blk) w rest => by
    simp only [SRules.toks, SRules.noC, strip_append, strip_wgap, strip_srules rest, wgap_toks_append,
      strip_srule (.page kw g0 sel g1 blk) (by simp)]
    simp [WGap.toks]
end

def SImp.noC : SImp → SImp
  | .comment b => .comment b
  | .unknown t => .unknown (strip t)
  | .import_ kw g1 href g2 mq name =>
    .import_ kw g1.noC href g2.noC (mq.map fun p => (strip p.1, p.2.noC)) (SName.noC name)

def SNs.noC : SNs → SNs
  | .comment b => .comment b
  | .unknown t => .unknown (strip t)
  | .namespace_ kw g1 pfx uri g2 => .namespace_ kw g1.noC (pfx.map fun p => (p.1, p.2.noC)) uri g2.noC

/-- `tail`: white space that follows the list (from comments dropped at the start of the next section) -/
def noCImps (tail : WGap) : List (SImp × WGap) → WGap × List (SImp × WGap)
  | [] => (tail, [])
  | (.comment _, w) :: rest => (w ++ (noCImps tail rest).1, (noCImps tail rest).2)
  | (.unknown t, w) :: rest => ([], (SImp.noC (.unknown t), w ++ (noCImps tail rest).1) :: (noCImps tail rest).2)
  | (.import_ kw g1 href g2 mq name, w) :: rest =>
    ([], (SImp.noC (.import_ kw g1 href g2 mq name), w ++ (noCImps tail rest).1) :: (noCImps tail rest).2)

def noCNss (tail : WGap) : List (SNs × WGap) → WGap × List (SNs × WGap)
  | [] => (tail, [])
  | (.comment _, w) :: rest => (w ++ (noCNss tail rest).1, (noCNss tail rest).2)
  | (.unknown t, w) :: rest => ([], (SNs.noC (.unknown t), w ++ (noCNss tail rest).1) :: (noCNss tail rest).2)
  | (.namespace_ kw g1 pfx uri g2, w) :: rest =>
    ([], (SNs.noC (.namespace_ kw g1 pfx uri g2), w ++ (noCNss tail rest).1) :: (noCNss tail rest).2)

theorem strip_href (h : SHref) (l : List Tok) : strip (h.tok :: l) = h.tok :: strip l :=
  strip_keep _ _ (by cases h <;> simp [SHref.tok])

theorem strip_simp_toks (kw : Mask) (g1 : Gap) (href : SHref) (g2 : Gap) (mq : Option (List Tok × Gap))
    (name : SName) :
    strip (SImp.import_ kw g1 href g2 mq name).toks = (SImp.noC (.import_ kw g1 href g2 mq name)).toks := by
  simp only [SImp.toks, SImp.noC]
  rw [strip_atTok _ _ _ _ (by decide), strip_append, strip_gap, strip_href, strip_append, strip_gap, strip_append,
    strip_nameToks, strip_semi]
  cases mq with
  | none => rfl
  | some p => obtain ⟨m, g3⟩ := p; simp [impMqToks, strip_append, strip_gap]

theorem strip_sns_toks (kw : Mask) (g1 : Gap) (pfx : Option (Cps × Gap)) (uri : SHref) (g2 : Gap) :
    strip (SNs.namespace_ kw g1 pfx uri g2).toks = (SNs.noC (.namespace_ kw g1 pfx uri g2)).toks := by
  simp only [SNs.toks, SNs.noC]
  rw [strip_atTok _ _ _ _ (by decide), strip_append, strip_gap, strip_append, strip_href, strip_append, strip_gap,
    strip_semi]
  cases pfx with
  | none => rfl
  | some p =>
    obtain ⟨pn, g⟩ := p
    simp only [nsPfxToks, Option.map_some]
    rw [strip_keep _ _ (by simp [identTok]), strip_gap]

theorem strip_imps (tail : WGap) (l : List (SImp × WGap)) :
    strip (renderImps l) ++ WGap.toks tail = WGap.toks (noCImps tail l).1 ++ renderImps (noCImps tail l).2 := by
  induction l with
  | nil => simp [renderImps, noCImps, strip]
  | cons p rest ih =>
    obtain ⟨i, w⟩ := p
    simp only [renderImps, strip_append, strip_wgap, List.append_assoc, ih]
    cases i with
    | comment b =>
      simp only [SImp.toks, noCImps, wgap_toks_append, strip_commentTok]
      simp
    | unknown t =>
      simp only [noCImps, renderImps, wgap_toks_append]
      simp [SImp.toks, SImp.noC, WGap.toks]
    | import_ kw g1 href g2 mq name =>
      simp only [noCImps, renderImps, wgap_toks_append, strip_simp_toks]
      simp [WGap.toks]

theorem strip_nss (tail : WGap) (l : List (SNs × WGap)) :
    strip (renderNss l) ++ WGap.toks tail = WGap.toks (noCNss tail l).1 ++ renderNss (noCNss tail l).2 := by
  induction l with
  | nil => simp [renderNss, noCNss, strip]
  | cons p rest ih =>
    obtain ⟨i, w⟩ := p
    simp only [renderNss, strip_append, strip_wgap, List.append_assoc, ih]
    cases i with
    | comment b =>
      simp only [SNs.toks, noCNss, wgap_toks_append, strip_commentTok]
      simp
    | unknown t =>
      simp only [noCNss, renderNss, wgap_toks_append]
      simp [SNs.toks, SNs.noC, WGap.toks]
    | namespace_ kw g1 pfx uri g2 =>
      simp only [noCNss, renderNss, wgap_toks_append, strip_sns_toks]
      simp [WGap.toks]

/-! ### the `@variables` section -/

def SVarDecl.noC (d : SVarDecl) : SVarDecl :=
  { d with g1 := d.g1.noC, g2 := d.g2.noC, value := strip d.value, g3 := d.g3.noC }

def SVarBlock.noC (b : SVarBlock) : SVarBlock :=
  { lead := b.lead.noC, items := b.items.map (fun p => (p.1.noC, p.2.noC)), last := b.last.map SVarDecl.noC }

def SVar.noC : SVar → SVar
  | .comment b => .comment b
  | .unknown t => .unknown (strip t)
  | .variables kw g0 blk => .variables kw g0.noC blk.noC

def noCVars (tail : WGap) : List (SVar × WGap) → WGap × List (SVar × WGap)
  | [] => (tail, [])
  | (.comment _, w) :: rest => (w ++ (noCVars tail rest).1, (noCVars tail rest).2)
  | (.unknown t, w) :: rest => ([], (SVar.noC (.unknown t), w ++ (noCVars tail rest).1) :: (noCVars tail rest).2)
  | (.variables kw g0 blk, w) :: rest =>
    ([], (SVar.noC (.variables kw g0 blk), w ++ (noCVars tail rest).1) :: (noCVars tail rest).2)

theorem strip_svardecl (d : SVarDecl) : strip d.toks = d.noC.toks := by
  simp only [SVarDecl.toks, SVarDecl.noC]
  rw [strip_keep _ _ (by simp [identTok]), strip_append, strip_gap, strip_keep _ _ (by decide), strip_append,
    strip_gap, strip_append, strip_gap]

theorem strip_varItems (items : List (SVarDecl × Gap)) :
    strip (renderVarItems items) = renderVarItems (items.map (fun p => (p.1.noC, p.2.noC))) := by
  induction items with
  | nil => rfl
  | cons p rest ih =>
    obtain ⟨d, g⟩ := p
    simp only [renderVarItems, List.map_cons, strip_append, strip_svardecl]
    rw [strip_keep _ _ (by decide), strip_append, strip_gap, ih]

theorem strip_varBlock (b : SVarBlock) : strip b.toks = b.noC.toks := by
  simp only [SVarBlock.toks, SVarBlock.noC, strip_append, strip_gap, strip_varItems]
  cases b.last with
  | none => rfl
  | some d => simp [renderLastVar, strip_svardecl]

theorem strip_svar_toks (kw : Mask) (g0 : Gap) (blk : SVarBlock) :
    strip (SVar.variables kw g0 blk).toks = (SVar.noC (.variables kw g0 blk)).toks := by
  simp only [SVar.toks, SVar.noC]
  rw [strip_atTok _ _ _ _ (by decide), strip_append, strip_gap, strip_braces, strip_varBlock]

theorem strip_vars (tail : WGap) (l : List (SVar × WGap)) :
    strip (renderVars l) ++ WGap.toks tail = WGap.toks (noCVars tail l).1 ++ renderVars (noCVars tail l).2 := by
  induction l with
  | nil => simp [renderVars, noCVars, strip]
  | cons p rest ih =>
    obtain ⟨i, w⟩ := p
    simp only [renderVars, strip_append, strip_wgap, List.append_assoc, ih]
    cases i with
    | comment b =>
      simp only [SVar.toks, noCVars, wgap_toks_append, strip_commentTok]
      simp
    | unknown t =>
      simp only [noCVars, renderVars, wgap_toks_append]
      simp [SVar.toks, SVar.noC, WGap.toks]
    | variables kw g0 blk =>
      simp only [noCVars, renderVars, wgap_toks_append, strip_svar_toks]
      simp [WGap.toks]

/-- the spelled sheet the tokenizer shows the parser when comment parsing is off: every comment token is gone -/
def SSheet.noC (s : SSheet) : SSheet :=
  let r := SRules.noC s.rules
  let v := noCVars r.1 s.variables
  let n := noCNss v.1 s.namespaces
  let i := noCImps n.1 s.imports
  { charset := s.charset, lead := s.lead ++ i.1, imports := i.2, namespaces := n.2, variables := v.2, rules := r.2 }

/-- **dropping the comment tokens of a rendered sheet gives the rendering of the sheet without comments** -/
theorem strip_render (s : SSheet) : strip (render s) = render s.noC := by
  have h1 := strip_srules s.rules
  have h0 := strip_vars (SRules.noC s.rules).1 s.variables
  have h2 := strip_nss (noCVars (SRules.noC s.rules).1 s.variables).1 s.namespaces
  have h3 := strip_imps (noCNss (noCVars (SRules.noC s.rules).1 s.variables).1 s.namespaces).1 s.imports
  have hc : strip (charsetPart s.charset) = charsetPart s.charset := by
    cases s.charset with
    | none => rfl
    | some c => rfl
  simp only [render, SSheet.noC, strip_append, strip_wgap, hc, h1, wgap_toks_append]
  have e : strip [eofTok] = [eofTok] := rfl
  rw [e]
  congr 1
  simp only [List.append_assoc]
  congr 1
  rw [← List.append_assoc (strip (renderVars s.variables)), h0]
  simp only [List.append_assoc]
  rw [← List.append_assoc (strip (renderNss s.namespaces)), h2, ← List.append_assoc (strip (renderImps s.imports))]
  simp only [List.append_assoc]
  rw [← List.append_assoc (strip (renderImps s.imports)), h3]
  simp

/-! ### the abstract sheet without its comments -/

def eraseCItem : AItem → Option AItem
  | .comment _ => none
  | .unknown t => some (.unknown (strip t))
  | .decl n v p => some (.decl n v p)

def eraseCItems (l : List AItem) : List AItem := l.filterMap eraseCItem

mutual
def eraseCRule : ARule → Option ARule
  | .comment _ => none
  | .style sels items => some (.style sels (eraseCItems items))
  | .unknown t => some (.unknown (strip t))
  | .media mq n rules => some (.media mq n (eraseCRules rules))
  | .fontface items => some (.fontface (eraseCItems items))
  | .page n p items margins => some (.page n p (eraseCItems items) margins)
  | .import_ h mq n => some (.import_ h mq n)
  | .namespace_ p u => some (.namespace_ p u)
  | .charset e => some (.charset e)
  | .variables vs => some (.variables vs)
  | .other k => some (.other k)
/-- comment rules and comment items removed (and the comments inside unknown at-rules) -/
def eraseCRules : List ARule → List ARule
  | [] => []
  | r :: rs => (eraseCRule r).toList ++ eraseCRules rs
end

theorem eraseCRules_append (a b : List ARule) : eraseCRules (a ++ b) = eraseCRules a ++ eraseCRules b := by
  induction a with
  | nil => simp [eraseCRules]
  | cons r rs ih => simp [eraseCRules, ih]

theorem strip_strip (l : List Tok) : strip (strip l) = strip l := by simp [strip]

theorem squeeze_strip (l : List Tok) : squeeze (strip l) = squeeze l := by
  simp only [squeeze, strip, List.filter_filter]
  apply List.filter_congr
  intro t _
  simp only [isGapTok, notComment]
  cases t.typ <;> simp

theorem noCPrio_name (p : Option (Gap × Cps × Mask × Gap)) : (noCPrio p).map (·.2.1) = p.map (·.2.1) := by
  cases p with
  | none => rfl
  | some p => obtain ⟨a, b, c, d⟩ := p; rfl

theorem SDecl.noC_erase (d : SDecl) : d.noC.erase = d.erase := by
  simp [SDecl.erase, SDecl.noC, strip_strip, noCPrio_name]

theorem SDecl.noC_eraseSq (d : SDecl) : d.noC.eraseSq = d.eraseSq := by
  simp [SDecl.eraseSq, SDecl.noC, squeeze_strip, noCPrio_name]

theorem eraseCItems_cons (a : AItem) (l : List AItem) :
    eraseCItems (a :: l) = (eraseCItem a).toList ++ eraseCItems l := by
  simp only [eraseCItems, List.filterMap_cons]
  cases eraseCItem a <;> simp

theorem eraseCItem_decl (d : SDecl) : eraseCItem d.erase = some d.erase := rfl

theorem noCItems_erase (items : List (SItem × WGap)) :
    (noCItems items).2.filterMap (fun p => p.1.erase) = eraseCItems (items.filterMap (fun p => p.1.erase)) := by
  induction items with
  | nil => rfl
  | cons p rest ih =>
    obtain ⟨i, w⟩ := p
    cases i with
    | decl d =>
      have e1 : (SItem.decl d.noC).erase = some d.erase := by simp [SItem.erase, SDecl.noC_erase]
      have e2 : (SItem.decl d).erase = some d.erase := rfl
      simp only [noCItems, List.filterMap_cons, e1, e2, ih, eraseCItems_cons, eraseCItem_decl]
      rfl
    | comment b =>
      have e2 : (SItem.comment b).erase = some (.comment b) := rfl
      have e3 : eraseCItem (.comment b) = none := rfl
      simp only [noCItems, List.filterMap_cons, e2, ih, eraseCItems_cons, e3]
      rfl
    | unknown t =>
      have e1 : (SItem.unknown (strip t)).erase = some (.unknown (strip t)) := rfl
      have e2 : (SItem.unknown t).erase = some (.unknown t) := rfl
      have e3 : eraseCItem (.unknown t) = some (.unknown (strip t)) := rfl
      simp only [noCItems, List.filterMap_cons, e1, e2, ih, eraseCItems_cons, e3]
      rfl
    | semi =>
      have e2 : SItem.semi.erase = none := rfl
      simp only [noCItems, List.filterMap_cons, e2, ih]

theorem SBlock.noC_erase (b : SBlock) : b.noC.erase = eraseCItems b.erase := by
  simp only [SBlock.erase, SBlock.noC, noCItems_erase, eraseCItems, List.filterMap_append]
  congr 1
  cases b.last with
  | none => rfl
  | some d =>
    have := SDecl.noC_erase d
    simp only [Option.map_some, Option.toList_some, List.filterMap_cons, List.filterMap_nil, this, eraseCItem_decl]

theorem noCItems_eraseSq (items : List (SItem × WGap)) :
    (noCItems items).2.filterMap (fun p => p.1.eraseSq) = items.filterMap (fun p => p.1.eraseSq) := by
  induction items with
  | nil => rfl
  | cons p rest ih =>
    obtain ⟨i, w⟩ := p
    cases i with
    | decl d =>
      have e1 : (SItem.decl d.noC).eraseSq = some d.eraseSq := by simp [SItem.eraseSq, SDecl.noC_eraseSq]
      have e2 : (SItem.decl d).eraseSq = some d.eraseSq := rfl
      simp only [noCItems, List.filterMap_cons, e1, e2, ih]
    | comment b =>
      have e2 : (SItem.comment b).eraseSq = none := rfl
      simp only [noCItems, List.filterMap_cons, e2, ih]
    | unknown t =>
      have e1 : (SItem.unknown (strip t)).eraseSq = none := rfl
      have e2 : (SItem.unknown t).eraseSq = none := rfl
      simp only [noCItems, List.filterMap_cons, e1, e2, ih]
    | semi =>
      have e2 : SItem.semi.eraseSq = none := rfl
      simp only [noCItems, List.filterMap_cons, e2, ih]

theorem SBlock.noC_eraseSq (b : SBlock) : b.noC.eraseSq = b.eraseSq := by
  simp only [SBlock.eraseSq, SBlock.noC, noCItems_eraseSq]
  congr 1
  cases b.last <;> simp [SDecl.noC_eraseSq]

theorem SSel.noC_erase (s : SSel) : s.noC.erase = s.erase := by
  simp only [SSel.erase, SSel.noC, strip_strip, List.cons.injEq, true_and]
  induction s.more with
  | nil => rfl
  | cons p rest ih => obtain ⟨a, c, b⟩ := p; simp [noCMore, strip_strip, ih]

theorem noCPageItems_eraseItems (items : List (SPageItem × WGap)) :
    (noCPageItems items).2.filterMap (fun p => p.1.eraseItem) = eraseCItems (items.filterMap (fun p => p.1.eraseItem)) := by
  induction items with
  | nil => rfl
  | cons p rest ih =>
    obtain ⟨i, w⟩ := p
    cases i with
    | item it =>
      cases it with
      | decl d =>
        have e1 : (SPageItem.item (.decl d.noC)).eraseItem = some d.erase := by
          simp [SPageItem.eraseItem, SItem.erase, SDecl.noC_erase]
        have e2 : (SPageItem.item (.decl d)).eraseItem = some d.erase := rfl
        simp only [noCPageItems, List.filterMap_cons, e1, e2, ih, eraseCItems_cons, eraseCItem_decl]
        rfl
      | comment b =>
        have e2 : (SPageItem.item (.comment b)).eraseItem = some (.comment b) := rfl
        have e3 : eraseCItem (.comment b) = none := rfl
        simp only [noCPageItems, List.filterMap_cons, e2, ih, eraseCItems_cons, e3]
        rfl
      | unknown t =>
        have e1 : (SPageItem.item (.unknown (strip t))).eraseItem = some (.unknown (strip t)) := rfl
        have e2 : (SPageItem.item (.unknown t)).eraseItem = some (.unknown t) := rfl
        have e3 : eraseCItem (.unknown t) = some (.unknown (strip t)) := rfl
        simp only [noCPageItems, List.filterMap_cons, e1, e2, ih, eraseCItems_cons, e3]
        rfl
      | semi =>
        have e2 : (SPageItem.item .semi).eraseItem = none := rfl
        simp only [noCPageItems, List.filterMap_cons, e2, ih]
    | margin n kw g b =>
      have e1 : (SPageItem.margin n kw g.noC b.noC).eraseItem = none := rfl
      have e2 : (SPageItem.margin n kw g b).eraseItem = none := rfl
      simp only [noCPageItems, List.filterMap_cons, e1, e2, ih]

theorem noCPageItems_eraseMargins (items : List (SPageItem × WGap)) :
    (noCPageItems items).2.filterMap (fun p => p.1.eraseMargin) = items.filterMap (fun p => p.1.eraseMargin) := by
  induction items with
  | nil => rfl
  | cons p rest ih =>
    obtain ⟨i, w⟩ := p
    cases i with
    | item it =>
      have e2 : (SPageItem.item it).eraseMargin = none := rfl
      cases it with
      | decl d =>
        have e1 : (SPageItem.item (.decl d.noC)).eraseMargin = none := rfl
        simp only [noCPageItems, List.filterMap_cons, e1, e2, ih]
      | comment b => simp only [noCPageItems, List.filterMap_cons, e2, ih]
      | unknown t =>
        have e1 : (SPageItem.item (.unknown (strip t))).eraseMargin = none := rfl
        simp only [noCPageItems, List.filterMap_cons, e1, e2, ih]
      | semi => simp only [noCPageItems, List.filterMap_cons, e2, ih]
    | margin n kw g b =>
      have e1 : (SPageItem.margin n kw g.noC b.noC).eraseMargin = some ⟨0x40 :: n, b.eraseSq⟩ := by
        simp [SPageItem.eraseMargin, SBlock.noC_eraseSq]
      have e2 : (SPageItem.margin n kw g b).eraseMargin = some ⟨0x40 :: n, b.eraseSq⟩ := rfl
      simp only [noCPageItems, List.filterMap_cons, e1, e2, ih]

mutual
theorem SRule.noC_erase : ∀ (r : SRule), (∀ b, r ≠ .comment b) → eraseCRule r.erase = some r.noC.erase
  | .comment b, h => absurd rfl (h b)
  | .style sel blk, _ => by simp [SRule.erase, SRule.noC, eraseCRule, SSel.noC_erase, SBlock.noC_erase]
  | .unknown t, _ => by simp [SRule.erase, SRule.noC, eraseCRule]
  | .media kw g1 mq g2 name lead rules, _ => by
    simp [SRule.erase, SRule.noC, eraseCRule, strip_strip, SRules.noC_erase rules, SName.noC_value]
  | .fontface kw g1 blk, _ => by simp [SRule.erase, SRule.noC, eraseCRule, SBlock.noC_erase]
  | .page kw g0 sel g1 blk, _ => by
    simp only [SRule.erase, SRule.noC, eraseCRule, SPageSel.noC, SPageBlock.eraseItems, SPageBlock.eraseMargins,
      SPageBlock.noC, noCPageItems_eraseItems, noCPageItems_eraseMargins, eraseCItems, List.filterMap_append]
    congr 3
    cases blk.last with
    | none => rfl
    | some d =>
      have := SDecl.noC_erase d
      simp only [Option.map_some, Option.toList_some, List.filterMap_cons, List.filterMap_nil, this, eraseCItem_decl]
theorem SRules.noC_erase : ∀ (rs : SRules), (SRules.noC rs).2.erase = eraseCRules rs.erase
  | .nil => rfl
  | .cons (.comment b) w rest => by
    simp [SRules.noC, SRules.erase, SRule.erase, eraseCRules, eraseCRule, SRules.noC_erase rest]
  | .cons (.style sel blk) w rest => by
    simp only [SRules.noC, SRules.erase, eraseCRules, SRule.noC_erase (.style sel blk) (by simp), SRules.noC_erase rest]
    simp
  | .cons (.unknown t) w rest => by
    simp only [SRules.noC, SRules.erase, eraseCRules, SRule.noC_erase (.unknown t) (by simp), SRules.noC_erase rest]
    simp
  | .cons (.media kw g1 mq g2 name lead rules) w rest => by
    simp only [SRules.noC, SRules.erase, eraseCRules, SRule.noC_erase (.media kw g1 mq g2 name lead rules) (by simp),
      SRules.noC_erase rest]
    simp
  | .cons (.fontface kw g1 blk) w rest => by
    simp only [SRules.noC, SRules.erase, eraseCRules, SRule.noC_erase (.fontface kw g1 blk) (by simp),
      SRules.noC_erase rest]
    simp
  | .cons (.page kw g0 sel g1 blk) w rest => by
    simp only [SRules.noC, SRules.erase, eraseCRules, SRule.noC_erase (.page kw g0 sel g1 blk) (by simp),
      SRules.noC_erase rest]
    simp
end

theorem eraseCRules_map {α : Type} (l : List α) (f : α → ARule) :
    eraseCRules (l.map f) = l.flatMap (fun x => (eraseCRule (f x)).toList) := by
  induction l with
  | nil => rfl
  | cons x xs ih => simp [eraseCRules, ih]

theorem eraseCRules_cons (r : ARule) (rs : List ARule) :
    eraseCRules (r :: rs) = (eraseCRule r).toList ++ eraseCRules rs := by simp [eraseCRules]

theorem noCImps_erase (tail : WGap) (l : List (SImp × WGap)) :
    (noCImps tail l).2.map (·.1.erase) = eraseCRules (l.map (·.1.erase)) := by
  induction l with
  | nil => rfl
  | cons p rest ih =>
    obtain ⟨i, w⟩ := p
    cases i with
    | comment b =>
      have e2 : (SImp.comment b).erase = .comment b := rfl
      have e3 : eraseCRule (.comment b) = none := by simp [eraseCRule]
      simp only [noCImps, List.map_cons, e2, eraseCRules_cons, e3, ih]
      rfl
    | unknown t =>
      have e1 : (SImp.noC (.unknown t)).erase = .unknown (strip t) := rfl
      have e2 : (SImp.unknown t).erase = .unknown t := rfl
      have e3 : eraseCRule (.unknown t) = some (.unknown (strip t)) := by simp [eraseCRule]
      simp only [noCImps, List.map_cons, e1, e2, eraseCRules_cons, e3, ih]
      rfl
    | import_ kw g1 href g2 mq name =>
      have e1 : (SImp.noC (.import_ kw g1 href g2 mq name)).erase = (SImp.import_ kw g1 href g2 mq name).erase := by
        cases mq <;> simp [SImp.noC, SImp.erase, strip_strip, SName.noC_value]
      have e3 : eraseCRule (SImp.import_ kw g1 href g2 mq name).erase = some (SImp.import_ kw g1 href g2 mq name).erase := by
        simp [SImp.erase, eraseCRule]
      simp only [noCImps, List.map_cons, e1, eraseCRules_cons, e3, ih]
      rfl

theorem noCNss_erase (tail : WGap) (l : List (SNs × WGap)) :
    (noCNss tail l).2.map (·.1.erase) = eraseCRules (l.map (·.1.erase)) := by
  induction l with
  | nil => rfl
  | cons p rest ih =>
    obtain ⟨i, w⟩ := p
    cases i with
    | comment b =>
      have e2 : (SNs.comment b).erase = .comment b := rfl
      have e3 : eraseCRule (.comment b) = none := by simp [eraseCRule]
      simp only [noCNss, List.map_cons, e2, eraseCRules_cons, e3, ih]
      rfl
    | unknown t =>
      have e1 : (SNs.noC (.unknown t)).erase = .unknown (strip t) := rfl
      have e2 : (SNs.unknown t).erase = .unknown t := rfl
      have e3 : eraseCRule (.unknown t) = some (.unknown (strip t)) := by simp [eraseCRule]
      simp only [noCNss, List.map_cons, e1, e2, eraseCRules_cons, e3, ih]
      rfl
    | namespace_ kw g1 pfx uri g2 =>
      have e1 : (SNs.noC (.namespace_ kw g1 pfx uri g2)).erase = (SNs.namespace_ kw g1 pfx uri g2).erase := by
        cases pfx <;> simp [SNs.noC, SNs.erase]
      have e3 : eraseCRule (SNs.namespace_ kw g1 pfx uri g2).erase = some (SNs.namespace_ kw g1 pfx uri g2).erase := by
        simp [SNs.erase, eraseCRule]
      simp only [noCNss, List.map_cons, e1, eraseCRules_cons, e3, ih]
      rfl

theorem SVarBlock.noC_erase (b : SVarBlock) : b.noC.erase = b.erase := by
  have e : (b.noC.items.map (fun p => p.1.erase) ++ (b.noC.last.map SVarDecl.erase).toList) =
      (b.items.map (fun p => p.1.erase) ++ (b.last.map SVarDecl.erase).toList) := by
    simp only [SVarBlock.noC, List.map_map]
    congr 1
    · apply List.map_congr_left
      intro p _
      simp [SVarDecl.erase, SVarDecl.noC, strip_strip]
    · cases b.last <;> simp [SVarDecl.erase, SVarDecl.noC, strip_strip]
  simp only [SVarBlock.erase, e]

theorem noCVars_erase (tail : WGap) (l : List (SVar × WGap)) :
    (noCVars tail l).2.map (·.1.erase) = eraseCRules (l.map (·.1.erase)) := by
  induction l with
  | nil => rfl
  | cons p rest ih =>
    obtain ⟨i, w⟩ := p
    cases i with
    | comment b =>
      have e2 : (SVar.comment b).erase = .comment b := rfl
      have e3 : eraseCRule (.comment b) = none := by simp [eraseCRule]
      simp only [noCVars, List.map_cons, e2, eraseCRules_cons, e3, ih]
      rfl
    | unknown t =>
      have e1 : (SVar.noC (.unknown t)).erase = .unknown (strip t) := rfl
      have e2 : (SVar.unknown t).erase = .unknown t := rfl
      have e3 : eraseCRule (.unknown t) = some (.unknown (strip t)) := by simp [eraseCRule]
      simp only [noCVars, List.map_cons, e1, e2, eraseCRules_cons, e3, ih]
      rfl
    | variables kw g0 blk =>
      have e1 : (SVar.noC (.variables kw g0 blk)).erase = (SVar.variables kw g0 blk).erase := by
        simp [SVar.noC, SVar.erase, SVarBlock.noC_erase]
      have e3 : eraseCRule (SVar.variables kw g0 blk).erase = some (SVar.variables kw g0 blk).erase := by
        simp [SVar.erase, eraseCRule]
      simp only [noCVars, List.map_cons, e1, eraseCRules_cons, e3, ih]
      rfl

/-- the sheet without comments denotes the abstract sheet without comments -/
theorem SSheet.noC_erase (s : SSheet) : s.noC.erase = eraseCRules s.erase := by
  simp only [SSheet.erase, SSheet.noC, eraseCRules_append, noCImps_erase, noCNss_erase, noCVars_erase,
    SRules.noC_erase]
  congr 4
  cases s.charset <;> simp [eraseCRules, eraseCRule]

end CssVerif.SheetSpec
