import CssVerif.Lemmas.SheetCanon
/-!
# Lemmas for C03 (sheet level): the serializer's spelling of a well-formed sheet is well formed

`s.WF O M` (the hypothesis of C02's `parse_render`) is kept by `canon`, given (1) `HrefSafe s`: import targets and
namespace URIs hold no backslash (the content level: `helper.string` / `helper.uri` do not escape one, see `SafeStr`),
and (2) `Accepts O (canon s)`: the sub-parsers accept the selectors, values and media queries as the serializer writes
them (with the blanks and comments it puts around them) — the business of C16 / C17 / C18.
-/
namespace CssVerif.SheetCanon
open CssVerif.Proto (Cps)
open CssVerif.Struct CssVerif.SheetSpec CssVerif.AtRules
set_option linter.unusedSimpArgs false
set_option linter.unusedVariables false

/-! ## what the oracle is asked -/

def declAcc (O : Oracle) (d : SDecl) : Prop := O.valueOk (Gap.toks d.g2 ++ (d.value ++ Gap.toks d.g3)) = true

def itemAcc (O : Oracle) : SItem → Prop
  | .decl d => declAcc O d
  | _ => True

def blockAcc (O : Oracle) (b : SBlock) : Prop :=
  (∀ p ∈ b.items, itemAcc O p.1) ∧ ∀ d, b.last = some d → declAcc O d

def pageItemAcc (O : Oracle) : SPageItem → Prop
  | .item i => itemAcc O i
  | .margin .. => True

def pageBlockAcc (O : Oracle) (b : SPageBlock) : Prop :=
  (∀ p ∈ b.items, pageItemAcc O p.1) ∧ ∀ d, b.last = some d → declAcc O d

mutual
def ruleAcc (O : Oracle) (ns : List (Cps × Cps)) : SRule → Prop
  | .comment _ => True
  | .style sel blk => O.selOk ns sel.toks = true ∧ blockAcc O blk
  | .unknown _ => True
  | .media _ g1 mq g2 _ _ rules => O.mediaOk (mediaHead g1 mq g2) = true ∧ rulesAcc O ns rules
  | .fontface _ _ blk => blockAcc O blk
  | .page _ _ _ _ blk => pageBlockAcc O blk
def rulesAcc (O : Oracle) (ns : List (Cps × Cps)) : SRules → Prop
  | .nil => True
  | .cons r _ rest => ruleAcc O ns r ∧ rulesAcc O ns rest
end

def impAcc (O : Oracle) : SImp → Prop
  | .import_ _ _ _ _ (some p) _ => O.mediaOk (p.1 ++ Gap.toks p.2) = true
  | _ => True

def varDeclAcc (O : Oracle) (d : SVarDecl) : Prop := O.valueOk (d.value ++ Gap.toks d.g3) = true

def varAcc (O : Oracle) : SVar → Prop
  | .variables _ _ blk => (∀ p ∈ blk.items, varDeclAcc O p.1) ∧ ∀ d, blk.last = some d → varDeclAcc O d
  | _ => True

/-- the oracle accepts every selector group list, value and media query list of `t` as written, and the `@charset` rule -/
structure Accepts (O : Oracle) (t : SSheet) : Prop where
  charset : ∀ c, t.charset = some c → O.atOk .charsetSym false (charsetToks c) = true
  imports : ∀ p ∈ t.imports, impAcc O p.1
  variables : ∀ p ∈ t.variables, varAcc O p.1
  rules : rulesAcc O (nsPairs t.namespaces) t.rules

def impSafe : SImp → Prop
  | .import_ _ _ href _ _ _ => 0x5C ∉ href.value
  | _ => True

def nsSafe : SNs → Prop
  | .namespace_ _ _ _ uri _ => 0x5C ∉ uri.value
  | _ => True

/-- import targets and namespace URIs without a backslash -/
structure HrefSafe (s : SSheet) : Prop where
  imports : ∀ p ∈ s.imports, impSafe p.1
  namespaces : ∀ p ∈ s.namespaces, nsSafe p.1

/-! ## declarations, items, blocks -/

theorem canonDecl_wf (O : Oracle) (c : Option Ws) (d : SDecl) (h : d.WF O) (ha : declAcc O (canonDecl c d)) :
    (canonDecl c d).WF O := by
  refine ⟨h.name, h.value, ?_, ha⟩
  intro p hp
  cases hd : d.prio with
  | none => simp [canonDecl, hd] at hp
  | some q =>
    obtain ⟨g4, n, m, g5⟩ := q
    simp only [canonDecl, hd, Option.some.injEq] at hp
    subst hp
    exact h.prio (g4, n, m, g5) hd

theorem canonItem_wf (O : Oracle) (i : SItem) (h : i.WF O) (ha : itemAcc O (canonItem i)) : (canonItem i).WF O := by
  cases i with
  | decl d => exact canonDecl_wf O none d h ha
  | comment b => trivial
  | unknown t => exact h
  | semi => trivial

/-- the result of `layItems` as a block body -/
abbrev laidWF (O : Oracle) (r : List (SItem × WGap) × Option SDecl) : Prop :=
  (∀ p ∈ r.1, p.1.WF O) ∧ ∀ d, r.2 = some d → d.WF O
abbrev laidAcc (O : Oracle) (r : List (SItem × WGap) × Option SDecl) : Prop :=
  (∀ p ∈ r.1, itemAcc O p.1) ∧ ∀ d, r.2 = some d → declAcc O d

theorem layItems_wf (O : Oracle) (om : Bool) (lv : Nat) : (l : List SItem) → (∀ i ∈ l, i.WF O) →
    laidAcc O (layItems om lv l) → laidWF O (layItems om lv l)
  | [], _, _ => ⟨(by intro p hp; cases hp), (by intro d hd; cases hd)⟩
  | [i], h, ha => by
    have hi := h i (by simp)
    cases om <;> cases i <;> simp only [layItems] at ha ⊢
    all_goals first
      | (refine ⟨?_, (by intro d hd; cases hd)⟩
         intro p hp
         simp only [List.mem_singleton] at hp
         subst hp
         exact canonItem_wf O _ hi (ha.1 _ (List.mem_singleton.mpr rfl)))
      | (refine ⟨(by intro p hp; cases hp), ?_⟩
         intro d hd
         simp only [Option.some.injEq] at hd
         subst hd
         exact canonDecl_wf O _ _ hi (ha.2 _ rfl))
  | i :: j :: rest, h, ha => by
    have hi := h i (by simp)
    simp only [layItems] at ha ⊢
    have ih := layItems_wf O om lv (j :: rest) (fun x hx => h x (by simp [hx]))
      ⟨fun p hp => ha.1 p (by simp [hp]), ha.2⟩
    refine ⟨?_, ih.2⟩
    intro p hp
    simp only [List.mem_cons] at hp
    rcases hp with rfl | hp
    · exact canonItem_wf O _ hi (ha.1 (canonItem i, [nl lv]) (by simp))
    · exact ih.1 p hp

theorem keptItems_mem (items : List (SItem × WGap)) (i : SItem) (hi : i ∈ keptItems items) :
    ∃ w, (i, w) ∈ items := by
  induction items with
  | nil => cases hi
  | cons p rest ih =>
    obtain ⟨j, w⟩ := p
    cases j <;> simp only [keptItems, List.mem_cons] at hi
    all_goals first
      | (rcases hi with rfl | hi
         · exact ⟨w, by simp⟩
         · obtain ⟨w', hw⟩ := ih hi; exact ⟨w', by simp [hw]⟩)
      | (obtain ⟨w', hw⟩ := ih hi; exact ⟨w', by simp [hw]⟩)

theorem realItems_wf (O : Oracle) (b : SBlock) (h : b.WF O) : ∀ i ∈ realItems b, i.WF O := by
  intro i hi
  simp only [realItems, List.mem_append] at hi
  rcases hi with hi | hi
  · obtain ⟨w, hw⟩ := keptItems_mem _ _ hi
    exact h.items _ hw
  · cases hb : b.last with
    | none => simp [hb] at hi
    | some d => simp [hb] at hi; subst hi; exact h.last d hb

theorem canonBlock_wf (O : Oracle) (lv : Nat) (b : SBlock) (h : b.WF O) (ha : blockAcc O (canonBlock lv b)) :
    (canonBlock lv b).WF O := by
  have := layItems_wf O true lv (realItems b) (realItems_wf O b h) ha
  exact ⟨this.1, this.2⟩

/-! ## selectors -/

theorem canonMore_mem (m : List (Gap × List Tok × Gap)) (p : Gap × List Tok × Gap) (hp : p ∈ canonMore m) :
    ∃ q ∈ m, p.2.1 = q.2.1 := by
  induction m with
  | nil => cases hp
  | cons q rest ih =>
    obtain ⟨a, c, b⟩ := q
    simp only [canonMore, List.mem_cons] at hp
    rcases hp with rfl | hp
    · exact ⟨(a, c, b), by simp, rfl⟩
    · obtain ⟨q', hq', e⟩ := ih hp; exact ⟨q', by simp [hq'], e⟩

theorem canonSel_wf (s : SSel) (h : s.WF) : (canonSel s).WF := by
  refine ⟨h.first, h.start, ?_⟩
  intro p hp
  obtain ⟨q, hq, e⟩ := canonMore_mem _ _ hp
  rw [e]; exact h.more q hq

/-! ## targets, `@import`, `@namespace` -/

theorem forbMatch_false {h : Cps} (hf : StrCodec.forbMatch h = false) : ∀ c ∈ h, StrCodec.isForb c = false := by
  induction h with
  | nil => intro c hc; cases hc
  | cons x t ih =>
    simp only [StrCodec.forbMatch] at hf
    split at hf
    · cases hf
    · rename_i hx
      intro c hc
      simp only [List.mem_cons] at hc
      rcases hc with rfl | hc
      · simpa using hx
      · exact ih hf c hc

theorem notForb_plain {x : Nat} (h : StrCodec.isForb x = false) : isWsCp x = false ∧ x ≠ 0x22 ∧ x ≠ 0x27 := by
  refine ⟨?_, ?_, ?_⟩
  · cases hw : isWsCp x with
    | false => rfl
    | true =>
      simp only [isWsCp, Bool.or_eq_true, decide_eq_true_eq] at hw
      rcases hw with (((rfl | rfl) | rfl) | rfl) | rfl <;> revert h <;> decide
  · rintro rfl; revert h; decide
  · rintro rfl; revert h; decide

theorem canonHref_wf (r : SHref) (hs : 0x5C ∉ r.value) : (canonHref r).WF := by
  cases r with
  | str q h => exact hs
  | url up pre post q h =>
    simp only [canonHref]
    cases hf : StrCodec.forbMatch h with
    | true => exact hs
    | false =>
      have hall := forbMatch_false hf
      refine ⟨?_, ?_⟩
      · intro x hx
        cases h with
        | nil => cases hx
        | cons y t => simp only [List.head?_cons, Option.some.injEq] at hx; subst hx; exact notForb_plain (hall _ (by simp))
      · intro x hx
        obtain ⟨ys, rfl⟩ := List.getLast?_eq_some_iff.mp hx
        exact (notForb_plain (hall _ (by simp))).1

theorem canonName_wf (tail : Gap) (name : SName) (h : NameWF name) : NameWF (canonName tail name) := by
  intro p hp
  cases name with
  | none => cases hp
  | some q =>
    obtain ⟨qq, n, g⟩ := q
    cases n with
    | nil => simp [canonName] at hp
    | cons c t =>
      simp only [canonName, List.isEmpty_cons, Bool.false_eq_true, ↓reduceIte, Option.some.injEq] at hp
      subst hp
      exact h (qq, c :: t, g) rfl

theorem canonImp_wf (O : Oracle) (M : List Cps) (r : SImp) (h : r.WF O M) (hs : impSafe r) (ha : impAcc O (canonImp r)) :
    (canonImp r).WF O M := by
  cases r with
  | comment b => trivial
  | unknown t => exact h
  | import_ kw g1 href g2 mq name =>
    have h : ImportWF O href mq name := h
    refine (⟨canonHref_wf href hs, by rw [canonHref_value]; exact h.ne, ?_, canonName_wf [] name h.nameWF⟩ :
      ImportWF O _ _ _)
    intro p hp
    cases mq with
    | none => cases hp
    | some q =>
      simp only [Option.map_some, Option.some.injEq] at hp
      subst hp
      exact ⟨(h.mqWF q rfl).1, ha⟩

theorem canonNs_wf (M : List Cps) (r : SNs) (h : r.WF M) (hs : nsSafe r) : (canonNs r).WF M := by
  cases r with
  | comment b => trivial
  | unknown t => exact h
  | namespace_ kw g1 pfx uri g2 =>
    have h : NsWF pfx uri := h
    have hs : (0x5C : Nat) ∉ uri.value := hs
    refine (⟨(show (canonNsUri uri).WF from hs), ?_⟩ : NsWF _ (canonNsUri uri))
    intro p hp
    cases pfx with
    | none => cases hp
    | some q =>
      simp only [Option.map_some, Option.some.injEq] at hp
      subst hp
      exact h.pfxOk q rfl

theorem layStmts_mem {α : Type} (f : α → α) (more : Bool) (l : List (α × WGap)) (p : α × WGap)
    (hp : p ∈ layStmts f more l) : ∃ q ∈ l, p.1 = f q.1 := by
  induction l with
  | nil => cases hp
  | cons q rest ih =>
    obtain ⟨r, w⟩ := q
    simp only [layStmts, List.mem_cons] at hp
    rcases hp with rfl | hp
    · exact ⟨(r, w), by simp, rfl⟩
    · obtain ⟨q', hq', e⟩ := ih hp; exact ⟨q', by simp [hq'], e⟩

theorem canonNs_pair (r : SNs) : (canonNs r).pair = r.pair := by
  cases r with
  | comment b => rfl
  | unknown t => rfl
  | namespace_ kw g1 pfx uri g2 => cases pfx <;> simp [canonNs, SNs.pair, canonNsUri, SHref.value]

theorem nsPairs_layStmts (more : Bool) (l : List (SNs × WGap)) : nsPairs (layStmts canonNs more l) = nsPairs l := by
  induction l with
  | nil => rfl
  | cons q rest ih =>
    obtain ⟨r, w⟩ := q
    simp only [nsPairs, layStmts, List.filterMap_cons, canonNs_pair] at ih ⊢
    rw [ih]

/-! ## token predicates that the layout tokens satisfy -/

/-- a predicate on tokens that holds for white space, comments, `;` `:` `!` and identifiers that start with a
non-delimiter -/
structure TokP (P : Tok → Prop) : Prop where
  gap : ∀ g : GapTok, P g.tok
  semi : P semiTok
  colon : P colonTok
  bang : P bangTok
  ident : ∀ v, SafeVal v → P (identTok v)

theorem TokP.gaps {P : Tok → Prop} (hP : TokP P) (g : Gap) : ∀ t ∈ Gap.toks g, P t := by
  intro t ht
  simp only [Gap.toks, List.mem_map] at ht
  obtain ⟨x, _, rfl⟩ := ht
  exact hP.gap x

theorem TokP.wgaps {P : Tok → Prop} (hP : TokP P) (w : WGap) : ∀ t ∈ WGap.toks w, P t := by
  intro t ht
  simp only [WGap.toks, List.mem_map] at ht
  obtain ⟨x, _, rfl⟩ := ht
  exact hP.gap (.ws x)

theorem notKw_tokP (M : List Cps) : TokP (fun t => isMarginKw M t = false) := by
  refine ⟨?_, by simp [isMarginKw, semiTok, charTok], by simp [isMarginKw, colonTok, charTok],
    by simp [isMarginKw, bangTok, charTok], by intro v _; simp [isMarginKw, identTok]⟩
  intro g; cases g <;> simp [isMarginKw, GapTok.tok, Ws.tok, commentTok]

theorem marginSafe_tokP : TokP marginSafe := by
  refine ⟨?_, by simp [marginSafe, semiTok, charTok, vRBrace], by simp [marginSafe, colonTok, charTok, vRBrace],
    by simp [marginSafe, bangTok, charTok, vRBrace], ?_⟩
  · intro g
    cases g with
    | ws w =>
      refine ⟨by simp [GapTok.tok, Ws.tok], by simp [GapTok.tok, Ws.tok], by simp [GapTok.tok, Ws.tok], ?_⟩
      obtain ⟨c, cs⟩ := w
      cases c <;> simp [GapTok.tok, Ws.tok, WsChar.cp, vRBrace]
    | cm b => simp [marginSafe, GapTok.tok, commentTok, commentVal, vRBrace]
  · intro v hv
    obtain ⟨c, cs, rfl, hc⟩ := hv
    refine ⟨by simp [identTok], by simp [identTok], by simp [identTok], ?_⟩
    simp only [identTok, vRBrace, ne_eq, List.cons.injEq, not_and]
    intro h; subst h; simp [delims] at hc

/-- the tokens of a written declaration satisfy `P` when the value tokens do -/
theorem canonDecl_toks {P : Tok → Prop} (hP : TokP P) (c : Option Ws) (d : SDecl) (hn : NameOk d.name)
    (hp : ∀ p, d.prio = some p → NameOk p.2.1) (hv : ∀ t ∈ d.value, P t) : ∀ t ∈ (canonDecl c d).toks, P t := by
  intro t ht
  simp only [SDecl.toks, List.mem_cons, List.mem_append] at ht
  rcases ht with rfl | ht | rfl | ht | ht | ht | ht
  · exact hP.ident _ (spell_safe _ _ hn)
  · exact hP.gaps _ t ht
  · exact hP.colon
  · exact hP.gaps _ t ht
  · exact hv t ht
  · exact hP.gaps _ t ht
  · cases hd : d.prio with
    | none => simp [canonDecl, hd, renderPrio] at ht
    | some q =>
      obtain ⟨g4, n, m, g5⟩ := q
      simp only [canonDecl, hd, renderPrio, List.mem_cons, List.mem_append] at ht
      rcases ht with rfl | ht | rfl | ht
      · exact hP.bang
      · exact hP.gaps _ t ht
      · exact hP.ident _ (spell_safe _ _ (hp _ hd))
      · exact hP.gaps _ t ht

theorem value_mem_toks (d : SDecl) : ∀ t ∈ d.value, t ∈ d.toks := by
  intro t ht
  simp only [SDecl.toks, List.mem_cons, List.mem_append]
  exact Or.inr (Or.inr (Or.inr (Or.inr (Or.inl ht))))

/-- all tokens of a written item satisfy `P` -/
def ItemP (P : Tok → Prop) : SItem → Prop
  | .decl d => ∀ c, ∀ t ∈ (canonDecl c d).toks, P t
  | .comment _ => True
  | .unknown ts => ∀ t ∈ ts, P t
  | .semi => True

theorem canonItem_toks {P : Tok → Prop} (hP : TokP P) (i : SItem) (h : ItemP P i) : ∀ t ∈ (canonItem i).toks, P t := by
  cases i with
  | decl d =>
    intro t ht
    simp only [canonItem, SItem.toks, List.mem_append, List.mem_singleton] at ht
    rcases ht with ht | rfl
    · exact h none t ht
    · exact hP.semi
  | comment b => intro t ht; simp only [canonItem, SItem.toks, List.mem_singleton] at ht; subst ht; exact hP.gap (.cm b)
  | unknown ts => exact h
  | semi => intro t ht; simp only [canonItem, SItem.toks, List.mem_singleton] at ht; subst ht; exact hP.semi

theorem layItems_toks {P : Tok → Prop} (hP : TokP P) (om : Bool) (lv : Nat) : (l : List SItem) →
    (∀ i ∈ l, ItemP P i) →
    ∀ t ∈ renderItems (layItems om lv l).1 ++ renderLast (layItems om lv l).2, P t
  | [], _ => by intro t ht; simp [layItems, renderItems, renderLast] at ht
  | [i], h => by
    have hi := h i (by simp)
    intro t ht
    cases om <;> cases i <;> simp only [layItems, renderItems, renderLast, List.append_nil, List.nil_append,
      List.mem_append] at ht
    all_goals first
      | exact hi _ t ht
      | (rcases ht with ht | ht
         · exact canonItem_toks hP _ hi t ht
         · exact hP.wgaps _ t ht)
  | i :: j :: rest, h => by
    have hi := h i (by simp)
    have ih := layItems_toks hP om lv (j :: rest) (fun x hx => h x (by simp [hx]))
    intro t ht
    simp only [layItems, renderItems, List.append_assoc, List.mem_append] at ht ih
    rcases ht with ht | ht | ht
    · exact canonItem_toks hP _ hi t ht
    · exact hP.wgaps _ t ht
    · exact ih t (by simpa [List.mem_append] using ht)

/-- the shape of what `layItems` returns -/
theorem layItems_shape (om : Bool) (lv : Nat) : (l : List SItem) →
    (∀ p ∈ (layItems om lv l).1, ∃ i ∈ l, p.1 = canonItem i) ∧
    (∀ d, (layItems om lv l).2 = some d → ∃ d0, SItem.decl d0 ∈ l ∧ d = canonDecl (some (nl lv)) d0)
  | [] => ⟨(by intro p hp; cases hp), (by intro d hd; cases hd)⟩
  | [i] => by
    cases om <;> cases i <;> simp [layItems]
  | i :: j :: rest => by
    have ih := layItems_shape om lv (j :: rest)
    simp only [layItems]
    refine ⟨?_, ?_⟩
    · intro p hp
      simp only [List.mem_cons] at hp
      rcases hp with rfl | hp
      · exact ⟨i, by simp, rfl⟩
      · obtain ⟨x, hx, e⟩ := ih.1 p hp
        exact ⟨x, List.mem_cons_of_mem _ hx, e⟩
    · intro d hd
      obtain ⟨d0, h0, e⟩ := ih.2 d hd
      exact ⟨d0, List.mem_cons_of_mem _ h0, e⟩

/-! ## margin boxes -/

/-- tokens typed S or COMMENT are no brackets (a tokenizer invariant: white space and `/*…*/`; the abstract token type
does not enforce it inside opaque parts) -/
def TidyL (l : List Tok) : Prop := ∀ t ∈ l, isGapTok t = true → t.br = .no

theorem TidyL.mono {a b : List Tok} (h : TidyL b) (hab : ∀ t ∈ a, t ∈ b) : TidyL a := fun t ht => h t (hab t ht)

theorem nest_squeeze (l : List Tok) (h : TidyL l) (stk : List K) : nest stk (squeeze l) = nest stk l := by
  induction l generalizing stk with
  | nil => rfl
  | cons t ts ih =>
    have ih' := ih (fun x hx => h x (by simp [hx]))
    by_cases hg : isGapTok t = true
    · rw [squeeze_cons_drop _ _ hg]
      simp only [nest, push, h t (by simp) hg]
      exact ih' stk
    · have hg' : isGapTok t = false := by simpa using hg
      rw [squeeze_cons_keep _ _ hg']
      simp only [nest]
      cases push stk t with
      | none => rfl
      | some s => exact ih' s

theorem tidy_tokP : TokP (fun t => isGapTok t = true → t.br = .no) := by
  refine ⟨?_, by simp [isGapTok, semiTok, charTok], by simp [isGapTok, colonTok, charTok],
    by simp [isGapTok, bangTok, charTok], by intro v _; simp [isGapTok, identTok]⟩
  intro g _
  exact (gapTok_flat .default g).2.1

/-- `d` is a declaration of the block -/
def srcDecl (b : SBlock) (d : SDecl) : Prop := (∃ w, (SItem.decl d, w) ∈ b.items) ∨ b.last = some d

theorem keptDecls_mem (items : List (SItem × WGap)) (i : SItem) (hi : i ∈ keptDecls items) :
    ∃ d0 w, (SItem.decl d0, w) ∈ items ∧ i = .decl (bareDecl d0) := by
  induction items with
  | nil => cases hi
  | cons p rest ih =>
    obtain ⟨j, w⟩ := p
    cases j with
    | decl d =>
      simp only [keptDecls, List.mem_cons] at hi
      rcases hi with rfl | hi
      · exact ⟨d, w, by simp, rfl⟩
      · obtain ⟨d0, w', hw, e⟩ := ih hi; exact ⟨d0, w', by simp [hw], e⟩
    | comment b => obtain ⟨d0, w', hw, e⟩ := ih (by simpa [keptDecls] using hi); exact ⟨d0, w', by simp [hw], e⟩
    | unknown t => obtain ⟨d0, w', hw, e⟩ := ih (by simpa [keptDecls] using hi); exact ⟨d0, w', by simp [hw], e⟩
    | semi => obtain ⟨d0, w', hw, e⟩ := ih (by simpa [keptDecls] using hi); exact ⟨d0, w', by simp [hw], e⟩

theorem marginItems_src (b : SBlock) :
    ∀ i ∈ keptDecls b.items ++ (b.last.map fun d => SItem.decl (bareDecl d)).toList,
      ∃ d0, srcDecl b d0 ∧ i = .decl (bareDecl d0) := by
  intro i hi
  simp only [List.mem_append] at hi
  rcases hi with hi | hi
  · obtain ⟨d0, w, hw, e⟩ := keptDecls_mem _ _ hi
    exact ⟨d0, Or.inl ⟨w, hw⟩, e⟩
  · cases hb : b.last with
    | none => simp [hb] at hi
    | some d => simp [hb] at hi; exact ⟨d, Or.inr hb, hi⟩

theorem sqItems_mem (items : List (SItem × WGap)) (d : SDecl) (w : WGap) (h : (SItem.decl d, w) ∈ items) :
    (SItem.decl (sqDecl d), ([] : WGap)) ∈ sqItems items := by
  induction items with
  | nil => cases h
  | cons p rest ih =>
    obtain ⟨j, w'⟩ := p
    simp only [List.mem_cons] at h
    rcases h with h | h
    · cases h; simp [sqItems]
    · cases j <;> simp [sqItems, ih h]

theorem srcDecl_sq (O : Oracle) (b : SBlock) (h : (sqBlock b).WF O) (d0 : SDecl) (hs : srcDecl b d0) :
    (sqDecl d0).WF O := by
  rcases hs with ⟨w, hw⟩ | hl
  · exact h.items _ (sqItems_mem _ _ _ hw)
  · exact h.last _ (by simp [sqBlock, hl])

theorem renderItems_mem (items : List (SItem × WGap)) (i : SItem) (w : WGap) (h : (i, w) ∈ items) :
    ∀ t ∈ i.toks, t ∈ renderItems items := by
  induction items with
  | nil => cases h
  | cons p rest ih =>
    obtain ⟨j, w'⟩ := p
    intro t ht
    simp only [List.mem_cons] at h
    simp only [renderItems, List.mem_append]
    rcases h with h | h
    · cases h; exact Or.inl ht
    · exact Or.inr (Or.inr (ih h t ht))

theorem srcDecl_toks (b : SBlock) (d0 : SDecl) (hs : srcDecl b d0) : ∀ t ∈ d0.toks, t ∈ b.toks := by
  intro t ht
  simp only [SBlock.toks, List.mem_append]
  rcases hs with ⟨w, hw⟩ | hl
  · exact Or.inr (Or.inl (renderItems_mem _ _ _ hw t (by simp [SItem.toks, ht])))
  · exact Or.inr (Or.inr (by simp [hl, renderLast, ht]))

theorem strip_mem (v : List Tok) : ∀ t ∈ strip v, t ∈ v := by
  intro t ht; exact (List.mem_filter.mp ht).1

theorem sq_canon_bare_wf (O : Oracle) (c : Option Ws) (d0 : SDecl) (h : (sqDecl d0).WF O) :
    (sqDecl (canonDecl c (bareDecl d0))).WF O := by
  refine ⟨h.name, ?_, ?_, ?_⟩
  · have := h.value
    simp only [sqDecl, canonDecl, bareDecl, squeeze_strip] at this ⊢
    exact this
  · intro p hp
    cases hd : d0.prio with
    | none => simp [sqDecl, canonDecl, bareDecl, hd, sqPrio] at hp
    | some q =>
      obtain ⟨g4, n, m, g5⟩ := q
      simp only [sqDecl, canonDecl, bareDecl, hd, sqPrio, Option.some.injEq] at hp
      subst hp
      exact h.prio ([], n, m, []) (by simp [sqDecl, hd, sqPrio])
  · have := h.accepts
    simp only [sqDecl, canonDecl, bareDecl, squeeze_strip] at this ⊢
    exact this

theorem bareDecl_itemP {P : Tok → Prop} (hP : TokP P) (O : Oracle) (d0 : SDecl) (h : (sqDecl d0).WF O)
    (hv : ∀ t ∈ d0.value, P t) : ItemP P (.decl (bareDecl d0)) := by
  intro c
  refine canonDecl_toks hP c (bareDecl d0) h.name ?_ (fun t ht => hv t (strip_mem _ t ht))
  intro p hp
  cases hd : d0.prio with
  | none => simp [bareDecl, hd] at hp
  | some q =>
    obtain ⟨g4, n, m, g5⟩ := q
    simp only [bareDecl, hd, Option.some.injEq] at hp
    subst hp
    exact h.prio ([], n, m, []) (by simp [sqDecl, hd, sqPrio])

theorem canonMarginBlock_wf (O : Oracle) (M : List Cps) (n : Cps) (lv : Nat) (b : SBlock) (h : MarginWF O M n b)
    (ht : TidyL b.toks) : MarginWF O M n (canonMarginBlock lv b) := by
  have hsrc := marginItems_src b
  have hshape := layItems_shape true lv (keptDecls b.items ++ (b.last.map fun d => SItem.decl (bareDecl d)).toList)
  -- every token of the written block satisfies a layout predicate that the value tokens satisfy
  have htoks : ∀ {P : Tok → Prop}, TokP P → (∀ d0, srcDecl b d0 → ∀ t ∈ d0.value, P t) →
      ∀ t ∈ (canonMarginBlock lv b).toks, P t := by
    intro P hP hv t ht
    simp only [canonMarginBlock, SBlock.toks, List.mem_append] at ht
    rcases ht with ht | ht
    · exact hP.wgaps _ t ht
    · refine layItems_toks hP true lv _ ?_ t (by simpa [List.mem_append] using ht)
      intro i hi
      obtain ⟨d0, hs, rfl⟩ := hsrc i hi
      exact bareDecl_itemP hP O d0 (srcDecl_sq O b h.sqWF d0 hs) (hv d0 hs)
  have hsafe : ∀ t ∈ (canonMarginBlock lv b).toks, marginSafe t :=
    htoks marginSafe_tokP (fun d0 hs t ht => h.safe t (srcDecl_toks b d0 hs t (value_mem_toks d0 t ht)))
  have hnoU : noUnknownItems (canonMarginBlock lv b).items := by
    intro p hp t
    obtain ⟨i, hi, e⟩ := hshape.1 p hp
    obtain ⟨d0, _, rfl⟩ := hsrc i hi
    rw [e]; simp [canonItem]
  have hsq : (sqBlock (canonMarginBlock lv b)).WF O := by
    refine ⟨?_, ?_⟩
    · intro q hq
      -- an item of `sqItems` of the laid-out items
      have : ∀ (l : List (SItem × WGap)), (∀ p ∈ l, ∃ d0, srcDecl b d0 ∧ p.1 = .decl (canonDecl none (bareDecl d0))) →
          ∀ q ∈ sqItems l, q.1.WF O := by
        intro l
        induction l with
        | nil => intro _ q hq; cases hq
        | cons p rest ih =>
          intro hl q hq
          obtain ⟨d0, hs, e⟩ := hl p (by simp)
          obtain ⟨pi, pw⟩ := p
          simp only at e
          subst e
          simp only [sqItems, List.mem_cons] at hq
          rcases hq with rfl | hq
          · exact sq_canon_bare_wf O none d0 (srcDecl_sq O b h.sqWF d0 hs)
          · exact ih (fun x hx => hl x (by simp [hx])) q hq
      refine this _ ?_ q hq
      intro p hp
      obtain ⟨i, hi, e⟩ := hshape.1 p hp
      obtain ⟨d0, hs, rfl⟩ := hsrc i hi
      exact ⟨d0, hs, e⟩
    · intro d hd
      simp only [sqBlock, canonMarginBlock, Option.map_eq_some_iff] at hd
      obtain ⟨d', hd', rfl⟩ := hd
      obtain ⟨d1, h1, rfl⟩ := hshape.2 d' hd'
      obtain ⟨d0, hs, e⟩ := hsrc _ h1
      cases e
      exact sq_canon_bare_wf O _ d0 (srcDecl_sq O b h.sqWF d0 hs)
  refine ⟨h.name, h.inTable, hsafe, hnoU, hsq, ?_, ?_⟩
  · have htidy : TidyL (canonMarginBlock lv b).toks :=
      htoks tidy_tokP (fun d0 hs t ht' => ht t (srcDecl_toks b d0 hs t (value_mem_toks d0 t ht')))
    rw [← nest_squeeze _ htidy, squeeze_block _ hnoU]
    exact (SBlock.bal O _ hsq).1
  · exact noEof_of _ (fun t ht' => (hsafe t ht').2.1)

/-! ## `@page` -/

theorem pagePlain_mem (items : List (SPageItem × WGap)) (i : SItem) (hi : i ∈ pagePlain items) :
    ∃ w, (SPageItem.item i, w) ∈ items := by
  induction items with
  | nil => cases hi
  | cons p rest ih =>
    obtain ⟨j, w⟩ := p
    cases j with
    | margin n kw g b => obtain ⟨w', hw⟩ := ih (by simpa [pagePlain] using hi); exact ⟨w', by simp [hw]⟩
    | item it =>
      cases it <;> simp only [pagePlain, List.mem_cons] at hi
      all_goals first
        | (rcases hi with rfl | hi
           · exact ⟨w, by simp⟩
           · obtain ⟨w', hw⟩ := ih hi; exact ⟨w', by simp [hw]⟩)
        | (obtain ⟨w', hw⟩ := ih hi; exact ⟨w', by simp [hw]⟩)

theorem pageMargins_mem (lv : Nat) (items : List (SPageItem × WGap)) (p : SPageItem × WGap)
    (hp : p ∈ pageMargins lv items) :
    ∃ n kw g b w, (SPageItem.margin n kw g b, w) ∈ items ∧
      p.1 = .margin n [] [.ws sp] (canonMarginBlock (lv + 1) b) := by
  induction items with
  | nil => cases hp
  | cons q rest ih =>
    obtain ⟨j, w⟩ := q
    cases j with
    | item it =>
      obtain ⟨n, kw, g, b, w', hw, e⟩ := ih (by simpa [pageMargins] using hp)
      exact ⟨n, kw, g, b, w', by simp [hw], e⟩
    | margin n kw g b =>
      simp only [pageMargins, List.mem_cons] at hp
      rcases hp with rfl | hp
      · exact ⟨n, kw, g, b, w, by simp, rfl⟩
      · obtain ⟨n', kw', g', b', w', hw, e⟩ := ih hp
        exact ⟨n', kw', g', b', w', by simp [hw], e⟩

theorem asPageItems_mem (l : List (SItem × WGap)) (p : SPageItem × WGap) (hp : p ∈ asPageItems l) :
    ∃ i w, (i, w) ∈ l ∧ p = (.item i, w) := by
  induction l with
  | nil => cases hp
  | cons q rest ih =>
    obtain ⟨j, w⟩ := q
    simp only [asPageItems, List.mem_cons] at hp
    rcases hp with rfl | hp
    · exact ⟨j, w, by simp, rfl⟩
    · obtain ⟨i, w', hw, e⟩ := ih hp; exact ⟨i, w', by simp [hw], e⟩

theorem mem_asPageItems (l : List (SItem × WGap)) (i : SItem) (w : WGap) (h : (i, w) ∈ l) :
    (SPageItem.item i, w) ∈ asPageItems l := by
  induction l with
  | nil => cases h
  | cons q rest ih =>
    obtain ⟨j, w'⟩ := q
    simp only [List.mem_cons] at h
    rcases h with h | h
    · cases h; simp [asPageItems]
    · simp [asPageItems, ih h]

theorem marginNames_append (a b : List (SPageItem × WGap)) : marginNames (a ++ b) = marginNames a ++ marginNames b := by
  induction a with
  | nil => rfl
  | cons p rest ih => obtain ⟨i, w⟩ := p; cases i <;> simp [marginNames, ih]

theorem marginNames_asPageItems (l : List (SItem × WGap)) : marginNames (asPageItems l) = [] := by
  induction l with
  | nil => rfl
  | cons p rest ih => obtain ⟨i, w⟩ := p; simp [asPageItems, marginNames, ih]

theorem marginNames_pageMargins (lv : Nat) (l : List (SPageItem × WGap)) : marginNames (pageMargins lv l) = marginNames l := by
  induction l with
  | nil => rfl
  | cons p rest ih => obtain ⟨i, w⟩ := p; cases i <;> simp [pageMargins, marginNames, ih]

theorem renderPageItems_mem (items : List (SPageItem × WGap)) (i : SPageItem) (w : WGap) (h : (i, w) ∈ items) :
    ∀ t ∈ i.toks, t ∈ renderPageItems items := by
  induction items with
  | nil => cases h
  | cons p rest ih =>
    obtain ⟨j, w'⟩ := p
    intro t ht
    simp only [List.mem_cons] at h
    simp only [renderPageItems, List.mem_append]
    rcases h with h | h
    · cases h; exact Or.inl ht
    · exact Or.inr (Or.inr (ih h t ht))

theorem itemP_of_src {P : Tok → Prop} (hP : TokP P) (O : Oracle) (i : SItem) (hw : i.WF O) (ht : ∀ t ∈ i.toks, P t) :
    ItemP P i := by
  cases i with
  | decl d =>
    intro c
    have hw : d.WF O := hw
    exact canonDecl_toks hP c d hw.name hw.prio
      (fun t h => ht t (by simp only [SItem.toks, List.mem_append]; exact Or.inl (value_mem_toks d t h)))
  | comment b => trivial
  | unknown ts => exact ht
  | semi => trivial

theorem canonPageBlock_wf (O : Oracle) (M : List Cps) (lv : Nat) (sel : SPageSel) (blk : SPageBlock)
    (h : PageWF O M sel blk) (ha : pageBlockAcc O (canonPageBlock lv blk)) (ht : TidyL blk.toks) :
    PageWF O M (canonPageSel sel) (canonPageBlock lv blk) := by
  -- the plain items of the source
  have hplain : ∀ i ∈ pagePlain blk.items ++ (blk.last.map SItem.decl).toList,
      i.WF O ∧ ∀ t ∈ i.toks, isMarginKw M t = false := by
    intro i hi
    simp only [List.mem_append] at hi
    rcases hi with hi | hi
    · obtain ⟨w, hw⟩ := pagePlain_mem _ _ hi
      exact h.itemsWF _ hw
    · cases hb : blk.last with
      | none => simp [hb] at hi
      | some d =>
        simp [hb] at hi; subst hi
        refine ⟨(h.lastWF d hb).1, ?_⟩
        intro t ht'
        simp only [SItem.toks, List.mem_append, List.mem_singleton] at ht'
        rcases ht' with ht' | rfl
        · exact (h.lastWF d hb).2 t ht'
        · exact (notKw_tokP M).semi
  have hacc : laidAcc O (layItems (pageMargins lv blk.items).isEmpty lv
      (pagePlain blk.items ++ (blk.last.map SItem.decl).toList)) := by
    refine ⟨?_, ha.2⟩
    intro p hp
    exact ha.1 (.item p.1, p.2) (List.mem_append_left _ (mem_asPageItems _ _ _ hp))
  have hwf := layItems_wf O (pageMargins lv blk.items).isEmpty lv _ (fun i hi => (hplain i hi).1) hacc
  have hshape := layItems_shape (pageMargins lv blk.items).isEmpty lv
    (pagePlain blk.items ++ (blk.last.map SItem.decl).toList)
  have hitemP : ∀ i ∈ pagePlain blk.items ++ (blk.last.map SItem.decl).toList,
      ItemP (fun t => isMarginKw M t = false) i :=
    fun i hi => itemP_of_src (notKw_tokP M) O i (hplain i hi).1 (hplain i hi).2
  refine ⟨⟨h.selWF.nameOk, ?_⟩, ?_, ?_, ?_⟩
  · intro p hp
    rcases h.selWF.pseudoOk p hp with h1 | ⟨_, h2, h3⟩
    · exact Or.inl h1
    · exact Or.inr ⟨rfl, h2, h3⟩
  · intro p hp
    simp only [canonPageBlock, List.mem_append] at hp
    rcases hp with hp | hp
    · obtain ⟨i, w, hw, rfl⟩ := asPageItems_mem _ _ hp
      refine ⟨hwf.1 _ hw, ?_⟩
      obtain ⟨i0, hi0, e⟩ := hshape.1 _ hw
      simp only at e
      rw [e]
      exact canonItem_toks (notKw_tokP M) i0 (hitemP i0 hi0)
    · obtain ⟨n, kw, g, b, w, hw, e⟩ := pageMargins_mem _ _ _ hp
      rw [e]
      have hm : MarginWF O M n b := h.itemsWF _ hw
      refine canonMarginBlock_wf O M n (lv + 1) b hm (ht.mono ?_)
      intro t ht'
      simp only [SPageBlock.toks, List.mem_append]
      refine Or.inr (Or.inl (renderPageItems_mem _ _ _ hw t ?_))
      simp only [SPageItem.toks, List.mem_cons, List.mem_append]
      exact Or.inr (Or.inr (Or.inr (Or.inl ht')))
  · intro d hd
    refine ⟨hwf.2 d hd, ?_⟩
    obtain ⟨d0, h0, rfl⟩ := hshape.2 d hd
    exact hitemP _ h0 _
  · simp only [canonPageBlock, marginNames_append, marginNames_asPageItems, marginNames_pageMargins, List.nil_append]
    exact h.distinct

/-! ## rules, the sheet -/

mutual
theorem canonRule_wf (O : Oracle) (M : List Cps) (ns : List (Cps × Cps)) (im : Bool) (lv : Nat) :
    (r : SRule) → r.WF O M ns im → ruleAcc O ns (canonRule lv r) → TidyL r.toks → (canonRule lv r).WF O M ns im
  | .comment b, _, _, _ => by simp only [canonRule]; trivial
  | .style sel blk, h, ha, _ => by
    have h : StyleWF O ns sel blk := h
    have ha : O.selOk ns (canonSel sel).toks = true ∧ blockAcc O (canonBlock (lv + 1) blk) := ha
    exact (⟨canonSel_wf sel h.selWF, canonBlock_wf O _ blk h.blkWF ha.2, ha.1⟩ : StyleWF O ns _ _)
  | .unknown t, h, _, _ => h
  | .media kw g1 mq g2 name lead rules, h, ha, ht => by
    have h : MqOk mq ∧ O.mediaOk (mediaHead g1 mq g2) = true ∧ rules.WF O M ns true ∧ NameWF name := h
    have ha : O.mediaOk (mediaHead (gLead g1) mq (gTrail g2 [.ws sp])) = true ∧
        rulesAcc O ns (canonRules (lv + 1) true rules) := ha
    have hsub : TidyL rules.toks := ht.mono (by
      intro t ht'
      simp only [SRule.toks, List.mem_cons, List.mem_append]
      exact Or.inr (Or.inr (Or.inr (Or.inr (Or.inr (Or.inr (Or.inr (Or.inl ht'))))))))
    exact (⟨h.1, ha.1, canonRules_wf O M ns true (lv + 1) true rules h.2.2.1 ha.2 hsub, canonName_wf _ name h.2.2.2⟩ :
      MqOk mq ∧ O.mediaOk (mediaHead (gLead g1) mq (gTrail g2 [.ws sp])) = true ∧
        (canonRules (lv + 1) true rules).WF O M ns true ∧ NameWF (canonName [.ws sp] name))
  | .fontface kw g1 blk, h, ha, _ => by
    have h : im = false ∧ blk.WF O := h
    have ha : blockAcc O (canonBlock (lv + 1) blk) := ha
    exact (⟨h.1, canonBlock_wf O _ blk h.2 ha⟩ : im = false ∧ (canonBlock (lv + 1) blk).WF O)
  | .page kw g0 sel g1 blk, h, ha, ht => by
    have h : PageWF O M sel blk := h
    have ha : pageBlockAcc O (canonPageBlock (lv + 1) blk) := ha
    have hsub : TidyL blk.toks := ht.mono (by
      intro t ht'
      simp only [SRule.toks, List.mem_cons, List.mem_append]
      exact Or.inr (Or.inr (Or.inr (Or.inr (Or.inr (Or.inl ht'))))))
    exact (canonPageBlock_wf O M (lv + 1) sel blk h ha hsub : PageWF O M _ _)
theorem canonRules_wf (O : Oracle) (M : List Cps) (ns : List (Cps × Cps)) (im : Bool) (lv : Nat) (inner : Bool) :
    (rs : SRules) → rs.WF O M ns im → rulesAcc O ns (canonRules lv inner rs) → TidyL rs.toks →
      (canonRules lv inner rs).WF O M ns im
  | .nil, _, _, _ => by simp only [canonRules]; trivial
  | .cons r w rest, h, ha, ht => by
    have h : r.WF O M ns im ∧ rest.WF O M ns im := h
    have ha : ruleAcc O ns (canonRule lv r) ∧ rulesAcc O ns (canonRules lv inner rest) := ha
    have h1 : TidyL r.toks := ht.mono (by
      intro t ht'; simp only [SRules.toks, List.mem_append]; exact Or.inl ht')
    have h2 : TidyL rest.toks := ht.mono (by
      intro t ht'; simp only [SRules.toks, List.mem_append]; exact Or.inr (Or.inr ht'))
    exact (⟨canonRule_wf O M ns im lv r h.1 ha.1 h1, canonRules_wf O M ns im lv inner rest h.2 ha.2 h2⟩ :
      (canonRule lv r).WF O M ns im ∧ (canonRules lv inner rest).WF O M ns im)
end

/-! ## `@variables` -/

theorem layVarItems_shape (lv : Nat) : (l : List SVarDecl) →
    (∀ p ∈ (layVarItems lv l).1, ∃ d0 ∈ l, p.1 = canonVarDecl none d0) ∧
    (∀ d, (layVarItems lv l).2 = some d → ∃ d0 ∈ l, d = canonVarDecl (some (nl lv)) d0)
  | [] => ⟨(by intro p hp; cases hp), (by intro d hd; cases hd)⟩
  | [d] => by simp [layVarItems]
  | d :: e :: rest => by
    have ih := layVarItems_shape lv (e :: rest)
    simp only [layVarItems]
    refine ⟨?_, ?_⟩
    · intro p hp
      simp only [List.mem_cons] at hp
      rcases hp with rfl | hp
      · exact ⟨d, by simp, rfl⟩
      · obtain ⟨x, hx, e'⟩ := ih.1 p hp
        exact ⟨x, List.mem_cons_of_mem _ hx, e'⟩
    · intro d' hd
      obtain ⟨d0, h0, e'⟩ := ih.2 d' hd
      exact ⟨d0, List.mem_cons_of_mem _ h0, e'⟩

theorem canonVarDecl_wf (O : Oracle) (c : Option Ws) (d : SVarDecl) (h : d.WF O) (ha : varDeclAcc O (canonVarDecl c d)) :
    (canonVarDecl c d).WF O := ⟨h.name, h.value, h.head, ha⟩

theorem varDecls_wf (O : Oracle) (b : SVarBlock) (h : b.WF O) : ∀ d ∈ varDecls b, d.WF O := by
  intro d hd
  simp only [varDecls, List.mem_append, List.mem_map] at hd
  rcases hd with ⟨p, hp, rfl⟩ | hd
  · exact h.items p hp
  · cases hb : b.last with
    | none => simp [hb] at hd
    | some d' => simp [hb] at hd; subst hd; exact h.last _ hb

theorem canonVar_wf (O : Oracle) (M : List Cps) (r : SVar) (h : r.WF O M) (ha : varAcc O (canonVar r)) :
    (canonVar r).WF O M := by
  cases r with
  | comment b => trivial
  | unknown t => exact h
  | variables kw g0 blk =>
    have h : blk.WF O := h
    have ha : (∀ p ∈ (canonVarBlock 1 blk).items, varDeclAcc O p.1) ∧
        ∀ d, (canonVarBlock 1 blk).last = some d → varDeclAcc O d := ha
    have hs := layVarItems_shape 1 (varDecls blk)
    refine (⟨?_, ?_⟩ : (canonVarBlock 1 blk).WF O)
    · intro p hp
      obtain ⟨d0, h0, e⟩ := hs.1 p hp
      have := ha.1 p hp
      rw [e] at this ⊢
      exact canonVarDecl_wf O none d0 (varDecls_wf O blk h d0 h0) this
    · intro d hd
      obtain ⟨d0, h0, e⟩ := hs.2 d hd
      have := ha.2 d hd
      rw [e] at this ⊢
      exact canonVarDecl_wf O _ d0 (varDecls_wf O blk h d0 h0) this

theorem canonV_wf (O : Oracle) (M : List Cps) (s : SSheet) (h : s.WF O M) (hs : HrefSafe s)
    (ha : Accepts O (canonV s)) (ht : TidyL (render s)) : (canonV s).WF O M := by
  have hns : nsPairs (canonV s).namespaces = nsPairs s.namespaces := nsPairs_layStmts _ _
  refine ⟨?_, ?_, ?_, ?_, ?_, ?_, ?_⟩
  · intro c hc
    cases hcs : s.charset with
    | none => simp [canonV, hcs] at hc
    | some c0 =>
      have e : c = (Quote.dq, c0.2) := by simp [canonV, hcs] at hc; exact hc.symm
      exact ⟨by rw [e]; exact (h.charsetOk c0 hcs).1, ha.charset c hc⟩
  · intro p hp
    obtain ⟨q, hq, e⟩ := layStmts_mem _ _ _ p hp
    have := ha.imports p hp
    rw [e] at this ⊢
    exact canonImp_wf O M q.1 (h.importsOk q hq) (hs.imports q hq) this
  · intro p hp
    obtain ⟨q, hq, e⟩ := layStmts_mem _ _ _ p hp
    rw [e]
    exact canonNs_wf M q.1 (h.namespacesOk q hq) (hs.namespaces q hq)
  · rw [hns]; exact h.prefixes
  · rw [hns]; exact h.uris
  · intro p hp
    obtain ⟨q, hq, e⟩ := layStmts_mem _ _ _ p hp
    have := ha.variables p hp
    rw [e] at this ⊢
    exact canonVar_wf O M q.1 (h.variablesOk q hq) this
  · rw [hns]
    have har := ha.rules
    rw [hns] at har
    refine canonRules_wf O M _ false 0 false s.rules h.rulesOk har (ht.mono ?_)
    intro t ht'
    simp only [render, List.mem_append]
    exact Or.inr (Or.inr (Or.inr (Or.inr (Or.inr (Or.inl ht')))))

/-! ## an oracle that accepts everything accepts every sheet (non-vacuity of `Accepts`) -/

theorem blockAcc_of_yes (O : Oracle) (hv : ∀ l, O.valueOk l = true) (b : SBlock) : blockAcc O b := by
  refine ⟨?_, fun d _ => hv _⟩
  intro p _
  cases p.1 <;> first | exact hv _ | trivial

theorem pageBlockAcc_of_yes (O : Oracle) (hv : ∀ l, O.valueOk l = true) (b : SPageBlock) : pageBlockAcc O b := by
  refine ⟨?_, fun d _ => hv _⟩
  intro p _
  cases p.1 with
  | margin n kw g blk => trivial
  | item i => cases i <;> first | exact hv _ | trivial

mutual
theorem ruleAcc_of_yes (O : Oracle) (hv : ∀ l, O.valueOk l = true) (hsel : ∀ ns l, O.selOk ns l = true)
    (hm : ∀ l, O.mediaOk l = true) (ns : List (Cps × Cps)) : (r : SRule) → ruleAcc O ns r
  | .comment _ => trivial
  | .style sel blk => ⟨hsel _ _, blockAcc_of_yes O hv blk⟩
  | .unknown _ => trivial
  | .media _ g1 mq g2 _ _ rules => ⟨hm _, rulesAcc_of_yes O hv hsel hm ns rules⟩
  | .fontface _ _ blk => blockAcc_of_yes O hv blk
  | .page _ _ _ _ blk => pageBlockAcc_of_yes O hv blk
theorem rulesAcc_of_yes (O : Oracle) (hv : ∀ l, O.valueOk l = true) (hsel : ∀ ns l, O.selOk ns l = true)
    (hm : ∀ l, O.mediaOk l = true) (ns : List (Cps × Cps)) : (rs : SRules) → rulesAcc O ns rs
  | .nil => trivial
  | .cons r _ rest => ⟨ruleAcc_of_yes O hv hsel hm ns r, rulesAcc_of_yes O hv hsel hm ns rest⟩
end

theorem accepts_of_yes (O : Oracle) (hv : ∀ l, O.valueOk l = true) (hsel : ∀ ns l, O.selOk ns l = true)
    (hm : ∀ l, O.mediaOk l = true) (hc : ∀ l, O.atOk .charsetSym false l = true) (t : SSheet) : Accepts O t := by
  refine ⟨fun c _ => hc _, ?_, ?_, rulesAcc_of_yes O hv hsel hm _ _⟩
  · intro p _
    cases p.1 with
    | comment b => trivial
    | unknown ts => trivial
    | import_ kw g1 href g2 mq name => cases mq <;> first | exact hm _ | trivial
  · intro p _
    cases p.1 with
    | comment b => trivial
    | unknown ts => trivial
    | variables kw g0 blk => exact ⟨fun _ _ => hv _, fun _ _ => hv _⟩

end CssVerif.SheetCanon
