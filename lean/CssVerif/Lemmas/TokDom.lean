import CssVerif.Model.ParseAll
import CssVerif.Lemmas.Tok
/-!
# What the tokenizer guarantees about its tokens (the domains of the selector machine and of the dispatcher)

* a CHAR token is one character (`fastChars`, or the one-character class of the CHAR production);
* a STRING token keeps its opening quote (the STRING / INVALID productions start with `"` or `'`, and the one-pass
  decoding `stringsub` leaves a character that is not a backslash alone);
* the type names are the tokenizer's (`knownTypes`, `EOF`) — none of the names synthesised by `_prepare_tokens`;
* the number of loop iterations is at most the number of code points (+ BOM, `@charset `, EOF).
-/
namespace CssVerif.TokDom
open CssVerif CssVerif.Tok CssVerif.Gen.C05

/-! ## a match of a production that starts with a quote -/

def isQuote (c : Nat) : Bool := c == 34 || c == 39

/-- every match of `r` starts with a character satisfying `p` (sufficient syntactic check) -/
def startsIn (p : Nat → Bool) : Re → Bool
  | .cls false rs => rs.all fun ab => ab.1 == ab.2 && p ab.1
  | .seq a _ => startsIn p a
  | .alt a b => startsIn p a && startsIn p b
  | _ => false

theorem startsIn_sound (p : Nat → Bool) : ∀ (r : Re), startsIn p r = true → ∀ s, r.ms s ≠ [] →
    ∃ c t, s = c :: t ∧ p c = true := by
  intro r
  induction r with
  | eps => intro h; simp [startsIn] at h
  | cls neg rs =>
    intro h s hs
    cases neg with
    | true => simp [startsIn] at h
    | false =>
      simp only [startsIn, List.all_eq_true, Bool.and_eq_true, beq_iff_eq] at h
      cases s with
      | nil => simp [Re.ms] at hs
      | cons c t =>
        refine ⟨c, t, rfl, ?_⟩
        simp only [Re.ms] at hs
        split at hs
        · rename_i hin
          simp only [Re.inCls, bne_iff_ne, ne_eq, Bool.not_eq_false, List.any_eq_true, Bool.and_eq_true,
            decide_eq_true_eq] at hin
          obtain ⟨ab, hab, h1, h2⟩ := hin
          obtain ⟨he, hp⟩ := h ab hab
          have : c = ab.1 := by omega
          rw [this]; exact hp
        · exact absurd rfl hs
  | seq a b iha _ =>
    intro h s hs
    simp only [startsIn] at h
    apply iha h s
    intro ha
    simp [Re.ms, ha] at hs
  | alt a b iha ihb =>
    intro h s hs
    simp only [startsIn, Bool.and_eq_true] at h
    simp only [Re.ms, ne_eq, List.append_eq_nil_iff] at hs
    by_cases ha : a.ms s = []
    · exact ihb h.2 s (fun hb => hs ⟨ha, hb⟩)
    · exact iha h.1 s ha
  | star a g _ => intro h; simp [startsIn] at h
  | rep a m n g _ => intro h; simp [startsIn] at h
  | eol => intro h; simp [startsIn] at h

theorem first_quote (r : Re) (h : startsIn isQuote r = true) (s : Cps) (l : Nat) (hf : r.first s = some l) :
    ∃ c t, s = c :: t ∧ isQuote c = true := by
  apply startsIn_sound isQuote r h s
  intro hn
  simp [Re.first, hn] at hf

/-- which production a name stands for -/
theorem prod_char : ∀ p ∈ productions, p.1 = "CHAR" → p.2 = reCHAR := by decide
theorem prod_quote : ∀ p ∈ productions, p.1 = "STRING" ∨ p.1 = "INVALID" → startsIn isQuote p.2 = true := by decide


theorem atkeywords_names : ∀ p ∈ atkeywords, p.2 ≠ "CHAR" ∧ p.2 ≠ "STRING" := by decide

/-- `valueOf` renames only an ATKEYWORD -/
theorem valueOf_char (s : Cps) (name : String) (found : Cps) (x : NVF) (h : valueOf s name found = some x)
    (hx : x.name = "CHAR") : name = "CHAR" ∧ x.value = found := by
  unfold valueOf at h
  split at h
  · rename_i hu
    split at h
    · split at h
      · cases h
      · cases h; simp only at hx; subst hx; exact absurd hu (by decide)
    · split at h
      · cases h
      · cases h; simp only at hx; subst hx; exact absurd hu (by decide)
  · split at h
    · split at h
      · cases h
      · split at h
        · rename_i sym hl
          cases h; simp only at hx
          exact absurd hx (atkeywords_names _ (lookup_mem _ _ _ hl)).1
        · split at h
          · cases h; exact absurd hx (show ¬ charsetSym = "CHAR" by decide)
          · cases h; exact absurd hx (show ¬ "ATKEYWORD" = "CHAR" by decide)
    · cases h; exact ⟨hx, rfl⟩

theorem valueOf_string (s : Cps) (name : String) (found : Cps) (x : NVF) (h : valueOf s name found = some x)
    (hx : x.name = "STRING") : name = "STRING" ∧ x.value = stringValue found := by
  unfold valueOf at h
  split at h
  · rename_i hu
    split at h
    · simp only [subS_eq_stringValue, Option.some.injEq] at h
      cases h; exact ⟨hx, rfl⟩
    · rename_i hcl
      split at h
      · cases h
      · cases h; simp only at hx; subst hx; exact absurd hcl (by decide)
  · rename_i hu
    split at h
    · split at h
      · cases h
      · split at h
        · rename_i sym hl
          cases h; simp only at hx
          exact absurd hx (atkeywords_names _ (lookup_mem _ _ _ hl)).2
        · split at h
          · cases h; exact absurd hx (show ¬ charsetSym = "STRING" by decide)
          · cases h; exact absurd hx (show ¬ "ATKEYWORD" = "STRING" by decide)
    · cases h; simp only at hx; subst hx; exact absurd hu (by decide)

theorem complete_char (full : Bool) (s : Cps) (name : String) (found : Cps) (nf : NF)
    (h : complete full s name found = some nf) (hn : nf.name = "CHAR") : name = "CHAR" ∧ nf.found = found := by
  rcases complete_name full s name found nf h with h1 | ⟨_, h2 | h2⟩
  · exact ⟨h1.1 ▸ hn, h1.2⟩
  · rw [h2] at hn; exact absurd hn (by decide)
  · rw [h2] at hn; exact absurd hn (by decide)

theorem complete_string (full : Bool) (s : Cps) (name : String) (found : Cps) (nf : NF)
    (h : complete full s name found = some nf) (hn : nf.name = "STRING") :
    (name = "STRING" ∧ nf.found = found) ∨ (name = "INVALID" ∧ ∃ q r, found = q :: r ∧ nf.found = found ++ [q]) := by
  unfold complete at h
  split at h
  · split at h
    · rename_i hi
      simp only [Bool.and_eq_true, beq_iff_eq] at hi
      cases found with
      | nil => simp at h
      | cons q rest =>
        simp only [Option.some.injEq] at h; subst h
        exact Or.inr ⟨hi.1, q, rest, rfl, rfl⟩
    · split at h
      · split at h
        · cases h
        · split at h
          · split at h
            · cases h; exact absurd hn (show ¬ "URI" = "STRING" by decide)
            · cases h; exact Or.inl ⟨hn, rfl⟩
          · cases h; exact Or.inl ⟨hn, rfl⟩
      · cases h; exact Or.inl ⟨hn, rfl⟩
  · cases h; exact Or.inl ⟨hn, rfl⟩

theorem stringValue_quote (c : Nat) (t : Cps) (h : isQuote c = true) : stringValue (c :: t) ≠ [] := by
  have : c ≠ 92 := by
    rintro rfl; exact absurd h (by decide)
  have hs : stringValue (c :: t) = c :: stringValue t := by
    show stringValueF (t.length + 1) (c :: t) = _
    simp only [stringValueF, this, ne_eq, not_false_eq_true, if_true]
    rfl
  rw [hs]; simp

/-- per-item facts the sub-parsers rely on -/
def ItemDom (it : Item) : Prop :=
  (it.typ = "CHAR" → it.value.length = 1) ∧ (it.typ = "STRING" → it.value ≠ [])

theorem loop_dom (full doC : Bool) (fuel : Nat) (s : Cps) (line col : Nat) :
    ∀ it ∈ (loop full doC fuel s line col).items, ItemDom it := by
  fun_induction loop full doC fuel s line col
  case case1 => intro it h; cases h
  case case2 => intro it h; cases h
  case case3 c t line col hfast ih =>
    intro it h
    simp only [Res.cons, List.mem_cons] at h
    rcases h with rfl | h
    · exact ⟨fun _ => rfl, fun h => absurd h (show ¬ "CHAR" = "STRING" by decide)⟩
    · exact ih it h
  case case4 => intro it h; cases h
  case case5 c t line col _ v hscan =>
    intro it h
    simp only [List.mem_singleton] at h
    subst h
    exact ⟨fun h => absurd h (show ¬ "COMMENT" = "CHAR" by decide), fun h => absurd h (show ¬ "COMMENT" = "STRING" by decide)⟩
  case case6 => intro it h; cases h
  case case7 => intro it h; cases h
  case case8 => intro it h; cases h
  case case9 c t line col _ name l hscan nf hc x hv hz ih =>
    intro it h
    simp only [Res.cons, List.mem_cons] at h
    rcases h with rfl | h
    · obtain ⟨r, hr, hf⟩ := scan_hit full doC _ _ name l hscan
      obtain ⟨hlpos, _⟩ := scan_hit_pos full doC _ name l hscan
      refine ⟨fun hx => ?_, fun hx => ?_⟩
      · simp only at hx ⊢
        obtain ⟨hn1, hval⟩ := valueOf_char _ _ _ _ hv hx
        obtain ⟨hn2, hfound⟩ := complete_char _ _ _ _ _ hc hn1
        subst hn2
        have hre := prod_char _ hr rfl
        simp only at hre
        rw [hre, reCHAR, first_cls_cons] at hf
        split at hf
        · cases hf
          rw [hval, hfound]; rfl
        · cases hf
      · simp only at hx ⊢
        obtain ⟨hn1, hval⟩ := valueOf_string _ _ _ _ hv hx
        rw [hval]
        rcases complete_string _ _ _ _ _ hc hn1 with ⟨hn2, hfound⟩ | ⟨hn2, q, rest, hq, hfound⟩
        · subst hn2
          obtain ⟨c', t', hs, hqt⟩ := first_quote r (prod_quote _ hr (Or.inl rfl)) _ l hf
          cases hs
          rw [hfound]
          obtain ⟨l', rfl⟩ : ∃ l', l = l' + 1 := ⟨l - 1, by omega⟩
          simp only [List.take_succ_cons]
          exact stringValue_quote _ _ hqt
        · subst hn2
          obtain ⟨c', t', hs, hqt⟩ := first_quote r (prod_quote _ hr (Or.inr rfl)) _ l hf
          cases hs
          rw [hfound]
          obtain ⟨l', rfl⟩ : ∃ l', l = l' + 1 := ⟨l - 1, by omega⟩
          simp only [List.take_succ_cons, List.cons_append]
          exact stringValue_quote _ _ hqt
    · exact ih it h


theorem mem_items (text : Cps) (full doC : Bool) (it : Item) (h : it ∈ (tokenize text full doC).items) :
    it ∈ bomItems text ∨ it ∈ charsetItems (afterBom text) ∨ it ∈ (mainLoop text full doC).items
    ∨ it ∈ eofItems full (mainLoop text full doC).stop := by
  simp only [tokenize, body, List.mem_append] at h
  rcases h with (h | h | h) | h
  · exact Or.inl h
  · exact Or.inr (Or.inl h)
  · exact Or.inr (Or.inr (Or.inl h))
  · exact Or.inr (Or.inr (Or.inr h))

theorem bom_typ (text : Cps) (it : Item) (h : it ∈ bomItems text) : it.typ = bomName := by
  unfold bomItems at h
  split at h
  · simp only [List.mem_singleton] at h; subst h; rfl
  · cases h

theorem charset_typ (s1 : Cps) (it : Item) (h : it ∈ charsetItems s1) : it.typ = charsetSym := by
  unfold charsetItems at h
  split at h
  · simp only [List.mem_singleton] at h; subst h; rfl
  · cases h

theorem eof_typ (full : Bool) (st : Stop) (it : Item) (h : it ∈ eofItems full st) : it.typ = "EOF" := by
  unfold eofItems at h
  split at h
  · split at h
    · simp only [List.mem_singleton] at h; subst h; rfl
    · cases h
  · cases h

/-- every item of the tokenizer's output, in both modes -/
theorem item_dom (text : Cps) (full doC : Bool) : ∀ it ∈ (tokenize text full doC).items, ItemDom it := by
  intro it h
  rcases mem_items text full doC it h with h | h | h | h
  · have := bom_typ text it h
    exact ⟨fun hx => absurd (this ▸ hx) (by decide), fun hx => absurd (this ▸ hx) (by decide)⟩
  · have := charset_typ _ it h
    exact ⟨fun hx => absurd (this ▸ hx) (by decide), fun hx => absurd (this ▸ hx) (by decide)⟩
  · exact loop_dom full doC _ _ _ _ it h
  · have := eof_typ _ _ it h
    exact ⟨fun hx => absurd (this ▸ hx) (by decide), fun hx => absurd (this ▸ hx) (by decide)⟩

theorem char_single (text : Cps) (full doC : Bool) :
    ∀ it ∈ (tokenize text full doC).items, it.typ = "CHAR" → it.value.length = 1 :=
  fun it h => (item_dom text full doC it h).1

theorem string_nonempty (text : Cps) (full doC : Bool) :
    ∀ it ∈ (tokenize text full doC).items, it.typ = "STRING" → it.value ≠ [] :=
  fun it h => (item_dom text full doC it h).2

theorem typ_known (text : Cps) (full doC : Bool) :
    ∀ it ∈ (tokenize text full doC).items, it.typ ∈ knownTypes ∨ it.typ = "EOF" := by
  intro it h
  rcases mem_items text full doC it h with h | h | h | h
  · left; rw [bom_typ text it h]; decide
  · left; rw [charset_typ _ it h]; decide
  · left; exact (itemsOK_mem full _ (loop_itemsOK full doC _ _ _ _) it h).1
  · right; exact eof_typ _ _ it h

/-- a type name of the tokenizer is none of the names `_prepare_tokens` synthesises, and is the CHAR / STRING of
the selector machine only for `CHAR` / `STRING` -/
def nameOk (n : String) : Bool :=
  (ParseAll.selTT n).name != Sel.TT.universal.name && (ParseAll.selTT n).name != Sel.TT.nsPrefix.name
  && ((ParseAll.selTT n).name != Sel.TT.char.name || n == "CHAR")
  && ((ParseAll.selTT n).name != Sel.TT.string.name || n == "STRING")

theorem names_ok : (knownTypes ++ ["EOF"]).all nameOk = true := by decide

/-- the token stream of a sheet is in the domain of the selector machine -/
theorem stream_selDom (text : Cps) (doC : Bool) :
    ∀ it ∈ ParseAll.stream text doC, ParseAll.selDom (ParseAll.selTok it) = true := by
  intro it h
  have hit : it ∈ (tokenize text true doC).items := by
    simp only [ParseAll.stream, Res.tokens, List.mem_filter] at h
    exact h.1
  have hn : nameOk it.typ = true := by
    apply List.all_eq_true.mp names_ok
    rcases typ_known text true doC it hit with hk | hk
    · exact List.mem_append_left _ hk
    · rw [hk]; simp
  obtain ⟨hc, hs⟩ := item_dom text true doC it hit
  simp only [nameOk, Bool.and_eq_true, Bool.or_eq_true, bne_iff_ne, ne_eq, beq_iff_eq] at hn
  obtain ⟨⟨⟨h1, h2⟩, h3⟩, h4⟩ := hn
  simp only [ParseAll.selDom, ParseAll.selTok, Bool.and_eq_true, Bool.or_eq_true, bne_iff_ne, ne_eq, beq_iff_eq,
    Bool.not_eq_true', List.isEmpty_eq_false_iff]
  refine ⟨⟨⟨h1, h2⟩, ?_⟩, ?_⟩
  · rcases h3 with h3 | h3
    · exact Or.inl h3
    · exact Or.inr (hc h3)
  · rcases h4 with h4 | h4
    · exact Or.inl h4
    · exact Or.inr (hs h4)

/-! ## the number of loop iterations -/

theorem loop_items_le (full doC : Bool) (fuel : Nat) (s : Cps) (line col : Nat) :
    (loop full doC fuel s line col).items.length ≤ s.length := by
  fun_induction loop full doC fuel s line col
  case case1 => simp
  case case2 => simp
  case case3 c t line col hfast ih => simp only [Res.cons, List.length_cons]; omega
  case case4 => simp
  case case5 => simp
  case case6 => simp
  case case7 => simp
  case case8 => simp
  case case9 c t line col _ name l hscan nf hc x hv hz ih =>
    simp only [Res.cons, List.length_cons, List.length_drop] at ih ⊢
    omega

theorem items_le (text : Cps) (full doC : Bool) : (tokenize text full doC).items.length ≤ text.length + 3 := by
  have hb : (bomItems text).length ≤ 1 := by unfold bomItems; split <;> simp
  have hc : (charsetItems (afterBom text)).length ≤ 1 := by unfold charsetItems; split <;> simp
  have he : (eofItems full (mainLoop text full doC).stop).length ≤ 1 := by
    unfold eofItems; split
    · split <;> simp
    · simp
  have hl := loop_items_le full doC ((afterCharset (afterBom text)).length + 1) (afterCharset (afterBom text)) 1
    (startCol (afterBom text))
  have h1 : (afterCharset (afterBom text)).length ≤ (afterBom text).length := by
    unfold afterCharset; split <;> simp
  have h2 : (afterBom text).length ≤ text.length := by
    unfold afterBom; split <;> simp
  simp only [tokenize, body, List.length_append]
  unfold mainLoop at *
  omega

end CssVerif.TokDom
