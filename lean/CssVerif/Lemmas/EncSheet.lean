import CssVerif.Model.EncSheet
/-! helper lemmas for `Props/C08.lean` about `Model/EncSheet.lean` -/
namespace CssVerif.EncSheet

/-- no `@charset` rule in the list -/
def noCharset (l : List Rule) : Bool := l.all (fun r => !r.isCharset)

/-- an `@charset` rule can only be the first rule -/
def Valid (rules : List Rule) : Prop := noCharset rules.tail = true

instance (rules : List Rule) : Decidable (Valid rules) :=
  inferInstanceAs (Decidable (noCharset rules.tail = true))

theorem noCharset_append (a b : List Rule) : noCharset (a ++ b) = (noCharset a && noCharset b) := by
  simp [noCharset, List.all_append]

theorem noCharset_cons (x : Rule) (l : List Rule) : noCharset (x :: l) = (!x.isCharset && noCharset l) := by
  simp [noCharset]

theorem noCharset_take (l : List Rule) (k : Nat) (h : noCharset l = true) : noCharset (l.take k) = true := by
  simp only [noCharset, List.all_eq_true] at *
  intro x hx; exact h x (List.mem_of_mem_take hx)

theorem noCharset_drop (l : List Rule) (k : Nat) (h : noCharset l = true) : noCharset (l.drop k) = true := by
  simp only [noCharset, List.all_eq_true] at *
  intro x hx; exact h x (List.mem_of_mem_drop hx)

theorem noCharset_eraseIdx (l : List Rule) (k : Nat) (h : noCharset l = true) : noCharset (l.eraseIdx k) = true := by
  simp only [noCharset, List.all_eq_true] at *
  intro x hx; exact h x (List.mem_of_mem_eraseIdx hx)

/-- head is not `@charset` (or there is no head) -/
def headFree (rules : List Rule) : Bool := !headIsCharset rules

theorem valid_headFree_noCharset (rules : List Rule) (hv : Valid rules) (hf : headFree rules = true) :
    noCharset rules = true := by
  cases rules with
  | nil => rfl
  | cons a t =>
    unfold Valid at hv
    simp only [List.tail_cons] at hv
    cases a <;> simp_all [noCharset_cons, headFree, headIsCharset, Rule.isCharset]

/-- inserting a rule that is not `@charset` keeps validity, provided it does not go in front of an `@charset` -/
theorem valid_insertAt (rules : List Rule) (k : Nat) (x : Rule) (hv : Valid rules) (hx : x.isCharset = false)
    (h0 : k = 0 → headFree rules = true) : Valid (insertAt rules k x) := by
  unfold insertAt
  cases k with
  | zero =>
    simp only [List.take_zero, List.nil_append, List.drop_zero]
    unfold Valid
    simp only [List.tail_cons]
    exact valid_headFree_noCharset rules hv (h0 rfl)
  | succ j =>
    cases rules with
    | nil => simp [Valid, noCharset]
    | cons a t =>
      unfold Valid at *
      simp only [List.tail_cons, List.take_succ_cons, List.drop_succ_cons, List.cons_append] at *
      rw [noCharset_append, noCharset_cons, noCharset_take t j hv, noCharset_drop t j hv, hx]
      rfl

theorem valid_append (rules : List Rule) (x : Rule) (hv : Valid rules) (hx : x.isCharset = false) :
    Valid (rules ++ [x]) := by
  cases rules with
  | nil => simp [Valid, noCharset]
  | cons a t =>
    unfold Valid at *
    simp only [List.tail_cons, List.cons_append] at *
    rw [noCharset_append, hv]; simp [noCharset, hx]

theorem valid_charset_cons (rules : List Rule) (e : Name) (hv : Valid rules) (hf : headFree rules = true) :
    Valid (.charset e :: rules) := by
  unfold Valid; simp only [List.tail_cons]; exact valid_headFree_noCharset rules hv hf

theorem valid_replace_head (old : Rule) (rest : List Rule) (x : Rule) (hv : Valid (old :: rest)) : Valid (x :: rest) := by
  unfold Valid at *; simpa using hv

theorem afterLast_pos (p : Rule → Bool) (l : List Rule) (k : Nat) (h : afterLast p l = some k) : 1 ≤ k := by
  cases l with
  | nil => simp [afterLast] at h
  | cons r t =>
    simp only [afterLast] at h
    split at h
    · simp at h; omega
    · split at h
      · simp at h; omega
      · cases h

theorem afterLast_none (p : Rule → Bool) (l : List Rule) (h : afterLast p l = none) : ∀ r ∈ l, p r = false := by
  induction l with
  | nil => intro r hr; cases hr
  | cons a t ih =>
    simp only [afterLast] at h
    split at h
    · cases h
    · rename_i hn
      split at h
      · cases h
      · rename_i hp
        intro r hr
        simp only [List.mem_cons] at hr
        rcases hr with hr | hr
        · subst hr; simpa using hp
        · exact ih hn r hr

theorem firstIdx_pos (p : Rule → Bool) (e : Name) (t : List Rule) (k : Nat) (hp : p (.charset e) = false)
    (h : firstIdx p (.charset e :: t) = some k) : 1 ≤ k := by
  simp only [firstIdx, hp, Bool.false_eq_true, if_false, Option.map_eq_some_iff] at h
  obtain ⟨j, _, hj⟩ := h; omega

theorem headFree_of_not_head0 (rules : List Rule) (h : headIsCharset rules = false) : headFree rules = true := by
  simp [headFree, h]

theorem headFree_of_drop0_any (rules : List Rule) (p : Rule → Bool) (hp : ∀ e, p (.charset e) = true)
    (h : rules.any p = false) : headFree rules = true := by
  cases rules with
  | nil => rfl
  | cons a t =>
    cases a with
    | charset e => simp [hp e] at h
    | _ => rfl

/-- `insertRule` keeps validity -/
theorem insertRule_valid (rules : List Rule) (rule : Rule) (index : Option Nat) (inOrder : Bool) (r : InsRes)
    (hv : Valid rules) (h : insertRule rules rule index inOrder = .ok r) : Valid r.rules := by
  unfold insertRule at h
  simp only at h
  by_cases hidx : index.getD rules.length > rules.length
  · rw [if_pos hidx] at h; cases h
  · rw [if_neg hidx] at h
    cases rule with
    | charset e =>
      simp only at h
      cases inOrder with
      | true =>
        simp only [if_true] at h
        split at h
        · simp only [Except.ok.injEq] at h; subst h
          exact valid_replace_head _ _ _ hv
        · rename_i hne
          simp only [Except.ok.injEq] at h; subst h
          refine valid_charset_cons rules e hv ?_
          cases rules with
          | nil => rfl
          | cons a t => cases a with
            | charset o => exact absurd rfl (hne o t)
            | _ => rfl
      | false =>
        simp only [Bool.false_eq_true, if_false] at h
        split at h
        · cases h
        · rename_i hc
          simp only [Bool.or_eq_true, decide_eq_true_eq, ne_eq, not_or, Decidable.not_not, Bool.not_eq_true] at hc
          simp only [Except.ok.injEq] at h; subst h
          rw [hc.1]
          simp only [insertAt, List.take_zero, List.nil_append, List.drop_zero]
          exact valid_charset_cons rules e hv (headFree_of_not_head0 rules hc.2)
    | comment =>
      simp only at h
      cases inOrder with
      | true =>
        simp only [Bool.not_true, Bool.false_eq_true, if_false, Except.ok.injEq] at h; subst h
        exact valid_append rules _ hv rfl
      | false =>
        simp only [Bool.not_false, if_true] at h
        by_cases hc : (decide (index.getD rules.length = 0) && headIsCharset rules) = true
        · rw [if_pos hc] at h; cases h
        · rw [if_neg hc] at h
          simp only [Except.ok.injEq] at h; subst h
          refine valid_insertAt rules _ _ hv rfl ?_
          intro h0
          apply headFree_of_not_head0
          simpa [h0] using hc
    | unknown =>
      simp only at h
      cases inOrder with
      | true =>
        simp only [Bool.not_true, Bool.false_eq_true, if_false, Except.ok.injEq] at h; subst h
        exact valid_append rules _ hv rfl
      | false =>
        simp only [Bool.not_false, if_true] at h
        by_cases hc : (decide (index.getD rules.length = 0) && headIsCharset rules) = true
        · rw [if_pos hc] at h; cases h
        · rw [if_neg hc] at h
          simp only [Except.ok.injEq] at h; subst h
          refine valid_insertAt rules _ _ hv rfl ?_
          intro h0
          apply headFree_of_not_head0
          simpa [h0] using hc
    | imp =>
      simp only at h
      cases inOrder with
      | true =>
        simp only [if_true] at h
        split at h
        · rename_i k hk
          simp only [Except.ok.injEq] at h; subst h
          exact valid_insertAt rules k _ hv rfl (fun h0 => by have := afterLast_pos _ _ _ hk; omega)
        · simp only [Except.ok.injEq] at h; subst h
          refine valid_insertAt rules _ _ hv rfl ?_
          intro h0
          cases rules with
          | nil => rfl
          | cons a t => cases a <;> simp_all [headFree, headIsCharset]
      | false =>
        simp only [Bool.false_eq_true, if_false] at h
        by_cases hc : (decide (index.getD rules.length = 0) && headIsCharset rules) = true
        · rw [if_pos hc] at h; cases h
        · rw [if_neg hc] at h
          split at h
          · cases h
          · simp only [Except.ok.injEq] at h; subst h
            refine valid_insertAt rules _ _ hv rfl ?_
            intro h0
            apply headFree_of_not_head0
            simpa [h0] using hc
    | ns =>
      simp only at h
      cases inOrder with
      | true =>
        simp only [if_true] at h
        split at h
        · rename_i k hk
          simp only [Except.ok.injEq] at h; subst h
          exact valid_insertAt rules k _ hv rfl (fun h0 => by have := afterLast_pos _ _ _ hk; omega)
        · simp only [Except.ok.injEq] at h; subst h
          refine valid_insertAt rules _ _ hv rfl ?_
          intro h0
          -- the place is 0 only in an empty sheet or when no @charset / @import precedes
          cases hal : afterLast (fun r => r.isCharset || r == Rule.imp) rules with
          | some k0 =>
            exfalso
            have hk0 := afterLast_pos _ _ _ hal
            rw [hal] at h0
            simp only [Option.getD_some] at h0
            split at h0
            · rename_i j _
              have h1 : k0 + j = 0 := h0
              omega
            · cases rules with
              | nil => simp [afterLast] at hal
              | cons a t => simp at h0
          | none =>
            have hall := afterLast_none _ _ hal
            cases rules with
            | nil => rfl
            | cons a t =>
              have := hall a List.mem_cons_self
              cases a with
              | charset e => simp [Rule.isCharset] at this
              | _ => rfl
      | false =>
        simp only [Bool.false_eq_true, if_false] at h
        split at h
        · cases h
        · rename_i hc
          split at h
          · cases h
          · simp only [Except.ok.injEq] at h; subst h
            refine valid_insertAt rules _ _ hv rfl ?_
            intro h0
            apply headFree_of_drop0_any rules (fun r => r.isCharset || r == .imp) (by intro e; rfl)
            simp only [h0, List.drop_zero] at hc
            simpa using hc
    | variables =>
      simp only at h
      cases inOrder with
      | true =>
        simp only [if_true] at h
        split at h
        · rename_i k hk
          simp only [Except.ok.injEq] at h; subst h
          exact valid_insertAt rules k _ hv rfl (fun h0 => by have := afterLast_pos _ _ _ hk; omega)
        · simp only [Except.ok.injEq] at h; subst h
          refine valid_insertAt rules _ _ hv rfl ?_
          intro h0
          -- the place is 0 only in an empty sheet or when no @charset / @import precedes
          cases hal : afterLast (fun r => r.isCharset || r == Rule.imp || r == Rule.ns) rules with
          | some k0 =>
            exfalso
            have hk0 := afterLast_pos _ _ _ hal
            rw [hal] at h0
            simp only [Option.getD_some] at h0
            split at h0
            · rename_i j _
              have h1 : k0 + j = 0 := h0
              omega
            · cases rules with
              | nil => simp [afterLast] at hal
              | cons a t => simp at h0
          | none =>
            have hall := afterLast_none _ _ hal
            cases rules with
            | nil => rfl
            | cons a t =>
              have := hall a List.mem_cons_self
              cases a with
              | charset e => simp [Rule.isCharset] at this
              | _ => rfl
      | false =>
        simp only [Bool.false_eq_true, if_false] at h
        split at h
        · cases h
        · rename_i hc
          split at h
          · cases h
          · simp only [Except.ok.injEq] at h; subst h
            refine valid_insertAt rules _ _ hv rfl ?_
            intro h0
            apply headFree_of_drop0_any rules (fun r => r.isCharset || r == .imp || r == .ns) (by intro e; rfl)
            simp only [h0, List.drop_zero] at hc
            simpa using hc
    | style =>
      simp only at h
      cases inOrder with
      | true =>
        simp only [if_true, Except.ok.injEq] at h; subst h; exact valid_append rules _ hv rfl
      | false =>
        simp only [Bool.false_eq_true, if_false] at h
        split at h
        · cases h
        · rename_i hc
          simp only [Except.ok.injEq] at h; subst h
          refine valid_insertAt rules _ _ hv rfl ?_
          intro h0
          apply headFree_of_drop0_any rules (fun r => r.isCharset || r == .imp || r == .ns || r == .variables) (by intro e; rfl)
          simp only [h0, List.drop_zero] at hc
          simpa using hc

theorem deleteRule_valid (rules rs : List Rule) (i : Nat) (hv : Valid rules) (h : deleteRule rules i = .ok rs) :
    Valid rs := by
  unfold deleteRule at h
  split at h
  · simp only [Except.ok.injEq] at h; subst h
    cases rules with
    | nil => simp [Valid, noCharset]
    | cons a t =>
      unfold Valid at *
      simp only [List.tail_cons] at hv
      cases i with
      | zero =>
        simp only [List.eraseIdx_cons_zero]
        cases t with
        | nil => rfl
        | cons b u =>
          simp only [List.tail_cons]
          rw [noCharset_cons] at hv
          simp only [Bool.and_eq_true] at hv
          exact hv.2
      | succ j =>
        simp only [List.eraseIdx_cons_succ, List.tail_cons]
        exact noCharset_eraseIdx t j hv
  · cases h

theorem setEncoding_valid (valid : Name → Bool) (rules rs : List Rule) (e : Option Name) (hv : Valid rules)
    (h : setEncoding valid rules e = .ok rs) : Valid rs := by
  unfold setEncoding at h
  simp only at h
  split at h
  · rename_i old rest
    by_cases ht : truthy e = true
    · rw [if_pos ht] at h
      split at h
      · simp only [Except.ok.injEq] at h; subst h; exact valid_replace_head _ _ _ hv
      · cases h
    · rw [if_neg ht] at h
      exact deleteRule_valid _ _ _ hv h
  · by_cases ht : truthy e = true
    · rw [if_pos ht] at h
      split at h
      · split at h
        · rename_i r hr
          simp only [Except.ok.injEq] at h; subst h
          exact insertRule_valid rules _ _ _ r hv hr
        · cases h
      · cases h
    · rw [if_neg ht] at h
      simp only [Except.ok.injEq] at h; subst h; exact hv

theorem valid_charset_index (rules : List Rule) (i : Nat) (e : Name) (hv : Valid rules)
    (h : rules[i]? = some (.charset e)) : i = 0 := by
  cases i with
  | zero => rfl
  | succ j =>
    cases rules with
    | nil => simp at h
    | cons a t =>
      unfold Valid at hv
      simp only [List.tail_cons, noCharset, List.all_eq_true] at hv
      simp only [List.getElem?_cons_succ] at h
      have := hv _ (List.mem_of_getElem? h)
      simp [Rule.isCharset] at this

theorem setRuleEncoding_valid (valid : Name → Bool) (rules rs : List Rule) (i : Nat) (e : Name) (hv : Valid rules)
    (h : setRuleEncoding valid rules i e = .ok rs) : Valid rs := by
  unfold setRuleEncoding at h
  split at h
  · rename_i old hold
    have h0 := valid_charset_index rules i old hv hold
    subst h0
    split at h
    · simp only [Except.ok.injEq] at h; subst h
      cases rules with
      | nil => simp at hold
      | cons a t => simp only [List.set_cons_zero]; exact valid_replace_head _ _ _ hv
    · cases h
  · cases h

theorem parseAll_valid : ∀ (src : List Rule) (exp : Nat) (acc rs : List Rule), parseAll src exp acc = .ok rs →
    Valid acc → (exp = 0 → acc = []) → Valid rs := by
  intro src
  induction src with
  | nil => intro exp acc rs h hv _; simp only [parseAll, Except.ok.injEq] at h; subst h; exact hv
  | cons r t ih =>
    intro exp acc rs h hv h0
    cases r with
    | charset e =>
      simp only [parseAll] at h
      split at h
      · cases h
      · rename_i hexp
        have : acc = [] := h0 (by omega)
        subst this
        exact ih _ _ _ h (by simp [Valid, noCharset]) (by intro h1; cases h1)
    | comment =>
      simp only [parseAll] at h
      exact ih _ _ _ h (valid_append acc _ hv rfl) (by intro h1; have := Nat.le_max_left 1 exp; omega)
    | unknown =>
      simp only [parseAll] at h
      exact ih _ _ _ h (valid_append acc _ hv rfl) (by intro h1; have := Nat.le_max_left 1 exp; omega)
    | imp =>
      simp only [parseAll] at h
      split at h
      · cases h
      · exact ih _ _ _ h (valid_append acc _ hv rfl) (by intro h1; cases h1)
    | variables =>
      simp only [parseAll] at h
      split at h
      · cases h
      · exact ih _ _ _ h (valid_append acc _ hv rfl) (by intro h1; cases h1)
    | ns =>
      simp only [parseAll] at h
      split at h
      · cases h
      · split at h
        · cases h
        · exact ih _ _ _ h (valid_append acc _ hv rfl) (by intro h1; cases h1)
    | style =>
      simp only [parseAll] at h
      exact ih _ _ _ h (valid_append acc _ hv rfl) (by intro h1; cases h1)

theorem insertRuleTextCore_valid (pre : Bool) (rules src : List Rule) (idx : Nat) (inOrder : Bool) (r : InsRes)
    (hv : Valid rules) (h : insertRuleTextCore pre rules src idx inOrder = .ok r) : Valid r.rules := by
  unfold insertRuleTextCore at h
  cases hp : setCssText (if pre = true then rules.take 1 ++ src else src) with
  | error e => rw [hp] at h; cases h
  | ok rs =>
    rw [hp] at h
    simp only at h
    by_cases hl : rs.length ≠ (if pre = true then 2 else 1)
    · rw [if_pos hl] at h; cases h
    · rw [if_neg hl] at h
      cases hr : rs[if pre = true then 1 else 0]? with
      | none => rw [hr] at h; cases h
      | some r0 => rw [hr] at h; exact insertRule_valid rules r0 _ inOrder r hv h

theorem insertRuleText_valid (rules src : List Rule) (index : Option Nat) (inOrder : Bool) (r : InsRes)
    (hv : Valid rules) (h : insertRuleText rules src index inOrder = .ok r) : Valid r.rules := by
  unfold insertRuleText at h
  simp only at h
  by_cases hidx : index.getD rules.length > rules.length
  · rw [if_pos hidx] at h; cases h
  · rw [if_neg hidx] at h
    exact insertRuleTextCore_valid _ rules src _ inOrder r hv h

theorem applyOp_valid (valid : Name → Bool) (rules rs : List Rule) (op : Op) (hv : Valid rules)
    (h : applyOp valid rules op = .ok rs) : Valid rs := by
  cases op with
  | setEncoding e => exact setEncoding_valid valid rules rs e hv h
  | insert r i o =>
    simp only [applyOp] at h
    split at h
    · rename_i x hx
      simp only [Except.ok.injEq] at h; subst h
      exact insertRule_valid rules r i o x hv hx
    · cases h
  | insertText src i o =>
    simp only [applyOp] at h
    split at h
    · rename_i x hx
      simp only [Except.ok.injEq] at h; subst h
      exact insertRuleText_valid rules src i o x hv hx
    · cases h
  | insertCharsetNamed n i o =>
    simp only [applyOp] at h
    split at h
    · split at h <;> cases h
    · split at h
      · split at h
        · rename_i x hx
          simp only [Except.ok.injEq] at h; subst h
          exact insertRule_valid rules _ i o x hv hx
        · cases h
      · cases h
  | delete i => exact deleteRule_valid rules rs i hv h
  | setRuleEncoding i e => exact setRuleEncoding_valid valid rules rs i e hv h
  | setCssText src =>
    simp only [applyOp, setCssText] at h
    exact parseAll_valid src 0 [] rs h (by simp [Valid, noCharset]) (fun _ => rfl)

theorem runOps_valid (valid : Name → Bool) : ∀ (ops : List Op) (rules : List Rule),
    Valid rules → Valid (runOps valid rules ops) := by
  intro ops
  induction ops with
  | nil => intro rules hv; exact hv
  | cons op t ih =>
    intro rules hv
    simp only [runOps]
    split
    · rename_i rs hrs
      exact ih rs (applyOp_valid valid rules rs op hv hrs)
    · exact ih rules hv

theorem find_noCharset (l : List Rule) (h : noCharset l = true) : l.find? Rule.isCharset = none := by
  rw [List.find?_eq_none]
  intro x hx
  simp only [noCharset, List.all_eq_true] at h
  have := h x hx
  simpa using this

/-- in a valid sheet THE `@charset` rule, if there is one anywhere, is the first rule -/
theorem find_charset_of_valid (rs : List Rule) (hv : Valid rs) :
    rs.find? Rule.isCharset = (match rs with | .charset e :: _ => some (.charset e) | _ => none) := by
  cases rs with
  | nil => rfl
  | cons a t =>
    unfold Valid at hv
    simp only [List.tail_cons] at hv
    cases a with
    | charset e => simp [List.find?, Rule.isCharset]
    | comment => simp [List.find?, Rule.isCharset, find_noCharset t hv]
    | unknown => simp [List.find?, Rule.isCharset, find_noCharset t hv]
    | imp => simp [List.find?, Rule.isCharset, find_noCharset t hv]
    | variables => simp [List.find?, Rule.isCharset, find_noCharset t hv]
    | ns => simp [List.find?, Rule.isCharset, find_noCharset t hv]
    | style => simp [List.find?, Rule.isCharset, find_noCharset t hv]

end CssVerif.EncSheet
