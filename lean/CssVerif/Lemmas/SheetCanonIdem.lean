import CssVerif.Lemmas.SheetCanon
/-!
# Lemmas for C03 (sheet level): writing what was written changes nothing (`canon (canon s) = canon s`)
-/
namespace CssVerif.SheetCanon
open CssVerif.Proto (Cps)
open CssVerif.Struct CssVerif.SheetSpec CssVerif.AtRules
set_option linter.unusedSimpArgs false
set_option linter.unusedVariables false

/-! ## gaps -/

theorem comments_append (a b : Gap) : comments (a ++ b) = comments a ++ comments b := by
  induction a with
  | nil => rfl
  | cons t g ih => cases t <;> simp [comments, ih]

@[simp] theorem comments_tight (l : List Cps) : comments (tight l) = l := by
  induction l with
  | nil => rfl
  | cons b l ih => simp [tight, comments, ih]

@[simp] theorem comments_after (l : List Cps) : comments (after l) = l := by
  induction l with
  | nil => rfl
  | cons b l ih => simp [after, comments, ih]

@[simp] theorem comments_before (l : List Cps) : comments (before l) = l := by
  induction l with
  | nil => rfl
  | cons b l ih => simp [before, comments, ih]

@[simp] theorem comments_closing (c : Option Ws) : comments (closing c) = [] := by
  cases c <;> rfl

@[simp] theorem comments_gTight (g : Gap) : comments (gTight g) = comments g := by simp [gTight]
@[simp] theorem comments_gLead (g : Gap) : comments (gLead g) = comments g := by simp [gLead, comments]
theorem comments_gTrail (g t : Gap) : comments (gTrail g t) = comments g ++ comments t := by
  simp [gTrail, comments_append]
@[simp] theorem comments_gPage (g : Gap) : comments (gPage g) = comments g := by
  unfold gPage
  cases h : comments g with
  | nil => simp [comments]
  | cons c l => simp [comments, comments_append]

theorem comments_if_sp (b : Bool) : comments (if b then [GapTok.ws sp] else []) = [] := by
  cases b <;> rfl

theorem gTight_idem (g : Gap) : gTight (gTight g) = gTight g := by simp [gTight]
theorem gLead_idem (g : Gap) : gLead (gLead g) = gLead g := by simp [gLead, comments]
theorem gTrail_idem (g t t' : Gap) (h : comments t = []) : gTrail (gTrail g t) t' = gTrail g t' := by
  simp [gTrail, comments_append, h]
@[simp] theorem gTrail_idem_nil (g t' : Gap) : gTrail (gTrail g []) t' = gTrail g t' := gTrail_idem g [] t' rfl
@[simp] theorem gTrail_idem_sp (g t' : Gap) : gTrail (gTrail g [.ws sp]) t' = gTrail g t' := gTrail_idem g _ t' rfl
theorem gPage_idem (g : Gap) : gPage (gPage g) = gPage g := by
  conv => lhs; rw [gPage, comments_gPage]
  rfl

theorem lowMask_idem (m : Mask) : lowMask (lowMask m) = lowMask m := by
  simp [lowMask, List.map_map, Function.comp_def]

/-! ## declarations and blocks -/

theorem canonDecl_canonDecl (c c' : Option Ws) (d : SDecl) : canonDecl c' (canonDecl c d) = canonDecl c' d := by
  cases h : d.prio with
  | none => simp [canonDecl, h, lowMask_idem, gTrail, comments_append, gLead, gTight, comments]
  | some p =>
    obtain ⟨g4, n, m, g5⟩ := p
    simp [canonDecl, h, lowMask_idem, gTrail, comments_append, gLead, gTight, comments]

theorem canonItem_idem (i : SItem) : canonItem (canonItem i) = canonItem i := by
  cases i <;> simp [canonItem, canonDecl_canonDecl]

/-- the items a laid-out block is read back as -/
def re (r : List (SItem × WGap) × Option SDecl) : List SItem := keptItems r.1 ++ (r.2.map SItem.decl).toList

def NoSemi (l : List SItem) : Prop := ∀ i ∈ l, i ≠ .semi

theorem canonItem_ne_semi {i : SItem} (h : i ≠ .semi) : canonItem i ≠ .semi := by
  cases i <;> simp_all [canonItem]

theorem keptItems_cons_keep (i : SItem) (w : WGap) (rest : List (SItem × WGap)) (h : i ≠ .semi) :
    keptItems ((i, w) :: rest) = i :: keptItems rest := by
  cases i <;> simp_all [keptItems]

theorem keptItems_noSemi (l : List (SItem × WGap)) : NoSemi (keptItems l) := by
  induction l with
  | nil => intro i hi; cases hi
  | cons p rest ih =>
    obtain ⟨i, w⟩ := p
    cases i <;> simp_all [keptItems, NoSemi]

theorem re_layItems_cons (om : Bool) (lv : Nat) (j : SItem) (rest : List SItem) (h : NoSemi (j :: rest)) :
    ∃ x xs, re (layItems om lv (j :: rest)) = x :: xs := by
  cases rest with
  | nil =>
    have hj : j ≠ .semi := h j (by simp)
    cases om <;> cases j <;> simp_all [layItems, re, keptItems, canonItem]
  | cons k rest' =>
    have hj : j ≠ .semi := h j (by simp)
    refine ⟨canonItem j, re (layItems om lv (k :: rest')), ?_⟩
    simp [layItems, re, keptItems_cons_keep _ _ _ (canonItem_ne_semi hj)]

theorem layItems_idem (om : Bool) (lv : Nat) : (l : List SItem) → NoSemi l →
    layItems om lv (re (layItems om lv l)) = layItems om lv l
  | [], _ => rfl
  | [i], h => by
    have hi : i ≠ .semi := h i (by simp)
    cases om <;> cases i <;>
      simp_all [layItems, re, keptItems, canonItem, canonDecl_canonDecl]
  | i :: j :: rest, h => by
    have hi : i ≠ .semi := h i (by simp)
    have h' : NoSemi (j :: rest) := fun x hx => h x (by simp [hx])
    have ih := layItems_idem om lv (j :: rest) h'
    obtain ⟨x, xs, hx⟩ := re_layItems_cons om lv j rest h'
    have e : re (layItems om lv (i :: j :: rest)) = canonItem i :: re (layItems om lv (j :: rest)) := by
      simp [layItems, re, keptItems_cons_keep _ _ _ (canonItem_ne_semi hi)]
    rw [e, hx]
    simp only [layItems]
    rw [← hx, ih, canonItem_idem]

theorem realItems_noSemi (b : SBlock) : NoSemi (realItems b) := by
  intro i hi
  simp only [realItems, List.mem_append] at hi
  rcases hi with hi | hi
  · exact keptItems_noSemi _ i hi
  · cases hb : b.last <;> simp_all

theorem canonBlock_idem (lv : Nat) (b : SBlock) : canonBlock lv (canonBlock lv b) = canonBlock lv b := by
  have e : realItems (canonBlock lv b) = re (layItems true lv (realItems b)) := rfl
  have h := layItems_idem true lv _ (realItems_noSemi b)
  rw [← e] at h
  simp only [canonBlock] at h ⊢
  rw [h]

/-! ## selectors, targets -/

theorem canonMore_isEmpty (m : List (Gap × List Tok × Gap)) : (canonMore m).isEmpty = m.isEmpty := by
  cases m with
  | nil => rfl
  | cons p rest => obtain ⟨a, c, b⟩ := p; rfl

theorem canonMore_idem (m : List (Gap × List Tok × Gap)) : canonMore (canonMore m) = canonMore m := by
  induction m with
  | nil => rfl
  | cons p rest ih =>
    obtain ⟨a, c, b⟩ := p
    simp only [canonMore, ih, canonMore_isEmpty]
    rw [gTrail_idem _ _ _ (comments_if_sp _)]
    simp [gTight, comments]

theorem canonSel_idem (s : SSel) : canonSel (canonSel s) = canonSel s := by
  simp only [canonSel, canonMore_idem, canonMore_isEmpty]
  rw [gTrail_idem _ _ _ (comments_if_sp _)]

theorem canonHref_idem (r : SHref) : canonHref (canonHref r) = canonHref r := by
  cases r <;> simp [canonHref]

theorem canonNsUri_idem (r : SHref) : canonNsUri (canonNsUri r) = canonNsUri r := by
  simp [canonNsUri, SHref.value]

/-! ## margin boxes -/

theorem strip_strip (l : List Tok) : strip (strip l) = strip l := by
  simp [strip, List.filter_filter]

theorem canonDecl_bare (c c' : Option Ws) (d : SDecl) :
    canonDecl c' (bareDecl (canonDecl c (bareDecl d))) = canonDecl c' (bareDecl d) := by
  cases h : d.prio with
  | none => simp [canonDecl, bareDecl, h, lowMask_idem, strip_strip, gTrail, gLead, gTight, comments]
  | some p =>
    obtain ⟨g4, n, m, g5⟩ := p
    simp [canonDecl, bareDecl, h, lowMask_idem, strip_strip, gTrail, gLead, gTight, comments]

/-- the items a laid-out margin box is read back as -/
def reB (r : List (SItem × WGap) × Option SDecl) : List SItem :=
  keptDecls r.1 ++ (r.2.map fun d => SItem.decl (bareDecl d)).toList

def AllBare (l : List SItem) : Prop := ∀ i ∈ l, ∃ d, i = .decl (bareDecl d)

theorem reB_layItems_cons (lv : Nat) (j : SItem) (rest : List SItem) (h : AllBare (j :: rest)) :
    ∃ x xs, reB (layItems true lv (j :: rest)) = x :: xs := by
  obtain ⟨d, rfl⟩ := h j (by simp)
  cases rest with
  | nil => simp [layItems, reB, keptDecls]
  | cons k rest' => simp [layItems, reB, keptDecls, canonItem]

theorem layItems_idemB (lv : Nat) : (l : List SItem) → AllBare l →
    layItems true lv (reB (layItems true lv l)) = layItems true lv l
  | [], _ => rfl
  | [i], h => by
    obtain ⟨d, rfl⟩ := h i (by simp)
    simp [layItems, reB, keptDecls, canonDecl_bare]
  | i :: j :: rest, h => by
    obtain ⟨d, rfl⟩ := h i (by simp)
    have h' : AllBare (j :: rest) := fun x hx => h x (by simp [hx])
    have ih := layItems_idemB lv (j :: rest) h'
    obtain ⟨x, xs, hx⟩ := reB_layItems_cons lv j rest h'
    have e : reB (layItems true lv (.decl (bareDecl d) :: j :: rest)) =
        .decl (bareDecl (canonDecl none (bareDecl d))) :: reB (layItems true lv (j :: rest)) := by
      simp [layItems, reB, keptDecls, canonItem]
    rw [e, hx]
    simp only [layItems]
    rw [← hx, ih]
    simp [canonItem, canonDecl_bare]

theorem keptDecls_allBare (l : List (SItem × WGap)) : AllBare (keptDecls l) := by
  induction l with
  | nil => intro i hi; cases hi
  | cons p rest ih =>
    obtain ⟨i, w⟩ := p
    cases i with
    | decl d =>
      intro x hx
      simp only [keptDecls, List.mem_cons] at hx
      rcases hx with rfl | hx
      · exact ⟨d, rfl⟩
      · exact ih x hx
    | comment b => simpa [keptDecls] using ih
    | unknown t => simpa [keptDecls] using ih
    | semi => simpa [keptDecls] using ih

theorem marginItems_allBare (b : SBlock) :
    AllBare (keptDecls b.items ++ (b.last.map fun d => SItem.decl (bareDecl d)).toList) := by
  intro i hi
  simp only [List.mem_append] at hi
  rcases hi with hi | hi
  · exact keptDecls_allBare _ i hi
  · cases hb : b.last with
    | none => simp [hb] at hi
    | some d => simp [hb] at hi; exact ⟨d, hi⟩

theorem canonMarginBlock_idem (lv : Nat) (b : SBlock) :
    canonMarginBlock lv (canonMarginBlock lv b) = canonMarginBlock lv b := by
  have h := layItems_idemB lv _ (marginItems_allBare b)
  simp only [reB] at h
  simp only [canonMarginBlock] at h ⊢
  rw [h]

/-! ## `@page` -/

theorem pagePlain_append (a b : List (SPageItem × WGap)) : pagePlain (a ++ b) = pagePlain a ++ pagePlain b := by
  induction a with
  | nil => rfl
  | cons p rest ih =>
    obtain ⟨i, w⟩ := p
    cases i with
    | margin n kw g blk => simp [pagePlain, ih]
    | item it => cases it <;> simp [pagePlain, ih]

theorem pageMargins_append (lv : Nat) (a b : List (SPageItem × WGap)) :
    pageMargins lv (a ++ b) = pageMargins lv a ++ pageMargins lv b := by
  induction a with
  | nil => rfl
  | cons p rest ih => obtain ⟨i, w⟩ := p; cases i <;> simp [pageMargins, ih]

theorem pagePlain_asPageItems (l : List (SItem × WGap)) : pagePlain (asPageItems l) = keptItems l := by
  induction l with
  | nil => rfl
  | cons p rest ih => obtain ⟨i, w⟩ := p; cases i <;> simp [asPageItems, pagePlain, keptItems, ih]

theorem pageMargins_asPageItems (lv : Nat) (l : List (SItem × WGap)) : pageMargins lv (asPageItems l) = [] := by
  induction l with
  | nil => rfl
  | cons p rest ih => obtain ⟨i, w⟩ := p; simp [asPageItems, pageMargins, ih]

theorem pagePlain_pageMargins (lv : Nat) (l : List (SPageItem × WGap)) : pagePlain (pageMargins lv l) = [] := by
  induction l with
  | nil => rfl
  | cons p rest ih => obtain ⟨i, w⟩ := p; cases i <;> simp [pageMargins, pagePlain, ih]

theorem pageMargins_idem (lv : Nat) (l : List (SPageItem × WGap)) :
    pageMargins lv (pageMargins lv l) = pageMargins lv l := by
  induction l with
  | nil => rfl
  | cons p rest ih => obtain ⟨i, w⟩ := p; cases i <;> simp [pageMargins, ih, canonMarginBlock_idem]

theorem pagePlain_noSemi (l : List (SPageItem × WGap)) : NoSemi (pagePlain l) := by
  induction l with
  | nil => intro i hi; cases hi
  | cons p rest ih =>
    obtain ⟨i, w⟩ := p
    cases i with
    | margin n kw g blk => simpa [pagePlain] using ih
    | item it => cases it <;> simp_all [pagePlain, NoSemi]

theorem canonPageBlock_idem (lv : Nat) (b : SPageBlock) :
    canonPageBlock lv (canonPageBlock lv b) = canonPageBlock lv b := by
  have hn : NoSemi (pagePlain b.items ++ (b.last.map SItem.decl).toList) := by
    intro i hi
    simp only [List.mem_append] at hi
    rcases hi with hi | hi
    · exact pagePlain_noSemi _ i hi
    · cases hb : b.last <;> simp_all
  have h := layItems_idem (pageMargins lv b.items).isEmpty lv _ hn
  simp only [re] at h
  simp only [canonPageBlock, pagePlain_append, pageMargins_append, pagePlain_asPageItems, pageMargins_asPageItems,
    pagePlain_pageMargins, pageMargins_idem, List.append_nil, List.nil_append]
  rw [h]

/-! ## names, `@variables` -/

theorem canonName_idem (tail : Gap) (h : comments tail = []) (name : SName) :
    canonName tail (canonName tail name) = canonName tail name := by
  cases name with
  | none => rfl
  | some p =>
    obtain ⟨q, n, g⟩ := p
    cases n with
    | nil => simp [canonName]
    | cons c t => simp [canonName, gTrail_idem _ _ _ h]

theorem nameWritten_canon (tail : Gap) (name : SName) : nameWritten (canonName tail name) = nameWritten name := by
  cases name with
  | none => rfl
  | some p =>
    obtain ⟨q, n, g⟩ := p
    cases n <;> simp [canonName, nameWritten]

theorem emptyNameGap_canon (tail : Gap) (name : SName) : emptyNameGap (canonName tail name) = [] := by
  cases name with
  | none => rfl
  | some p =>
    obtain ⟨q, n, g⟩ := p
    cases n <;> simp [canonName, emptyNameGap]

theorem canonVarDecl_canonVarDecl (c c' : Option Ws) (d : SVarDecl) :
    canonVarDecl c' (canonVarDecl c d) = canonVarDecl c' d := by
  simp [canonVarDecl, gTrail_idem]

/-- the declarations a laid-out `@variables` block is read back as -/
def reV (r : List (SVarDecl × Gap) × Option SVarDecl) : List SVarDecl := r.1.map (·.1) ++ r.2.toList

theorem reV_layVarItems_cons (lv : Nat) (d : SVarDecl) (rest : List SVarDecl) :
    ∃ x xs, reV (layVarItems lv (d :: rest)) = x :: xs := by
  cases rest with
  | nil => exact ⟨_, [], rfl⟩
  | cons e rest' => exact ⟨_, _, rfl⟩

theorem layVarItems_idem (lv : Nat) : (l : List SVarDecl) → layVarItems lv (reV (layVarItems lv l)) = layVarItems lv l
  | [] => rfl
  | [d] => by simp [layVarItems, reV, canonVarDecl_canonVarDecl]
  | d :: e :: rest => by
    have ih := layVarItems_idem lv (e :: rest)
    obtain ⟨x, xs, hx⟩ := reV_layVarItems_cons lv e rest
    have e1 : reV (layVarItems lv (d :: e :: rest)) = canonVarDecl none d :: reV (layVarItems lv (e :: rest)) := rfl
    rw [e1, hx]
    simp only [layVarItems]
    rw [← hx, ih, canonVarDecl_canonVarDecl]

theorem canonVarBlock_idem (lv : Nat) (b : SVarBlock) : canonVarBlock lv (canonVarBlock lv b) = canonVarBlock lv b := by
  have e : varDecls (canonVarBlock lv b) = reV (layVarItems lv (varDecls b)) := rfl
  have h := layVarItems_idem lv (varDecls b)
  rw [← e] at h
  simp only [canonVarBlock] at h ⊢
  rw [h]

theorem canonVar_idem (r : SVar) : canonVar (canonVar r) = canonVar r := by
  cases r with
  | comment b => rfl
  | unknown t => rfl
  | variables kw g0 blk => simp [canonVar, canonVarBlock_idem, gTrail_idem]

theorem canonPageSel_idem (s : SPageSel) : canonPageSel (canonPageSel s) = canonPageSel s := rfl
theorem selEmpty_canon (s : SPageSel) : selEmpty (canonPageSel s) = selEmpty s := rfl

/-! ## rules, statements, the sheet -/

theorem canonRules_nil_iff (lv : Nat) (inner : Bool) (rs : SRules) :
    (match inner, canonRules lv inner rs with
      | false, .nil => ([] : WGap)
      | _, _ => [nl lv]) =
    (match inner, rs with
      | false, .nil => ([] : WGap)
      | _, _ => [nl lv]) := by
  cases rs <;> cases inner <;> simp [canonRules]

mutual
theorem canonRule_idem (lv : Nat) : (r : SRule) → canonRule lv (canonRule lv r) = canonRule lv r
  | .comment b => by simp [canonRule]
  | .style sel blk => by simp [canonRule, canonSel_idem, canonBlock_idem]
  | .unknown t => by simp [canonRule]
  | .media kw g1 mq g2 name lead rules => by
    simp only [canonRule, gLead_idem]
    rw [canonRules_idem (lv + 1) true rules, gTrail_idem _ _ _ (by rfl), canonName_idem _ (by rfl)]
  | .fontface kw g1 blk => by
    simp only [canonRule, canonBlock_idem]
    rw [gTrail_idem _ _ _ (by rfl)]
  | .page kw g0 sel g1 blk => by
    simp only [canonRule, gLead_idem, canonPageSel_idem, selEmpty_canon, canonPageBlock_idem]
    by_cases h : selEmpty sel = true <;> simp [h, gTight_idem, gPage_idem]
theorem canonRules_idem (lv : Nat) (inner : Bool) : (rs : SRules) →
    canonRules lv inner (canonRules lv inner rs) = canonRules lv inner rs
  | .nil => by simp [canonRules]
  | .cons r w rest => by
    simp only [canonRules]
    rw [canonRule_idem lv r, canonRules_idem lv inner rest]
    cases rest <;> cases inner <;> simp [canonRules]
end

theorem canonImp_idem (r : SImp) : canonImp (canonImp r) = canonImp r := by
  cases r with
  | comment b => rfl
  | unknown t => rfl
  | import_ kw g1 href g2 mq name =>
    cases mq with
    | none =>
      simp only [canonImp, gLead_idem, canonHref_idem, Option.isSome_none, Bool.false_or, Option.map_none,
        nameWritten_canon, emptyNameGap_canon, canonName_idem [] rfl, List.append_nil, Bool.false_eq_true, ↓reduceIte]
      rw [gTrail_idem _ _ _ (comments_if_sp _)]
    | some p =>
      simp only [canonImp, gLead_idem, canonHref_idem, Option.isSome_some, Bool.true_or, Option.map_some,
        nameWritten_canon, emptyNameGap_canon, canonName_idem [] rfl, List.append_nil, ↓reduceIte]
      rw [gTrail_idem _ _ _ (by rfl), gTrail_idem _ _ _ (comments_if_sp _)]

theorem canonNs_idem (r : SNs) : canonNs (canonNs r) = canonNs r := by
  cases r with
  | comment b => rfl
  | unknown t => rfl
  | namespace_ kw g1 pfx uri g2 =>
    cases pfx <;> simp [canonNs, gLead_idem, canonNsUri_idem, gTrail_idem]

theorem layStmts_isEmpty {α : Type} (f : α → α) (more : Bool) (l : List (α × WGap)) :
    (layStmts f more l).isEmpty = l.isEmpty := by
  cases l with
  | nil => rfl
  | cons p rest => obtain ⟨r, w⟩ := p; rfl

theorem layStmts_idem {α : Type} (f : α → α) (hf : ∀ x, f (f x) = f x) (more : Bool) (l : List (α × WGap)) :
    layStmts f more (layStmts f more l) = layStmts f more l := by
  induction l with
  | nil => rfl
  | cons p rest ih => obtain ⟨r, w⟩ := p; simp [layStmts, hf, ih, layStmts_isEmpty]

theorem rulesEmpty_canon (lv : Nat) (inner : Bool) (rs : SRules) : rulesEmpty (canonRules lv inner rs) = rulesEmpty rs := by
  cases rs <;> simp [canonRules, rulesEmpty]

theorem canonV_idem (s : SSheet) : canonV (canonV s) = canonV s := by
  simp only [canonV, layStmts_isEmpty, rulesEmpty_canon, layStmts_idem canonImp canonImp_idem,
    layStmts_idem canonNs canonNs_idem, layStmts_idem canonVar canonVar_idem, canonRules_idem]
  cases s.charset <;> simp

end CssVerif.SheetCanon
