import CssVerif.Model.ParseAll
import CssVerif.Lemmas.Struct
/-!
# Loop bounds of the parser kernels

* every production of every `_parse` loop of the dispatcher leaves the shared iterator no longer than it found it
  (the guard of `Struct.parseLoop` never fires: each loop makes at most one iteration per token);
* `_prepare_tokens` never lengthens the token list, so the selector state machine makes at most one step per token;
* the `while True` loop of `SelectorList._setSelectorText` takes at least one token per round: the fuel
  `len + 1` of the model is never used up (any larger amount gives the same result).
-/
namespace CssVerif.ParseSteps
open CssVerif CssVerif.Struct

theorem unkStep_rest_le (s : UnkSt) (t : Tok) (rest : List Tok) : (unkStep s t rest).2.length ≤ rest.length := by
  have h := upto_rest_le .default (some t) rest
  unfold unkStep
  repeat' split
  all_goals first | exact Nat.le_refl _ | exact h

theorem nameStep_rest_le (s : NameSt) (t : Tok) (rest : List Tok) : (nameStep s t rest).2.length ≤ rest.length := by
  have h := upto_rest_le .default (some t) rest
  unfold nameStep
  repeat' split
  all_goals first | exact Nat.le_refl _ | exact h

theorem prioStep_rest_le (s : PrioSt) (t : Tok) (rest : List Tok) : (prioStep s t rest).2.length ≤ rest.length := by
  have h := upto_rest_le .default (some t) rest
  unfold prioStep
  repeat' split
  all_goals first | exact Nat.le_refl _ | exact h

theorem mediaStep_rest_le (O : Oracle) (ns : List (Proto.Cps × Proto.Cps)) (nested : List Tok → Option Rule)
    (acc : List Rule) (t : Tok) (rest : List Tok) : (mediaStep O ns nested acc t rest).2.length ≤ rest.length := by
  have h := upto_rest_le .default (some t) rest
  unfold mediaStep
  repeat' split
  all_goals first | exact Nat.le_refl _ | exact h

/-! ## selector machine -/

theorem prepStep_length (out : List Sel.Tok) (t : Sel.Tok) : (Sel.prepStep out t).length ≤ out.length + 1 := by
  cases out with
  | nil =>
    simp only [Sel.prepStep]
    repeat' split
    all_goals simp
  | cons last rest =>
    simp only [Sel.prepStep]
    repeat' split
    all_goals simp

theorem prepAcc_length (toks out : List Sel.Tok) : (Sel.prepAcc out toks).length ≤ out.length + toks.length := by
  induction toks generalizing out with
  | nil => simp [Sel.prepAcc]
  | cons t ts ih =>
    simp only [Sel.prepAcc, List.foldl_cons, List.length_cons]
    have h1 := ih (Sel.prepStep out t)
    have h2 := prepStep_length out t
    simp only [Sel.prepAcc] at h1
    omega

theorem prepare_length (toks : List Sel.Tok) : (Sel.prepare toks).length ≤ toks.length := by
  have := prepAcc_length toks []
  simpa [Sel.prepare] using this

theorem uptoComma_lengths (toks : List Sel.Tok) (b k p : Int) (acc : List Sel.Tok) :
    (Sel.uptoComma b k p acc toks).1.length + (Sel.uptoComma b k p acc toks).2.length = acc.length + toks.length := by
  induction toks generalizing b k p acc with
  | nil => simp [Sel.uptoComma]
  | cons x xs ih =>
    unfold Sel.uptoComma
    split
    · simp; omega
    · split
      · simp; omega
      · rw [ih]; simp; omega

theorem uptoComma_taken_pos (toks : List Sel.Tok) (b k p : Int) (acc : List Sel.Tok) (h : toks ≠ []) :
    acc.length + 1 ≤ (Sel.uptoComma b k p acc toks).1.length := by
  induction toks generalizing b k p acc with
  | nil => exact absurd rfl h
  | cons x xs ih =>
    unfold Sel.uptoComma
    split
    · simp
    · split
      · simp
      · cases xs with
        | nil => simp [Sel.uptoComma]
        | cons y ys =>
          have := ih (Sel.cntBrace b x.val) (Sel.cntBracket k x.val) (Sel.cntParant p x) (x :: acc) (by simp)
          simp only [List.length_cons] at this
          omega

/-- the rest after one round is shorter than the list (when anything was collected) -/
theorem uptoComma_rest_lt (toks : List Sel.Tok) (h : (Sel.uptoComma 0 0 0 [] toks).1 ≠ []) :
    (Sel.uptoComma 0 0 0 [] toks).2.length < toks.length := by
  cases toks with
  | nil => simp [Sel.uptoComma] at h
  | cons x xs =>
    have h1 := uptoComma_lengths (x :: xs) 0 0 0 []
    have h2 := uptoComma_taken_pos (x :: xs) 0 0 0 [] (by simp)
    simp only [List.length_nil, List.length_cons] at h1 h2 ⊢
    omega

/-- the list loop never runs out of fuel: every amount above the number of tokens gives the same result -/
theorem listLoop_fuel (ns : Sel.NsMap) (f₁ f₂ : Nat) (toks : List Sel.Tok) (e : Sel.ListExp) (wf : Bool)
    (acc : List Sel.SelRec) (h1 : toks.length < f₁) (h2 : toks.length < f₂) :
    Sel.listLoop ns f₁ toks e wf acc = Sel.listLoop ns f₂ toks e wf acc := by
  induction f₁ generalizing f₂ toks e wf acc with
  | zero => omega
  | succ n ih =>
    cases f₂ with
    | zero => omega
    | succ m =>
      unfold Sel.listLoop
      split
      · rfl
      · rename_i _ chunk rest hne heq
        have hlt : rest.length < toks.length := by
          have := uptoComma_rest_lt toks (by rw [heq]; exact fun h => hne h)
          rw [heq] at this; exact this
        simp only [bind, Except.bind]
        split
        · rfl
        · split
          · exact ih m rest _ _ _ (by omega) (by omega)
          · exact ih m rest _ _ _ (by omega) (by omega)

end CssVerif.ParseSteps
