import CssVerif.Lemmas.Ns
import CssVerif.Model.NsCalls
/-! helper lemmas for the call-level model of `New.append` -/
namespace CssVerif.Ns
open CssVerif.Proto

theorem runCalls_append_item (d : Dict) (it : SItem) (rest : List Call) :
    runCalls d none (callsOfItem it ++ rest) =
      match resolveItem d it with
      | .error e => .error e
      | .ok x => match runCalls d none rest with
        | .error e => .error e
        | .ok ys => .ok (.item x :: ys) := by
  cases it with
  | bad => simp [callsOfItem, runCalls, appendCall, resolveItem]
  | other v s =>
    simp only [callsOfItem, List.cons_append, List.nil_append, runCalls, appendCall, resolveItem]
    cases runCalls d none rest <;> simp
  | q k ps n =>
    cases ps with
    | noPfx =>
      simp only [callsOfItem, List.cons_append, List.nil_append, runCalls, appendCall, Option.getD_none]
      cases resolveItem d (.q k .noPfx n) with
      | error e => rfl
      | ok x => simp only; cases runCalls d none rest <;> simp
    | anyPfx =>
      simp only [callsOfItem, List.cons_append, List.nil_append, runCalls, appendCall, Option.getD_some]
      cases resolveItem d (.q k .anyPfx n) with
      | error e => rfl
      | ok x => simp only; cases runCalls d none rest <;> simp
    | emptyPfx =>
      simp only [callsOfItem, List.cons_append, List.nil_append, runCalls, appendCall, Option.getD_some]
      cases resolveItem d (.q k .emptyPfx n) with
      | error e => rfl
      | ok x => simp only; cases runCalls d none rest <;> simp
    | named p =>
      simp only [callsOfItem, List.cons_append, List.nil_append, runCalls, appendCall, Option.getD_some]
      cases resolveItem d (.q k (.named p) n) with
      | error e => rfl
      | ok x => simp only; cases runCalls d none rest <;> simp

end CssVerif.Ns
