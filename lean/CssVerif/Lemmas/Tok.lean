import CssVerif.Model.Tok
import CssVerif.Model.TokSpec
/-!
# Lemmas about the tokenizer model (`Model/Tok.lean`) — helpers for `Props/C05.lean`
-/
namespace CssVerif.Tok
open CssVerif CssVerif.Gen.C05

/-! ## `Re` helpers -/

theorem first_eq_head (r : Re) (s : Cps) : r.first s = (r.ms s).head? := rfl

theorem mem_ms_of_first {r : Re} {s : Cps} {l : Nat} (h : r.first s = some l) : l ∈ r.ms s := by
  unfold Re.first at h
  cases hm : r.ms s with
  | nil => simp [hm] at h
  | cons x xs => simp [hm] at h; subst h; simp

theorem first_isSome_of_ne_nil {r : Re} {s : Cps} (h : r.ms s ≠ []) : (r.first s).isSome := by
  unfold Re.first
  cases hm : r.ms s with
  | nil => exact absurd hm h
  | cons x xs => simp

theorem first_alt (a b : Re) (s : Cps) : (Re.alt a b).first s = (a.first s).or (b.first s) := by
  simp [Re.first, Re.ms, List.head?_append]

theorem first_cls_cons (neg : Bool) (rs : List (Nat × Nat)) (c : Nat) (t : Cps) :
    (Re.cls neg rs).first (c :: t) = if Re.inCls neg rs c then some 1 else none := by
  simp only [Re.first, Re.ms]; split <;> simp

theorem first_cls_nil (neg : Bool) (rs : List (Nat × Nat)) : (Re.cls neg rs).first [] = none := by
  simp [Re.first, Re.ms]

theorem first_seq_cls_cons (neg : Bool) (rs : List (Nat × Nat)) (b : Re) (c : Nat) (t : Cps) :
    (Re.seq (.cls neg rs) b).first (c :: t) = if Re.inCls neg rs c then (b.first t).map (1 + ·) else none := by
  simp only [Re.first, Re.ms]
  split <;> simp [List.head?_map]

theorem first_seq_cls_nil (neg : Bool) (rs : List (Nat × Nat)) (b : Re) :
    (Re.seq (.cls neg rs) b).first [] = none := by
  simp [Re.first, Re.ms]

theorem first_seq_some {a b : Re} {s : Cps} {l1 l2 : Nat} (h1 : a.first s = some l1)
    (h2 : b.first (s.drop l1) = some l2) : (Re.seq a b).first s = some (l1 + l2) := by
  unfold Re.first at *
  simp only [Re.ms]
  cases ha : a.ms s with
  | nil => simp [ha] at h1
  | cons x xs =>
    simp [ha] at h1; subst h1
    cases hb : b.ms (s.drop x) with
    | nil => simp [hb] at h2
    | cons y ys => simp [hb] at h2; subst h2; simp [hb]

theorem first_seq_none {a b : Re} {s : Cps} (h1 : a.ms s = []) : (Re.seq a b).first s = none := by
  simp [Re.first, Re.ms, h1]

/-- a greedy bounded repeat of a one-code-point matcher returns the longest run first -/
theorem head_repMs_cls (f : Cps → List Nat) (p : Nat → Bool) (hnil : f [] = [])
    (hcons : ∀ c t, f (c :: t) = if p c then [1] else []) (n : Nat) : ∀ (m : Nat) (s : Cps),
    (Re.repMs f true m n s).head? = if m ≤ runLen p s n then some (runLen p s n) else none := by
  induction n with
  | zero =>
    intro m s
    simp only [Re.repMs, runLen]
    by_cases hm : m = 0 <;> simp [hm]
  | succ n ih =>
    intro m s
    cases s with
    | nil =>
      simp only [Re.repMs, hnil, runLen]
      by_cases hm : m = 0 <;> simp [hm]
    | cons c t =>
      simp only [Re.repMs, hcons, runLen]
      by_cases hc : p c = true
      · simp only [hc, if_true, List.flatMap_cons, List.flatMap_nil, List.append_nil, List.drop_one, List.tail_cons]
        have := ih (m - 1) t
        by_cases hm : m = 0
        · subst hm
          simp only [Nat.zero_sub, Nat.zero_le, if_true] at this
          simp [List.head?_append, List.head?_map, this]
        · simp only [hm, if_false, List.head?_map, this]
          by_cases hr : m - 1 ≤ runLen p t n
          · have : m ≤ 1 + runLen p t n := by omega
            simp [hr, this]
          · have : ¬ m ≤ 1 + runLen p t n := by omega
            simp [hr, this]
      · simp only [hc]
        by_cases hm : m = 0 <;> simp [hm]

theorem first_rep_cls (neg : Bool) (rs : List (Nat × Nat)) (m n : Nat) (s : Cps) :
    (Re.rep (.cls neg rs) m n true).first s =
      if m ≤ runLen (Re.inCls neg rs) s n then some (runLen (Re.inCls neg rs) s n) else none := by
  simp only [Re.first, Re.ms]
  exact head_repMs_cls _ (Re.inCls neg rs) (by simp [Re.ms]) (by intro c t; simp [Re.ms]) n m s

/-- spans of a list of items, concatenated -/
def spans (items : List Item) : Cps := (items.map (·.span)).flatten

@[simp] theorem spans_nil : spans [] = [] := rfl
@[simp] theorem spans_cons (it : Item) (l : List Item) : spans (it :: l) = it.span ++ spans l := by
  simp [spans]
@[simp] theorem spans_append (a b : List Item) : spans (a ++ b) = spans a ++ spans b := by
  simp [spans]

/-! ## tiling -/

theorem loop_tile (full doC : Bool) (fuel : Nat) (s : Cps) (line col : Nat) :
    spans (loop full doC fuel s line col).items ++ (loop full doC fuel s line col).stop.rest = s := by
  fun_induction loop full doC fuel s line col <;> simp_all [Res.cons, Stop.rest]

/-! ## the fuel is never exhausted -/

theorem loop_noFuel (full doC : Bool) (fuel : Nat) (s : Cps) (line col : Nat) (h : s.length < fuel) :
    ∀ r, (loop full doC fuel s line col).stop ≠ .noFuel r := by
  fun_induction loop full doC fuel s line col
  all_goals (try simp_all [Res.cons]; done)
  case case9 ih =>
    simp only [Res.cons]
    apply ih
    simp only [List.length_drop, List.length_cons] at *
    omega

/-! ## specification of escapes (independent of `Re`) -/

theorem inCls_hex (c : Nat) : Re.inCls false [(48, 57), (97, 102), (65, 70)] c = isHex c := by
  simp only [Re.inCls, isHex, List.any_cons, List.any_nil, Bool.or_false]
  cases h1 : (decide (48 ≤ c) && decide (c ≤ 57)) <;> cases h2 : (decide (97 ≤ c) && decide (c ≤ 102)) <;>
    cases h3 : (decide (65 ≤ c) && decide (c ≤ 70)) <;> simp

theorem le_and_le_iff (a c : Nat) : (a ≤ c ∧ c ≤ a) ↔ c = a := by omega

theorem first_optWs (s : Cps) :
    (Re.rep (Re.alt (Re.seq (Re.cls false [(13, 13)]) (Re.cls false [(10, 10)]))
      (Re.cls false [(9, 9), (13, 13), (10, 10), (12, 12), (32, 32)])) 0 1 true).first s = some (wsLen s) := by
  rcases s with _ | ⟨c, _ | ⟨d, u⟩⟩
  · simp [Re.first, Re.ms, Re.repMs, wsLen]
  · simp only [Re.first, Re.ms, Re.repMs, Re.inCls, wsLen, isWs]
    by_cases h13 : c = 13
    · subst h13; simp
    · by_cases h9 : c = 9 <;> by_cases h10 : c = 10 <;> by_cases h12 : c = 12 <;> by_cases h32 : c = 32 <;>
        simp_all [le_and_le_iff]
  · simp only [Re.first, Re.ms, Re.repMs, Re.inCls, wsLen, isWs]
    by_cases h13 : c = 13
    · subst h13
      by_cases hd : d = 10
      · subst hd; simp
      · simp [hd, le_and_le_iff]
    · by_cases h9 : c = 9 <;> by_cases h10 : c = 10 <;> by_cases h12 : c = 12 <;> by_cases h32 : c = 32 <;>
        simp_all [le_and_le_iff]
theorem runLen_congr (p q : Nat → Bool) (h : ∀ c, p c = q c) (s : Cps) (n : Nat) : runLen p s n = runLen q s n := by
  have : p = q := funext h
  subst this; rfl

theorem inCls_single (a c : Nat) : Re.inCls false [(a, a)] c = decide (c = a) := by
  by_cases h : c = a
  · subst h; simp [Re.inCls]
  · simp only [Re.inCls, List.any_cons, List.any_nil, Bool.or_false, h, decide_false]
    cases h1 : decide (a ≤ c) <;> cases h2 : decide (c ≤ a) <;> simp_all
    omega

theorem first_unicodesub (s : Cps) : unicodesubRe.first s = escLen s := by
  unfold unicodesubRe
  rcases s with _ | ⟨c, t⟩
  · simp [first_seq_cls_nil, escLen]
  · rw [first_seq_cls_cons]
    by_cases hc : c = 92
    · subst hc
      have h92 : Re.inCls false [(92, 92)] 92 = true := by decide
      simp only [h92, if_true, first_alt]
      rcases t with _ | ⟨d, u⟩
      · simp [first_cls_nil, escLen, runLen, first_seq_none, Re.ms, Re.repMs]
      · rw [first_cls_cons]
        by_cases hd : d = 92
        · subst hd; simp [escLen, inCls_single]
        · have hn : Re.inCls false [(92, 92)] d = false := by simp [inCls_single, hd]
          simp only [hn, Bool.false_eq_true, if_false, Option.none_or]
          have hrun := first_rep_cls false [(48, 57), (97, 102), (65, 70)] 1 6 (d :: u)
          rw [runLen_congr _ isHex inCls_hex] at hrun
          by_cases hz : runLen isHex (d :: u) 6 = 0
          · have h1 : ¬ 1 ≤ runLen isHex (d :: u) 6 := by omega
            simp only [h1, if_false] at hrun
            have hnil : (Re.rep (Re.cls false [(48, 57), (97, 102), (65, 70)]) 1 6 true).ms (d :: u) = [] := by
              simpa [Re.first] using hrun
            simp [first_seq_none hnil, escLen, hd, hz]
          · have h1 : 1 ≤ runLen isHex (d :: u) 6 := by omega
            simp only [h1, if_true] at hrun
            rw [first_seq_some hrun (first_optWs _)]
            simp [escLen, hd, hz]; omega
    · have hn : Re.inCls false [(92, 92)] c = false := by simp [inCls_single, hc]
      simp [hn, escLen, hc]

theorem runLen_le_length (p : Nat → Bool) : ∀ (t : Cps) (k : Nat), runLen p t k ≤ t.length := by
  intro t
  induction t with
  | nil => intro k; cases k <;> simp [runLen]
  | cons c t ih =>
    intro k
    cases k with
    | zero => simp [runLen]
    | succ k => simp only [runLen]; split <;> simp; have := ih k; omega

theorem all_take_runLen (p : Nat → Bool) : ∀ (t : Cps) (k : Nat), ∀ x ∈ t.take (runLen p t k), p x = true := by
  intro t
  induction t with
  | nil => intro k x hx; simp at hx
  | cons c t ih =>
    intro k x hx
    cases k with
    | zero => simp [runLen] at hx
    | succ k =>
      simp only [runLen] at hx
      split at hx
      · rw [Nat.add_comm, List.take_succ_cons] at hx
        simp only [List.mem_cons] at hx
        rcases hx with rfl | hx
        · assumption
        · exact ih k x hx
      · simp at hx

theorem isWs_not_hex (c : Nat) (h : isWs c = true) : isHex c = false := by
  simp only [isWs, Bool.or_eq_true, beq_iff_eq] at h
  rcases h with (((h | h) | h) | h) | h <;> subst h <;> decide

theorem isWs_pyWs (c : Nat) (h : isWs c = true) : pyWs c = true := by
  simp only [isWs, Bool.or_eq_true, beq_iff_eq] at h
  rcases h with (((h | h) | h) | h) | h <;> subst h <;> decide

theorem take_wsLen (s : Cps) : ∀ x ∈ s.take (wsLen s), isWs x = true := by
  intro x hx
  rcases s with _ | ⟨c, t⟩
  · simp at hx
  · simp only [wsLen] at hx
    split at hx
    · rename_i h
      obtain ⟨rfl, h2⟩ := h
      rcases t with _ | ⟨d, u⟩
      · simp at h2
      · simp at h2; subst h2
        simp at hx
        rcases hx with rfl | rfl <;> decide
    · split at hx
      · simp at hx; subst hx; assumption
      · simp at hx

theorem takeWhile_nil_of_all_false (p : Nat → Bool) (b : Cps) (h : ∀ x ∈ b, p x = false) : b.takeWhile p = [] := by
  cases b with
  | nil => rfl
  | cons c t => simp [List.takeWhile, h c (by simp)]

theorem dropWhile_id_of_all_false (p : Nat → Bool) (b : Cps) (h : ∀ x ∈ b, p x = false) : b.dropWhile p = b := by
  cases b with
  | nil => rfl
  | cons c t => simp [List.dropWhile, h c (by simp)]

theorem pyIntHex_append (a b : Cps) (ha : ∀ x ∈ a, isHex x = true) (hne : a ≠ [])
    (hb : ∀ x ∈ b, isWs x = true) : pyIntHex (a ++ b) = some (hexNum a) := by
  have hb1 : ∀ x ∈ b, isHex x = false := fun x hx => isWs_not_hex x (hb x hx)
  have hb2 : ∀ x ∈ b, pyWs x = true := fun x hx => isWs_pyWs x (hb x hx)
  have e1 : (a ++ b).takeWhile isHex = a := by
    rw [List.takeWhile_append_of_pos ha, takeWhile_nil_of_all_false _ _ hb1]; simp
  have e2 : (a ++ b).dropWhile isHex = b := by
    rw [List.dropWhile_append_of_pos ha, dropWhile_id_of_all_false _ _ hb1]
  unfold pyIntHex
  rw [e1, e2]
  have : a.isEmpty = false := by cases a <;> simp_all
  simp [this, List.all_eq_true.mpr hb2]

theorem repl_hex (d : Nat) (u : Cps) (hd : d ≠ 92) (hh : isHex d = true) :
    repl (92 :: (d :: u).take (runLen isHex (d :: u) 6 + wsLen ((d :: u).drop (runLen isHex (d :: u) 6)))) =
      some (decodeHex ((d :: u).take (runLen isHex (d :: u) 6))
        (92 :: (d :: u).take (runLen isHex (d :: u) 6 + wsLen ((d :: u).drop (runLen isHex (d :: u) 6))))) := by
  generalize hn : runLen isHex (d :: u) 6 = n
  generalize hw : wsLen ((d :: u).drop n) = w
  have hpos : 1 ≤ n := by subst hn; simp [runLen, hh]; 
  have hne : (d :: u).take n ≠ [] := by
    cases n with
    | zero => omega
    | succ k => simp
  have hsplit : (d :: u).take (n + w) = (d :: u).take n ++ ((d :: u).drop n).take w := List.take_add
  have hA : ∀ x ∈ (d :: u).take n, isHex x = true := by subst hn; exact all_take_runLen isHex _ 6
  have hB : ∀ x ∈ ((d :: u).drop n).take w, isWs x = true := by subst hw; exact take_wsLen _
  have hnot : ((92 :: (d :: u).take (n + w)) == [92, 92]) = false := by
    cases n with
    | zero => omega
    | succ k =>
      rw [Nat.add_right_comm, List.take_succ_cons]
      simp [hd]
  have hdnl : (d == 10 || d == 13 || d == 12) = false := by
    have : isNl d = false := by
      cases h : isNl d with
      | false => rfl
      | true =>
        have hd' : d = 10 ∨ d = 13 ∨ d = 12 := by simpa [isNl, or_assoc] using h
        rcases hd' with rfl | rfl | rfl <;> revert hh <;> decide
    simpa [isNl] using this
  have hshape : ∃ r, (d :: u).take (n + w) = d :: r := by
    cases n with
    | zero => omega
    | succ k => exact ⟨_, by rw [Nat.add_right_comm, List.take_succ_cons]⟩
  obtain ⟨r, hr⟩ := hshape
  unfold repl
  rw [if_neg (by simpa using hnot), hr]
  simp only [hdnl, Bool.false_eq_true, if_false, List.drop_one, List.tail_cons]
  rw [← hr, hsplit, pyIntHex_append _ _ hA hne hB]
  simp only [decodeHex]
  by_cases h5 : hexNum (List.take n (d :: u)) = 92
  · simp [h5]
  · by_cases hm : hexNum (List.take n (d :: u)) ≤ 1114111 <;> simp [h5, hm]

theorem subGo_skip (r : Re) (f : Cps → Option Cps) : ∀ (s : Cps) (k : Nat),
    subGo r f s k = subGo r f (s.drop k) 0 := by
  intro s
  induction s with
  | nil => intro k; cases k <;> simp [subGo]
  | cons c t ih =>
    intro k
    cases k with
    | zero => simp
    | succ k => simp only [subGo, List.drop_succ_cons]; exact ih k

theorem subU_unescapeF : ∀ (fuel : Nat) (s : Cps), s.length ≤ fuel → subGo unicodesubRe repl s 0 = some (unescapeF fuel s) := by
  intro fuel
  induction fuel with
  | zero => intro s h; cases s <;> simp_all [subGo, unescapeF]
  | succ f ih =>
    intro s h
    rcases s with _ | ⟨c, t⟩
    · simp [subGo, unescapeF]
    · simp only [List.length_cons] at h
      have ht : t.length ≤ f := by omega
      simp only [subGo, first_unicodesub, unescapeF]
      by_cases hc : c = 92
      · subst hc
        rcases t with _ | ⟨d, u⟩
        · simp [escLen, runLen, subGo]
        · by_cases hd : d = 92
          · subst hd
            have hu : u.length ≤ f := by simp at ht; omega
            simp [escLen, subGo, ih u hu, repl]
          · by_cases hh : isHex d = true
            · have hz : runLen isHex (d :: u) 6 ≠ 0 := by simp [runLen, hh]
              simp only [escLen, hd, hz, hh, List.head?_cons, Option.some.injEq, ne_eq, not_true_eq_false,
                if_false, if_true]
              have e : 1 + runLen isHex (d :: u) 6 + wsLen (List.drop (runLen isHex (d :: u) 6) (d :: u)) =
                  (runLen isHex (d :: u) 6 + wsLen (List.drop (runLen isHex (d :: u) 6) (d :: u))) + 1 := by omega
              rw [e]
              simp only [List.take_succ_cons]
              rw [repl_hex d u hd hh, subGo_skip]
              have hl : (List.drop (runLen isHex (d :: u) 6 + wsLen (List.drop (runLen isHex (d :: u) 6) (d :: u))) (d :: u)).length ≤ f := by
                simp only [List.length_drop]; omega
              rw [ih _ hl]
            · have hz : runLen isHex (d :: u) 6 = 0 := by simp [runLen, hh]
              simp [escLen, hd, hz, hh, ih _ ht]
      · simp [escLen, hc, ih t ht]

theorem subU_eq_unescape (s : Cps) : subU s = some (unescape s) := subU_unescapeF s.length s (Nat.le_refl _)

theorem first_stringsub (s : Cps) : stringsubRe.first s = strLen s := by
  unfold stringsubRe
  rcases s with _ | ⟨c, t⟩
  · simp [first_seq_cls_nil, strLen]
  · rw [first_seq_cls_cons]
    by_cases hc : c = 92
    · subst hc
      have h92 : Re.inCls false [(92, 92)] 92 = true := by decide
      simp only [h92, if_true, first_alt]
      rcases t with _ | ⟨d, u⟩
      · simp [first_cls_nil, strLen, first_seq_none, Re.ms, Re.repMs, Re.first]
      · rw [first_cls_cons]
        by_cases hd : d = 92
        · subst hd; simp [strLen, inCls_single]
        · have hn : Re.inCls false [(92, 92)] d = false := by simp [inCls_single, hd]
          simp only [hn, Bool.false_eq_true, if_false, Option.none_or]
          by_cases hcrlf : d = 13 ∧ u.head? = some 10
          · obtain ⟨rfl, hu⟩ := hcrlf
            rcases u with _ | ⟨e, v⟩
            · simp at hu
            · simp only [List.head?_cons, Option.some.injEq] at hu; subst hu
              simp [strLen, Re.first, Re.ms, Re.inCls]
          · by_cases hnl : isNl d = true
            · have hd' : d = 10 ∨ d = 13 ∨ d = 12 := by simpa [isNl, or_assoc] using hnl
              have hcls : Re.inCls false [(10, 10), (13, 13), (12, 12)] d = true := by
                rcases hd' with rfl | rfl | rfl <;> decide
              have hseq : (Re.seq (Re.cls false [(13, 13)]) (Re.cls false [(10, 10)])).first (d :: u) = none := by
                rw [first_seq_cls_cons]
                by_cases h13 : d = 13
                · subst h13
                  have hu : ¬ u.head? = some 10 := fun h => hcrlf ⟨rfl, h⟩
                  rcases u with _ | ⟨e, v⟩
                  · simp [first_cls_nil]
                  · have he : e ≠ 10 := by simpa using hu
                    simp [first_cls_cons, inCls_single, he]
                · simp [inCls_single, h13]
              simp only [first_alt, hseq, Option.none_or, first_cls_cons, hcls, if_true, Option.some_or]
              simp [strLen, hd, hcrlf, hnl]
            · have hnl' : isNl d = false := by simpa using hnl
              have hcls : Re.inCls false [(10, 10), (13, 13), (12, 12)] d = false := by
                simp only [isNl, Bool.or_eq_false_iff, beq_eq_false_iff_ne] at hnl'
                simp [Re.inCls]; omega
              have hd13 : d ≠ 13 := by intro e; subst e; exact hnl (by decide)
              have hseq : (Re.seq (Re.cls false [(13, 13)]) (Re.cls false [(10, 10)])).first (d :: u) = none := by
                rw [first_seq_cls_cons]; simp [inCls_single, hd13]
              simp only [first_alt, hseq, Option.none_or, first_cls_cons, hcls, Bool.false_eq_true, if_false]
              have hrun := first_rep_cls false [(48, 57), (97, 102), (65, 70)] 1 6 (d :: u)
              rw [runLen_congr _ isHex inCls_hex] at hrun
              by_cases hz : runLen isHex (d :: u) 6 = 0
              · have h1 : ¬ 1 ≤ runLen isHex (d :: u) 6 := by omega
                simp only [h1, if_false] at hrun
                have hnil : (Re.rep (Re.cls false [(48, 57), (97, 102), (65, 70)]) 1 6 true).ms (d :: u) = [] := by
                  simpa [Re.first] using hrun
                simp [first_seq_none hnil, strLen, hd, hcrlf, hnl, hz]
              · have h1 : 1 ≤ runLen isHex (d :: u) 6 := by omega
                simp only [h1, if_true] at hrun
                rw [first_seq_some hrun (first_optWs _)]
                simp [strLen, hd, hcrlf, hnl, hz]; omega
    · have hn : Re.inCls false [(92, 92)] c = false := by simp [inCls_single, hc]
      simp [hn, strLen, hc]

theorem subS_stringValueF : ∀ (fuel : Nat) (s : Cps), s.length ≤ fuel →
    subGo stringsubRe repl s 0 = some (stringValueF fuel s) := by
  intro fuel
  induction fuel with
  | zero => intro s h; cases s <;> simp_all [subGo, stringValueF]
  | succ f ih =>
    intro s h
    rcases s with _ | ⟨c, t⟩
    · simp [subGo, stringValueF]
    · simp only [List.length_cons] at h
      have ht : t.length ≤ f := by omega
      simp only [subGo, first_stringsub, stringValueF]
      by_cases hc : c = 92
      · subst hc
        rcases t with _ | ⟨d, u⟩
        · simp [strLen, subGo]
        · have hu : u.length ≤ f := by simp at ht; omega
          by_cases hd : d = 92
          · subst hd
            simp [strLen, subGo, ih u hu, repl]
          · by_cases hcrlf : d = 13 ∧ u.head? = some 10
            · obtain ⟨rfl, hh⟩ := hcrlf
              rcases u with _ | ⟨e, v⟩
              · simp at hh
              · simp only [List.head?_cons, Option.some.injEq] at hh; subst hh
                have hv : v.length ≤ f := by simp at hu; omega
                simp [strLen, subGo, repl, ih v hv]
            · by_cases hnl : isNl d = true
              · have hd' : d = 10 ∨ d = 13 ∨ d = 12 := by simpa [isNl, or_assoc] using hnl
                have hrepl : repl [92, d] = some [] := by
                  rcases hd' with rfl | rfl | rfl <;> decide
                simp only [strLen, hd, hcrlf, hnl, ne_eq, not_true_eq_false, if_false, if_true, List.take_succ_cons,
                  List.take_zero, hrepl, subGo, ih u hu]
                simp
              · by_cases hh : isHex d = true
                · have hz : runLen isHex (d :: u) 6 ≠ 0 := by simp [runLen, hh]
                  simp only [strLen, hd, hcrlf, hnl, hz, hh, ne_eq, not_true_eq_false, if_false, if_true,
                    Bool.false_eq_true]
                  have e : 1 + runLen isHex (d :: u) 6 + wsLen (List.drop (runLen isHex (d :: u) 6) (d :: u)) =
                      (runLen isHex (d :: u) 6 + wsLen (List.drop (runLen isHex (d :: u) 6) (d :: u))) + 1 := by omega
                  rw [e]
                  simp only [List.take_succ_cons]
                  rw [repl_hex d u hd hh, subGo_skip]
                  have hl : (List.drop (runLen isHex (d :: u) 6 + wsLen (List.drop (runLen isHex (d :: u) 6) (d :: u))) (d :: u)).length ≤ f := by
                    simp only [List.length_drop]; omega
                  rw [ih _ hl]
                · have hz : runLen isHex (d :: u) 6 = 0 := by simp [runLen, hh]
                  simp [strLen, hd, hcrlf, hnl, hz, hh, ih _ ht]
      · simp [strLen, hc, ih t ht]

theorem subS_eq_stringValue (s : Cps) : subS s = some (stringValue s) := subS_stringValueF s.length s (Nat.le_refl _)

theorem subGo_isSome (r : Re) (f : Cps → Option Cps) (hr : r.nonNullable = true) (hf : ∀ m, (f m).isSome) :
    ∀ (s : Cps) (k : Nat), (subGo r f s k).isSome := by
  intro s
  induction s with
  | nil => intro k; simp [subGo]
  | cons c t ih =>
    intro k
    cases k with
    | succ k => simp only [subGo]; exact ih k
    | zero =>
      simp only [subGo]
      cases hfi : r.first (c :: t) with
      | none => simp [ih 0]
      | some l =>
        have := Re.first_pos r hr _ _ hfi
        obtain ⟨k, rfl⟩ : ∃ k, l = k + 1 := ⟨l - 1, by omega⟩
        obtain ⟨a, ha⟩ := Option.isSome_iff_exists.mp (hf ((c :: t).take (k + 1)))
        obtain ⟨b, hb⟩ := Option.isSome_iff_exists.mp (ih k)
        simp only [ha, hb, Option.isSome_some]

theorem normalize_isSome (x : Cps) : (normalize x).isSome := by
  unfold normalize
  split
  · simp
  · obtain ⟨v, hv⟩ := Option.isSome_iff_exists.mp
      (subGo_isSome simpleescapesRe (fun m => some (m.drop 1)) (by decide) (by intro m; simp) x 0)
    rw [hv]; simp

theorem normalizeU_isSome (x : Cps) : (normalizeU x).isSome := by
  unfold normalizeU
  rw [subU_eq_unescape]
  exact normalize_isSome _

/-- syntactic: `r` matches (possibly empty) at the start of every input -/
def always : Re → Bool
  | .eps => true
  | .cls _ _ => false
  | .seq a b => always a && always b
  | .alt a b => always a || always b
  | .star _ _ => true
  | .rep _ m _ _ => m == 0
  | .eol => false

/-- syntactic: `r` matches at the start of every input that begins with `c` -/
def startsOk (c : Nat) : Re → Bool
  | .eps => true
  | .cls neg rs => Re.inCls neg rs c
  | .seq a b => startsOk c a && always b
  | .alt a b => startsOk c a || startsOk c b
  | .star _ _ => true
  | .rep _ m _ _ => m == 0
  | .eol => false

theorem starMs_ne_nil (f : Cps → List Nat) (g : Bool) (fuel : Nat) (s : Cps) : Re.starMs f g fuel s ≠ [] := by
  cases fuel with
  | zero => simp [Re.starMs]
  | succ n => simp only [Re.starMs]; split <;> simp

theorem repMs_zero_ne_nil (f : Cps → List Nat) (g : Bool) (n : Nat) (s : Cps) : Re.repMs f g 0 n s ≠ [] := by
  cases n with
  | zero => simp [Re.repMs]
  | succ n => simp only [Re.repMs, if_true]; cases g <;> simp

theorem seq_ne_nil {a b : Re} {s : Cps} (ha : a.ms s ≠ []) (hb : ∀ s', b.ms s' ≠ []) : (Re.seq a b).ms s ≠ [] := by
  simp only [Re.ms]
  cases h : a.ms s with
  | nil => exact absurd h ha
  | cons x xs =>
    cases h2 : b.ms (s.drop x) with
    | nil => exact absurd h2 (hb _)
    | cons y ys => simp [h2]

theorem always_sound : ∀ r : Re, always r = true → ∀ s, r.ms s ≠ [] := by
  intro r
  induction r with
  | eps => intro _ s; simp [Re.ms]
  | cls neg rs => intro h; simp [always] at h
  | seq a b iha ihb =>
    intro h s
    simp only [always, Bool.and_eq_true] at h
    exact seq_ne_nil (iha h.1 s) (ihb h.2)
  | alt a b iha ihb =>
    intro h s
    simp only [always, Bool.or_eq_true] at h
    simp only [Re.ms, ne_eq, List.append_eq_nil_iff, not_and]
    rcases h with h | h
    · intro h1; exact absurd h1 (iha h s)
    · intro _; exact ihb h s
  | star a g _ => intro _ s; exact starMs_ne_nil _ _ _ _
  | rep a m n g _ =>
    intro h s
    simp only [always, beq_iff_eq] at h
    subst h
    exact repMs_zero_ne_nil _ _ _ _
  | eol => intro h; simp [always] at h

theorem startsOk_sound (c : Nat) : ∀ r : Re, startsOk c r = true → ∀ t, r.ms (c :: t) ≠ [] := by
  intro r
  induction r with
  | eps => intro _ s; simp [Re.ms]
  | cls neg rs => intro h t; simp only [startsOk] at h; simp [Re.ms, h]
  | seq a b iha _ =>
    intro h t
    simp only [startsOk, Bool.and_eq_true] at h
    exact seq_ne_nil (iha h.1 t) (always_sound b h.2)
  | alt a b iha ihb =>
    intro h t
    simp only [startsOk, Bool.or_eq_true] at h
    simp only [Re.ms, ne_eq, List.append_eq_nil_iff, not_and]
    rcases h with h | h
    · intro h1; exact absurd h1 (iha h t)
    · intro _; exact ihb h t
  | star a g _ => intro _ s; exact starMs_ne_nil _ _ _ _
  | rep a m n g _ =>
    intro h s
    simp only [startsOk, beq_iff_eq] at h
    subst h
    exact repMs_zero_ne_nil _ _ _ _
  | eol => intro h; simp [startsOk] at h

/-- some production other than IDENT matches at every non-empty input: INVALID after a quote, CHAR otherwise -/
theorem exists_match (c : Nat) (t : Cps) :
    ∃ p ∈ productions, p.1 ≠ "IDENT" ∧ (p.2.first (c :: t)).isSome := by
  by_cases h34 : c = 34
  · subst h34
    exact ⟨("INVALID", reINVALID), by simp [productions], by decide,
      first_isSome_of_ne_nil (startsOk_sound 34 reINVALID (by decide) t)⟩
  · by_cases h39 : c = 39
    · subst h39
      exact ⟨("INVALID", reINVALID), by simp [productions], by decide,
        first_isSome_of_ne_nil (startsOk_sound 39 reINVALID (by decide) t)⟩
    · refine ⟨("CHAR", reCHAR), by simp [productions], by decide, ?_⟩
      have : Re.inCls true [(34, 34), (39, 39)] c = true := by
        simp only [Re.inCls, List.any_cons, List.any_nil, Bool.or_false]
        have e1 : (decide (34 ≤ c) && decide (c ≤ 34)) = false := by
          cases h1 : decide (34 ≤ c) <;> cases h2 : decide (c ≤ 34) <;> simp_all; omega
        have e2 : (decide (39 ≤ c) && decide (c ≤ 39)) = false := by
          cases h1 : decide (39 ≤ c) <;> cases h2 : decide (c ≤ 39) <;> simp_all; omega
        simp [e1, e2]
      simp [reCHAR, first_cls_cons, this]

theorem identContinue_name {name : String} {s : Cps} {l : Nat} (h : identContinue name s l = true) :
    name = "IDENT" := by
  simp only [identContinue, Bool.and_eq_true, beq_iff_eq] at h
  exact h.1.1.1

theorem scan_hit (full doC : Bool) (s : Cps) : ∀ (ps : List (String × Re)) (name : String) (l : Nat),
    scan full doC s ps = .hit name l → ∃ r, (name, r) ∈ ps ∧ r.first s = some l := by
  intro ps
  induction ps with
  | nil => intro name l h; simp [scan] at h
  | cons p ps ih =>
    intro name l h
    obtain ⟨pn, pr⟩ := p
    simp only [scan] at h
    split at h
    · simp at h
    · split at h
      · obtain ⟨r, hr, hf⟩ := ih name l h
        exact ⟨r, List.mem_cons_of_mem _ hr, hf⟩
      · split at h
        · obtain ⟨r, hr, hf⟩ := ih name l h
          exact ⟨r, List.mem_cons_of_mem _ hr, hf⟩
        · simp only [Scan.hit.injEq] at h
          obtain ⟨rfl, rfl⟩ := h
          exact ⟨pr, by simp, by assumption⟩

theorem scan_nomatch (full doC : Bool) (s : Cps) : ∀ (ps : List (String × Re)),
    scan full doC s ps = .nomatch → ∀ p ∈ ps, p.2.first s = none ∨ p.1 = "IDENT" := by
  intro ps
  induction ps with
  | nil => intro _ p hp; simp at hp
  | cons q ps ih =>
    intro h p hp
    obtain ⟨qn, qr⟩ := q
    simp only [scan] at h
    split at h
    · simp at h
    · split at h
      · rename_i hnone
        rcases List.mem_cons.mp hp with rfl | hp
        · exact Or.inl hnone
        · exact ih h p hp
      · split at h
        · rename_i hic
          rcases List.mem_cons.mp hp with rfl | hp
          · exact Or.inr (identContinue_name hic)
          · exact ih h p hp
        · simp at h

theorem scan_ne_nomatch (full doC : Bool) (c : Nat) (t : Cps) : scan full doC (c :: t) productions ≠ .nomatch := by
  intro h
  obtain ⟨p, hp, hne, hsome⟩ := exists_match c t
  rcases scan_nomatch full doC _ _ h p hp with h1 | h1
  · simp [h1] at hsome
  · exact hne h1

theorem productions_nonNullable : ∀ p ∈ productions, p.2.nonNullable = true := by decide

theorem scan_hit_pos (full doC : Bool) (s : Cps) (name : String) (l : Nat)
    (h : scan full doC s productions = .hit name l) : 0 < l ∧ l ≤ s.length := by
  obtain ⟨r, hr, hf⟩ := scan_hit full doC s productions name l h
  exact ⟨Re.first_pos r (productions_nonNullable _ hr) s l hf, Re.first_bounded r s l hf⟩

theorem tryEnds_ne (s : Cps) (hs : s ≠ []) : ∀ (es : List Cps) (u : Cps), tryEnds s es = some u → u ≠ [] := by
  intro es
  induction es with
  | nil => intro u h; simp [tryEnds] at h
  | cons e es ih =>
    intro u h
    simp only [tryEnds] at h
    split at h
    · rename_i l hl
      simp only [Option.some.injEq] at h
      subst h
      have hpos := Re.first_pos uriRe (by decide) _ _ hl
      cases s with
      | nil => exact absurd rfl hs
      | cons c t =>
        obtain ⟨k, rfl⟩ : ∃ k, l = k + 1 := ⟨l - 1, by omega⟩
        simp
    · exact ih u h

theorem complete_isSome (full : Bool) (s : Cps) (name : String) (found : Cps) (hs : s ≠ []) (hne : found ≠ []) :
    ∃ nf, complete full s name found = some nf ∧ nf.found ≠ [] := by
  unfold complete
  split
  · split
    · cases found with
      | nil => exact absurd rfl hne
      | cons q rest => exact ⟨_, rfl, by simp⟩
    · split
      · obtain ⟨n, hn⟩ := Option.isSome_iff_exists.mp (normalizeU_isSome found)
        simp only [hn]
        split
        · split
          · rename_i u hu
            exact ⟨_, rfl, tryEnds_ne s hs _ _ hu⟩
          · exact ⟨_, rfl, hne⟩
        · exact ⟨_, rfl, hne⟩
      · exact ⟨_, rfl, hne⟩
  · exact ⟨_, rfl, hne⟩

theorem valueOf_isSome (s : Cps) (name : String) (found : Cps) (hne : found ≠ []) :
    ∃ x, valueOf s name found = some x ∧ x.found ≠ [] := by
  unfold valueOf
  split
  · split
    · simp only [subS_eq_stringValue]
      exact ⟨_, rfl, hne⟩
    · simp only [subU_eq_unescape]
      exact ⟨_, rfl, hne⟩
  · split
    · obtain ⟨n, hn⟩ := Option.isSome_iff_exists.mp (normalizeU_isSome found)
      simp only [hn]
      split
      · exact ⟨_, rfl, hne⟩
      · split
        · exact ⟨_, rfl, by simp [hne]⟩
        · exact ⟨_, rfl, hne⟩
    · exact ⟨_, rfl, hne⟩

/-- the loop always ends regularly: never `stuck`, never `raised`, never out of fuel -/
theorem loop_done (full doC : Bool) (fuel : Nat) (s : Cps) (line col : Nat) (h : s.length < fuel) :
    ∃ l c, (loop full doC fuel s line col).stop = .done l c := by
  fun_induction loop full doC fuel s line col
  case case1 => omega
  case case2 => exact ⟨_, _, rfl⟩
  case case3 ih =>
    simp only [Res.cons]
    apply ih
    simp only [List.length_cons] at h; omega
  case case4 c t _ _ _ hscan => exact absurd hscan (scan_ne_nomatch full doC c t)
  case case5 => exact ⟨_, _, rfl⟩
  case case6 c t _ _ _ name l hscan hc =>
    have hp := scan_hit_pos full doC _ name l hscan
    have hne : (c :: t).take l ≠ [] := by
      obtain ⟨k, rfl⟩ : ∃ k, l = k + 1 := ⟨l - 1, by omega⟩
      simp
    obtain ⟨nf, hnf, _⟩ := complete_isSome full (c :: t) name _ (by simp) hne
    rw [hnf] at hc; simp at hc
  case case7 c t _ _ _ name l hscan nf hc hv =>
    have hp := scan_hit_pos full doC _ name l hscan
    have hne : (c :: t).take l ≠ [] := by
      obtain ⟨k, rfl⟩ : ∃ k, l = k + 1 := ⟨l - 1, by omega⟩
      simp
    obtain ⟨nf', hnf, hnfne⟩ := complete_isSome full (c :: t) name _ (by simp) hne
    rw [hnf] at hc; simp only [Option.some.injEq] at hc; subst hc
    obtain ⟨x, hx, _⟩ := valueOf_isSome (c :: t) nf'.name nf'.found hnfne
    rw [hx] at hv; simp at hv
  case case8 c t _ _ _ name l hscan nf hc x hv hz =>
    have hp := scan_hit_pos full doC _ name l hscan
    have hne : (c :: t).take l ≠ [] := by
      obtain ⟨k, rfl⟩ : ∃ k, l = k + 1 := ⟨l - 1, by omega⟩
      simp
    obtain ⟨nf', hnf, hnfne⟩ := complete_isSome full (c :: t) name _ (by simp) hne
    rw [hnf] at hc; simp only [Option.some.injEq] at hc; subst hc
    obtain ⟨x', hx, hxne⟩ := valueOf_isSome (c :: t) nf'.name nf'.found hnfne
    rw [hx] at hv; simp only [Option.some.injEq] at hv; subst hv
    exact absurd (List.length_eq_zero_iff.mp hz) hxne
  case case9 ih =>
    simp only [Res.cons]
    apply ih
    simp only [List.length_drop, List.length_cons] at *
    omega

theorem takeWhile_append_of_mem (p : Nat → Bool) (a b : Cps) (h : ∃ x ∈ a, p x = false) :
    (a ++ b).takeWhile p = a.takeWhile p := by
  induction a with
  | nil => simp at h
  | cons c t ih =>
    simp only [List.cons_append, List.takeWhile]
    cases hc : p c with
    | false => rfl
    | true =>
      simp only []
      congr 1
      apply ih
      obtain ⟨x, hx, hpx⟩ := h
      rcases List.mem_cons.mp hx with rfl | hx
      · rw [hc] at hpx; cases hpx
      · exact ⟨x, hx, hpx⟩

theorem advance_lc (pre found : Cps) :
    advance (lc pre).1 (lc pre).2 found = lc (pre ++ found) := by
  unfold advance lc
  simp only [List.count_append, List.reverse_append]
  split
  · rename_i h
    have hmem : ∃ x ∈ found.reverse, (x != 10) = false := by
      have : 0 < found.count 10 := by omega
      have := List.count_pos_iff.mp this
      exact ⟨10, by simpa using this, by simp⟩
    rw [takeWhile_append_of_mem _ _ _ hmem]
    simp only [Prod.mk.injEq]; omega
  · rename_i h
    have h0 : found.count 10 = 0 := by omega
    have hall : ∀ x ∈ found.reverse, (x != 10) = true := by
      intro x hx
      have : x ∈ found := by simpa using hx
      have hne : x ≠ 10 := by
        intro e; subst e
        have := List.count_pos_iff.mpr this
        omega
      simp [hne]
    rw [List.takeWhile_append_of_pos hall]
    simp only [h0, List.length_append, List.length_reverse, Prod.mk.injEq]; omega

/-- `found` is the text at the start of `s`, or it reaches (at least) to the end of `s` (completed token) -/
def SpanOK (full : Bool) (s found : Cps) : Prop :=
  s.take found.length = found ∨ (full = true ∧ ∃ k, found = s ++ k)

theorem spanOK_take (full : Bool) (s : Cps) (l : Nat) : SpanOK full s (s.take l) := by
  left
  simp only [List.length_take, List.take_eq_take_iff]
  omega

theorem tryEnds_span (s : Cps) : ∀ (es : List Cps) (u : Cps), tryEnds s es = some u → SpanOK true s u := by
  intro es
  induction es with
  | nil => intro u h; simp [tryEnds] at h
  | cons e es ih =>
    intro u h
    simp only [tryEnds] at h
    split at h
    · rename_i l hl
      simp only [Option.some.injEq] at h
      subst h
      by_cases hle : l ≤ s.length
      · left
        rw [List.take_append_of_le_length hle]
        simp only [List.length_take, List.take_eq_take_iff]; omega
      · right
        refine ⟨rfl, e.take (l - s.length), ?_⟩
        rw [List.take_append]
        have : List.take l s = s := List.take_of_length_le (by omega)
        rw [this]
    · exact ih u h

theorem complete_span (full : Bool) (s : Cps) (name : String) (found : Cps) (nf : NF)
    (h0 : SpanOK full s found) (h : complete full s name found = some nf) : SpanOK full s nf.found := by
  unfold complete at h
  split at h
  · rename_i hfull
    subst hfull
    split at h
    · rename_i hinv
      simp only [Bool.and_eq_true, beq_iff_eq] at hinv
      cases found with
      | nil => simp at h
      | cons q rest =>
        simp only [Option.some.injEq] at h; subst h
        right; exact ⟨rfl, [q], by rw [hinv.2]⟩
    · split at h
      · split at h
        · simp at h
        · split at h
          · split at h
            · rename_i u hu
              simp only [Option.some.injEq] at h; subst h
              exact tryEnds_span s _ _ hu
            · simp only [Option.some.injEq] at h; subst h; exact h0
          · simp only [Option.some.injEq] at h; subst h; exact h0
      · simp only [Option.some.injEq] at h; subst h; exact h0
  · simp only [Option.some.injEq] at h; subst h; exact h0

theorem valueOf_span (s : Cps) (name : String) (found : Cps) (x : NVF)
    (full : Bool) (h0 : SpanOK full s found) (h : valueOf s name found = some x) : SpanOK full s x.found := by
  unfold valueOf at h
  split at h
  · split at h
    · split at h
      · simp at h
      · simp only [Option.some.injEq] at h; subst h; exact h0
    · split at h
      · simp at h
      · simp only [Option.some.injEq] at h; subst h; exact h0
  · split at h
    · split at h
      · simp at h
      · split at h
        · simp only [Option.some.injEq] at h; subst h; exact h0
        · split at h
          · rename_i hcs
            simp only [Option.some.injEq] at h; subst h
            simp only [Bool.and_eq_true, beq_iff_eq, hasAt] at hcs
            rcases h0 with h0 | h0
            · left
              simp only [List.length_append]
              rw [List.take_add, h0, hcs.2]
            · right
              obtain ⟨hf, k, hk⟩ := h0
              exact ⟨hf, k ++ charsetSep, by rw [hk, List.append_assoc]⟩
          · simp only [Option.some.injEq] at h; subst h; exact h0
    · simp only [Option.some.injEq] at h; subst h; exact h0

def posOK : Cps → List Item → Prop
  | _, [] => True
  | pre, it :: rest => (it.line, it.col) = lc pre ∧ posOK (pre ++ it.span) rest

theorem loop_nil_items (full doC : Bool) (fuel : Nat) (l c : Nat) : (loop full doC fuel [] l c).items = [] := by
  cases fuel <;> simp [loop]

theorem fast_not_lf (c : Nat) (h : fastChars.contains c = true) : c ≠ 10 := by
  intro e; subst e; revert h; decide

theorem advance_single (line col c : Nat) (h : c ≠ 10) : advance line col [c] = (line, col + 1) := by
  simp [advance, h]

theorem loop_pos (full doC : Bool) (fuel : Nat) (s : Cps) (line col : Nat) :
    ∀ pre, (line, col) = lc pre → posOK pre (loop full doC fuel s line col).items := by
  fun_induction loop full doC fuel s line col
  case case1 => intro pre _; trivial
  case case2 => intro pre _; trivial
  case case3 c t line col hfast ih =>
    intro pre h
    simp only [Res.cons, posOK]
    refine ⟨h, ih _ ?_⟩
    have := advance_lc pre [c]
    rw [← h, advance_single _ _ _ (fast_not_lf c hfast)] at this
    exact this
  case case4 => intro pre _; trivial
  case case5 => intro pre h; exact ⟨h, trivial⟩
  case case6 => intro pre _; trivial
  case case7 => intro pre _; trivial
  case case8 => intro pre _; trivial
  case case9 c t line col _ name l hscan nf hc x hv hz ih =>
    intro pre h
    simp only [Res.cons, posOK]
    refine ⟨h, ?_⟩
    have hs : SpanOK full (c :: t) x.found :=
      valueOf_span _ _ _ _ full (complete_span _ _ _ _ _ (spanOK_take full _ l) hc) hv
    rcases hs with hs | hs
    · rw [hs]
      apply ih
      have := advance_lc pre x.found
      rw [← h] at this
      exact this
    · obtain ⟨_, k, hk⟩ := hs
      have : List.drop x.found.length (c :: t) = [] :=
        List.drop_eq_nil_iff.mpr (by rw [hk]; simp)
      rw [this, loop_nil_items]
      trivial

/-- every token type the tokenizer can produce -/
def knownTypes : List String :=
  productions.map (·.1) ++ atkeywords.map (·.2) ++ [bomName, charsetSym, "STRING", "URI", "ATKEYWORD", "CHAR", "COMMENT"]

theorem lookup_mem {α β : Type} [BEq α] [LawfulBEq α] (l : List (α × β)) (k : α) (v : β)
    (h : l.lookup k = some v) : (k, v) ∈ l := by
  induction l with
  | nil => simp at h
  | cons p ps ih =>
    obtain ⟨a, b⟩ := p
    simp only [List.lookup] at h
    split at h
    · rename_i heq
      simp only [Option.some.injEq] at h
      simp only [beq_iff_eq] at heq
      subst h; subst heq; simp
    · exact List.mem_cons_of_mem _ (ih h)

theorem complete_name (full : Bool) (s : Cps) (name : String) (found : Cps) (nf : NF)
    (h : complete full s name found = some nf) :
    (nf.name = name ∧ nf.found = found) ∨ (full = true ∧ (nf.name = "STRING" ∨ nf.name = "URI")) := by
  unfold complete at h
  split at h
  · rename_i hfull
    split at h
    · cases found with
      | nil => simp at h
      | cons q rest => simp only [Option.some.injEq] at h; subst h; right; exact ⟨hfull, Or.inl rfl⟩
    · split at h
      · split at h
        · simp at h
        · split at h
          · split at h
            · simp only [Option.some.injEq] at h; subst h; right; exact ⟨hfull, Or.inr rfl⟩
            · simp only [Option.some.injEq] at h; subst h; left; exact ⟨rfl, rfl⟩
          · simp only [Option.some.injEq] at h; subst h; left; exact ⟨rfl, rfl⟩
      · simp only [Option.some.injEq] at h; subst h; left; exact ⟨rfl, rfl⟩
  · simp only [Option.some.injEq] at h; subst h; left; exact ⟨rfl, rfl⟩

theorem atkeywords_not_unesc : ∀ p ∈ atkeywords, unescTypes.contains p.2 = false := by decide

theorem tokenValue_plain (typ : String) (found : Cps) (h : unescTypes.contains typ = false) :
    tokenValue typ found = found := by
  unfold tokenValue; simp only [h, Bool.false_eq_true, if_false]

theorem valueOf_value (s : Cps) (name : String) (found : Cps) (x : NVF) (h : valueOf s name found = some x) :
    x.value = tokenValue x.name x.found ∧
    (x.name = name ∨ x.name ∈ atkeywords.map (·.2) ∨ x.name = charsetSym ∨ x.name = "ATKEYWORD") := by
  unfold valueOf at h
  split at h
  · rename_i hu
    split at h
    · rename_i hcl
      simp only [subS_eq_stringValue, Option.some.injEq] at h; subst h
      exact ⟨by unfold tokenValue; rw [if_pos hu, if_pos hcl], Or.inl rfl⟩
    · rename_i hcl
      simp only [subU_eq_unescape, Option.some.injEq] at h; subst h
      exact ⟨by unfold tokenValue; rw [if_pos hu, if_neg hcl], Or.inl rfl⟩
  · rename_i hu
    split at h
    · split at h
      · simp at h
      · split at h
        · rename_i sym hl
          simp only [Option.some.injEq] at h; subst h
          have hm := lookup_mem _ _ _ hl
          have := atkeywords_not_unesc _ hm
          refine ⟨(tokenValue_plain _ _ this).symm, Or.inr (Or.inl ?_)⟩
          exact List.mem_map.mpr ⟨_, hm, rfl⟩
        · split at h
          · simp only [Option.some.injEq] at h; subst h
            have hcs : unescTypes.contains charsetSym = false := by decide
            exact ⟨(tokenValue_plain _ _ hcs).symm, Or.inr (Or.inr (Or.inl rfl))⟩
          · simp only [Option.some.injEq] at h; subst h
            have hak : unescTypes.contains "ATKEYWORD" = false := by decide
            exact ⟨(tokenValue_plain _ _ hak).symm, Or.inr (Or.inr (Or.inr rfl))⟩
    · simp only [Option.some.injEq] at h; subst h
      exact ⟨(tokenValue_plain _ _ (by simpa using hu)).symm, Or.inl rfl⟩

/-- per-item facts about the loop's output, and what follows an item whose `found` is longer than its span -/
def itemsOK (full : Bool) : List Item → Prop
  | [] => True
  | it :: rest =>
    it.typ ∈ knownTypes ∧
    it.value = tokenValue it.typ it.found ∧
    (it.found = it.span ∨ (full = true ∧ rest = [] ∧ ∃ k, it.found = it.span ++ k)) ∧
    itemsOK full rest

theorem prod_name_known (name : String) (r : Re) (h : (name, r) ∈ productions) : name ∈ knownTypes := by
  unfold knownTypes
  simp only [List.mem_append]
  left; left
  exact List.mem_map.mpr ⟨_, h, rfl⟩

theorem scan_comment (full doC : Bool) (s : Cps) : ∀ (ps : List (String × Re)) (v : Cps),
    scan full doC s ps = .comment v → full = true ∧ v = s ++ commentClose := by
  intro ps
  induction ps with
  | nil => intro v h; simp [scan] at h
  | cons p ps ih =>
    intro v h
    obtain ⟨pn, pr⟩ := p
    simp only [scan] at h
    split at h
    · rename_i hc
      simp only [Scan.comment.injEq] at h
      simp only [Bool.and_eq_true] at hc
      exact ⟨hc.1.1.1.1, h.symm⟩
    · split at h
      · exact ih v h
      · split at h
        · exact ih v h
        · simp at h

theorem loop_itemsOK (full doC : Bool) (fuel : Nat) (s : Cps) (line col : Nat) :
    itemsOK full (loop full doC fuel s line col).items := by
  fun_induction loop full doC fuel s line col
  case case1 => trivial
  case case2 => trivial
  case case3 c t line col hfast ih =>
    simp only [Res.cons, itemsOK]
    have hch : unescTypes.contains "CHAR" = false := by decide
    exact ⟨by decide, (tokenValue_plain _ _ hch).symm, by simp, ih⟩
  case case4 => trivial
  case case5 c t line col _ v hscan =>
    obtain ⟨hfull, rfl⟩ := scan_comment full doC _ _ _ hscan
    simp only [itemsOK]
    have hcm : unescTypes.contains "COMMENT" = false := by decide
    refine ⟨by decide, (tokenValue_plain _ _ hcm).symm, Or.inr ⟨hfull, ?_, commentClose, ?_⟩, trivial⟩ <;> simp
  case case6 => trivial
  case case7 => trivial
  case case8 => trivial
  case case9 c t line col _ name l hscan nf hc x hv hz ih =>
    simp only [Res.cons, itemsOK]
    obtain ⟨r, hr, _⟩ := scan_hit full doC _ _ name l hscan
    have hname := prod_name_known name r hr
    obtain ⟨hval, hxn⟩ := valueOf_value _ _ _ _ hv
    refine ⟨?_, hval, ?_, ih⟩
    · rcases hxn with h | h | h | h
      · rw [h]
        rcases complete_name _ _ _ _ _ hc with h2 | ⟨_, h2 | h2⟩
        · rw [h2.1]; exact hname
        · rw [h2]; decide
        · rw [h2]; decide
      · unfold knownTypes
        simp only [List.mem_append]
        left; right; exact h
      · rw [h]; decide
      · rw [h]; decide
    · have hs : SpanOK full (c :: t) x.found :=
        valueOf_span _ _ _ _ full (complete_span _ _ _ _ _ (spanOK_take full _ l) hc) hv
      rcases hs with hs | ⟨hfull, k, hk⟩
      · left; exact hs.symm
      · right
        have hd : List.drop x.found.length (c :: t) = [] :=
          List.drop_eq_nil_iff.mpr (by rw [hk]; simp)
        have ht : List.take x.found.length (c :: t) = c :: t :=
          List.take_of_length_le (by rw [hk]; simp)
        refine ⟨hfull, ?_, k, ?_⟩
        · rw [hd, loop_nil_items]
        · rw [ht]; exact hk

theorem posOK_split : ∀ (items : List Item) (pre : Cps), posOK pre items →
    ∀ a it b, items = a ++ it :: b → (it.line, it.col) = lc (pre ++ spans a) := by
  intro items
  induction items with
  | nil => intro pre _ a it b h; simp at h
  | cons x xs ih =>
    intro pre hp a it b h
    cases a with
    | nil =>
      simp only [List.nil_append, List.cons.injEq] at h
      obtain ⟨rfl, _⟩ := h
      simpa using hp.1
    | cons y ys =>
      simp only [List.cons_append, List.cons.injEq] at h
      obtain ⟨rfl, h⟩ := h
      have := ih (pre ++ x.span) hp.2 ys it b h
      simpa [List.append_assoc] using this

theorem posOK_append : ∀ (a b : List Item) (pre : Cps), posOK pre a → posOK (pre ++ spans a) b → posOK pre (a ++ b) := by
  intro a
  induction a with
  | nil => intro b pre _ h; simpa using h
  | cons x xs ih =>
    intro b pre ha hb
    simp only [List.cons_append, posOK]
    refine ⟨ha.1, ih b _ ha.2 ?_⟩
    simpa [List.append_assoc] using hb

theorem itemsOK_mem (full : Bool) : ∀ (items : List Item), itemsOK full items → ∀ it ∈ items,
    it.typ ∈ knownTypes ∧
    it.value = tokenValue it.typ it.found := by
  intro items
  induction items with
  | nil => intro _ it h; simp at h
  | cons x xs ih =>
    intro h it hit
    rcases List.mem_cons.mp hit with rfl | hit
    · exact ⟨h.1, h.2.1⟩
    · exact ih h.2.2.2 it hit

theorem itemsOK_split (full : Bool) : ∀ (items : List Item), itemsOK full items →
    ∀ a it b, items = a ++ it :: b →
      it.found = it.span ∨ (full = true ∧ b = [] ∧ ∃ k, it.found = it.span ++ k) := by
  intro items
  induction items with
  | nil => intro _ a it b h; simp at h
  | cons x xs ih =>
    intro hp a it b h
    cases a with
    | nil =>
      simp only [List.nil_append, List.cons.injEq] at h
      obtain ⟨rfl, rfl⟩ := h
      exact hp.2.2.1
    | cons y ys =>
      simp only [List.cons_append, List.cons.injEq] at h
      obtain ⟨rfl, h⟩ := h
      exact ih hp.2.2.2 ys it b h

/-- the BOM production matches exactly FE FF or EF BB BF -/
theorem bom_spans (text : Cps) : spans (bomItems text) ++ afterBom text = text := by
  unfold bomItems afterBom
  cases bomRe.first text <;> simp

theorem charset_spans (s1 : Cps) : spans (charsetItems s1) ++ afterCharset s1 = s1 := by
  unfold charsetItems afterCharset
  split
  · rename_i h
    simp only [hasAt, beq_iff_eq] at h
    simp only [spans_cons, spans_nil, List.append_nil]
    have := List.take_append_drop charsetStart.length s1
    rw [h] at this; exact this
  · simp

theorem mainLoop_done (text : Cps) (full doC : Bool) : ∃ l c, (mainLoop text full doC).stop = .done l c :=
  loop_done full doC _ _ _ _ (Nat.lt_succ_self _)

theorem tokenize_tile (text : Cps) (full doC : Bool) : spans (tokenize text full doC).items = text := by
  obtain ⟨l, c, hd⟩ := mainLoop_done text full doC
  have ht := loop_tile full doC ((afterCharset (afterBom text)).length + 1) (afterCharset (afterBom text)) 1
    (startCol (afterBom text))
  have hd' : (loop full doC ((afterCharset (afterBom text)).length + 1) (afterCharset (afterBom text)) 1
    (startCol (afterBom text))).stop = .done l c := hd
  rw [hd'] at ht
  simp only [Stop.rest, List.append_nil] at ht
  have he : spans (eofItems full (mainLoop text full doC).stop) = [] := by
    rw [hd]; simp only [eofItems]; split <;> simp
  simp only [tokenize, body, spans_append, he, List.append_nil]
  show spans (bomItems text) ++ (spans (charsetItems (afterBom text)) ++ spans (mainLoop text full doC).items) = text
  unfold mainLoop
  rw [ht, charset_spans, bom_spans]

theorem startCol_lc (s1 : Cps) : (1, startCol s1) = lc (spans (charsetItems s1)) := by
  unfold startCol charsetItems
  split
  · decide
  · decide

theorem body_pos (text : Cps) (full doC : Bool) : posOK [] (body text full doC) := by
  unfold body
  apply posOK_append
  · unfold charsetItems
    split
    · exact ⟨by decide, trivial⟩
    · trivial
  · simp only [List.nil_append]
    exact loop_pos full doC _ _ _ _ _ (startCol_lc _)

theorem body_itemsOK_mem (text : Cps) (full doC : Bool) : ∀ it ∈ body text full doC,
    it.typ ∈ knownTypes ∧
    it.value = tokenValue it.typ it.found := by
  intro it hit
  unfold body at hit
  rcases List.mem_append.mp hit with h | h
  · unfold charsetItems at h
    split at h
    · simp only [List.mem_singleton] at h; subst h
      have hcs : unescTypes.contains charsetSym = false := by decide
      exact ⟨by decide, (tokenValue_plain _ _ hcs).symm⟩
    · simp at h
  · exact itemsOK_mem full _ (loop_itemsOK full doC _ _ _ _) it h

theorem split_in_left {α : Type} (P : α → Prop) (xs ys a : List α) (it : α) (b : List α)
    (h : xs ++ ys = a ++ it :: b) (hy : ∀ y ∈ ys, P y) (hit : ¬ P it) : ∃ b', xs = a ++ it :: b' := by
  rcases List.append_eq_append_iff.mp h with ⟨a', ha, hys⟩ | ⟨c', hxs, hc⟩
  · exact absurd (hy it (by rw [hys]; simp)) hit
  · cases c' with
    | nil =>
      simp only [List.nil_append] at hc
      exact absurd (hy it (by rw [← hc]; simp)) hit
    | cons z zs =>
      simp only [List.cons_append, List.cons.injEq] at hc
      obtain ⟨rfl, _⟩ := hc
      exact ⟨zs, hxs⟩

theorem unescapeF_fuel (f : Nat) (s : Cps) (h : s.length ≤ f) : unescapeF f s = unescape s := by
  have h1 := subU_unescapeF f s h
  have h2 := subU_unescapeF s.length s (Nat.le_refl _)
  rw [h1] at h2
  exact Option.some.inj h2

/-! ## one-pass value of a string token (the full-strength reading of T5.4 for STRING / INVALID) -/

theorem stringValueF_fuel (f : Nat) (s : Cps) (h : s.length ≤ f) : stringValueF f s = stringValue s := by
  have h1 := subS_stringValueF f s h
  have h2 := subS_stringValueF s.length s (Nat.le_refl _)
  rw [h1] at h2
  exact Option.some.inj h2

end CssVerif.Tok
