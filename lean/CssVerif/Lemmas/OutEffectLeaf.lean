import CssVerif.Lemmas.OutEffect
import CssVerif.Lemmas.OutSep
/-!
# T6.3 — leaf statements: resolved variables, leading zeros, normal form of the transformed rule list
-/
namespace CssVerif.Out
open CssVerif.Proto (Cps)

theorem effectRules_leafNormal (p : Prefs) (lv sl : Nat) : ∀ rs : List Rule,
    ∀ r ∈ effectRules p lv sl rs, r.leafNormal p = true
  | [], r, hr => by simp [effectRules] at hr
  | x :: rest, r, hr => by
    simp only [effectRules] at hr
    split at hr
    · exact effectRules_leafNormal p lv sl rest r hr
    · rcases List.mem_cons.mp hr with rfl | h
      · exact effectRule_leafNormal p lv sl x
      · exact effectRules_leafNormal p lv sl rest r h

theorem varText_resolved (p : Prefs) (hr : p.resolveVariables = true) (hs : allCssWs p.spacer = true) (il : Nat)
    (name v : Cps) (fb : EVal) (hn : name ≠ []) (hv : Plain v = true) : varText p il name (.obj v) fb = v := by
  have hne : v.isEmpty = false := by
    simp only [Plain, Bool.and_eq_true, Bool.not_eq_true'] at hv
    exact hv.1.1.1
  have hn' : name.isEmpty = false := by cases name <;> simp at hn ⊢
  unfold varText
  simp only [hn', Bool.false_eq_true, if_false, EVal.aval, AVal.text, hr, hne, Bool.not_false, Bool.and_self, if_true]
  rw [append_word p il [] v t_None hv (by decide) (by simp [lastPiece])]
  unfold gapPieces value
  by_cases he : p.spacer.isEmpty = true
  · have e : p.spacer = [] := by simpa using he
    simp [e, removeLastIfS, allCssWs, isCssWs, allWs, isWs]
  · simp [he, removeLastIfS, hs]

theorem numText_leading_zero (p : Prefs) (n : Num) :
    (n.zero = false → n.intText = none → n.small = true →
      ∀ r, stripZeros n.ftext = (if n.sign == [45] then 45 :: 48 :: r else 48 :: r) →
        numText { p with omitLeadingZero := false } n
            = (if n.sign == [43] then [43] else []) ++ (if n.sign == [45] then 45 :: 48 :: r else 48 :: r) ++ n.dim.getD [] ∧
        numText { p with omitLeadingZero := true } n
            = (if n.sign == [43] then [43] else []) ++ (if n.sign == [45] then 45 :: r else r) ++ n.dim.getD []) ∧
    ((n.zero = true ∨ n.intText.isSome = true ∨ n.small = false) →
      numText { p with omitLeadingZero := true } n = numText { p with omitLeadingZero := false } n) := by
  constructor
  · intro hz hi hsm r hr
    unfold numText
    simp only [hz, hi, hsm, hr, Bool.false_eq_true, if_false, Bool.not_false, Bool.true_and, Bool.false_and,
      Bool.and_true, if_true]
    by_cases h45 : (n.sign == [45]) = true
    · simp [h45]
    · simp [h45]
  · intro h
    unfold numText
    rcases h with hz | hi | hsm
    · simp [hz]
    · cases hh : n.intText with
      | none => simp [hh] at hi
      | some t => simp
    · simp [hsm]

end CssVerif.Out
