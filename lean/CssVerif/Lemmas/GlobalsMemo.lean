import CssVerif.Model.GlobalsMemo
/-!
# Lemmas for `Model/GlobalsMemo.lean`: the memo tables are transparent

`Sound`: every entry of `_TOKENIZER_CACHE` is what the computation gives for its key under the CURRENT module-level
tables. Every step keeps it (`tkRun_sound`), a look-up in a sound cache returns the recomputation
(`newTokenizer_result`). `LInv`: a `LazyRegex` either has no matcher yet and its original flags, or its matcher is
`re.compile(pattern, flags)` of the constructor arguments.
-/
namespace CssVerif.Memo

/-! ## dict look-up does not depend on the order of the items -/

theorem dget_eq_some_iff (l : Items) (h : (l.map (·.1)).Nodup) (k v : Str) :
    dget l k = some v ↔ (k, v) ∈ l := by
  induction l with
  | nil => simp [dget]
  | cons a t ih =>
    obtain ⟨ak, av⟩ := a
    simp only [List.map_cons, List.nodup_cons] at h
    simp only [dget]
    by_cases hk : ak = k
    · subst hk
      simp only [if_true, List.mem_cons, Prod.mk.injEq, true_and, Option.some.injEq]
      constructor
      · intro e; exact Or.inl e.symm
      · rintro (e | hm)
        · exact e.symm
        · exact absurd (List.mem_map.mpr ⟨(ak, v), hm, rfl⟩) h.1
    · simp only [if_neg hk, List.mem_cons, Prod.mk.injEq]
      rw [ih h.2]
      constructor
      · exact Or.inr
      · rintro (⟨e, _⟩ | hm)
        · exact absurd e.symm hk
        · exact hm

theorem dget_perm (a b : Items) (hp : a.Perm b) (h : (a.map (·.1)).Nodup) : dget a = dget b := by
  have hb : (b.map (·.1)).Nodup := (hp.map _).nodup_iff.mp h
  funext k
  apply Option.ext
  intro v
  rw [dget_eq_some_iff a h, dget_eq_some_iff b hb]
  exact hp.mem_iff

theorem insItem_perm (x : Str × Str) (l : Items) : (insItem x l).Perm (x :: l) := by
  induction l with
  | nil => exact List.Perm.refl _
  | cons y t ih =>
    simp only [insItem]
    split
    · exact List.Perm.refl _
    · exact (List.Perm.cons y ih).trans (List.Perm.swap x y t)

theorem sortItems_perm (l : Items) : (sortItems l).Perm l := by
  induction l with
  | nil => exact List.Perm.refl _
  | cons x t ih => exact (insItem_perm x _).trans (List.Perm.cons x ih)

theorem sortItems_eq_nil (l : Items) : sortItems l = [] ↔ l = [] := by
  have := (sortItems_perm l).length_eq
  constructor
  · intro h; rw [h] at this; exact List.eq_nil_of_length_eq_zero this.symm
  · intro h; subst h; simp [sortItems]

theorem dget_resolve_sort (G : TkGlobals) (d : PyDict) :
    dget (resolveMacros G (some (sortItems d.items))) = dget (resolveMacros G (some d.items)) := by
  cases hl : d.items with
  | nil => simp [sortItems]
  | cons a t =>
    have hne : sortItems (a :: t) ≠ [] := by
      intro h; have := (sortItems_eq_nil _).mp h; simp at this
    cases hs : sortItems (a :: t) with
    | nil => exact absurd hs hne
    | cons b u =>
      simp only [resolveMacros]
      rw [← hs]
      have hp := sortItems_perm (a :: t)
      have hn : ((a :: t).map (·.1)).Nodup := by rw [← hl]; exact d.nodup
      exact (dget_perm _ _ hp.symm hn).symm

section generic
variable {ε τ ρ : Type}

/-- the computation depends on the arguments through the key only -/
theorem tablesOf_eq_key (cmp : Cmp ε τ) (G : TkGlobals) (m : MacrosArg) (p : ProdsArg) :
    tablesOf cmp G m p = tablesOfKey cmp G (keyOf m p) := by
  cases m with
  | none => rfl
  | some d =>
    simp only [tablesOf, tablesOfKey, keyOf, Option.map]
    rw [dget_resolve_sort]

/-! ## the cache -/

theorem cget_cset (c : Cache τ) (k k' : Key) (v : τ) :
    cget (cset c k v) k' = if k = k' then some v else cget c k' := by
  induction c with
  | nil => simp [cset, cget]
  | cons a t ih =>
    obtain ⟨ak, av⟩ := a
    simp only [cset]
    by_cases h : ak = k
    · subst h
      by_cases h2 : ak = k' <;> simp [cget, h2]
    · simp only [if_neg h, cget, ih]
      by_cases h2 : ak = k'
      · subst h2
        have : ¬ k = ak := fun e => h e.symm
        simp [this]
      · simp [h2]

/-- every entry is the recomputation for its key under the current module-level tables -/
def Sound (cmp : Cmp ε τ) (s : TkState τ) : Prop :=
  ∀ k t, cget s.cache k = some t → tablesOfKey cmp s.glob k = .ok t

theorem sound_cold (cmp : Cmp ε τ) (G : TkGlobals) : Sound cmp (TkState.cold G : TkState τ) := by
  intro k t h; simp [TkState.cold, cget] at h

theorem newTokenizer_glob (cmp : Cmp ε τ) (s : TkState τ) (m : MacrosArg) (p : ProdsArg) :
    (newTokenizer cmp s m p).2.glob = s.glob := by
  cases hc : cget s.cache (keyOf m p) with
  | some t => simp only [newTokenizer, hc]
  | none =>
    cases ht : tablesOf cmp s.glob m p <;> simp only [newTokenizer, hc, ht]

theorem newTokenizer_sound (cmp : Cmp ε τ) (s : TkState τ) (hs : Sound cmp s) (m : MacrosArg) (p : ProdsArg) :
    Sound cmp (newTokenizer cmp s m p).2 := by
  cases hc : cget s.cache (keyOf m p) with
  | some t => simp only [newTokenizer, hc]; exact hs
  | none =>
    cases ht : tablesOf cmp s.glob m p with
    | error e => simp only [newTokenizer, hc, ht]; exact hs
    | ok t =>
      simp only [newTokenizer, hc, ht]
      intro k u hk
      simp only [cget_cset] at hk
      by_cases h : keyOf m p = k
      · subst h
        simp only [if_true, Option.some.injEq] at hk
        subst hk
        rw [← tablesOf_eq_key]; exact ht
      · simp only [if_neg h] at hk
        exact hs k u hk

/-- a look-up returns what a cold computation under the current module-level tables returns -/
theorem newTokenizer_result (cmp : Cmp ε τ) (s : TkState τ) (hs : Sound cmp s) (m : MacrosArg) (p : ProdsArg) :
    (newTokenizer cmp s m p).1.map (·.1) = tablesOf cmp s.glob m p := by
  cases hc : cget s.cache (keyOf m p) with
  | some t =>
    have := hs _ _ hc
    rw [← tablesOf_eq_key] at this
    simp only [newTokenizer, hc, this]; rfl
  | none =>
    cases ht : tablesOf cmp s.glob m p <;> simp only [newTokenizer, hc, ht] <;> rfl

theorem settingsSet_sound (cmp : Cmp ε τ) (s : TkState τ) : Sound cmp (settingsSet s) := by
  intro k t h; simp [settingsSet, cget] at h

theorem runTokenizer_glob (cmp : Cmp ε τ) (s : TkState τ) (m : MacrosArg) (p : ProdsArg) :
    (runTokenizer cmp s m p).2.glob = s.glob := by
  simp only [runTokenizer]; exact newTokenizer_glob cmp s m p

theorem runTokenizer_sound (cmp : Cmp ε τ) (s : TkState τ) (hs : Sound cmp s) (m : MacrosArg) (p : ProdsArg) :
    Sound cmp (runTokenizer cmp s m p).2 := by
  have h := newTokenizer_sound cmp s hs m p
  intro k t hk
  exact h k t hk

/-- the tables a run works with are the recomputation under the module-level tables as they are at that moment -/
theorem runTokenizer_result (cmp : Cmp ε τ) (s : TkState τ) (hs : Sound cmp s) (m : MacrosArg) (p : ProdsArg) :
    (runTokenizer cmp s m p).1.map (·.1) = tablesOf cmp s.glob m p :=
  newTokenizer_result cmp s hs m p

theorem runTokenizer_insts (cmp : Cmp ε τ) (s : TkState τ) (m : MacrosArg) (p : ProdsArg) :
    (runTokenizer cmp s m p).2.insts = s.insts := rfl

theorem tkStep_sound (cmp : Cmp ε τ) (s : TkState τ) (hs : Sound cmp s) (op : TkOp) : Sound cmp (tkStep cmp s op) := by
  cases op with
  | new m p => exact newTokenizer_sound cmp s hs m p
  | settings => exact settingsSet_sound cmp s
  | run m p => exact runTokenizer_sound cmp s hs m p

theorem tkRun_sound (cmp : Cmp ε τ) (s : TkState τ) (hs : Sound cmp s) (ops : List TkOp) :
    Sound cmp (tkRun cmp s ops) := by
  induction ops generalizing s with
  | nil => exact hs
  | cons op t ih => exact ih _ (tkStep_sound cmp s hs op)

/-- the module-level tables after a history are those after its explicit settings alone -/
theorem tkRun_glob (cmp : Cmp ε τ) (s₁ s₂ : TkState τ) (h : s₁.glob = s₂.glob) (ops : List TkOp) :
    (tkRun cmp s₁ ops).glob = (tkRun cmp s₂ (tkExplicit ops)).glob := by
  induction ops generalizing s₁ s₂ with
  | nil => exact h
  | cons op t ih =>
    cases op with
    | new m p =>
      simp only [tkRun, List.foldl_cons, tkExplicit] at *
      apply ih
      simp only [tkStep]
      rw [newTokenizer_glob]; exact h
    | settings =>
      simp only [tkRun, List.foldl_cons, tkExplicit] at *
      apply ih
      simp only [tkStep, settingsSet, h]
    | run m p =>
      simp only [tkRun, List.foldl_cons, tkExplicit] at *
      apply ih
      simp only [tkStep]
      rw [runTokenizer_glob]; exact h

/-- the cache is effective: the same arguments again are found, and the stored tables are handed out -/
theorem newTokenizer_again (cmp : Cmp ε τ) (s : TkState τ) (m : MacrosArg) (p : ProdsArg) (t : τ) (hit : Bool)
    (h : (newTokenizer cmp s m p).1 = .ok (t, hit)) :
    (newTokenizer cmp (newTokenizer cmp s m p).2 m p).1 = .ok (t, true) := by
  cases hc : cget s.cache (keyOf m p) with
  | some u =>
    simp only [newTokenizer, hc] at h ⊢
    injection h with h; injection h with h1 _
    simp only [hc, h1]
  | none =>
    cases ht : tablesOf cmp s.glob m p with
    | error e => simp only [newTokenizer, hc, ht] at h; cases h
    | ok u =>
      simp only [newTokenizer, hc, ht] at h ⊢
      injection h with h; injection h with h1 _
      simp only [cget_cset, if_true, h1]

/-- objects are only ever added -/
theorem newTokenizer_insts (cmp : Cmp ε τ) (s : TkState τ) (m : MacrosArg) (p : ProdsArg) (t : τ) (hit : Bool)
    (h : (newTokenizer cmp s m p).1 = .ok (t, hit)) : (newTokenizer cmp s m p).2.insts = s.insts ++ [t] := by
  cases hc : cget s.cache (keyOf m p) with
  | some u =>
    simp only [newTokenizer, hc] at h ⊢
    injection h with h; injection h with h1 _; rw [h1]
  | none =>
    cases ht : tablesOf cmp s.glob m p with
    | error e => simp only [newTokenizer, hc, ht] at h; cases h
    | ok u =>
      simp only [newTokenizer, hc, ht] at h ⊢
      injection h with h; injection h with h1 _; rw [h1]

theorem tkStep_insts (cmp : Cmp ε τ) (s : TkState τ) (op : TkOp) : ∃ l, (tkStep cmp s op).insts = s.insts ++ l := by
  cases op with
  | settings => exact ⟨[], by simp [tkStep, settingsSet]⟩
  | run m p => exact ⟨[], by simp [tkStep, runTokenizer_insts]⟩
  | new m p =>
    simp only [tkStep]
    cases hc : cget s.cache (keyOf m p) with
    | some u => exact ⟨[u], by simp only [newTokenizer, hc]⟩
    | none =>
      cases ht : tablesOf cmp s.glob m p with
      | error e => exact ⟨[], by simp only [newTokenizer, hc, ht, List.append_nil]⟩
      | ok u => exact ⟨[u], by simp only [newTokenizer, hc, ht]⟩

theorem tkRun_insts (cmp : Cmp ε τ) (s : TkState τ) (ops : List TkOp) : ∃ l, (tkRun cmp s ops).insts = s.insts ++ l := by
  induction ops generalizing s with
  | nil => exact ⟨[], by simp [tkRun]⟩
  | cons op t ih =>
    obtain ⟨l₁, h₁⟩ := tkStep_insts cmp s op
    obtain ⟨l₂, h₂⟩ := ih (tkStep cmp s op)
    exact ⟨l₁ ++ l₂, by simp only [tkRun, List.foldl_cons] at h₂ ⊢; rw [h₂, h₁, List.append_assoc]⟩

/-! ## LazyRegex -/

/-- no matcher yet and the constructor's flags, or the matcher is `re.compile` of the constructor's arguments -/
def LInv (re : ReLib ε ρ) (p : Str) (f : Nat) (l : Lazy ρ) : Prop :=
  l.pattern = p ∧ ((l.matcher = none ∧ l.flags = f) ∨ ∃ r, re.compile p f = .ok r ∧ l.matcher = some r)

theorem linv_new (re : ReLib ε ρ) (p : Str) (f : Nat) : LInv re p f (Lazy.new p f) :=
  ⟨rfl, Or.inl ⟨rfl, rfl⟩⟩

theorem query_spec {κ α : Type} (re : ReLib ε ρ) (ask : ρ → κ → α) (p : Str) (f : Nat) (l : Lazy ρ)
    (h : LInv re p f l) (q : κ) :
    LInv re p f (l.query re ask q).2 ∧
    (l.query re ask q).1 = (match re.compile p f with
                            | .ok r => .ok (ask r q)
                            | .error e => .error (.compile e)) := by
  obtain ⟨hp, hm⟩ := h
  rcases hm with ⟨hn, hf⟩ | ⟨r, hc, hs⟩
  · cases hc : re.compile p f with
    | error e =>
      have he : l.ensure re = .error e := by simp only [Lazy.ensure, hn, hp, hf, hc]
      simp only [Lazy.query, he]
      exact ⟨⟨hp, Or.inl ⟨hn, hf⟩⟩, trivial⟩
    | ok r =>
      have he : l.ensure re = .ok { l with matcher := some r, flags := re.flagsOf r,
                                           groups := some (re.groupsOf r) } := by
        simp only [Lazy.ensure, hn, hp, hf, hc]
      simp only [Lazy.query, he]
      exact ⟨⟨hp, Or.inr ⟨r, hc, rfl⟩⟩, trivial⟩
  · have he : l.ensure re = .ok l := by simp only [Lazy.ensure, hs]
    simp only [Lazy.query, he, hs, hc]
    exact ⟨⟨hp, Or.inr ⟨r, hc, hs⟩⟩, trivial⟩

theorem run_linv {κ α : Type} (re : ReLib ε ρ) (ask : ρ → κ → α) (p : Str) (f : Nat) (l : Lazy ρ)
    (h : LInv re p f l) (qs : List κ) : LInv re p f (l.run re ask qs) := by
  induction qs generalizing l with
  | nil => exact h
  | cons q t ih => exact ih _ (query_spec re ask p f l h q).1

end generic

end CssVerif.Memo
