import CssVerif.Lemmas.CodecCss
/-!
Helpers for the round trip with auto-detection: rewriting the `@charset` name to one name and then to
another, what the first bytes of an encoded text look like.
-/
namespace CssVerif.Codec

/-- rewriting the name to `g` and then to `h` is rewriting it to `h` -/
theorem fixFinal_fixFinal (t g h : List Nat) (hg : ∀ c ∈ written g, c ≠ 0x22) :
    fixFinal (fixFinal t g) h = fixFinal t h := by
  by_cases hl : t.length > 10
  · by_cases hp : prefix10.isPrefixOf t = true
    · cases hf : findQuote (t.drop 10) with
      | none =>
        have : fixFinal t g = t := by simp [fixFinal, hl, hp, hf]
        rw [this]
      | some k =>
        obtain ⟨r, hr⟩ := findQuote_drop _ _ hf
        have e : fixFinal t g = prefix10 ++ written g ++ 0x22 :: r := by
          simp only [fixFinal, hl, hp, hf, if_true, hr, written]
        have e' : fixFinal t h = prefix10 ++ written h ++ 0x22 :: r := by
          simp only [fixFinal, hl, hp, hf, if_true, hr, written]
        rw [e, e']
        have l1 : (prefix10 ++ written g ++ 0x22 :: r).length > 10 := by simp [prefix10]; omega
        have l2 : prefix10.isPrefixOf (prefix10 ++ written g ++ 0x22 :: r) = true := by
          rw [List.isPrefixOf_iff_prefix, List.append_assoc]; exact List.prefix_append _ _
        have l3 : (prefix10 ++ written g ++ 0x22 :: r).drop 10 = written g ++ 0x22 :: r := by
          simp [prefix10]
        simp only [fixFinal, l1, l2, if_true, l3, findQuote_noquote _ hg]
        simp [written]
    · have : fixFinal t g = t := by simp [fixFinal, hl, hp]
      rw [this]
  · have : fixFinal t g = t := by simp [fixFinal, hl]
    rw [this]

/-- the first two bytes of a UTF-16-LE encoded text are both zero only if the text starts with U+0000 -/
theorem enc16_head (x bs : List Nat) (h : encScan .u16le x = (bs, true)) (hx : x.head? ≠ some 0) :
    bs = [] ∨ ∃ a b rest, bs = a :: b :: rest ∧ ¬ (a = 0 ∧ b = 0) := by
  cases x with
  | nil => left; simp [encScan] at h; first | exact h | exact h.symm
  | cons ch xs =>
    right
    have hch : ch ≠ 0 := by intro e; subst e; simp at hx
    cases hu : Kind.encUnit .u16le ch with
    | none => simp [encScan, hu] at h
    | some u =>
      rw [encScan_cons_some _ _ _ _ hu] at h
      simp only [Prod.mk.injEq] at h
      obtain ⟨h1, _⟩ := h
      subst h1
      simp only [Kind.encUnit, encUnit16] at hu
      split at hu
      · split at hu
        · cases hu
        · simp only [bytes16, Bool.false_eq_true, if_false, Option.some.injEq] at hu
          subst hu
          exact ⟨_, _, _, rfl, by omega⟩
      · split at hu
        · simp only [bytes16, Bool.false_eq_true, if_false, Option.some.injEq, List.cons_append,
            List.nil_append] at hu
          subst hu
          exact ⟨_, _, _, rfl, by omega⟩
        · cases hu

/-- ASCII text is its own encoding in UTF-8, latin-1 and ASCII -/
theorem encScan_ascii (k : Kind) (hk : k = .u8 ∨ k = .l1 ∨ k = .ascii) (p : List Nat) (hp : ∀ c ∈ p, c < 0x80) :
    encScan k p = (p, true) := by
  induction p with
  | nil => rfl
  | cons c t ih =>
    have hc : c < 0x80 := hp c (by simp)
    have hu : k.encUnit c = some [c] := by
      rcases hk with rfl | rfl | rfl
      · simp [Kind.encUnit, encUnit8, hc]
      · simp only [Kind.encUnit]; rw [if_pos (by omega)]
      · simp only [Kind.encUnit]; rw [if_pos hc]
    rw [encScan_cons_some _ _ _ _ hu, ih (fun x hx => hp x (by simp [hx]))]
    rfl

theorem table_ascii : ∀ e ∈ nameTable, ∀ c ∈ e.1, c < 0x80 := by decide

/-- a name the model knows is ASCII -/
theorem lookup_ascii (g : Name) (c : CName) (h : lookupName g = some c) : ∀ ch ∈ g, ch < 0x80 := by
  have hm := lookup_mem g c h
  have hn := table_ascii _ hm
  intro ch hch
  have : (if ch = 0x5F then 0x2D else if 0x41 ≤ ch ∧ ch ≤ 0x5A then ch + 32 else ch) ∈ normName g := by
    unfold normName
    rw [List.mem_map]
    exact ⟨ch, hch, rfl⟩
  have := hn _ this
  split at this
  · omega
  · split at this <;> omega

/-- the first bytes of a text starting with `@c` in the BOM-less wide encodings -/
def patHead : Kind → List Nat
  | .u16le => [0x40, 0, 0x63, 0]
  | .u16be => [0, 0x40, 0, 0x63]
  | .u32le => [0x40, 0, 0, 0, 0x63, 0, 0, 0]
  | .u32be => [0, 0, 0, 0x40, 0, 0, 0, 0x63]
  | _ => []

/-- the name the detector answers for these byte patterns -/
def patName : Kind → Name
  | .u16le => Enc.utf16le.name
  | .u16be => Enc.utf16be.name
  | .u32le => Enc.utf32le.name
  | .u32be => Enc.utf32be.name
  | _ => []

theorem encScan_at_c (k : Kind) (hk : k = .u16le ∨ k = .u16be ∨ k = .u32le ∨ k = .u32be) (tl : List Nat) :
    encScan k (0x40 :: 0x63 :: tl) = (patHead k ++ (encScan k tl).1, (encScan k tl).2) := by
  rcases hk with rfl | rfl | rfl | rfl
  · simp [encScan, Kind.encUnit, encUnit16, bytes16, patHead]
  · simp [encScan, Kind.encUnit, encUnit16, bytes16, patHead]
  · simp [encScan, Kind.encUnit, encUnit32, patHead]
  · simp [encScan, Kind.encUnit, encUnit32, patHead]

/-- rewriting the `@charset` name leaves the first two characters `@c` alone -/
theorem fixFinal_head (tl g : List Nat) : ∃ tl', fixFinal (0x40 :: 0x63 :: tl) g = 0x40 :: 0x63 :: tl' := by
  unfold fixFinal
  split
  · split
    · split
      · exact ⟨_, by simp [prefix10]; rfl⟩
      · exact ⟨_, rfl⟩
    · exact ⟨_, rfl⟩
  · exact ⟨_, rfl⟩

/-- the name the detector answers for a BOM -/
def detected : CName → Name
  | .u8sig => Enc.utf8sig.name
  | .u16 => Enc.utf16.name
  | .u32 => Enc.utf32.name
  | .plain _ => []

/-- a name of a byte-order-fixed or single-byte codec is not utf-8-sig: it is written into the rule as it is -/
theorem not_sig_of_plain (g : Name) (k : Kind) (hl : lookupName g = some (.plain k)) : written g = g := by
  have hm := lookup_mem g _ hl
  unfold written
  split
  · rename_i hs
    rw [hs] at hm
    exfalso
    revert hm
    cases k <;> decide
  · rfl

end CssVerif.Codec
