import CssVerif.Lemmas.SheetNs
/-! helper lemmas for C09: `insertRule(CSSRuleList, index)` on the sheet and on nested lists (all rules or none) -/
namespace CssVerif.SheetEdit
open CssVerif.Proto (Cps)

theorem insertCore_next (st : St) (dict : Dict) (r : Rule) (idx : Nat) (inOrder clean track : Bool) :
    (insertCore st dict r idx inOrder clean track).1.next = st.next := by
  unfold insertCore
  split
  · rfl
  · rfl
  · split
    · split
      · rfl
      · split
        · dsimp only
          split
          · rfl
          · split <;> rfl
        · rfl
    · rfl

theorem insertRule_next_ge (st : St) (s : Spec) (index : Option Int) (inOrder viaStr track : Bool) :
    st.next ≤ (insertRule st s index inOrder viaStr track).1.next := by
  unfold insertRule
  dsimp only
  split
  · split
    · exact Nat.le_refl _
    · split
      · exact Nat.le_refl _
      · exact Nat.le_refl _
      · rename_i c hc
        rw [insertCore_next]
        exact Nat.le_of_lt (parseCand_ok hc).2.2.2
  · split
    · exact Nat.le_of_lt (inst_next none st.next s)
    · split
      · exact Nat.le_of_lt (inst_next none st.next s)
      · rw [insertCore_next]
        exact Nat.le_of_lt (inst_next none st.next s)

/-- the loop of the CSSRuleList branch: either everything was undone, or the state was reached by single inserts -/
theorem insertListLoop_ind (P : St → Prop) (st0 : St) (specs0 : List Spec) (idx : Nat)
    (hreset : ∀ n, st0.next ≤ n → P (resetList st0 specs0 n))
    (hstep : ∀ cur s (i : Nat), P cur → s ∈ specs0 →
      P (insertRule cur s (some ((idx + i : Nat) : Int)) false false true).1) :
    ∀ (todo : List Spec) (cur : St) (i : Nat), (∀ s ∈ todo, s ∈ specs0) → P cur → st0.next ≤ cur.next →
      P (insertListLoop st0 specs0 idx cur i todo).1 := by
  intro todo
  induction todo with
  | nil => intro cur i _ hp _; exact hp
  | cons s ss ih =>
    intro cur i hsub hp hn
    unfold insertListLoop
    dsimp only
    have hn' := Nat.le_trans hn (insertRule_next_ge cur s (some ((idx + i : Nat) : Int)) false false true)
    split
    · exact hreset _ hn'
    · exact ih _ _ (fun x hx => hsub x (by simp [hx])) (hstep cur s i hp (hsub s (by simp))) hn'

theorem insertList_ind (P : St → Prop) (st : St) (specs : List Spec) (index : Option Int) (hp : P st)
    (hreset : ∀ n, st.next ≤ n → P (resetList st specs n))
    (hstep : ∀ cur s (j : Option Int), P cur → s ∈ specs → P (insertRule cur s j false false true).1) :
    P (insertList st specs index).1 := by
  unfold insertList
  split
  · exact hreset _ (Nat.le_refl _)
  · exact insertListLoop_ind P st specs _ hreset (fun cur s i h hs => hstep cur s _ h hs) specs st 0
      (fun s hs => hs) hp (Nat.le_refl _)

theorem resetList_rules (st : St) (specs : List Spec) (n : Nat) : (resetList st specs n).rules = st.rules := rfl

theorem instList_fresh (n : Nat) (specs : List Spec) :
    ∀ g ∈ (Spec.instList none n specs).1, g.linksOK none false = true := by
  have := instList_linksOKL none n specs
  rw [linksOKL_eq, List.all_eq_true] at this
  exact this

theorem resetList_inv {st : St} (h : Inv st) (specs : List Spec) (n : Nat) (hn : st.next ≤ n) :
    Inv (resetList st specs n) := by
  refine ⟨h.kids, h.links, ?_, ?_⟩
  · intro g hg
    rcases List.mem_append.mp hg with hg | hg
    · exact h.gone g hg
    · exact instList_fresh n specs g hg
  · intro x hx
    exact Nat.lt_of_lt_of_le (h.ids x hx) (Nat.le_trans hn (instList_next none n specs))

theorem insertList_topOK (st : St) (specs : List Spec) (index : Option Int) (h : TopOK st.rules) :
    TopOK (insertList st specs index).1.rules :=
  insertList_ind (fun s => TopOK s.rules) st specs index h (fun _ _ => h)
    (fun cur s j hc _ => insertRule_topOK cur s j false false true hc)

theorem insertList_inv (st : St) (specs : List Spec) (index : Option Int) (h : Inv st)
    (hs : ∀ s ∈ specs, s.kidsOK = true) : Inv (insertList st specs index).1 :=
  insertList_ind Inv st specs index h (fun n hn => resetList_inv h specs n hn)
    (fun cur s j hc hm => insertRule_inv cur s j false false true hc (Or.inr (hs s hm)))

theorem insertList_live (st : St) (specs : List Spec) (index : Option Int) (h : Live st)
    (hs : ∀ s ∈ specs, s.kidsOK = true) : Live (insertList st specs index).1 :=
  insertList_ind Live st specs index h
    (fun n hn => ⟨h.kids, h.links, fun x hx =>
      Nat.lt_of_lt_of_le (h.ids x hx) (Nat.le_trans hn (instList_next none n specs))⟩)
    (fun cur s j hc hm => insertRule_live cur s j false false true hc (Or.inr (hs s hm)))

theorem insertList_nsClean (st : St) (specs : List Spec) (index : Option Int) (h : NsClean st.rules) :
    NsClean (insertList st specs index).1.rules :=
  insertList_ind (fun s => NsClean s.rules) st specs index h (fun _ _ => h)
    (fun cur s j hc _ => insertRule_nsClean cur s j false false true hc)

/-! ## nested lists -/

/-- what the loop over a CSSRuleList keeps true of the container -/
structure ContOK (c0 c : Rule) (dropped : List Rule) : Prop where
  kind : c.kind = c0.kind
  id : c.id = c0.id
  pss : c.pss = c0.pss
  prule : c.prule = c0.prule
  pre : c.pre = c0.pre
  uri : c.uri = c0.uri
  kids : c.kidsOK = true
  links : Rule.linksOKL (some c.id) c.kids = true
  dropped : ∀ g ∈ dropped, g.linksOK none false = true

theorem cInsertListLoop_ok (raising : Bool) (c0 : Rule) (idx : Nat) :
    ∀ (todo : List Spec) (c : Rule) (i next : Nat) (dropped : List Rule),
      (∀ s ∈ todo, s.kidsOK = true) → ContOK c0 c dropped →
      (∃ e, (cInsertListLoop raising c0 idx c i next dropped todo).2.2.2 = .err e) ∨
      (ContOK c0 (cInsertListLoop raising c0 idx c i next dropped todo).1
          (cInsertListLoop raising c0 idx c i next dropped todo).2.1 ∧
        next ≤ (cInsertListLoop raising c0 idx c i next dropped todo).2.2.1) := by
  intro todo
  induction todo with
  | nil => intro c i next dropped _ h; exact Or.inr ⟨h, Nat.le_refl _⟩
  | cons s ss ih =>
    intro c i next dropped hs h
    unfold cInsertListLoop
    dsimp only
    split
    · rename_i e _; exact Or.inl ⟨e, rfl⟩
    · have hhead := cInsert_header raising c (Spec.inst none next s).1 (some ((idx + i : Nat) : Int)) false
      have hview := cInsert_view raising c (Spec.inst none next s).1 (some ((idx + i : Nat) : Int)) false
      have hl := cInsert_links raising c (Spec.inst none next s).1 (some ((idx + i : Nat) : Int)) false h.links
        (inst_linksOK none next s)
      have hk := cInsert_kidsOK raising c (Spec.inst none next s).1 (some ((idx + i : Nat) : Int)) false h.kids
        (inst_kidsOK none next s (hs s (by simp))) (f_container _ _)
      have hc' : ContOK c0 (cInsert raising c (Spec.inst none next s).1 (some ((idx + i : Nat) : Int)) false).1
          (dropped ++ (cInsert raising c (Spec.inst none next s).1 (some ((idx + i : Nat) : Int)) false).2.1) :=
        ⟨by rw [cInsert_kind]; exact h.kind, by rw [hhead.1]; exact h.id, by rw [hhead.2.1]; exact h.pss,
          by rw [hhead.2.2]; exact h.prule, by rw [hview.1]; exact h.pre, by rw [hview.2]; exact h.uri, hk, hl.1,
          by
            intro g hg
            rcases List.mem_append.mp hg with hg | hg
            · exact h.dropped g hg
            · exact hl.2 g hg⟩
      rcases ih _ (i + 1) (Spec.inst none next s).2 _ (fun x hx => hs x (by simp [hx])) hc' with h' | h'
      · exact Or.inl h'
      · exact Or.inr ⟨h'.1, Nat.le_trans (Nat.le_of_lt (inst_next none next s)) h'.2⟩

theorem cInsertListLoop_next (raising : Bool) (c0 : Rule) (idx : Nat) :
    ∀ (todo : List Spec) (c : Rule) (i next : Nat) (dropped : List Rule),
      next ≤ (cInsertListLoop raising c0 idx c i next dropped todo).2.2.1 := by
  intro todo
  induction todo with
  | nil => intro c i next dropped; exact Nat.le_refl _
  | cons s ss ih =>
    intro c i next dropped
    unfold cInsertListLoop
    dsimp only
    split
    · exact Nat.le_of_lt (inst_next none next s)
    · exact Nat.le_trans (Nat.le_of_lt (inst_next none next s)) (ih _ _ _ _)

theorem nInsertList_inv (st : St) (path : List Nat) (specs : List Spec) (index : Option Int) (h : Inv st)
    (hs : ∀ s ∈ specs, s.kidsOK = true) : Inv (nInsertList st path specs index).1 := by
  unfold nInsertList
  split
  · exact h
  · rename_i c hc
    have hck := atPath_kidsOK _ _ _ _ (inv_top_allOK h) hc
    have hcl := atPath_linksOK _ _ _ _ _ (inv_top_linksAll h) hc
    split
    · exact h
    · split
      · exact resetList_inv h specs _ (Nat.le_refl _)
      · rename_i idx _
        dsimp only
        have hloop := cInsertListLoop_ok st.raising c idx specs c 0 st.next [] hs
          ⟨rfl, rfl, rfl, rfl, rfl, rfl, hck, hcl, by intro g hg; cases hg⟩
        have hnext := cInsertListLoop_next st.raising c idx specs c 0 st.next []
        split
        · exact resetList_inv h specs _ hnext
        · rename_i o hne
          rcases hloop with ⟨e, he⟩ | ⟨hok, _⟩
          · exact absurd he (hne e)
          · exact inv_setPath h path _ c _ _ hc hok.kind hok.id hok.pss hok.prule hok.kids hok.links hok.dropped hnext

theorem nInsertList_live (st : St) (path : List Nat) (specs : List Spec) (index : Option Int) (h : Live st)
    (hs : ∀ s ∈ specs, s.kidsOK = true) : Live (nInsertList st path specs index).1 := by
  have hi := live_forget_inv h
  unfold nInsertList
  split
  · exact h
  · rename_i c hc
    have hck := atPath_kidsOK _ _ _ _ (inv_top_allOK hi) hc
    have hcl := atPath_linksOK _ _ _ _ _ (inv_top_linksAll hi) hc
    split
    · exact h
    · split
      · exact ⟨h.kids, h.links, fun x hx =>
          Nat.lt_of_lt_of_le (h.ids x hx) (instList_next none st.next specs)⟩
      · rename_i idx _
        dsimp only
        have hloop := cInsertListLoop_ok st.raising c idx specs c 0 st.next [] hs
          ⟨rfl, rfl, rfl, rfl, rfl, rfl, hck, hcl, by intro g hg; cases hg⟩
        have hnext := cInsertListLoop_next st.raising c idx specs c 0 st.next []
        split
        · exact ⟨h.kids, h.links, fun x hx =>
            Nat.lt_of_lt_of_le (h.ids x hx) (Nat.le_trans hnext (instList_next none _ specs))⟩
        · rename_i o hne
          rcases hloop with ⟨e, he⟩ | ⟨hok, _⟩
          · exact absurd he (hne e)
          · exact live_setPath h path _ c _ _ hc hok.kind hok.id hok.pss hok.prule hok.kids hok.links hnext

theorem cInsertListLoop_hdr (raising : Bool) (c0 : Rule) (idx : Nat) :
    ∀ (todo : List Spec) (c : Rule) (i next : Nat) (dropped : List Rule),
      c.kind = c0.kind → c.pre = c0.pre → c.uri = c0.uri →
      (cInsertListLoop raising c0 idx c i next dropped todo).1.kind = c0.kind ∧
      (cInsertListLoop raising c0 idx c i next dropped todo).1.pre = c0.pre ∧
      (cInsertListLoop raising c0 idx c i next dropped todo).1.uri = c0.uri := by
  intro todo
  induction todo with
  | nil => intro c i next dropped h1 h2 h3; exact ⟨h1, h2, h3⟩
  | cons s ss ih =>
    intro c i next dropped h1 h2 h3
    unfold cInsertListLoop
    dsimp only
    split
    · exact ⟨rfl, rfl, rfl⟩
    · have hview := cInsert_view raising c (Spec.inst none next s).1 (some ((idx + i : Nat) : Int)) false
      exact ih _ _ _ _ (by rw [cInsert_kind]; exact h1) (by rw [hview.1]; exact h2) (by rw [hview.2]; exact h3)

theorem nInsertList_view (st : St) (path : List Nat) (specs : List Spec) (index : Option Int) :
    kindsOf (nInsertList st path specs index).1.rules = kindsOf st.rules ∧
    nsPairs (nInsertList st path specs index).1.rules = nsPairs st.rules := by
  unfold nInsertList
  split
  · exact ⟨rfl, rfl⟩
  · rename_i c hc
    split
    · exact ⟨rfl, rfl⟩
    · split
      · exact ⟨rfl, rfl⟩
      · rename_i idx _
        dsimp only
        have hh := cInsertListLoop_hdr st.raising c idx specs c 0 st.next [] rfl rfl rfl
        split
        · exact ⟨rfl, rfl⟩
        · exact ⟨kindsOf_setPath _ _ _ c hc hh.1,
            nsPairs_of_view (nsView_setPath _ _ _ c hc hh.1 hh.2.1 hh.2.2)⟩

/-- a text that is not a complete rule changes nothing -/
theorem nSetBroken_state (st : St) (path : List Nat) : (nSetBroken st path).1 = st := by
  unfold nSetBroken
  split
  · rfl
  · split <;> rfl

end CssVerif.SheetEdit
