import CssVerif.Lemmas.Struct
import CssVerif.Model.SheetSpec
import CssVerif.Lemmas.Normalize
/-!
# Lemmas for C02 (structure level): what the structure kernel does on a rendered spelled sheet
-/
namespace CssVerif.SheetSpec
open CssVerif.Proto (Cps)
open CssVerif.Struct CssVerif.AtRules
set_option linter.unusedSimpArgs false
set_option linter.unusedVariables false

/-! ## tokens `_tokensupto2` never reacts to -/

/-- in mode `m`: not EOF, not a bracket, not an end token -/
def Flat (m : Mode) (t : Tok) : Prop := t.typ ≠ .eof ∧ t.br = .no ∧ endTok m t = false

theorem nest_flat (stk : List K) (g : List Tok) (h : ∀ t ∈ g, t.br = .no) : nest stk g = some stk := by
  induction g with
  | nil => rfl
  | cons t ts ih =>
    have ht := h t (by simp)
    simp only [nest, push, ht]
    exact ih (fun x hx => h x (by simp [hx]))

theorem quiet_flat (m : Mode) (stk : List K) (g : List Tok) (h : ∀ t ∈ g, Flat m t) :
    Quiet m stk g = true := by
  induction g with
  | nil => rfl
  | cons t ts ih =>
    obtain ⟨h1, h2, h3⟩ := h t (by simp)
    simp only [Quiet, push, h2, h3]
    simp [h1, ih (fun x hx => h x (by simp [hx]))]

theorem noEof_of (g : List Tok) (h : ∀ t ∈ g, t.typ ≠ .eof) : noEof g = true := by
  simp only [noEof, List.all_eq_true, bne_iff_ne, ne_eq]
  exact h

theorem noBrace_of (g : List Tok) (h : ∀ t ∈ g, t.br = .no) : noBrace g = true := by
  simp only [noBrace, List.all_eq_true]
  intro t ht
  simp [h t ht]

theorem noBrace_append (a b : List Tok) : noBrace (a ++ b) = (noBrace a && noBrace b) := by
  simp [noBrace]

/-- the characters `_tokensupto2` looks for -/
def delims : List Nat := [0x7B, 0x7D, 0x5B, 0x5D, 0x28, 0x29, 0x3B, 0x3A, 0x21, 0x2C]

/-- a token value that starts with a character that is not a delimiter -/
def SafeVal (v : Cps) : Prop := ∃ c cs, v = c :: cs ∧ c ∉ delims

theorem isInfixOf_head_mem (c : Nat) (cs s : Cps) (h : isInfixOf (c :: cs) s = true) : c ∈ s := by
  induction s with
  | nil => simp [isInfixOf] at h
  | cons x xs ih =>
    simp only [isInfixOf, Bool.or_eq_true] at h
    rcases h with h | h
    · simp only [List.isPrefixOf, Bool.and_eq_true, beq_iff_eq] at h
      simp [h.1]
    · simp [ih h]

theorem ends_sub_delims (m : Mode) : ∀ x ∈ m.ends, x ∈ delims := by
  cases m <;> simp [Mode.ends, delims]

theorem safe_noEnd (m : Mode) (t : Tok) (hv : SafeVal t.val) (hs : t.typ ≠ .string) :
    endTok m t = false := by
  obtain ⟨c, cs, hv, hc⟩ := hv
  simp only [endTok, Bool.or_eq_false_iff, Bool.and_eq_false_imp]
  constructor
  · cases h : isInfixOf t.val m.ends with
    | false => rfl
    | true =>
      rw [hv] at h
      exact absurd (ends_sub_delims m c (isInfixOf_head_mem c cs _ h)) hc
  · intro _; simpa using hs

theorem safe_br (t : Tok) (hv : SafeVal t.val) (hf : t.typ ≠ .function) : t.br = .no := by
  obtain ⟨c, cs, hv, hc⟩ := hv
  have hne : ∀ d, d ∈ delims → t.val ≠ [d] := by
    intro d hd h
    rw [hv] at h
    simp only [List.cons.injEq] at h
    exact hc (h.1 ▸ hd)
  simp only [Tok.br, vLBrace, vRBrace, vLBrack, vRBrack, vLParen, vRParen]
  simp [hne 0x7B (by simp [delims]), hne 0x7D (by simp [delims]), hne 0x5B (by simp [delims]),
    hne 0x5D (by simp [delims]), hne 0x28 (by simp [delims]), hne 0x29 (by simp [delims]), hf]

theorem safe_flat (m : Mode) (t : Tok) (hv : SafeVal t.val) (h1 : t.typ ≠ .eof) (h2 : t.typ ≠ .function)
    (h3 : t.typ ≠ .string) : Flat m t :=
  ⟨h1, safe_br t hv h2, safe_noEnd m t hv h3⟩

/-! ### gap tokens -/

theorem ws_safe (w : Ws) : SafeVal w.tok.val := by
  refine ⟨w.c.cp, w.cs.map WsChar.cp, rfl, ?_⟩
  cases w.c <;> simp [WsChar.cp, delims]

theorem comment_safe (b : Cps) : SafeVal (commentTok b).val :=
  ⟨0x2F, 0x2A :: (b ++ [0x2A, 0x2F]), by simp [commentTok, commentVal], by simp [delims]⟩

theorem gapTok_flat (m : Mode) (g : GapTok) : Flat m g.tok := by
  cases g with
  | ws w =>
    exact safe_flat m _ (ws_safe w) (by simp [GapTok.tok, Ws.tok]) (by simp [GapTok.tok, Ws.tok])
      (by simp [GapTok.tok, Ws.tok])
  | cm b =>
    exact safe_flat m _ (comment_safe b) (by simp [GapTok.tok, commentTok])
      (by simp [GapTok.tok, commentTok]) (by simp [GapTok.tok, commentTok])

theorem gap_flat (m : Mode) (g : Gap) : ∀ t ∈ Gap.toks g, Flat m t := by
  intro t ht
  simp only [Gap.toks, List.mem_map] at ht
  obtain ⟨x, _, rfl⟩ := ht
  exact gapTok_flat m x

theorem gapTok_isGap (g : GapTok) : isGapTok g.tok = true := by
  cases g <;> simp [GapTok.tok, Ws.tok, commentTok, isGapTok]

theorem gap_isGap (g : Gap) : ∀ t ∈ Gap.toks g, isGapTok t = true := by
  intro t ht
  simp only [Gap.toks, List.mem_map] at ht
  obtain ⟨x, _, rfl⟩ := ht
  exact gapTok_isGap x

theorem wgap_eq_gap (w : WGap) : WGap.toks w = Gap.toks (w.map GapTok.ws) := by
  simp [WGap.toks, Gap.toks, GapTok.tok]

/-! ## `clean` -/

theorem dropWhile_s_append (g : List Tok) (l : List Tok) (hg : ∀ t ∈ g, isS t = true) :
    (g ++ l).dropWhile isS = l.dropWhile isS := by
  induction g with
  | nil => rfl
  | cons t ts ih =>
    simp only [List.cons_append, List.dropWhile_cons, hg t (by simp), ↓reduceIte]
    exact ih (fun x hx => hg x (by simp [hx]))

/-- an opaque token list as the abstract sheet holds it: not empty, no comment tokens, no white space at
either end -/
structure Core (c : List Tok) : Prop where
  head : ∃ t ts, c = t :: ts ∧ isS t = false
  last : ∃ ts t, c = ts ++ [t] ∧ isS t = false

theorem Core.ne_of_strip {v : List Tok} (h : Core (strip v)) : v ≠ [] := by
  intro hv
  obtain ⟨t, ts, h1, _⟩ := h.head
  simp [hv, strip] at h1

theorem trimS_padded (pre post c : List Tok) (hpre : ∀ t ∈ pre, isS t = true)
    (hpost : ∀ t ∈ post, isS t = true) (hc : Core c) : trimS (pre ++ (c ++ post)) = c := by
  obtain ⟨t, ts, h1, ht⟩ := hc.head
  obtain ⟨us, u, h2, hu⟩ := hc.last
  unfold trimS
  rw [dropWhile_s_append pre _ hpre]
  have e1 : (c ++ post).dropWhile isS = c ++ post := by
    rw [h1]; simp [List.dropWhile_cons, ht]
  rw [e1, List.reverse_append, dropWhile_s_append post.reverse _ (by simpa using hpost)]
  have e2 : c.reverse.dropWhile isS = c.reverse := by
    rw [h2]; simp [List.dropWhile_cons, hu]
  rw [e2, List.reverse_reverse]

theorem strip_gap_isS (g : List Tok) (hg : ∀ t ∈ g, isGapTok t = true) : ∀ t ∈ strip g, isS t = true := by
  intro t ht
  simp only [strip, List.mem_filter, notComment, bne_iff_ne, ne_eq] at ht
  have := hg t ht.1
  simp only [isGapTok, Bool.or_eq_true, beq_iff_eq] at this
  rcases this with h | h
  · simp [isS, h]
  · exact absurd h ht.2

/-- white space and comments around an opaque list disappear in the projection, and so do the comments
inside it -/
theorem clean_padded (pre post v : List Tok) (hpre : ∀ t ∈ pre, isGapTok t = true)
    (hpost : ∀ t ∈ post, isGapTok t = true) (hc : Core (strip v)) : clean (pre ++ (v ++ post)) = strip v := by
  unfold clean
  have : strip (pre ++ (v ++ post)) = strip pre ++ (strip v ++ strip post) := by simp [strip]
  rw [this]
  exact trimS_padded _ _ _ (strip_gap_isS pre hpre) (strip_gap_isS post hpost) hc

/-! ## names -/

theorem isHex_eq (d : Nat) : CssVerif.Normalize.isHex d = isHexDigit d := rfl
theorem lower_eq (d : Nat) : CssVerif.Normalize.lowerAscii d = lowerAscii d := rfl

theorem struct_normalize_eq (x : Cps) : Struct.normalize x = CssVerif.Normalize.normalize x := by
  unfold CssVerif.Normalize.normalize
  fun_induction Struct.normalize x with
  | case1 => rfl
  | case2 c => simp [CssVerif.Normalize.unesc, lower_eq]
  | case3 c d rest h ih =>
    obtain ⟨h1, h2⟩ := h
    have h2' : CssVerif.Normalize.isHex d = false := by
      rw [isHex_eq]; simpa using h2
    simp [CssVerif.Normalize.unesc, h1, h2', ih, lower_eq]
  | case4 c d rest h ih =>
    by_cases h1 : c = 0x5C
    · have h2 : CssVerif.Normalize.isHex d = true := by
        rw [isHex_eq]
        cases hx : isHexDigit d with
        | true => rfl
        | false => exact absurd ⟨h1, by simp [hx]⟩ h
      simp [CssVerif.Normalize.unesc, h1, h2, ← ih, lower_eq]
    · simp [CssVerif.Normalize.unesc, h1, ← ih, lower_eq]

/-- a name as the abstract sheet holds it: lower case, no backslash, starts with a non-delimiter -/
structure NameOk (n : Cps) : Prop where
  plain : CssVerif.Normalize.Plain n
  head : ∃ c cs, n = c :: cs ∧ c ∉ delims

theorem normalize_spell (n : Cps) (sp : List (Bool × Bool)) (h : NameOk n) :
    Struct.normalize (spell sp n) = n := by
  rw [struct_normalize_eq]
  exact CssVerif.Normalize.normalize_spell_aux n sp h.plain

theorem spell_safe (n : Cps) (sp : List (Bool × Bool)) (h : NameOk n) : SafeVal (spell sp n) := by
  obtain ⟨c, cs, rfl, hc⟩ := h.head
  have hl := (h.plain c (by simp)).2
  have hup : CssVerif.Normalize.upperAscii c ∉ delims := by
    unfold CssVerif.Normalize.upperAscii
    split
    · simp [delims]; omega
    · exact hc
  cases sp with
  | nil => exact ⟨c, _, rfl, hc⟩
  | cons ue m =>
    obtain ⟨up, esc⟩ := ue
    cases up
    · by_cases he : (esc && !CssVerif.Normalize.isHex c) = true
      · exact ⟨0x5C, _, by simp only [spell, CssVerif.Normalize.spell]; simp [he]; rfl, by simp [delims]⟩
      · exact ⟨c, _, by simp only [spell, CssVerif.Normalize.spell]; simp [he]; rfl, hc⟩
    · by_cases he : (esc && !CssVerif.Normalize.isHex (CssVerif.Normalize.upperAscii c)) = true
      · exact ⟨0x5C, _, by simp only [spell, CssVerif.Normalize.spell]; simp [he]; rfl, by simp [delims]⟩
      · exact ⟨_, _, by simp only [spell, CssVerif.Normalize.spell]; simp [he]; rfl, hup⟩

theorem identTok_flat (m : Mode) (n : Cps) (sp : List (Bool × Bool)) (h : NameOk n) :
    Flat m (identTok (spell sp n)) :=
  safe_flat m _ (spell_safe n sp h) (by simp [identTok]) (by simp [identTok]) (by simp [identTok])

/-! ## `_parse` over tokens a production skips -/

theorem parseLoop_skip {σ : Type} (step : σ → Tok → List Tok → σ × List Tok) (g x : List Tok)
    (h : ∀ t ∈ g, ∀ s rest, step s t rest = (s, rest)) (s : σ) :
    parseLoop step s (g ++ x) = parseLoop step s x := by
  induction g with
  | nil => rfl
  | cons t ts ih =>
    rw [List.cons_append, parseLoop_cons _ _ _ _ (by rw [h t (by simp)]; simp), h t (by simp)]
    exact ih (fun y hy => h y (by simp [hy]))

theorem parseLoop_skip_inv {σ : Type} (step : σ → Tok → List Tok → σ × List Tok) (P : σ → Prop)
    (g x : List Tok) (h : ∀ t ∈ g, ∀ s rest, P s → step s t rest = (s, rest)) (s : σ) (hs : P s) :
    parseLoop step s (g ++ x) = parseLoop step s x := by
  induction g with
  | nil => rfl
  | cons t ts ih =>
    rw [List.cons_append, parseLoop_cons _ _ _ _ (by rw [h t (by simp) s _ hs]; simp), h t (by simp) s _ hs]
    exact ih (fun y hy => h y (by simp [hy]))

theorem nameStep_gap (t : Tok) (ht : isGapTok t = true) (s : NameSt) (rest : List Tok) :
    nameStep s t rest = (s, rest) := by
  simp only [isGapTok, Bool.or_eq_true, beq_iff_eq] at ht
  rcases ht with h | h <;> simp [nameStep, h]

theorem prioStep_gap (t : Tok) (ht : isGapTok t = true) (s : PrioSt) (rest : List Tok) :
    prioStep s t rest = (s, rest) := by
  simp only [isGapTok, Bool.or_eq_true, beq_iff_eq] at ht
  rcases ht with h | h <;> simp [prioStep, h]

/-- `Property._setName` on `IDENT gap` -/
theorem parseName_ident_gap (n : Tok) (g : List Tok) (hn : n.typ = .ident) (hg : ∀ t ∈ g, isGapTok t = true) :
    parseName (n :: g) = some n := by
  unfold parseName
  rw [parseLoop_cons _ _ _ _ (by simp [nameStep, hn])]
  have := parseLoop_skip nameStep g [] (fun t ht s rest => nameStep_gap t (hg t ht) s rest)
  simp only [List.append_nil] at this
  simp [nameStep, hn, this, parseLoop_nil]

/-- the priority setter on `! gap IDENT gap` -/
theorem parsePrio_bang (b i : Tok) (g4 g5 : List Tok) (hb1 : b.typ = .char) (hb2 : b.val = vBang)
    (hi : i.typ = .ident) (h4 : ∀ t ∈ g4, isGapTok t = true) (h5 : ∀ t ∈ g5, isGapTok t = true) :
    parsePrio (b :: (g4 ++ i :: g5)) = some i := by
  unfold parsePrio
  rw [parseLoop_cons _ _ _ _ (by simp [prioStep, hb1, hb2])]
  simp only [prioStep, hb1, hb2, and_self, ↓reduceIte]
  rw [parseLoop_skip prioStep g4 _ (fun t ht s rest => prioStep_gap t (h4 t ht) s rest)]
  rw [parseLoop_cons _ _ _ _ (by simp [prioStep, hi])]
  have := parseLoop_skip prioStep g5 [] (fun t ht s rest => prioStep_gap t (h5 t ht) s rest)
  simp only [List.append_nil] at this
  simp [prioStep, hi, this, parseLoop_nil]

theorem parsePrio_nil : parsePrio [] = none := by
  simp [parsePrio, parseLoop_nil]

/-! ## quiet and balanced stretches -/

/-- quiet in mode `m` from depth 0 and back at depth 0 -/
def QB (m : Mode) (l : List Tok) : Prop := Quiet m [] l = true ∧ nest [] l = some []

theorem QB.nil (m : Mode) : QB m [] := ⟨rfl, rfl⟩

theorem QB.append {m : Mode} {a b : List Tok} (ha : QB m a) (hb : QB m b) : QB m (a ++ b) :=
  ⟨quiet_append m [] [] a b ha.1 ha.2 hb.1, by rw [nest_append, ha.2]; exact hb.2⟩

theorem QB.flat {m : Mode} {g : List Tok} (h : ∀ t ∈ g, Flat m t) : QB m g :=
  ⟨quiet_flat m [] g h, nest_flat [] g (fun t ht => (h t ht).2.1)⟩

theorem QB.cons {m : Mode} {t : Tok} {g : List Tok} (ht : Flat m t) (hg : QB m g) : QB m (t :: g) := by
  have : QB m ([t] ++ g) := QB.append (QB.flat (by simpa using ht)) hg
  simpa using this

/-- the last token of a quiet stretch that ends at depth 0 is not an end token -/
theorem quiet_last_noEnd (m : Mode) (stk : List K) (g : List Tok) (l : Tok)
    (hq : Quiet m stk g = true) (hn : nest stk g = some []) (hl : g.getLast? = some l) :
    endTok m l = false := by
  induction g generalizing stk with
  | nil => simp at hl
  | cons t ts ih =>
    unfold Quiet at hq
    unfold nest at hn
    split at hq
    · simp at hq
    · next s hs =>
      simp only [hs] at hn
      simp only [Bool.and_eq_true, bne_iff_ne, ne_eq, Bool.not_eq_true'] at hq
      cases ts with
      | nil =>
        simp only [nest, Option.some.injEq] at hn
        simp only [List.getLast?_singleton, Option.some.injEq] at hl
        subst hl; subst hn
        simpa using hq.1.2
      | cons u us =>
        exact ih s hq.2 hn (by simpa [List.getLast?_cons_cons] using hl)

theorem quiet_mono (m₁ m₂ : Mode) (h : ∀ t, endTok m₂ t = true → endTok m₁ t = true) (stk : List K)
    (g : List Tok) (hq : Quiet m₁ stk g = true) : Quiet m₂ stk g = true := by
  induction g generalizing stk with
  | nil => rfl
  | cons t ts ih =>
    unfold Quiet at hq ⊢
    split at hq
    · simp at hq
    · next s hs =>
      simp only [Bool.and_eq_true, bne_iff_ne, ne_eq, Bool.not_eq_true'] at hq ⊢
      refine ⟨⟨hq.1.1, ?_⟩, ih s hq.2⟩
      cases he : endTok m₂ t with
      | false => simp
      | true => have := h t he; simp [this] at hq; simp [hq.1.2]

theorem isInfixOf_sub (p : Cps) (a b : Cps) (hp : p = [] ∨ ∃ c, p = [c]) (hab : ∀ x ∈ a, x ∈ b)
    (h : isInfixOf p a = true) : isInfixOf p b = true := by
  rcases hp with rfl | ⟨c, rfl⟩
  · cases b <;> simp [isInfixOf]
  · have hc := isInfixOf_head_mem c [] a h
    have hb := hab c hc
    clear h hc hab
    induction b with
    | nil => simp at hb
    | cons x xs ih =>
      simp only [isInfixOf, Bool.or_eq_true]
      simp only [List.mem_cons] at hb
      rcases hb with rfl | hb
      · left; simp [List.isPrefixOf]
      · right; exact ih hb

theorem isInfixOf_len (p s : Cps) (h : isInfixOf p s = true) : p.length ≤ s.length := by
  induction s with
  | nil => cases p <;> simp_all [isInfixOf]
  | cons x xs ih =>
    simp only [isInfixOf, Bool.or_eq_true] at h
    rcases h with h | h
    · exact (List.isPrefixOf_iff_prefix.mp h).length_le
    · have := ih h; simp; omega

/-- `;` ends a value (mode `propvalue`, ends `;!`) whenever it ends a declaration (mode `semicolon`) -/
theorem endTok_semicolon_propvalue (t : Tok) (h : endTok .semicolon t = true) :
    endTok .propvalue t = true := by
  simp only [endTok, Mode.ends, Mode.endString, Bool.false_and, Bool.or_false] at h ⊢
  have hl := isInfixOf_len _ _ h
  apply isInfixOf_sub t.val [0x3B] [0x3B, 0x21] _ (by simp) h
  match hv : t.val with
  | [] => left; rfl
  | [c] => right; exact ⟨c, rfl⟩
  | _ :: _ :: _ => rw [hv] at hl; simp at hl

theorem endTok_propprio_propvalue (t : Tok) (h : endTok .propprio t = true) :
    endTok .propvalue t = true := endTok_semicolon_propvalue t h

/-! ## declarations -/

/-- a list of gap tokens (as token list) -/
def GapL (g : List Tok) : Prop := ∀ t ∈ g, isGapTok t = true ∧ ∀ m, Flat m t

theorem gapL_toks (g : Gap) : GapL (Gap.toks g) :=
  fun t ht => ⟨gap_isGap g t ht, fun m => gap_flat m g t ht⟩

theorem gapL_wtoks (w : WGap) : GapL (WGap.toks w) := by
  rw [wgap_eq_gap]; exact gapL_toks _

theorem GapL.qb {g : List Tok} (h : GapL g) (m : Mode) : QB m g := QB.flat (fun t ht => (h t ht).2 m)
theorem GapL.isGap {g : List Tok} (h : GapL g) : ∀ t ∈ g, isGapTok t = true := fun t ht => (h t ht).1

/-- an opaque value as the abstract sheet holds it: a core, well nested, no `;` / `!` at depth 0, no EOF -/
structure ValueOk (v : List Tok) : Prop where
  core : Core (strip v)
  quiet : Quiet .propvalue [] v = true
  bal : nest [] v = some []

theorem ValueOk.qb {v : List Tok} (h : ValueOk v) : QB .propvalue v := ⟨h.quiet, h.bal⟩

theorem colon_flat (m : Mode) (hm : m = .propvalue ∨ m = .semicolon ∨ m = .default ∨ m = .propprio)
    (c : Tok) (h1 : c.typ = .char) (h2 : c.val = vColon) : Flat m c := by
  refine ⟨by simp [h1], by simp [Tok.br, h1, h2], ?_⟩
  rcases hm with h | h | h | h <;> subst h <;> simp only [endTok, h2, Mode.ends, Mode.endString, Bool.false_and, Bool.or_false] <;> decide

theorem bang_flat (m : Mode) (hm : m = .semicolon ∨ m = .default ∨ m = .propprio)
    (c : Tok) (h1 : c.typ = .char) (h2 : c.val = vBang) : Flat m c := by
  refine ⟨by simp [h1], by simp [Tok.br, h1, h2], ?_⟩
  rcases hm with h | h | h <;> subst h <;> simp only [endTok, h2, Mode.ends, Mode.endString, Bool.false_and, Bool.or_false] <;> decide

theorem getLast?_ne_nil_append (a b : List Tok) (hb : b ≠ []) : (a ++ b).getLast? = b.getLast? := by
  rw [List.getLast?_append]
  cases h : b.getLast? with
  | none => simp [List.getLast?_eq_none_iff] at h; exact absurd h hb
  | some x => simp

/-- `Property.cssText = tokens` for `name g1 : g2 value g3` -/
theorem parseProperty_plain (O : Oracle) (n c : Tok) (G1 G2 v G3 : List Tok)
    (hn : n.typ = .ident) (hnf : Flat .propname n) (h1 : GapL G1)
    (hc1 : c.typ = .char) (hc2 : c.val = vColon) (h2 : GapL G2) (hv : ValueOk v) (h3 : GapL G3)
    (hO : O.valueOk (G2 ++ (v ++ G3)) = true) :
    parseProperty O (n :: (G1 ++ c :: (G2 ++ (v ++ G3)))) = some ⟨n, G2 ++ (v ++ G3), none⟩ := by
  have e1 : upto .propname none (n :: (G1 ++ c :: (G2 ++ (v ++ G3)))) = (n :: G1 ++ [c], G2 ++ (v ++ G3)) := by
    have hq : QB .propname (n :: G1) := QB.cons hnf (h1.qb _)
    exact upto_none_end .propname [] [] (n :: G1) c _ rfl hq.1 hq.2
      (by simp [push, Tok.br, hc1, hc2]) (by simp [endTok, hc2, Mode.ends, isInfixOf])
  have hq2 : QB .propvalue (G2 ++ (v ++ G3)) := (h2.qb _).append (hv.qb.append (h3.qb _))
  have e2 : upto .propvalue none (G2 ++ (v ++ G3)) = (G2 ++ (v ++ G3), []) :=
    upto_none_nil .propvalue [] [] _ rfl hq2.1 hq2.2
  have e3 : upto .propprio none [] = ([], []) := by simp [upto, uptoLoop]
  have hne : G2 ++ (v ++ G3) ≠ [] := by simp [hv.core.ne_of_strip]
  obtain ⟨vlast, hlast⟩ : ∃ x, (G2 ++ (v ++ G3)).getLast? = some x := by
    cases h : (G2 ++ (v ++ G3)).getLast? with
    | none => exact absurd (List.getLast?_eq_none_iff.mp h) hne
    | some x => exact ⟨x, rfl⟩
  have hnb : vlast.val ≠ vBang := by
    have := quiet_last_noEnd .propvalue [] _ vlast hq2.1 hq2.2 hlast
    intro hb
    simp [endTok, hb, Mode.ends, isInfixOf, Mode.endString] at this
  unfold parseProperty
  simp only [e1, e2, e3]
  have l1 : (n :: G1 ++ [c]).getLast? = some c := by
    rw [show n :: G1 ++ [c] = (n :: G1) ++ [c] from rfl, List.getLast?_concat]
  have l2 : (n :: G1 ++ [c]).dropLast = n :: G1 := by
    rw [show n :: G1 ++ [c] = (n :: G1) ++ [c] from rfl, List.dropLast_concat]
  simp only [l1, l2, hlast, hnb, ↓reduceIte, hc2, parseName_ident_gap n G1 hn h1.isGap, hO, parsePrio_nil]
  simp

/-- `Property.cssText = tokens` for `name g1 : g2 value g3 ! g4 important g5` -/
theorem parseProperty_prio (O : Oracle) (n c b i : Tok) (G1 G2 v G3 G4 G5 : List Tok)
    (hn : n.typ = .ident) (hnf : Flat .propname n) (h1 : GapL G1)
    (hc1 : c.typ = .char) (hc2 : c.val = vColon) (h2 : GapL G2) (hv : ValueOk v) (h3 : GapL G3)
    (hb1 : b.typ = .char) (hb2 : b.val = vBang) (h4 : GapL G4) (hi : i.typ = .ident)
    (hif : Flat .propprio i) (h5 : GapL G5)
    (hO : O.valueOk (G2 ++ (v ++ G3)) = true) :
    parseProperty O (n :: (G1 ++ c :: (G2 ++ (v ++ (G3 ++ b :: (G4 ++ i :: G5)))))) =
      some ⟨n, G2 ++ (v ++ G3), some i⟩ := by
  have e1 : upto .propname none (n :: (G1 ++ c :: (G2 ++ (v ++ (G3 ++ b :: (G4 ++ i :: G5)))))) =
      (n :: G1 ++ [c], G2 ++ (v ++ (G3 ++ b :: (G4 ++ i :: G5)))) := by
    have hq : QB .propname (n :: G1) := QB.cons hnf (h1.qb _)
    exact upto_none_end .propname [] [] (n :: G1) c _ rfl hq.1 hq.2
      (by simp [push, Tok.br, hc1, hc2]) (by simp [endTok, hc2, Mode.ends, isInfixOf])
  have hq2 : QB .propvalue (G2 ++ (v ++ G3)) := (h2.qb _).append (hv.qb.append (h3.qb _))
  have e2 : upto .propvalue none (G2 ++ (v ++ (G3 ++ b :: (G4 ++ i :: G5)))) =
      ((G2 ++ (v ++ G3)) ++ [b], G4 ++ i :: G5) := by
    have := upto_none_end .propvalue [] [] (G2 ++ (v ++ G3)) b (G4 ++ i :: G5) rfl hq2.1 hq2.2
      (by simp [push, Tok.br, hb1, hb2]) (by simp [endTok, hb2, Mode.ends, isInfixOf])
    simpa using this
  have hq3 : QB .propprio (G4 ++ i :: G5) := (h4.qb _).append (QB.cons hif (h5.qb _))
  have e3 : upto .propprio none (G4 ++ i :: G5) = (G4 ++ i :: G5, []) :=
    upto_none_nil .propprio [] [] _ rfl hq3.1 hq3.2
  unfold parseProperty
  simp only [e1, e2, e3]
  have l1 : (n :: G1 ++ [c]).getLast? = some c := by
    rw [show n :: G1 ++ [c] = (n :: G1) ++ [c] from rfl, List.getLast?_concat]
  have l2 : (n :: G1 ++ [c]).dropLast = n :: G1 := by
    rw [show n :: G1 ++ [c] = (n :: G1) ++ [c] from rfl, List.dropLast_concat]
  simp only [l1, l2, List.getLast?_concat, List.dropLast_concat, hb2, ↓reduceIte, hc2,
    parseName_ident_gap n G1 hn h1.isGap, hO, parsePrio_bang b i G4 G5 hb1 hb2 hi h4.isGap h5.isGap]
  simp

theorem quiet_noEof (m : Mode) (stk : List K) (g : List Tok) (h : Quiet m stk g = true) : noEof g = true := by
  induction g generalizing stk with
  | nil => rfl
  | cons t ts ih =>
    unfold Quiet at h
    split at h
    · simp at h
    · next s hs =>
      simp only [Bool.and_eq_true, bne_iff_ne, ne_eq] at h
      simp only [noEof, List.all_cons, Bool.and_eq_true, bne_iff_ne, ne_eq]
      exact ⟨h.1.1, by simpa [noEof] using ih s h.2⟩

theorem QB.noEof {m : Mode} {g : List Tok} (h : QB m g) : noEof g = true := quiet_noEof m [] g h.1

theorem QB.mono {m₁ m₂ : Mode} {g : List Tok} (h : QB m₁ g)
    (hm : ∀ t, endTok m₂ t = true → endTok m₁ t = true) : QB m₂ g :=
  ⟨quiet_mono m₁ m₂ hm [] g h.1, h.2⟩

/-- what a spelled declaration must satisfy: the name (and the priority ident) is a name, the value an
opaque value, and the value parser accepts the value tokens as they are written (with the gaps around) -/
structure SDecl.WF (O : Oracle) (d : SDecl) : Prop where
  name : NameOk d.name
  value : ValueOk d.value
  prio : ∀ p, d.prio = some p → NameOk p.2.1
  accepts : O.valueOk (Gap.toks d.g2 ++ (d.value ++ Gap.toks d.g3)) = true

def SDecl.nameTok (d : SDecl) : Tok := identTok (spell d.nameSp d.name)

/-- what `Property` makes of the tokens of a spelled declaration -/
def SDecl.parsed (d : SDecl) : Decl :=
  ⟨d.nameTok, Gap.toks d.g2 ++ (d.value ++ Gap.toks d.g3), d.prio.map fun p => identTok (spell p.2.2.1 p.2.1)⟩

theorem parseProperty_sdecl (O : Oracle) (d : SDecl) (h : d.WF O) : parseProperty O d.toks = some d.parsed := by
  have hc : colonTok.typ = .char ∧ colonTok.val = vColon := ⟨rfl, rfl⟩
  have hb : bangTok.typ = .char ∧ bangTok.val = vBang := ⟨rfl, rfl⟩
  unfold SDecl.toks SDecl.parsed SDecl.nameTok
  cases hp : d.prio with
  | none =>
    simp only [renderPrio, List.append_nil, Option.map_none]
    exact parseProperty_plain O _ _ _ _ _ _ rfl (identTok_flat _ _ _ h.name) (gapL_toks _) hc.1 hc.2
      (gapL_toks _) h.value (gapL_toks _) h.accepts
  | some p =>
    obtain ⟨g4, n, sp, g5⟩ := p
    simp only [renderPrio, Option.map_some]
    exact parseProperty_prio O _ _ _ _ _ _ _ _ _ _ rfl (identTok_flat _ _ _ h.name) (gapL_toks _) hc.1 hc.2
      (gapL_toks _) h.value (gapL_toks _) hb.1 hb.2 (gapL_toks _) rfl
      (identTok_flat _ _ _ (h.prio _ hp)) (gapL_toks _) h.accepts

theorem projItem_parsed (O : Oracle) (d : SDecl) (h : d.WF O) : projItem (.decl d.parsed) = some d.erase := by
  simp only [projItem, SDecl.parsed, SDecl.nameTok, identTok, SDecl.erase, Option.some.injEq]
  rw [normalize_spell _ _ h.name, clean_padded _ _ _ (gapL_toks _).isGap (gapL_toks _).isGap h.value.core]
  cases hp : d.prio with
  | none => rfl
  | some p => simp [normalize_spell _ _ (h.prio p hp)]

/-- the tokens of a declaration are quiet and balanced for the block parser -/
theorem SDecl.qb (O : Oracle) (d : SDecl) (h : d.WF O) : QB .semicolon d.toks := by
  have hc : colonTok.typ = .char ∧ colonTok.val = vColon := ⟨rfl, rfl⟩
  have hb : bangTok.typ = .char ∧ bangTok.val = vBang := ⟨rfl, rfl⟩
  unfold SDecl.toks
  refine QB.cons (identTok_flat _ _ _ h.name) ((gapL_toks _).qb _ |>.append ?_)
  refine QB.cons (colon_flat _ (by simp) _ hc.1 hc.2) ((gapL_toks _).qb _ |>.append ?_)
  refine (h.value.qb.mono endTok_semicolon_propvalue).append ((gapL_toks _).qb _ |>.append ?_)
  cases hp : d.prio with
  | none => exact QB.nil _
  | some p =>
    obtain ⟨g4, n, sp, g5⟩ := p
    simp only [renderPrio]
    exact QB.cons (bang_flat _ (by simp) _ hb.1 hb.2) ((gapL_toks _).qb _ |>.append
      (QB.cons (identTok_flat _ _ _ (h.prio _ hp)) ((gapL_toks _).qb _)))

theorem SDecl.toks_cons (d : SDecl) : ∃ g, d.toks = d.nameTok :: g := ⟨_, rfl⟩

theorem safe_startStack (t : Tok) (hv : SafeVal t.val) (hf : t.typ ≠ .function) : startStack t = [] := by
  obtain ⟨c, cs, hv, hc⟩ := hv
  have hne : ∀ d, d ∈ delims → t.val ≠ [d] := by
    intro d hd h
    rw [hv] at h
    simp only [List.cons.injEq] at h
    exact hc (h.1 ▸ hd)
  simp only [startStack, Tok.startOpen, vLBrace, vLBrack, vLParen]
  simp [hne 0x7B (by simp [delims]), hne 0x5B (by simp [delims]), hne 0x28 (by simp [delims]), hf]

theorem upto_start_nil (m : Mode) (stk₀ stk' : List K) (s : Tok) (g : List Tok)
    (hm : m.initStack = some stk₀)
    (hq : Quiet m (startStack s ++ stk₀) g = true) (hn : nest (startStack s ++ stk₀) g = some stk') :
    upto m (some s) g = (s :: g, []) := by
  simp only [upto]
  rw [init_eq_of_initStack m (some s) stk₀ hm, bumpStart_eq, ← cntFrom_append]
  rw [uptoLoop_quiet_nil m _ stk' g hq hn]

/-! ## the declaration block -/

theorem declTrace_ws (O : Oracle) (t : Tok) (h : t.typ = .s) : declTrace O [t] = [] := by
  unfold declTrace
  rw [declLoop_cons]; simp [declStep, h, parseLoop_nil]

theorem declTrace_comment (O : Oracle) (t : Tok) (h : t.typ = .comment) : declTrace O [t] = [.comment t] := by
  unfold declTrace
  rw [declLoop_cons]; simp [declStep, h, parseLoop_nil]

theorem declTrace_semi (O : Oracle) : declTrace O [semiTok] = [] := by
  unfold declTrace
  rw [declLoop_cons]; simp [declStep, semiTok, charTok, parseLoop_nil, vSemi]

/-- white space between items leaves no trace -/
theorem declTrace_wgap (O : Oracle) (w : WGap) (x : List Tok) :
    declTrace O (WGap.toks w ++ x) = declTrace O x := by
  induction w with
  | nil => rfl
  | cons a w ih =>
    have hu : DeclUnit [a.tok] := DeclUnit.skip a.tok (Or.inl rfl)
    have := declTrace_append O [a.tok] (WGap.toks w ++ x) (DeclSeq.single hu)
    rw [show WGap.toks (a :: w) ++ x = [a.tok] ++ (WGap.toks w ++ x) from rfl, this,
      declTrace_ws O a.tok rfl, ih]
    rfl

/-- an at-rule inside a block, as the abstract sheet holds it -/
structure UnknownInBlock (toks : List Tok) : Prop where
  shape : ∃ t g e stk', toks = t :: g ++ [e] ∧ t.typ = .atkeyword ∧
    Quiet .default (startStack t) g = true ∧ nest (startStack t) g = some stk' ∧
    push stk' e = some [] ∧ endTok .default e = true
  bal : nest [] toks = some []
  noeof : noEof toks = true
  ok : unknownOk toks = true

theorem declTrace_unknown (O : Oracle) (toks : List Tok) (h : UnknownInBlock toks) :
    DeclUnit toks ∧ declTrace O toks = [.unknown toks] := by
  obtain ⟨t, g, e, stk', rfl, ht, hq, hn, hp, he⟩ := h.shape
  refine ⟨DeclUnit.atrule t g e stk' ht hq hn hp he, ?_⟩
  have hup : upto .default (some t) (g ++ [e]) = (t :: g ++ [e], []) :=
    upto_start_end .default [] stk' t g e [] rfl (by simpa using hq) (by simpa using hn) hp he
  unfold declTrace
  rw [List.cons_append, declLoop_cons]
  have hok := h.ok
  simp only [List.cons_append] at hok
  simp [declStep, ht, hup, hok, parseLoop_nil]

theorem semiTok_facts : semiTok.typ = .char ∧ semiTok.val = vSemi := ⟨rfl, rfl⟩

/-- a declaration followed by its `;` -/
theorem declTrace_sdecl_semi (O : Oracle) (d : SDecl) (h : d.WF O) :
    DeclUnit (d.toks ++ [semiTok]) ∧ declTrace O (d.toks ++ [semiTok]) = [.decl d.parsed] := by
  obtain ⟨g, hg⟩ := d.toks_cons
  have hqb := SDecl.qb O d h
  rw [hg] at hqb
  have hsafe : SafeVal d.nameTok.val := spell_safe _ _ h.name
  have hss : startStack d.nameTok = [] := safe_startStack _ hsafe (by simp [SDecl.nameTok, identTok])
  have q1 : Quiet .semicolon (startStack d.nameTok) g = true := quiet_cons_start _ _ _ hqb.1
  have n1 : nest (startStack d.nameTok) g = some [] := nest_cons_start _ _ _ hqb.2
  have ht : d.nameTok.typ = .ident := rfl
  have hu : DeclUnit (d.nameTok :: g ++ [semiTok]) :=
    DeclUnit.decl d.nameTok g semiTok (by simp [ht]) (by simp [ht]) (by simp [ht]) (by simp [ht])
      (by simp [ht]) q1 n1 rfl rfl
  have htr := declTrace_declUnit O d.nameTok g semiTok (by simp [ht]) (by simp [ht]) (by simp [ht])
    (by simp [ht]) (by simp [ht]) q1 n1 rfl rfl
  rw [hg]
  refine ⟨hu, ?_⟩
  rw [show (d.nameTok :: g) ++ [semiTok] = d.nameTok :: g ++ [semiTok] from rfl, htr]
  simp only [ht, ↓reduceIte]
  rw [← hg, parseProperty_sdecl O d h]

/-- the last declaration of a block, written without `;` -/
theorem declTrace_sdecl_last (O : Oracle) (d : SDecl) (h : d.WF O) :
    declTrace O d.toks = [.decl d.parsed] := by
  obtain ⟨g, hg⟩ := d.toks_cons
  have hqb := SDecl.qb O d h
  have hpp := parseProperty_sdecl O d h
  rw [hg] at hqb hpp
  have q1 : Quiet .semicolon (startStack d.nameTok) g = true := quiet_cons_start _ _ _ hqb.1
  have n1 : nest (startStack d.nameTok) g = some [] := nest_cons_start _ _ _ hqb.2
  have ht : d.nameTok.typ = .ident := rfl
  have hup : upto .semicolon (some d.nameTok) g = (d.nameTok :: g, []) :=
    upto_start_nil .semicolon [] [] d.nameTok g rfl (by simpa using q1) (by simpa using n1)
  obtain ⟨l, hl⟩ : ∃ l, (d.nameTok :: g).getLast? = some l := by
    cases hx : (d.nameTok :: g).getLast? with
    | none => simp [List.getLast?_eq_none_iff] at hx
    | some x => exact ⟨x, rfl⟩
  have hne : l.val ≠ vSemi := by
    have := quiet_last_noEnd .semicolon [] _ l hqb.1 hqb.2 hl
    intro hb
    simp [endTok, hb, Mode.ends, isInfixOf, Mode.endString] at this
  rw [hg]
  unfold declTrace
  rw [declLoop_cons]
  simp only [declStep, ht, hup, hl, Option.map_some, Option.some.injEq, hne, ↓reduceIte, hpp, parseLoop_nil]
  simp

/-- what one spelled item leaves in the trace of the block parser -/
def SItem.trace : SItem → List Item
  | .decl d => [.decl d.parsed]
  | .comment b => [.comment (commentTok b)]
  | .unknown t => [.unknown t]
  | .semi => []

def SItem.WF (O : Oracle) : SItem → Prop
  | .decl d => d.WF O
  | .comment _ => True
  | .unknown t => UnknownInBlock t
  | .semi => True

theorem declTrace_sitem (O : Oracle) (i : SItem) (h : i.WF O) :
    DeclUnit i.toks ∧ declTrace O i.toks = i.trace := by
  cases i with
  | decl d => exact declTrace_sdecl_semi O d h
  | comment b =>
    exact ⟨DeclUnit.skip _ (Or.inr (Or.inl rfl)), declTrace_comment O _ rfl⟩
  | unknown t => exact declTrace_unknown O t h
  | semi => exact ⟨DeclUnit.skip _ (Or.inr (Or.inr ⟨rfl, rfl⟩)), declTrace_semi O⟩

theorem declTrace_items (O : Oracle) (items : List (SItem × WGap)) (x : List Tok)
    (h : ∀ p ∈ items, p.1.WF O) :
    declTrace O (renderItems items ++ x) = items.flatMap (fun p => p.1.trace) ++ declTrace O x := by
  induction items with
  | nil => rfl
  | cons p rest ih =>
    obtain ⟨i, w⟩ := p
    obtain ⟨hu, htr⟩ := declTrace_sitem O i (h (i, w) (by simp))
    simp only [renderItems, List.append_assoc, List.flatMap_cons]
    rw [declTrace_append O i.toks _ (DeclSeq.single hu), htr, declTrace_wgap,
      ih (fun q hq => h q (by simp [hq]))]

structure SBlock.WF (O : Oracle) (b : SBlock) : Prop where
  items : ∀ p ∈ b.items, p.1.WF O
  last : ∀ d, b.last = some d → d.WF O

/-- every step of the block parser on a rendered block -/
theorem declTrace_block (O : Oracle) (b : SBlock) (h : b.WF O) :
    declTrace O b.toks = b.items.flatMap (fun p => p.1.trace) ++ (b.last.map fun d => Item.decl d.parsed).toList := by
  unfold SBlock.toks
  rw [declTrace_wgap, declTrace_items O b.items _ h.items]
  cases hl : b.last with
  | none => simp [renderLast, declTrace, parseLoop_nil]
  | some d => simp [renderLast, declTrace_sdecl_last O d (h.last d hl)]

theorem SItem.trace_kept (i : SItem) : ∀ x ∈ i.trace, x.kept = true := by
  cases i <;> simp [SItem.trace, Item.kept]

theorem projItem_trace (O : Oracle) (i : SItem) (h : i.WF O) : i.trace.filterMap projItem = i.erase.toList := by
  cases i with
  | decl d => simp [SItem.trace, SItem.erase, projItem_parsed O d h]
  | comment b =>
    simp [SItem.trace, SItem.erase, projItem, commentTok, commentBody, commentVal]
  | unknown t => simp [SItem.trace, SItem.erase, projItem]
  | semi => simp [SItem.trace, SItem.erase]

/-- **the declaration block is recovered**: the projection of what `CSSStyleDeclaration.cssText = tokens`
builds from the tokens of a spelled block is the abstract block -/
theorem parseDecls_block (O : Oracle) (b : SBlock) (h : b.WF O) :
    (parseDecls O b.toks).filterMap projItem = b.erase := by
  unfold parseDecls
  rw [declTrace_block O b h]
  have hk : ∀ x ∈ (b.items.flatMap (fun p => p.1.trace) ++ (b.last.map fun d => Item.decl d.parsed).toList),
      x.kept = true := by
    intro x hx
    simp only [List.mem_append, List.mem_flatMap] at hx
    rcases hx with ⟨p, _, hp⟩ | hx
    · exact SItem.trace_kept p.1 x hp
    · cases hl : b.last <;> simp_all [Item.kept]
  rw [List.filter_eq_self.mpr hk, List.filterMap_append]
  unfold SBlock.erase
  congr 1
  · have hi := h.items
    generalize b.items = items at hi
    induction items with
    | nil => rfl
    | cons p rest ih =>
      simp only [List.flatMap_cons, List.filterMap_append, List.filterMap_cons]
      rw [projItem_trace O p.1 (hi p (by simp)), ih (fun q hq => hi q (by simp [hq]))]
      cases p.1.erase <;> simp
  · cases hl : b.last with
    | none => rfl
    | some d => simp [projItem_parsed O d (h.last d hl)]

/-! ## selectors -/

/-- one selector (a comma-separated group) as the abstract sheet holds it: a core, well nested, no `;`,
`,` at depth 0, no braces, no EOF -/
structure SelCoreOk (c : List Tok) : Prop where
  core : Core (strip c)
  qd : QB .default c
  ql : Quiet .listsep [] c = true
  nb : noBrace c = true

theorem SelCoreOk.qbl {c : List Tok} (h : SelCoreOk c) : QB .listsep c := ⟨h.ql, h.qd.2⟩

structure SSel.WF (s : SSel) : Prop where
  first : SelCoreOk s.first
  start : ∃ t ts, s.first = t :: ts ∧ startsRuleset t = true ∧ t.val.head? ≠ some 0x40
  more : ∀ p ∈ s.more, SelCoreOk p.2.1

theorem comma_flat (m : Mode) (hm : m = .default ∨ m = .blockstart ∨ m = .semicolon) : Flat m commaTok := by
  refine ⟨by simp [commaTok, charTok], by simp [Tok.br, commaTok, charTok], ?_⟩
  rcases hm with h | h | h <;> subst h <;>
    simp only [endTok, commaTok, charTok, Mode.ends, Mode.endString, Bool.false_and, Bool.or_false] <;> decide

theorem GapL.noBrace {g : List Tok} (h : GapL g) : noBrace g = true :=
  noBrace_of g (fun t ht => ((h t ht).2 .default).2.1)

/-- a padded group `pre core post` -/
def padded (p : Gap × List Tok × Gap) : List Tok := Gap.toks p.1 ++ (p.2.1 ++ Gap.toks p.2.2)

theorem padded_qb (m : Mode) (p : Gap × List Tok × Gap) (h : QB m p.2.1) : QB m (padded p) :=
  ((gapL_toks _).qb m).append (h.append ((gapL_toks _).qb m))

theorem padded_noBrace (p : Gap × List Tok × Gap) (h : noBrace p.2.1 = true) : noBrace (padded p) = true := by
  simp [padded, noBrace_append, h, (gapL_toks _).noBrace]

theorem renderMore_cons (p : Gap × List Tok × Gap) (rest : List (Gap × List Tok × Gap)) :
    renderMore (p :: rest) = commaTok :: (padded p ++ renderMore rest) := by
  obtain ⟨a, b, c⟩ := p
  simp [renderMore, padded]

theorem renderMore_qb (more : List (Gap × List Tok × Gap)) (h : ∀ p ∈ more, SelCoreOk p.2.1) :
    QB .default (renderMore more) ∧ noBrace (renderMore more) = true := by
  induction more with
  | nil => exact ⟨QB.nil _, rfl⟩
  | cons p rest ih =>
    have hp := h p (by simp)
    obtain ⟨i1, i2⟩ := ih (fun q hq => h q (by simp [hq]))
    rw [renderMore_cons]
    refine ⟨QB.cons (comma_flat _ (by simp)) ((padded_qb _ p hp.qd).append i1), ?_⟩
    have : noBrace [commaTok] = true := by decide
    have e : commaTok :: (padded p ++ renderMore rest) = [commaTok] ++ (padded p ++ renderMore rest) := rfl
    rw [e, noBrace_append, noBrace_append, this, padded_noBrace p hp.nb, i2]
    rfl

theorem SSel.toks_eq (s : SSel) : s.toks = padded ([], s.first, s.post) ++ renderMore s.more := by
  simp [SSel.toks, padded, Gap.toks]

theorem SSel.qb (s : SSel) (h : s.WF) : QB .default s.toks ∧ noBrace s.toks = true := by
  obtain ⟨i1, i2⟩ := renderMore_qb s.more h.more
  rw [s.toks_eq]
  have nb1 : noBrace (padded ([], s.first, s.post)) = true := padded_noBrace ([], s.first, s.post) h.first.nb
  exact ⟨(padded_qb _ _ h.first.qd).append i1, by rw [noBrace_append, nb1, i2]; rfl⟩

theorem SSel.shape (s : SSel) (h : s.WF) : SelShape s.toks := by
  obtain ⟨t, ts, ht, _, hat⟩ := h.start
  obtain ⟨q, nb⟩ := s.qb h
  have hne : s.toks = t :: (ts ++ (Gap.toks s.post ++ renderMore s.more)) := by simp [SSel.toks, ht]
  exact ⟨by rw [hne]; simp, by rw [hne]; intro t' ht'; simp at ht'; subst ht'; exact hat, q.2, nb, q.noEof⟩

theorem selGroupsFuel_step (f : Nat) (l : List Tok) (hl : l ≠ []) :
    selGroupsFuel (f + 1) l =
      (if ((upto .listsep none l).1.getLast?.map (·.val)) = some [0x2C] then (upto .listsep none l).1.dropLast
        else (upto .listsep none l).1) :: selGroupsFuel f (upto .listsep none l).2 := by
  cases l with
  | nil => exact absurd rfl hl
  | cons t ts => rfl

theorem selGroupsFuel_nil (f : Nat) : selGroupsFuel f [] = [] := by
  cases f <;> rfl

theorem commaTok_listsep : push [] commaTok = some [] ∧ endTok .listsep commaTok = true := by
  constructor
  · simp [push, Tok.br, commaTok, charTok]
  · decide

/-- `SelectorList._setSelectorText` splits a rendered selector list into its padded groups -/
theorem selGroupsFuel_render (more : List (Gap × List Tok × Gap)) (body : List Tok) (fuel : Nat)
    (hb : QB .listsep body) (hne : body ≠ []) (hm : ∀ p ∈ more, SelCoreOk p.2.1)
    (hf : (body ++ renderMore more).length ≤ fuel) :
    selGroupsFuel fuel (body ++ renderMore more) = body :: more.map padded := by
  induction more generalizing body fuel with
  | nil =>
    simp only [renderMore, List.append_nil, List.map_nil] at hf ⊢
    cases fuel with
    | zero => cases body <;> simp_all
    | succ f =>
      rw [selGroupsFuel_step f body hne, upto_none_nil .listsep [] [] body rfl hb.1 hb.2]
      simp only [selGroupsFuel_nil]
      obtain ⟨l, hl⟩ : ∃ l, body.getLast? = some l := by
        cases hx : body.getLast? with
        | none => exact absurd (List.getLast?_eq_none_iff.mp hx) hne
        | some x => exact ⟨x, rfl⟩
      have := quiet_last_noEnd .listsep [] body l hb.1 hb.2 hl
      have hv : l.val ≠ [0x2C] := by
        intro hv; simp [endTok, hv, Mode.ends, isInfixOf, Mode.endString] at this
      simp [hl, hv]
  | cons p rest ih =>
    have hp := hm p (by simp)
    rw [renderMore_cons] at hf ⊢
    cases fuel with
    | zero => cases body <;> simp_all
    | succ f =>
      have hne' : body ++ commaTok :: (padded p ++ renderMore rest) ≠ [] := by simp
      rw [selGroupsFuel_step f _ hne',
        upto_none_end .listsep [] [] body commaTok _ rfl hb.1 hb.2 commaTok_listsep.1 commaTok_listsep.2]
      have hpne : padded p ≠ [] := by simp [padded, hp.core.ne_of_strip]
      have hlen : (padded p ++ renderMore rest).length ≤ f := by
        simp only [List.length_append, List.length_cons] at hf ⊢
        have : 0 < body.length := List.length_pos_iff.mpr hne
        omega
      rw [ih (padded p) f (padded_qb _ p hp.qbl) hpne (fun q hq => hm q (by simp [hq])) hlen]
      simp [commaTok, charTok]

theorem selGroups_render (s : SSel) (h : s.WF) : (selGroups s.toks).map clean = s.erase := by
  unfold selGroups
  rw [s.toks_eq, selGroupsFuel_render s.more _ _ (padded_qb _ _ h.first.qbl) _ h.more (Nat.le_refl _)]
  · simp only [List.map_cons, List.map_map, SSel.erase, List.cons.injEq]
    constructor
    · exact clean_padded _ _ _ (gapL_toks _).isGap (gapL_toks _).isGap h.first.core
    · apply List.map_congr_left
      intro p hp
      exact clean_padded _ _ _ (gapL_toks _).isGap (gapL_toks _).isGap (h.more p hp).core
  · simp [padded, h.first.core.ne_of_strip]

/-! ## blocks are balanced -/

theorem bal_append {a b : List Tok} (ha : nest [] a = some []) (hb : nest [] b = some []) :
    nest [] (a ++ b) = some [] := by rw [nest_append, ha]; exact hb

theorem SItem.bal (O : Oracle) (i : SItem) (h : i.WF O) : nest [] i.toks = some [] ∧ noEof i.toks = true := by
  cases i with
  | decl d =>
    have hs : nest [] [semiTok] = some [] := by decide
    have := (SDecl.qb O d h)
    exact ⟨bal_append this.2 hs, by simp [SItem.toks, noEof_append, this.noEof]; decide⟩
  | comment b =>
    have hb : (commentTok b).br = .no := (gapTok_flat .default (.cm b)).2.1
    exact ⟨nest_flat [] _ (by simpa [SItem.toks] using hb),
      by simp [SItem.toks, noEof, commentTok]⟩
  | unknown t => exact ⟨h.bal, h.noeof⟩
  | semi => exact ⟨by decide, by decide⟩

theorem renderItems_bal (O : Oracle) (items : List (SItem × WGap)) (h : ∀ p ∈ items, p.1.WF O) :
    nest [] (renderItems items) = some [] ∧ noEof (renderItems items) = true := by
  induction items with
  | nil => exact ⟨rfl, rfl⟩
  | cons p rest ih =>
    obtain ⟨i, w⟩ := p
    obtain ⟨a1, a2⟩ := SItem.bal O i (h (i, w) (by simp))
    obtain ⟨b1, b2⟩ := ih (fun q hq => h q (by simp [hq]))
    have hw := (gapL_wtoks w).qb .default
    simp only [renderItems]
    exact ⟨bal_append a1 (bal_append hw.2 b1), by simp [noEof_append, a2, hw.noEof, b2]⟩

theorem SBlock.bal (O : Oracle) (b : SBlock) (h : b.WF O) : nest [] b.toks = some [] ∧ noEof b.toks = true := by
  have hw := (gapL_wtoks b.lead).qb .default
  obtain ⟨a1, a2⟩ := renderItems_bal O b.items h.items
  have hl : nest [] (renderLast b.last) = some [] ∧ noEof (renderLast b.last) = true := by
    cases hl : b.last with
    | none => exact ⟨rfl, rfl⟩
    | some d => have := SDecl.qb O d (h.last d hl); exact ⟨this.2, this.noEof⟩
  unfold SBlock.toks
  exact ⟨bal_append hw.2 (bal_append a1 hl.1), by simp [noEof_append, hw.noEof, a2, hl.2]⟩

/-! ## the style rule -/

theorem quiet_block (m : Mode) (lb : Tok) (B : List Tok) (hl : lb.val = vLBrace) (hlt : lb.typ ≠ .eof)
    (hB : nest [] B = some []) (hBe : noEof B = true) :
    Quiet m [] (lb :: B) = true ∧ nest [] (lb :: B) = some [.brace] := by
  have hp : push [] lb = some [.brace] := by simp [push, lbrace_br lb hl]
  constructor
  · unfold Quiet
    simp only [hp, Bool.and_eq_true, bne_iff_ne, ne_eq]
    exact ⟨⟨hlt, by simp⟩, quiet_lift m [] [] .brace [] B hB hBe⟩
  · unfold nest
    simp only [hp]
    exact nest_lift [] [] [.brace] B hB

/-- what a spelled style rule must satisfy, in the namespace context `ns` -/
structure StyleWF (O : Oracle) (ns : List (Cps × Cps)) (sel : SSel) (blk : SBlock) : Prop where
  selWF : sel.WF
  blkWF : blk.WF O
  accepts : O.selOk ns sel.toks = true

theorem styleRule_render (O : Oracle) (ns : List (Cps × Cps)) (sel : SSel) (blk : SBlock)
    (h : StyleWF O ns sel blk) :
    styleRule O ns (SRule.style sel blk).toks = some (sel.toks, parseDecls O blk.toks) := by
  obtain ⟨b1, b2⟩ := SBlock.bal O blk h.blkWF
  have := styleRule_complete O ns sel.toks blk.toks lbraceTok rbraceTok (SSel.shape sel h.selWF) rfl b1 b2 rfl
    (by decide)
  simp only [h.accepts, ↓reduceIte] at this
  rw [← this]
  simp [SRule.toks]

/-- the statement shape the sheet dispatcher needs, for `sel { block }` -/
theorem stmt_shape_block (t : Tok) (S' B : List Tok) (hS : QB .default (t :: S'))
    (hB : nest [] B = some []) (hBe : noEof B = true) :
    Quiet .default (startStack t) (S' ++ lbraceTok :: B) = true ∧
    nest (startStack t) (S' ++ lbraceTok :: B) = some [.brace] := by
  obtain ⟨q2, n2⟩ := quiet_block .default lbraceTok B rfl (by decide) hB hBe
  have q : Quiet .default [] ((t :: S') ++ lbraceTok :: B) = true := quiet_append _ _ _ _ _ hS.1 hS.2 q2
  have n : nest [] ((t :: S') ++ lbraceTok :: B) = some [.brace] := by rw [nest_append, hS.2]; exact n2
  exact ⟨quiet_cons_start _ _ _ q, nest_cons_start _ _ _ n⟩

theorem rbrace_closes : push [.brace] rbraceTok = some [] ∧ endTok .default rbraceTok = true := by
  constructor
  · simp [push, Tok.br, rbraceTok, charTok]
  · decide

end CssVerif.SheetSpec
