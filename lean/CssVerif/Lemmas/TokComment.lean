import CssVerif.Lemmas.TokLex2
/-!
# The COMMENT production is a one-pass scanner

`comment_first`: for EVERY text, `reCOMMENT.first s` = "the text starts with `/*`, and the match ends with the first
`*/` after it" (`commentLen`, defined without regular expressions through `firstClose`). The successes of the tail of
the production are computed exactly (`comment_scan`): the production is deterministic.
-/
namespace CssVerif.Tok
open CssVerif CssVerif.Gen.C05

def cA : Re := Re.star nonStar true
def cStars : Re := Re.star starCls true
def cB : Re := Re.seq starCls cStars
def cG : Re := Re.star cmtGroup true
def cT : Re := Re.seq cG slashCls
def cS' : Re := Re.seq cStars cT
def cS : Re := Re.seq cB cT
def cR : Re := Re.seq cA cS

theorem reCOMMENT_eq' : reCOMMENT = Re.seq slashCls (Re.seq starCls cR) := by rw [reCOMMENT_eq]; rfl
theorem cmtGroup_eq : cmtGroup = Re.seq (Re.cls true [(47, 47), (42, 42)]) (Re.seq cA cB) := rfl

theorem seq_ms_def (a b : Re) (s : Cps) :
    (Re.seq a b).ms s = (a.ms s).flatMap fun l1 => (b.ms (s.drop l1)).map (l1 + ·) := rfl

theorem starMs_succ (f : Cps → List Nat) (n : Nat) (s : Cps) :
    Re.starMs f true (n + 1) s =
      ((f s).filter (· > 0)).flatMap (fun l1 => (Re.starMs f true n (s.drop l1)).map (l1 + ·)) ++ [0] := by
  simp only [Re.starMs, if_true]

theorem star_ms_cons_one (a : Re) (c : Nat) (t : Cps) (h : a.ms (c :: t) = [1]) :
    (Re.star a true).ms (c :: t) = ((Re.star a true).ms t).map (1 + ·) ++ [0] := by
  show Re.starMs a.ms true (t.length + 1 + 1) (c :: t) = (Re.starMs a.ms true (t.length + 1) t).map (1 + ·) ++ [0]
  rw [starMs_succ, h]
  simp

theorem star_ms_stuck (a : Re) (s : Cps) (h : a.ms s = []) : (Re.star a true).ms s = [0] := by
  show Re.starMs a.ms true (s.length + 1) s = [0]
  exact starMs_stuck _ _ _ h

/-- the shift lemma: when the successes of `a` at `c :: t` are those of `a'` at `t` moved by one, plus `L0` -/
theorem seq_ms_cons_shift (a a' b : Re) (c : Nat) (t : Cps) (L0 : List Nat)
    (h : a.ms (c :: t) = (a'.ms t).map (1 + ·) ++ L0) :
    (Re.seq a b).ms (c :: t) = ((Re.seq a' b).ms t).map (1 + ·) ++
      L0.flatMap (fun l => (b.ms ((c :: t).drop l)).map (l + ·)) := by
  rw [seq_ms_def, h, List.flatMap_append, List.flatMap_map, seq_ms_def, List.map_flatMap]
  congr 1
  apply flatMap_congr'
  intro l _
  rw [List.map_map, Nat.add_comm 1 l, List.drop_succ_cons]
  apply List.map_congr_left
  intro x _
  simp only [Function.comp]
  omega

theorem starCls_ms_cons (c : Nat) (t : Cps) : starCls.ms (c :: t) = if c = 42 then [1] else [] := by
  simp only [starCls, Re.ms, inCls_single]
  by_cases h : c = 42 <;> simp [h]

theorem slashCls_ms_cons (c : Nat) (t : Cps) : slashCls.ms (c :: t) = if c = 47 then [1] else [] := by
  simp only [slashCls, Re.ms, inCls_single]
  by_cases h : c = 47 <;> simp [h]

theorem cB_ms_cons (c : Nat) (t : Cps) : cB.ms (c :: t) = if c = 42 then (cStars.ms t).map (1 + ·) else [] := by
  show (Re.seq (Re.cls false [(42, 42)]) cStars).ms (c :: t) = _
  rw [seq_cls_ms_cons, inCls_single]
  by_cases h : c = 42 <;> simp [h]

theorem cA_ms_star (w : Cps) : cA.ms (42 :: w) = [0] := star_ms_stuck nonStar _ (nonStar_ms_star w)
theorem cA_ms_nil : cA.ms [] = [0] := star_ms_stuck nonStar [] (by simp [nonStar, Re.ms])
theorem cStars_ms_stuck (s : Cps) (h : starCls.ms s = []) : cStars.ms s = [0] := star_ms_stuck starCls s h

theorem cS_ms_nonstar (c : Nat) (t : Cps) (h : c ≠ 42) : cS.ms (c :: t) = [] := by
  show (Re.seq cB cT).ms (c :: t) = []
  rw [seq_ms_def, cB_ms_cons]; simp [h]

theorem cS_ms_nil : cS.ms [] = [] := by
  show (Re.seq cB cT).ms [] = []
  rw [seq_ms_def]
  have : cB.ms [] = [] := by simp [cB, starCls, Re.ms]
  rw [this]; rfl

theorem group_ms_cons (x : Nat) (w : Cps) :
    cmtGroup.ms (x :: w) = if x ≠ 47 ∧ x ≠ 42 then ((Re.seq cA cB).ms w).map (1 + ·) else [] := by
  rw [cmtGroup_eq, seq_cls_ms_cons]
  have : Re.inCls true [(47, 47), (42, 42)] x = decide (x ≠ 47 ∧ x ≠ 42) := by
    simp only [Re.inCls, List.any_cons, List.any_nil, Bool.or_false]
    by_cases h1 : x = 47 <;> by_cases h2 : x = 42 <;> simp [h1, h2] <;> omega
  rw [this]
  by_cases h : x ≠ 47 ∧ x ≠ 42 <;> simp [h]

theorem cG_ms_stuck (s : Cps) (h : cmtGroup.ms s = []) : cG.ms s = [0] := star_ms_stuck cmtGroup s h

theorem cT_ms_nil : cT.ms [] = [] := by
  show (Re.seq cG slashCls).ms [] = []
  rw [seq_ms_def, cG_ms_stuck [] (by simp [cmtGroup, Re.ms])]
  simp [slashCls, Re.ms]

theorem cT_ms_star (w : Cps) : cT.ms (42 :: w) = [] := by
  show (Re.seq cG slashCls).ms (42 :: w) = []
  rw [seq_ms_def, cG_ms_stuck _ (by rw [group_ms_cons]; simp)]
  simp [slashCls_ms_cons]

theorem cT_ms_slash (w : Cps) : cT.ms (47 :: w) = [1] := by
  show (Re.seq cG slashCls).ms (47 :: w) = [1]
  rw [seq_ms_def, cG_ms_stuck _ (by rw [group_ms_cons]; simp)]
  simp [slashCls_ms_cons]

theorem filter_pos_map_succ (L : List Nat) : (L.map (1 + ·)).filter (· > 0) = L.map (1 + ·) := by
  apply List.filter_eq_self.mpr
  intro x hx
  simp only [List.mem_map] at hx
  obtain ⟨y, _, rfl⟩ := hx
  simp only [gt_iff_lt, decide_eq_true_eq]; omega

/-- one iteration of the comment group is peeled off -/
theorem cG_ms_cons (x : Nat) (w : Cps) (h : x ≠ 47 ∧ x ≠ 42) :
    cG.ms (x :: w) = ((Re.seq (Re.seq cA cB) cG).ms w).map (1 + ·) ++ [0] := by
  have hR : ((Re.seq (Re.seq cA cB) cG).ms w).map (1 + ·) =
      ((Re.seq cA cB).ms w).flatMap (fun m => (cG.ms (w.drop m)).map (fun y => 1 + (m + y))) := by
    rw [seq_ms_def, List.map_flatMap]
    apply flatMap_congr'
    intro m _
    rw [List.map_map]; rfl
  rw [hR]
  show Re.starMs cmtGroup.ms true (w.length + 1 + 1) (x :: w) = _
  rw [starMs_succ, group_ms_cons, if_pos h, filter_pos_map_succ, List.flatMap_map]
  congr 1
  apply flatMap_congr'
  intro m hm
  have hb : m ≤ w.length := Re.ms_bounded (Re.seq cA cB) w m hm
  have hfuel : Re.starMs cmtGroup.ms true (w.length + 1) (w.drop m) = cG.ms (w.drop m) :=
    starMs_fuel (Re.ms_bounded cmtGroup) true _ _ _ (by simp; omega) (Nat.lt_succ_self _)
  show List.map (fun y => 1 + m + y) (Re.starMs cmtGroup.ms true (w.length + 1) ((x :: w).drop (1 + m))) = _
  rw [Nat.add_comm 1 m, List.drop_succ_cons, hfuel]
  apply List.map_congr_left
  intro y _
  omega

/-- after the stars, a code point other than `/` and `*`: the scan starts again behind it -/
theorem cT_ms_other (x : Nat) (w : Cps) (h : x ≠ 47 ∧ x ≠ 42) : cT.ms (x :: w) = (cR.ms w).map (1 + ·) := by
  show (Re.seq cG slashCls).ms (x :: w) = _
  rw [seq_ms_cons_shift cG (Re.seq (Re.seq cA cB) cG) slashCls x w [0] (cG_ms_cons x w h)]
  have h0 : List.flatMap (fun l => (slashCls.ms ((x :: w).drop l)).map (l + ·)) [0] = [] := by
    simp [slashCls_ms_cons, h.1]
  rw [h0, List.append_nil]
  congr 1
  rw [ms_seq_assoc (Re.seq cA cB) cG slashCls w]
  exact ms_seq_assoc cA cB cT w

theorem cR_ms_nonstar (c : Nat) (t : Cps) (h : c ≠ 42) : cR.ms (c :: t) = (cR.ms t).map (1 + ·) := by
  show (Re.seq cA cS).ms (c :: t) = _
  rw [seq_ms_cons_shift cA cA cS c t [0] (star_ms_cons_one nonStar c t (nonStar_ms_cons c t h))]
  simp [cS_ms_nonstar c t h]
  rfl

theorem cS_ms_star (w : Cps) : cS.ms (42 :: w) = (cS'.ms w).map (1 + ·) := by
  show (Re.seq cB cT).ms (42 :: w) = _
  rw [seq_ms_cons_shift cB cStars cT 42 w [] (by rw [cB_ms_cons]; simp)]
  simp
  rfl

theorem cR_ms_star (w : Cps) : cR.ms (42 :: w) = (cS'.ms w).map (1 + ·) := by
  show (Re.seq cA cS).ms (42 :: w) = _
  rw [seq_ms_def, cA_ms_star]
  simp [cS_ms_star]

theorem cR_ms_nil : cR.ms [] = [] := by
  show (Re.seq cA cS).ms [] = []
  rw [seq_ms_def, cA_ms_nil]
  simp [cS_ms_nil]

theorem cS'_ms_star (w : Cps) : cS'.ms (42 :: w) = (cS'.ms w).map (1 + ·) := by
  show (Re.seq cStars cT).ms (42 :: w) = _
  rw [seq_ms_cons_shift cStars cStars cT 42 w [0]
    (star_ms_cons_one starCls 42 w (by rw [starCls_ms_cons]; simp))]
  simp [cT_ms_star]
  rfl

theorem cS'_ms_nonstar (s : Cps) (h : ∀ c t, s = c :: t → c ≠ 42) : cS'.ms s = cT.ms s := by
  show (Re.seq cStars cT).ms s = _
  have hst : starCls.ms s = [] := by
    cases s with
    | nil => simp [starCls, Re.ms]
    | cons c t => rw [starCls_ms_cons]; simp [h c t rfl]
  rw [seq_ms_def, cStars_ms_stuck s hst]
  simp

/-- the one-pass scanner: `star` = a `*` has just been read -/
def cScan : Bool → Cps → Option Nat
  | _, [] => none
  | false, c :: t => if c = 42 then (cScan true t).map (1 + ·) else (cScan false t).map (1 + ·)
  | true, c :: t =>
    if c = 42 then (cScan true t).map (1 + ·) else if c = 47 then some 1 else (cScan false t).map (1 + ·)

theorem toList_map (o : Option Nat) (f : Nat → Nat) : (o.map f).toList = o.toList.map f := by
  cases o <;> rfl

/-- **the comment production is deterministic**: the successes of its tail are what the scanner finds, if anything -/
theorem comment_scan : ∀ u : Cps, cR.ms u = (cScan false u).toList ∧ cS'.ms u = (cScan true u).toList := by
  intro u
  induction u with
  | nil =>
    refine ⟨cR_ms_nil, ?_⟩
    rw [cS'_ms_nonstar [] (by intro c t h; cases h), cT_ms_nil]; rfl
  | cons c t ih =>
    constructor
    · by_cases h : c = 42
      · subst h
        rw [cR_ms_star, ih.2]
        simp [cScan, toList_map]
      · rw [cR_ms_nonstar c t h, ih.1]
        simp [cScan, h, toList_map]
    · by_cases h : c = 42
      · subst h
        rw [cS'_ms_star, ih.2]
        simp [cScan, toList_map]
      · rw [cS'_ms_nonstar (c :: t) (by intro c' t' e; simp only [List.cons.injEq] at e; rw [← e.1]; exact h)]
        by_cases h47 : c = 47
        · subst h47
          rw [cT_ms_slash]
          simp [cScan]
        · rw [cT_ms_other c t ⟨h47, h⟩, ih.1]
          simp [cScan, h, h47, toList_map]

/-- index of the first `*/` in the text -/
def firstClose : Cps → Option Nat
  | [] => none
  | [_] => none
  | c :: d :: t => if c = 42 ∧ d = 47 then some 0 else (firstClose (d :: t)).map (1 + ·)

theorem firstClose_cons (c : Nat) (t : Cps) :
    firstClose (c :: t) = if c = 42 ∧ t.head? = some 47 then some 0 else (firstClose t).map (1 + ·) := by
  cases t with
  | nil => simp [firstClose]
  | cons d t' => simp [firstClose]

theorem cScan_firstClose : ∀ u : Cps, cScan false u = (firstClose u).map (2 + ·) ∧
    cScan true u = if u.head? = some 47 then some 1 else (firstClose u).map (2 + ·) := by
  intro u
  induction u with
  | nil => exact ⟨rfl, rfl⟩
  | cons c t ih =>
    obtain ⟨ihF, ihT⟩ := ih
    have key : cScan false (c :: t) = (firstClose (c :: t)).map (2 + ·) := by
      rw [firstClose_cons]
      by_cases h : c = 42
      · subst h
        simp only [cScan, if_true, ihT, true_and]
        by_cases hd : t.head? = some 47
        · simp [hd]
        · simp only [hd, if_false]
          cases firstClose t <;> simp; omega
      · have hn : ¬ (c = 42 ∧ t.head? = some 47) := fun e => h e.1
        simp only [cScan, h, if_false, ihF, hn]
        cases firstClose t <;> simp; omega
    refine ⟨key, ?_⟩
    by_cases h : c = 42
    · subst h
      have h1 : cScan true (42 :: t) = cScan false (42 :: t) := by simp [cScan]
      rw [h1, key]; simp
    · by_cases h47 : c = 47
      · subst h47; simp [cScan]
      · have h1 : cScan true (c :: t) = cScan false (c :: t) := by simp [cScan, h, h47]
        rw [h1, key]; simp [h47]

/-- the length of the comment at the start of `s`: `/*`, then everything up to and including the first `*/` -/
def commentLen (s : Cps) : Option Nat :=
  match s with
  | c :: d :: u => if c = 47 ∧ d = 42 then (firstClose u).map (4 + ·) else none
  | _ => none

/-- **the COMMENT production is exactly the scanner**, for every text -/
theorem comment_first (s : Cps) : reCOMMENT.first s = commentLen s := by
  rw [reCOMMENT_eq']
  unfold Re.first
  rcases s with _ | ⟨c, _ | ⟨d, u⟩⟩
  · simp [Re.ms, slashCls, commentLen]
  · show ((Re.seq (Re.cls false [(47, 47)]) (Re.seq (Re.cls false [(42, 42)]) cR)).ms [c]).head? = _
    rw [seq_cls_ms_cons]
    by_cases h : c = 47
    · simp [inCls_single, h, commentLen, Re.ms]
    · simp [inCls_single, h, commentLen]
  · show ((Re.seq (Re.cls false [(47, 47)]) (Re.seq (Re.cls false [(42, 42)]) cR)).ms (c :: d :: u)).head? = _
    rw [seq_cls_ms_cons, seq_cls_ms_cons, inCls_single, inCls_single]
    by_cases hc : c = 47
    · by_cases hd : d = 42
      · simp only [hc, hd, decide_true, if_true, commentLen, and_self, (comment_scan u).1, (cScan_firstClose u).1]
        cases firstClose u <;> simp; omega
      · simp [hc, hd, commentLen]
    · simp [hc, commentLen]

theorem head_append_star (t rest : Cps) : (t ++ 42 :: 47 :: rest).head? = (t ++ [42]).head? := by
  cases t <;> rfl

theorem firstClose_body : ∀ (body rest : Cps), firstClose (body ++ [42]) = none →
    firstClose (body ++ 42 :: 47 :: rest) = some body.length := by
  intro body
  induction body with
  | nil => intro rest _; simp [firstClose]
  | cons c t ih =>
    intro rest h
    rw [List.cons_append, firstClose_cons] at h
    rw [List.cons_append, firstClose_cons, head_append_star]
    by_cases hc : c = 42 ∧ (t ++ [42]).head? = some 47
    · rw [if_pos hc] at h; cases h
    · rw [if_neg hc] at h
      rw [if_neg hc]
      have h' : firstClose (t ++ [42]) = none := by
        cases hf : firstClose (t ++ [42]) with
        | none => rfl
        | some v => rw [hf] at h; cases h
      rw [ih rest h']
      simp; omega

theorem firstClose_nostar : ∀ (body : Cps), (∀ x ∈ body, x ≠ 42) → firstClose (body ++ [42]) = none := by
  intro body
  induction body with
  | nil => intro _; rfl
  | cons c t ih =>
    intro h
    have hc : c ≠ 42 := h c (by simp)
    have iht := ih (fun x hx => h x (List.mem_cons_of_mem _ hx))
    rw [List.cons_append, firstClose_cons, iht]
    have : ¬ (c = 42 ∧ (t ++ [42]).head? = some 47) := fun e => hc e.1
    rw [if_neg this]; rfl

/-- **COMMENT class**: `/*`, a body in which no `*/` ends (the body followed by `*` contains no `*/`), `*/` is scanned
as one COMMENT token, whatever follows -/
theorem scan_comment_general (doC : Bool) (body rest : Cps) (hb : firstClose (body ++ [42]) = none) :
    scan false doC (47 :: 42 :: body ++ 42 :: 47 :: rest) productions = .hit "COMMENT" (body.length + 4) := by
  have hsplit : productions = productions.take 9 ++ (("COMMENT", reCOMMENT) :: productions.drop 10) := by decide
  rw [hsplit, List.cons_append, scan_false_reject (cs := [(47, 47)]) (by decide) _ _ _ (by decide)]
  apply scan_false_hit
  · rw [comment_first]
    simp only [List.cons_append, commentLen, and_self, if_true, firstClose_body body rest hb, Option.map_some]
    congr 1; omega
  · simp [identContinue]

end CssVerif.Tok
