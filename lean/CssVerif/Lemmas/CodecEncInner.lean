import CssVerif.Lemmas.CodecRound
/-!
The inner encoders: chunking invariance (errors and the BOM written by the first call included), the
instance of `InnerEnc`, and stateless decoder = incremental decoder where CPython's two agree.
-/
namespace CssVerif.Codec

theorem encScan_cons_none (k : Kind) (c : Nat) (t : List Nat) (h : k.encUnit c = none) :
    encScan k (c :: t) = ([], false) := by
  simp [encScan, h]

theorem encScan_cons_some (k : Kind) (c : Nat) (t u : List Nat) (h : k.encUnit c = some u) :
    encScan k (c :: t) = (u ++ (encScan k t).1, (encScan k t).2) := by
  simp [encScan, h]

theorem encScan_append (k : Kind) (a b : List Nat) :
    encScan k (a ++ b) =
      if (encScan k a).2 then ((encScan k a).1 ++ (encScan k b).1, (encScan k b).2) else ((encScan k a).1, false) := by
  induction a with
  | nil => simp [encScan]
  | cons c t ih =>
    simp only [List.cons_append]
    cases hu : k.encUnit c with
    | none => simp [encScan_cons_none _ _ _ hu]
    | some u =>
      simp only [encScan_cons_some _ _ _ _ hu, ih]
      cases (encScan k t).2 <;> simp

theorem erunInner_eq (c : CName) (s : Bool) (cs : List (List Nat)) :
    erunInner c s cs =
      if (encScan c.kind cs.flatten).2 then
        some (s && cs.isEmpty, (if s && !cs.isEmpty then c.bom else []) ++ (encScan c.kind cs.flatten).1)
      else none := by
  induction cs generalizing s with
  | nil => simp [erunInner, encScan]
  | cons x xs ih =>
    simp only [erunInner, estepInner, List.flatten_cons, encScan_append]
    cases hx : (encScan c.kind x).2 with
    | false => simp
    | true =>
      simp only [if_true, ih]
      cases hxs : (encScan c.kind xs.flatten).2 with
      | false => simp
      | true => cases s <;> simp

/-- **chunking invariance of the inner incremental encoders**: whatever the chunks, the bytes written
(the BOM first, once) are those of the stateless encoder, and one raises iff the other does -/
theorem incEncode_eq (c : CName) (cs : List (List Nat)) : incEncode c cs = statelessEncode c cs.flatten := by
  unfold incEncode statelessEncode
  rw [erunInner_eq]
  have : (cs ++ [[]]).flatten = cs.flatten := by simp
  rw [this]
  cases h : (encScan c.kind cs.flatten).2 <;> simp [h]

theorem encOut_mono (c : CName) (a b : List Nat) (f : Bool) : ∃ ext, encOut c (a ++ b) f = encOut c a false ++ ext := by
  unfold encOut
  cases a with
  | nil => exact ⟨if b = [] ∧ f = false then [] else c.bom ++ (encScan c.kind b).fst, by simp⟩
  | cons x t =>
    simp only [List.cons_append, reduceCtorEq, false_and, if_false]
    have := encScan_append c.kind (x :: t) b
    simp only [List.cons_append] at this
    rw [this]
    cases (encScan c.kind (x :: t)).2 with
    | true => exact ⟨(encScan c.kind b).1, by simp⟩
    | false => exact ⟨[], by simp⟩

/-- CPython's encoders as an instance of the abstract inner encoder of `Model/CodecInc.lean` -/
def cpyInnerEnc : InnerEnc where
  out := cpyEncOut
  mono := by
    intro e a b f
    unfold cpyEncOut
    cases lookupName e with
    | none => exact ⟨[], rfl⟩
    | some c => exact encOut_mono c a b f
  out_nil := by
    intro e
    unfold cpyEncOut
    cases lookupName e with
    | none => rfl
    | some c => simp [encOut]

/-- at the end of the data nothing stays pending: a truncated sequence is an error -/
theorem scanS_final_pend (first : Nat → Rd) (l : List Nat) (s : Nat) : (scanS first l s true).pend = [] := by
  induction l generalizing s with
  | nil => rfl
  | cons x t ih =>
    cases s with
    | succ s' => simpa [scanS] using ih s'
    | zero =>
      simp only [scanS]
      cases (first x).run t 0 with
      | done cp j => simpa [Res.cons] using ih j
      | bad => rfl
      | need => rfl

end CssVerif.Codec
