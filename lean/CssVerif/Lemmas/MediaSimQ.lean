import CssVerif.Lemmas.MediaSim
/-!
# Simulation, query level: `ProdParser.parse` on the query grammar = the derived query automaton

`nrun` is the run of the derived automaton `stepQ` over a token list with the three ways it can end (end of input,
hand-back through `savedTokens`, hand-back through `tokenizer.push`); `run_sim` shows that the engine's
`parse` on the query grammar (`gq b`, either value of `_partof`) computes exactly that.
-/
set_option linter.unusedSimpArgs false
namespace CssVerif.MediaSim
open CssVerif.Proto CssVerif.Media CssVerif.ProdEngine

/-- how a run of the query parser ends -/
inductive NR
  | bad | unsupported
  | endOk (mq : MQ)
  | saved (mq : MQ) (t : Tok) (rest : List Tok)
  | pushed (mq : MQ) (t : Tok) (rest : List Tok)

def nrun (b : Bool) : QSt → List Tok → NR
  | q, [] => if q.s.accepting then .endOk q.toMQ else .bad
  | q, t :: ts =>
    match t.typ with
    | .comment => nrun b { q with items := .comment t :: q.items } ts
    | .s => nrun b q ts
    | .invalid => .bad
    | .eof => .unsupported
    | _ =>
      match stepQ b q t with
      | .cont q' => nrun b q' ts
      | .unsupported => .unsupported
      | .noMatch => if q.stopIf then .saved q.toMQ t ts else .bad
      | .missing => .bad      -- an error also with `stopIfNoMoreMatch` (since ed45313); nothing is pushed back

def NR.toP (ft : Bool) : NR → POut (MQ × Src)
  | .bad => .bad
  | .unsupported => .unsupported
  | .endOk mq => .ok (mq, ⟨[], ft, [], []⟩)
  | .saved mq t rest => .ok (mq, ⟨rest, ft, [], [t]⟩)
  | .pushed mq t rest => .ok (mq, ⟨rest, ft, [t], []⟩)

theorem nrun_sig (b : Bool) (q : QSt) (t : Tok) (ts : List Tok) (h : t.typ.special = false) :
    nrun b q (t :: ts) = match stepQ b q t with
      | .cont q' => nrun b q' ts
      | .unsupported => .unsupported
      | .noMatch => if q.stopIf then .saved q.toMQ t ts else .bad
      | .missing => .bad := by
  cases ht : t.typ <;> simp [ht, TT.special] at h <;> simp only [nrun, ht]

/-- the tail of `parse` after the main loop (`prodparser.py:645-693`) -/
def parseTail {α : Type} (r : POut (Loop α × Src)) : POut (PRes α) :=
  match r with
  | .bad => .bad
  | .unsupported => .unsupported
  | .ok (l, src) =>
    let wf := if l.stopall then l.wellformed else endLoop l.lastMayEnd 64 l.prods l.st l.wellformed
    let wf := if !l.stopall && l.seq.isEmpty then false else wf
    .ok { wellformed := wf, seq := l.seq.reverse, mediaType := l.mediaType, notSimple := l.notSimple, src := src }

theorem parse_eq {α : Type} (act : Act α) (g : Node) (first : Option Tok) (src : Src) (fuel : Nat) :
    parse act g first src fuel
      = parseTail (mainLoop act fuel first { src with pushed := [] } { prods := [g], st := g.init [] }) := by
  rfl

/-- what the callers make of the result: a well-formed query and the rest of the stream -/
def summ (r : POut (PRes QItem)) : POut (MQ × Src) :=
  match r with
  | .ok r => if r.wellformed then .ok (toMQ r, r.src) else .bad
  | .bad => .bad
  | .unsupported => .unsupported

/-! ## facts about the transition table -/

def Cf.hasType : Cf → Bool
  | .type | .and_ .t | .open_ .t | .feat .t | .colon .t | .val .t | .close .t => true
  | _ => false

def Cf.typed : Cf → Bool
  | .start | .pre => true
  | c => c.hasType

theorem stepCf_meta (b : Bool) (c : Cf) (σ : Matcher → Bool) (m : Matcher) (f : PFlags) (c' : Cf)
    (h : stepCf b c σ = .hit m f c') :
    f.nextSor = false ∧ f.stopAndKeep = false ∧ f.stop = false ∧ f.toSeq = true ∧ f.mayEnd = false ∧
    (c'.typed = true → c.typed = true ∧ ((m == .onlyNot || m == .and_) = (f.store == 2))) ∧
    (c'.hasType = false → c.hasType = false ∧ (f.store == 1) = false) ∧
    (f.store == 1) = (m == .mediaType) ∧ c' ≠ .start := by
  cases c with
  | start | pre | type =>
    simp only [stepCf] at h <;> (repeat' split at h) <;> simp only [DRes.hit.injEq, reduceCtorEq] at h <;>
      obtain ⟨rfl, rfl, rfl⟩ := h <;> simp [Cf.typed, Cf.hasType]
  | and_ k | open_ k | feat k | colon k | val k | close k =>
    cases k <;> simp only [stepCf] at h <;> (repeat' split at h) <;> simp only [DRes.hit.injEq, reduceCtorEq] at h <;>
      obtain ⟨rfl, rfl, rfl⟩ := h <;> simp [Cf.typed, Cf.hasType, K.next]

theorem actQ_prod (m : Matcher) (t : Tok) (src : Src) (fuel : Nat) :
    actQ.prod m t src fuel = if m = .color ∧ t.typ = .function then .unsupported else .ok (itemOf m t, src) := by
  cases m <;> simp [actQ, itemOf]

/-! ## the relation between the derived state and the engine's loop state -/

structure RQ (b : Bool) (c : Cf) (q : QSt) (l : Loop QItem) : Prop where
  seq : l.seq = q.items
  wf : l.wellformed = true
  stopall : l.stopall = false
  stopIf : l.stopIf = q.stopIf
  mt : l.mediaType.map (·.val) = q.mtype
  ns : c.typed = true → l.notSimple = q.notSimple
  nt : c.hasType = false → l.mediaType = none
  prods : l.prods = c.prods b
  ok : c.ok l.st
  qs : q.s = c.qs
  lm : c = .start ∨ l.lastMayEnd = some false
  ne : c = .start ∨ l.seq ≠ []

theorem rq_init (b : Bool) : RQ b .start {} { prods := [gq b], st := (gq b).init [] } := by
  refine ⟨rfl, rfl, rfl, rfl, rfl, fun _ => rfl, fun _ => rfl, rfl, ?_, rfl, .inl rfl, .inl rfl⟩
  cases b <;> (show St.get _ 0 = _) <;> rfl

theorem toMQ_of_rq (b : Bool) (c : Cf) (q : QSt) (l : Loop QItem) (src : Src) (wf : Bool) (h : RQ b c q l) :
    toMQ { wellformed := wf, seq := l.seq.reverse, mediaType := l.mediaType, notSimple := l.notSimple, src := src }
      = q.toMQ := by
  unfold toMQ QSt.toMQ
  have h1 := h.mt
  have h2 := h.ns
  have h3 := h.nt
  simp only [h.seq]
  cases hm : l.mediaType with
  | none => rw [hm] at h1; simp at h1; rw [← h1]
  | some t =>
    rw [hm] at h1; simp at h1
    have : c.hasType = true := by
      cases hh : c.hasType with
      | true => rfl
      | false => have := h3 hh; rw [hm] at this; cases this
    have ht : c.typed = true := by cases c <;> simp_all [Cf.typed]
    rw [← h1, h2 ht]

theorem endLoop_start (b : Bool) (lm : Option Bool) (st : St) (h : Cf.start.ok st) :
    endLoop lm 64 [gq b] st true = false := by
  simp only [Cf.ok] at h
  rw [endLoop.eq_def]
  simp [gq, nextProd, h, choiceScan, Node.matches, matchesSeq, matchesAny, Node.optional, s1, s6, s2, s10, ex]

theorem rq_comment (b : Bool) (c : Cf) (q : QSt) (l : Loop QItem) (t : Tok) (h : RQ b c q l) :
    RQ b c { q with items := .comment t :: q.items } { l with seq := actQ.comment t :: l.seq } := by
  obtain ⟨h1, h2, h3, h4, h5, h6, h7, h8, h9, h10, h11, _⟩ := h
  exact ⟨by simp [h1, actQ], h2, h3, h4, h5, h6, h7, h8, h9, h10, h11, .inr (by simp)⟩

theorem rq_hit (b : Bool) (c c' : Cf) (q : QSt) (l : Loop QItem) (t : Tok) (σ : Matcher → Bool) (m : Matcher)
    (f : PFlags) (st' : St) (h : RQ b c q l) (hst : stepCf b c σ = .hit m f c') (hok : c'.ok st') :
    RQ b c' (applyQ q m f t c') { hitLoop l t f (c'.prods b) st' with seq := itemOf m t :: l.seq } := by
  obtain ⟨_, _, _, _, hmf, htyp, hnt, hs1, hne⟩ := stepCf_meta b c σ m f c' hst
  obtain ⟨h1, h2, h3, h4, h5, h6, h7, h8, h9, h10, h11, _⟩ := h
  by_cases e1 : f.store = 1
  · have e1' : (f.store == 1) = true := by simp [e1]
    have hm : m = .mediaType := by rw [e1'] at hs1; simpa using hs1.symm
    refine ⟨by simp [hitLoop, applyQ, h1, e1], by simp [hitLoop, e1, h2], by simp [hitLoop, e1, h3],
      by simp [hitLoop, applyQ, e1, h4], by simp [hitLoop, applyQ, e1], ?_, ?_, by simp [hitLoop, e1], ?_,
      rfl, .inr (by simp [hitLoop, e1, hmf]), .inr (by simp)⟩
    · intro ht
      have := htyp ht
      simp [hitLoop, applyQ, e1, hm, h6 this.1]
    · intro ht
      have := (hnt ht).2
      rw [e1'] at this; cases this
    · simpa [hitLoop, e1] using hok
  · have e1' : (f.store == 1) = false := by simp [e1]
    by_cases e2 : f.store = 2
    · refine ⟨by simp [hitLoop, applyQ, h1, e1, e2], by simp [hitLoop, e1, e2, h2], by simp [hitLoop, e1, e2, h3],
        by simp [hitLoop, applyQ, e1, e2, h4], by simp [hitLoop, applyQ, e1, e2, h5], ?_, ?_,
        by simp [hitLoop, e1, e2], ?_, rfl, .inr (by simp [hitLoop, e1, e2, hmf]), .inr (by simp)⟩
      · intro ht
        have := htyp ht
        have hh : (m == Matcher.onlyNot || m == Matcher.and_) = true := by rw [this.2]; simp [e2]
        simp [hitLoop, applyQ, e1, e2, hh]
      · intro ht
        simp [hitLoop, e1, e2, h7 (hnt ht).1]
      · simpa [hitLoop, e1, e2] using hok
    · refine ⟨by simp [hitLoop, applyQ, h1, e1, e2], by simp [hitLoop, e1, e2, h2], by simp [hitLoop, e1, e2, h3],
        by simp [hitLoop, applyQ, e1, e2, h4], by simp [hitLoop, applyQ, e1, e2, h5], ?_, ?_,
        by simp [hitLoop, e1, e2], ?_, rfl, .inr (by simp [hitLoop, e1, e2, hmf]), .inr (by simp)⟩
      · intro ht
        have := htyp ht
        have hh : (m == Matcher.onlyNot || m == Matcher.and_) = false := by rw [this.2]; simp [e2]
        simp [hitLoop, applyQ, e1, e2, hh, h6 this.1]
      · intro ht
        simp [hitLoop, e1, e2, h7 (hnt ht).1]
      · simpa [hitLoop, e1, e2] using hok

theorem summ_bad_of_wf_false (l : Loop QItem) (src : Src) (h1 : l.wellformed = false) (h2 : l.stopall = false) :
    summ (parseTail (.ok (l, src))) = .bad := by
  simp [summ, parseTail, h1, h2, endLoop_false]

/-- the engine's `parse` on the query grammar from a related state = the run of the derived automaton -/
theorem run_sim (b ft : Bool) : ∀ (ts : List Tok) (c : Cf) (q : QSt) (l : Loop QItem) (fuel : Nat),
    RQ b c q l → ts.length + 1 ≤ fuel → (∀ t ∈ ts, Dom t) →
    summ (parseTail (mainLoop actQ fuel none ⟨ts, ft, [], []⟩ l)) = (nrun b q ts).toP ft := by
  intro ts
  induction ts with
  | nil =>
    intro c q l fuel h hf _
    obtain ⟨f, rfl⟩ : ∃ f, fuel = f + 1 := ⟨fuel - 1, by simp at hf; omega⟩
    rw [mainLoop_nil]
    have hend : endLoop l.lastMayEnd 64 l.prods l.st l.wellformed = q.s.accepting := by
      rw [h.wf, h.prods, h.qs]
      rcases h.lm with rfl | hl
      · rw [show (Cf.start.prods b) = [gq b] from rfl, endLoop_start b _ _ h.ok]; rfl
      · rw [hl]; exact endLoop_cf b _ _ h.ok
    have hne : q.s.accepting = true → l.seq.isEmpty = false := by
      intro ha
      rcases h.ne with rfl | hl
      · rw [h.qs] at ha; cases ha
      · cases hs : l.seq with
        | nil => exact absurd hs hl
        | cons _ _ => rfl
    cases ha : q.s.accepting with
    | false => simp [summ, parseTail, h.stopall, hend, ha, nrun, NR.toP]
    | true =>
      have := toMQ_of_rq b c q l ⟨[], ft, [], []⟩ true h
      simp [summ, parseTail, h.stopall, hend, ha, hne ha, nrun, NR.toP, this]
  | cons t ts ih =>
    intro c q l fuel h hf hd
    obtain ⟨f, rfl⟩ : ∃ f, fuel = f + 1 := ⟨fuel - 1, by simp at hf; omega⟩
    have hf' : ts.length + 1 ≤ f := by simp at hf; omega
    have hd' : ∀ t ∈ ts, Dom t := fun x hx => hd x (List.mem_cons_of_mem _ hx)
    rw [shape_cons (hp := fun _ => rfl)]
    rcases special_cases t with hc | hs | hi | he | hsig
    · rw [first_comment (h := hc), ih c _ _ f (rq_comment b c q l t h) hf' hd']
      simp only [nrun, hc]
    · rw [first_s (h := hs), ih c q l f h hf' hd']
      simp only [nrun, hs]
    · rw [first_invalid (h := hi)]
      simp [summ, parseTail, endLoop_false, h.stopall, nrun, hi, NR.toP]
    · rw [first_eof (h := he)]
      simp only [nrun, he, NR.toP, parseTail, summ]
    · have hfol := descend_cf b t l.st c h.ok
      have hq := stepQ_cf b c q t h.qs (hd t (List.mem_cons_self ..))
      rw [nrun_sig b q t ts hsig, hq]
      unfold Follows at hfol
      rw [← h.prods] at hfol
      cases hst : stepCf b c (fun m => m.test t) with
      | hit m f' c' =>
        rw [hst] at hfol
        obtain ⟨st', hdesc, hok⟩ := hfol
        obtain ⟨m1, m2, m3, m4, _⟩ := stepCf_meta b c _ m f' c' hst
        rw [first_hit (hs := hsig) (hd := hdesc) (h1 := m1) (h2 := m2) (h3 := m3)]
        simp only [m4, if_true, actQ_prod]
        by_cases hu : m = .color ∧ t.typ = .function
        · simp only [hu, and_self, if_true, NR.toP, parseTail, summ]
        · simp only [hu, if_false]
          exact ih c' _ _ f (rq_hit b c c' q l t _ m f' st' h hst hok) hf' hd'
      | noMatch =>
        rw [hst] at hfol
        rw [first_noMatch (hs := hsig) (hd := hfol)]
        simp only [h.stopIf]
        cases hsi : q.stopIf with
        | false =>
          simp [summ, parseTail, endLoop_false, h.stopall, NR.toP]
        | true =>
          have := toMQ_of_rq b c q l ⟨ts, ft, [], [t]⟩ true h
          simp [summ, parseTail, h.wf, NR.toP, this]
      | missing =>
        rw [hst] at hfol
        rw [first_missing (hs := hsig) (hd := hfol)]
        simp [summ, parseTail, endLoop_false, h.stopall, NR.toP]

/-! ## stand-alone query: `engineQ` on the captured grammar = `parseQ` -/

theorem stepQ_false_stopIf (q q' : QSt) (t : Tok) (h : stepQ false q t = .cont q') (hs : q.stopIf = false) :
    q'.stopIf = false := by
  unfold stepQ at h
  cases hq : q.s <;> simp only [hq] at h <;> (repeat' split at h) <;>
    simp_all [QSt.emit] <;> (subst h; simp [hs])

theorem parseQ_nrun : ∀ (ts : List Tok) (q : QSt), q.stopIf = false →
    parseQ q ts = match nrun false q ts with
      | .endOk mq => .ok mq
      | .unsupported => .unsupported
      | _ => .bad := by
  intro ts
  induction ts with
  | nil => intro q _; simp only [parseQ, nrun]; split <;> rfl
  | cons t ts ih =>
    intro q hq
    rcases special_cases t with hc | hs | hi | he | hsig
    · simp only [parseQ, nrun, hc]; exact ih _ hq
    · simp only [parseQ, nrun, hs]; exact ih _ hq
    · simp only [parseQ, nrun, hi]
    · simp only [parseQ, nrun, he]
    · rw [parseQ_cons_sig q t ts hsig, nrun_sig false q t ts hsig]
      cases hst : stepQ false q t with
      | cont q' => exact ih q' (stepQ_false_stopIf q q' t hst hq)
      | noMatch => simp [hq]
      | missing => simp [hq]
      | unsupported => rfl

def NR.isHB : NR → Bool
  | .saved .. | .pushed .. => true
  | _ => false

theorem nrun_false_noHB : ∀ (ts : List Tok) (q : QSt), q.stopIf = false → (nrun false q ts).isHB = false := by
  intro ts
  induction ts with
  | nil => intro q _; simp only [nrun]; split <;> rfl
  | cons t ts ih =>
    intro q hq
    rcases special_cases t with hc | hs | hi | he | hsig
    · simp only [nrun, hc]; exact ih _ hq
    · simp only [nrun, hs]; exact ih _ hq
    · simp only [nrun, hi]; rfl
    · simp only [nrun, he]; rfl
    · rw [nrun_sig false q t ts hsig]
      cases hst : stepQ false q t with
      | cont q' => exact ih q' (stepQ_false_stopIf q q' t hst hq)
      | noMatch => simp [hq, NR.isHB]
      | missing => simp [hq, NR.isHB]
      | unsupported => rfl

/-- **engine = derived automaton, query level**: on every token list of the token domain the generic engine run on
the production tree captured from a stand-alone `MediaQuery` gives exactly the result of `parseQ` -/
theorem engineQ_eq_parseQ (toks : List Tok) (hd : ∀ t ∈ toks, Dom t) :
    engineQ Gen.C17Grammar.mediaQueryAlone toks = parseQ {} toks := by
  have h := run_sim false true toks .start {} _ (toks.length + 4) (rq_init false) (by omega) hd
  rw [parseQ_nrun toks {} rfl]
  unfold engineQ
  rw [gq_alone, parse_eq]
  have hb := nrun_false_noHB toks {} rfl
  revert h
  generalize parseTail _ = r
  intro h
  cases hn : nrun false {} toks <;> rw [hn] at h hb <;> (try cases hb) <;> cases r with
  | bad => simp_all [summ, NR.toP]
  | unsupported => simp_all [summ, NR.toP]
  | ok v => cases hw : v.wellformed <;> simp_all [summ, NR.toP]

end CssVerif.MediaSim
