import CssVerif.Lemmas.SelTokScan
import CssVerif.Lemmas.TokDet
/-!
# STRING and COMMENT classes (plain: no escapes in a string, no `*` inside a comment), whatever follows
-/
namespace CssVerif.Tok
open CssVerif CssVerif.Gen.C05

/-- plain string body code point for the quote `q`: not the quote, no backslash, no LF / CR / FF -/
def strPlainCp (q c : Nat) : Bool := c != q && c != 92 && c != 10 && c != 13 && c != 12

theorem strPlain_ne {q c : Nat} (h : strPlainCp q c = true) : c ≠ q ∧ c ≠ 92 ∧ c ≠ 10 ∧ c ≠ 13 ∧ c ≠ 12 := by
  simp only [strPlainCp, Bool.and_eq_true, bne_iff_ne, ne_eq] at h
  exact ⟨h.1.1.1.1, h.1.1.1.2, h.1.1.2, h.1.2, h.2⟩

theorem inCls_neg5 (q c : Nat) (h : strPlainCp q c = true) :
    Re.inCls true [(10, 10), (13, 13), (12, 12), (92, 92), (q, q)] c = true := by
  obtain ⟨h1, h2, h3, h4, h5⟩ := strPlain_ne h
  simp [Re.inCls]
  omega

theorem item_ms_plain (q c : Nat) (t : Cps) (h : strPlainCp q c = true) : (itemRe q).ms (c :: t) = [1] := by
  obtain ⟨h1, h2, h3, h4, h5⟩ := strPlain_ne h
  have hbs : Re.inCls false [(92, 92)] c = false := by simp [inCls_single, h2]
  simp [itemRe, bsRe, Re.ms, inCls_neg5 q c h, hbs]

theorem item_ms_quote (q : Nat) (t : Cps) (hq : q ≠ 92) : (itemRe q).ms (q :: t) = [] := by
  have h1 : Re.inCls true [(10, 10), (13, 13), (12, 12), (92, 92), (q, q)] q = false := by
    simp [Re.inCls]
  have hbs : Re.inCls false [(92, 92)] q = false := by simp [inCls_single, hq]
  simp [itemRe, bsRe, Re.ms, h1, hbs]

theorem strBody_ms_plain (q : Nat) (hq : q ≠ 92) (body rest : Cps) (hb : ∀ c ∈ body, strPlainCp q c = true) :
    (strBody q).ms (body ++ q :: rest) = countdown body.length := by
  show Re.starMs (itemRe q).ms true ((body ++ q :: rest).length + 1) (body ++ q :: rest) = _
  apply starMs_run (itemRe q).ms (fun c => strPlainCp q c)
  · intro c t hc; exact item_ms_plain q c t hc
  · exact item_ms_quote q rest hq
  · exact hb
  · simp; omega

theorem quoted_first (q : Nat) (hq : q ≠ 92) (body rest : Cps) (hb : ∀ c ∈ body, strPlainCp q c = true) :
    (Re.seq (Re.cls false [(q, q)]) (Re.seq (strBody q) (Re.cls false [(q, q)]))).first (q :: body ++ q :: rest)
      = some (body.length + 2) := by
  rw [List.cons_append, first_seq_cls_cons]
  have hqq : Re.inCls false [(q, q)] q = true := by simp [inCls_single]
  simp only [hqq, if_true]
  have : (Re.seq (strBody q) (Re.cls false [(q, q)])).first (body ++ q :: rest) = some (body.length + 1) := by
    apply first_seq_some (first_countdown (strBody_ms_plain q hq body rest hb))
    rw [List.drop_left' rfl, first_cls_cons, hqq]; rfl
  rw [this]
  simp only [Option.map_some]
  congr 1; omega

/-- **STRING**: quote, plain body, the same quote — whatever follows -/
theorem scan_string (doC : Bool) (q : Nat) (hq : q = 34 ∨ q = 39) (body rest : Cps)
    (hb : ∀ c ∈ body, strPlainCp q c = true) :
    scan false doC (q :: body ++ q :: rest) productions = .hit "STRING" (body.length + 2) := by
  have hsplit : productions = productions.take 10 ++ (("STRING", reSTRING) :: productions.drop 11) := by decide
  rcases hq with rfl | rfl
  · rw [hsplit, List.cons_append, scan_false_reject (cs := [(34, 34)]) (by decide) _ _ _ (by decide)]
    apply scan_false_hit
    · rw [reSTRING_shape]
      have h := quoted_first 34 (by decide) body rest hb
      rw [List.cons_append] at h
      have hms : ∃ tl, (Re.seq (Re.cls false [(34, 34)]) (Re.seq (strBody 34) (Re.cls false [(34, 34)]))).ms
          (34 :: (body ++ 34 :: rest)) = (body.length + 2) :: tl := by
        unfold Re.first at h
        cases hm : (Re.seq (Re.cls false [(34, 34)]) (Re.seq (strBody 34) (Re.cls false [(34, 34)]))).ms
            (34 :: (body ++ 34 :: rest)) with
        | nil => rw [hm] at h; simp at h
        | cons x xs => rw [hm] at h; simp at h; exact ⟨xs, by rw [h]⟩
      obtain ⟨tl, hms⟩ := hms
      simp only [Re.first]
      show ((Re.seq (Re.cls false [(34, 34)]) (Re.seq (strBody 34) (Re.cls false [(34, 34)]))).ms _ ++ _).head? = _
      rw [hms]; rfl
    · simp [identContinue]
  · rw [hsplit, List.cons_append, scan_false_reject (cs := [(39, 39)]) (by decide) _ _ _ (by decide)]
    apply scan_false_hit
    · rw [reSTRING_shape]
      have h := quoted_first 39 (by decide) body rest hb
      rw [List.cons_append] at h
      have h0 : (Re.seq (Re.cls false [(34, 34)]) (Re.seq (strBody 34) (Re.cls false [(34, 34)]))).ms
          (39 :: (body ++ 39 :: rest)) = [] := by
        simp [Re.ms, Re.inCls]
      simp only [Re.first] at h ⊢
      show ((Re.seq (Re.cls false [(34, 34)]) _).ms _ ++ _).head? = _
      rw [h0, List.nil_append]
      exact h
    · simp [identContinue]

theorem stringValue_id : ∀ (s : Cps), (∀ c ∈ s, c ≠ 92) → stringValue s = s := by
  intro s
  induction s with
  | nil => intro _; rfl
  | cons c t ih =>
    intro h
    have hc : c ≠ 92 := h c (by simp)
    have : stringValue (c :: t) = c :: stringValue t := by
      show stringValueF (t.length + 1) (c :: t) = _
      simp only [stringValueF, hc, ne_eq, not_false_eq_true, if_true]
      rfl
    rw [this, ih (fun x hx => h x (List.mem_cons_of_mem _ hx))]

/-- the value of such a STRING token is its text -/
theorem valueOf_string (s : Cps) (q : Nat) (body : Cps) (hb : ∀ c ∈ body, strPlainCp q c = true) (hq : q ≠ 92) :
    valueOf s "STRING" (q :: body ++ [q]) = some ⟨"STRING", q :: body ++ [q], q :: body ++ [q]⟩ := by
  have h1 : unescTypes.contains "STRING" = true := by decide
  have h2 : cleanTypes.contains "STRING" = true := by decide
  have hno : ∀ c ∈ q :: body ++ [q], c ≠ 92 := by
    intro c hc
    simp only [List.cons_append, List.mem_cons, List.mem_append, List.mem_nil_iff, or_false] at hc
    rcases hc with rfl | hc | rfl
    · exact hq
    · exact (strPlain_ne (hb c hc)).2.1
    · exact hq
  simp only [valueOf, h1, h2, if_true, subS_eq_stringValue, stringValue_id _ hno]

/-! ## COMMENT -/

def starTail : Re := Re.seq (Re.cls false [(42, 42)]) (Re.star (Re.cls false [(42, 42)]) true)
def cmGroup : Re := Re.star (Re.seq (Re.cls true [(47, 47), (42, 42)]) (Re.seq (Re.star (Re.cls true [(42, 42)]) true) starTail)) true

theorem reCOMMENT_eq : reCOMMENT = Re.seq (Re.cls false [(47, 47)]) (Re.seq (Re.cls false [(42, 42)])
    (Re.seq (Re.star (Re.cls true [(42, 42)]) true) (Re.seq starTail (Re.seq cmGroup (Re.cls false [(47, 47)]))))) := by
  decide

/-- **COMMENT**: `/*`, a body without `*`, `*/` — whatever follows -/
theorem scan_comment_plain (doC : Bool) (body rest : Cps) (hb : ∀ c ∈ body, c ≠ 42) :
    scan false doC (47 :: 42 :: body ++ 42 :: 47 :: rest) productions = .hit "COMMENT" (body.length + 4) := by
  have hsplit : productions = productions.take 9 ++ (("COMMENT", reCOMMENT) :: productions.drop 10) := by decide
  rw [hsplit, List.cons_append, scan_false_reject (cs := [(47, 47)]) (by decide) _ _ _ (by decide)]
  apply scan_false_hit
  · rw [reCOMMENT_eq, List.cons_append, first_seq_cls_cons]
    have h47 : Re.inCls false [(47, 47)] 47 = true := by decide
    have h42 : Re.inCls false [(42, 42)] 42 = true := by decide
    simp only [h47, if_true, first_seq_cls_cons, h42]
    -- `[^*]*` over the body
    have hstar : (Re.star (Re.cls true [(42, 42)]) true).ms (body ++ 42 :: 47 :: rest) = countdown body.length := by
      show Re.starMs (Re.cls true [(42, 42)]).ms true ((body ++ 42 :: 47 :: rest).length + 1) _ = _
      apply starMs_run (Re.cls true [(42, 42)]).ms (fun c => c != 42)
      · intro c t hc
        have : Re.inCls true [(42, 42)] c = true := by
          simp only [bne_iff_ne, ne_eq] at hc
          simp [Re.inCls]; omega
        simp [Re.ms, this]
      · simp [Re.ms, Re.inCls]
      · intro c hc; simpa using hb c hc
      · simp; omega
    -- `\*+` on `*/…`
    have htail : starTail.first (42 :: 47 :: rest) = some 1 := by
      unfold starTail
      rw [first_seq_cls_cons]
      simp only [h42, if_true]
      have : (Re.star (Re.cls false [(42, 42)]) true).ms (47 :: rest) = [0] := by
        show Re.starMs (Re.cls false [(42, 42)]).ms true ((47 :: rest).length + 1) (47 :: rest) = [0]
        simp [Re.starMs, Re.ms, Re.inCls]
      simp [Re.first, this]
    -- the group on `/…`
    have hgroup : cmGroup.first (47 :: rest) = some 0 := by
      unfold cmGroup
      show (Re.starMs _ true ((47 :: rest).length + 1) (47 :: rest)).head? = some 0
      simp [Re.starMs, Re.ms, Re.inCls]
    have hrest : (Re.seq (Re.star (Re.cls true [(42, 42)]) true)
        (Re.seq starTail (Re.seq cmGroup (Re.cls false [(47, 47)])))).first (body ++ 42 :: 47 :: rest)
          = some (body.length + (1 + (0 + 1))) := by
      apply first_seq_some (first_countdown hstar)
      rw [List.drop_left' rfl]
      apply first_seq_some htail
      rw [List.drop_one, List.tail_cons]
      apply first_seq_some hgroup
      rw [List.drop_zero, first_cls_cons, h47]; rfl
    rw [hrest]
    simp only [Option.map_some]
    congr 1; omega
  · simp [identContinue]

end CssVerif.Tok
