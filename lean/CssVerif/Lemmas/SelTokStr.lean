import CssVerif.Lemmas.SelTokScan
import CssVerif.Lemmas.TokDet
import CssVerif.Lemmas.SelTokName
/-!
# STRING and COMMENT classes (plain: no escapes in a string, no `*` inside a comment), whatever follows
-/
namespace CssVerif.Tok
open CssVerif CssVerif.Gen.C05

/-- plain string body code point for the quote `q`: not the quote, no backslash, no LF / CR / FF -/
def strPlainCp (q c : Nat) : Bool := c != q && c != 92 && c != 10 && c != 13 && c != 12

theorem strPlain_ne {q c : Nat} (h : strPlainCp q c = true) : c ≠ q ∧ c ≠ 92 ∧ c ≠ 10 ∧ c ≠ 13 ∧ c ≠ 12 := by
  simp only [strPlainCp, Bool.and_eq_true, bne_iff_ne, ne_eq] at h
  exact ⟨h.1.1.1.1, h.1.1.1.2, h.1.1.2, h.1.2, h.2⟩

theorem inCls_neg5 (q c : Nat) (h : strPlainCp q c = true) :
    Re.inCls true [(10, 10), (13, 13), (12, 12), (92, 92), (q, q)] c = true := by
  obtain ⟨h1, h2, h3, h4, h5⟩ := strPlain_ne h
  simp [Re.inCls]
  omega

theorem item_ms_plain (q c : Nat) (t : Cps) (h : strPlainCp q c = true) : (itemRe q).ms (c :: t) = [1] := by
  obtain ⟨h1, h2, h3, h4, h5⟩ := strPlain_ne h
  have hbs : Re.inCls false [(92, 92)] c = false := by simp [inCls_single, h2]
  simp [itemRe, bsRe, Re.ms, inCls_neg5 q c h, hbs]

theorem item_ms_quote (q : Nat) (t : Cps) (hq : q ≠ 92) : (itemRe q).ms (q :: t) = [] := by
  have h1 : Re.inCls true [(10, 10), (13, 13), (12, 12), (92, 92), (q, q)] q = false := by
    simp [Re.inCls]
  have hbs : Re.inCls false [(92, 92)] q = false := by simp [inCls_single, hq]
  simp [itemRe, bsRe, Re.ms, h1, hbs]

theorem strBody_ms_plain (q : Nat) (hq : q ≠ 92) (body rest : Cps) (hb : ∀ c ∈ body, strPlainCp q c = true) :
    (strBody q).ms (body ++ q :: rest) = countdown body.length := by
  show Re.starMs (itemRe q).ms true ((body ++ q :: rest).length + 1) (body ++ q :: rest) = _
  apply starMs_run (itemRe q).ms (fun c => strPlainCp q c)
  · intro c t hc; exact item_ms_plain q c t hc
  · exact item_ms_quote q rest hq
  · exact hb
  · simp; omega

theorem quoted_first (q : Nat) (hq : q ≠ 92) (body rest : Cps) (hb : ∀ c ∈ body, strPlainCp q c = true) :
    (Re.seq (Re.cls false [(q, q)]) (Re.seq (strBody q) (Re.cls false [(q, q)]))).first (q :: body ++ q :: rest)
      = some (body.length + 2) := by
  rw [List.cons_append, first_seq_cls_cons]
  have hqq : Re.inCls false [(q, q)] q = true := by simp [inCls_single]
  simp only [hqq, if_true]
  have : (Re.seq (strBody q) (Re.cls false [(q, q)])).first (body ++ q :: rest) = some (body.length + 1) := by
    apply first_seq_some (first_countdown (strBody_ms_plain q hq body rest hb))
    rw [List.drop_left' rfl, first_cls_cons, hqq]; rfl
  rw [this]
  simp only [Option.map_some]
  congr 1; omega

/-- **STRING**: quote, plain body, the same quote — whatever follows -/
theorem scan_string (doC : Bool) (q : Nat) (hq : q = 34 ∨ q = 39) (body rest : Cps)
    (hb : ∀ c ∈ body, strPlainCp q c = true) :
    scan false doC (q :: body ++ q :: rest) productions = .hit "STRING" (body.length + 2) := by
  have hsplit : productions = productions.take 10 ++ (("STRING", reSTRING) :: productions.drop 11) := by decide
  rcases hq with rfl | rfl
  · rw [hsplit, List.cons_append, scan_false_reject (cs := [(34, 34)]) (by decide) _ _ _ (by decide)]
    apply scan_false_hit
    · rw [reSTRING_shape]
      have h := quoted_first 34 (by decide) body rest hb
      rw [List.cons_append] at h
      have hms : ∃ tl, (Re.seq (Re.cls false [(34, 34)]) (Re.seq (strBody 34) (Re.cls false [(34, 34)]))).ms
          (34 :: (body ++ 34 :: rest)) = (body.length + 2) :: tl := by
        unfold Re.first at h
        cases hm : (Re.seq (Re.cls false [(34, 34)]) (Re.seq (strBody 34) (Re.cls false [(34, 34)]))).ms
            (34 :: (body ++ 34 :: rest)) with
        | nil => rw [hm] at h; simp at h
        | cons x xs => rw [hm] at h; simp at h; exact ⟨xs, by rw [h]⟩
      obtain ⟨tl, hms⟩ := hms
      simp only [Re.first]
      show ((Re.seq (Re.cls false [(34, 34)]) (Re.seq (strBody 34) (Re.cls false [(34, 34)]))).ms _ ++ _).head? = _
      rw [hms]; rfl
    · simp [identContinue]
  · rw [hsplit, List.cons_append, scan_false_reject (cs := [(39, 39)]) (by decide) _ _ _ (by decide)]
    apply scan_false_hit
    · rw [reSTRING_shape]
      have h := quoted_first 39 (by decide) body rest hb
      rw [List.cons_append] at h
      have h0 : (Re.seq (Re.cls false [(34, 34)]) (Re.seq (strBody 34) (Re.cls false [(34, 34)]))).ms
          (39 :: (body ++ 39 :: rest)) = [] := by
        simp [Re.ms, Re.inCls]
      simp only [Re.first] at h ⊢
      show ((Re.seq (Re.cls false [(34, 34)]) _).ms _ ++ _).head? = _
      rw [h0, List.nil_append]
      exact h
    · simp [identContinue]

theorem stringValue_id : ∀ (s : Cps), (∀ c ∈ s, c ≠ 92) → stringValue s = s := by
  intro s
  induction s with
  | nil => intro _; rfl
  | cons c t ih =>
    intro h
    have hc : c ≠ 92 := h c (by simp)
    have : stringValue (c :: t) = c :: stringValue t := by
      show stringValueF (t.length + 1) (c :: t) = _
      simp only [stringValueF, hc, ne_eq, not_false_eq_true, if_true]
      rfl
    rw [this, ih (fun x hx => h x (List.mem_cons_of_mem _ hx))]

/-- the value of such a STRING token is its text -/
theorem valueOf_string (s : Cps) (q : Nat) (body : Cps) (hb : ∀ c ∈ body, strPlainCp q c = true) (hq : q ≠ 92) :
    valueOf s "STRING" (q :: body ++ [q]) = some ⟨"STRING", q :: body ++ [q], q :: body ++ [q]⟩ := by
  have h1 : unescTypes.contains "STRING" = true := by decide
  have h2 : cleanTypes.contains "STRING" = true := by decide
  have hno : ∀ c ∈ q :: body ++ [q], c ≠ 92 := by
    intro c hc
    simp only [List.cons_append, List.mem_cons, List.mem_append, List.mem_nil_iff, or_false] at hc
    rcases hc with rfl | hc | rfl
    · exact hq
    · exact (strPlain_ne (hb c hc)).2.1
    · exact hq
  simp only [valueOf, h1, h2, if_true, subS_eq_stringValue, stringValue_id _ hno]

/-! ## COMMENT -/

def starTail : Re := Re.seq (Re.cls false [(42, 42)]) (Re.star (Re.cls false [(42, 42)]) true)
def cmGroup : Re := Re.star (Re.seq (Re.cls true [(47, 47), (42, 42)]) (Re.seq (Re.star (Re.cls true [(42, 42)]) true) starTail)) true

theorem reCOMMENT_eq : reCOMMENT = Re.seq (Re.cls false [(47, 47)]) (Re.seq (Re.cls false [(42, 42)])
    (Re.seq (Re.star (Re.cls true [(42, 42)]) true) (Re.seq starTail (Re.seq cmGroup (Re.cls false [(47, 47)]))))) := by
  decide

/-- **COMMENT**: `/*`, a body without `*`, `*/` — whatever follows -/
theorem scan_comment_plain (doC : Bool) (body rest : Cps) (hb : ∀ c ∈ body, c ≠ 42) :
    scan false doC (47 :: 42 :: body ++ 42 :: 47 :: rest) productions = .hit "COMMENT" (body.length + 4) := by
  have hsplit : productions = productions.take 9 ++ (("COMMENT", reCOMMENT) :: productions.drop 10) := by decide
  rw [hsplit, List.cons_append, scan_false_reject (cs := [(47, 47)]) (by decide) _ _ _ (by decide)]
  apply scan_false_hit
  · rw [reCOMMENT_eq, List.cons_append, first_seq_cls_cons]
    have h47 : Re.inCls false [(47, 47)] 47 = true := by decide
    have h42 : Re.inCls false [(42, 42)] 42 = true := by decide
    simp only [h47, if_true, first_seq_cls_cons, h42]
    -- `[^*]*` over the body
    have hstar : (Re.star (Re.cls true [(42, 42)]) true).ms (body ++ 42 :: 47 :: rest) = countdown body.length := by
      show Re.starMs (Re.cls true [(42, 42)]).ms true ((body ++ 42 :: 47 :: rest).length + 1) _ = _
      apply starMs_run (Re.cls true [(42, 42)]).ms (fun c => c != 42)
      · intro c t hc
        have : Re.inCls true [(42, 42)] c = true := by
          simp only [bne_iff_ne, ne_eq] at hc
          simp [Re.inCls]; omega
        simp [Re.ms, this]
      · simp [Re.ms, Re.inCls]
      · intro c hc; simpa using hb c hc
      · simp; omega
    -- `\*+` on `*/…`
    have htail : starTail.first (42 :: 47 :: rest) = some 1 := by
      unfold starTail
      rw [first_seq_cls_cons]
      simp only [h42, if_true]
      have : (Re.star (Re.cls false [(42, 42)]) true).ms (47 :: rest) = [0] := by
        show Re.starMs (Re.cls false [(42, 42)]).ms true ((47 :: rest).length + 1) (47 :: rest) = [0]
        simp [Re.starMs, Re.ms, Re.inCls]
      simp [Re.first, this]
    -- the group on `/…`
    have hgroup : cmGroup.first (47 :: rest) = some 0 := by
      unfold cmGroup
      show (Re.starMs _ true ((47 :: rest).length + 1) (47 :: rest)).head? = some 0
      simp [Re.starMs, Re.ms, Re.inCls]
    have hrest : (Re.seq (Re.star (Re.cls true [(42, 42)]) true)
        (Re.seq starTail (Re.seq cmGroup (Re.cls false [(47, 47)])))).first (body ++ 42 :: 47 :: rest)
          = some (body.length + (1 + (0 + 1))) := by
      apply first_seq_some (first_countdown hstar)
      rw [List.drop_left' rfl]
      apply first_seq_some htail
      rw [List.drop_one, List.tail_cons]
      apply first_seq_some hgroup
      rw [List.drop_zero, first_cls_cons, h47]; rfl
    rw [hrest]
    simp only [Option.map_some]
    congr 1; omega
  · simp [identContinue]

/-! ## COMMENT, general: the text behind `/*` ends with its first `*/` (`Sel.cmTail`) -/

open CssVerif.Sel (cmSegs cmTail)

theorem mem_takeWhile_sat {p : Nat → Bool} : ∀ (l : List Nat) (c : Nat), c ∈ l.takeWhile p → p c = true := by
  intro l
  induction l with
  | nil => intro c h; simp at h
  | cons a t ih =>
    intro c h
    simp only [List.takeWhile_cons] at h
    split at h
    · rename_i ha
      rcases List.mem_cons.mp h with rfl | h
      · exact ha
      · exact ih c h
    · simp at h

theorem head_dropWhile_unsat {p : Nat → Bool} : ∀ (l : List Nat) (c : Nat) (t : Cps), l.dropWhile p = c :: t → p c = false := by
  intro l
  induction l with
  | nil => intro c t h; simp at h
  | cons a u ih =>
    intro c t h
    simp only [List.dropWhile_cons] at h
    split at h
    · exact ih c t h
    · rename_i ha
      simp only [List.cons.injEq] at h
      rw [← h.1]; simpa using ha

theorem starMs_head_step' (f : Cps → List Nat) (fuel : Nat) (s : Cps) (k : Nat) (hk : 0 < k)
    (hf : (f s).head? = some k) :
    (Re.starMs f true (fuel + 1) s).head? = ((Re.starMs f true fuel (s.drop k)).head?).map (k + ·) := by
  have hne := starMs_greedy_ne_nil f fuel (s.drop k)
  cases hfs : f s with
  | nil => rw [hfs] at hf; simp at hf
  | cons x xs =>
    rw [hfs] at hf
    simp only [List.head?_cons, Option.some.injEq] at hf
    subst hf
    cases hm : Re.starMs f true fuel (s.drop x) with
    | nil => exact absurd hm hne
    | cons y ys =>
      have hfil : List.filter (fun z => decide (z > 0)) (x :: xs) = x :: List.filter (fun z => decide (z > 0)) xs := by
        simp [List.filter_cons, hk]
      simp [Re.starMs, hfs, hfil, hm]

def nsRe : Re := Re.star (Re.cls true [(42, 42)]) true
def cmItem : Re := Re.seq (Re.cls true [(47, 47), (42, 42)]) (Re.seq nsRe starTail)

theorem cmGroup_eq : cmGroup = Re.star cmItem true := rfl

theorem ns_first (a x : Cps) (ha : ∀ c ∈ a, (c != 42) = true) (hx : HeadIn (fun c => c = 42) x) (hxne : x ≠ []) :
    nsRe.first (a ++ x) = some a.length := by
  apply first_countdown
  show Re.starMs (Re.cls true [(42, 42)]).ms true ((a ++ x).length + 1) (a ++ x) = _
  apply starMs_run (Re.cls true [(42, 42)]).ms (fun c => c != 42)
  · intro c t hc
    have : Re.inCls true [(42, 42)] c = true := by
      simp only [bne_iff_ne, ne_eq] at hc
      simp [Re.inCls]; omega
    simp [Re.ms, this]
  · rcases hx with rfl | ⟨c, t, rfl, rfl⟩
    · exact absurd rfl hxne
    · simp [Re.ms, Re.inCls]
  · exact ha
  · simp; omega

theorem stars_first (s x : Cps) (hs : ∀ c ∈ s, (c == 42) = true) (hne : s ≠ [])
    (hx : HeadIn (fun c => c ≠ 42) x) : starTail.first (s ++ x) = some s.length := by
  cases s with
  | nil => exact absurd rfl hne
  | cons c t =>
    have hc : c = 42 := by simpa using hs c (by simp)
    subst hc
    unfold starTail
    rw [List.cons_append, first_seq_cls_cons]
    have h42 : Re.inCls false [(42, 42)] 42 = true := by decide
    simp only [h42, if_true]
    have hstar : (Re.star (Re.cls false [(42, 42)]) true).ms (t ++ x) = countdown t.length := by
      show Re.starMs (Re.cls false [(42, 42)]).ms true ((t ++ x).length + 1) (t ++ x) = _
      apply starMs_run (Re.cls false [(42, 42)]).ms (fun c => c == 42)
      · intro c u hc
        have : c = 42 := by simpa using hc
        subst this
        simp [Re.ms, Re.inCls]
      · exact cls_ms_nil_of_head _ x (headIn_mono hx (fun c hc => by simp [inCls_single, hc]))
      · exact fun c hc => hs c (List.mem_cons_of_mem _ hc)
      · simp; omega
    rw [first_countdown hstar]
    simp only [Option.map_some, List.length_cons]
    congr 1; omega

/-- `[^*]*\*+` on no-stars, stars, and then something that is no star -/
theorem ns_stars_first (A S x : Cps) (hA : ∀ c ∈ A, (c != 42) = true) (hS : ∀ c ∈ S, (c == 42) = true)
    (hSne : S ≠ []) (hx : HeadIn (fun c => c ≠ 42) x) :
    (Re.seq nsRe starTail).first (A ++ S ++ x) = some (A.length + S.length) := by
  have hShead : HeadIn (fun c => c = 42) (S ++ x) := by
    cases S with
    | nil => exact absurd rfl hSne
    | cons c u => exact Or.inr ⟨c, u ++ x, rfl, by simpa using hS c (by simp)⟩
  rw [List.append_assoc]
  apply first_seq_some (ns_first A _ hA hShead (by cases S <;> simp_all))
  rw [List.drop_left' rfl]
  exact stars_first S x hS hSne hx

/-- what is left behind the first star run -/
def afterStars (t : Cps) : Cps := (t.dropWhile (· != 42)).dropWhile (· == 42)

theorem cm_split (t : Cps) (hlen : ((t.dropWhile (· != 42)).length == (afterStars t).length) = false) :
    ∃ A S, t = A ++ S ++ afterStars t ∧ (∀ c ∈ A, (c != 42) = true) ∧ (∀ c ∈ S, (c == 42) = true) ∧ S ≠ [] := by
  refine ⟨t.takeWhile (· != 42), (t.dropWhile (· != 42)).takeWhile (· == 42), ?_, ?_, ?_, ?_⟩
  · rw [List.append_assoc]
    unfold afterStars
    rw [List.takeWhile_append_dropWhile, List.takeWhile_append_dropWhile]
  · exact fun c hc => mem_takeWhile_sat _ c hc
  · exact fun c hc => mem_takeWhile_sat _ c hc
  · intro e
    have h2 : t.dropWhile (· != 42) = (t.dropWhile (· != 42)).takeWhile (· == 42) ++ afterStars t :=
      (List.takeWhile_append_dropWhile).symm
    rw [e, List.nil_append] at h2
    rw [← h2] at hlen
    simp at hlen

theorem afterStars_head (t x : Cps) (hne : afterStars t ≠ []) : HeadIn (fun c => c ≠ 42) (afterStars t ++ x) := by
  unfold afterStars at hne ⊢
  cases h : (t.dropWhile (· != 42)).dropWhile (· == 42) with
  | nil => exact absurd h hne
  | cons c u =>
    have := head_dropWhile_unsat _ c u h
    exact Or.inr ⟨c, u ++ x, rfl, by simpa using this⟩

/-- the group `([^/*][^*]*\*+)*` runs up to the closing `/` -/
theorem cmSegs_head : ∀ (f : Nat) (s : Cps), cmSegs f s = true → ∃ s0, s = s0 ++ [47] ∧
    ∀ (rest : Cps) (fuel : Nat), (s ++ rest).length < fuel →
      (Re.starMs cmItem.ms true fuel (s0 ++ 47 :: rest)).head? = some s0.length := by
  intro f
  induction f with
  | zero => intro s h; simp [cmSegs] at h
  | succ f ih =>
    intro s h
    cases s with
    | nil => simp [cmSegs] at h
    | cons c t =>
      by_cases hc : c = 47
      · subst hc
        have ht : t = [] := by simpa [cmSegs] using h
        subst ht
        refine ⟨[], rfl, ?_⟩
        intro rest fuel hf
        obtain ⟨k, rfl⟩ : ∃ k, fuel = k + 1 := ⟨fuel - 1, by omega⟩
        apply starMs_head_stop
        simp [cmItem, Re.ms, Re.inCls]
      · have hc' : (c == 47) = false := by simpa using hc
        simp only [cmSegs, hc', Bool.false_eq_true, if_false, Bool.and_eq_true, bne_iff_ne, ne_eq,
          Bool.not_eq_true'] at h
        obtain ⟨⟨hc42, hlen⟩, hrec⟩ := h
        change ((t.dropWhile (· != 42)).length == (afterStars t).length) = false at hlen
        change cmSegs f (afterStars t) = true at hrec
        obtain ⟨b0, hb0, hih⟩ := ih _ hrec
        obtain ⟨A, S, ht, hA, hS, hSne⟩ := cm_split t hlen
        have hx : ∀ rest, HeadIn (fun c => c ≠ 42) (afterStars t ++ rest) :=
          fun rest => afterStars_head t rest (by rw [hb0]; simp)
        generalize afterStars t = b at hb0 hih ht hx
        subst hb0
        subst ht
        refine ⟨c :: (A ++ S ++ b0), by simp [List.append_assoc], ?_⟩
        intro rest fuel hf
        obtain ⟨k, rfl⟩ : ∃ k, fuel = k + 1 := ⟨fuel - 1, by omega⟩
        have hitem : (cmItem.ms (c :: (A ++ S ++ (b0 ++ 47 :: rest)))).head? = some (1 + (A.length + S.length)) := by
          have hcls : Re.inCls true [(47, 47), (42, 42)] c = true := by
            simp [Re.inCls]; omega
          have := ns_stars_first A S (b0 ++ 47 :: rest) hA hS hSne (by
            have := hx rest; simpa [List.append_assoc] using this)
          show (Re.seq (Re.cls true [(47, 47), (42, 42)]) (Re.seq nsRe starTail)).first _ = _
          rw [first_seq_cls_cons, hcls, this]
          rfl
        have hinput : c :: (A ++ S ++ b0) ++ 47 :: rest = c :: (A ++ S ++ (b0 ++ 47 :: rest)) := by
          simp [List.append_assoc]
        rw [hinput, starMs_head_step' _ k _ (1 + (A.length + S.length)) (by omega) hitem]
        have hdrop : (c :: (A ++ S ++ (b0 ++ 47 :: rest))).drop (1 + (A.length + S.length)) = b0 ++ 47 :: rest := by
          rw [Nat.add_comm, List.drop_succ_cons, List.drop_left' (by simp)]
        rw [hdrop, hih rest k (by
          simp only [List.length_cons, List.length_append, List.length_nil] at hf ⊢
          omega)]
        simp only [Option.map_some, List.length_cons, List.length_append]
        congr 1; omega

theorem seq_assoc_first (X Y Z : Re) (s : Cps) (n m : Nat) (h1 : (Re.seq X Y).first s = some n)
    (h2 : Z.first (s.drop n) = some m) : (Re.seq X (Re.seq Y Z)).first s = some (n + m) := by
  have e : (Re.seq X (Re.seq Y Z)).ms s = (Re.seq (Re.seq X Y) Z).ms s := by
    simp only [Re.ms, List.flatMap_map, List.map_flatMap, List.flatMap_assoc, List.map_map, List.drop_drop]
    congr 1; funext l1; congr 1; funext l2
    simp only [Function.comp_def]
    apply List.map_congr_left
    intro a _
    omega
  have := first_seq_some (a := Re.seq X Y) (b := Z) h1 h2
  simp only [Re.first] at this ⊢
  rw [e]; exact this

/-- **COMMENT** (general): `/*`, then a text that ends with its first `*/` — whatever follows -/
theorem scan_comment_gen (doC : Bool) (r rest : Cps) (h : cmTail r = true) :
    scan false doC (47 :: 42 :: r ++ rest) productions = .hit "COMMENT" (r.length + 2) := by
  simp only [cmTail, Bool.and_eq_true, Bool.not_eq_true'] at h
  obtain ⟨hlen, hsegs⟩ := h
  change ((r.dropWhile (· != 42)).length == (afterStars r).length) = false at hlen
  change cmSegs (r.length + 1) (afterStars r) = true at hsegs
  obtain ⟨b0, hb0, hhead⟩ := cmSegs_head _ _ hsegs
  obtain ⟨A, S, hr, hA, hS, hSne⟩ := cm_split r hlen
  have hx : HeadIn (fun c => c ≠ 42) (afterStars r ++ rest) := afterStars_head r rest (by rw [hb0]; simp)
  generalize afterStars r = b at hb0 hhead hr hx
  subst hb0
  subst hr
  have hsplit : productions = productions.take 9 ++ (("COMMENT", reCOMMENT) :: productions.drop 10) := by decide
  rw [hsplit, List.cons_append, scan_false_reject (cs := [(47, 47)]) (by decide) _ _ _ (by decide)]
  apply scan_false_hit
  · rw [reCOMMENT_eq, List.cons_append, first_seq_cls_cons]
    have h47 : Re.inCls false [(47, 47)] 47 = true := by decide
    have h42 : Re.inCls false [(42, 42)] 42 = true := by decide
    simp only [h47, if_true, first_seq_cls_cons, h42]
    have hns := ns_stars_first A S (b0 ++ 47 :: rest) hA hS hSne (by simpa [List.append_assoc] using hx)
    have hinput : A ++ S ++ (b0 ++ [47]) ++ rest = A ++ S ++ (b0 ++ 47 :: rest) := by simp [List.append_assoc]
    have hrest : (Re.seq (Re.star (Re.cls true [(42, 42)]) true)
        (Re.seq starTail (Re.seq cmGroup (Re.cls false [(47, 47)])))).first (A ++ S ++ (b0 ++ 47 :: rest))
          = some ((A.length + S.length) + (b0.length + 1)) := by
      apply seq_assoc_first _ _ _ _ _ _ hns
      rw [List.drop_left' (by simp)]
      apply first_seq_some (l1 := b0.length)
      · rw [cmGroup_eq]
        show (Re.starMs cmItem.ms true ((b0 ++ 47 :: rest).length + 1) (b0 ++ 47 :: rest)).head? = _
        apply hhead rest
        simp
      · rw [List.drop_left' rfl, first_cls_cons, h47]; rfl
    rw [hinput, hrest]
    simp only [Option.map_some, List.length_append, List.length_cons, List.length_nil]
    congr 1; omega
  · simp [identContinue]

end CssVerif.Tok
