import CssVerif.Lemmas.TokLex2
/-!
# Full-sheet mode = partial-sheet mode up to the last token

`loop_full`: the run in full-sheet mode and the run in partial-sheet mode yield the same items, except that the
full-sheet run may end with ONE completed token (STRING, URI or COMMENT) that covers everything the partial-sheet
run tokenizes from there on.
-/
namespace CssVerif.Tok
open CssVerif CssVerif.Gen.C05

/-- what a full-sheet completion looks like (`span` = the source text of the token, `found` = span + completion) -/
inductive Completion (doC : Bool) (it : Item) : Prop
  /-- an unterminated string: the opening quote is appended (tokenize2.py:205-207) -/
  | string (q : Nat) (r : Cps) (h1 : it.typ = "STRING") (h2 : it.span = q :: r) (h3 : it.found = it.span ++ [q])
  /-- an unterminated `url(`: the first of `')`, `")`, `)` that makes the URI production match is appended, as far
  as the match reaches (tokenize2.py:209-217) -/
  | uri (e : Cps) (l : Nat) (h1 : it.typ = "URI") (h2 : e ∈ uriEnds) (h3 : uriRe.first (it.span ++ e) = some l)
      (h4 : it.found = (it.span ++ e).take l) (h5 : it.span.length < l)
  /-- an unterminated comment (comments on): `*/` is appended (tokenize2.py:176-183) -/
  | comment (h1 : it.typ = "COMMENT") (h2 : doC = true) (h3 : it.found = it.span ++ commentClose)
      (h4 : hasAt it.span commentOpen = true)

theorem scan_true_or (doC : Bool) (s : Cps) : ∀ ps : List (String × Re),
    scan true doC s ps = scan false doC s ps ∨
    (scan true doC s ps = .comment (s ++ commentClose) ∧ doC = true ∧ hasAt s commentOpen = true) := by
  intro ps
  induction ps with
  | nil => left; rfl
  | cons p ps ih =>
    obtain ⟨n, r⟩ := p
    by_cases hc : (true && n == "CHAR" && hasAt s commentOpen &&
        (commentRe.first (s ++ commentClose)).isSome && doC) = true
    · right
      refine ⟨by simp only [scan]; rw [if_pos hc], ?_, ?_⟩
      · simp only [Bool.and_eq_true] at hc; exact hc.2
      · simp only [Bool.and_eq_true] at hc; exact hc.1.1.2
    · cases hf : r.first s with
      | none =>
        have h1 : scan true doC s ((n, r) :: ps) = scan true doC s ps := by
          simp only [scan]; rw [if_neg hc]; simp only [hf]
        rw [h1, scan_false_none hf]; exact ih
      | some l =>
        by_cases hic : identContinue n s l = true
        · have h1 : scan true doC s ((n, r) :: ps) = scan true doC s ps := by
            simp only [scan]; rw [if_neg hc]; simp only [hf, hic, if_true]
          rw [h1, scan_false_skip hf hic]; exact ih
        · have h1 : scan true doC s ((n, r) :: ps) = .hit n l := by
            simp only [scan]; rw [if_neg hc]; simp only [hf, hic, Bool.false_eq_true, if_false]
          rw [h1, scan_false_hit hf (by simpa using hic)]; left; rfl

theorem complete_true_cases (s : Cps) (name : String) (found : Cps) (nf : NF)
    (h : complete true s name found = some nf) :
    nf = ⟨name, found⟩ ∨
    (name = "INVALID" ∧ s = found ∧ ∃ q r, found = q :: r ∧ nf = ⟨"STRING", found ++ [q]⟩) ∨
    (name = "FUNCTION" ∧ ∃ u, tryEnds s uriEnds = some u ∧ nf = ⟨"URI", u⟩) := by
  unfold complete at h
  simp only [if_true] at h
  split at h
  · rename_i hc
    simp only [Bool.and_eq_true, beq_iff_eq] at hc
    cases found with
    | nil => cases h
    | cons q r =>
      simp only [Option.some.injEq] at h
      right; left
      exact ⟨hc.1, hc.2, q, r, rfl, h.symm⟩
  · split at h
    · rename_i hfn
      have hfn' : name = "FUNCTION" := by simpa using hfn
      cases hn : normalizeU found with
      | none => rw [hn] at h; cases h
      | some n =>
        rw [hn] at h
        simp only at h
        split at h
        · cases hu : tryEnds s uriEnds with
          | none =>
            rw [hu] at h
            simp only [Option.some.injEq] at h
            left; exact h.symm
          | some u =>
            rw [hu] at h
            simp only [Option.some.injEq] at h
            right; right
            exact ⟨hfn', u, rfl, h.symm⟩
        · simp only [Option.some.injEq] at h
          left; exact h.symm
    · simp only [Option.some.injEq] at h
      left; exact h.symm

theorem tryEnds_cases (s : Cps) : ∀ (es : List Cps) (u : Cps), tryEnds s es = some u →
    ∃ e ∈ es, ∃ l, uriRe.first (s ++ e) = some l ∧ u = (s ++ e).take l := by
  intro es
  induction es with
  | nil => intro u h; simp [tryEnds] at h
  | cons e es ih =>
    intro u h
    simp only [tryEnds] at h
    split at h
    · rename_i l hl
      simp only [Option.some.injEq] at h
      exact ⟨e, by simp, l, hl, h.symm⟩
    · obtain ⟨e', he', l, hl, hu⟩ := ih u h
      exact ⟨e', List.mem_cons_of_mem _ he', l, hl, hu⟩

theorem uri_none_of_hit (doC : Bool) (s : Cps) (name : String) (l : Nat)
    (h : scan false doC s productions = .hit name l) (h1 : name ≠ "S") (h2 : name ≠ "URI") :
    uriRe.first s = none := by
  have hp : productions = ("S", reS) :: ("URI", reURI) :: productions.drop 2 := by decide
  rw [hp] at h
  cases hS : reS.first s with
  | some l0 =>
    rw [scan_false_hit hS (by simp [identContinue])] at h
    simp only [Scan.hit.injEq] at h
    exact absurd h.1.symm h1
  | none =>
    rw [scan_false_none hS] at h
    cases hU : reURI.first s with
    | some l0 =>
      rw [scan_false_hit hU (by simp [identContinue])] at h
      simp only [Scan.hit.injEq] at h
      exact absurd h.1.symm h2
    | none => exact hU

theorem valueOf_unesc_fields (s : Cps) (name : String) (found : Cps) (x : NVF)
    (hu : unescTypes.contains name = true) (h : valueOf s name found = some x) :
    x.name = name ∧ x.found = found := by
  unfold valueOf at h
  rw [if_pos hu] at h
  split at h
  · split at h
    · cases h
    · simp only [Option.some.injEq] at h; subst h; exact ⟨rfl, rfl⟩
  · split at h
    · cases h
    · simp only [Option.some.injEq] at h; subst h; exact ⟨rfl, rfl⟩

theorem loop_false_spans (doC : Bool) (fuel : Nat) (s : Cps) (line col : Nat) (h : s.length < fuel) :
    spans (loop false doC fuel s line col).items = s := by
  have ht := loop_tile false doC fuel s line col
  obtain ⟨l, c, hd⟩ := loop_done false doC fuel s line col h
  rw [hd] at ht
  simpa [Stop.rest] using ht

/-- **full-sheet mode changes the last token only**: the items of the full-sheet run are those of the partial-sheet
run, or they are a common prefix followed by ONE completed token (STRING / URI / COMMENT) whose source span is
everything the partial-sheet run tokenizes from there on. -/
theorem loop_full (doC : Bool) : ∀ (fuel : Nat) (s : Cps) (line col : Nat), s.length < fuel →
    (loop true doC fuel s line col).items = (loop false doC fuel s line col).items ∨
    ∃ pre it tlF, (loop true doC fuel s line col).items = pre ++ [it] ∧
      (loop false doC fuel s line col).items = pre ++ tlF ∧ tlF ≠ [] ∧ it.span = spans tlF ∧
      Completion doC it := by
  intro fuel
  induction fuel with
  | zero => intro s _ _ h; omega
  | succ k ih =>
    intro s line col hf
    cases s with
    | nil => left; simp [loop]
    | cons c t =>
      have hsp := loop_false_spans doC (k + 1) (c :: t) line col hf
      have hne : (loop false doC (k + 1) (c :: t) line col).items ≠ [] := by
        intro e; rw [e] at hsp; simp at hsp
      by_cases hfast : fastChars.contains c = true
      · have hT : (loop true doC (k + 1) (c :: t) line col).items =
            ⟨"CHAR", [c], line, col, [c], [c], true⟩ :: (loop true doC k t line (col + 1)).items := by
          rw [loop]; simp only [hfast, if_true, Res.cons]
        have hF : (loop false doC (k + 1) (c :: t) line col).items =
            ⟨"CHAR", [c], line, col, [c], [c], true⟩ :: (loop false doC k t line (col + 1)).items := by
          rw [loop]; simp only [hfast, if_true, Res.cons]
        rcases ih t line (col + 1) (by simp at hf; omega) with h | ⟨pre, it, tlF, h1, h2, h3, h4, h5⟩
        · left; rw [hT, hF, h]
        · right
          exact ⟨_ :: pre, it, tlF, by rw [hT, h1]; rfl, by rw [hF, h2]; rfl, h3, h4, h5⟩
      · rcases scan_true_or doC (c :: t) productions with hsc | ⟨hsc, hd, hh⟩
        · -- the scan gives the same result in both modes
          generalize hscF : scan false doC (c :: t) productions = sc at hsc
          rcases sc with _ | v | ⟨name, l⟩
          · left
            rw [loop, loop]
            simp only [hfast, Bool.false_eq_true, if_false, hsc, hscF]
          · exact absurd hscF (scan_false_not_comment doC _ _ v)
          · have hpos := scan_hit_pos false doC _ name l hscF
            have hfne : (c :: t).take l ≠ [] := by
              obtain ⟨j, rfl⟩ : ∃ j, l = j + 1 := ⟨l - 1, by omega⟩
              simp
            obtain ⟨nf, hnf, hnfne⟩ := complete_isSome true (c :: t) name _ (by simp) hfne
            obtain ⟨x, hx, hxne⟩ := valueOf_isSome (c :: t) nf.name nf.found hnfne
            have hz : ¬ x.found.length = 0 := by
              intro e; exact hxne (List.length_eq_zero_iff.mp e)
            have hT : (loop true doC (k + 1) (c :: t) line col).items =
                ⟨x.name, x.value, line, col, (c :: t).take x.found.length, x.found, doC || x.name != "COMMENT"⟩ ::
                  (loop true doC k ((c :: t).drop x.found.length) (advance line col x.found).1
                    (advance line col x.found).2).items := by
              rw [loop]
              simp only [hfast, Bool.false_eq_true, if_false, hsc, hnf, hx, hz, Res.cons]
            rcases complete_true_cases _ _ _ _ hnf with hid | ⟨hinv, hsf, q, r, hqr, hnfeq⟩ | ⟨hfn, u, hu, hnfeq⟩
            · -- no completion: the same step in both modes
              rw [hid] at hx
              simp only at hx
              have hF : (loop false doC (k + 1) (c :: t) line col).items =
                  ⟨x.name, x.value, line, col, (c :: t).take x.found.length, x.found, doC || x.name != "COMMENT"⟩ ::
                    (loop false doC k ((c :: t).drop x.found.length) (advance line col x.found).1
                      (advance line col x.found).2).items := by
                rw [loop]
                simp only [hfast, Bool.false_eq_true, if_false, hscF, complete_false, hx, hz, Res.cons]
              have hlen : ((c :: t).drop x.found.length).length < k := by
                simp only [List.length_drop, List.length_cons] at hf ⊢; omega
              rcases ih _ (advance line col x.found).1 (advance line col x.found).2 hlen with
                h | ⟨pre, it, tlF, h1, h2, h3, h4, h5⟩
              · left; rw [hT, hF, h]
              · right
                exact ⟨_ :: pre, it, tlF, by rw [hT, h1]; rfl, by rw [hF, h2]; rfl, h3, h4, h5⟩
            · -- unterminated string
              right
              rw [hnfeq] at hx
              simp only at hx
              obtain ⟨hxn, hxf⟩ := valueOf_unesc_fields _ _ _ _ (by decide) hx
              have hlen : x.found.length = (c :: t).length + 1 := by rw [hxf, ← hsf]; simp
              have htk : (c :: t).take x.found.length = c :: t := by
                rw [hlen]; exact List.take_of_length_le (by omega)
              have hdr : (c :: t).drop x.found.length = [] := by
                rw [hlen]; exact List.drop_eq_nil_iff.mpr (by omega)
              refine ⟨[], (⟨x.name, x.value, line, col, (c :: t).take x.found.length, x.found, doC || x.name != "COMMENT"⟩ : Item),
                (loop false doC (k + 1) (c :: t) line col).items, ?_, by simp, hne, ?_, ?_⟩
              · rw [hT, hdr, loop_nil_items]; rfl
              · simp only [htk]; exact hsp.symm
              · have hq : q = c := by rw [← hsf] at hqr; simp only [List.cons.injEq] at hqr; exact hqr.1.symm
                refine Completion.string c t hxn (by simp only [htk]) ?_
                show x.found = List.take x.found.length (c :: t) ++ [c]
                rw [htk, hxf, ← hsf, hq]
            · -- unterminated url(
              right
              rw [hnfeq] at hx
              simp only at hx
              obtain ⟨hxn, hxf⟩ := valueOf_unesc_fields _ _ _ _ (by decide) hx
              obtain ⟨e, he, l', hl', hul⟩ := tryEnds_cases _ _ _ hu
              have hnone := uri_none_of_hit doC (c :: t) name l hscF (by rw [hfn]; decide) (by rw [hfn]; decide)
              have hgt : (c :: t).length < l' := by
                by_cases hle : l' ≤ (c :: t).length
                · have := first_of_append (r := uriRe) (by decide) hl' hle
                  rw [hnone] at this; cases this
                · omega
              have hb := Re.first_bounded uriRe _ _ hl'
              have hlen : x.found.length = l' := by rw [hxf, hul, List.length_take]; omega
              have htk : (c :: t).take x.found.length = c :: t := by
                rw [hlen]; exact List.take_of_length_le (by omega)
              have hdr : (c :: t).drop x.found.length = [] := by
                rw [hlen]; exact List.drop_eq_nil_iff.mpr (by omega)
              refine ⟨[], (⟨x.name, x.value, line, col, (c :: t).take x.found.length, x.found, doC || x.name != "COMMENT"⟩ : Item),
                (loop false doC (k + 1) (c :: t) line col).items, ?_, by simp, hne, ?_, ?_⟩
              · rw [hT, hdr, loop_nil_items]; rfl
              · simp only [htk]; exact hsp.symm
              · refine Completion.uri e l' hxn he (by simp only [htk]; exact hl') ?_ (by simp only [htk]; exact hgt)
                show x.found = List.take l' (List.take x.found.length (c :: t) ++ e)
                rw [htk, hxf, hul]
        · -- unterminated comment
          right
          refine ⟨[], ⟨"COMMENT", (c :: t) ++ commentClose, line, col, c :: t, (c :: t) ++ commentClose, true⟩,
            (loop false doC (k + 1) (c :: t) line col).items, ?_, by simp, hne, hsp.symm, ?_⟩
          · rw [loop]
            simp only [hfast, Bool.false_eq_true, if_false, hsc, List.nil_append]
          · exact Completion.comment rfl hd rfl hh

theorem body_full (text : Cps) (doC : Bool) :
    body text true doC = body text false doC ∨
    ∃ pre it tlF, body text true doC = pre ++ [it] ∧ body text false doC = pre ++ tlF ∧ tlF ≠ [] ∧
      it.span = spans tlF ∧ Completion doC it := by
  unfold body mainLoop
  rcases loop_full doC ((afterCharset (afterBom text)).length + 1) (afterCharset (afterBom text)) 1
      (startCol (afterBom text)) (Nat.lt_succ_self _) with h | ⟨pre, it, tlF, h1, h2, h3, h4, h5⟩
  · left; rw [h]
  · right
    exact ⟨charsetItems (afterBom text) ++ pre, it, tlF, by rw [h1, List.append_assoc],
      by rw [h2, List.append_assoc], h3, h4, h5⟩

end CssVerif.Tok
