import CssVerif.Lemmas.TokLex2
/-!
# Full-sheet mode = partial-sheet mode up to the last token

`loop_full`: the run in full-sheet mode and the run in partial-sheet mode yield the same items, except that the
full-sheet run may end with ONE completed token (STRING, URI or COMMENT) that covers everything the partial-sheet
run tokenizes from there on.
-/
namespace CssVerif.Tok
open CssVerif CssVerif.Gen.C05

/-- what a full-sheet completion looks like (`span` = the source text of the token, `found` = span + completion);
`x` = the token that partial-sheet mode yields at the same place -/
inductive Completion (doC : Bool) (it x : Item) : Prop
  /-- an unterminated string: the opening quote is appended (tokenize2.py:205-207); partial-sheet mode: INVALID -/
  | string (q : Nat) (r : Cps) (h1 : it.typ = "STRING") (h2 : it.span = q :: r) (h3 : it.found = it.span ++ [q])
      (h4 : x.typ = "INVALID") (h5 : x.span = it.span)
  /-- an unterminated `url(`: the first of `')`, `")`, `)` that makes the URI production match is appended, as far
  as the match reaches (tokenize2.py:209-217); partial-sheet mode: the FUNCTION `url(` (in any spelling) -/
  | uri (e : Cps) (l : Nat) (h1 : it.typ = "URI") (h2 : e ∈ uriEnds) (h3 : uriRe.first (it.span ++ e) = some l)
      (h4 : it.found = (it.span ++ e).take l) (h5 : it.span.length < l)
      (h6 : x.typ = "FUNCTION") (h7 : normalizeU x.found = some urlFn)
  /-- an unterminated comment (comments on): `*/` is appended (tokenize2.py:176-183); partial-sheet mode: the
  CHAR `/` -/
  | comment (h1 : it.typ = "COMMENT") (h2 : doC = true) (h3 : it.found = it.span ++ commentClose)
      (h4 : hasAt it.span commentOpen = true) (h5 : x.typ = "CHAR") (h6 : x.value = [47])

theorem scan_true_or (doC : Bool) (s : Cps) : ∀ ps : List (String × Re),
    scan true doC s ps = scan false doC s ps ∨
    (scan true doC s ps = .comment (s ++ commentClose) ∧ doC = true ∧ hasAt s commentOpen = true) := by
  intro ps
  induction ps with
  | nil => left; rfl
  | cons p ps ih =>
    obtain ⟨n, r⟩ := p
    by_cases hc : (true && n == "CHAR" && hasAt s commentOpen &&
        (commentRe.first (s ++ commentClose)).isSome && doC) = true
    · right
      refine ⟨by simp only [scan]; rw [if_pos hc], ?_, ?_⟩
      · simp only [Bool.and_eq_true] at hc; exact hc.2
      · simp only [Bool.and_eq_true] at hc; exact hc.1.1.2
    · cases hf : r.first s with
      | none =>
        have h1 : scan true doC s ((n, r) :: ps) = scan true doC s ps := by
          simp only [scan]; rw [if_neg hc]; simp only [hf]
        rw [h1, scan_false_none hf]; exact ih
      | some l =>
        by_cases hic : identContinue n s l = true
        · have h1 : scan true doC s ((n, r) :: ps) = scan true doC s ps := by
            simp only [scan]; rw [if_neg hc]; simp only [hf, hic, if_true]
          rw [h1, scan_false_skip hf hic]; exact ih
        · have h1 : scan true doC s ((n, r) :: ps) = .hit n l := by
            simp only [scan]; rw [if_neg hc]; simp only [hf, hic, Bool.false_eq_true, if_false]
          rw [h1, scan_false_hit hf (by simpa using hic)]; left; rfl

theorem complete_true_cases (s : Cps) (name : String) (found : Cps) (nf : NF)
    (h : complete true s name found = some nf) :
    nf = ⟨name, found⟩ ∨
    (name = "INVALID" ∧ s = found ∧ ∃ q r, found = q :: r ∧ nf = ⟨"STRING", found ++ [q]⟩) ∨
    (name = "FUNCTION" ∧ normalizeU found = some urlFn ∧ ∃ u, tryEnds s uriEnds = some u ∧ nf = ⟨"URI", u⟩) := by
  unfold complete at h
  simp only [if_true] at h
  split at h
  · rename_i hc
    simp only [Bool.and_eq_true, beq_iff_eq] at hc
    cases found with
    | nil => cases h
    | cons q r =>
      simp only [Option.some.injEq] at h
      right; left
      exact ⟨hc.1, hc.2, q, r, rfl, h.symm⟩
  · split at h
    · rename_i hfn
      have hfn' : name = "FUNCTION" := by simpa using hfn
      cases hn : normalizeU found with
      | none => rw [hn] at h; cases h
      | some n =>
        rw [hn] at h
        simp only at h
        split at h
        · rename_i hurl
          have hurl' : n = urlFn := by simpa using hurl
          cases hu : tryEnds s uriEnds with
          | none =>
            rw [hu] at h
            simp only [Option.some.injEq] at h
            left; exact h.symm
          | some u =>
            rw [hu] at h
            simp only [Option.some.injEq] at h
            right; right
            exact ⟨hfn', by rw [hurl'], u, rfl, h.symm⟩
        · simp only [Option.some.injEq] at h
          left; exact h.symm
    · simp only [Option.some.injEq] at h
      left; exact h.symm

theorem tryEnds_cases (s : Cps) : ∀ (es : List Cps) (u : Cps), tryEnds s es = some u →
    ∃ e ∈ es, ∃ l, uriRe.first (s ++ e) = some l ∧ u = (s ++ e).take l := by
  intro es
  induction es with
  | nil => intro u h; simp [tryEnds] at h
  | cons e es ih =>
    intro u h
    simp only [tryEnds] at h
    split at h
    · rename_i l hl
      simp only [Option.some.injEq] at h
      exact ⟨e, by simp, l, hl, h.symm⟩
    · obtain ⟨e', he', l, hl, hu⟩ := ih u h
      exact ⟨e', List.mem_cons_of_mem _ he', l, hl, hu⟩

theorem uri_none_of_hit (doC : Bool) (s : Cps) (name : String) (l : Nat)
    (h : scan false doC s productions = .hit name l) (h1 : name ≠ "S") (h2 : name ≠ "URI") :
    uriRe.first s = none := by
  have hp : productions = ("S", reS) :: ("URI", reURI) :: productions.drop 2 := by decide
  rw [hp] at h
  cases hS : reS.first s with
  | some l0 =>
    rw [scan_false_hit hS (by simp [identContinue])] at h
    simp only [Scan.hit.injEq] at h
    exact absurd h.1.symm h1
  | none =>
    rw [scan_false_none hS] at h
    cases hU : reURI.first s with
    | some l0 =>
      rw [scan_false_hit hU (by simp [identContinue])] at h
      simp only [Scan.hit.injEq] at h
      exact absurd h.1.symm h2
    | none => exact hU

theorem valueOf_unesc_fields (s : Cps) (name : String) (found : Cps) (x : NVF)
    (hu : unescTypes.contains name = true) (h : valueOf s name found = some x) :
    x.name = name ∧ x.found = found := by
  unfold valueOf at h
  rw [if_pos hu] at h
  split at h
  · split at h
    · cases h
    · simp only [Option.some.injEq] at h; subst h; exact ⟨rfl, rfl⟩
  · split at h
    · cases h
    · simp only [Option.some.injEq] at h; subst h; exact ⟨rfl, rfl⟩

theorem loop_false_spans (doC : Bool) (fuel : Nat) (s : Cps) (line col : Nat) (h : s.length < fuel) :
    spans (loop false doC fuel s line col).items = s := by
  have ht := loop_tile false doC fuel s line col
  obtain ⟨l, c, hd⟩ := loop_done false doC fuel s line col h
  rw [hd] at ht
  simpa [Stop.rest] using ht

theorem loop_false_step (doC : Bool) (k c : Nat) (t : Cps) (line col : Nat) (name : String) (l : Nat) (x : NVF)
    (hfast : ¬ fastChars.contains c = true) (hscF : scan false doC (c :: t) productions = .hit name l)
    (hx : valueOf (c :: t) name ((c :: t).take l) = some x) (hz : ¬ x.found.length = 0) :
    (loop false doC (k + 1) (c :: t) line col).items =
      ⟨x.name, x.value, line, col, (c :: t).take x.found.length, x.found, doC || x.name != "COMMENT"⟩ ::
        (loop false doC k ((c :: t).drop x.found.length) (advance line col x.found).1
          (advance line col x.found).2).items := by
  rw [loop]
  simp only [hfast, Bool.false_eq_true, if_false, hscF, complete_false, hx, hz, Res.cons]

/-- the productions before CHAR are scanned alike in both modes -/
theorem scan_init (doC : Bool) (s : Cps) : ∀ (init rest : List (String × Re)), (∀ p ∈ init, p.1 ≠ "CHAR") →
    (scan true doC s (init ++ rest) = scan true doC s rest ∧
      scan false doC s (init ++ rest) = scan false doC s rest) ∨
    (∃ name l, scan true doC s (init ++ rest) = .hit name l ∧ scan false doC s (init ++ rest) = .hit name l) := by
  intro init
  induction init with
  | nil => intro rest _; left; exact ⟨rfl, rfl⟩
  | cons p ps ih =>
    intro rest h
    obtain ⟨n, r⟩ := p
    have hn : n ≠ "CHAR" := h (n, r) (by simp)
    have hps : ∀ p ∈ ps, p.1 ≠ "CHAR" := fun p hp => h p (List.mem_cons_of_mem _ hp)
    have hc : ¬ (true && n == "CHAR" && hasAt s commentOpen &&
        (commentRe.first (s ++ commentClose)).isSome && doC) = true := by
      have : (n == "CHAR") = false := by simpa using hn
      simp [this]
    rw [List.cons_append]
    cases hf : r.first s with
    | none =>
      have h1 : scan true doC s ((n, r) :: (ps ++ rest)) = scan true doC s (ps ++ rest) := by
        simp only [scan]; rw [if_neg hc]; simp only [hf]
      rw [h1, scan_false_none hf]; exact ih rest hps
    | some l =>
      by_cases hic : identContinue n s l = true
      · have h1 : scan true doC s ((n, r) :: (ps ++ rest)) = scan true doC s (ps ++ rest) := by
          simp only [scan]; rw [if_neg hc]; simp only [hf, hic, if_true]
        rw [h1, scan_false_skip hf hic]; exact ih rest hps
      · have h1 : scan true doC s ((n, r) :: (ps ++ rest)) = .hit n l := by
          simp only [scan]; rw [if_neg hc]; simp only [hf, hic, Bool.false_eq_true, if_false]
        right
        exact ⟨n, l, h1, scan_false_hit hf (by simpa using hic)⟩

/-- where full-sheet mode completes a comment, partial-sheet mode sees the CHAR `/` -/
theorem scan_false_of_comment (doC : Bool) (c : Nat) (t v : Cps)
    (h : scan true doC (c :: t) productions = .comment v) (hh : hasAt (c :: t) commentOpen = true) :
    c = 47 ∧ scan false doC (c :: t) productions = .hit "CHAR" 1 := by
  have hc : c = 47 := by
    cases t with
    | nil => simp [hasAt, commentOpen] at hh
    | cons d u => simp [hasAt, commentOpen] at hh; exact hh.1
  refine ⟨hc, ?_⟩
  have hsplit : productions = productions.take 20 ++ [("CHAR", reCHAR)] := by decide
  rw [hsplit] at h ⊢
  rcases scan_init doC (c :: t) (productions.take 20) [("CHAR", reCHAR)] (by decide) with ⟨_, h2⟩ | ⟨n, l, h1, _⟩
  · rw [h2]
    apply scan_false_hit
    · rw [hc]; show (Re.cls true [(34, 34), (39, 39)]).first (47 :: t) = some 1
      rw [first_cls_cons]; rfl
    · simp [identContinue]
  · rw [h1] at h; cases h

/-- **full-sheet mode changes the last token only**: the items of the full-sheet run are those of the partial-sheet
run, or they are a common prefix followed by ONE completed token (STRING / URI / COMMENT) whose source span is
everything the partial-sheet run tokenizes from there on. -/
theorem loop_full (doC : Bool) : ∀ (fuel : Nat) (s : Cps) (line col : Nat), s.length < fuel →
    (loop true doC fuel s line col).items = (loop false doC fuel s line col).items ∨
    ∃ pre it x rest, (loop true doC fuel s line col).items = pre ++ [it] ∧
      (loop false doC fuel s line col).items = pre ++ x :: rest ∧ it.span = spans (x :: rest) ∧
      Completion doC it x := by
  intro fuel
  induction fuel with
  | zero => intro s _ _ h; omega
  | succ k ih =>
    intro s line col hf
    cases s with
    | nil => left; simp [loop]
    | cons c t =>
      have hsp := loop_false_spans doC (k + 1) (c :: t) line col hf
      have hne : (loop false doC (k + 1) (c :: t) line col).items ≠ [] := by
        intro e; rw [e] at hsp; simp at hsp
      by_cases hfast : fastChars.contains c = true
      · have hT : (loop true doC (k + 1) (c :: t) line col).items =
            ⟨"CHAR", [c], line, col, [c], [c], true⟩ :: (loop true doC k t line (col + 1)).items := by
          rw [loop]; simp only [hfast, if_true, Res.cons]
        have hF : (loop false doC (k + 1) (c :: t) line col).items =
            ⟨"CHAR", [c], line, col, [c], [c], true⟩ :: (loop false doC k t line (col + 1)).items := by
          rw [loop]; simp only [hfast, if_true, Res.cons]
        rcases ih t line (col + 1) (by simp at hf; omega) with h | ⟨pre, it, x, rest, h1, h2, h4, h5⟩
        · left; rw [hT, hF, h]
        · right
          exact ⟨_ :: pre, it, x, rest, by rw [hT, h1]; rfl, by rw [hF, h2]; rfl, h4, h5⟩
      · rcases scan_true_or doC (c :: t) productions with hsc | ⟨hsc, hd, hh⟩
        · -- the scan gives the same result in both modes
          generalize hscF : scan false doC (c :: t) productions = sc at hsc
          rcases sc with _ | v | ⟨name, l⟩
          · left
            rw [loop, loop]
            simp only [hfast, Bool.false_eq_true, if_false, hsc, hscF]
          · exact absurd hscF (scan_false_not_comment doC _ _ v)
          · have hpos := scan_hit_pos false doC _ name l hscF
            have hfne : (c :: t).take l ≠ [] := by
              obtain ⟨j, rfl⟩ : ∃ j, l = j + 1 := ⟨l - 1, by omega⟩
              simp
            obtain ⟨nf, hnf, hnfne⟩ := complete_isSome true (c :: t) name _ (by simp) hfne
            obtain ⟨x, hx, hxne⟩ := valueOf_isSome (c :: t) nf.name nf.found hnfne
            have hz : ¬ x.found.length = 0 := by
              intro e; exact hxne (List.length_eq_zero_iff.mp e)
            have hT : (loop true doC (k + 1) (c :: t) line col).items =
                ⟨x.name, x.value, line, col, (c :: t).take x.found.length, x.found, doC || x.name != "COMMENT"⟩ ::
                  (loop true doC k ((c :: t).drop x.found.length) (advance line col x.found).1
                    (advance line col x.found).2).items := by
              rw [loop]
              simp only [hfast, Bool.false_eq_true, if_false, hsc, hnf, hx, hz, Res.cons]
            rcases complete_true_cases _ _ _ _ hnf with hid | ⟨hinv, hsf, q, r, hqr, hnfeq⟩ | ⟨hfn, hurl, u, hu, hnfeq⟩
            · -- no completion: the same step in both modes
              rw [hid] at hx
              simp only at hx
              have hF := loop_false_step doC k c t line col name l x hfast hscF hx hz
              have hlen : ((c :: t).drop x.found.length).length < k := by
                simp only [List.length_drop, List.length_cons] at hf ⊢; omega
              rcases ih _ (advance line col x.found).1 (advance line col x.found).2 hlen with
                h | ⟨pre, it, x0, rest, h1, h2, h4, h5⟩
              · left; rw [hT, hF, h]
              · right
                exact ⟨_ :: pre, it, x0, rest, by rw [hT, h1]; rfl, by rw [hF, h2]; rfl, h4, h5⟩
            · -- unterminated string
              right
              rw [hnfeq] at hx
              simp only at hx
              obtain ⟨hxn, hxf⟩ := valueOf_unesc_fields _ _ _ _ (by decide) hx
              have hlen : x.found.length = (c :: t).length + 1 := by rw [hxf, ← hsf]; simp
              have htk : (c :: t).take x.found.length = c :: t := by
                rw [hlen]; exact List.take_of_length_le (by omega)
              have hdr : (c :: t).drop x.found.length = [] := by
                rw [hlen]; exact List.drop_eq_nil_iff.mpr (by omega)
              -- partial-sheet mode yields the INVALID token there
              obtain ⟨x', hx', hx'ne⟩ := valueOf_isSome (c :: t) name ((c :: t).take l) hfne
              obtain ⟨hx'n, hx'f⟩ := valueOf_unesc_fields _ _ _ _ (by rw [hinv]; decide) hx'
              have hz' : ¬ x'.found.length = 0 := fun e => hx'ne (List.length_eq_zero_iff.mp e)
              have hF := loop_false_step doC k c t line col name l x' hfast hscF hx' hz'
              refine ⟨[], (⟨x.name, x.value, line, col, (c :: t).take x.found.length, x.found,
                doC || x.name != "COMMENT"⟩ : Item), _, _, ?_, by rw [hF]; rfl, ?_, ?_⟩
              · rw [hT, hdr, loop_nil_items]; rfl
              · rw [← hF]; simp only [htk]; exact hsp.symm
              · have hq : q = c := by rw [← hsf] at hqr; simp only [List.cons.injEq] at hqr; exact hqr.1.symm
                refine Completion.string c t hxn (by simp only [htk]) ?_ (by rw [← hinv]; exact hx'n) ?_
                · show x.found = List.take x.found.length (c :: t) ++ [c]
                  rw [htk, hxf, ← hsf, hq]
                · show List.take x'.found.length (c :: t) = List.take x.found.length (c :: t)
                  rw [htk, hx'f, ← hsf]
                  exact List.take_of_length_le (Nat.le_refl _)
            · -- unterminated url(
              right
              rw [hnfeq] at hx
              simp only at hx
              obtain ⟨hxn, hxf⟩ := valueOf_unesc_fields _ _ _ _ (by decide) hx
              obtain ⟨e, he, l', hl', hul⟩ := tryEnds_cases _ _ _ hu
              have hnone := uri_none_of_hit doC (c :: t) name l hscF (by rw [hfn]; decide) (by rw [hfn]; decide)
              have hgt : (c :: t).length < l' := by
                by_cases hle : l' ≤ (c :: t).length
                · have := first_of_append (r := uriRe) (by decide) hl' hle
                  rw [hnone] at this; cases this
                · omega
              have hb := Re.first_bounded uriRe _ _ hl'
              have hlen : x.found.length = l' := by rw [hxf, hul, List.length_take]; omega
              have htk : (c :: t).take x.found.length = c :: t := by
                rw [hlen]; exact List.take_of_length_le (by omega)
              have hdr : (c :: t).drop x.found.length = [] := by
                rw [hlen]; exact List.drop_eq_nil_iff.mpr (by omega)
              obtain ⟨x', hx', hx'ne⟩ := valueOf_isSome (c :: t) name ((c :: t).take l) hfne
              obtain ⟨hx'n, hx'f⟩ := valueOf_unesc_fields _ _ _ _ (by rw [hfn]; decide) hx'
              have hz' : ¬ x'.found.length = 0 := fun e => hx'ne (List.length_eq_zero_iff.mp e)
              have hF := loop_false_step doC k c t line col name l x' hfast hscF hx' hz'
              refine ⟨[], (⟨x.name, x.value, line, col, (c :: t).take x.found.length, x.found,
                doC || x.name != "COMMENT"⟩ : Item), _, _, ?_, by rw [hF]; rfl, ?_, ?_⟩
              · rw [hT, hdr, loop_nil_items]; rfl
              · rw [← hF]; simp only [htk]; exact hsp.symm
              · refine Completion.uri e l' hxn he (by simp only [htk]; exact hl') ?_ (by simp only [htk]; exact hgt)
                  (by rw [← hfn]; exact hx'n) (by show normalizeU x'.found = _; rw [hx'f]; exact hurl)
                show x.found = List.take l' (List.take x.found.length (c :: t) ++ e)
                rw [htk, hxf, hul]
        · -- unterminated comment
          right
          obtain ⟨hc47, hscF⟩ := scan_false_of_comment doC c t _ hsc hh
          have hx' : valueOf (c :: t) "CHAR" ((c :: t).take 1) = some ⟨"CHAR", [c], [c]⟩ :=
            valueOf_plain _ _ _ (by decide) (by decide)
          have hF := loop_false_step doC k c t line col "CHAR" 1 ⟨"CHAR", [c], [c]⟩ hfast hscF hx' (by simp)
          refine ⟨[], ⟨"COMMENT", (c :: t) ++ commentClose, line, col, c :: t, (c :: t) ++ commentClose, true⟩,
            _, _, ?_, by rw [hF]; rfl, ?_, ?_⟩
          · rw [loop]
            simp only [hfast, Bool.false_eq_true, if_false, hsc, List.nil_append]
          · rw [← hF]; exact hsp.symm
          · exact Completion.comment rfl hd rfl hh rfl (by rw [hc47])

theorem body_full (text : Cps) (doC : Bool) :
    body text true doC = body text false doC ∨
    ∃ pre it x rest, body text true doC = pre ++ [it] ∧ body text false doC = pre ++ x :: rest ∧
      it.span = spans (x :: rest) ∧ Completion doC it x := by
  unfold body mainLoop
  rcases loop_full doC ((afterCharset (afterBom text)).length + 1) (afterCharset (afterBom text)) 1
      (startCol (afterBom text)) (Nat.lt_succ_self _) with h | ⟨pre, it, x, rest, h1, h2, h4, h5⟩
  · left; rw [h]
  · right
    exact ⟨charsetItems (afterBom text) ++ pre, it, x, rest, by rw [h1, List.append_assoc],
      by rw [h2, List.append_assoc], h4, h5⟩

end CssVerif.Tok
