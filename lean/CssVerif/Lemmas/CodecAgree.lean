import CssVerif.Lemmas.CodecCss
/-!
Where CPython's stateless decoders (`codecs.getdecoder`, used by one-shot `decode`) and its incremental
decoders (used by `IncrementalDecoder`) give the same result — and the two places where they do not.
-/
namespace CssVerif.Codec

/-- data on which the stateless and the incremental decoder of a codec agree: everything, except
* `utf-8-sig`: the data is exactly a proper non-empty prefix of the BOM (the incremental decoder keeps
  waiting and returns `""` at the end, the stateless one raises);
* `utf-16` / `utf-32`: non-empty well-formed little-endian data without BOM (the stateless decoder uses the
  native byte order, the incremental one raises "stream does not start with BOM") -/
def Agree : CName → List Nat → Prop
  | .plain _, _ => True
  | .u8sig, d => d ≠ [0xEF] ∧ d ≠ [0xEF, 0xBB]
  | .u16, d => d = [] ∨ d.take 2 = bom16le ∨ d.take 2 = bom16be ∨ (scan (Kind.first .u16le) d true).err = true
  | .u32, d => d = [] ∨ d.take 4 = bom32le ∨ d.take 4 = bom32be ∨ (scan (Kind.first .u32le) d true).err = true

instance (c : CName) (d : List Nat) : Decidable (Agree c d) := by
  cases c <;> unfold Agree <;> exact inferInstance

def obs (r : Res) : Option (List Nat) := if r.err then none else some r.text

theorem bom_agrees (w : Nat) (le be : List Nat) (kle kbe : Kind) (d : List Nat) (hw : 0 < w)
    (h : d = [] ∨ d.take w = le ∨ d.take w = be ∨ (scan kle.first d true).err = true) :
    obs (bomScan w le be kle kbe d true) = obs (sniffBom w le be kle kbe d true).res := by
  unfold bomScan sniffBom
  by_cases h1 : d.take w = le
  · simp [h1]
  · by_cases h2 : d.take w = be
    · have hne : ¬ be = le := by rw [← h2]; exact h1
      simp [h2, hne]
    · simp only [h1, h2, if_false]
      rcases h with h | h | h | h
      · subst h
        have : ¬ w = 0 := by omega
        simp [scan, scanS, obs, this]
      · exact absurd h h1
      · exact absurd h h2
      · simp [h, obs, Res.fail]

theorem sig_agrees (d : List Nat) (h : d ≠ [0xEF] ∧ d ≠ [0xEF, 0xBB]) :
    obs (stateless .u8sig d) = obs (sniffSig d true).res := by
  unfold stateless sniffSig
  by_cases hl : d.length < 3
  · have ht : ¬ d.take 3 = bom8 := by
      intro e; have := congrArg List.length e; simp [bom8] at this; omega
    simp only [hl, if_true, ht, if_false]
    by_cases hp : d.isPrefixOf bom8 = true
    · simp only [hp, if_true]
      match d, hl, hp, h with
      | [], _, _, _ => rfl
      | [a], _, hp, h =>
        simp [bom8, List.isPrefixOf] at hp
        subst hp; exact absurd rfl h.1
      | [a, b], _, hp, h =>
        simp [bom8, List.isPrefixOf] at hp
        obtain ⟨ha, hb⟩ := hp
        subst ha; subst hb; exact absurd rfl h.2
    · simp [hp]
  · by_cases ht : d.take 3 = bom8 <;> simp [hl, ht]

/-- one-shot `codecs.getdecoder(name)(data)` = the incremental decoder at the end of the data, on `Agree` -/
theorem stateless_agrees (c : CName) (d : List Nat) (h : Agree c d) :
    statelessDecode c d = obs (incOut c d true) := by
  show obs (stateless c d) = obs (incOut c d true)
  cases c with
  | plain k => rfl
  | u8sig => exact sig_agrees d h
  | u16 => exact bom_agrees 2 _ _ _ _ d (by decide) h
  | u32 => exact bom_agrees 4 _ _ _ _ d (by decide) h

theorem obs_fail : obs Res.fail = none := rfl

theorem bom_disagrees (w : Nat) (le be : List Nat) (kle kbe : Kind) (d : List Nat)
    (hshort : ∀ a : List Nat, a ≠ [] → a.length < w → (scan kle.first a true).err = true)
    (h : ¬ (d = [] ∨ d.take w = le ∨ d.take w = be ∨ (scan kle.first d true).err = true)) :
    obs (bomScan w le be kle kbe d true) ≠ obs (sniffBom w le be kle kbe d true).res := by
  have h0 : d ≠ [] := fun e => h (Or.inl e)
  have h1 : ¬ d.take w = le := fun e => h (Or.inr (Or.inl e))
  have h2 : ¬ d.take w = be := fun e => h (Or.inr (Or.inr (Or.inl e)))
  have h3 : (scan kle.first d true).err = false := by
    cases hx : (scan kle.first d true).err with
    | true => exact absurd (Or.inr (Or.inr (Or.inr hx))) h
    | false => rfl
  have hlen : w ≤ d.length := by
    rcases Nat.lt_or_ge d.length w with hl | hl
    · have := hshort d h0 hl; rw [h3] at this; cases this
    · exact hl
  have hp : (scan kle.first d true).pend = [] := scanS_final_pend _ _ _
  unfold bomScan sniffBom
  simp only [h1, h2, if_false, h3, Bool.false_eq_true, hp, List.length_nil, Nat.zero_add, hlen, if_true]
  simp [obs, h3, Res.fail]


theorem short16_final (a : List Nat) (h0 : a ≠ []) (h : a.length < 2) : (scan (Kind.first .u16le) a true).err = true := by
  match a, h0, h with
  | [x], _, _ => rfl

theorem short32_final (a : List Nat) (h0 : a ≠ []) (h : a.length < 4) : (scan (Kind.first .u32le) a true).err = true := by
  match a, h0, h with
  | [x], _, _ => rfl
  | [x, y], _, _ => rfl
  | [x, y, z], _, _ => rfl

/-- `Agree` is exact: outside it the stateless and the incremental decoder differ -/
theorem stateless_disagrees (c : CName) (d : List Nat) (h : ¬ Agree c d) :
    statelessDecode c d ≠ obs (incOut c d true) := by
  show obs (stateless c d) ≠ obs (incOut c d true)
  cases c with
  | plain k => exact absurd trivial h
  | u8sig =>
    have : d = [0xEF] ∨ d = [0xEF, 0xBB] := by
      unfold Agree at h
      by_cases h1 : d = [0xEF]
      · exact Or.inl h1
      · by_cases h2 : d = [0xEF, 0xBB]
        · exact Or.inr h2
        · exact absurd ⟨h1, h2⟩ h
    rcases this with rfl | rfl <;> decide
  | u16 => exact bom_disagrees 2 _ _ _ _ d short16_final h
  | u32 => exact bom_disagrees 4 _ _ _ _ d short32_final h

end CssVerif.Codec
