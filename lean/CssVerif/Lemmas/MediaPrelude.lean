import CssVerif.Lemmas.ParseAllDom
/-!
# The media prelude the dispatcher collects never holds an EOF token

`cssmediarule.py:104-106`: `mediatokens, end = self._tokensupto2(tokenizer, mediaqueryendonly=True, separateEnd=True)`.
`_tokensupto2` stops at the first EOF and `separateEnd` takes the last token off, so the EOF conjunct of `mediaDom` holds
for every prelude handed to `MediaList.mediaText` (same for every other `separateEnd` caller).
-/
namespace CssVerif.MediaPrelude
open CssVerif CssVerif.Struct

theorem uptoLoop_dropLast_noEof (m : Mode) (c : Cnt) (ts : List Tok) :
    ∀ t ∈ (uptoLoop m c ts).1.dropLast, t.typ ≠ .eof := by
  induction ts generalizing c with
  | nil => simp [uptoLoop]
  | cons x xs ih =>
    unfold uptoLoop
    split
    · simp
    · rename_i hx
      split
      · simp
      · intro t ht
        simp only at ht
        cases hr : (uptoLoop m (bump c x) xs).1 with
        | nil => simp [hr] at ht
        | cons y ys =>
          rw [hr, List.dropLast_cons_cons] at ht
          rcases List.mem_cons.mp ht with rfl | ht
          · exact hx
          · exact ih (bump c x) t (by rw [hr]; exact ht)

/-- the prelude of an `@media` rule as `mediaRule` computes it -/
theorem media_prelude_noEof (rest0 : List Tok) : ∀ t ∈ (sepEnd (upto .mq none rest0).1).1, t.typ ≠ .eof := by
  simp only [sepEnd, upto]
  exact uptoLoop_dropLast_noEof _ _ _

/-- … and so is the token the media engine sees for it -/
theorem mediaTok_noEof (it : Tok.Item) (h : ParseAll.structTT it.typ ≠ .eof) : (ParseAll.mediaTok it).typ ≠ .eof := by
  intro he
  apply h
  have : it.typ = "EOF" := by
    simp only [ParseAll.mediaTok, ParseAll.mediaTT] at he
    split at he <;> first | assumption | cases he
  rw [this]; rfl

end CssVerif.MediaPrelude
