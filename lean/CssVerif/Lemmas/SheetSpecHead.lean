import CssVerif.Lemmas.SheetSpecRules
/-!
# Lemmas for C02: string / URI values, `@charset`, `@import`, `@namespace`
-/
namespace CssVerif.SheetSpec
open CssVerif.Proto (Cps)
open CssVerif.Struct CssVerif.AtRules
set_option linter.unusedSimpArgs false
set_option linter.unusedVariables false

/-! ## string and URI values -/

theorem dropWhile_ws_append (g l : Cps) (hg : ∀ c ∈ g, isWsCp c = true) :
    (g ++ l).dropWhile isWsCp = l.dropWhile isWsCp := by
  induction g with
  | nil => rfl
  | cons t ts ih =>
    simp only [List.cons_append, List.dropWhile_cons, hg t (by simp), ↓reduceIte]
    exact ih (fun x hx => hg x (by simp [hx]))

theorem stripWs_padded (pre post c : Cps) (hpre : ∀ x ∈ pre, isWsCp x = true) (hpost : ∀ x ∈ post, isWsCp x = true)
    (hh : ∀ x, c.head? = some x → isWsCp x = false) (hl : ∀ x, c.getLast? = some x → isWsCp x = false) :
    stripWs (pre ++ (c ++ post)) = c := by
  unfold stripWs
  rw [dropWhile_ws_append pre _ hpre]
  by_cases hc : c = []
  · subst hc
    have e0 : ∀ l : Cps, (∀ x ∈ l, isWsCp x = true) → l.dropWhile isWsCp = [] := by
      intro l hl
      simpa using dropWhile_ws_append l [] hl
    simp [e0 post hpost]
  · obtain ⟨t, ts, rfl⟩ := List.exists_cons_of_ne_nil hc
    have ht := hh t rfl
    have e1 : ((t :: ts) ++ post).dropWhile isWsCp = (t :: ts) ++ post := by simp [List.dropWhile_cons, ht]
    rw [e1, List.reverse_append, dropWhile_ws_append post.reverse _ (by simpa using hpost)]
    obtain ⟨us, u, hu⟩ : ∃ us u, t :: ts = us ++ [u] := by
      rcases List.eq_nil_or_concat (t :: ts) with h | ⟨us, u, h⟩
      · simp at h
      · exact ⟨us, u, by simpa using h⟩
    have hul := hl u (by rw [hu]; simp)
    have e2 : (t :: ts).reverse.dropWhile isWsCp = (t :: ts).reverse := by
      rw [hu]; simp [List.dropWhile_cons, hul]
    rw [e2, List.reverse_reverse]

theorem wsChar_isWs (c : WsChar) : isWsCp c.cp = true := by cases c <;> decide

theorem spell_mem (n : Cps) : ∀ (m : Mask) (c : Nat), c ∈ spell m n →
    c = 0x5C ∨ ∃ d ∈ n, c = d ∨ c = CssVerif.Normalize.upperAscii d := by
  induction n with
  | nil => intro m c h; cases m <;> simp [spell, CssVerif.Normalize.spell] at h
  | cons d t ih =>
    intro m c h
    cases m with
    | nil =>
      simp only [spell, CssVerif.Normalize.spell, List.mem_cons] at h
      rcases h with rfl | h
      · exact Or.inr ⟨c, by simp, Or.inl rfl⟩
      · rcases ih [] c h with h' | ⟨e, he, h'⟩
        · exact Or.inl h'
        · exact Or.inr ⟨e, by simp [he], h'⟩
    | cons ue m =>
      obtain ⟨up, esc⟩ := ue
      have key : ∀ c', (c' = d ∨ c' = CssVerif.Normalize.upperAscii d) →
          c ∈ (if (esc && !CssVerif.Normalize.isHex c') = true then 0x5C :: c' :: spell m t else c' :: spell m t) →
          c = 0x5C ∨ ∃ e ∈ d :: t, c = e ∨ c = CssVerif.Normalize.upperAscii e := by
        intro c' hc' hm
        have hm' : c = 0x5C ∨ c = c' ∨ c ∈ spell m t := by
          split at hm
          · simp only [List.mem_cons] at hm; exact hm
          · simp only [List.mem_cons] at hm; exact Or.inr hm
        rcases hm' with h1 | h1 | h1
        · exact Or.inl h1
        · subst h1; exact Or.inr ⟨d, by simp, hc'⟩
        · rcases ih m c h1 with h' | ⟨e, he, h'⟩
          · exact Or.inl h'
          · exact Or.inr ⟨e, by simp [he], h'⟩
      cases up with
      | true => exact key _ (Or.inr rfl) (by simpa [spell, CssVerif.Normalize.spell] using h)
      | false => exact key _ (Or.inl rfl) (by simpa [spell, CssVerif.Normalize.spell] using h)

theorem urlWord_noParen (up : Mask) : ∀ c ∈ urlWord up, (c != 0x28) = true := by
  intro c hc
  rcases spell_mem _ up c hc with rfl | ⟨d, hd, h⟩
  · decide
  · simp only [CssVerif.Proto.cps] at hd
    have hd' : d = 0x75 ∨ d = 0x72 ∨ d = 0x6C := by simpa using hd
    rcases hd' with rfl | rfl | rfl <;> rcases h with rfl | rfl <;> decide

theorem dropWhile_all_append (p : Nat → Bool) (a b : Cps) (h : ∀ c ∈ a, p c = true) :
    (a ++ b).dropWhile p = b.dropWhile p := by
  induction a with
  | nil => rfl
  | cons x xs ih =>
    simp only [List.cons_append, List.dropWhile_cons, h x (by simp), ↓reduceIte]
    exact ih (fun c hc => h c (by simp [hc]))

/-- the text of an unquoted URL: no white space at its ends, does not start with a quote -/
structure UrlPlain (h : Cps) : Prop where
  head : ∀ x, h.head? = some x → isWsCp x = false ∧ x ≠ 0x22 ∧ x ≠ 0x27
  last : ∀ x, h.getLast? = some x → isWsCp x = false

def SHref.WF : SHref → Prop
  | .str _ h => 0x5C ∉ h
  | .url _ _ _ (some _) h => 0x5C ∉ h
  | .url _ _ _ none h => UrlPlain h

theorem quote_notWs (q : Quote) : isWsCp q.cp = false := by cases q <;> decide

/-- the value the rule classes read from a spelled string / URL token -/
theorem href_value (r : SHref) (h : r.WF) :
    (match r with
      | .str .. => stringValue r.tok.val
      | .url .. => uriValue r.tok.val) = r.value := by
  cases r with
  | str q t => exact stringValue_quoteStr q t h
  | url up pre post q t =>
    simp only [SHref.tok, SHref.value, uriValue]
    have e1 : ∀ body : Cps, (((urlWord up ++ 0x28 :: (pre.map WsChar.cp ++ (body ++ (post.map WsChar.cp ++ [0x29])))).dropWhile
        (fun c => c != 0x28)).drop 1).dropLast = pre.map WsChar.cp ++ (body ++ post.map WsChar.cp) := by
      intro body
      rw [dropWhile_all_append _ _ _ (urlWord_noParen up)]
      have : pre.map WsChar.cp ++ (body ++ (post.map WsChar.cp ++ [0x29])) =
          (pre.map WsChar.cp ++ (body ++ post.map WsChar.cp)) ++ [0x29] := by simp
      simp only [List.dropWhile_cons, bne_self_eq_false, Bool.false_eq_true, ↓reduceIte, List.drop_succ_cons,
        List.drop_zero]
      rw [this, List.dropLast_concat]
    have hpre : ∀ x ∈ pre.map WsChar.cp, isWsCp x = true := by
      intro x hx; simp only [List.mem_map] at hx; obtain ⟨c, _, rfl⟩ := hx; exact wsChar_isWs c
    have hpost : ∀ x ∈ post.map WsChar.cp, isWsCp x = true := by
      intro x hx; simp only [List.mem_map] at hx; obtain ⟨c, _, rfl⟩ := hx; exact wsChar_isWs c
    cases q with
    | some q =>
      have h : 0x5C ∉ t := h
      simp only [e1]
      rw [stripWs_padded _ _ (quoteStr q t) hpre hpost
        (by intro x hx; simp [quoteStr] at hx; subst hx; exact quote_notWs q)
        (by intro x hx; simp [quoteStr, List.getLast?_cons_cons] at hx
            have : (q.cp :: (escQuote q.cp t ++ [q.cp])).getLast? = some q.cp := by
              rw [show q.cp :: (escQuote q.cp t ++ [q.cp]) = (q.cp :: escQuote q.cp t) ++ [q.cp] from rfl,
                List.getLast?_concat]
            rw [← quoteStr_eq] at this
            simp [quoteStr] at this
            rw [this] at hx
            simp at hx; subst hx; exact quote_notWs q)]
      have hl : (quoteStr q t).getLast? = some q.cp := by
        rw [quoteStr_eq, show q.cp :: (escQuote q.cp t ++ [q.cp]) = (q.cp :: escQuote q.cp t) ++ [q.cp] from rfl,
          List.getLast?_concat]
      have hq : q.cp = 0x22 ∨ q.cp = 0x27 := by cases q <;> simp [Quote.cp]
      have := stringValue_quoteStr q t h
      simp only [stringValue, quoteStr_eq] at this
      simp only [quoteStr_eq] at hl ⊢
      simp only [List.drop_one] at this
      simp [hq, hl, this]
    | none =>
      have h : UrlPlain t := h
      simp only [e1]
      rw [stripWs_padded _ _ t hpre hpost (fun x hx => (h.head x hx).1) h.last]
      cases t with
      | nil => rfl
      | cons c cs =>
        have := h.head c rfl
        simp [this.2.1, this.2.2]

theorem SHref.tok_val_safe (r : SHref) : SafeVal r.tok.val := by
  cases r with
  | str q h => exact ⟨q.cp, _, rfl, by cases q <;> simp [Quote.cp, delims]⟩
  | url up pre post q h =>
    obtain ⟨c, cs, hc, hd⟩ := spell_safe (CssVerif.Proto.cps "url") up
      (nameOk_cps "url" (by decide) ⟨_, _, rfl, by decide⟩)
    refine ⟨c, cs ++ 0x28 :: (pre.map WsChar.cp ++ ((match q with
        | some q => quoteStr q h
        | none => h) ++ (post.map WsChar.cp ++ [0x29]))), ?_, hd⟩
    simp only [SHref.tok, urlWord]
    rw [hc]
    rfl

theorem SHref.tok_typ (r : SHref) : r.tok.typ = .string ∨ r.tok.typ = .uri := by
  cases r <;> simp [SHref.tok]

theorem SHref.tok_flat (r : SHref) : Flat .default r.tok :=
  safe_flat_noStr .default rfl _ r.tok_val_safe (by rcases r.tok_typ with h | h <;> simp [h])
    (by rcases r.tok_typ with h | h <;> simp [h])

/-! ## `@import` -/

theorem impStep_gap (O : Oracle) (t : Tok) (ht : isGapTok t = true) (s : ImpSt) (rest : List Tok)
    (hs : s.exp ≠ .eof) : impStep O s t rest = (s, rest) := by
  simp only [isGapTok, Bool.or_eq_true, beq_iff_eq] at ht
  rcases ht with h | h <;> simp [impStep, h, hs]

theorem impIdent_rest_le (O : Oracle) (s : ImpSt) (t : Tok) (rest : List Tok) :
    (impIdent O s t rest).2.length ≤ rest.length := by
  unfold impIdent
  split
  · dsimp only
    split
    · exact upto_rest_le _ _ _
    · split <;> exact upto_rest_le _ _ _
  · simp

theorem impStep_rest_le (O : Oracle) (s : ImpSt) (t : Tok) (rest : List Tok) :
    (impStep O s t rest).2.length ≤ rest.length := by
  unfold impStep
  split
  · split
    · simp
    · split <;> simp
  · split <;> simp
  · exact impIdent_rest_le O s t rest
  · split
    · simp
    · split
      · exact impIdent_rest_le O s t rest
      · simp
  · split <;> simp
  · split <;> simp
  · split
    · simp
    · exact upto_rest_le _ _ _
  · simp
  · simp

theorem impLoop_cons (O : Oracle) (s : ImpSt) (t : Tok) (ts : List Tok) :
    parseLoop (impStep O) s (t :: ts) = parseLoop (impStep O) (impStep O s t ts).1 (impStep O s t ts).2 :=
  parseLoop_cons _ _ _ _ (impStep_rest_le O s t ts)

/-- the media query list of `@import`, as the abstract sheet holds it: starts with an IDENT or `(` -/
structure ImpMqOk (m : List Tok) : Prop where
  core : Core (strip m)
  start : ∃ t m', m = t :: m' ∧ (t.typ = .ident ∨ (t.typ = .char ∧ t.val = vLParen))
  qi : Quiet .importmq [] m = true
  qd : QB .default m

structure ImportWF (O : Oracle) (href : SHref) (mq : Option (List Tok × Gap)) (name : SName) : Prop where
  hrefWF : href.WF
  ne : href.value ≠ []
  mqWF : ∀ p, mq = some p → ImpMqOk p.1 ∧ O.mediaOk (p.1 ++ Gap.toks p.2) = true
  nameWF : NameWF name

/-- the href production on a spelled string / URL token -/
theorem impStep_href (O : Oracle) (r : SHref) (h : r.WF) (rest : List Tok) :
    impStep O {} r.tok rest = ({ href := some r.value, exp := .mediaNameSemi }, rest) := by
  have hv := href_value r h
  cases r with
  | str q t => simp only [SHref.tok] at hv ⊢; simp [impStep, hv]
  | url up pre post q t => simp only [SHref.tok] at hv ⊢; simp [impStep, hv]

theorem semi_importmq : push [] semiTok = some [] ∧ endTok .importmq semiTok = true := by
  constructor
  · simp [push, Tok.br, semiTok, charTok]
  · decide

theorem strTok_importmq (q : Quote) (n : Cps) :
    push [] (strTok q n) = some [] ∧ endTok .importmq (strTok q n) = true := by
  constructor
  · have := (strTok_flat .default rfl q n).2.1
    simp [push, this]
  · simp [endTok, Mode.endString, strTok]

/-- the end of the statement after the media query list / the href: `["name" g4] ;` -/
theorem impLoop_tail (O : Oracle) (name : SName) (hn : NameWF name) (s : ImpSt)
    (hs : s.exp = .mediaNameSemi ∨ (s.exp = .semi ∧ name = none)) :
    parseLoop (impStep O) s (nameToks name ++ [semiTok]) =
      { s with exp := .eof, name := if name.isSome then name.map (·.2.1) else s.name } := by
  cases name with
  | none =>
    simp only [nameToks, List.nil_append, Option.isSome_none, Bool.false_eq_true, ↓reduceIte]
    rw [impLoop_cons]
    rcases hs with hs | ⟨hs, _⟩ <;> simp [impStep, semiTok, charTok, vSemi, parseLoop_nil, hs]
  | some p =>
    obtain ⟨q, n, g4⟩ := p
    have hs : s.exp = .mediaNameSemi := by
      rcases hs with hs | ⟨_, hh⟩
      · exact hs
      · simp at hh
    simp only [nameToks, List.cons_append, Option.isSome_some, ↓reduceIte, Option.map_some]
    rw [impLoop_cons]
    have e : impStep O s (strTok q n) (Gap.toks g4 ++ [semiTok]) =
        ({ s with name := some n, exp := .semi }, Gap.toks g4 ++ [semiTok]) := by
      simp [impStep, strTok, hs, stringValue_quoteStr q n (hn _ rfl)]
    rw [e]
    simp only
    rw [parseLoop_skip_inv (impStep O) (fun s => s.exp ≠ .eof) _ _
      (fun t ht s rest hs => impStep_gap O t ((gapL_toks g4).isGap t ht) s rest hs) _ (by simp)]
    rw [impLoop_cons]
    simp [impStep, semiTok, charTok, vSemi, parseLoop_nil]

/-- the `_parse` run of `CSSImportRule` over a rendered `@import` (after the at-keyword) -/
theorem impLoop_render (O : Oracle) (g1 : Gap) (href : SHref) (g2 : Gap)
    (mq : Option (List Tok × Gap)) (name : SName) (h : ImportWF O href mq name) :
    parseLoop (impStep O) {} (Gap.toks g1 ++ href.tok :: (Gap.toks g2 ++ (impMqToks mq ++ (nameToks name ++ [semiTok])))) =
      { exp := .eof, href := some href.value, media := mq.map (fun p => p.1 ++ Gap.toks p.2),
        name := name.map (·.2.1) } := by
  rw [parseLoop_skip_inv (impStep O) (fun s => s.exp ≠ .eof) _ _
    (fun t ht s rest hs => impStep_gap O t ((gapL_toks g1).isGap t ht) s rest hs) {} (by simp)]
  rw [impLoop_cons, impStep_href O href h.hrefWF]
  simp only
  rw [parseLoop_skip_inv (impStep O) (fun s => s.exp ≠ .eof) _ _
    (fun t ht s rest hs => impStep_gap O t ((gapL_toks g2).isGap t ht) s rest hs) _ (by simp)]
  cases mq with
  | none =>
    simp only [impMqToks, List.nil_append, Option.map_none]
    rw [impLoop_tail O name h.nameWF _ (Or.inl rfl)]
    cases name <;> simp
  | some p =>
    obtain ⟨m, g3⟩ := p
    obtain ⟨hm, hO⟩ := h.mqWF (m, g3) rfl
    obtain ⟨t, m', rfl, ht⟩ := hm.start
    have hq : Quiet .importmq [] ((t :: m') ++ Gap.toks g3) = true :=
      quiet_append _ _ _ _ _ hm.qi hm.qd.2 ((gapL_toks g3).qb _).1
    have hn : nest [] ((t :: m') ++ Gap.toks g3) = some [] := bal_append hm.qd.2 ((gapL_toks g3).qb .default).2
    have hO' : O.mediaOk (t :: m' ++ Gap.toks g3) = true := hO
    simp only [Option.map_some, impMqToks]
    cases name with
    | none =>
      have hup : upto .importmq (some t) ((m' ++ Gap.toks g3) ++ [semiTok]) = (t :: (m' ++ Gap.toks g3) ++ [semiTok], []) := by
        have := upto_start_end .importmq [] [] t (m' ++ Gap.toks g3) semiTok [] rfl
          (by simpa using quiet_cons_start _ _ _ hq) (by simpa using nest_cons_start _ _ _ hn)
          semi_importmq.1 semi_importmq.2
        simpa using this
      have e : (t :: m' ++ Gap.toks g3) ++ (nameToks none ++ [semiTok]) = t :: ((m' ++ Gap.toks g3) ++ [semiTok]) := by
        simp [nameToks]
      rw [e, impLoop_cons]
      have hident : ∀ s : ImpSt, s.exp = .mediaNameSemi → s.wf = true → s.name = none →
          impIdent O s t ((m' ++ Gap.toks g3) ++ [semiTok]) =
            ({ s with media := some (t :: m' ++ Gap.toks g3), exp := .eof }, []) := by
        intro s hs hw hn
        have l1 : (t :: (m' ++ Gap.toks g3) ++ [semiTok]).getLast? = some semiTok := by
          rw [show t :: (m' ++ Gap.toks g3) ++ [semiTok] = (t :: (m' ++ Gap.toks g3)) ++ [semiTok] from rfl,
            List.getLast?_concat]
        have l2 : (t :: (m' ++ Gap.toks g3) ++ [semiTok]).dropLast = t :: m' ++ Gap.toks g3 := by
          rw [show t :: (m' ++ Gap.toks g3) ++ [semiTok] = (t :: (m' ++ Gap.toks g3)) ++ [semiTok] from rfl,
            List.dropLast_concat]; simp
        simp only [impIdent, hs, ↓reduceIte, hup, l1, l2, hO']
        simp [semiTok, charTok, vSemi, hw]
      rcases ht with ht | ⟨ht1, ht2⟩
      · simp only [impStep, ht]
        rw [hident _ rfl rfl rfl]
        simp [parseLoop_nil]
      · have hns : t.val ≠ vSemi := by rw [ht2]; decide
        simp only [impStep, ht1, hns, and_false, ↓reduceIte, ht2, and_self]
        rw [hident _ rfl rfl rfl]
        simp [parseLoop_nil]
    | some pn =>
      obtain ⟨q, n, g4⟩ := pn
      have hnv := stringValue_quoteStr q n (h.nameWF _ rfl)
      have hup : upto .importmq (some t) ((m' ++ Gap.toks g3) ++ strTok q n :: (Gap.toks g4 ++ [semiTok])) =
          (t :: (m' ++ Gap.toks g3) ++ [strTok q n], Gap.toks g4 ++ [semiTok]) := by
        have := upto_start_end .importmq [] [] t (m' ++ Gap.toks g3) (strTok q n) (Gap.toks g4 ++ [semiTok]) rfl
          (by simpa using quiet_cons_start _ _ _ hq) (by simpa using nest_cons_start _ _ _ hn)
          (strTok_importmq q n).1 (strTok_importmq q n).2
        simpa using this
      have e : (t :: m' ++ Gap.toks g3) ++ (nameToks (some (q, n, g4)) ++ [semiTok]) =
          t :: ((m' ++ Gap.toks g3) ++ strTok q n :: (Gap.toks g4 ++ [semiTok])) := by
        simp [nameToks]
      rw [e, impLoop_cons]
      have hident : ∀ s : ImpSt, s.exp = .mediaNameSemi → s.wf = true →
          impIdent O s t ((m' ++ Gap.toks g3) ++ strTok q n :: (Gap.toks g4 ++ [semiTok])) =
            ({ s with media := some (t :: m' ++ Gap.toks g3), name := some n, exp := .semi },
              Gap.toks g4 ++ [semiTok]) := by
        intro s hs hw
        have l1 : (t :: (m' ++ Gap.toks g3) ++ [strTok q n]).getLast? = some (strTok q n) := by
          rw [show t :: (m' ++ Gap.toks g3) ++ [strTok q n] = (t :: (m' ++ Gap.toks g3)) ++ [strTok q n] from rfl,
            List.getLast?_concat]
        have l2 : (t :: (m' ++ Gap.toks g3) ++ [strTok q n]).dropLast = t :: m' ++ Gap.toks g3 := by
          rw [show t :: (m' ++ Gap.toks g3) ++ [strTok q n] = (t :: (m' ++ Gap.toks g3)) ++ [strTok q n] from rfl,
            List.dropLast_concat]; simp
        have hv : stringValue (strTok q n).val = n := hnv
        have hty : (strTok q n).typ = TT.string := rfl
        simp only [impIdent, hs, ↓reduceIte, hup, l1, l2, hO', hty, hv]
        simp [hw]
      have htail : ∀ s : ImpSt, s.exp = .semi →
          parseLoop (impStep O) s (Gap.toks g4 ++ [semiTok]) = { s with exp := .eof } := by
        intro s hs
        rw [parseLoop_skip_inv (impStep O) (fun s => s.exp ≠ .eof) _ _
          (fun t ht s rest hs => impStep_gap O t ((gapL_toks g4).isGap t ht) s rest hs) _ (by simp [hs])]
        rw [impLoop_cons]
        simp [impStep, semiTok, charTok, vSemi, parseLoop_nil, hs]
      rcases ht with ht | ⟨ht1, ht2⟩
      · simp only [impStep, ht]
        rw [hident _ rfl rfl]
        simp only
        rw [htail _ rfl]
        simp
      · have hns : t.val ≠ vSemi := by rw [ht2]; decide
        have hps : ¬ (vLParen = vSemi) := by decide
        simp only [impStep, ht1, hns, hps, and_false, ↓reduceIte, ht2, and_self]
        rw [hident _ rfl rfl]
        simp only
        rw [htail _ rfl]
        simp

/-- `CSSImportRule.cssText = tokens` on a rendered `@import` -/
theorem importRule_render (O : Oracle) (kw : Mask) (g1 : Gap) (href : SHref) (g2 : Gap)
    (mq : Option (List Tok × Gap)) (name : SName) (h : ImportWF O href mq name) :
    importRule O (SImp.import_ kw g1 href g2 mq name).toks =
      some ⟨href.value, mq.map (fun p => p.1 ++ Gap.toks p.2), name.map (·.2.1)⟩ := by
  have hne := h.ne
  simp only [SImp.toks, importRule, atTok, impLoop_render O g1 href g2 mq name h]
  simp [hne]

/-! ## `@namespace` -/

theorem nsStep_gap (t : Tok) (ht : isGapTok t = true) (s : NsSt) (rest : List Tok)
    (hs : s.exp ≠ .eof) : nsStep s t rest = (s, rest) := by
  simp only [isGapTok, Bool.or_eq_true, beq_iff_eq] at ht
  rcases ht with h | h <;> simp [nsStep, h, hs]

theorem nsStep_rest_le (s : NsSt) (t : Tok) (rest : List Tok) : (nsStep s t rest).2.length ≤ rest.length := by
  unfold nsStep
  split
  · split <;> simp
  · split <;> simp
  · split <;> simp
  · split <;> simp
  · split <;> simp
  · split <;> simp
  · split
    · simp
    · exact upto_rest_le _ _ _
  · simp
  · simp

theorem nsLoop_cons (s : NsSt) (t : Tok) (ts : List Tok) :
    parseLoop nsStep s (t :: ts) = parseLoop nsStep (nsStep s t ts).1 (nsStep s t ts).2 :=
  parseLoop_cons _ _ _ _ (nsStep_rest_le s t ts)

theorem nsStep_uri (r : SHref) (h : r.WF) (s : NsSt) (hs : s.exp = .prefixOrUri ∨ s.exp = .uri) (rest : List Tok) :
    nsStep s r.tok rest = ({ s with uri := some r.value, exp := .semi }, rest) := by
  have hv := href_value r h
  cases r with
  | str q t => simp only [SHref.tok] at hv ⊢; simp [nsStep, hv, hs]
  | url up pre post q t => simp only [SHref.tok] at hv ⊢; simp [nsStep, hv, hs]

theorem nsLoop_render (g1 : Gap) (pfx : Option (Cps × Gap)) (uri : SHref) (g2 : Gap) (h : uri.WF) :
    parseLoop nsStep {} (Gap.toks g1 ++ (nsPfxToks pfx ++ uri.tok :: (Gap.toks g2 ++ [semiTok]))) =
      { exp := .eof, pfx := (pfx.map (·.1)).getD [], uri := some uri.value } := by
  rw [parseLoop_skip_inv nsStep (fun s => s.exp ≠ .eof) _ _
    (fun t ht s rest hs => nsStep_gap t ((gapL_toks g1).isGap t ht) s rest hs) {} (by simp)]
  cases pfx with
  | none =>
    simp only [nsPfxToks, List.nil_append, Option.map_none, Option.getD_none]
    rw [nsLoop_cons, nsStep_uri uri h _ (Or.inl rfl)]
    simp only
    rw [parseLoop_skip_inv nsStep (fun s => s.exp ≠ .eof) _ _
      (fun t ht s rest hs => nsStep_gap t ((gapL_toks g2).isGap t ht) s rest hs) _ (by simp)]
    rw [nsLoop_cons]
    simp [nsStep, semiTok, charTok, vSemi, parseLoop_nil]
  | some p =>
    obtain ⟨pn, g⟩ := p
    simp only [nsPfxToks, Option.map_some, Option.getD_some, List.cons_append]
    rw [nsLoop_cons]
    simp only [nsStep, identTok, ↓reduceIte]
    rw [parseLoop_skip_inv nsStep (fun s => s.exp ≠ .eof) _ _
      (fun t ht s rest hs => nsStep_gap t ((gapL_toks g).isGap t ht) s rest hs) _ (by simp)]
    rw [nsLoop_cons, nsStep_uri uri h _ (Or.inr rfl)]
    simp only
    rw [parseLoop_skip_inv nsStep (fun s => s.exp ≠ .eof) _ _
      (fun t ht s rest hs => nsStep_gap t ((gapL_toks g2).isGap t ht) s rest hs) _ (by simp)]
    rw [nsLoop_cons]
    simp [nsStep, semiTok, charTok, vSemi, parseLoop_nil]

/-- `CSSNamespaceRule(cssText=tokens)` on a rendered `@namespace` -/
theorem nsRule_render (kw : Mask) (g1 : Gap) (pfx : Option (Cps × Gap)) (uri : SHref) (g2 : Gap)
    (h : uri.WF) :
    nsRule (SNs.namespace_ kw g1 pfx uri g2).toks = some ((pfx.map (·.1)).getD [], uri.value) := by
  simp only [SNs.toks, nsRule, atTok, nsLoop_render g1 pfx uri g2 h]
  simp

end CssVerif.SheetSpec
