import CssVerif.Lemmas.SelTokScan
import CssVerif.Model.SelText
/-!
# Names with simple escapes, non-ASCII code points and a leading `-`: IDENT, HASH, FUNCTION, DIMENSION

A name is cut into *items* of the production `{nmchar}`: a name code point (one code point) or a simple escape
(backslash + a code point that is no hex digit and no line break: two code points). Only the first success of the
greedy star is needed (`Re.first`), so the lemmas are about heads.
-/
namespace CssVerif.Tok
open CssVerif CssVerif.Gen.C05
open CssVerif.Sel (inRanges identStartR nameStartR identRestR hexR escOk nameBody plainName nameStopR uSecondR)

/-! ## heads of a greedy star -/

theorem starMs_greedy_ne_nil (f : Cps → List Nat) : ∀ (fuel : Nat) (s : Cps), Re.starMs f true fuel s ≠ [] := by
  intro fuel s
  cases fuel with
  | zero => simp [Re.starMs]
  | succ k => simp [Re.starMs]

theorem starMs_head_stop (f : Cps → List Nat) (fuel : Nat) (s : Cps) (hf : f s = []) :
    (Re.starMs f true (fuel + 1) s).head? = some 0 := by
  simp [Re.starMs, hf]

theorem starMs_head_step (f : Cps → List Nat) (fuel : Nat) (s : Cps) (k : Nat) (hk : 0 < k) (hf : f s = [k]) :
    (Re.starMs f true (fuel + 1) s).head? = ((Re.starMs f true fuel (s.drop k)).head?).map (k + ·) := by
  have hne := starMs_greedy_ne_nil f fuel (s.drop k)
  cases hm : Re.starMs f true fuel (s.drop k) with
  | nil => exact absurd hm hne
  | cons x xs =>
    have hfil : List.filter (fun x => decide (x > 0)) [k] = [k] := by simp [hk]
    simp [Re.starMs, hf, hfil, hm]

/-! ## one item of `{nmchar}` / `{nmstart}` -/

theorem inRest_cases {x : Nat} (h : inRanges identRestR x = true) :
    inR identRest x = true ∨ inR [(128, 1114111)] x = true := by
  simp only [inRanges, identRestR, List.any_cons, List.any_nil, Bool.or_false, Bool.or_eq_true, Bool.and_eq_true,
    decide_eq_true_eq] at h
  simp only [inR, identRest, List.any_cons, List.any_nil, Bool.or_false, Bool.or_eq_true, Bool.and_eq_true,
    decide_eq_true_eq]
  omega

theorem nmchar_ms_plain (x : Nat) (t : Cps) (hx : inRanges identRestR x = true) : nmcharRe.ms (x :: t) = [1] := by
  rcases inRest_cases hx with h | h
  · exact exactlyOne_sound identRest x h nmcharRe (by decide) t
  · exact exactlyOne_sound [(128, 1114111)] x h nmcharRe (by decide) t

theorem inStart_cases {x : Nat} (h : inRanges nameStartR x = true) :
    inR nameStart x = true ∨ inR [(128, 1114111)] x = true := by
  simp only [inRanges, nameStartR, List.any_cons, List.any_nil, Bool.or_false, Bool.or_eq_true, Bool.and_eq_true,
    decide_eq_true_eq] at h
  simp only [inR, nameStart, List.any_cons, List.any_nil, Bool.or_false, Bool.or_eq_true, Bool.and_eq_true,
    decide_eq_true_eq]
  omega

theorem nmstart_ms (x : Nat) (t : Cps) (hx : inRanges nameStartR x = true) : nmstartRe.ms (x :: t) = [1] := by
  rcases inStart_cases hx with h | h
  · exact exactlyOne_sound nameStart x h nmstartRe (by decide) t
  · exact exactlyOne_sound [(128, 1114111)] x h nmstartRe (by decide) t

theorem identStart_nameStart {x : Nat} (h : inRanges identStartR x = true) : inRanges nameStartR x = true := by
  simp only [inRanges, identStartR, nameStartR, List.any_cons, List.any_nil, Bool.or_false, Bool.or_eq_true,
    Bool.and_eq_true, decide_eq_true_eq] at h ⊢
  omega

/-- the part of `{nmchar}` after the backslash -/
def escTail : Re := match nmcharRe with
  | .alt _ (.alt _ (.seq _ e)) => e
  | _ => .eps
def escHex : Re := match escTail with
  | .alt (.seq h _) _ => h
  | _ => .eps
def escWs : Re := match escTail with
  | .alt (.seq _ w) _ => w
  | _ => .eps

theorem nmcharRe_form : nmcharRe = Re.alt (Re.cls false [(45, 45), (95, 95), (97, 122), (65, 90), (48, 57)])
    (Re.alt (Re.cls true [(0, 127)]) (Re.seq (Re.cls false [(92, 92)]) escTail)) := by decide

theorem escTail_form : escTail = Re.alt (Re.seq (Re.rep (Re.cls false [(48, 57), (65, 70), (97, 102)]) 1 6 true) escWs)
    (Re.cls true [(10, 10), (13, 13), (12, 12), (48, 57), (97, 102), (65, 70)]) := by decide

theorem escOk_facts {d : Nat} (h : escOk d = true) :
    Re.inCls false [(48, 57), (65, 70), (97, 102)] d = false ∧
    Re.inCls true [(10, 10), (13, 13), (12, 12), (48, 57), (97, 102), (65, 70)] d = true := by
  simp only [escOk, inRanges, hexR, List.any_cons, List.any_nil, Bool.or_false, Bool.and_eq_true, Bool.not_eq_true',
    Bool.or_eq_false_iff, Bool.and_eq_false_iff, decide_eq_false_iff_not, bne_iff_ne, ne_eq] at h
  constructor
  · simp [Re.inCls]; omega
  · simp [Re.inCls]; omega

theorem escOk_notHex {d : Nat} (h : escOk d = true) : isHex d = false := by
  simp only [escOk, inRanges, hexR, List.any_cons, List.any_nil, Bool.or_false, Bool.and_eq_true, Bool.not_eq_true',
    Bool.or_eq_false_iff, Bool.and_eq_false_iff, decide_eq_false_iff_not, bne_iff_ne, ne_eq] at h
  simp only [isHex, Bool.or_eq_false_iff, Bool.and_eq_false_iff, decide_eq_false_iff_not]
  omega

theorem escTail_ms (d : Nat) (t : Cps) (hd : escOk d = true) : escTail.ms (d :: t) = [1] := by
  obtain ⟨h1, h2⟩ := escOk_facts hd
  rw [escTail_form]
  simp [Re.ms, Re.repMs, h1, h2]

theorem nmchar_ms_esc (d : Nat) (t : Cps) (hd : escOk d = true) : nmcharRe.ms (92 :: d :: t) = [2] := by
  rw [nmcharRe_form]
  have hA : Re.inCls false [(45, 45), (95, 95), (97, 122), (65, 90), (48, 57)] 92 = false := by decide
  have hB : Re.inCls true [(0, 127)] 92 = false := by decide
  have hC : Re.inCls false [(92, 92)] 92 = true := by decide
  simp [Re.ms, hA, hB, hC, escTail_ms d t hd]

theorem nmstartRe_form : nmstartRe = Re.alt (Re.cls false [(95, 95), (97, 122), (65, 90)])
    (Re.alt (Re.cls true [(0, 127)]) (Re.seq (Re.cls false [(92, 92)]) escTail)) := by decide

theorem nmstart_ms_esc (d : Nat) (t : Cps) (hd : escOk d = true) : nmstartRe.ms (92 :: d :: t) = [2] := by
  rw [nmstartRe_form]
  have hA : Re.inCls false [(95, 95), (97, 122), (65, 90)] 92 = false := by decide
  have hB : Re.inCls true [(0, 127)] 92 = false := by decide
  have hC : Re.inCls false [(92, 92)] 92 = true := by decide
  simp [Re.ms, hA, hB, hC, escTail_ms d t hd]

/-- the first component of the URI and UNICODE-RANGE productions: `u`, `U` or one of their escapes -/
def uPart : Re := match reURI with
  | .seq a _ => a
  | _ => .eps
def uriRest : Re := match reURI with
  | .seq _ b => b
  | _ => .eps
def urangeRest : Re := match reUNICODE_RANGE with
  | .seq _ b => b
  | _ => .eps
def escWsOpt : Re := match uPart with
  | .alt _ (.alt _ (.alt (.seq _ (.seq _ (.seq _ w))) _)) => w
  | _ => .eps

theorem reURI_form : reURI = Re.seq uPart uriRest := by decide
theorem reUNICODE_RANGE_form : reUNICODE_RANGE = Re.seq uPart urangeRest := by decide
theorem uPart_form : uPart = Re.alt (Re.cls false [(85, 85)]) (Re.alt (Re.cls false [(117, 117)])
    (Re.alt (Re.seq (Re.cls false [(92, 92)]) (Re.seq (Re.rep (Re.cls false [(48, 48)]) 0 4 true)
        (Re.seq (Re.alt (Re.seq (Re.cls false [(53, 53)]) (Re.cls false [(53, 53)]))
          (Re.seq (Re.cls false [(55, 55)]) (Re.cls false [(53, 53)]))) escWsOpt)))
      (Re.alt (Re.seq (Re.cls false [(92, 92)]) (Re.cls false [(85, 85)]))
        (Re.seq (Re.cls false [(92, 92)]) (Re.cls false [(117, 117)]))))) := by decide

/-- a backslash followed by anything but a hex digit, `u`, `U` starts neither `url(` nor a unicode range -/
theorem uPart_ms_esc (d : Nat) (t : Cps) (hd : escOk d = true) (h85 : d ≠ 85) (h117 : d ≠ 117) :
    uPart.ms (92 :: d :: t) = [] := by
  have hhex := escOk_notHex hd
  simp only [isHex, Bool.or_eq_false_iff, Bool.and_eq_false_iff, decide_eq_false_iff_not] at hhex
  have h48 : Re.inCls false [(48, 48)] d = false := by simp [inCls_single]; omega
  have h53 : Re.inCls false [(53, 53)] d = false := by simp [inCls_single]; omega
  have h55 : Re.inCls false [(55, 55)] d = false := by simp [inCls_single]; omega
  have hU : Re.inCls false [(85, 85)] d = false := by simp [inCls_single, h85]
  have hu : Re.inCls false [(117, 117)] d = false := by simp [inCls_single, h117]
  have a1 : Re.inCls false [(85, 85)] 92 = false := by decide
  have a2 : Re.inCls false [(117, 117)] 92 = false := by decide
  have a3 : Re.inCls false [(92, 92)] 92 = true := by decide
  rw [uPart_form]
  simp [Re.ms, Re.repMs, h48, h53, h55, hU, hu, a1, a2, a3]

theorem uri_first_esc (d : Nat) (t : Cps) (hd : escOk d = true) (h85 : d ≠ 85) (h117 : d ≠ 117) :
    reURI.first (92 :: d :: t) = none ∧ reUNICODE_RANGE.first (92 :: d :: t) = none := by
  constructor
  · rw [reURI_form]; exact first_none_of_ms_nil (seq_ms_nil_left (uPart_ms_esc d t hd h85 h117))
  · rw [reUNICODE_RANGE_form]; exact first_none_of_ms_nil (seq_ms_nil_left (uPart_ms_esc d t hd h85 h117))

theorem uPart_ms_u (c : Nat) (hc : c = 85 ∨ c = 117) (t : Cps) : uPart.ms (c :: t) = [1] := by
  rw [uPart_form]
  rcases hc with rfl | rfl <;> simp [Re.ms, Re.inCls]

/-- `u` / `U` followed by a name code point other than `r` `R` starts neither `url(` nor a unicode range -/
theorem uri_first_u (c : Nat) (hc : c = 85 ∨ c = 117) (d : Nat) (t : Cps) (hd : inRanges uSecondR d = true) :
    reURI.first (c :: d :: t) = none ∧ reUNICODE_RANGE.first (c :: d :: t) = none := by
  have hd' : inR uSecondR d = true := hd
  constructor
  · rw [reURI_form]
    apply first_none_of_ms_nil
    apply seq_ms_nil
    intro l hl
    rw [uPart_ms_u c hc] at hl
    simp only [List.mem_cons, List.mem_nil_iff, or_false] at hl
    subst hl
    rw [List.drop_one, List.tail_cons]
    exact noStart_sound (by decide) hd' t
  · rw [reUNICODE_RANGE_form]
    apply first_none_of_ms_nil
    apply seq_ms_nil
    intro l hl
    rw [uPart_ms_u c hc] at hl
    simp only [List.mem_cons, List.mem_nil_iff, or_false] at hl
    subst hl
    rw [List.drop_one, List.tail_cons]
    exact noStart_sound (by decide) hd' t

/-! ## the body of a name -/

theorem nameBody_cons {c : Nat} {t : Cps} (h : nameBody (c :: t) = true) (hc : c ≠ 92) :
    inRanges identRestR c = true ∧ nameBody t = true := by
  cases t with
  | nil => exact ⟨by simpa [nameBody] using h, rfl⟩
  | cons d u =>
    have hc' : (c == 92) = false := by simpa using hc
    simpa [nameBody, hc'] using h

theorem nameBody_esc {t : Cps} (h : nameBody (92 :: t) = true) :
    ∃ d u, t = d :: u ∧ escOk d = true ∧ nameBody u = true := by
  cases t with
  | nil => exact absurd h (by decide)
  | cons d u => exact ⟨d, u, rfl, by simpa [nameBody] using h⟩

/-- the greedy `{nmchar}*` on a name body stops behind it -/
theorem star_body_head (stops : List (Nat × Nat)) (hns : noStart stops nmcharRe = true) :
    ∀ (n : Nat) (cs : Cps), cs.length ≤ n → nameBody cs = true → ∀ (stop : Cps) (fuel : Nat),
      HeadIn (fun x => inR stops x = true) stop → (cs ++ stop).length < fuel →
      (Re.starMs nmcharRe.ms true fuel (cs ++ stop)).head? = some cs.length := by
  intro n
  induction n with
  | zero =>
    intro cs hl _ stop fuel hs hf
    have : cs = [] := by cases cs <;> simp_all
    subst this
    obtain ⟨k, rfl⟩ : ∃ k, fuel = k + 1 := ⟨fuel - 1, by omega⟩
    exact starMs_head_stop _ _ _ (ms_nil_of_headIn hns (by decide) hs)
  | succ n ih =>
    intro cs hl hb stop fuel hs hf
    obtain ⟨k, rfl⟩ : ∃ k, fuel = k + 1 := ⟨fuel - 1, by omega⟩
    cases cs with
    | nil => exact starMs_head_stop _ _ _ (ms_nil_of_headIn hns (by decide) hs)
    | cons c t =>
      by_cases hc : c = 92
      · subst hc
        obtain ⟨d, u, rfl, hd, hu⟩ := nameBody_esc hb
        simp only [List.length_cons, List.cons_append, List.length_append] at hl hf ⊢
        rw [starMs_head_step _ k _ 2 (by decide) (nmchar_ms_esc d (u ++ stop) hd)]
        simp only [List.drop_succ_cons, List.drop_zero]
        rw [ih u (by omega) hu stop k hs (by simp; omega)]
        simp; omega
      · obtain ⟨hcr, ht⟩ := nameBody_cons hb hc
        simp only [List.length_cons, List.cons_append, List.length_append] at hl hf ⊢
        rw [starMs_head_step _ k _ 1 (by decide) (nmchar_ms_plain c (t ++ stop) hcr)]
        simp only [List.drop_succ_cons, List.drop_zero]
        rw [ih t (by omega) ht stop k hs (by simp; omega)]
        simp; omega

theorem star_body_first (stops : List (Nat × Nat)) (hns : noStart stops nmcharRe = true) (cs stop : Cps)
    (hb : nameBody cs = true) (hs : HeadIn (fun x => inR stops x = true) stop) :
    (Re.star nmcharRe true).first (cs ++ stop) = some cs.length :=
  star_body_head stops hns cs.length cs (Nat.le_refl _) hb stop _ hs (Nat.lt_succ_self _)

/-! ## the value of a name is its spelling -/

theorem unescape_cons_plain (c : Nat) (t : Cps) (h : c ≠ 92) : unescape (c :: t) = c :: unescape t := by
  show unescapeF (t.length + 1) (c :: t) = _
  simp only [unescapeF, h, ne_eq, not_false_eq_true, if_true]
  rfl

theorem unescape_cons_pair (t : Cps) : unescape (92 :: 92 :: t) = 92 :: 92 :: unescape t := by
  show unescapeF (t.length + 1 + 1) (92 :: 92 :: t) = _
  simp only [unescapeF, ne_eq, not_true_eq_false, if_false, if_true]
  rw [unescapeF_fuel _ _ (Nat.le_succ _)]

theorem unescape_cons_simple (d : Nat) (u : Cps) (h1 : d ≠ 92) (h2 : isHex d = false) :
    unescape (92 :: d :: u) = 92 :: unescape (d :: u) := by
  show unescapeF ((d :: u).length + 1) (92 :: d :: u) = 92 :: unescapeF (d :: u).length (d :: u)
  rw [unescapeF]
  simp [h1, h2]

theorem unescape_body : ∀ (n : Nat) (cs : Cps), cs.length ≤ n → nameBody cs = true → unescape cs = cs := by
  intro n
  induction n with
  | zero => intro cs hl _; have : cs = [] := by cases cs <;> simp_all
            subst this; rfl
  | succ n ih =>
    intro cs hl hb
    cases cs with
    | nil => rfl
    | cons c t =>
      by_cases hc : c = 92
      · subst hc
        obtain ⟨d, u, rfl, hd, hu⟩ := nameBody_esc hb
        simp only [List.length_cons] at hl
        by_cases hd92 : d = 92
        · subst hd92
          rw [unescape_cons_pair, ih u (by omega) hu]
        · rw [unescape_cons_simple d u hd92 (escOk_notHex hd), unescape_cons_plain d u hd92, ih u (by omega) hu]
      · obtain ⟨_, ht⟩ := nameBody_cons hb hc
        simp only [List.length_cons] at hl
        rw [unescape_cons_plain c t hc, ih t (by omega) ht]

theorem ne92_of_ranges {rs : List (Nat × Nat)} (h : inRanges rs 92 = false) {c : Nat} (hc : inRanges rs c = true) :
    c ≠ 92 := by
  intro e; rw [e, h] at hc; cases hc

/-- the shape of a plain name: an optional `-`, a start code point, a body -/
theorem plainName_shape2 {v : Cps} (h : plainName v = true) :
    (∃ c cs, v = c :: cs ∧ c ≠ 45 ∧ inRanges nameStartR c = true ∧ nameBody cs = true ∧
      (inRanges identStartR c = true ∨ ((c = 85 ∨ c = 117) ∧ ∃ d u, cs = d :: u ∧ inRanges uSecondR d = true))) ∨
    (∃ c cs, v = 45 :: c :: cs ∧ inRanges nameStartR c = true ∧ nameBody cs = true) ∨
    (∃ d u, v = 92 :: d :: u ∧ escOk d = true ∧ d ≠ 85 ∧ d ≠ 117 ∧ nameBody u = true) := by
  cases v with
  | nil => simp [plainName] at h
  | cons c t =>
    cases t with
    | nil =>
      left
      have hc : inRanges identStartR c = true := by simpa [plainName] using h
      refine ⟨c, [], rfl, ?_, identStart_nameStart hc, rfl, Or.inl hc⟩
      intro e; rw [e] at hc; revert hc; decide
    | cons d u =>
      by_cases hc : c = 45
      · subst hc
        right; left
        exact ⟨d, u, rfl, by simpa [plainName] using h⟩
      · have hc' : (c == 45) = false := by simpa using hc
        by_cases hc2 : c = 92
        · subst hc2
          right; right
          have : ((escOk d = true ∧ ¬ d = 85) ∧ ¬ d = 117) ∧ nameBody u = true := by simpa [plainName] using h
          exact ⟨d, u, rfl, this.1.1.1, this.1.1.2, this.1.2, this.2⟩
        · left
          have hc2' : (c == 92) = false := by simpa using hc2
          by_cases hcu : c = 85 ∨ c = 117
          · have hcu' : (c == 85 || c == 117) = true := by simpa using hcu
            have hh : inRanges uSecondR d = true ∧ nameBody (d :: u) = true := by
              simpa [plainName, hc', hc2', hcu'] using h
            exact ⟨c, d :: u, rfl, hc, by rcases hcu with rfl | rfl <;> decide, hh.2, Or.inr ⟨hcu, d, u, rfl, hh.1⟩⟩
          · have hcu' : (c == 85 || c == 117) = false := by
              simp only [not_or] at hcu
              simp [hcu.1, hcu.2]
            have hh : inRanges identStartR c = true ∧ nameBody (d :: u) = true := by
              simpa [plainName, hc', hc2', hcu'] using h
            exact ⟨c, d :: u, rfl, hc, identStart_nameStart hh.1, hh.2, Or.inl hh.1⟩

theorem unescape_esc_start (d : Nat) (u tl : Cps) (hd : escOk d = true) (h : unescape (u ++ tl) = u ++ tl) :
    unescape (92 :: d :: u ++ tl) = 92 :: d :: u ++ tl := by
  simp only [List.cons_append]
  by_cases hd92 : d = 92
  · subst hd92
    rw [unescape_cons_pair, h]
  · rw [unescape_cons_simple d _ hd92 (escOk_notHex hd), unescape_cons_plain d _ hd92, h]

theorem unescape_name {v : Cps} (h : plainName v = true) : unescape v = v := by
  rcases plainName_shape2 h with ⟨c, cs, rfl, _, hc, hb, _⟩ | ⟨c, cs, rfl, hc, hb⟩ | ⟨d, u, rfl, hd, _, _, hb⟩
  · rw [unescape_cons_plain c cs (ne92_of_ranges (by decide) hc), unescape_body _ cs (Nat.le_refl _) hb]
  · rw [unescape_cons_plain 45 _ (by decide), unescape_cons_plain c cs (ne92_of_ranges (by decide) hc),
      unescape_body _ cs (Nat.le_refl _) hb]
  · have := unescape_esc_start d u [] hd (by simpa using unescape_body _ u (Nat.le_refl _) hb)
    simpa using this

theorem unescape_body_append (tl : Cps) (htl : unescape tl = tl) : ∀ (n : Nat) (cs : Cps), cs.length ≤ n →
    nameBody cs = true → unescape (cs ++ tl) = cs ++ tl := by
  intro n
  induction n with
  | zero => intro cs hl _; have : cs = [] := by cases cs <;> simp_all
            subst this; exact htl
  | succ n ih =>
    intro cs hl hb
    cases cs with
    | nil => exact htl
    | cons c t =>
      by_cases hc : c = 92
      · subst hc
        obtain ⟨d, u, rfl, hd, hu⟩ := nameBody_esc hb
        simp only [List.length_cons] at hl
        simp only [List.cons_append]
        by_cases hd92 : d = 92
        · subst hd92
          rw [unescape_cons_pair, ih u (by omega) hu]
        · rw [unescape_cons_simple d _ hd92 (escOk_notHex hd), unescape_cons_plain d _ hd92, ih u (by omega) hu]
      · obtain ⟨_, ht⟩ := nameBody_cons hb hc
        simp only [List.length_cons] at hl
        simp only [List.cons_append]
        rw [unescape_cons_plain c _ hc, ih t (by omega) ht]

/-- the value of a FUNCTION token `name(` is its spelling -/
theorem unescape_name_paren {v : Cps} (h : plainName v = true) : unescape (v ++ [40]) = v ++ [40] := by
  have h40 : unescape [40] = [40] := by decide
  rcases plainName_shape2 h with ⟨c, cs, rfl, _, hc, hb, _⟩ | ⟨c, cs, rfl, hc, hb⟩ | ⟨d, u, rfl, hd, _, _, hb⟩
  · rw [List.cons_append, unescape_cons_plain c _ (ne92_of_ranges (by decide) hc),
      unescape_body_append [40] h40 _ cs (Nat.le_refl _) hb]
  · rw [List.cons_append, List.cons_append, unescape_cons_plain 45 _ (by decide),
      unescape_cons_plain c _ (ne92_of_ranges (by decide) hc), unescape_body_append [40] h40 _ cs (Nat.le_refl _) hb]
  · exact unescape_esc_start d u [40] hd (unescape_body_append [40] h40 _ u (Nat.le_refl _) hb)

theorem unescape_append_plain : ∀ (ds v : Cps), (∀ c ∈ ds, c ≠ 92) → unescape (ds ++ v) = ds ++ unescape v := by
  intro ds
  induction ds with
  | nil => intro v _; rfl
  | cons c t ih =>
    intro v h
    rw [List.cons_append, unescape_cons_plain c _ (h c (by simp)), ih v (fun x hx => h x (List.mem_cons_of_mem _ hx))]
    rfl

/-! ## IDENT / FUNCTION / HASH / DIMENSION on names -/

theorem dashOpt_ms_dash (c : Nat) (t : Cps) (h : c ≠ 45) : dashOpt.ms (45 :: c :: t) = [1, 0] := by
  have h1 : Re.inCls false [(45, 45)] c = false := by simp [inCls_single, h]
  have h2 : Re.inCls false [(45, 45)] 45 = true := by decide
  simp [dashOpt, Re.ms, Re.repMs, h1, h2]

/-- `{ident}` on a plain name followed by a stop -/
theorem name_first (stops : List (Nat × Nat)) (hns : noStart stops nmcharRe = true) (v stop : Cps)
    (hv : plainName v = true) (hs : HeadIn (fun x => inR stops x = true) stop) :
    reIDENT.first (v ++ stop) = some v.length := by
  rw [reIDENT_eq]
  rcases plainName_shape2 hv with ⟨c, cs, rfl, hc45, hc, hb, _⟩ | ⟨c, cs, rfl, hc, hb⟩ | ⟨d, u, rfl, hd, _, _, hb⟩
  rotate_left 2
  · have e0 : (92 :: d :: u).length = 0 + (2 + u.length) := by simp; omega
    rw [e0, List.cons_append, List.cons_append]
    apply first_seq_some (first_of_ms_cons (dashOpt_ms 92 _ (by decide)))
    rw [List.drop_zero]
    apply first_seq_some (first_of_ms_cons (nmstart_ms_esc d _ hd))
    simp only [List.drop_succ_cons, List.drop_zero]
    exact star_body_first stops hns u stop hb hs
  · have e0 : (c :: cs).length = 0 + (1 + cs.length) := by simp; omega
    rw [e0, List.cons_append]
    apply first_seq_some (first_of_ms_cons (dashOpt_ms c _ hc45))
    rw [List.drop_zero]
    apply first_seq_some (first_of_ms_cons (nmstart_ms c _ hc))
    rw [List.drop_one, List.tail_cons]
    exact star_body_first stops hns cs stop hb hs
  · have hc45 : c ≠ 45 := by intro e; rw [e] at hc; revert hc; decide
    have e0 : (45 :: c :: cs).length = 1 + (1 + cs.length) := by simp; omega
    rw [e0, List.cons_append, List.cons_append]
    apply first_seq_some (first_of_ms_cons (dashOpt_ms_dash c _ hc45))
    rw [List.drop_one, List.tail_cons]
    apply first_seq_some (first_of_ms_cons (nmstart_ms c _ hc))
    rw [List.drop_one, List.tail_cons]
    exact star_body_first stops hns cs stop hb hs

/-- first code points of plain names that do not start with an escape -/
def nameHeads0 : List (Nat × Nat) := [(45, 45), (65, 84), (86, 90), (95, 95), (97, 116), (118, 122), (128, 1114111)]
/-- first code points of plain names -/
def nameHeads : List (Nat × Nat) := (92, 92) :: (85, 85) :: (117, 117) :: nameHeads0

theorem nameHeads_cases {c : Nat} (h : inR nameHeads c = true) :
    c = 92 ∨ (c = 85 ∨ c = 117) ∨ inR nameHeads0 c = true := by
  simp only [nameHeads, inR, List.any_cons, Bool.or_eq_true, Bool.and_eq_true, decide_eq_true_eq] at h
  rcases h with h | h | h | h
  · left; omega
  · right; left; left; omega
  · right; left; right; omega
  · right; right; simpa [inR] using h

theorem plainName_head {v : Cps} (h : plainName v = true) : ∃ c t, v = c :: t ∧ inR nameHeads c = true := by
  rcases plainName_shape2 h with ⟨c, cs, rfl, _, hc, _⟩ | ⟨c, cs, rfl, _, _⟩ | ⟨d, u, rfl, _⟩
  rotate_left 2
  · exact ⟨92, d :: u, rfl, by decide⟩
  · refine ⟨c, cs, rfl, ?_⟩
    simp only [inRanges, nameStartR, List.any_cons, List.any_nil, Bool.or_false, Bool.or_eq_true, Bool.and_eq_true,
      decide_eq_true_eq] at hc
    simp only [inR, nameHeads, nameHeads0, List.any_cons, List.any_nil, Bool.or_false, Bool.or_eq_true, Bool.and_eq_true,
      decide_eq_true_eq]
    omega
  · exact ⟨45, c :: cs, rfl, by decide⟩

/-- **IDENT**: a plain name followed by the end of the text or a `nameStops` code point -/
theorem scan_name_ident (doC : Bool) (v stop : Cps) (hv : plainName v = true)
    (hs : HeadIn (fun x => inR nameStops x = true) stop) :
    scan false doC (v ++ stop) productions = .hit "IDENT" v.length := by
  obtain ⟨c, t, rfl, hc⟩ := plainName_head hv
  have hpre : scan false doC (c :: t ++ stop) productions =
      scan false doC (c :: (t ++ stop)) (("IDENT", reIDENT) :: productions.drop 4) := by
    rcases nameHeads_cases hc with rfl | hcu | hc0
    · rcases plainName_shape2 hv with ⟨c', cs, e, _, hc', _⟩ | ⟨c', cs, e, _, _⟩ | ⟨d, u, e, hd, h85, h117, _⟩
      · simp only [List.cons.injEq] at e; rw [← e.1] at hc'; exact absurd hc' (by decide)
      · simp only [List.cons.injEq] at e; exact absurd e.1 (by decide)
      · simp only [List.cons.injEq] at e
        obtain ⟨_, rfl⟩ := e
        have hsplit : productions = ("S", reS) :: ("URI", reURI) :: ("UNICODE-RANGE", reUNICODE_RANGE) ::
            ("IDENT", reIDENT) :: productions.drop 4 := by decide
        have hu := uri_first_esc d (u ++ stop) hd h85 h117
        conv => lhs; rw [hsplit]
        rw [List.cons_append, List.cons_append,
          scan_false_none (first_none_of_noStart (cs := [(92, 92)]) (by decide) (by decide) _),
          scan_false_none hu.1, scan_false_none hu.2]
    · rcases plainName_shape2 hv with ⟨c', cs, e, _, _, _, hor⟩ | ⟨c', cs, e, _, _⟩ | ⟨d, u, e, _⟩
      · simp only [List.cons.injEq] at e
        obtain ⟨rfl, rfl⟩ := e
        rcases hor with hi | ⟨_, d, u, rfl, hd⟩
        · rcases hcu with rfl | rfl <;> exact absurd hi (by decide)
        · have hsplit : productions = ("S", reS) :: ("URI", reURI) :: ("UNICODE-RANGE", reUNICODE_RANGE) ::
              ("IDENT", reIDENT) :: productions.drop 4 := by decide
          have hu := uri_first_u c hcu d (u ++ stop) hd
          have hcr : inR [(85, 85), (117, 117)] c = true := by rcases hcu with rfl | rfl <;> decide
          conv => lhs; rw [hsplit]
          rw [List.cons_append, List.cons_append,
            scan_false_none (first_none_of_noStart (cs := [(85, 85), (117, 117)]) (by decide) hcr _),
            scan_false_none hu.1, scan_false_none hu.2]
      · simp only [List.cons.injEq] at e; rcases hcu with rfl | rfl <;> exact absurd e.1 (by decide)
      · simp only [List.cons.injEq] at e; rcases hcu with rfl | rfl <;> exact absurd e.1 (by decide)
    · have hsplit : productions = productions.take 3 ++ (("IDENT", reIDENT) :: productions.drop 4) := by decide
      conv => lhs; rw [hsplit]
      rw [List.cons_append, scan_false_reject hc0 _ _ _ (by decide)]
  rw [hpre]
  have hf := name_first nameStops (by decide) (c :: t) stop hv hs
  rw [List.cons_append] at hf
  apply scan_false_hit hf
  have hget : (c :: (t ++ stop))[(c :: t).length]? ≠ some 40 := by
    have : (c :: (t ++ stop))[(c :: t).length]? = stop[0]? := by
      rw [← List.cons_append, List.getElem?_append_right (Nat.le_refl _)]; simp
    rw [this]
    exact head_ne_of_headIn hs (by decide)
  simp only [identContinue, Bool.and_eq_false_iff]
  right
  simpa using hget

/-- **FUNCTION**: a plain name other than `and` (any case) directly followed by `(` — whatever follows -/
theorem scan_name_function (doC : Bool) (v rest : Cps) (hv : plainName v = true)
    (hand : (pyLower v != andWord) = true) :
    scan false doC (v ++ 40 :: rest) productions = .hit "FUNCTION" (v.length + 1) := by
  have hstop : HeadIn (fun x => inR [(40, 40)] x = true) (40 :: rest) := Or.inr ⟨40, rest, rfl, by decide⟩
  obtain ⟨c, t, rfl, hc⟩ := plainName_head hv
  have hpre : scan false doC (c :: t ++ 40 :: rest) productions =
      scan false doC (c :: (t ++ 40 :: rest)) (("IDENT", reIDENT) :: ("FUNCTION", reFUNCTION) :: productions.drop 5) := by
    rcases nameHeads_cases hc with rfl | hcu | hc0
    · rcases plainName_shape2 hv with ⟨c', cs, e, _, hc', _⟩ | ⟨c', cs, e, _, _⟩ | ⟨d, u, e, hd, h85, h117, _⟩
      · simp only [List.cons.injEq] at e; rw [← e.1] at hc'; exact absurd hc' (by decide)
      · simp only [List.cons.injEq] at e; exact absurd e.1 (by decide)
      · simp only [List.cons.injEq] at e
        obtain ⟨_, rfl⟩ := e
        have hsplit : productions = ("S", reS) :: ("URI", reURI) :: ("UNICODE-RANGE", reUNICODE_RANGE) ::
            ("IDENT", reIDENT) :: ("FUNCTION", reFUNCTION) :: productions.drop 5 := by decide
        have hu := uri_first_esc d (u ++ 40 :: rest) hd h85 h117
        conv => lhs; rw [hsplit]
        rw [List.cons_append, List.cons_append,
          scan_false_none (first_none_of_noStart (cs := [(92, 92)]) (by decide) (by decide) _),
          scan_false_none hu.1, scan_false_none hu.2]
    · rcases plainName_shape2 hv with ⟨c', cs, e, _, _, _, hor⟩ | ⟨c', cs, e, _, _⟩ | ⟨d, u, e, _⟩
      · simp only [List.cons.injEq] at e
        obtain ⟨rfl, rfl⟩ := e
        rcases hor with hi | ⟨_, d, u, rfl, hd⟩
        · rcases hcu with rfl | rfl <;> exact absurd hi (by decide)
        · have hsplit : productions = ("S", reS) :: ("URI", reURI) :: ("UNICODE-RANGE", reUNICODE_RANGE) ::
              ("IDENT", reIDENT) :: ("FUNCTION", reFUNCTION) :: productions.drop 5 := by decide
          have hu := uri_first_u c hcu d (u ++ 40 :: rest) hd
          have hcr : inR [(85, 85), (117, 117)] c = true := by rcases hcu with rfl | rfl <;> decide
          conv => lhs; rw [hsplit]
          rw [List.cons_append, List.cons_append,
            scan_false_none (first_none_of_noStart (cs := [(85, 85), (117, 117)]) (by decide) hcr _),
            scan_false_none hu.1, scan_false_none hu.2]
      · simp only [List.cons.injEq] at e; rcases hcu with rfl | rfl <;> exact absurd e.1 (by decide)
      · simp only [List.cons.injEq] at e; rcases hcu with rfl | rfl <;> exact absurd e.1 (by decide)
    · have hsplit : productions = productions.take 3 ++
          (("IDENT", reIDENT) :: ("FUNCTION", reFUNCTION) :: productions.drop 5) := by decide
      conv => lhs; rw [hsplit]
      rw [List.cons_append, scan_false_reject hc0 _ _ _ (by decide)]
  rw [hpre]
  have hid := name_first [(40, 40)] (by decide) (c :: t) (40 :: rest) hv hstop
  rw [List.cons_append] at hid
  have htake : (c :: (t ++ 40 :: rest)).take (c :: t).length = c :: t := by
    rw [← List.cons_append, List.take_left']; rfl
  have hget : (c :: (t ++ 40 :: rest))[(c :: t).length]? = some 40 := by
    rw [← List.cons_append, List.getElem?_append_right (Nat.le_refl _)]; simp
  have hlt : (c :: t).length < (c :: (t ++ 40 :: rest)).length := by simp
  rw [scan_false_skip hid (by simp only [identContinue, htake, hand, hget, hlt]; simp)]
  apply scan_false_hit
  · rw [reFUNCTION_eq, ← List.cons_append]
    rcases plainName_shape2 hv with ⟨c', cs, e, hc45, hc', hb, _⟩ | ⟨c', cs, e, hc', hb⟩ | ⟨d, u, e, hd, _, _, hb⟩
    rotate_left 2
    · rw [e]
      have e0 : (92 :: d :: u).length + 1 = 0 + (2 + (u.length + 1)) := by simp; omega
      rw [e0, List.cons_append, List.cons_append]
      apply first_seq_some (first_of_ms_cons (dashOpt_ms 92 _ (by decide)))
      rw [List.drop_zero]
      apply first_seq_some (first_of_ms_cons (nmstart_ms_esc d _ hd))
      simp only [List.drop_succ_cons, List.drop_zero]
      apply first_seq_some (star_body_first [(40, 40)] (by decide) u (40 :: rest) hb hstop)
      rw [List.drop_left' rfl, first_cls_cons]; decide
    · rw [e]
      have e0 : (c' :: cs).length + 1 = 0 + (1 + (cs.length + 1)) := by simp; omega
      rw [e0, List.cons_append]
      apply first_seq_some (first_of_ms_cons (dashOpt_ms c' _ hc45))
      rw [List.drop_zero]
      apply first_seq_some (first_of_ms_cons (nmstart_ms c' _ hc'))
      rw [List.drop_one, List.tail_cons]
      apply first_seq_some (star_body_first [(40, 40)] (by decide) cs (40 :: rest) hb hstop)
      rw [List.drop_left' rfl, first_cls_cons]; decide
    · rw [e]
      have hc45 : c' ≠ 45 := by intro e'; rw [e'] at hc'; revert hc'; decide
      have e0 : (45 :: c' :: cs).length + 1 = 1 + (1 + (cs.length + 1)) := by simp; omega
      rw [e0, List.cons_append, List.cons_append]
      apply first_seq_some (first_of_ms_cons (dashOpt_ms_dash c' _ hc45))
      rw [List.drop_one, List.tail_cons]
      apply first_seq_some (first_of_ms_cons (nmstart_ms c' _ hc'))
      rw [List.drop_one, List.tail_cons]
      apply first_seq_some (star_body_first [(40, 40)] (by decide) cs (40 :: rest) hb hstop)
      rw [List.drop_left' rfl, first_cls_cons]; decide
  · simp [identContinue]

/-- **HASH**: `#` and a non-empty name body, followed by the end of the text or a `nameStops` code point -/
theorem scan_name_hash (doC : Bool) (n : Nat) (ns stop : Cps) (hb : nameBody (n :: ns) = true)
    (hs : HeadIn (fun x => inR nameStops x = true) stop) :
    scan false doC (35 :: n :: ns ++ stop) productions = .hit "HASH" (35 :: n :: ns).length := by
  have hsplit : productions = productions.take 8 ++ (("HASH", reHASH) :: productions.drop 9) := by decide
  rw [hsplit, List.cons_append, scan_false_reject (cs := [(35, 35)]) (by decide) _ _ _ (by decide)]
  apply scan_false_hit
  · rw [reHASH_eq, first_seq_cls_cons]
    have h35 : Re.inCls false [(35, 35)] 35 = true := by decide
    simp only [h35, if_true]
    by_cases hn : n = 92
    · subst hn
      obtain ⟨d, u, rfl, hd, hu⟩ := nameBody_esc hb
      have : (Re.seq nmcharRe (Re.star nmcharRe true)).first (92 :: d :: u ++ stop) = some (2 + u.length) := by
        apply first_seq_some (first_of_ms_cons (nmchar_ms_esc d (u ++ stop) hd))
        simp only [List.cons_append, List.drop_succ_cons, List.drop_zero]
        exact star_body_first nameStops (by decide) u stop hu hs
      rw [this]
      simp only [Option.map_some, List.length_cons]
      congr 1; omega
    · obtain ⟨hnr, hns⟩ := nameBody_cons hb hn
      have : (Re.seq nmcharRe (Re.star nmcharRe true)).first (n :: ns ++ stop) = some (1 + ns.length) := by
        apply first_seq_some (first_of_ms_cons (nmchar_ms_plain n (ns ++ stop) hnr))
        simp only [List.cons_append, List.drop_succ_cons, List.drop_zero]
        exact star_body_first nameStops (by decide) ns stop hns hs
      rw [this]
      simp only [Option.map_some, List.length_cons]
      congr 1; omega
  · simp [identContinue]

/-- what may follow the digits of a DIMENSION: the first code point of its unit -/
theorem numStop_name {v stop : Cps} (hv : plainName v = true) : NumStop nameHeads (v ++ stop) := by
  obtain ⟨c, t, rfl, hc⟩ := plainName_head hv
  exact ⟨Or.inr ⟨c, t ++ stop, rfl, hc⟩, by decide, by decide⟩

/-- **DIMENSION**: ASCII digits, then a plain name, then the end of the text or a `nameStops` code point -/
theorem scan_name_dimension (doC : Bool) (d : Nat) (ds v stop : Cps) (hd : ∀ x ∈ d :: ds, isDigit x = true)
    (hv : plainName v = true) (hst : HeadIn (fun x => inR nameStops x = true) stop) :
    scan false doC (d :: ds ++ (v ++ stop)) productions = .hit "DIMENSION" ((d :: ds).length + v.length) := by
  have hd0 : inR [(48, 57)] d = true := by
    have := hd d (by simp); simpa [inR, isDigit] using this
  have hsplit : productions = productions.take 5 ++ (("DIMENSION", reDIMENSION) :: productions.drop 6) := by decide
  rw [hsplit, List.cons_append, scan_false_reject hd0 _ _ _ (by decide)]
  apply scan_false_hit
  · rw [reDIMENSION_eq]
    apply first_seq_some (numRe_first d ds _ hd (numStop_name hv))
    rw [drop_length_append]
    exact name_first nameStops (by decide) v stop hv hst
  · simp [identContinue]

/-- **signed DIMENSION** `+3n`, `-2n`: a sign, ASCII digits, a plain name, then the end or a `nameStops` code point -/
theorem scan_signed_dimension (doC : Bool) (sg : Nat) (hsg : sg = 43 ∨ sg = 45) (d : Nat) (ds v stop : Cps)
    (hd : ∀ x ∈ d :: ds, isDigit x = true) (hv : plainName v = true)
    (hst : HeadIn (fun x => inR nameStops x = true) stop) :
    scan false doC (sg :: (d :: ds ++ (v ++ stop))) productions =
      .hit "DIMENSION" ((d :: ds).length + 1 + v.length) := by
  have hcc : inR [(43, 43), (45, 45)] sg = true := by rcases hsg with rfl | rfl <;> decide
  have hd0 : isDigit d = true := hd d (by simp)
  have hsplit : productions = productions.take 3 ++ (("IDENT", reIDENT) :: ("FUNCTION", reFUNCTION) ::
      ("DIMENSION", reDIMENSION) :: productions.drop 6) := by decide
  rw [hsplit, scan_false_reject hcc _ _ _ (by decide)]
  rw [scan_false_none (first_none_of_ms_nil (by
    rw [reIDENT_eq, List.cons_append]; exact noname_signed sg hsg d _ hd0 _))]
  rw [scan_false_none (first_none_of_ms_nil (by
    rw [reFUNCTION_eq, List.cons_append]; exact noname_signed sg hsg d _ hd0 _))]
  apply scan_false_hit
  · rw [reDIMENSION_eq]
    apply first_seq_some (numRe_first_signed sg hsg d ds _ hd (numStop_name hv))
    have : (sg :: (d :: ds ++ (v ++ stop))).drop ((d :: ds).length + 1) = v ++ stop := by
      rw [List.drop_succ_cons, drop_length_append]
    rw [this]
    exact name_first nameStops (by decide) v stop hv hst
  · simp [identContinue]

end CssVerif.Tok
