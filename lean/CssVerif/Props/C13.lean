import CssVerif.Lemmas.Validate
import CssVerif.Lemmas.ValidateGen
import CssVerif.Model.ValidateReg
import CssVerif.Model.Css21Keywords
import CssVerif.Lemmas.ValueText
import CssVerif.Lemmas.ValidateColor
import CssVerif.Model.OutPrefs
/-!
# C13 — the validation verdict depends only on name, value, profiles; validation only annotates

Property theorems only (helpers: `Lemmas/Validate.lean`). Model: `Model/Validate.lean` (hand transcription of
`Profiles.validate/validateWithProfile`, `Property.validate`, the `valid` conjunctions and the `validOnly`
guard), `Model/ValidateReg.lean` + `Gen/C13Profiles.lean` (the registry regenerated from `cssutils/profiles.py`),
`Model/Css21Keywords.lean` (reference keyword lists typed from the CSS 2.1 Recommendation).
Tied to the code by the translator cross-check and the correspondence of `tools/harness/c13.py`.
-/
namespace CssVerif.C13
open CssVerif CssVerif.Validate CssVerif.Proto

set_option maxRecDepth 100000

/-! ## T13.1 — the verdict is a function of (name, value text, priority, @font-face context, registry) -/

/-- T13.1 `verdict_factors` (declarative form). For every registry, every acceptance function, every property:
`Property.valid` is `True` iff name and value text are non-empty, the priority is `''`/`'important'`, and some
ACTIVE profile (inside `@font-face`: the font-face profile; else the default profiles) has a check for the name
that accepts the value text. Nothing else of the property (literal spelling, comments, how it was created) is an
input of the model's verdict: `propValid` takes the projection `Prop'` only. Hypothesis: the active profiles are
registered (otherwise the code raises `KeyError`, which the model mirrors). -/
theorem verdict_factors {π : Type} (acc : π → Str → Option Bool) (reg : Registry π) (ff : Str) (fontFace : Bool)
    (p : Prop') (hreg : ∀ q ∈ active reg (if fontFace then some [ff] else none), registered reg q = true) :
    propValid acc reg ff fontFace p = .ok true ↔
      (p.name ≠ [] ∧ p.value ≠ [] ∧ (p.priority = [] ∨ p.priority = important) ∧
        ∃ q ∈ active reg (if fontFace then some [ff] else none), acceptsIn acc reg p.name p.value q = true) :=
  propValid_true_iff acc reg ff fontFace p hreg

/-- non-vacuity: in the generated registry with default settings every active profile is registered -/
example : ∀ fontFace : Bool, ∀ q ∈ active genRegistry (if fontFace then some [ffName] else none),
    registered genRegistry q = true := by decide +kernel

/-- T13.1 (congruence form, including the exceptional outcomes): two properties with the same name and
priority get the same verdict whenever every registered check answers the same on their value texts. -/
theorem verdict_depends_on_checks_only {π : Type} (acc acc' : π → Str → Option Bool) (reg : Registry π) (ff : Str)
    (fontFace : Bool) (p p' : Prop') (hn : p.name = p'.name) (hp : p.priority = p'.priority)
    (he : p.value.isEmpty = p'.value.isEmpty)
    (h : ∀ pat ∈ reg.pats, tryAcc acc pat p.value = tryAcc acc' pat p'.value) :
    propValid acc reg ff fontFace p = propValid acc' reg ff fontFace p' :=
  propValid_congr acc acc' reg ff fontFace p p' hn hp he h

/-- T13.1 (registry level): the first component of `validateWithProfile(name, value, profiles)` — "valid in ANY
profile" — does not depend on the `profiles` argument nor on `defaultProfiles`: it is `validate(name, value)`.
(Hypothesis: profile names are distinct, as in every registry the `Profiles` class can reach.) -/
theorem validateWithProfile_valid_is_validate {π : Type} (acc : π → Str → Option Bool) (reg : Registry π)
    (hnd : reg.names.Nodup) (n v : Str) (ps : Option (List Str)) (a m : Bool) (l : List Str)
    (h : validateWithProfile acc reg n v ps = .ok (a, m, l)) : a = validate acc reg n v :=
  vwp_valid_eq_validate acc reg hnd n v ps a m l h

/-- non-vacuity: the generated registry has distinct profile names -/
example : genRegistry.names.Nodup := by decide +kernel

/-- The compiled driver evaluates patterns with sets of match lengths (`acceptsFast`: duplicates removed at every
node — the list-of-successes semantics is exponential on ambiguous patterns); it is the same function, so every
verdict the correspondence compares is the verdict of the model these theorems speak about. -/
theorem driver_acceptance_is_model_acceptance : accReFast = accRe := by
  funext r s
  simp [accReFast, accRe, acceptsFast_eq]


/-! ## T13.3 — the value text handed to validation does not depend on comment / white-space placement

Model: `Model/ValueText.lean` — `ProdParser.parse` on the value grammar (default COMMENT / S handling, `_SorTokens`,
`nextSor`, `mayEnd`, `stopAndKeep`) followed by `do_css_PropertyValue(valuesOnly=True)` over `Out.append`.
A *component* is a token that is neither S nor COMMENT (a term — for a function the whole run up to its `)` —,
`,`, `/`, `;`, or a token the grammar refuses); `components ts` deletes the S and COMMENT tokens of a stream. -/

open CssVerif.ValueText in
/-- T13.3 `value_text_reads_components`. For every token stream, every preference record and nesting level:
`Property.value` is obtained by (1) deleting comments and white space from the stream, (2) reading what is left as
`term ( (',' | '/')? term )*` cut at `;` (`specValue`: `none` = the value is refused), (3) serialising the items.
In particular the stream with its gaps enters only through `components`. No hypothesis. -/
theorem value_text_reads_components (p : Out.Prefs) (lv : Nat) (ts : List VTok) :
    propertyValue p lv ts = (specValue (components ts)).map (valueText p lv) :=
  propertyValue_spec p lv ts

open CssVerif.ValueText in
/-- T13.3 `value_text_gap_invariant`: two spellings of a value with the same components (whatever comments and
white space stand between, before and after them — also none at all, also S tokens in a row) have the same
`Property.value`, or are both refused; under every serializer preference. -/
theorem value_text_gap_invariant (p : Out.Prefs) (lv : Nat) (a b : List VTok) (h : components a = components b) :
    propertyValue p lv a = propertyValue p lv b := by
  rw [propertyValue_spec, propertyValue_spec, h]

open CssVerif.ValueText in
/-- normal form: every spelling has the `Property.value` of its spelling without any comment or white space
(`components ts` is itself a token stream, and deleting the gaps twice is deleting them once) -/
theorem value_text_normal_form (p : Out.Prefs) (lv : Nat) (ts : List VTok) :
    propertyValue p lv ts = propertyValue p lv (components ts) := by
  apply value_text_gap_invariant
  simp [components, List.filter_filter]

open CssVerif.ValueText in
/-- the same as an edit: a run of comments and white space put anywhere into a value changes nothing -/
theorem value_text_gap_insertion (p : Out.Prefs) (lv : Nat) (a g b : List VTok) (hg : ∀ t ∈ g, t.isGap = true) :
    propertyValue p lv (a ++ g ++ b) = propertyValue p lv (a ++ b) := by
  apply value_text_gap_invariant
  simp [components_append, components_of_allGap hg]

open CssVerif.ValueText in
/-- the parsed item list itself (not only its serialisation) is the same up to the comment items -/
theorem item_list_gap_invariant (a b : List VTok) (h : components a = components b) :
    (parseValue a).map noComments = (parseValue b).map noComments := by
  rw [parseValue_spec, parseValue_spec, h]

open CssVerif.ValueText in
/-- T13.3 → T13.1 `verdict_gap_invariant`: the verdict of `Property.validate` on the value parsed from a token
stream (refused value: no verdict) is the same for two spellings with the same components — for every registry,
acceptance function, property name, priority, `@font-face` context, preference record. -/
theorem verdict_gap_invariant {π : Type} (acc : π → Str → Option Bool) (reg : Registry π) (ff : Str) (fontFace : Bool)
    (name priority : Str) (p : Out.Prefs) (lv : Nat) (a b : List VTok) (h : components a = components b) :
    (propertyValue p lv a).map (fun v => propValid acc reg ff fontFace { name := name, value := v, priority := priority }) =
    (propertyValue p lv b).map (fun v => propValid acc reg ff fontFace { name := name, value := v, priority := priority }) := by
  rw [value_text_gap_invariant p lv a b h]

open CssVerif.ValueText in
/-- the loop of `parseValue` never stops for lack of fuel: with more fuel than tokens the result is the same for
every amount of it (`parseValue` runs it with `length + 1`) -/
theorem value_parse_no_fuel (f : Nat) (st : Stream) (l : Loop) (h : st.size < f) (k : Nat) :
    mainLoop (f + k) st l = mainLoop f st l :=
  mainLoop_fuel f st l h k

section
open CssVerif.ValueText

/-- non-vacuity and what the model computes on examples (tests, not theorems): `a /*c*/ , 1px`, `a,1px` and
`/*x*/a/**/,/*y*/ 1px ` have the same components and the value text `a, 1px`; `a/**/1px` and `a 1px` give
`a 1px`; `a ,/**/ , 1px`, `a,` and a lone comment are refused; `a,;` is cut at the `;` -/
example :
    components [exA, .s, .comment (cps "/*c*/"), .s, .op 44, .s, exB] = components [exA, .op 44, exB] ∧
    propertyValue Out.Prefs.default 0 [exA, .s, .comment (cps "/*c*/"), .s, .op 44, .s, exB] = some (cps "a, 1px") ∧
    propertyValue Out.Prefs.default 0 [exA, .op 44, exB] = some (cps "a, 1px") ∧
    propertyValue Out.Prefs.default 0
      [.comment (cps "/*x*/"), exA, .comment (cps "/**/"), .op 44, .comment (cps "/*y*/"), .s, exB, .s] = some (cps "a, 1px") ∧
    propertyValue Out.Prefs.default 0 [exA, .comment (cps "/**/"), exB] = some (cps "a 1px") ∧
    propertyValue Out.Prefs.default 0 [exA, .s, .s, exB] = some (cps "a 1px") ∧
    propertyValue Out.Prefs.default 0 [exA, .s, .op 47, .s, exB] = some (cps "a/1px") ∧
    propertyValue Out.Prefs.default 0 [exA, .s, .op 44, .comment (cps "/**/"), .s, .op 44, exB] = none ∧
    propertyValue Out.Prefs.default 0 [exA, .op 44] = none ∧
    propertyValue Out.Prefs.default 0 [.comment (cps "/*c*/")] = none ∧
    propertyValue Out.Prefs.default 0 [exA, .op 44, .semi, exB] = some (cps "a,") := by
  decide +kernel
end

/-! ## T13.2 — case insensitivity -/

/-- T13.2 `case_insensitive` (general lemma over `Re`): a pattern whose classes are closed under ASCII case
folding has the same match lengths, in the same order, on `s` and on `fold s`. -/
theorem case_insensitive (r : Re) (h : r.FoldClosed = true) (s : Str) : r.ms (fold s) = r.ms s :=
  Re.ms_fold r h s

/-- every pattern of the registry generated from `profiles.py` is closed under case folding -/
theorem gen_patterns_fold_closed : ∀ r ∈ genRegistry.pats, r.FoldClosed = true := by
  have h : (genRegistry.pats.all fun r => r.FoldClosed) = true := by decide +kernel
  exact fun r hr => List.all_eq_true.1 h r hr

/-- … hence the verdict ignores the letter case (ASCII) of the value text: for every setting of
`defaultProfiles`, every context, every property -/
theorem verdict_case_insensitive (d : Option (List Str)) (fontFace : Bool) (p : Prop') :
    propValid accRe { genRegistry with default := d } ffName fontFace { p with value := fold p.value } =
    propValid accRe { genRegistry with default := d } ffName fontFace p := by
  apply propValid_congr
  · rfl
  · rfl
  · simp [fold]
  · intro pat hpat
    have hfc := gen_patterns_fold_closed pat (by simpa [Registry.pats] using hpat)
    simp only [tryAcc, accRe, Re.accepts_fold pat hfc]

end CssVerif.C13

namespace CssVerif.C13
open CssVerif CssVerif.Validate CssVerif.Proto

set_option maxRecDepth 100000

/-! ## T13.4 — agreement with the CSS 2.1 grammar, keyword-list properties -/

/-- T13.4 `keywordAlt` (general lemma): a pattern recognised as a keyword list (`wordsE r = some W`: a spine of
star-free pieces over small positive fold-closed classes, closed by `$`) accepts a value that does not end in a
line feed iff the ASCII folding of the value is one of the words. (`$` also matches before one final line feed;
`Re.wordsE_spec` is the statement without the side condition.) -/
theorem keyword_pattern_accepts_exactly (r : Re) (W : List Str) (h : r.wordsE = some W) (s : Str)
    (hs : s.getLast? ≠ some 10) : accepts r s = true ↔ fold s ∈ W :=
  Re.wordsE_spec_noLF r W h s hs

/-- table check (a finite computation, kernel-evaluated): for every CSS 2.1 keyword-list property except
`display` the registered pattern is a keyword list with exactly the specification's keywords -/
theorem keyword_table_check :
    (Css21.keywordProps.all fun e => e.1 == "display" ||
      match firstPattern e.1 with
      | some r => kwAgree r e.2
      | none => false) = true := by decide +kernel

/-- T13.4 for the 32 keyword-list properties of CSS 2.1 other than `display`: the registered check accepts a
value text (not ending in a line feed) iff its ASCII-lower-cased form is one of the keywords the CSS 2.1
Recommendation lists for the property. -/
theorem keyword_agreement (prop : String) (kws : List String) (hmem : (prop, kws) ∈ Css21.keywordProps)
    (hd : prop ≠ "display") :
    ∃ r, firstPattern prop = some r ∧
      ∀ s : Str, s.getLast? ≠ some 10 → (accepts r s = true ↔ fold s ∈ kws.map cps) := by
  have h := List.all_eq_true.1 keyword_table_check (prop, kws) hmem
  simp only [Bool.or_eq_true, beq_iff_eq] at h
  rcases h with h | h
  · exact absurd h hd
  · cases hp : firstPattern prop with
    | none => simp [hp] at h
    | some r =>
      simp only [hp] at h
      exact ⟨r, rfl, fun s hs => kwAgree_spec r kws h s hs⟩

/-- non-vacuity -/
example : ("float", ["left", "right", "none", "inherit"]) ∈ Css21.keywordProps := by decide

/-
Full statement for `display` (does NOT hold — known finding `C13-display-run-in`):
  ∀ s, s.getLast? ≠ some 10 → (accepts r s = true ↔ fold s ∈ (CSS 2.1 list of display).map cps)
The registered pattern also accepts `run-in`, which CSS 2.1 (REC §9.2.3/§9.2.4) does not have.
-/
/-- T13.4 for `display`, partial: the registered pattern accepts exactly the CSS 2.1 keywords **and `run-in`** -/
theorem keyword_agreement_display_partial (kws : List String) (hmem : ("display", kws) ∈ Css21.keywordProps) :
    ∃ r, firstPattern "display" = some r ∧
      ∀ s : Str, s.getLast? ≠ some 10 → fold s ≠ cps "run-in" →
        (accepts r s = true ↔ fold s ∈ kws.map cps) := by
  have hk : kws = ["inline", "block", "list-item", "inline-block", "table", "inline-table", "table-row-group",
      "table-header-group", "table-footer-group", "table-row", "table-column-group", "table-column",
      "table-cell", "table-caption", "none", "inherit"] := by
    revert hmem; simp only [Css21.keywordProps, Css21.borderStyle]; simp
  have hp : ∃ r, firstPattern "display" = some r ∧ kwAgree r ("run-in" :: kws) = true := by
    subst hk
    have hc : (match firstPattern "display" with
        | some r => kwAgree r ["run-in", "inline", "block", "list-item", "inline-block", "table", "inline-table",
            "table-row-group", "table-header-group", "table-footer-group", "table-row", "table-column-group",
            "table-column", "table-cell", "table-caption", "none", "inherit"]
        | none => false) = true := by decide +kernel
    cases hf : firstPattern "display" with
    | none => simp [hf] at hc
    | some r => exact ⟨r, rfl, by simpa [hf] using hc⟩
  obtain ⟨r, hr, hagree⟩ := hp
  refine ⟨r, hr, fun s hs hne => ?_⟩
  rw [kwAgree_spec r _ hagree s hs]
  simp only [List.map_cons, List.mem_cons]
  constructor
  · rintro (h | h)
    · exact absurd h hne
    · exact h
  · exact Or.inr

/-- the finding, machine-checked: the registered `display` check accepts `run-in` -/
example : (firstPattern "display").map (fun r => accepts r (cps "run-in")) = some true := by decide +kernel

end CssVerif.C13

namespace CssVerif.C13
open CssVerif CssVerif.Validate CssVerif.Proto

set_option maxRecDepth 100000

/-! ## T13.5 — unknown names are never valid; validity of blocks, rules and sheets -/

/-- T13.5 `unknown_never_valid`: a property whose name no profile registers is never valid — for every registry,
acceptance function, value, priority, context and choice of profiles; and `validate` / `validateWithProfile`
say the same. -/
theorem unknown_never_valid {π : Type} (acc : π → Str → Option Bool) (reg : Registry π) (ff : Str) (fontFace : Bool)
    (p : Prop') (ps : Option (List Str)) (h : reg.knownNames.contains p.name = false) :
    propValid acc reg ff fontFace p = .ok false ∧
    validate acc reg p.name p.value = false ∧
    validateWithProfile acc reg p.name p.value ps = .ok (false, false, []) :=
  ⟨propValid_unknown acc reg ff fontFace p h, validate_unknown acc reg p.name p.value h,
   vwp_unknown acc reg p.name p.value ps h⟩

/-- non-vacuity: `x` is unknown to the generated registry -/
example : genRegistry.knownNames.contains (cps "x") = false := by decide +kernel

/-- T13.5 `conjunction` for a declaration block, full strength (promoted from `decl_conjunction_partial` after
the fix "CSSStyleDeclaration.valid checks every declaration"): for every registry, acceptance function, context
and block, `CSSStyleDeclaration.valid` is `True` iff every declaration of the block is valid — overridden ones
included. -/
theorem decl_conjunction {π : Type} (acc : π → Str → Option Bool) (reg : Registry π) (ff : Str)
    (fontFace : Bool) (b : Block) :
    declValid acc reg ff fontFace b = .ok true ↔ allEntriesValid acc reg ff fontFace b = true :=
  declValid_true_iff acc reg ff fontFace b

/-- the former witness of `C13-valid-effective-only` (`color:4; color:red`) -/
def witnessBlock : Block :=
  [.prop { name := cps "color", value := cps "4", priority := [] },
   .prop { name := cps "color", value := cps "red", priority := [] }]

/-- … is now reported invalid (test on the model with the generated registry) -/
example : declValid accRe genRegistry ffName false witnessBlock = .ok false ∧
    allEntriesValid accRe genRegistry ffName false witnessBlock = false := by decide +kernel

/-- non-vacuity: a block with a repeated name all of whose declarations are valid is valid -/
example : declValid accRe genRegistry ffName false
    [.prop { name := cps "color", value := cps "blue", priority := [] }, .other,
     .prop { name := cps "color", value := cps "red", priority := cps "important" }] = .ok true := by decide +kernel

/-- `CSSFontFaceRule.valid` — full strength: valid iff ALL its entries are valid in the `@font-face` context and
`font-family` and `src` are present (its documented meaning). -/
theorem fontface_conjunction {π : Type} (acc : π → Str → Option Bool) (reg : Registry π) (ff : Str) (b : Block) :
    fontFaceValid acc reg ff b = .ok true ↔ ruleAllValid acc reg ff (.fontFace b) = true :=
  fontFaceValid_true_iff acc reg ff b

/-- T13.5 for rules and sheets, full strength (promoted from `sheet_conjunction_partial` after the fixes
"CSSStyleDeclaration.valid checks every declaration" and "CSSStyleSheet.valid no longer skips declarations inside
@media and @page"): for EVERY sheet — style rules, `@font-face`, `@media` with arbitrarily nested rules, `@page`
with margin rules, declaration-free rules — `CSSStyleSheet.valid` is `True` iff every declaration anywhere in the
sheet is valid (for `@font-face` additionally the two required descriptors). No guard. -/
theorem sheet_conjunction {π : Type} (acc : π → Str → Option Bool) (reg : Registry π) (ff : Str)
    (rules : List Rule) :
    sheetValid acc reg ff rules = .ok true ↔ rulesAllValid acc reg ff rules = true :=
  Validate.sheet_conjunction acc reg ff rules

/-- … and the same for every single rule that has a `valid` attribute; a rule without one has no declarations -/
theorem rule_conjunction {π : Type} (acc : π → Str → Option Bool) (reg : Registry π) (ff : Str) (r : Rule) :
    (ruleValid acc reg ff r = none ∧ ruleAllValid acc reg ff r = true) ∨
    (∃ v, ruleValid acc reg ff r = some v ∧ (v = .ok true ↔ ruleAllValid acc reg ff r = true)) :=
  ruleValid_spec acc reg ff r

/-- the former witnesses of `C13-valid-skips-media-page` are now reported invalid, valid nested content stays
valid (tests on the model) -/
example :
    let bad : Block := [.prop { name := cps "color", value := cps "4", priority := [] }]
    let good : Block := [.prop { name := cps "color", value := cps "red", priority := [] }]
    sheetValid accRe genRegistry ffName [.media [.style bad]] = .ok false ∧
    sheetValid accRe genRegistry ffName [.page bad []] = .ok false ∧
    sheetValid accRe genRegistry ffName [.page good [bad]] = .ok false ∧
    sheetValid accRe genRegistry ffName [.media [.other, .style good, .page good [good]], .other] = .ok true := by
  decide +kernel

/-! ## T13.6 — validation only annotates -/

/-- T13.6 `annotates_only` (state): what is stored for a property does not depend on the validating flag, nor on
the registry; with the flag off nothing is logged. -/
theorem annotates_only_state {π : Type} (acc acc' : π → Str → Option Bool) (reg reg' : Registry π) (ff ff' : Str)
    (fontFace : Bool) (v v' : Bool) (parsed : Stored) :
    (storeProperty acc reg ff fontFace v parsed).1 = (storeProperty acc' reg' ff' fontFace v' parsed).1 ∧
    storeProperty acc reg ff fontFace false parsed = (parsed, []) := by
  simp [storeProperty]

/-- T13.6 `annotates_only` (serialisation): unless `validOnly` is requested, the serialised block does not
depend on registry, acceptance function, context — nor, with the previous theorem, on any validating flag. -/
theorem annotates_only_serialisation {π : Type} (acc acc' : π → Str → Option Bool) (reg reg' : Registry π)
    (ff ff' : Str) (fontFace fontFace' : Bool) (l : List Stored) :
    serBlock acc reg ff fontFace false l = serBlock acc' reg' ff' fontFace' false l := by
  induction l with
  | nil => rfl
  | cons s r ih => simp only [serBlock, serProperty, ih]; rfl

/-- with `validOnly` the invalid properties are dropped (so the clause "unless valid-only output is requested"
is needed): the witness block keeps only its second declaration -/
example :
    let st (p : Prop') (t : String) : Stored := { prop := p, text := cps t, wellformed := true }
    let l := [st { name := cps "color", value := cps "4", priority := [] } "color: 4",
              st { name := cps "color", value := cps "red", priority := [] } "color: red"]
    serBlock accRe genRegistry ffName false true l = .ok (cps ";color: red;") ∧
    serBlock accRe genRegistry ffName false false l = .ok (cps "color: 4;color: red;") := by decide +kernel

/-- the validating flag is resolved sheet > declaration > default `True` -/
theorem validating_resolution (s d : Option Bool) :
    declValidating s d = (match s, d with
      | some b, _ => b
      | none, some b => b
      | none, none => true) := by
  cases s <;> cases d <;> rfl

end CssVerif.C13

namespace CssVerif.C13
open CssVerif CssVerif.Validate CssVerif.Proto CssVerif.Css21

set_option maxRecDepth 100000

/-! ## T13.4 [W2] — single `<integer>` / `<number>` / `<length>` / `<percentage>` (and keywords) -/

/-- general lemma: a pattern built from small positive classes, `[class]*`, concatenation, alternation, bounded
repetition and a final `$` accepts a value (not ending in a line feed) iff the value matches one of its finitely
many templates — for every such pattern and every string. -/
theorem template_pattern_accepts_exactly (r : Re) (T : List Template) (h : r.templatesE = some T) (s : Str)
    (hs : s.getLast? ≠ some 10) : accepts r s = true ↔ member T s = true :=
  Re.templatesE_spec_noLF r T h s hs

/-- table check (finite computation, kernel-evaluated) for the 35 single-value properties of
`Css21.typedProps`: the registered pattern's templates are among the CSS 2.1 templates of the property, and
contain every CSS 2.1 template. -/
theorem typed_table_check :
    (Css21.typedProps.all fun e =>
      match firstPattern e.1 with
      | some r => typedAgree r e.2 []
      | none => false) = true := by decide +kernel

/-- T13.4 [W2] soundness, full strength (the `none` exception of `min-width`/`min-height` is gone with the fix
"min-width and min-height do not accept 'none'"): for every single-value property of `Css21.typedProps` and every
value text not ending in a line feed, what the registered check accepts is in the CSS 2.1 grammar of the
property. -/
theorem single_type_sound (prop : String) (spec : List Template) (hmem : (prop, spec) ∈ Css21.typedProps) :
    ∃ r, firstPattern prop = some r ∧ ∀ s : Str, s.getLast? ≠ some 10 →
      accepts r s = true → member spec s = true := by
  have h := List.all_eq_true.1 typed_table_check (prop, spec) hmem
  cases hp : firstPattern prop with
  | none => simp [hp] at h
  | some r =>
    simp only [hp] at h
    refine ⟨r, rfl, fun s hs ha => ?_⟩
    have := (typedAgree_spec r spec [] h s hs).1 ha
    simpa using this

/-- T13.4 [W2] completeness, full strength since the fixes "number, integer, length, percentage … values accept an
explicit '+' sign" and "a zero length needs no unit however the zero is written" (before: only values without a leading
`+`, findings C13-plus-sign / C13-unitless-zero-direct): every value of the CSS 2.1 grammar of the property is
accepted. -/
theorem single_type_complete (prop : String) (spec : List Template)
    (hmem : (prop, spec) ∈ Css21.typedProps) :
    ∃ r, firstPattern prop = some r ∧ ∀ s : Str, s.getLast? ≠ some 10 →
      member spec s = true → accepts r s = true := by
  have h := List.all_eq_true.1 typed_table_check (prop, spec) hmem
  cases hp : firstPattern prop with
  | none => simp [hp] at h
  | some r =>
    simp only [hp] at h
    exact ⟨r, rfl, fun s hs => (typedAgree_spec r spec [] h s hs).2⟩

/-- non-vacuity, and what the templates mean on examples (tests, not theorems) -/
example : member Css21.length (cps "-1.5em") = true ∧ member Css21.length (cps "1.5") = false ∧
    member Css21.length (cps "0") = true ∧ member Css21.integer (cps "+12") = true ∧
    member Css21.integer (cps "1.0") = false ∧ member Css21.percentage (cps ".5%") = true ∧
    member Css21.number (cps "1.") = false ∧ member Css21.length (cps "+1px") = true ∧
    member Css21.length (cps "0.0") = true ∧ member Css21.length (cps "-.00") = true ∧
    member Css21.length (cps "0.10") = false ∧ member Css21.length (cps "1PX") = true := by decide +kernel

/-- the former findings, machine-checked: `+1px` and `0.0` are CSS 2.1 `<length>`s that the `width` check accepts now;
`none` is not accepted for `min-width` -/
example : (firstPattern "width").map (fun r => accepts r (cps "+1px")) = some true ∧
    (firstPattern "width").map (fun r => accepts r (cps "0.0")) = some true ∧
    member Css21.length (cps "+1px") = true ∧
    (firstPattern "min-width").map (fun r => accepts r (cps "none")) = some false := by
  decide +kernel


/-! ## T13.4 [W2] — the colour grammar -/

/-- table checks (finite computations, kernel-evaluated), one per distinct pattern: the registered pattern of
`color` / `background-color` / `outline-color` is template-shaped (690 / 691 templates) and every template of
`colorLower` (CSS 2.1 `<color>` without system colours and `+` signs, plus the property's keywords) lies, segment by
segment, inside one of the pattern's. -/
theorem color_table_check_color :
    (firstPattern "color").map (fun r => colorCovers r (colorLower ["inherit"])) = some true := by decide +kernel

theorem color_table_check_background :
    (firstPattern "background-color").map (fun r => colorCovers r (colorLower ["transparent", "inherit"])) = some true := by
  decide +kernel

theorem color_table_check_outline :
    (firstPattern "outline-color").map (fun r => colorCovers r (colorLower ["invert", "inherit"])) = some true := by
  decide +kernel

/-- the four `border-*-color` properties are registered with the very pattern of `background-color` -/
theorem color_table_check_borders :
    (sameAsBackgroundColor.all fun n => decide (firstPattern n = firstPattern "background-color")) = true := by
  decide +kernel

/-
T13.4 [W2] colours, full statement (does NOT hold):
  ∀ s, s.getLast? ≠ some 10 → (accepts r s = true ↔ member (color21 wsCss ++ kws extra) s = true)
Three deviations, each with a machine-checked witness below: (1) the CSS Color 3 values (`rgba()`, `hsl()`,
`hsla()`, `currentColor`, the X11 names) are accepted for every profile — by design of `profiles.py` (the CSS3
colour macros replace the CSS 2.1 ones); (2) the 28 system colours are rejected (`C13-system-colors`) and a `+`
sign in `rgb()` is rejected (`C13-plus-sign`); (3) U+000B counts as white space inside `rgb()` (Python's `\s`;
reachable through a direct `profile.validate` call only, `C13-vtab-whitespace-direct`).

PARKED — soundness up to CSS Color 3:
  theorem color_sound_partial (prop extra) (hmem : (prop, extra) ∈ Css21.colorProps) :
      ∃ r, firstPattern prop = some r ∧ ∀ s, s.getLast? ≠ some 10 → accepts r s = true → member (colorUpper extra) s = true
follows from `colorWithin_spec` (Lemmas/ValidateColor.lean, proved) once the table check
  (firstPattern "color").map (fun r => colorWithin r (colorUpper ["inherit"])) = some true
is evaluated; `decide +kernel` does evaluate it to `true` (measured: 97 s of kernel time for `color` alone with a
`+`-free `colorUpper`, three distinct patterns), which is over the build budget — the linear scan inside the
`rgba(` / `hsla(` groups (288 x 288 templates of ~40 segments) needs a structured checker. Until then the
soundness direction for colours rests on the implementation-side oracle (colour non-members by construction).
-/
/-- T13.4 [W2] colours, completeness with the exact guards: for the seven single-colour properties every CSS 2.1
`<color>` that is not a system colour and has no `+` sign — the 17 keywords, `#rgb`, `#rrggbb`, `rgb()` of integers
or percentages with CSS white space around the numbers, in any letter case — and every keyword of the property
is accepted by the registered check. -/
theorem color_complete_partial (prop : String) (extra : List String) (hmem : (prop, extra) ∈ Css21.colorProps) :
    ∃ r, firstPattern prop = some r ∧ ∀ s : Str, s.getLast? ≠ some 10 →
      member (colorLower extra) s = true → accepts r s = true := by
  have hb := color_table_check_background
  have hsame := List.all_eq_true.1 color_table_check_borders
  have key : ∀ (n : String) (ex : List String),
      (firstPattern n).map (fun r => colorCovers r (colorLower ex)) = some true →
      ∃ r, firstPattern n = some r ∧ ∀ s : Str, s.getLast? ≠ some 10 →
        member (colorLower ex) s = true → accepts r s = true := by
    intro n ex h
    cases hp : firstPattern n with
    | none => simp [hp] at h
    | some r =>
      simp only [hp, Option.map_some, Option.some.injEq] at h
      exact ⟨r, rfl, fun s hs => colorCovers_spec r _ h s hs⟩
  have border : ∀ n ∈ sameAsBackgroundColor,
      (firstPattern n).map (fun r => colorCovers r (colorLower ["transparent", "inherit"])) = some true := by
    intro n hn
    have := of_decide_eq_true (hsame n hn)
    rw [this]; exact hb
  simp only [Css21.colorProps, List.mem_cons, Prod.mk.injEq, List.not_mem_nil, or_false] at hmem
  rcases hmem with ⟨rfl, rfl⟩ | ⟨rfl, rfl⟩ | ⟨rfl, rfl⟩ | ⟨rfl, rfl⟩ | ⟨rfl, rfl⟩ | ⟨rfl, rfl⟩ | ⟨rfl, rfl⟩
  · exact key _ _ color_table_check_color
  · exact key _ _ hb
  · exact key _ _ (border _ (by simp [sameAsBackgroundColor]))
  · exact key _ _ (border _ (by simp [sameAsBackgroundColor]))
  · exact key _ _ (border _ (by simp [sameAsBackgroundColor]))
  · exact key _ _ (border _ (by simp [sameAsBackgroundColor]))
  · exact key _ _ color_table_check_outline

/-- non-vacuity, what the reference means on examples, and the witnesses of the three deviations (tests) -/
example : member (colorLower ["inherit"]) (cps "rgb( 1 ,2,\t3)") = true ∧
    member (colorLower ["inherit"]) (cps "#AbC") = true ∧ member (colorLower ["inherit"]) (cps "Orange") = true ∧
    member (colorLower ["inherit"]) (cps "rgb(1%,2.5%,-.3%)") = true ∧
    member (colorLower ["inherit"]) (cps "rgb(1,2%,3)") = false ∧
    member (colorLower ["inherit"]) (cps "#abcd") = false ∧
    -- (1) CSS Color 3 values are accepted and are not CSS 2.1 colours
    (firstPattern "color").map (fun r => accepts r (cps "rgba(1,2,3,.5)")) = some true ∧
    member (Css21.color21 Css21.wsCss) (cps "rgba(1,2,3,.5)") = false ∧
    -- (2) a system colour and a `+` component are CSS 2.1 colours and are rejected
    (firstPattern "color").map (fun r => accepts r (cps "ButtonFace")) = some false ∧
    member (Css21.color21 Css21.wsCss) (cps "ButtonFace") = true ∧
    (firstPattern "color").map (fun r => accepts r (cps "rgb(+1,2,3)")) = some false ∧
    member (Css21.color21 Css21.wsCss) (cps "rgb(+1,2,3)") = true ∧
    -- (3) U+000B inside rgb() is accepted and is not CSS white space
    (firstPattern "color").map (fun r => accepts r [114, 103, 98, 40, 11, 49, 44, 50, 44, 51, 41]) = some true ∧
    member (Css21.color21 Css21.wsCss ++ Css21.color3Ext Css21.wsCss)
      [114, 103, 98, 40, 11, 49, 44, 50, 44, 51, 41] = false := by
  decide +kernel

end CssVerif.C13
