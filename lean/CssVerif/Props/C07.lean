import CssVerif.Lemmas.Codec
import CssVerif.Lemmas.CodecInc
import CssVerif.Lemmas.CodecEnc
import CssVerif.Lemmas.CodecAgree
import CssVerif.Lemmas.CodecStream
import CssVerif.Lemmas.CodecAuto
import CssVerif.Lemmas.CodecErr
/-!
# C07 — CSS codec: detection follows CSS 2.1 §4.4, early answers are never revised

Property theorems only (helpers are in `Lemmas/Codec.lean`). Model: `Model/Codec.lean`,
tied to `cssutils/codec.py` by the exhaustive correspondence of `tools/harness/c07.py`.
-/
namespace CssVerif.C07
open CssVerif.Codec

/-- T7.2a "with `final` the detector always answers" (for every byte string) -/
theorem detect_final_total (l : List Nat) : detect l true ≠ none := by
  unfold detect
  cases core l true with
  | dflt => simp
  | ans e x => simp
  | scan => cases charsetName l <;> simp

/-- T7.2 "never a wrong encoding": an answer given before the end of the data is exactly the answer
given for every continuation of that data, final or not — for all byte strings and all continuations. -/
theorem detect_never_revised (p ext : List Nat) (b : Bool) (r : Enc × Bool)
    (h : detect p false = some r) : detect (p ++ ext) b = some r :=
  detect_stable p ext b r h

/-- "unknown yet" is only ever said when `final` is false -/
theorem detect_none_only_nonfinal (l : List Nat) (b : Bool) (h : detect l b = none) : b = false := by
  cases b with
  | false => rfl
  | true => exact absurd h (detect_final_total l)

/-! CSS 2.1 §4.4, BOM first — for every continuation `t` and both values of `final` -/
theorem bom_utf8 (t : List Nat) (f : Bool) : detect (0xEF :: 0xBB :: 0xBF :: t) f = some (.utf8sig, true) := by
  have h : detect [0xEF, 0xBB, 0xBF] false = some (.utf8sig, true) := by decide
  exact detect_never_revised [0xEF, 0xBB, 0xBF] t f _ h

theorem bom_utf16_be (t : List Nat) (f : Bool) : detect (0xFE :: 0xFF :: t) f = some (.utf16, true) := by
  have h : detect [0xFE, 0xFF] false = some (.utf16, true) := by decide
  exact detect_never_revised [0xFE, 0xFF] t f _ h

theorem bom_utf32_le (t : List Nat) (f : Bool) : detect (0xFF :: 0xFE :: 0 :: 0 :: t) f = some (.utf32, true) := by
  have h : detect [0xFF, 0xFE, 0, 0] false = some (.utf32, true) := by decide
  exact detect_never_revised [0xFF, 0xFE, 0, 0] t f _ h

theorem bom_utf32_be (t : List Nat) (f : Bool) : detect (0 :: 0 :: 0xFE :: 0xFF :: t) f = some (.utf32, true) := by
  have h : detect [0, 0, 0xFE, 0xFF] false = some (.utf32, true) := by decide
  exact detect_never_revised [0, 0, 0xFE, 0xFF] t f _ h

/-- … also when the data ends right after the two BOM bytes, or one byte later (it cannot be UTF-32 any more) -/
theorem bom_utf16_le_short : detect [0xFF, 0xFE] true = some (.utf16, true) ∧
    ∀ c, detect [0xFF, 0xFE, c] true = some (.utf16, true) := by
  constructor
  · decide
  · intro c
    have e : core [0xFF, 0xFE, c] true = core ([0xFF, 0xFE, c].map norm) true := (core_norm _ _).symm
    obtain ⟨i, hi⟩ := norm_mem c
    have tab : ∀ i : Fin 11, core [norm 0xFF, norm 0xFE, val i] true = .ans .utf16 true := by decide +kernel
    unfold detect
    simp only [e, List.map, hi, tab i]

/-- `FF FE` followed by two bytes that are not both zero is the UTF-16 (LE) BOM -/
theorem bom_utf16_le (c d : Nat) (t : List Nat) (f : Bool) (h : ¬ (c = 0 ∧ d = 0)) :
    detect (0xFF :: 0xFE :: c :: d :: t) f = some (.utf16, true) := by
  have key : detect [0xFF, 0xFE, c, d] false = some (.utf16, true) := by
    have e : core [0xFF, 0xFE, c, d] false = core ([0xFF, 0xFE, c, d].map norm) false := (core_norm _ _).symm
    obtain ⟨i, hi⟩ := norm_mem c
    obtain ⟨j, hj⟩ := norm_mem d
    have hc0 : (val i == 0) = (c == 0) := by rw [← hi]; exact norm_beq c 0 (by decide)
    have hd0 : (val j == 0) = (d == 0) := by rw [← hj]; exact norm_beq d 0 (by decide)
    have hij : ¬ (val i = 0 ∧ val j = 0) := by
      intro ⟨a, b⟩
      apply h
      constructor
      · have := hc0; simp [a] at this; exact this
      · have := hd0; simp [b] at this; exact this
    have tab : ∀ i j : Fin 11, ¬ (val i = 0 ∧ val j = 0) →
        core [norm 0xFF, norm 0xFE, val i, val j] false = .ans .utf16 true := by decide +kernel
    unfold detect
    simp only [e, List.map, hi, hj, tab i j hij]
  exact detect_never_revised [0xFF, 0xFE, c, d] t f _ key

/-- no BOM and no `@` / NUL pattern in the first bytes: UTF-8, implicitly (sample row: plain ASCII start) -/
theorem plain_ascii_is_utf8 (a : Nat) (t : List Nat) (f : Bool)
    (ha : a ≠ 0xEF ∧ a ≠ 0xFF ∧ a ≠ 0xFE ∧ a ≠ 0x40 ∧ a ≠ 0) :
    detect (a :: t) f = some (.utf8, false) := by
  have key : detect [a] false = some (.utf8, false) := by
    obtain ⟨h1, h2, h3, h4, h5⟩ := ha
    have e1 : (a != 0xEF) = true := by simp [bne, h1]
    have e2 : (a != 0xFF) = true := by simp [bne, h2]
    have e3 : (a != 0xFE) = true := by simp [bne, h3]
    have e4 : (a != 0x40) = true := by simp [bne, h4]
    have e5 : (a != 0) = true := by simp [bne, h5]
    have : mask [a] = 0 := by
      simp only [mask, m0, e1, e2, e3, e4, e5, if_true]; decide
    unfold detect core
    simp [this, clr]
  exact detect_never_revised [a] t f _ key

/-- `@charset "name"` at offset 0 (ASCII-compatible) names the encoding, explicitly — for every name
without a quote and every continuation -/
theorem charset_rule (name t : List Nat) (f : Bool) (hn : ∀ c ∈ name, c ≠ 0x22) :
    detect (prefix10 ++ name ++ 0x22 :: t) f = some (.named name, true) := by
  have hq : ∀ (n : List Nat), (∀ c ∈ n, c ≠ 0x22) → ∀ t, findQuote (n ++ 0x22 :: t) = some n.length := by
    intro n
    induction n with
    | nil => intro _ t; simp [findQuote]
    | cons c r ih =>
      intro h t
      have hc : c ≠ 0x22 := h c (by simp)
      have := ih (fun x hx => h x (by simp [hx])) t
      simp [findQuote, hc, this]
  have hcore : core (prefix10 ++ name ++ 0x22 :: t) f = .scan := by
    have : prefix10 ++ name ++ 0x22 :: t = [0x40, 0x63, 0x68, 0x61] ++ ([0x72, 0x73, 0x65, 0x74, 0x20, 0x22] ++ name ++ 0x22 :: t) := by
      simp [prefix10]
    rw [this, core_ge4 _ _ f false (by simp)]
    decide
  unfold detect
  simp only [hcore]
  have hcs : charsetName (prefix10 ++ name ++ 0x22 :: t) = some name := by
    unfold charsetName
    have t10 : (prefix10 ++ name ++ 0x22 :: t).take 10 = prefix10 := by
      simp [prefix10]
    have d10 : (prefix10 ++ name ++ 0x22 :: t).drop 10 = name ++ 0x22 :: t := by
      simp [prefix10]
    simp only [t10, if_true, d10, hq name hn t]
    simp
  simp only [hcs]

/-- the `@charset` rewriter likewise never revises: a result produced before the end of the data is a
prefix-faithful result for every continuation (output so far ++ the rest, untouched) -/
theorem fix_never_revised (p ext enc r : List Nat) (b : Bool)
    (h : fixEncoding p enc false = some r) : fixEncoding (p ++ ext) enc b = some (r ++ ext) :=
  fix_stable p ext enc r b h

/-- the text-side detector (`@charset` only) never revises either -/
theorem detectUnicode_never_revised (p ext : List Nat) (b : Bool) (r : Enc × Bool)
    (h : detectUnicode p false = some r) : detectUnicode (p ++ ext) b = some r :=
  detectUnicode_stable p ext b r h

/-- T7.5 chunking invariance of the incremental decoder: for EVERY way of cutting the byte stream into
chunks (any number, any sizes, cuts inside the BOM, inside the `@charset` rule, empty chunks), for every
setting of `encoding`/`force`, and for every inner codec that is itself chunk-invariant, the concatenated
output of `IncrementalDecoder` equals one-shot `decode` of the whole input. -/
theorem decoder_chunking (I : Inner) (given : Option Name) (force : Bool) (cs : List (List Nat)) :
    runAll I given force cs = oneShot I given force cs.flatten := by
  unfold runAll
  have h0 : Inv I given force [] [] (.waiting given force []) := ⟨rfl, rfl, rfl, rfl⟩
  have h1 := runChunks_inv I given force cs [] [] _ h0
  have h2 := final_step I given force _ _ _ h1
  simpa using h2

/-- the machine never emits anything it has to take back: what was emitted after any prefix of the
chunks is a prefix of the final result (outputs are only ever appended) -/
theorem decoder_output_is_prefix (I : Inner) (given : Option Name) (force : Bool) (cs ds : List (List Nat)) :
    ∃ ext, runAll I given force (cs ++ ds) = (runChunks I (.waiting given force []) cs).2 ++ ext := by
  refine ⟨(runChunks I (runChunks I (.waiting given force []) cs).1 ds).2 ++
    (step I (runChunks I (runChunks I (.waiting given force []) cs).1 ds).1 [] true).2, ?_⟩
  have key : ∀ (xs ys : List (List Nat)) (s : DSt),
      runChunks I s (xs ++ ys) = ((runChunks I (runChunks I s xs).1 ys).1,
        (runChunks I s xs).2 ++ (runChunks I (runChunks I s xs).1 ys).2) := by
    intro xs
    induction xs with
    | nil => intro ys s; simp [runChunks]
    | cons x xs ih => intro ys s; simp [runChunks, ih, List.append_assoc]
  unfold runAll
  rw [key]
  simp [List.append_assoc]

/-- T7.5 (encoder side): for EVERY way of cutting the text into chunks and every `encoding` argument,
`IncrementalEncoder` produces exactly the bytes of one-shot `encode` — including cuts inside the
`@charset` rule, texts ending inside the rule, and the utf-8-sig name rewriting. -/
theorem encoder_chunking (I : InnerEnc) (given : Option Name) (cs : List (List Nat)) :
    erunAll I given cs = encodeOneShot I given cs.flatten := by
  unfold erunAll
  have h0 : EInv I given [] [] (.waiting given []) := ⟨rfl, rfl, rfl⟩
  have h1 := erunChunks_inv I given cs [] [] _ h0
  have h2 := efinal_step I given _ _ _ h1
  simpa using h2


/-! ## the concrete inner codecs (CPython's UTF-8 / UTF-8-SIG / UTF-16 / UTF-32 / latin-1 / ASCII under
`errors="strict"`, `Model/CodecInner.lean`) -/

/-- T7.6 chunking invariance of every inner incremental decoder, errors included: for EVERY chunking
(cuts inside a multi-byte character, a surrogate pair or the BOM, empty chunks) feeding the chunks and then
`decode(b"", True)` raises iff the incremental decoder raises on the whole data at once, and otherwise
returns exactly that text. The decoder object is modelled with its state (`self.buffer`, BOM sniffing). -/
theorem inner_decoder_chunking (c : CName) (cs : List (List Nat)) :
    incDecode c cs = obs (incOut c cs.flatten true) :=
  incDecode_eq c cs

/-- … and that equals the *stateless* decoder `codecs.getdecoder(name)` one-shot `decode` uses, on all data
where CPython's stateless and incremental decoders agree (`Agree`: everything for the byte-order-fixed and
single-byte codecs and utf-8; for utf-8-sig all data but `EF` and `EF BB`; for utf-16/32 data that is empty,
starts with a BOM, or is ill-formed). Full statement without the guard is FALSE — see the two findings below. -/
theorem inner_decoder_chunking_stateless_partial (c : CName) (cs : List (List Nat)) (h : Agree c cs.flatten) :
    incDecode c cs = statelessDecode c cs.flatten := by
  rw [incDecode_eq, stateless_agrees c _ h]; rfl

/-- the guard `Agree` is exact: on every data outside it CPython's stateless and incremental decoders differ
(one raises where the other returns text), for every chunking -/
theorem agree_is_necessary (c : CName) (cs : List (List Nat)) (h : ¬ Agree c cs.flatten) :
    incDecode c cs ≠ statelessDecode c cs.flatten := by
  rw [incDecode_eq]
  exact fun e => stateless_disagrees c _ h e.symm

/-- outside `Agree` (1): `utf-16` data without BOM — `codecs.getdecoder("utf-16")(b"a\0")` is `"a"` (native
byte order), the incremental decoder raises "UTF-16 stream does not start with BOM" -/
theorem finding_utf16_no_bom :
    statelessDecode .u16 [0x61, 0] = some [0x61] ∧ incDecode .u16 [[0x61, 0]] = none ∧
    statelessDecode .u32 [0x61, 0, 0, 0] = some [0x61] ∧ incDecode .u32 [[0x61, 0, 0, 0]] = none := by decide

/-- outside `Agree` (2): `utf-8-sig` data that is a proper prefix of the BOM — the stateless decoder raises
(truncated sequence), the incremental one keeps waiting and returns `""` even at the end of the data -/
theorem finding_utf8sig_bom_prefix :
    statelessDecode .u8sig [0xEF, 0xBB] = none ∧ incDecode .u8sig [[0xEF], [0xBB]] = some [] := by decide

/-- T7.6 (encoder side): for every chunking of the text the inner incremental encoder writes exactly the
bytes of the stateless encoder (the BOM of utf-8-sig / utf-16 / utf-32 once, by the first call), and one
raises (`UnicodeEncodeError`: surrogate, or a character outside latin-1 / ASCII) iff the other does -/
theorem inner_encoder_chunking (c : CName) (cs : List (List Nat)) :
    incEncode c cs = statelessEncode c cs.flatten :=
  incEncode_eq c cs

/-- T7.1 (inner) round trip: what the encoder of a codec writes for a text it accepts, the decoder of the
same codec — stateless, or incremental over ANY chunking of the bytes — reads back as exactly that text -/
theorem inner_roundtrip (c : CName) (t bs : List Nat) (h : statelessEncode c t = some bs) :
    statelessDecode c bs = some t ∧ ∀ cs : List (List Nat), cs.flatten = bs → incDecode c cs = some t := by
  unfold statelessEncode at h
  cases he : (encScan c.kind t).2 with
  | false => simp [he] at h
  | true =>
    simp only [he, if_true, Option.some.injEq] at h
    subst h
    refine ⟨?_, ?_⟩
    · unfold statelessDecode; rw [stateless_encode c t he]; rfl
    · intro cs hcs
      rw [incDecode_eq, hcs, incOut_encode c t he]; rfl

/-- T7.5 for the concrete codecs: `decoder_chunking` needs no hypothesis about the inner codec any more —
CPython's decoders (as modelled) satisfy the `Inner` laws (`cpyInner`) -/
theorem decoder_chunking_cpython (given : Option Name) (force : Bool) (cs : List (List Nat)) :
    runAll cpyInner given force cs = oneShot cpyInner given force cs.flatten :=
  decoder_chunking cpyInner given force cs

theorem encoder_chunking_cpython (given : Option Name) (cs : List (List Nat)) :
    erunAll cpyInnerEnc given cs = encodeOneShot cpyInnerEnc given cs.flatten :=
  encoder_chunking cpyInnerEnc given cs

/-- T7.1 round trip of the CSS codec over the concrete inner codecs: for every encoding name `g` the model
knows and every text whose rewritten form the codec can encode, `decode(encode(t, g), g)` is `t` with the name
in a leading complete `@charset` rule rewritten to `g` (utf-8 for utf-8-sig) — `fixFinal t g` — and nothing else
changed. -/
theorem roundtrip_given (g : Name) (c : CName) (t : List Nat) (hl : lookupName g = some c)
    (henc : (encScan c.kind (fixFinal t g)).2 = true) :
    oneShot cpyInner (some g) true (encodeOneShot cpyInnerEnc (some g) t) = fixFinal t g := by
  have e1 : encodeOneShot cpyInnerEnc (some g) t = c.bom ++ (encScan c.kind (fixFinal t g)).1 := by
    simp [encodeOneShot, cpyInnerEnc, cpyEncOut, hl, encOut]
  have e2 : finalEnc (some g) true (c.bom ++ (encScan c.kind (fixFinal t g)).1) = g := rfl
  rw [e1]
  unfold oneShot
  rw [e2]
  have e3 : cpyInner.out g (c.bom ++ (encScan c.kind (fixFinal t g)).1) true = fixFinal t g := by
    simp only [cpyInner, cpyOut, hl, incOut_encode c _ henc]
  rw [e3]
  exact fixFinal_twice t g (lookup_written_noquote g c hl)

/-- … and the same through the incremental classes, for EVERY chunking of the text on the encoder side and
EVERY chunking of the bytes on the decoder side -/
theorem roundtrip_given_chunked (g : Name) (c : CName) (ts bs : List (List Nat)) (hl : lookupName g = some c)
    (henc : (encScan c.kind (fixFinal ts.flatten g)).2 = true)
    (hb : bs.flatten = erunAll cpyInnerEnc (some g) ts) :
    runAll cpyInner (some g) true bs = fixFinal ts.flatten g := by
  rw [decoder_chunking_cpython, hb, encoder_chunking_cpython]
  exact roundtrip_given g c ts.flatten hl henc




/-- T7.5 with the exception of the inner decoder (`errors="strict"`): for EVERY chunking, `encoding`, `force` —
some call of `IncrementalDecoder.decode` raises iff one-shot `decode` raises (ill-formed or truncated data for
the encoding that is given or detected), and otherwise the concatenated outputs are the one-shot result -/
theorem decoder_chunking_errors (given : Option Name) (force : Bool) (cs : List (List Nat)) :
    runAllE cpyInner given force cs = oneShotE cpyInner given force cs.flatten :=
  runAllE_eq cpyInner given force cs

/-- … where one-shot `decode` is the real one (stateless `codecs.getdecoder`, then `_fixencoding`) on all data
on which CPython's stateless and incremental decoders agree (`Agree`; outside it see the two findings) -/
theorem oneShotE_is_stateless_partial (given : Option Name) (force : Bool) (d : List Nat) (c : CName)
    (hl : lookupName (finalEnc given force d) = some c) (ha : Agree c d) :
    oneShotE cpyInner given force d =
      (statelessDecode c d).map (fun txt => fixFinal txt (finalEnc given force d)) := by
  rw [stateless_agrees c d ha]
  unfold oneShotE errAt oneShot obs
  simp only [hl, cpyInner, cpyOut]
  cases (incOut c d true).err <;> simp

/-- the abstraction behind T7.5 is exact for CPython's decoder objects: after ANY history of chunks that did not
raise, the next call `decode(x, final)` of the inner decoder object (state = BOM sniffing mode + pending bytes)
raises iff the data so far is ill-formed, and otherwise returns exactly what the CSS decoder machine of the
model takes as the inner decoder's answer (`feedInner cpyInner`: text of everything so far minus the text
already returned) -/
theorem inner_object_refines_feed (c : CName) (E : Name) (hl : lookupName E = some c) (xs : List (List Nat))
    (x : List Nat) (f : Bool) (s : ISt) (t0 : List Nat) (h : irun c c.init xs = some (s, t0)) :
    (istep c s x f).map (·.2) =
      if errAt E (xs.flatten ++ x) f then none else some (feedInner cpyInner E xs.flatten x f) :=
  istep_is_feedInner c E hl xs x f s t0 h

/-- T7.5 (encoder side) with the exception: some call of `IncrementalEncoder.encode` raises
(`UnicodeEncodeError`: a surrogate, or a character the given / declared encoding cannot represent) iff one-shot
`encode` raises, for every chunking of the text; otherwise the same bytes -/
theorem encoder_chunking_errors (given : Option Name) (cs : List (List Nat)) :
    erunAllE cpyInnerEnc given cs = encodeOneShotE cpyInnerEnc given cs.flatten :=
  erunAllE_eq cpyInnerEnc given cs

/-! ## `reset()` -/

/-- "reset the decoder / encoder to the initial state" (the `codecs` contract), full strength since the fix "reset()
of the incremental css decoder and encoder forgets the encoding detected in the previous input" (before: only with
`encoding` given and `force`; finding C07-reset-keeps-encoding): for every `encoding` / `force` given to the
constructor and whatever was fed before, the reset machine is the fresh machine -/
theorem reset_is_fresh (I : Inner) (J : InnerEnc) (given : Option Name) (force : Bool) (cs : List (List Nat)) :
    (runChunks I (.waiting given force []) cs).1.reset given force = .waiting given force [] ∧
    (erunChunks J (.waiting given []) cs).1.reset given = .waiting given [] :=
  ⟨reset_initial given force _, ereset_initial given _⟩

/-- so the document decoded / encoded after a `reset()` comes out as from a new object: the chunks of the first
document have no influence on what the second one yields -/
theorem reset_forgets_previous_document (I : Inner) (J : InnerEnc) (given : Option Name) (force : Bool)
    (doc1 doc2 : List (List Nat)) :
    runChunks I ((runChunks I (.waiting given force []) doc1).1.reset given force) doc2 =
      runChunks I (.waiting given force []) doc2 ∧
    erunChunks J ((erunChunks J (.waiting given []) doc1).1.reset given) doc2 =
      erunChunks J (.waiting given []) doc2 := by
  rw [reset_initial, ereset_initial]; exact ⟨rfl, rfl⟩

/-- the former witness of C07-reset-keeps-encoding now behaves: a decoder created without `encoding` that has decoded
a UTF-16 document (BOM) and is then reset decodes the UTF-8 bytes `a{}` as a fresh decoder does; an encoder that has
encoded `@charset "ascii";` and is reset writes `é` as UTF-8 -/
example :
    (stepE cpyInner ((step cpyInner (.waiting none true []) [0xFF, 0xFE, 0x61, 0] true).1.reset none true)
        [0x61, 0x7B, 0x7D] true).map (·.2) = some [0x61, 0x7B, 0x7D] ∧
    (estepE cpyInnerEnc ((estep cpyInnerEnc (.waiting none []) (prefix10 ++ cps' "ascii" ++ [0x22, 0x3B]) true).1.reset none)
        [0xE9] true).map (·.2) = some [0xC3, 0xA9] := by decide

/-! ## round trip with auto-detection (no `encoding` argument on the decoding side) -/

/-- T7.1 (auto-detected, BOM): a text encoded with a BOM-writing encoding (`utf-8-sig`, `utf-16`, `utf-32`, any
spelling the model knows) and decoded WITHOUT an `encoding` argument comes back with the name of its `@charset`
rule rewritten to the detected encoding (`utf-8` / `utf-16` / `utf-32`). `_partial`: for `utf-16` the text
must not start with U+0000 — `FF FE 00 00` is the UTF-32 BOM (negation: `utf16_nul_is_utf32`). -/
theorem roundtrip_auto_bom_partial (g : Name) (c : CName) (t : List Nat) (hl : lookupName g = some c)
    (hc : c = .u8sig ∨ c = .u16 ∨ c = .u32)
    (henc : (encScan c.kind (fixFinal t g)).2 = true)
    (hnul : c = .u16 → (fixFinal t g).head? ≠ some 0) :
    oneShot cpyInner none true (encodeOneShot cpyInnerEnc (some g) t) = fixFinal t (detected c) := by
  have e1 : encodeOneShot cpyInnerEnc (some g) t = c.bom ++ (encScan c.kind (fixFinal t g)).1 := by
    simp [encodeOneShot, cpyInnerEnc, cpyEncOut, hl, encOut]
  have hdet : detect (c.bom ++ (encScan c.kind (fixFinal t g)).1) true =
      some (match c with | .u8sig => .utf8sig | .u16 => .utf16 | .u32 => .utf32 | .plain _ => .utf8, true) := by
    rcases hc with rfl | rfl | rfl
    · exact bom_utf8 _ true
    · have henc' : (encScan .u16le (fixFinal t g)).2 = true := henc
      have hh := enc16_head (fixFinal t g) (encScan .u16le (fixFinal t g)).1 (by rw [← henc']) (hnul rfl)
      rcases hh with hh | ⟨a, b, rest, hh, hab⟩
      · show detect (bom16le ++ (encScan .u16le (fixFinal t g)).1) true = _
        rw [hh]; exact bom_utf16_le_short.1
      · show detect (bom16le ++ (encScan .u16le (fixFinal t g)).1) true = _
        rw [hh]; exact bom_utf16_le a b rest true hab
    · exact bom_utf32_le _ true
  have hfe : finalEnc none true (c.bom ++ (encScan c.kind (fixFinal t g)).1) = detected c := by
    have hdf : detectFinal (c.bom ++ (encScan c.kind (fixFinal t g)).1) = _ :=
      Option.some.inj ((detect_true _).symm.trans hdet)
    unfold finalEnc pick
    rw [hdf]
    rcases hc with rfl | rfl | rfl <;> rfl
  have hl2 : lookupName (detected c) = some c := by
    rcases hc with rfl | rfl | rfl <;> decide
  rw [e1]
  unfold oneShot
  rw [hfe]
  have e3 : cpyInner.out (detected c) (c.bom ++ (encScan c.kind (fixFinal t g)).1) true = fixFinal t g := by
    simp only [cpyInner, cpyOut, hl2, incOut_encode c _ henc]
  rw [e3]
  exact fixFinal_fixFinal t g (detected c) (lookup_written_noquote g c hl)

/-- where the guard bites: `"\0"` encoded as utf-16 is `FF FE 00 00`, which the detector must read as the UTF-32
BOM (CSS 2.1 §4.4) — decoded without `encoding` it comes back empty -/
theorem utf16_nul_is_utf32 :
    encodeOneShot cpyInnerEnc (some (cps' "utf-16")) [0] = [0xFF, 0xFE, 0, 0] ∧
    oneShot cpyInner none true [0xFF, 0xFE, 0, 0] = [] := by decide

/-- T7.1 (auto-detected, `@charset`): a text that starts with a complete `@charset "…"` rule, encoded in an
ASCII-compatible encoding `g` (utf-8, latin-1, ASCII, any known spelling) and decoded WITHOUT an `encoding`
argument is decoded with `g` — the rewritten rule names it — and comes back as the text with the name `g` -/
theorem roundtrip_auto_charset (g : Name) (k : Kind) (name0 rest : List Nat)
    (hl : lookupName g = some (.plain k)) (hk : k = .u8 ∨ k = .l1 ∨ k = .ascii)
    (hn : ∀ ch ∈ name0, ch ≠ 0x22)
    (henc : (encScan k (fixFinal (prefix10 ++ name0 ++ 0x22 :: rest) g)).2 = true) :
    oneShot cpyInner none true (encodeOneShot cpyInnerEnc (some g) (prefix10 ++ name0 ++ 0x22 :: rest)) =
      fixFinal (prefix10 ++ name0 ++ 0x22 :: rest) g := by
  have hw := not_sig_of_plain g k hl
  have hq : ∀ ch ∈ g, ch ≠ 0x22 := by
    have := lookup_written_noquote g _ hl; rwa [hw] at this
  have hx : fixFinal (prefix10 ++ name0 ++ 0x22 :: rest) g = prefix10 ++ g ++ 0x22 :: rest := by
    have l1 : (prefix10 ++ name0 ++ 0x22 :: rest).length > 10 := by simp [prefix10]; omega
    have l2 : prefix10.isPrefixOf (prefix10 ++ name0 ++ 0x22 :: rest) = true := by
      rw [List.isPrefixOf_iff_prefix, List.append_assoc]; exact List.prefix_append _ _
    have l3 : (prefix10 ++ name0 ++ 0x22 :: rest).drop 10 = name0 ++ 0x22 :: rest := by simp [prefix10]
    have hww : (if normName g = utf8sigName then utf8Name else g) = g := hw
    simp only [fixFinal, l1, l2, if_true, l3, findQuote_noquote _ hn, hww]
    simp
  rw [hx] at henc ⊢
  -- the ASCII head of the text is its own encoding
  have hsplit : prefix10 ++ g ++ 0x22 :: rest = (prefix10 ++ g ++ [0x22]) ++ rest := by simp
  have hasc : ∀ ch ∈ prefix10 ++ g ++ [0x22], ch < 0x80 := by
    intro ch hch
    simp only [List.mem_append, List.mem_singleton] at hch
    rcases hch with (h | h) | h
    · revert ch; decide
    · exact lookup_ascii g _ hl ch h
    · omega
  have hA := encScan_ascii k hk _ hasc
  have hE : (encScan k (prefix10 ++ g ++ 0x22 :: rest)).1 = prefix10 ++ g ++ 0x22 :: (encScan k rest).1 := by
    rw [hsplit, encScan_append, hA]; simp
  have e1 : encodeOneShot cpyInnerEnc (some g) (prefix10 ++ name0 ++ 0x22 :: rest) =
      prefix10 ++ g ++ 0x22 :: (encScan k rest).1 := by
    simp only [encodeOneShot, cpyInnerEnc, cpyEncOut, hl, encOut, hx, CName.bom, CName.kind, hE]
    simp [prefix10]
  rw [e1]
  have hdet := charset_rule g (encScan k rest).1 true hq
  have hfe : finalEnc none true (prefix10 ++ g ++ 0x22 :: (encScan k rest).1) = g := by
    have hdf : detectFinal (prefix10 ++ g ++ 0x22 :: (encScan k rest).1) = _ :=
      Option.some.inj ((detect_true _).symm.trans hdet)
    unfold finalEnc pick
    rw [hdf]; rfl
  unfold oneShot
  rw [hfe]
  have e3 : cpyInner.out g (prefix10 ++ g ++ 0x22 :: (encScan k rest).1) true = prefix10 ++ g ++ 0x22 :: rest := by
    have := incOut_encode (.plain k) (prefix10 ++ g ++ 0x22 :: rest) henc
    simp only [CName.bom, CName.kind, List.nil_append, hE] at this
    simp only [cpyInner, cpyOut, hl, this]
  rw [e3, ← hx]
  exact fixFinal_twice _ g (lookup_written_noquote g _ hl)

/-! CSS 2.1 §4.4, the BOM-less wide encodings: `@charset "` read as UTF-16 / UTF-32 code units — for every
continuation and both values of `final`; the answer is implicit (`explicit = False`) -/
theorem pattern_utf32_le (t : List Nat) (f : Bool) : detect (0x40 :: 0 :: 0 :: 0 :: t) f = some (.utf32le, false) := by
  have h : detect [0x40, 0, 0, 0] false = some (.utf32le, false) := by decide
  exact detect_never_revised [0x40, 0, 0, 0] t f _ h
theorem pattern_utf32_be (t : List Nat) (f : Bool) : detect (0 :: 0 :: 0 :: 0x40 :: t) f = some (.utf32be, false) := by
  have h : detect [0, 0, 0, 0x40] false = some (.utf32be, false) := by decide
  exact detect_never_revised [0, 0, 0, 0x40] t f _ h
theorem pattern_utf16_le (t : List Nat) (f : Bool) : detect (0x40 :: 0 :: 0x63 :: 0 :: t) f = some (.utf16le, false) := by
  have h : detect [0x40, 0, 0x63, 0] false = some (.utf16le, false) := by decide
  exact detect_never_revised [0x40, 0, 0x63, 0] t f _ h
theorem pattern_utf16_be (t : List Nat) (f : Bool) : detect (0 :: 0x40 :: t) f = some (.utf16be, false) := by
  have h : detect [0, 0x40] false = some (.utf16be, false) := by decide
  exact detect_never_revised [0, 0x40] t f _ h

/-- T7.1 (auto-detected, BOM-less UTF-16 / UTF-32): a text that starts with `@c` (in particular with an `@charset`
rule), encoded as utf-16-le / -be / utf-32-le / -be (any known spelling `g`, no BOM) and decoded WITHOUT an
`encoding` argument, is recognised by its first code units, decoded with that encoding, and comes back with
the name in its `@charset` rule rewritten to the detector's name for it -/
theorem roundtrip_auto_pattern (g : Name) (k : Kind) (tl : List Nat)
    (hl : lookupName g = some (.plain k)) (hk : k = .u16le ∨ k = .u16be ∨ k = .u32le ∨ k = .u32be)
    (henc : (encScan k (fixFinal (0x40 :: 0x63 :: tl) g)).2 = true) :
    oneShot cpyInner none true (encodeOneShot cpyInnerEnc (some g) (0x40 :: 0x63 :: tl)) =
      fixFinal (0x40 :: 0x63 :: tl) (patName k) := by
  obtain ⟨tl', hx⟩ := fixFinal_head tl g
  have e1 : encodeOneShot cpyInnerEnc (some g) (0x40 :: 0x63 :: tl) = patHead k ++ (encScan k tl').1 := by
    simp only [encodeOneShot, cpyInnerEnc, cpyEncOut, hl, encOut, hx, CName.bom, CName.kind, encScan_at_c k hk]
    simp
  have hdet : detect (patHead k ++ (encScan k tl').1) true =
      some (match k with | .u16le => .utf16le | .u16be => .utf16be | .u32le => .utf32le | _ => .utf32be, false) := by
    rcases hk with rfl | rfl | rfl | rfl
    · exact pattern_utf16_le _ true
    · exact pattern_utf16_be _ true
    · exact pattern_utf32_le _ true
    · exact pattern_utf32_be _ true
  have hfe : finalEnc none true (patHead k ++ (encScan k tl').1) = patName k := by
    have hdf : detectFinal (patHead k ++ (encScan k tl').1) = _ :=
      Option.some.inj ((detect_true _).symm.trans hdet)
    unfold finalEnc pick
    rw [hdf]
    rcases hk with rfl | rfl | rfl | rfl <;> rfl
  have hl2 : lookupName (patName k) = some (.plain k) := by
    rcases hk with rfl | rfl | rfl | rfl <;> decide
  rw [e1]
  unfold oneShot
  rw [hfe]
  have e3 : cpyInner.out (patName k) (patHead k ++ (encScan k tl').1) true = fixFinal (0x40 :: 0x63 :: tl) g := by
    have := incOut_encode (.plain k) (fixFinal (0x40 :: 0x63 :: tl) g) henc
    simp only [CName.bom, CName.kind, List.nil_append, hx, encScan_at_c k hk] at this
    simp only [cpyInner, cpyOut, hl2, this, hx]
  rw [e3]
  exact fixFinal_fixFinal _ g (patName k) (lookup_written_noquote g _ hl)

/-! ## the stream classes (`StreamReader`, `StreamWriter`; `Model/CodecStream.lean`) -/

/-- T7.7 the stream reader, for EVERY way the stream hands out the bytes and every `encoding` / `force`: what
`read()` returns is a prefix of one-shot `decode` of the whole data (nothing wrong is ever handed out) … -/
theorem stream_reader_prefix (I : Inner) (given : Option Name) (force : Bool) (cs : List (List Nat)) :
    ∃ ext, oneShot I given force cs.flatten = readAll I given force cs ++ ext :=
  readAll_prefix I given force cs

/-- … and exactly the one-shot result as soon as the whole data lets the reader start (`¬ RUnd`: the encoding
is detected and the text does not end inside a possible `@charset` rule — the codecs stream API has no
end-of-data signal, so such data stays buffered) and the inner decoder has nothing pending at the end.
`_partial`: the statement without the two hypotheses is false for the code (no `final` in `StreamReader.decode`). -/
theorem stream_reader_complete_partial (I : Inner) (given : Option Name) (force : Bool) (cs : List (List Nat))
    (hstart : ¬ RUnd I given force cs.flatten)
    (hpend : I.out (finalEnc given force cs.flatten) cs.flatten true =
             I.out (finalEnc given force cs.flatten) cs.flatten false) :
    readAll I given force cs = oneShot I given force cs.flatten :=
  readAll_complete I given force cs hstart hpend

/-- T7.7 with the exception: `read()` of the CSS stream reader raises iff the inner decoder of the encoding the
reader settles on raises on the whole data read, taken as non-final data (no encoding settled: never) — for every
way the stream hands out the bytes; otherwise it returns `readAll`. Data that only ENDS inside a character
never raises (no `final` in the stream API), where one-shot `decode` does. -/
theorem stream_reader_errors (I : Inner) (given : Option Name) (force : Bool) (cs : List (List Nat)) :
    readAllE I given force cs = if rerr given force cs.flatten then none else some (readAll I given force cs) :=
  readAllE_eq I given force cs

/-- T7.7 (writer): for every chunking of the text what the stream writer has written is a prefix of one-shot
`encode` … -/
theorem stream_writer_prefix (I : InnerEnc) (given : Option Name) (cs : List (List Nat)) :
    ∃ ext, encodeOneShot I given cs.flatten = writeAll I given cs ++ ext :=
  writeAll_prefix I given cs

/-- … and exactly the one-shot bytes as soon as the whole text lets the writer start (`¬ WUnd`) and the inner
encoder adds nothing at the end of the data -/
theorem stream_writer_complete_partial (I : InnerEnc) (given : Option Name) (cs : List (List Nat))
    (hstart : ¬ WUnd given cs.flatten)
    (hfin : I.out (finalE given cs.flatten) (finalT given cs.flatten) true =
            I.out (finalE given cs.flatten) (finalT given cs.flatten) false) :
    writeAll I given cs = encodeOneShot I given cs.flatten :=
  writeAll_complete I given cs hstart hfin

/-- T7.7 (writer) with the exception: some `write(chunk)` raises (`UnicodeEncodeError`) iff the writer has started
on the whole text (`¬ WUnd`) and the inner encoder refuses the text it is handed (`werr`); otherwise exactly
`writeAll` has been written — for every chunking -/
theorem stream_writer_errors (I : InnerEnc) (given : Option Name) (cs : List (List Nat)) :
    (writeAllE I given cs = none ↔ (cs ≠ [] ∧ werr given cs.flatten)) ∧
    (∀ out, writeAllE I given cs = some out → out = writeAll I given cs) :=
  writeAllE_eq I given cs

/-- T7.1 through the stream classes over CPython's codecs: a text written chunk by chunk with
`getwriter("css")(…, encoding=g)` and read back through `getreader("css")(…, encoding=g)` from a stream that hands
out the bytes in ANY pieces is the text with the `@charset` name rewritten — for every known `g`, every
encodable text that does not end inside a possible `@charset` rule, every chunking on both sides -/
theorem stream_roundtrip (g : Name) (c : CName) (ts bs : List (List Nat)) (hl : lookupName g = some c)
    (henc : (encScan c.kind (fixFinal ts.flatten g)).2 = true)
    (hstart : ¬ WUnd (some g) ts.flatten)
    (hb : bs.flatten = writeAll cpyInnerEnc (some g) ts) :
    readAll cpyInner (some g) true bs = fixFinal ts.flatten g := by
  have hq := lookup_written_noquote g c hl
  -- the text is accepted by the rewriter, so is its rewritten form, and that is not empty
  obtain ⟨r, hr⟩ : ∃ r, fixEncoding ts.flatten g false = some r := by
    cases h : fixEncoding ts.flatten g false with
    | none => exact absurd h hstart
    | some r => exact ⟨r, rfl⟩
  have hrf : fixFinal ts.flatten g = r := by
    have := fixFinal_of_early ts.flatten [] g r hr
    simpa using this
  have hne : fixFinal ts.flatten g ≠ [] := by rw [hrf]; exact fix_some_ne_nil _ _ _ hr
  have hr2 : fixEncoding (fixFinal ts.flatten g) g false = some (fixFinal ts.flatten g) := by
    rw [hrf]; exact fixEncoding_twice _ g r hq hr
  -- writer = one-shot encode
  have hw : writeAll cpyInnerEnc (some g) ts = c.bom ++ (encScan c.kind (fixFinal ts.flatten g)).1 := by
    rw [stream_writer_complete_partial cpyInnerEnc (some g) ts hstart]
    · simp [encodeOneShot, cpyInnerEnc, cpyEncOut, hl, encOut]
    · simp [finalE, finalT, cpyInnerEnc, cpyEncOut, hl, encOut, hne]
  have hout : ∀ f, cpyInner.out g bs.flatten f = fixFinal ts.flatten g := by
    intro f
    simp only [cpyInner, cpyOut, hl, hb, hw, incOut_encode_f c _ f henc]
  have hfe : finalEnc (some g) true bs.flatten = g := rfl
  rw [stream_reader_complete_partial cpyInner (some g) true bs]
  · rw [hb, hw]
    have := roundtrip_given g c ts.flatten hl henc
    have e1 : encodeOneShot cpyInnerEnc (some g) ts.flatten = c.bom ++ (encScan c.kind (fixFinal ts.flatten g)).1 := by
      simp [encodeOneShot, cpyInnerEnc, cpyEncOut, hl, encOut]
    rw [e1] at this
    exact this
  · unfold RUnd
    simp only [readerEnc, hout false, hr2]
    simp
  · rw [hfe, hout true, hout false]

/-! non-vacuity: the hypotheses above are met by ordinary inputs -/
/-- an inner codec satisfying the `Inner` laws exists (identity, e.g. latin-1 on bytes) -/
def idInner : Inner := ⟨fun _ b _ => b, fun _ a b _ => ⟨b, rfl⟩, fun _ => rfl⟩
example : runAll idInner none true [[0x40, 0x63], [0x68]] = [0x40, 0x63, 0x68] := by decide
def idInnerEnc : InnerEnc := ⟨fun _ b _ => b, fun _ a b _ => ⟨b, rfl⟩, fun _ => rfl⟩
example : erunAll idInnerEnc none [[0x40, 0x63], [0x68]] = [0x40, 0x63, 0x68] := by decide
example : fixEncoding [0x61, 0x62] [0x78] false = some [0x61, 0x62] := by decide
example : detectUnicode [0x61] false = some (.utf8, false) := by decide
example : detect [0x40, 0x63] false = none := by decide
example : detect [0x61] false = some (.utf8, false) := by decide
example : detect (prefix10 ++ [0x78] ++ 0x22 :: [0x3B]) false = some (.named [0x78], true) :=
  charset_rule [0x78] [0x3B] false (by decide)
/-- `é€😀` in UTF-8, cut inside each character -/
example : incDecode (.plain .u8) [[0xC3], [0xA9, 0xE2, 0x82], [0xAC, 0xF0, 0x9F], [0x98, 0x80]] =
    some [0xE9, 0x20AC, 0x1F600] := by decide
example : Agree .u16 ([[0xFF], [0xFE, 0x3D, 0xD8], [0x00, 0xDE]] : List (List Nat)).flatten := by
  right; left; decide
example : incDecode .u16 [[0xFF], [0xFE, 0x3D, 0xD8], [0x00, 0xDE]] = some [0x1F600] := by decide
example : statelessEncode .u16 [0x1F600] = some [0xFF, 0xFE, 0x3D, 0xD8, 0x00, 0xDE] := by decide
example : incEncode .u8sig [[0x61], [], [0xE9]] = some [0xEF, 0xBB, 0xBF, 0x61, 0xC3, 0xA9] := by decide
example : incEncode (.plain .l1) [[0x61], [0x100]] = none := by decide
/-- `@charset "x";é` encoded and decoded as utf-8: the name becomes utf-8 -/
example : lookupName (cps' "utf-8") = some (.plain .u8) := by decide
example : (encScan (CName.plain .u8).kind (fixFinal (prefix10 ++ [0x78, 0x22, 0x3B, 0xE9]) (cps' "utf-8"))).2 = true := by
  decide
example : oneShot cpyInner (some (cps' "utf-8")) true
    (encodeOneShot cpyInnerEnc (some (cps' "utf-8")) (prefix10 ++ [0x78, 0x22, 0x3B, 0xE9])) =
    prefix10 ++ cps' "utf-8" ++ [0x22, 0x3B, 0xE9] := by decide
/-- stream classes: `a{}` in utf-16 written in two pieces, read back byte pairs at a time -/
example : ¬ WUnd (some (cps' "utf-16")) ([[0x61], [0x7B, 0x7D]] : List (List Nat)).flatten := by decide
example : writeAll cpyInnerEnc (some (cps' "utf-16")) [[0x61], [0x7B, 0x7D]] = [0xFF, 0xFE, 0x61, 0, 0x7B, 0, 0x7D, 0] := by
  decide
example : readAll cpyInner none true [[0xFF], [0xFE, 0x61], [0, 0x7B, 0], [0x7D, 0]] = [0x61, 0x7B, 0x7D] := by decide
example : ¬ RUnd cpyInner none true ([[0xFF], [0xFE, 0x61], [0, 0x7B, 0], [0x7D, 0]] : List (List Nat)).flatten := by
  decide
/-- … and the data that stays buffered: an open `@charset` rule -/
example : readAll cpyInner none true [[0x40, 0x63, 0x68]] = [] ∧ RUnd cpyInner none true [0x40, 0x63, 0x68] := by decide
/-- auto-detection: `é` as utf-16 with BOM, and `@charset "x";é` as latin-1 -/
example : lookupName (cps' "UTF_16") = some .u16 ∧
    (encScan CName.u16.kind (fixFinal [0xE9] (cps' "UTF_16"))).2 = true ∧
    (fixFinal [0xE9] (cps' "UTF_16")).head? ≠ some 0 := by decide
example : oneShot cpyInner none true (encodeOneShot cpyInnerEnc (some (cps' "UTF_16")) [0xE9]) = [0xE9] := by decide
example : lookupName (cps' "latin-1") = some (.plain .l1) ∧
    (encScan .l1 (fixFinal (prefix10 ++ [0x78] ++ 0x22 :: [0x3B, 0xE9]) (cps' "latin-1"))).2 = true := by decide
example : oneShot cpyInner none true (encodeOneShot cpyInnerEnc (some (cps' "latin-1")) (prefix10 ++ [0x78] ++ 0x22 :: [0x3B, 0xE9])) =
    prefix10 ++ cps' "latin-1" ++ [0x22, 0x3B, 0xE9] := by decide
/-- errors: truncated UTF-8 raises in both; the incremental decoder at the final call -/
example : runAllE cpyInner none true [[0x61], [0xC3]] = none ∧ oneShotE cpyInner none true [0x61, 0xC3] = none := by
  decide
example : runAllE cpyInner none true [[0x61, 0xC3], [0xA9]] = some [0x61, 0xE9] := by decide
example : lookupName (finalEnc none true [0x61, 0xC3, 0xA9]) = some (.plain .u8) ∧ Agree (.plain .u8) [0x61, 0xC3, 0xA9] := by
  constructor
  · decide
  · trivial
example : erunAllE cpyInnerEnc (some (cps' "ascii")) [[0x61], [0xE9]] = none ∧
    encodeOneShotE cpyInnerEnc (some (cps' "ascii")) [0x61, 0xE9] = none := by decide
example : erunAllE cpyInnerEnc (some (cps' "latin-1")) [[0x61], [0xE9]] = some [0x61, 0xE9] := by decide
example : irun (.plain .u8) (CName.init (.plain .u8)) [[0x61, 0xE2], [0x82]] = some (⟨some .u8, [0xE2, 0x82]⟩, [0x61]) := by
  decide
/-- BOM-less UTF-16-BE with an `@charset` rule, decoded without `encoding` -/
example : lookupName (cps' "UTF-16BE") = some (.plain .u16be) ∧
    (encScan .u16be (fixFinal (0x40 :: 0x63 :: ((prefix10.drop 2) ++ [0x78, 0x22, 0x3B, 0xE9])) (cps' "UTF-16BE"))).2 = true :=
  ⟨by decide, by decide⟩
example : oneShot cpyInner none true (encodeOneShot cpyInnerEnc (some (cps' "UTF-16BE")) (prefix10 ++ [0x78, 0x22, 0x3B, 0xE9])) =
    prefix10 ++ cps' "utf-16-be" ++ [0x22, 0x3B, 0xE9] := by decide
example : ¬ Agree .u16 ([[0x61], [0]] : List (List Nat)).flatten := by decide
example : readAllE cpyInner none true [[0x61], [0xFF]] = none ∧ readAllE cpyInner none true [[0x61], [0xC3]] = some [0x61] := by
  decide
example : writeAllE cpyInnerEnc (some (cps' "ascii")) [[0x61], [0xE9]] = none ∧
    writeAllE cpyInnerEnc (some (cps' "latin-1")) [[0x61], [0xE9]] = some [0x61, 0xE9] := by decide

end CssVerif.C07
