import CssVerif.Lemmas.Mutators
import CssVerif.Lemmas.MutatorTree
import CssVerif.Gen.C11Scripts
/-!
# C11 — a rejected DOM mutation changes nothing

Property theorems only. Model: `Model/Mutators.lean` (effect scripts, interpreter `run`, static discipline `post`);
the scripts are *generated* from the Python AST of the current source (`Gen/C11Scripts.lean`, translator
`tools/gen/c11_scripts.py`), so T11.2/T11.3b are re-decided against the code on every run. Tie to the running
code: `tools/harness/c11.py` (trace correspondence + field-level prediction + oracle).
-/
namespace CssVerif.C11
open CssVerif.Mutators

/-- **T11.1 `disciplined_atomic`** — for EVERY script that passes the static discipline, EVERY start state, EVERY
sequence of sub-parser verdicts / branch decisions `os` and every fuel: if the run ends with a DOM exception
(any, including the read-only rejection) then every field of the object holds the value it had before the call. -/
theorem disciplined_atomic (fs : List Field) (sc : Stmt) (hd : Disciplined fs sc = true)
    (fuel : Nat) (st : St) (os : Outcomes) (hwf : st.WF)
    (hexc : (run fuel sc st os).exit = .exc ∨ (run fuel sc st os).exit = .roExc) :
    ∀ f ∈ fs, (run fuel sc st os).st.cur f = st.cur f :=
  disciplined_atomic_aux fs sc hd fuel st os hwf hexc

/-- **T11.3a `readonly_rejects`** — a script whose first action is the read-only guard, run on a read-only object,
ends with the read-only rejection (NoModificationAllowedErr) *before any step*: no field, no backup slot touched,
no outcome consumed (or the interpreter is out of fuel — never any other way of ending). -/
theorem readonly_rejects (sc : Stmt) (hg : guardedFirst sc = true) (fuel : Nat) (st : St) (os : Outcomes)
    (hro : st.readonly = true) :
    ((run fuel sc st os).exit = .roExc ∨ (run fuel sc st os).exit = .stuck) ∧
    (run fuel sc st os).st.cur = st.cur ∧ (run fuel sc st os).st.saved = st.saved ∧
    (run fuel sc st os).os = os :=
  readonly_rejects_aux sc hg fuel st os hro

/-- with enough fuel the run does end (non-vacuity of the disjunction above): fuel 3 suffices for `guard; …` -/
example : (run 3 (.seq (.mark 7) (.seq .guard (.assign 0))) (St.init true) []).exit = .roExc := by decide

/-- **T11.3b `readonly_safe`** — semantic version for mutators that delegate the guard (e.g. `add` → `insertRule`):
if the static analysis started in "certainly read-only" finds every way of ending clean, then on a read-only
object NO completed run (`stuck` = the interpreter's fuel ran out mid-way), however it ends, changes a field. -/
theorem readonly_safe (fs : List Field) (sc : Stmt) (hd : ReadonlySafe fs sc = true)
    (fuel : Nat) (st : St) (os : Outcomes) (hwf : st.WF) (hro : st.readonly = true)
    (hne : (run fuel sc st os).exit ≠ .stuck) :
    ∀ f ∈ fs, (run fuel sc st os).st.cur f = st.cur f :=
  readonly_safe_aux fs sc hd fuel st os hwf hro hne

/-! ## T11.2 — every extracted public mutator passes the discipline

Re-decided against the scripts extracted from the current source on every run. (On the tree at the start of the
build round it failed for 17 mutators and later for `CSSStyleSheet.insertRule/add`; each was a genuine defect,
replayed on the implementation and fixed since: `known/C11.json`.) -/

/-- **T11.2** `∀ m ∈ scripts, Disciplined m` (as a computation, for the kernel) -/
theorem all_disciplined : (Gen.C11.scripts.all fun m => Disciplined m.fields m.body) = true := by
  decide +kernel

/-- **T11.1 + T11.2, the headline**: for EVERY extracted public mutator, EVERY well-formed start state, EVERY
sequence of sub-parser verdicts and branch decisions: a run that ends with a DOM exception leaves every observable
field of the object at the value it had before the call. -/
theorem every_mutator_atomic (m : Script) (hm : m ∈ Gen.C11.scripts) (fuel : Nat) (st : St) (os : Outcomes)
    (hwf : st.WF) (hexc : (run fuel m.body st os).exit = .exc ∨ (run fuel m.body st os).exit = .roExc) :
    ∀ f ∈ m.fields, (run fuel m.body st os).st.cur f = st.cur f :=
  disciplined_atomic m.fields m.body (List.all_eq_true.mp all_disciplined m hm) fuel st os hwf hexc

/-- the list is not empty and the hypotheses are satisfiable: the script of `CSSStyleSheet.cssText` is in it, and
with the decision sequence "first sub-parser raises" it does end with a DOM exception from a well-formed state -/
example : (Gen.C11.scripts.map (·.name)).contains "CSSStyleSheet.cssText" = true := by decide
example : (St.init false).WF := by
  intro (f : Nat)
  show (if f < 1000000 then f else 0) < 2000000
  split
  · rename_i h; exact Nat.lt_trans h (by decide)
  · decide

/-- … and a run that does end with a DOM exception exists (guard passed, the sub-parser raises) -/
example : (run 10 (seqs [.guard, .mayRaise, .assign 0]) (St.init false) [true]).exit = .exc := by decide

/-- mutators exempted from `all_readonly_safe`, with the reason -/
def exemptReadonly : List String := [
  -- classes without a read-only mode of their own (no `readonly` constructor parameter): they delegate to the
  -- guards of the sheet / rule they operate on
  "_Namespaces.__setitem__", "_Namespaces.__delitem__",
  "Property.cssText", "Property.name", "Property.propertyValue", "Property.value", "Property.priority",
  -- edits the style of an existing margin rule, which has its own read-only flag; a CSSPageRule *created*
  -- read-only has no margin rules (its constructor takes none), so this branch is not reachable for such objects
  "CSSPageRule.__setitem__"]

/-- **former finding C11-readonly-unguarded-2 (fixed by 14b7e63) at model level**: the five mutators that had no
read-only guard (`del selectorList[i]`, the `cssRules` setters of sheet / @media / @page, `rule.atkeyword =`) are
extracted, begin with the guard, and are read-only safe — they are no longer exempted from `all_readonly_safe` -/
theorem fixed_readonly_unguarded_2 :
    (["SelectorList.__delitem__", "CSSStyleSheet.cssRules", "CSSMediaRule.cssRules", "CSSPageRule.cssRules",
      "CSSRule.atkeyword"].all fun n =>
        Gen.C11.scripts.any fun m => m.name == n && ReadonlySafe m.fields m.body && guardedFirst m.body) = true ∧
    (["SelectorList.__delitem__", "CSSStyleSheet.cssRules", "CSSMediaRule.cssRules", "CSSPageRule.cssRules",
      "CSSRule.atkeyword"].all fun n => !exemptReadonly.contains n) = true := by
  constructor <;> decide +kernel

/-- what the guard is for: an unguarded mutation run on a read-only object ends normally with the field changed -/
example : (run 10 (.mutate 0) (St.init true) []).exit = .norm ∧
    (run 10 (.mutate 0) (St.init true) []).st.cur 0 ≠ (St.init true).cur 0 := by decide

/-- **finding C11-encoding-override-internal at model level**: the parser-internal helper
`CSSStyleSheet._setCssTextWithEncodingOverride` (listed apart in `Gen.C11.internalScripts`, not a public mutator) does
NOT pass the discipline: it stores `__encodingOverride` / `__newEncoding` before `cssText` may reject, and assigns
`encoding` (which may reject) after the new rules are committed -/
theorem finding_encoding_override_internal :
    (Gen.C11.internalScripts.all fun m => !Disciplined m.fields m.body && !(dirtyOnExc m.fields m.body).isEmpty) = true := by
  decide +kernel

/-- **T11.3 (instances)** every extracted mutator, started on a read-only object, leaves every field unchanged
however it ends (except `exemptReadonly`) -/
theorem all_readonly_safe :
    (Gen.C11.scripts.all fun m => ReadonlySafe m.fields m.body || exemptReadonly.contains m.name) = true := by
  decide +kernel

/-! ## T11.4 — the induction over the ownership depth

`run` answers a `call f` (a public mutator of the child object held in field `f` is called) by the *contract* "the
child raises and is unchanged, or it changes". `World.run` (`Model/MutatorTree.lean`) answers it by running one of
the child's own scripts on the child's state, the child's calls answered the same way one level further down, and
reports "raised" and "changed" independently. The theorems below derive the contract from `Disciplined` for the
whole ownership tree, for every depth. -/

/-- **T11.4a `child_contract_derived`** — in an ownership tree whose every mutator passes the discipline and whose
objects are in well-formed states, at EVERY ownership depth `d` and for EVERY object `key`: a child call that
ends with a DOM exception reports the child unchanged (all observable fields of the child mutator that ran hold the
versions they had). This is the assumption `Handler.shallow` builds in, now a consequence. Induction on `d`. -/
theorem child_contract_derived (W : World) (hd : W.Disciplined) (hwf : W.WF) (d : Nat) (key : Key) :
    (W.handler d key).Atomic :=
  W.handler_atomic hd hwf d key

/-- **T11.4b `tree_atomic`** — atomicity for the whole object tree at any depth: a disciplined mutator run on ANY
object of such a tree, its child calls really executed `d` levels deep (any `d`), any fuel, any start state, any
outcome sequence: if it ends with a DOM exception, every observable field of the object holds the version it had
before the call. (A field keeps its version only while the child it holds is observably unchanged — `runG`, case
`call` — so this is a statement about the subtree, made explicit in `tree_atomic_obs`.) -/
theorem tree_atomic (W : World) (hd : W.Disciplined) (hwf : W.WF) (d : Nat) (key : Key)
    (m : Script) (hm : m ∈ W.scripts key) (fuel : Nat) (st : St) (os : Outcomes) (hst : st.WF)
    (hexc : (W.run d key fuel m.body st os).exit = .exc ∨ (W.run d key fuel m.body st os).exit = .roExc) :
    ∀ f ∈ m.fields, (W.run d key fuel m.body st os).st.cur f = st.cur f :=
  W.run_atomic hd hwf d key m.fields m.body (hd key m hm) fuel st os hst hexc

/-- **T11.4c `tree_atomic_obs`** — the same as an equation between observable trees: unfolded to ANY number `n` of
levels (field versions of the object, of the children they denote, of their children …) the tree below the object
is the same after a rejected call as before, provided the observable fields of the object's class are among the
fields of the mutator's script. -/
theorem tree_atomic_obs (W : World) (hd : W.Disciplined) (hwf : W.WF) (d : Nat) (key : Key)
    (m : Script) (hm : m ∈ W.scripts key) (fuel : Nat) (st : St) (os : Outcomes) (hst : st.WF)
    (hexc : (W.run d key fuel m.body st os).exit = .exc ∨ (W.run d key fuel m.body st os).exit = .roExc)
    (fields : Key → List Field) (hf : ∀ f ∈ fields key, f ∈ m.fields) (n : Nat) :
    W.obs fields n key (W.run d key fuel m.body st os).st = W.obs fields n key st :=
  W.obs_congr fields n key _ _ fun f h => tree_atomic W hd hwf d key m hm fuel st os hst hexc f (hf f h)

/-- **T11.4d `cssutils_tree_atomic`** — the instance for the code: every ownership tree all of whose objects carry
extracted mutators of the current source (`Gen.C11.scripts`, T11.2) is atomic under rejection at every depth. -/
theorem cssutils_tree_atomic (W : World) (hW : ∀ k, ∀ m ∈ W.scripts k, m ∈ Gen.C11.scripts) (hwf : W.WF)
    (d : Nat) (key : Key) (m : Script) (hm : m ∈ W.scripts key) (fuel : Nat) (st : St) (os : Outcomes)
    (hst : st.WF)
    (hexc : (W.run d key fuel m.body st os).exit = .exc ∨ (W.run d key fuel m.body st os).exit = .roExc) :
    ∀ f ∈ m.fields, (W.run d key fuel m.body st os).st.cur f = st.cur f :=
  tree_atomic W (fun k m hm => List.all_eq_true.mp all_disciplined m (hW k m hm)) hwf d key m hm fuel st os hst hexc

/-- a three-level tree (non-vacuity): every object has the one mutator "delegate to the child in field 0, or raise";
started at the root with three ownership levels, the decisions "delegate, delegate, raise" end with a DOM
exception that travelled up two levels -/
def exLevel : Script := ⟨"Level.set", [0], .choice (.call 0) .raise⟩
def exWorld : World := ⟨fun _ => [exLevel], fun _ => St.init false⟩
example : exWorld.Disciplined := by
  intro k m hm
  have : m = exLevel := by simpa [exWorld] using hm
  subst this; decide
example : exWorld.WF := by
  intro k (f : Nat)
  show (if f < 1000000 then f else 0) < 2000000
  split
  · rename_i h; exact Nat.lt_trans h (by decide)
  · decide
example : (exWorld.run 2 [] 10 exLevel.body (St.init false) [true, false, true, false, false]).exit = .exc := by
  decide

/-- the extra hypotheses of T11.4c / T11.4d are satisfiable: the observable fields `[0]` of `exLevel` are fields of its
script; a world whose objects all carry the extracted mutators satisfies `hW` -/
example : ∀ f ∈ (fun (_ : Key) => [0]) ([] : Key), f ∈ exLevel.fields := by
  intro f hf; simpa [exLevel] using hf
example : ∀ (k : Key), ∀ m ∈ (⟨fun _ => Gen.C11.scripts, fun _ => St.init false⟩ : World).scripts k,
    m ∈ Gen.C11.scripts := fun _ _ h => h

/-- the deep semantics does NOT build the contract in (the theorem is not true by construction): with an
undisciplined child mutator ("assign, then raise") a rejected `call 0` leaves field 0 of the parent changed -/
def exBadWorld : World := ⟨fun _ => [⟨"Bad.set", [0], seqs [.assign 0, .raise]⟩], fun _ => St.init false⟩
example : (exBadWorld.run 1 [] 10 (.call 0) (St.init false) [false]).exit = .exc ∧
    (exBadWorld.run 1 [] 10 (.call 0) (St.init false) [false]).st.cur 0 ≠ (St.init false).cur 0 := by decide

/-- **T11.4e (tie, table level)** every `call` site of the extracted scripts names a member for which at least one
extracted (hence, by T11.2, disciplined) script exists, and the names the table resolves to are scripts of the list;
`callSites` counts the `call` statements the scripts really contain (so the sites exist: 13 on the current tree) -/
theorem call_deps_covered :
    (Gen.C11.callDeps.all fun e => e.2.all fun d =>
      !d.2.isEmpty && d.2.all fun n => (Gen.C11.scripts.map (·.name)).contains n) = true := by decide

/-- the sites where a private helper of a child (no public mutator, no script) is called keep the assumed contract;
each such (script, helper) pair carries a written justification in the translator, and none is unjustified -/
theorem helper_deps_justified : Gen.C11.helperDepsUnjustified = [] := by decide

theorem call_sites_counted :
    ((Gen.C11.scripts ++ Gen.C11.internalScripts).map fun m => countCalls m.body).sum = Gen.C11.callSites := by
  decide +kernel

/-- the translator extracted every mutator it was asked for -/
theorem all_extracted : Gen.C11.notExtracted = [] := by decide

end CssVerif.C11
