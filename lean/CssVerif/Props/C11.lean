import CssVerif.Lemmas.Mutators
import CssVerif.Gen.C11Scripts
/-!
# C11 — a rejected DOM mutation changes nothing

Property theorems only. Model: `Model/Mutators.lean` (effect scripts, interpreter `run`, static discipline `post`);
the scripts are *generated* from the Python AST of the current source (`Gen/C11Scripts.lean`, translator
`tools/gen/c11_scripts.py`), so T11.2/T11.3b are re-decided against the code on every run. Tie to the running
code: `tools/harness/c11.py` (trace correspondence + field-level prediction + oracle).
-/
namespace CssVerif.C11
open CssVerif.Mutators

/-- **T11.1 `disciplined_atomic`** — for EVERY script that passes the static discipline, EVERY start state, EVERY
sequence of sub-parser verdicts / branch decisions `os` and every fuel: if the run ends with a DOM exception
(any, including the read-only rejection) then every field of the object holds the value it had before the call. -/
theorem disciplined_atomic (fs : List Field) (sc : Stmt) (hd : Disciplined fs sc = true)
    (fuel : Nat) (st : St) (os : Outcomes) (hwf : st.WF)
    (hexc : (run fuel sc st os).exit = .exc ∨ (run fuel sc st os).exit = .roExc) :
    ∀ f ∈ fs, (run fuel sc st os).st.cur f = st.cur f :=
  disciplined_atomic_aux fs sc hd fuel st os hwf hexc

/-- **T11.3a `readonly_rejects`** — a script whose first action is the read-only guard, run on a read-only object,
ends with the read-only rejection (NoModificationAllowedErr) *before any step*: no field, no backup slot touched,
no outcome consumed (or the interpreter is out of fuel — never any other way of ending). -/
theorem readonly_rejects (sc : Stmt) (hg : guardedFirst sc = true) (fuel : Nat) (st : St) (os : Outcomes)
    (hro : st.readonly = true) :
    ((run fuel sc st os).exit = .roExc ∨ (run fuel sc st os).exit = .stuck) ∧
    (run fuel sc st os).st.cur = st.cur ∧ (run fuel sc st os).st.saved = st.saved ∧
    (run fuel sc st os).os = os :=
  readonly_rejects_aux sc hg fuel st os hro

/-- with enough fuel the run does end (non-vacuity of the disjunction above): fuel 3 suffices for `guard; …` -/
example : (run 3 (.seq (.mark 7) (.seq .guard (.assign 0))) (St.init true) []).exit = .roExc := by decide

/-- **T11.3b `readonly_safe`** — semantic version for mutators that delegate the guard (e.g. `add` → `insertRule`):
if the static analysis started in "certainly read-only" finds every way of ending clean, then on a read-only
object NO completed run (`stuck` = the interpreter's fuel ran out mid-way), however it ends, changes a field. -/
theorem readonly_safe (fs : List Field) (sc : Stmt) (hd : ReadonlySafe fs sc = true)
    (fuel : Nat) (st : St) (os : Outcomes) (hwf : st.WF) (hro : st.readonly = true)
    (hne : (run fuel sc st os).exit ≠ .stuck) :
    ∀ f ∈ fs, (run fuel sc st os).st.cur f = st.cur f :=
  readonly_safe_aux fs sc hd fuel st os hwf hro hne

/-! ## T11.2 — every extracted public mutator passes the discipline

Re-decided against the scripts extracted from the current source on every run. (On the tree at the start of the
build round it failed for 17 mutators and later for `CSSStyleSheet.insertRule/add`; each was a genuine defect,
replayed on the implementation and fixed since: `known/C11.json`.) -/

/-- **T11.2** `∀ m ∈ scripts, Disciplined m` (as a computation, for the kernel) -/
theorem all_disciplined : (Gen.C11.scripts.all fun m => Disciplined m.fields m.body) = true := by
  decide +kernel

/-- **T11.1 + T11.2, the headline**: for EVERY extracted public mutator, EVERY well-formed start state, EVERY
sequence of sub-parser verdicts and branch decisions: a run that ends with a DOM exception leaves every observable
field of the object at the value it had before the call. -/
theorem every_mutator_atomic (m : Script) (hm : m ∈ Gen.C11.scripts) (fuel : Nat) (st : St) (os : Outcomes)
    (hwf : st.WF) (hexc : (run fuel m.body st os).exit = .exc ∨ (run fuel m.body st os).exit = .roExc) :
    ∀ f ∈ m.fields, (run fuel m.body st os).st.cur f = st.cur f :=
  disciplined_atomic m.fields m.body (List.all_eq_true.mp all_disciplined m hm) fuel st os hwf hexc

/-- the list is not empty and the hypotheses are satisfiable: the script of `CSSStyleSheet.cssText` is in it, and
with the decision sequence "first sub-parser raises" it does end with a DOM exception from a well-formed state -/
example : (Gen.C11.scripts.map (·.name)).contains "CSSStyleSheet.cssText" = true := by decide
example : (St.init false).WF := by
  intro (f : Nat)
  show (if f < 1000000 then f else 0) < 2000000
  split
  · rename_i h; exact Nat.lt_trans h (by decide)
  · decide

/-- … and a run that does end with a DOM exception exists (guard passed, the sub-parser raises) -/
example : (run 10 (seqs [.guard, .mayRaise, .assign 0]) (St.init false) [true]).exit = .exc := by decide

/-- mutators exempted from `all_readonly_safe`, with the reason -/
def exemptReadonly : List String := [
  -- classes without a read-only mode of their own (no `readonly` constructor parameter): they delegate to the
  -- guards of the sheet / rule they operate on
  "_Namespaces.__setitem__", "_Namespaces.__delitem__",
  "Property.cssText", "Property.name", "Property.propertyValue", "Property.value", "Property.priority",
  -- edits the style of an existing margin rule, which has its own read-only flag; a CSSPageRule *created*
  -- read-only has no margin rules (its constructor takes none), so this branch is not reachable for such objects
  "CSSPageRule.__setitem__"]

/-- **T11.3 (instances)** every extracted mutator, started on a read-only object, leaves every field unchanged
however it ends (except `exemptReadonly`) -/
theorem all_readonly_safe :
    (Gen.C11.scripts.all fun m => ReadonlySafe m.fields m.body || exemptReadonly.contains m.name) = true := by
  decide +kernel

/-- the translator extracted every mutator it was asked for -/
theorem all_extracted : Gen.C11.notExtracted = [] := by decide

end CssVerif.C11
