import CssVerif.Model.OutPrefs
import CssVerif.Model.OutRules
/-!
# C06 — serializer preferences do exactly what they document, in every combination
-/
namespace CssVerif.C06
open CssVerif.Out CssVerif.Gen.C06

/-- T6.1a: `useDefaults` understands every statement the translator found (names and value types) and its result
does not depend on the record it starts from: all 25 fields are assigned. -/
theorem useDefaults_total (p : Prefs) : useDefaults p = some Prefs.default := by
  cases p
  rfl

/-- T6.1b: every preference read anywhere in `serialize.py` is assigned by `useDefaults` -/
theorem prefsRead_subset_defaulted : ∀ n ∈ prefsRead, n ∈ prefsDefaulted.map (·.1) := by decide

end CssVerif.C06
