import CssVerif.Model.OutPrefs
import CssVerif.Lemmas.OutSheetLayout
import CssVerif.Lemmas.OutSep
import CssVerif.Lemmas.OutEffect
import CssVerif.Lemmas.OutSolid
import CssVerif.Lemmas.OutFixes
import CssVerif.Lemmas.OutEffectLeaf
import CssVerif.Lemmas.OutPairs
/-!
# C06 — serializer preferences do exactly what they document, in every combination

Property theorems only; helpers are in `Lemmas/Out*.lean`. Model: `Model/Out.lean`, `Model/OutRules.lean`,
`Model/OutPrefs.lean`, tied to `cssutils/serialize.py` by the translator `tools/gen/c06_prefs.py` and the
byte-for-byte correspondence of `tools/harness/c06.py`.
-/
namespace CssVerif.C06
open CssVerif.Out CssVerif.Gen.C06

/-! ## T6.1 — restoring the defaults -/

/-- T6.1a `defaults_restore`: `useDefaults` understands every statement the translator found in the source (names and
value types) and its result does not depend on the record it starts from — all 25 fields are assigned. -/
theorem useDefaults_total (p : Prefs) : useDefaults p = some Prefs.default := by
  cases p
  rfl

/-- T6.1b: every preference read anywhere in `serialize.py` is assigned by `useDefaults` (generated lists) -/
theorem prefsRead_subset_defaulted : ∀ n ∈ prefsRead, n ∈ prefsDefaulted.map (·.1) := by decide

/-- T6.1c: the fields `useDefaults` assigns are exactly the fields of the model's record (a preference added or
removed upstream breaks this) and exactly the documented ones — as sets, the order of the statements is free -/
theorem defaulted_fields_are_the_record :
    (∀ n ∈ prefsDefaulted.map (·.1), n ∈ Prefs.fieldNames) ∧ (∀ n ∈ Prefs.fieldNames, n ∈ prefsDefaulted.map (·.1)) ∧
    (∀ n ∈ prefsDocumented, n ∈ Prefs.fieldNames) ∧ (∀ n ∈ Prefs.fieldNames, n ∈ prefsDocumented) := by decide

/-- T6.1d: the minified preset only assigns preferences that exist, and `useDefaults` undoes it -/
theorem minified_then_defaults (p : Prefs) :
    (useMinified p).isSome = true ∧ ((useMinified p).bind useDefaults) = some Prefs.default := by
  cases p
  exact ⟨rfl, rfl⟩

/-- T6.1e (byte-for-byte clause): the text of a sheet is a function of the preference record and the DOM ONLY — the
`_selectorlevel` / `_selectors` an earlier serialization with `indentSpecificities` may have raised are not read
(`do_CSSStyleSheet` starts from level 0 since 56f3433). So after `useDefaults()` the text is the default text whatever
was assigned and serialized before, in whatever state `sl` the serializer object was left. -/
theorem defaults_restore_output (p : Prefs) (sl sl' : Nat) (s : Sheet) :
    (useDefaults p).map (fun d => doSheet d sl s) = some (doSheet Prefs.default sl' s) := by
  rw [useDefaults_total]; rfl

/-- **(was finding C06-selectorlevel-leak, repaired)** the serializer's own state does not reach the text of a sheet -/
theorem sheet_text_ignores_serializer_state (p : Prefs) (sl sl' : Nat) (s : Sheet) :
    doSheet p sl s = doSheet p sl' s := rfl

/-! ## T6.2 — layout preferences change white space only -/

/-- the layout strings of the default record are white space -/
theorem default_wsPrefs : WsPrefs Prefs.default := by
  constructor <;> decide

/-- T6.2 `layout_only` (character level). If `p` differs from the default record only in indent / indentClosingBrace /
lineSeparator / the five spacers, and these are white-space strings, then for EVERY model sheet satisfying the guard
the output under `p` and the default output are the same text once white space is deleted (and they raise the same
exception if any). Guard `SheetOk`: nested objects are typed the way the parser types them, and no text the code tests
for emptiness is white-space-only (`Lemmas/OutSheetLayout.lean`). For declaration blocks that part of the guard is
syntactic since the repair of `do_css_CSSStyleDeclaration`: `block_text_guard_is_syntactic` below. -/
theorem layout_only (p : Prefs) (hp : WsPrefs p) (hc : ContentEq p Prefs.default) (hn : p.lineNumbers = false)
    (sl : Nat) (s : Sheet) (ok : SheetOk p Prefs.default s) :
    (doSheet p sl s).map stripWs = (doSheet Prefs.default sl s).map stripWs :=
  doSheet_layout hp default_wsPrefs hc sl sl hn rfl s ok

/-- T6.2 for any two records that agree on the content preferences (all pairs of layout assignments at once) -/
theorem layout_only_pair (p q : Prefs) (hp : WsPrefs p) (hq : WsPrefs q) (hc : ContentEq p q)
    (hn : p.lineNumbers = false) (hn' : q.lineNumbers = false) (sl : Nat) (s : Sheet) (ok : SheetOk p q s) :
    (doSheet p sl s).map stripWs = (doSheet q sl s).map stripWs :=
  doSheet_layout hp hq hc sl sl hn hn' s ok

/-- T6.2 for one value / selector / media list, at any two nesting levels -/
theorem layout_only_value (p q : Prefs) (hp : WsPrefs p) (hq : WsPrefs q) (hc : ContentEq p q) (lv lw : Nat) (o : Obj)
    (ok : ObjOk p q lv lw o) : stripWs (serObj p lv o) = stripWs (serObj q lw o) :=
  serObj_layout hp hq hc lv lw o ok

/-- core of T6.2 — one `Out.append` call contributes the same white-space-free text whatever branch of its PRE /
APPEND / POST phases runs, for every preference record with white-space layout strings -/
theorem append_adds_its_lexeme (p : Prefs) (hp : WsPrefs p) (il : Nat) (o : O) (v : AVal) (ty : CssVerif.Proto.Cps)
    (f : Fl) : core (append p il o v ty f) = core o ++ lexA p v ty f :=
  core_append hp il o v ty f


/-! ### the separation invariant (token level of T6.2, proved on `Out.append`) -/

/-- Two adjacent words are separated by a non-empty gap under EVERY preference record: the gap is the spacer, or
one space when the spacer is empty — the special case of `serialize.py:300-307`. (`Plain`: not a punctuation value
and not ending in a space, unless that space is backslash-escaped — a name like `b\ ` is a word since the repair of
the APPEND phase; `GenericTy`: a type without special treatment.) -/
theorem words_are_separated (p : Prefs) (hs : allCssWs p.spacer = true) (il : Nat) (ty w1 w2 : CssVerif.Proto.Cps)
    (ht : GenericTy ty = true) (h1 : Plain w1 = true) (h2 : Plain w2 = true) :
    value (runCalls p il [{ v := .str w1, ty := ty }, { v := .str w2, ty := ty }]) = w1 ++ gapOf p ++ w2 ∧
      gapOf p ≠ [] :=
  ⟨two_words_text p il ty ht w1 w2 h1 h2 hs, gapOf_ne_nil p⟩

/-- the repaired case: `a` then `b\ ` (a name ending with an escaped space) keeps the gap: `a b\ `, not `ab\ ` -/
example (p : Prefs) (hs : allCssWs p.spacer = true) :
    value (runCalls p 1 [{ v := .str [97], ty := t_IDENT }, { v := .str [98, 92, 32], ty := t_IDENT }])
      = [97] ++ gapOf p ++ [98, 92, 32] :=
  (words_are_separated p hs 1 t_IDENT [97] [98, 92, 32] (by decide) (by decide) (by decide)).1

/-- … and for any number of words, on the list `Out.out` itself. Since d39f9c4 `Out.append` looks at the last piece
of the list: a piece `/` in front of a word that starts with `*` gets a blank (see `slash_star_kept_apart`), so the
closed form is stated for a list that does not end in the single piece `/` and a spacer that is not the string `/`
(no other hypothesis on the record). -/
theorem every_word_is_followed_by_the_gap (p : Prefs) (il : Nat) (ty : CssVerif.Proto.Cps) (ht : GenericTy ty = true)
    (hsp : p.spacer ≠ [47]) (ws : List CssVerif.Proto.Cps) (hw : ∀ w ∈ ws, Plain w = true) (o : O)
    (ho : lastPiece o ≠ some [47]) :
    runCalls p il (ws.map fun w => ({ v := .str w, ty := ty } : Call)) o
      = (ws.reverse.flatMap fun w => gapPieces p ++ [w]) ++ o :=
  runCalls_words p il ty ht hsp ws o hw ho

/-- **(repair d39f9c4)** `/` followed by a value that starts with `*`: the APPEND phase of `Out.append` puts one blank
between them under EVERY preference record and whatever the flags (except `indent`, which no caller combines with
such a value), so `/` + `*…` never opens a comment. -/
theorem slash_star_kept_apart (p : Prefs) (il : Nat) (o : O) (w : CssVerif.Proto.Cps) (f : Fl) (hi : f.indent = false) :
    appendMid p il ([47] :: o) (42 :: w) f = (42 :: w) :: [32] :: [47] :: o :=
  appendMid_slash_star p il o w f hi

/-- **(repair d39f9c4)** `=` after one of `* ~ | ^ $` (the attribute-selector operators `*=`, `~=`, `|=`, `^=`, `$=` are
single tokens): one blank is kept between them under EVERY preference record. -/
theorem op_equals_kept_apart (p : Prefs) (il : Nat) (o : O) (c : Nat) (hc : isAttrOp c = true) :
    append p il ([c] :: o) (.str [61]) t_CHAR {} = [61] :: [32] :: [c] :: o :=
  append_op_equals p il o c hc

/-- `@x a/ *b;`: the former witness of the fusion (an unknown at-rule with the CHAR `/` followed by the CHAR `*`), under
the default record and under the minified layout strings -/
example :
    doRule Prefs.default 0 0 (.unknown (.mk true [64, 120]
      [.str t_S [32], .str t_IDENT [97], .str t_CHAR [47], .str t_CHAR [42], .str t_IDENT [98], .str t_CHAR [59]]))
      = .ok [64, 120, 32, 97, 47, 32, 42, 32, 98, 59] ∧
    doRule { Prefs.default with spacer := [], lineSeparator := [], indent := [] } 0 0 (.unknown (.mk true [64, 120]
      [.str t_S [32], .str t_IDENT [97], .str t_CHAR [47], .str t_CHAR [42], .str t_IDENT [98], .str t_CHAR [59]]))
      = .ok [64, 120, 32, 97, 47, 32, 42, 32, 98, 59] := ⟨rfl, rfl⟩

/-- `+`, `>`, `~` (fix 9620553): a CHAR that is not a selector combinator item keeps ONE SPACE on each side under
every preference record (so `1 + 2` never becomes `1+2`); a combinator item gets `selectorCombinatorSpacer`. -/
theorem plus_gt_tilde_spacing (p : Prefs) (il : Nat) (o : O) (c : Nat) (hc : c = 43 ∨ c = 62 ∨ c = 126)
    (ty : CssVerif.Proto.Cps) (ht : GenericTy ty = true) :
    append p il o (.str [c]) ty {} =
      (if isCombTy ty then p.selectorCombinatorSpacer else [32]) :: [c]
        :: (if isCombTy ty then p.selectorCombinatorSpacer else [32]) :: removeLastIfS o :=
  append_comb_char p il o c hc ty ht

/-! ### no adjacent pair of lexemes fuses (token level of T6.2 for everything `Out.append` writes side by side) -/

/-- T6.2, token level. `lexemes` = every punctuation character the tokenizer yields as CHAR plus one representative of
every other token class that is handed to `Out.append` (46 lexemes, `Lemmas/OutPairs.lean`). Under the DEFAULT record
every one of the 46 × 46 adjacent pairs, appended to a fresh `Out`, is written so that the tokenizer (model of C05)
reads back exactly the tokens of the first followed by the tokens of the second: no pair fuses into another token
(`/` `*` does not open a comment, `*` `=` is not `*=`, `#` `a` is not a HASH, `a` `(` not a FUNCTION, `1` `%` not a
PERCENTAGE, `+` `1` not a signed number, `<` `!` … not CDO, …). Exhaustive over the list, one kernel evaluation per
pair; for arbitrary words the gap is `words_are_separated`. -/
theorem no_adjacent_pair_fuses_default (a b : Call) (ha : a ∈ lexemes) (hb : b ∈ lexemes) :
    nonS (value (runCalls Prefs.default 1 [a, b]))
      = nonS (value (runCalls Prefs.default 1 [a])) ++ nonS (value (runCalls Prefs.default 1 [b])) := by
  have := pairs_default ha hb
  simpa [pairOk] using this

/-- … and under the layout strings of the MINIFIED preset (all spacers, indent and line separator empty) no pair fuses
either — full strength since the fix "Out.append keeps '*' '=' apart also when the spacer is empty" (before: every pair
but the four of finding C06-op-equals-fusion, `*=`, `|=`, `^=`, `$=`). -/
theorem no_adjacent_pair_fuses_minified (a b : Call) (ha : a ∈ lexemes) (hb : b ∈ lexemes) :
    nonS (value (runCalls pMinLayout 1 [a, b]))
      = nonS (value (runCalls pMinLayout 1 [a])) ++ nonS (value (runCalls pMinLayout 1 [b])) := by
  have := pairs_min ha hb
  simpa [pairOk] using this

/-- the former witness: `*` then `=` under the minified layout is written `* =` -/
example : lx5 ∈ lexemes ∧ formerFuse lx5 { v := .str [61], ty := t_CHAR } = true ∧
    value (runCalls pMinLayout 1 [lx5, { v := .str [61], ty := t_CHAR }]) = [42, 32, 61] := by
  refine ⟨by decide, by decide, by decide⟩

/-- the lists are not empty: `/` and `*` are lexemes, and the pair is written `/ *` -/
example : lx10 ∈ lexemes ∧ lx5 ∈ lexemes ∧ value (runCalls Prefs.default 1 [lx10, lx5]) = [47, 32, 42] := by
  refine ⟨by simp [lexemes], by simp [lexemes], rfl⟩

/-! ## T6.3 — the content preferences are DOM transformations -/

/-- T6.3 `content_effect` (serializer half of `project (parse (lex (ser p d))) = project (effect p d)`; the parse/lex
half is C03's round trip). For EVERY preference record, serializing the sheet equals serializing `effectSheet p s`, the
sheet to which the documented effect of the content preferences has been applied as a transformation of the DOM, at
every nesting depth:
* removed: comment rules (`keepComments`), unknown at-rules (`keepUnknownAtRules`), style rules whose block is written
  as the empty text and `@media` rules whose rules write nothing (`keepEmptyRules`), unused `@namespace` rules
  (`keepUsedNamespaceRulesOnly`), `@variables` rules (`resolveVariables`);
* rewritten leaves: the href type of `@import` (`importHrefFormat`), the literal at-keyword of every rule
  (`defaultAtKeyword`), variable names (`normalizedVarNames`), and in every declaration block of a style, `@page`,
  margin and `@font-face` rule the literal property names and priorities (`defaultPropertyName`,
  `defaultPropertyPriority`) and the HASH items of values at every depth of functions (`minimizeColorHash`).
One theorem over the whole record: all combinations at once.
`_partial`: not expressed as DOM transformations — `keepAllProperties` (the selection `declSeq` is modelled and is
applied before the loop; that it is idempotent is not proved), `var(x)` written as the value of `x` inside values
(`var_written_as_its_value` below is the leaf statement), comments inside values and selectors; `omitLeadingZero` does
not change the DOM at all (`omitLeadingZero_drops_the_zero_only`). -/
theorem content_effect_rules_partial (p : Prefs) (sl : Nat) (s : Sheet) :
    doSheet p sl (effectSheet p s) = doSheet p sl s :=
  doSheet_effect p sl s

/-- … and the transformed sheet is in normal form at its top level: none of the suppressed rules is left, and the
leaves of every rule are the ones the preferences ask for (href type, keyword, variable names) -/
theorem effect_removes_suppressed_rules (p : Prefs) (s : Sheet) :
    ∀ r ∈ (effectSheet p s).rules,
      r.dropped p 0 0 = false ∧ nsDropped p s.usedUris r = false ∧ r.leafNormal p = true := by
  intro r hr
  refine ⟨effectRules_none_dropped p 0 0 _ r hr, ?_, effectRules_leafNormal p 0 0 _ r hr⟩
  have := filter_ns_effectRules p 0 0 s.usedUris (s.rules.filter fun r => !nsDropped p s.usedUris r) (by
    intro x hx
    have := (List.mem_filter.mp hx).2
    simpa using this)
  have hr' : r ∈ (effectRules p 0 0 (s.rules.filter fun r => !nsDropped p s.usedUris r)).filter
      (fun r => !nsDropped p s.usedUris r) := by rw [this]; exact hr
  have := (List.mem_filter.mp hr').2
  simpa using this

/-- T6.3 (declaration block, filters): the loop of `do_css_CSSStyleDeclaration`, with `keepComments` and `validOnly`
tested at the point of use, writes what it writes for the sequence without the suppressed items — every record at
once. (`_partial`: `keepAllProperties` — the effective-property filter is applied before the loop, `declSeq`.) -/
theorem content_effect_declarations_partial (p : Prefs) (lv : Nat) (sep : CssVerif.Proto.Cps) (items : List DItem)
    (hm : ∀ it ∈ items, it.plainProp = true) :
    declOut p lv sep false items = declOut p lv sep false (items.filter fun it => !it.dropped p) :=
  declOut_filter p lv sep items hm

/-- T6.3 (declaration block, leaves): `defaultPropertyName`, `defaultPropertyPriority` and `minimizeColorHash` are
rewrites of the single properties of the block — literal name ↦ normalised name, literal priority ↦ normalised
priority, `#aabbcc` ↦ `#abc` in the value — and the rewritten block serializes to the same text under EVERY record
(the rewrite keeps the normalised names and priorities, so the `keepAllProperties` selection is not disturbed). -/
theorem content_effect_block (p : Prefs) (lv : Nat) (items : List DItem) (om : Bool) :
    doDecl p lv (effectDecl p items) om = doDecl p lv items om :=
  doDecl_effectDecl p lv items om

/-- `minimizeColorHash` as a rewrite of a value, at every depth of nested functions / colours / calc expressions; the
rewritten HASH items are normal: `_hash` leaves them alone under every record -/
theorem minimizeColorHash_is_a_value_rewrite (p : Prefs) (lv : Nat) (o : Obj) :
    serObj p lv (effObj p o) = serObj p lv o ∧
    (p.minimizeColorHash = true → ∀ (q : Prefs) (v : CssVerif.Proto.Cps), hash q (hash p v) = hash p v) :=
  ⟨serObj_effObj p lv o, fun hp q v => hash_normal p q hp v⟩

/-- `importHrefFormat` is the rewrite of the href type, also across records: under `p` the rule is written as the
rule with the demanded href type is written under the record WITHOUT a format -/
theorem importHrefFormat_is_the_href_rewrite (p : Prefs) (hs : Bool) (its : List EItem) :
    importCalls p hs its = importCalls { p with importHrefFormat := none } (hrefEffect p hs) its := by
  rw [importCalls_of_normal p (hrefEffect p hs) its (hrefEffect_idem p hs), importCalls_hrefEffect]

/-- `defaultAtKeyword` is the rewrite of the literal keyword, also across records -/
theorem defaultAtKeyword_is_the_keyword_rewrite (p : Prefs) (atk : CssVerif.Proto.Cps)
    (kw : Option CssVerif.Proto.Cps) :
    atKeyword p atk kw = atKeyword { p with defaultAtKeyword := false } atk (kwEffect p atk kw) := by
  unfold atKeyword kwEffect
  cases h : p.defaultAtKeyword <;> simp

/-- `resolveVariables`, value level: a `var(x)` whose variable resolves to a non-empty text `v` that is a word
(`Plain`: not a punctuation string, no trailing blank) is written as exactly `v`, under every record with a
white-space spacer — the text of the variable's value stands where the `var()` stood -/
theorem var_written_as_its_value (p : Prefs) (hr : p.resolveVariables = true) (hs : allCssWs p.spacer = true) (il : Nat)
    (name v : CssVerif.Proto.Cps) (fb : EVal) (hn : name ≠ []) (hv : Plain v = true) :
    varText p il name (.obj v) fb = v :=
  varText_resolved p hr hs il name v fb hn hv

example : Plain [114, 101, 100] = true := by decide   -- `red`

/-- `omitLeadingZero` does not change the DOM: for a number `-1 < x < 1` whose `%f` text (zeros stripped) is
`0.d…` / `-0.d…` the two settings differ exactly by that `0`; every other number is written the same. -/
theorem omitLeadingZero_drops_the_zero_only (p : Prefs) (n : Num) :
    (n.zero = false → n.intText = none → n.small = true →
      ∀ r, stripZeros n.ftext = (if n.sign == [45] then 45 :: 48 :: r else 48 :: r) →
        numText { p with omitLeadingZero := false } n
            = (if n.sign == [43] then [43] else []) ++ (if n.sign == [45] then 45 :: 48 :: r else 48 :: r) ++ n.dim.getD [] ∧
        numText { p with omitLeadingZero := true } n
            = (if n.sign == [43] then [43] else []) ++ (if n.sign == [45] then 45 :: r else r) ++ n.dim.getD []) ∧
    ((n.zero = true ∨ n.intText.isSome = true ∨ n.small = false) →
      numText { p with omitLeadingZero := true } n = numText { p with omitLeadingZero := false } n) :=
  numText_leading_zero p n

/-- `0.5px`: facts `zero = false`, not integral, small, `%f` text `0.500000` -/
example : numText { Prefs.default with omitLeadingZero := true }
      { sign := [], zero := false, intText := none, small := true, ftext := [48, 46, 53, 48, 48, 48, 48, 48],
        dim := some [112, 120] } = [46, 53, 112, 120] ∧
    numText Prefs.default
      { sign := [], zero := false, intText := none, small := true, ftext := [48, 46, 53, 48, 48, 48, 48, 48],
        dim := some [112, 120] } = [48, 46, 53, 112, 120] := ⟨rfl, rfl⟩

/-! ## T6.4 — the interactions named in the property -/

/-- T6.4a comment dropping × last-semicolon omission: if the last item of the block is suppressed, no semicolon is
omitted (the last written property keeps its `;`) -/
theorem comment_drop_vs_last_semicolon (p : Prefs) (lv : Nat) (sep : CssVerif.Proto.Cps) (items : List DItem)
    (t : CssVerif.Proto.Cps) (hk : p.keepComments = false) :
    declOut p lv sep true (items ++ [.comment t]) = declOut p lv sep false (items ++ [.comment t]) :=
  declOut_last_dropped p lv sep (.comment t) (by simp [DItem.dropped, hk]) rfl items

/-- T6.4b `validOnly` (inside `@font-face` as anywhere): an invalid property is never written -/
theorem validOnly_drops_invalid (p : Prefs) (lv : Nat) (sep : CssVerif.Proto.Cps) (om : Bool) (pr : Property)
    (hmq : pr.mq = false) (hv : p.validOnly = true) (hi : pr.valid = false) :
    declHere p lv sep om (.prop pr) = pure [] :=
  invalid_property_not_written p lv sep om pr hmq hv hi

/-- T6.4c minified nested `@media`: `@media <list>{<nested texts>}` at any depth -/
theorem minified_media (p : Prefs) (hi : p.indent = []) (hl : p.lineSeparator = []) (hps : p.paranthesisSpacer = [])
    (hs : p.spacer = []) (lv : Nat) (k mt : CssVerif.Proto.Cps) (texts : List CssVerif.Proto.Cps) :
    mediaTail p lv k mt none [] texts =
      if !p.keepEmptyRules && allWs texts.flatten then [] else k ++ [32] ++ mt ++ [123] ++ texts.flatten ++ [125] :=
  mediaTail_minified p hi hl hps hs lv k mt texts

/-- the minified preset, applied to the default record, has exactly the layout strings `minified_media` asks for,
and they are (trivially) white space — the preset is in the domain of T6.2 and T6.4c -/
theorem minified_preset_layout : ∃ m, useMinified Prefs.default = some m ∧ m.indent = [] ∧ m.lineSeparator = [] ∧
    m.paranthesisSpacer = [] ∧ m.spacer = [] ∧ m.listItemSpacer = [] ∧ m.propertyNameSpacer = [] ∧
    m.selectorCombinatorSpacer = [] ∧ m.lineNumbers = false :=
  ⟨_, rfl, rfl, rfl, rfl, rfl, rfl, rfl, rfl, rfl⟩

/-! ## non-vacuity and the machine-checked findings -/

/-- the layout strings of the minified preset, content preferences as by default -/
def pTight : Prefs :=
  { Prefs.default with
    indent := [], lineSeparator := [], listItemSpacer := [], paranthesisSpacer := [], propertyNameSpacer := [],
    selectorCombinatorSpacer := [], spacer := [] }

/-- the property `c: #aabbcc` -/
def exProp : Property :=
  { wf := true, valid := true, mq := false, nameseq := [.str [99]], literalname := [99], name := [99],
    value := .pvalue true [.mk [67] (.obj (.color t_HASH [.mk t_HASH (.str [35, 97, 97, 98, 98, 99, 99])]))],
    prioseq := [], literalpriority := [], priority := [] }

/-- `a b{c:#aabbcc}` -/
def exSheet : Sheet :=
  { usedUris := [],
    rules := [.style true true
      [.selector true [.mk [116] (.tup [97]), .mk [100] (.str [32]), .mk [116] (.tup [98])]] [.prop exProp]] }

/-- `c: #aabbcc` is rewritten to `c: #abc` (and under a record that does not shorten it stays) -/
example : effObj Prefs.default exProp.value
    = .pvalue true [.mk [67] (.obj (.color t_HASH [.mk t_HASH (.str [35, 97, 98, 99])]))] := rfl
example : effObj { Prefs.default with minimizeColorHash := false } exProp.value = exProp.value := rfl

/-- the hypotheses of `layout_only` are satisfiable: a concrete record and sheet -/
example : WsPrefs pTight ∧ ContentEq pTight Prefs.default ∧ pTight.lineNumbers = false := by
  refine ⟨?_, ?_, rfl⟩ <;> constructor <;> decide

example : doSheet pTight 0 exSheet = .ok [97, 32, 98, 123, 99, 58, 35, 97, 98, 99, 125] := rfl   -- `a b{c:#abc}`

example : SheetOk pTight Prefs.default exSheet := by
  have e1 : doDecl pTight 1 [.prop exProp] true = .ok [99, 58, 35, 97, 98, 99] := rfl
  have e2 : doDecl Prefs.default 1 [.prop exProp] true = .ok [99, 58, 32, 35, 97, 98, 99] := rfl
  refine ⟨⟨?_, ?_, ?_, ?_, ?_, ?_⟩, trivial⟩
  · intro o ho
    simp only [List.mem_singleton] at ho
    subst ho
    simp [ObjOk, ItemsOk, ValOk, Val.isObj]
  · intro it hit
    simp only [List.mem_singleton] at hit
    subst hit
    refine ⟨rfl, ?_⟩
    simp only [exProp, ObjOk, ItemsOk, ValOk, Val.isObj, and_true, true_and]
    exact ⟨fun _ => by decide, fun h => absurd h (by decide)⟩
  · intro t ht; rw [e1] at ht; cases ht; unfold Solid; rfl
  · intro t ht; rw [e2] at ht; cases ht; unfold Solid; rfl
  · unfold Solid; rfl
  · unfold Solid; rfl

/-- `a{@x y;@z w;}`: a block whose items are unknown at-rules -/
def exUnknownBlock : Sheet :=
  { usedUris := [],
    rules := [.style true true [.selector true [.mk [116] (.tup [97])]]
      [.urule (.mk true [64, 120] [.str t_S [32], .str t_IDENT [121], .str t_CHAR [59]]),
       .urule (.mk true [64, 122] [.str t_S [32], .str t_IDENT [119], .str t_CHAR [59]])]] }

/-- **(was finding C06-empty-items-block, repaired)** a block that holds nothing but unknown at-rules is written as
the EMPTY text when `keepUnknownAtRules` is off, under EVERY record (whatever the line separator), … -/
theorem dropped_unknown_rules_leave_an_empty_block (p : Prefs) (lv : Nat) (om : Bool)
    (hk : p.keepUnknownAtRules = false) (items : List DItem) (hall : ∀ it ∈ items, ∃ r, it = .urule r) :
    doDecl p lv items om = .ok [] :=
  doDecl_all_unknown_dropped p lv om hk items hall

/-- … so the former witness is now written the same way (not at all) under both layouts -/
example :
    doSheet { Prefs.default with keepUnknownAtRules := false } 0 exUnknownBlock = .ok [] ∧
    doSheet { Prefs.default with keepUnknownAtRules := false, lineSeparator := [] } 0 exUnknownBlock = .ok [] :=
  ⟨rfl, rfl⟩

/-- **(guard of `layout_only`, promoted)** the `DeclSolid` part of `SheetOk` follows from the shape of the block: if
every item is an ordinary property, an unknown at-rule with a keyword, or a comment / stray string with
non-white-space content, the text of the block is empty or has non-white-space content under every record with
white-space layout strings. (Before the repair this was false: see the history of C06-empty-items-block.) -/
theorem block_text_guard_is_syntactic (r : Prefs) (hr : WsPrefs r) (lv : Nat) (items : List DItem) (om : Bool)
    (hs : ∀ it ∈ items, it.solidSrc = true) : DeclSolid r lv items om :=
  declSolid_of_items hr lv items om hs

/-- **(was finding C06-atkeyword-attr, repaired)** `_atkeyword` is total: the literal keyword when the rule recorded
one, the normalised keyword otherwise; `@media` with `defaultAtKeyword` off is serialized -/
theorem atkeyword_never_raises (p : Prefs) (atk : CssVerif.Proto.Cps) (kw : Option CssVerif.Proto.Cps) :
    atKeyword p atk kw = .ok (if p.defaultAtKeyword then atk else kw.getD atk) :=
  atKeyword_total p atk kw

/-- **(was C06-atkeyword-attr and C06-linenumbers-emptysep)** the serializer model has ONE way left to raise: the
`IndexError` of `stacks.pop()` in `do_CSSUnknownRule` (not reachable for a well-formed rule) -/
theorem the_only_error_is_IndexError (e : Err) : e = .indexError := by
  cases e; rfl

/-- **(was finding C06-linenumbers-emptysep, repaired)** without a line separator there are no lines to number -/
theorem lineNumbers_without_separator (p : Prefs) (t : CssVerif.Proto.Cps) (h : p.lineSeparator = []) :
    lineNumbers p t = .ok t :=
  lineNumbers_empty_separator p t h

/-- **(was finding C06-variables-trailing-escaped-blank, repaired in 1bbf955)** the final strip of a variables block
keeps the blank that a backslash escapes: `a: e\ ` + line break is stripped to `a: e\ `, not to `a: e\`; and in general the
strip only ever removes white space -/
theorem variables_block_keeps_escaped_blank :
    stripKeepEsc [97, 58, 32, 101, 92, 32, 10] = [97, 58, 32, 101, 92, 32] ∧
    stripKeepEsc [32, 97, 58, 32, 101, 92, 92, 32, 10] = [97, 58, 32, 101, 92, 92] ∧
    ∀ s, stripWs (stripKeepEsc s) = stripWs s :=
  ⟨by decide, by decide, stripWs_stripKeepEsc⟩

/-- **finding C06-indent-inside-token**: `_indentblock` splits the text wherever the line separator occurs, also inside
a comment: `a{x:y;/*c⏎d*/}` is written with the comment `/*c⏎    d*/` -/
theorem finding_indent_inside_comment :
    doSheet Prefs.default 0
      { usedUris := [], rules := [.style true true [.selector true [.mk [116] (.tup [97])]]
          [.prop { wf := true, valid := true, mq := false, nameseq := [.str [120]], literalname := [120], name := [120],
                   value := .pvalue true [.mk [86] (.obj (.value t_IDENT [121]))], prioseq := [],
                   literalpriority := [], priority := [] },
           .comment [47, 42, 99, 10, 100, 42, 47]]] }
      = .ok [97, 32, 123, 10, 32, 32, 32, 32, 120, 58, 32, 121, 59, 10, 32, 32, 32, 32, 47, 42, 99, 10, 32, 32, 32, 32,
             100, 42, 47, 10, 32, 32, 32, 32, 125] := rfl

/-- **finding C06-nth-plus-fusion**: the `+` of `:nth-child(2n + 1)` is a selector item of type `plus`; with an empty
`selectorCombinatorSpacer` it is glued to the number: `2n+1` (one token `+1`) -/
theorem finding_nth_plus_fusion :
    serObj { Prefs.default with selectorCombinatorSpacer := [] } 0
      (.selector true [.mk [116] (.tup [97]), .mk [112] (.str [58, 110, 116, 104, 45, 99, 104, 105, 108, 100, 40]),
        .mk [68] (.str [50, 110]), .mk t_plus (.str [43]), .mk [78] (.str [49]), .mk [102] (.str [41])])
      = [97, 58, 110, 116, 104, 45, 99, 104, 105, 108, 100, 40, 50, 110, 43, 49, 41] := rfl

/-- **(was finding C06-op-equals-fusion, repaired in 77b59e6)** the test of d39f9c4 looked at the last piece of the list;
with an EMPTY spacer the piece after `*` is the empty spacer, so `*` + `=` fused after all. The test now looks at the
last non-empty piece: `@x [a* =b];` is written `@x [a * =b];` under the minified layout strings as under the default
record. -/
theorem op_equals_kept_apart_empty_spacer :
    doRule pTight 0 0 (.unknown (.mk true [64, 120]
      [.str t_S [32], .str t_CHAR [91], .str t_IDENT [97], .str t_CHAR [42], .str t_S [32], .str t_CHAR [61],
       .str t_IDENT [98], .str t_CHAR [93], .str t_CHAR [59]]))
      = .ok [64, 120, 32, 91, 97, 32, 42, 32, 61, 98, 93, 59] ∧
    doRule Prefs.default 0 0 (.unknown (.mk true [64, 120]
      [.str t_S [32], .str t_CHAR [91], .str t_IDENT [97], .str t_CHAR [42], .str t_S [32], .str t_CHAR [61],
       .str t_IDENT [98], .str t_CHAR [93], .str t_CHAR [59]]))
      = .ok [64, 120, 32, 91, 97, 32, 42, 32, 61, 98, 93, 59] := ⟨rfl, rfl⟩

/-- **(was finding C06-hash-in-unknown-rule, repaired in f99aded)** `minimizeColorHash` does not reach an unknown
at-rule: its text is the same whether the preference is on or off, for EVERY rule (any nesting of blocks and nested
unknown rules) and every record — `do_CSSUnknownRule` passes a HASH item with type `None`, so `Out.append` never
sends it through `_hash`. -/
theorem hash_in_unknown_rule_kept_as_written (p : Prefs) (b : Bool) (lv : Nat) (u : URule) :
    doURule (p.withHash b) lv u = doURule p lv u :=
  doURule_withHash p b lv u

/-- the former witness: `@x #aabbcc;` is written `@x #aabbcc;` -/
example :
    doRule Prefs.default 0 0 (.unknown (.mk true [64, 120]
      [.str t_S [32], .str t_HASH [35, 97, 97, 98, 98, 99, 99], .str t_CHAR [59]]))
      = .ok [64, 120, 32, 35, 97, 97, 98, 98, 99, 99, 59] := rfl

/-- **(repair ec62b69)** page selector: a page name `a`, a comment `c` and a pseudo-page `ps` are written with
NOTHING between them, under EVERY record that keeps comments and has a white-space spacer (`Plain`: a word — not a
punctuation string, no unescaped trailing blank; `ty3` any generic type other than IDENT, the parser uses `pseudo`).
Before the repair the text was `a /*c*/ :first`, which reparses as a page named `a` plus stray tokens. -/
theorem page_name_comment_pseudo_unspaced (p : Prefs) (hk : p.keepComments = true) (hs : allCssWs p.spacer = true)
    (il : Nat) (a c ps ty3 : CssVerif.Proto.Cps) (ha : Plain a = true) (hc : Plain c = true) (hps : Plain ps = true)
    (ht3 : GenericTy ty3 = true) (hni : (ty3 == t_IDENT) = false) :
    value (runCalls p il (pageSelCalls [(t_IDENT, .str a), (t_COMMENT, .obj c), (ty3, .str ps)])) = a ++ c ++ ps :=
  pageSel_name_comment_pseudo p hk hs il a c ps ty3 ha hc hps ht3 hni

/-- the hypotheses are satisfiable: `a`, `/*c*/`, `:f` with type `p`; and a comment BEFORE the name keeps its space
(`named` is still false) -/
example : Plain [97] = true ∧ Plain [47, 42, 99, 42, 47] = true ∧ Plain [58, 102] = true ∧ GenericTy [112] = true ∧
    value (runCalls pTight 1 (pageSelCalls
      [(t_IDENT, .str [97]), (t_COMMENT, .obj [47, 42, 99, 42, 47]), ([112], .str [58, 102])]))
      = [97, 47, 42, 99, 42, 47, 58, 102] ∧
    value (runCalls Prefs.default 1 (pageSelCalls
      [(t_COMMENT, .obj [47, 42, 99, 42, 47]), (t_IDENT, .str [97]), ([112], .str [58, 102])]))
      = [47, 42, 99, 42, 47, 32, 97, 58, 102] := ⟨by decide, by decide, by decide, by decide, rfl, rfl⟩

end CssVerif.C06
