import CssVerif.Lemmas.Decl
import CssVerif.Lemmas.DeclText
import CssVerif.Gen.C10Names
/-!
# C10 — declaration blocks obey the ordered-multimap-with-cascade model

Property theorems only (definitions of the specification and helper lemmas: `Lemmas/Decl.lean`).
Model: `Model/Decl.lean`, tied to `cssutils/css/cssstyledeclaration.py`, `property.py`, `cssproperties.py`,
`cssvariablesdeclaration.py` by the lock-step correspondence of `tools/harness/c10.py`.
All theorems hold for every environment `Env` (tokenizer, value grammar, error mode).

Specification (`Lemmas/Decl.lean`): `props seq` is the ordered list of entries of a block;
`effective ps n` = the last `!important` entry with normalised name `n`, else the last entry with that name;
`specNames ps` = the distinct normalised names ordered by last occurrence (`lastOcc`).
-/
namespace CssVerif.C10
open CssVerif.Decl CssVerif.Proto

/-! ## T10.1 the effective property -/

/-- T10.1 `getProperty(name)` — the reversed scan with the priority short-cut — returns the last `!important`
entry with the normalised name, else the last entry with that name; for every block whose entries carry the
normalisation of their literal name (an invariant of every reachable block, `run_nameInv`). -/
theorem getProperty_spec (seq : List Item) (name : Cps) (h : NameInv seq) :
    getProperty seq name true = effective (props seq) (normalize name) := by
  rw [getProperty_effectiveBy]
  unfold effective
  apply effectiveBy_congr
  intro p hp
  have hi := h p hp
  unfold gpMatch
  by_cases e : name = p.lit
  · subst e; simp [hi]
  · by_cases e2 : normalize name = p.name
    · simp [e2]
    · have e3 : ¬ p.name = normalize name := fun x => e2 x.symm
      have b1 : (normalize name == p.name) = false := beq_eq_false_iff_ne.mpr e2
      have b2 : (name == p.lit) = false := beq_eq_false_iff_ne.mpr e
      have b3 : (p.name == normalize name) = false := beq_eq_false_iff_ne.mpr e3
      simp [b1, b2, b3]

/-- T10.1 (literal look-up, `normalize=False`): the last `!important` entry with that literal name, else the last -/
theorem getProperty_literal_spec (seq : List Item) (name : Cps) :
    getProperty seq name false = effectiveBy (fun p => p.lit == name) (props seq) := by
  rw [getProperty_effectiveBy]
  apply effectiveBy_congr
  intro p _
  unfold gpMatch
  by_cases e : name = p.lit
  · subst e; simp
  · have e3 : ¬ p.lit = name := fun x => e x.symm
    have b1 : (name == p.lit) = false := beq_eq_false_iff_ne.mpr e
    have b2 : (p.lit == name) = false := beq_eq_false_iff_ne.mpr e3
    simp [b1, b2]

/-- the value and priority getters read the effective entry; a name without entries has the value `''` -/
theorem getPropertyValue_spec (seq : List Item) (name : Cps) (h : NameInv seq) :
    getPropertyValue seq name true = ((effective (props seq) (normalize name)).map (·.val.value)).getD [] := by
  unfold getPropertyValue
  rw [getProperty_spec seq name h]
  cases effective (props seq) (normalize name) <;> rfl

theorem getPropertyPriority_spec (seq : List Item) (name : Cps) (h : NameInv seq) :
    getPropertyPriority seq name true = ((effective (props seq) (normalize name)).map (·.prio)).getD [] := by
  unfold getPropertyPriority
  rw [getProperty_spec seq name h]
  cases effective (props seq) (normalize name) <;> rfl

/-! ## T10.2 names: length, item, keys, iteration, membership -/

/-- T10.2 `__nnames()` (double reverse with a seen-list) = the normalised names of the entries, each kept at its
last occurrence -/
theorem nnames_spec (seq : List Item) : nnames seq = specNames (props seq) := nnames_lastOcc seq

/-- the names are distinct -/
theorem nnames_nodup (seq : List Item) : (nnames seq).Nodup := by
  rw [nnames_spec]; exact lastOcc_nodup _

/-- exactly the normalised names of the entries -/
theorem mem_nnames (seq : List Item) (n : Cps) : n ∈ nnames seq ↔ ∃ p ∈ props seq, p.name = n := by
  rw [nnames_spec]; unfold specNames; rw [mem_lastOcc]; simp

/-- in the order of the entries -/
theorem nnames_sublist (seq : List Item) : (nnames seq).Sublist ((props seq).map (·.name)) := by
  rw [nnames_spec]; exact lastOcc_sublist _

theorem keys_spec (seq : List Item) : keys seq = specNames (props seq) := nnames_spec seq

theorem length_spec (seq : List Item) : length seq = (specNames (props seq)).length := by
  unfold length; rw [nnames_spec]

/-- `item(i)` for `0 ≤ i < length` -/
theorem item_spec_nonneg (seq : List Item) (i : Nat) (h : i < length seq) :
    some (item seq (i : Int)) = (specNames (props seq))[i]? := by
  unfold item pyIndex
  unfold length at h
  rw [← nnames_spec]
  simp [h]

/-- `item(-k)` for `1 ≤ k ≤ length` counts from the end -/
theorem item_spec_neg (seq : List Item) (k : Nat) (h1 : 0 < k) (h2 : k ≤ length seq) :
    some (item seq (-(k : Int))) = (specNames (props seq))[length seq - k]? := by
  unfold item pyIndex
  unfold length at h2 ⊢
  rw [← nnames_spec]
  have : ¬ (0 ≤ -(k : Int)) := by omega
  have h3 : (nnames seq).length - k < (nnames seq).length := by omega
  have h4 : k ≠ 0 := by omega
  simp [h2, h3, h4]

/-- outside `-length … length-1` the answer is `''` -/
theorem item_out_of_range (seq : List Item) (i : Int)
    (h : (length seq : Int) ≤ i ∨ i < -(length seq : Int)) : item seq i = [] := by
  unfold item pyIndex
  unfold length at h
  rcases h with h | h
  · have h0 : 0 ≤ i := by omega
    have : (nnames seq).length ≤ i.toNat := by omega
    have h5 : (nnames seq)[i.toNat]? = none := List.getElem?_eq_none this
    simp [h0, h5]
  · have h0 : ¬ (0 ≤ i) := by omega
    have : ¬ ((-i).toNat ≤ (nnames seq).length) := by omega
    simp [h0, this]

/-- membership: `name in style` iff some entry has the normalised name -/
theorem contains_spec (seq : List Item) (name : Cps) :
    contains seq name = true ↔ ∃ p ∈ props seq, p.name = normalize name := by
  unfold contains
  rw [List.contains_iff_mem, mem_nnames]

/-- T10.2 (iteration, `getProperties()`): one entry per distinct name, namely its effective entry, and never `None` —
for every block. (Before fix "iterate a style declaration by its normalized names without normalizing them again"
this held only for names that are fixpoints of `normalize`; `__iter__` / `getProperties()` now look the listed
names up with `__effective`, which does not normalise its argument again.) -/
theorem iter_spec (seq : List Item) :
    iter seq = (specNames (props seq)).map (fun n => effective (props seq) n) ∧
    ∀ o ∈ iter seq, o.isSome = true := by
  have e1 : iter seq = (nnames seq).map (fun n => effective (props seq) n) := by
    unfold iter
    apply List.map_congr_left
    intro n _
    exact effectiveOf_effective seq n
  refine ⟨by rw [e1, nnames_spec], ?_⟩
  intro o ho
  rw [e1] at ho
  obtain ⟨n, hn, rfl⟩ := List.mem_map.mp ho
  obtain ⟨p, hp, hpn⟩ := (mem_nnames seq n).mp hn
  obtain ⟨x, hx⟩ := effectiveBy_isSome_of_mem (fun q => q.name == n) (props seq) p hp (by simp [hpn])
  unfold effective
  rw [hx]; rfl

/-- `getProperties()` (no name, `all=False`) is the same list as iteration -/
theorem getProperties_effective_spec (seq : List Item) : getProperties seq [] false = iter seq := by
  unfold getProperties getPropertiesIdx iter effectiveOf
  simp [List.map_map, Function.comp]

/-- the former witness of the fixed finding `C10-escaped-backslash-name`: for the block `a\\g: r` iteration now yields
the entry. What remains (and is inherent to an API that lists *normalised* names): feeding the listed name `a\g` back
into `getProperty` normalises it once more and finds nothing, the literal name does. -/
theorem iter_escaped_backslash_fixed :
    keys escWitness = [[97, 92, 103]] ∧ (iter escWitness).all Option.isSome = true ∧
    getProperty escWitness [97, 92, 103] true = none ∧ (getProperty escWitness escLit true).isSome = true := by
  decide

/-- `getProperties(name, all=True)`: every entry with the normalised name (every entry when no name is given), in
block order — for every block -/
theorem getProperties_all_spec (seq : List Item) (name : Cps) :
    getProperties seq name true =
      ((props seq).filter (fun p => normalize name == [] || p.name == normalize name)).map some := by
  unfold getProperties getPropertiesIdx
  simp only [Bool.not_true, Bool.and_false, Bool.false_eq_true, if_false, List.map_map]
  rw [← propIdxs_propAt]
  apply List.map_congr_left
  intro j _
  rfl

/-- `getProperties(name)` with a name (`all=False`): the effective entry of that name, or nothing -/
theorem getProperties_named_spec (seq : List Item) (name : Cps) (hn : name ≠ []) (h : NameInv seq) :
    getProperties seq name false = (effective (props seq) (normalize name)).toList.map some := by
  have hb : (name != [] && !false) = true := by simp [hn]
  have e : getProperties seq name false = (getProperty seq name true).toList.map some := by
    unfold getProperties getPropertiesIdx getProperty
    simp only [hb, if_true]
    cases hi : getPropertyIdx seq name true with
    | none => rfl
    | some i =>
      obtain ⟨p, hp, _⟩ := getPropertyIdx_some seq name true i hi
      simp [hp]
  rw [e, getProperty_spec seq name h]

/-! ## T10.3 removal -/

/-- T10.3 `removeProperty(name)` deletes every entry of the normalised name and nothing else, returns the effective
value (`''` if there was none); afterwards the name has no effective entry, every other name keeps its own, and the
name list loses exactly that name. -/
theorem remove_spec (d : Decl) (name : Cps) (h : NameInv d.seq) (hr : d.readonly = false) :
    props (removeProperty d name true).st.seq = (props d.seq).filter (fun p => !(p.name == normalize name)) ∧
    nonProps (removeProperty d name true).st.seq = nonProps d.seq ∧
    (removeProperty d name true).out = .ok (valueOf (effective (props d.seq) (normalize name))) ∧
    getProperty (removeProperty d name true).st.seq name true = none ∧
    (∀ n', normalize n' ≠ normalize name →
      getProperty (removeProperty d name true).st.seq n' true = getProperty d.seq n' true) ∧
    nnames (removeProperty d name true).st.seq = (nnames d.seq).filter (fun n => !(n == normalize name)) := by
  have hinv := remove_nameInv d name true h
  have hps : props (removeProperty d name true).st.seq =
      (props d.seq).filter (fun p => !(p.name == normalize name)) := by
    simp [removeProperty, hr, props_filter_named]
  refine ⟨hps, ?_, ?_, ?_, ?_, ?_⟩
  · simp only [removeProperty, hr, Bool.false_eq_true, if_false, if_true]
    exact nonProps_filter _ _ (by intro it hit; cases it with
      | prop p => exact absurd rfl (hit p)
      | comment c => rfl
      | other c => rfl)
  · simp only [removeProperty, hr, Bool.false_eq_true, if_false]
    unfold getPropertyValue valueOf
    rw [getProperty_effective _ _ h]
    cases effective (props d.seq) (normalize name) <;> rfl
  · rw [getProperty_effective _ _ hinv, hps]
    unfold effective
    rw [effectiveBy_none]
    intro a ha
    have := (List.mem_filter.mp ha).2
    simpa using this
  · intro n' hn'
    rw [getProperty_effective _ _ hinv, getProperty_effective _ _ h, hps]
    unfold effective
    apply effectiveBy_filter
    intro a _ hm
    have : a.name = normalize n' := by simpa using hm
    have hne : ¬ a.name = normalize name := by rw [this]; exact hn'
    simp [hne]
  · rw [nnames_lastOcc, nnames_lastOcc, hps, ← lastOcc_filter]
    congr 1
    rw [List.filter_map]
    rfl

/-- removal by literal name (`normalize=False`): deletes exactly the entries with that literal name -/
theorem remove_literal_spec (d : Decl) (name : Cps) (hr : d.readonly = false) :
    props (removeProperty d name false).st.seq = (props d.seq).filter (fun p => !(p.lit == name)) ∧
    (removeProperty d name false).out = .ok (valueOf (effectiveBy (fun p => p.lit == name) (props d.seq))) := by
  refine ⟨by simp [removeProperty, hr, props_filter_lit], ?_⟩
  simp only [removeProperty, hr, Bool.false_eq_true, if_false]
  unfold getPropertyValue valueOf
  rw [getProperty_literal]
  cases effectiveBy (fun p => p.lit == name) (props d.seq) <;> rfl

/-- a read-only block rejects removal and stays as it is -/
theorem remove_readonly (d : Decl) (name : Cps) (norm : Bool) (hr : d.readonly = true) :
    (removeProperty d name norm).st = d ∧ (removeProperty d name norm).out = .error .noModification := by
  simp [removeProperty, hr]

/-! ## T10.4 set -/

/-- T10.4 `setProperty(name, value, priority)` with an accepted new property `newp`: if the name has an effective
entry, exactly that entry is modified in place (by `updateProp`: new value, new priority), all other entries and their
order stay; otherwise `newp` is appended. -/
theorem set_spec (env : Env) (d : Decl) (name v prio : Cps) (newp : Pty) (h : NameInv d.seq)
    (hr : d.readonly = false) (hv : v ≠ []) (hmk : mkProperty env name v prio = .ok newp) (hw : newp.wf = true) :
    props (setProperty env d name (some v) prio true true).st.seq =
      (match effective (props d.seq) (normalize name) with
       | some _ => updEffective (fun q => q.name == normalize name) (fun q => (updateProp env q newp).p) (props d.seq)
       | none => props d.seq ++ [newp]) := by
  have := (set_refines env d name (some v) prio true h).1
  unfold absD at this
  have hps := congrArg Spec.ps this
  simp only [] at hps
  rw [hps]
  unfold specSet
  cases v with
  | nil => exact absurd rfl hv
  | cons c cs =>
    simp only [hr, Bool.false_eq_true, if_false, hmk, hw, if_true]
    cases effective (props d.seq) (normalize name) <;> rfl

/-- T10.4 (`normalize=False`): with an accepted new property the LAST entry whose literal name is `name` is modified
in place — not the effective (`!important`) one among them, and no entry spelled differently; without such an entry
the new one is appended (also when the block holds the property under another spelling) -/
theorem set_literal_spec (env : Env) (d : Decl) (name v prio : Cps) (newp : Pty) (h : NameInv d.seq)
    (hr : d.readonly = false) (hv : v ≠ []) (hmk : mkProperty env name v prio = .ok newp) (hw : newp.wf = true) :
    props (setProperty env d name (some v) prio false true).st.seq =
      (match lastP (fun q => q.lit == name) (props d.seq) with
       | some _ => updLast (fun q => q.lit == name) (fun q => (updateProp env q newp).p) (props d.seq)
       | none => props d.seq ++ [newp]) ∧
    nonProps (setProperty env d name (some v) prio false true).st.seq = nonProps d.seq := by
  have hh := setLit_refines env d name (some v) prio true h
  refine ⟨?_, hh.2.2.2⟩
  have := hh.1
  unfold absD at this
  have hps := congrArg Spec.ps this
  simp only [] at hps
  rw [hps]
  unfold specSetLit
  cases v with
  | nil => exact absurd rfl hv
  | cons c cs =>
    simp only [hr, Bool.false_eq_true, if_false, hmk, hw, if_true]
    cases lastP (fun q => q.lit == name) (props d.seq) <;> rfl

/-- the difference to the default is real: in `c: 1 !important; c: 2` a literal update of `c` changes the second
entry, the normalising update the first (effective) one -/
example :
    (props (setProperty exampleEnv { seq := renderWitness } [99] (some [51]) [] false true).st.seq).map (·.val.css)
      = [[49], [51]] ∧
    (props (setProperty exampleEnv { seq := renderWitness } [99] (some [51]) [] true true).st.seq).map (·.val.css)
      = [[51], [50]] := by
  decide

/-- whatever `setProperty` does (update, append, removal for an empty value, rejection), comments and unknown rules
of the block stay where they are -/
theorem set_keeps_comments (env : Env) (d : Decl) (name : Cps) (value : Option Cps) (prio : Cps) (repl : Bool)
    (h : NameInv d.seq) : nonProps (setProperty env d name value prio true repl).st.seq = nonProps d.seq :=
  (set_refines env d name value prio repl h).2.2.2

/-- `replace=False` always appends ("add-duplicate") -/
theorem add_duplicate_spec (env : Env) (d : Decl) (name v prio : Cps) (newp : Pty) (h : NameInv d.seq)
    (hr : d.readonly = false) (hv : v ≠ []) (hmk : mkProperty env name v prio = .ok newp) (hw : newp.wf = true) :
    props (setProperty env d name (some v) prio true false).st.seq = props d.seq ++ [newp] := by
  have := (set_refines env d name (some v) prio false h).1
  unfold absD at this
  have hps := congrArg Spec.ps this
  simp only [] at hps
  rw [hps]
  unfold specSet
  cases v with
  | nil => exact absurd rfl hv
  | cons c cs => simp [hr, hmk, hw]

/-- a rejected new property (exception in raising mode, or not well-formed) leaves the block unchanged -/
theorem set_rejected_unchanged (env : Env) (d : Decl) (name v prio : Cps) (repl : Bool) (hv : v ≠ [])
    (hmk : (∃ e, mkProperty env name v prio = .error e) ∨ (∃ q, mkProperty env name v prio = .ok q ∧ q.wf = false)) :
    (setProperty env d name (some v) prio true repl).st = d := by
  unfold setProperty
  by_cases hr : d.readonly = true
  · simp [hr]
  · cases v with
    | nil => exact absurd rfl hv
    | cons c cs =>
      simp only [hr, Bool.false_eq_true, if_false]
      rcases hmk with ⟨e, he⟩ | ⟨q, hq, hwf⟩
      · simp [he]
      · simp only [hq, hwf, Bool.false_eq_true, if_false]
        cases logCall env <;> rfl

/-- what the in-place update does to the entry when the front end is sane: the value text of the new property
re-parses to itself, the priority is `''` or `important`, and `!important` tokenises as `!` `important`:
the entry gets the new value and the new priority, keeps its names, and nothing is raised -/
theorem update_entry_normal (env : Env) (p newp : Pty)
    (hval : env.parseValue newp.val.css = some newp.val)
    (hprio : newp.prio = [] ∨ newp.prio = important)
    (htok : env.tokenize (33 :: important) = [⟨.char, [33]⟩, ⟨.ident, important⟩]) :
    (updateProp env p newp).err = none ∧ (updateProp env p newp).p.val = newp.val ∧
    (updateProp env p newp).p.prio = newp.prio ∧ (updateProp env p newp).p.lit = p.lit ∧
    (updateProp env p newp).p.name = p.name := by
  have hf := updateProp_frame env p newp
  have hu : updateProp env p newp =
      ⟨{ p with val := newp.val, prioSeq := (if newp.prio = [] then [] else [.str [33], .str important]),
                litPrio := newp.prio, prio := newp.prio }, none⟩ := by
    unfold updateProp setValue
    simp only [hval]
    rcases hprio with hp | hp
    · rw [hp, setPriorityStr_empty]; rfl
    · rw [hp, setPriorityStr_important env _ htok]; rfl
  rw [hu]
  exact ⟨rfl, rfl, rfl, by rw [← hf.2, hu], by rw [← hf.1, hu]⟩

/-! ## T10.5 refinement: every history -/

/-- one operation: the model's entries, read-only flag and outcome are those of the specification step, and the
name invariant is kept -/
theorem step_refines (env : Env) (d : Decl) (c : Call) (h : NameInv d.seq) :
    absD (step env d c).st = (specStep env (absD d) c).st ∧
    (step env d c).out = (specStep env (absD d) c).out ∧
    NameInv (step env d c).st.seq := by
  unfold step specStep
  cases c with
  | mk raising op =>
    cases op with
    | set n v p repl => exact ⟨(set_refines _ d n v p repl h).1, (set_refines _ d n v p repl h).2.1, (set_refines _ d n v p repl h).2.2.1⟩
    | setLit n v p repl => exact ⟨(setLit_refines _ d n v p repl h).1, (setLit_refines _ d n v p repl h).2.1, (setLit_refines _ d n v p repl h).2.2.1⟩
    | setItem n v p => exact ⟨(set_refines _ d n v (p.getD []) true h).1, (set_refines _ d n v (p.getD []) true h).2.1, (set_refines _ d n v (p.getD []) true h).2.2.1⟩
    | remove n norm =>
      have := remove_refines d n norm h
      exact ⟨this.1, this.2, remove_nameInv d n norm h⟩
    | delItem n =>
      have := remove_refines d n true h
      exact ⟨this.1, this.2, remove_nameInv d n true h⟩
    | setText items =>
      have := text_refines (withMode env raising) d items
      exact ⟨this.1, this.2, text_nameInv _ d items h⟩
    | setReadonly b => exact ⟨rfl, rfl, h⟩

/-- T10.5 for every finite sequence of operations (set with `normalize` on or off, add-duplicate, item assignment, removal, item deletion, text
replacement, read-only switches, each under either error mode) from any block satisfying the name invariant:
the entry list and the outcomes of the model are exactly those of the ordered-multimap specification. -/
theorem run_refines (env : Env) (d : Decl) (cs : List Call) (h : NameInv d.seq) :
    absD (run env d cs).1 = (specRun env (absD d) cs).1 ∧
    (run env d cs).2 = (specRun env (absD d) cs).2 ∧
    NameInv (run env d cs).1.seq := by
  induction cs generalizing d with
  | nil => exact ⟨rfl, rfl, h⟩
  | cons c cs ih =>
    have hs := step_refines env d c h
    have := ih (step env d c).st hs.2.2
    simp only [run, specRun]
    rw [← hs.1, ← hs.2.1]
    exact ⟨this.1, by rw [this.2.1], this.2.2⟩

/-- … in particular from the empty block; so T10.1–T10.4 apply to every reachable block -/
theorem run_from_empty (env : Env) (cs : List Call) :
    absD (run env { seq := [] } cs).1 = (specRun env ⟨[], false⟩ cs).1 ∧
    (run env { seq := [] } cs).2 = (specRun env ⟨[], false⟩ cs).2 ∧
    NameInv (run env { seq := [] } cs).1.seq :=
  run_refines env { seq := [] } cs (by intro p hp; simp [props] at hp)

/-! non-vacuity: a concrete history under a concrete environment (an update after the effective entry lost its
priority — the example of `properties.jsonl`) -/
example :
    let cs : List Call := [
      ⟨true, .set [99] (some [49]) (33 :: important) true⟩,     -- c: 1 !important
      ⟨true, .set [99] (some [50]) [] false⟩,                    -- add-duplicate c: 2
      ⟨true, .set [67] (some [51]) [] true⟩]                     -- C: 3  (updates the important entry, which loses `!`)
    ((run exampleEnv { seq := [] } cs).1.seq.map (fun it => match it with
        | .prop p => (p.lit, p.val.value, p.prio) | _ => ([], [], []))) = [([99], [51], []), ([99], [50], [])]
    ∧ getPropertyValue (run exampleEnv { seq := [] } cs).1.seq [99] true = [50] := by
  decide

/-! ## T10.6 DOM names -/

/-- T10.6 (exhaustive): every known property name survives CSS name → DOM name → CSS name, so the camel-case
attribute generated for it (`cssproperties.py:127-148`) addresses the property itself -/
theorem dom_names_roundtrip : ∀ n ∈ CssVerif.Gen.C10.propertyNames, toCSS (toDOM n) = n := by
  decide +kernel

/-- T10.6 (general): every name without capitals in which no single-letter word is directly followed by another
hyphen-letter (`-x-y`) survives the round trip — not only the names known today -/
theorem dom_names_general (n : Cps) (h1 : noUpper n = true) (h2 : noAdj n = true) : toCSS (toDOM n) = n :=
  toCSS_toDOM_general n h1 h2

/-- every known name is in the scope of the general lemma (non-vacuity), and the side condition is needed -/
theorem dom_names_in_general_scope :
    (∀ n ∈ CssVerif.Gen.C10.propertyNames, noUpper n = true ∧ noAdj n = true) ∧
    toCSS (toDOM (cps "a-b-c")) ≠ cps "a-b-c" := by
  refine ⟨by decide +kernel, by decide⟩

/-- the hand-written scanners `toDOM` / `toCSS` transcribe exactly these two regular expressions; if the source
changes either, this stops building and the check goes down the "obligation broken" path -/
theorem dom_regexes_pinned :
    CssVerif.Gen.C10.reCSStoDOM = cps "-[a-z]" ∧
    CssVerif.Gen.C10.reDOMtoCSS = cps "([A-Z])[a-z]+|(?<![A-Z])[A-Z](?![A-Z])" := by
  decide

/-! ## T10.7 the variables block: `_vars` and `seq` agree -/

/-- under the invariant, and when every key is a fixpoint of `normalize`, the API (`[(k, getVariableValue(k)) for k in
keys()]`) reports exactly the variables the serialisation lists, with the same values, in the same order; keys are
distinct -/
theorem vars_api_eq_serialisation (s : Vars) (h : VInv s) (hk : KeysStable s) :
    vReported s = vSerialized s ∧ (vKeys s).Nodup := by
  refine ⟨?_, h.2⟩
  rw [vSerialized_eq, ← h.1, vReported_direct s h.2 hk]

theorem vars_inv_empty : VInv { vars := [], seq := [] } := ⟨rfl, by simp [dkeys]⟩

/-- `cssText = …` (any accepted text, duplicates and comments included) establishes the invariant -/
theorem vars_inv_setCssText (s : Vars) (items : List VSrc) (h : VInv s) : VInv (vSetCssText s items).st :=
  vSetCssText_inv s items h

/-- `removeVariable` keeps it (the delete-while-iterating loop removes the one matching item) and returns the
reported value -/
theorem vars_inv_remove (s : Vars) (name : Cps) (h : VInv s) :
    VInv (vRemove s name).st ∧ (s.readonly = false → (vRemove s name).out = .ok (vGet s name)) :=
  vRemove_inv s name h

/-- `setVariable` keeps the invariant for every name (since fix "setVariable keeps the identifier the grammar accepted
as the variable name": the item list holds the literal identifier, the dict its normal form, as after parsing) -/
theorem vars_inv_set (env : Env) (s : Vars) (name value : Cps) (h : VInv s) : VInv (vSet env s name value).st :=
  vSet_inv env s name value h

/-- under the invariant `keys()` are exactly the names the serialisation lists, in order, and looking a variable up by
the literal name of its item gives the serialised value -/
theorem vars_keys_and_literal_lookup (s : Vars) (h : VInv s) :
    vKeys s = (vSerialized s).map (·.1) ∧
    ∀ n v, VItem.var n v ∈ s.seq → vGet s n = v.css := by
  refine ⟨?_, ?_⟩
  · rw [vSerialized_eq, ← h.1]; simp [vKeys, List.map_map, Function.comp]
  · intro n v hm
    have hmem : (normalize n, v) ∈ s.vars := by
      rw [h.1]
      have : ∀ seq : List VItem, VItem.var n v ∈ seq → (normalize n, v) ∈ varsOf seq := by
        intro seq
        induction seq with
        | nil => intro x; cases x
        | cons x t ih =>
          intro hx
          simp only [List.mem_cons] at hx
          rcases hx with hx | hx
          · subst hx; simp [varsOf]
          · cases x <;> simp [varsOf, ih hx]
      exact this s.seq hm
    have := dictGet_of_mem s.vars (normalize n, v) h.2 hmem
    simp only [vGet, this]

/-- T10.7 over histories: after ANY sequence of parse / set / remove / read-only switches (either error mode, any
names) the look-up dict is exactly what the serialisable item list denotes, keys are distinct, `keys()` are the
serialised names and look-up by literal name gives the serialised value -/
theorem vars_run (env : Env) (s : Vars) (ops : List (Bool × VOp)) (h : VInv s) :
    VInv (vrun env s ops) ∧ vKeys (vrun env s ops) = (vSerialized (vrun env s ops)).map (·.1) := by
  suffices hh : VInv (vrun env s ops) from ⟨hh, (vars_keys_and_literal_lookup _ hh).1⟩
  induction ops generalizing s with
  | nil => exact h
  | cons o os ih =>
    simp only [vrun]
    apply ih
    cases hop : o.2 with
    | set n v => exact vSet_inv _ s n v h
    | remove n => exact (vRemove_inv s n h).1
    | setText items => exact vSetCssText_inv s items h
    | setReadonly b => exact h

/-- T10.7, the clause of the property statement ("its serialisation always listing exactly the variables the API
reports") over ALL histories and ALL names, no guard: the API report
`[(k, getVariableValue(requote(k))) for k in keys()]` — every listed key looked up by a literal spelling of it,
`requote` doubling each backslash — equals the serialised (name, value) list, in order. (`keys()` lists *normalised*
names and `getVariableValue` normalises its argument, so a listed key has to be written as a literal again before it
is passed back; `normalize_requote` shows that `requote` is such a spelling for every normalised name.) -/
theorem vars_run_reported (env : Env) (s : Vars) (ops : List (Bool × VOp)) (h : VInv s) :
    vReportedQ (vrun env s ops) = vSerialized (vrun env s ops) ∧
    ∀ k ∈ vKeys (vrun env s ops), normalize (requote k) = k := by
  have hinv := (vars_run env s ops h).1
  refine ⟨vReportedQ_eq _ hinv, ?_⟩
  intro k hk
  obtain ⟨e, he, hek⟩ := List.mem_map.mp hk
  obtain ⟨n, hn⟩ := varsOf_keys_normal (vrun env s ops).seq e (by rw [← hinv.1]; exact he)
  rw [← hek, hn]
  exact normalize_requote n

/-- … in particular from the empty block -/
theorem vars_run_reported_from_empty (env : Env) (ops : List (Bool × VOp)) :
    vReportedQ (vrun env { vars := [], seq := [] } ops) = vSerialized (vrun env { vars := [], seq := [] } ops) :=
  (vars_run_reported env _ ops vars_inv_empty).1

/-- the same for the style block: looking a LISTED name up by its literal spelling finds the effective entry of that
name — at every block satisfying the name invariant (every reachable one, `run_refines`) -/
theorem listed_name_lookup (seq : List Item) (h : NameInv seq) (n : Cps) (hn : n ∈ keys seq) :
    getProperty seq (requote n) true = effective (props seq) n ∧ (effective (props seq) n).isSome = true := by
  obtain ⟨p, hp, hpn⟩ := (mem_nnames seq n).mp hn
  have e : normalize (requote n) = n := by
    rw [← hpn, h p hp]; exact normalize_requote p.lit
  refine ⟨by rw [getProperty_spec seq _ h, e], ?_⟩
  obtain ⟨x, hx⟩ := effectiveBy_isSome_of_mem (fun q => q.name == n) (props seq) p hp (by simp [hpn])
  unfold effective
  rw [hx]; rfl

/-- the variant that passes the listed key back AS IT IS (`getVariableValue(k)`) holds when all identifiers are stable
under `normalize` … -/
theorem vars_run_reported_direct (env : Env) (s : Vars) (ops : List (Bool × VOp)) (h : VInv s) (hk : KeysStable s)
    (hst : ∀ o ∈ ops, VOpStable (withMode env o.1) o.2) :
    KeysStable (vrun env s ops) ∧ vReported (vrun env s ops) = vSerialized (vrun env s ops) := by
  suffices hh : KeysStable (vrun env s ops) from
    ⟨hh, (vars_api_eq_serialisation _ (vars_run env s ops h).1 hh).1⟩
  induction ops generalizing s with
  | nil => exact hk
  | cons o os ih =>
    simp only [vrun]
    have ho := hst o (by simp)
    have hrest : ∀ o' ∈ os, VOpStable (withMode env o'.1) o'.2 := fun o' ho' => hst o' (by simp [ho'])
    cases hop : o.2 with
    | set n v =>
      rw [hop] at ho
      exact ih _ (vSet_inv _ s n v h) (vSet_keysStable _ s n v hk ho) hrest
    | remove n => exact ih _ (vRemove_inv s n h).1 (vRemove_keysStable s n hk) hrest
    | setText items =>
      rw [hop] at ho
      exact ih _ (vSetCssText_inv s items h) (vSetCssText_keysStable s items hk ho) hrest
    | setReadonly b => exact ih _ h hk hrest

/-- … and only then: for the block of `vars_escaped_backslash_fixed` (one variable `a\\g`) the key `a\g` passed back
as it is finds nothing, while its literal spelling finds the value -/
theorem vars_reported_direct_needs_guard :
    vReported escVars = [([97, 92, 103], [])] ∧ vReportedQ escVars = [([97, 92, 103], [50])] ∧
    vSerialized escVars = [([97, 92, 103], [50])] := by
  decide

/-- the former witness of the fixed finding in the variables block: `setVariable('a\\g','1'); setVariable('a\\g','2')`
now leaves one item `a\\g` with the value `2`, key `a\g`, and the invariant holds -/
theorem vars_escaped_backslash_fixed :
    vKeys escVars = [[97, 92, 103]] ∧ vSerialized escVars = [([97, 92, 103], [50])] ∧
    escVars.seq = [.var escLit ⟨[50], [50]⟩] ∧ VInv escVars := by
  refine ⟨by decide, by decide, by decide, ?_⟩
  exact vSet_inv _ _ _ _ (vSet_inv _ _ _ _ vars_inv_empty)

/-! ## T10.8 `cssText` of both block kinds: the rendering lists exactly the entries

Model: `Model/DeclText.lean` (`do_Property`, `do_css_CSSStyleDeclaration`, `do_css_CSSVariablesDeclaration` with
`Out`), for EVERY setting of the serializer preferences these methods read (`SPrefs`) and every value serializer /
validity oracle (`REnv`). `linesOf` / `lineOf` / `renderLines` / `vLines` (`Lemmas/DeclText.lean`) are the transparent
reference renderings. -/

/-- T10.8 (style block, layout): `style.cssText` is the lines of the written items joined by the line separator, no
separator after the last line; a line is a comment, or `name: value [priority]` of one entry followed by `;` unless it
is the last item and `omitLastSemicolon` is set (`lineOf`). For every block, every preference setting. -/
theorem cssText_layout (pf : SPrefs) (re : REnv) (seq : List Item) :
    cssTextP pf re seq = joinWith pf.lineSeparator (linesOf pf re pf.omitLastSemicolon (declSeqP pf seq)) := by
  unfold cssTextP
  rw [cssTextSep_joinWith]
  simp

/-- … and `getCssText(separator)` likewise with the given separator -/
theorem getCssText_layout (pf : SPrefs) (re : REnv) (sep : Cps) (seq : List Item) :
    cssTextSep pf re sep true seq = joinWith sep (linesOf pf re pf.omitLastSemicolon (declSeqP pf seq)) := by
  rw [cssTextSep_joinWith]
  simp

/-- T10.8 (style block, `keepAllProperties` on — the default): every item of the block is written, in order; so the
lines list every entry that has a text (a not well-formed one has none), duplicates included -/
theorem cssText_all_entries (pf : SPrefs) (seq : List Item) (hk : pf.keepAllProperties = true) :
    declSeqP pf seq = seq := by
  simp [declSeqP, hk]

/-- T10.8 (style block, `keepAllProperties` off): an entry is written iff it is the effective entry of its name —
every written entry is the effective one of its name, every name of the block is written, exactly once, in block
order, and comments stay -/
theorem cssText_effective_entries (pf : SPrefs) (seq : List Item) (hk : pf.keepAllProperties = false) :
    (∀ p ∈ props (declSeqP pf seq), effective (props seq) p.name = some p) ∧
    (∀ n ∈ nnames seq, ∃ p ∈ props (declSeqP pf seq), p.name = n) ∧
    ((props (declSeqP pf seq)).map (·.name)).Nodup ∧
    (props (declSeqP pf seq)).Sublist (props seq) ∧
    nonProps (declSeqP pf seq) = nonProps seq := by
  rw [declSeqP_effective pf seq hk]
  refine ⟨?_, ?_, keepBy_names_nodup (effectiveIdx seq) seq 0, props_keepBy_sublist _ _ _, nonProps_keepBy _ _ _⟩
  · intro p hp
    obtain ⟨j, hj, hq⟩ := mem_props_keepBy _ seq 0 p hp
    simp only [Nat.zero_add, beq_iff_eq] at hq
    rw [← effectiveOf_effective]
    unfold effectiveOf
    rw [hq]
    simp [propAt, hj]
  · intro n hn
    obtain ⟨q, hq, hqn⟩ := (mem_nnames seq n).mp hn
    obtain ⟨x, hx⟩ := effectiveBy_isSome_of_mem (fun r => r.name == n) (props seq) q hq (by simp [hqn])
    have hx' : effectiveOf seq n = some x := by rw [effectiveOf_effective]; exact hx
    unfold effectiveOf at hx'
    cases hi : effectiveIdx seq n with
    | none => rw [hi] at hx'; simp at hx'
    | some i =>
      rw [hi] at hx'
      simp only [Option.bind_some] at hx'
      obtain ⟨p', hp', hname⟩ := effectiveIdx_sound seq n i hi
      rw [hx'] at hp'
      simp only [Option.some.injEq] at hp'
      subst hp'
      refine ⟨x, props_keepBy_mem _ seq 0 i x (propAt_some seq i x hx') ?_, hname⟩
      simp [hname, hi]

/-- non-vacuity and a test of the layout on a concrete block (`c: 1 !important; c: 2` plus a comment) under the
default preferences, with `keepAllProperties` off, and under the minifying settings -/
example :
    cssTextP SPrefs.default REnv.default renderWitness = cps "c: 1 !important;\n/*k*/\nc: 2" ∧
    cssTextP { SPrefs.default with keepAllProperties := false } REnv.default renderWitness
      = cps "c: 1 !important;\n/*k*/" ∧
    cssTextP minifiedPrefs REnv.default renderWitness = cps "c:1 !important;c:2" := by
  decide

/-- T10.8 (variables block): for every block and every preference setting whose layout strings are white space
(`LayoutWs`: the defaults, `useMinified`, …), the serialisation is — up to that layout white space — exactly its
lines written one after the other: `name:value;` per variable (the last `;` omitted with `omitLastSemicolon`),
comments in between (`renderLines`); and with `normalizedVarNames` the entries of these lines are `vSerialized`,
i.e. (T10.7) exactly the variables the API reports. `Out.append`'s white-space bookkeeping (removal of a trailing
blank, spacers, the blank between `/` and `*`, the indented `}`), `Out.value` and the final strip that keeps an
escaped blank never add or drop anything else. -/
theorem vars_cssText_entries (pf : SPrefs) (re : REnv) (il : Nat) (s : Vars) (hl : LayoutWs pf) :
    stripWs (vCssTextP pf re il s) = stripWs (renderLines pf.omitLastSemicolon (vLines pf re s.seq)) ∧
    (pf.normalizedVarNames = true → lineEntries (vLines pf REnv.default s.seq) = vSerialized s) := by
  refine ⟨?_, lineEntries_vLines pf s⟩
  rw [vCssTextP_content pf re il s hl, vContent_lines]

/-- the hypothesis is satisfiable: the default and the minifying preferences have white-space layout strings;
and the exact text of a concrete block -/
example : LayoutWs SPrefs.default ∧ LayoutWs minifiedPrefs ∧
    vCssTextP SPrefs.default REnv.default 1 escVars = cps "a\\g: 2" ∧
    vCssTextP minifiedPrefs REnv.default 1 varsWitness = cps "x:1;y:2" ∧
    vCssTextP SPrefs.default REnv.default 1 varsWitness = cps "x: 1;\n/*k*/ \n y: 2" := by
  refine ⟨⟨by decide, by decide, by decide, by decide, by decide, by decide⟩,
    ⟨by decide, by decide, by decide, by decide, by decide, by decide⟩, by decide, by decide, by decide⟩

/-! ### … and reparses to them (item level)

The splitting of a text into items is the block parser's (kernels C02 / C04), so the reparse is stated on the items the
written text consists of: `srcOf` / `vSrcOf ∘ vWritten` (`Lemmas/DeclText.lean`). -/

/-- a written property is `name` `:` `value field` `priority` — the three fields of the source item `srcOfItem`
gives for it (the value field carries the spacer after the colon and the blank before the priority) -/
theorem property_text_fields (pf : SPrefs) (re : REnv) (p : Pty) (h : propTextP pf re p ≠ []) :
    propTextP pf re p = nameText pf p ++ [58] ++ valueField pf re p ++ prioText pf p :=
  propTextP_fields pf re p h

/-- under the default preferences an entry without comments in its name and priority is written
`name: value` or `name: value !priority` with the NORMALISED priority (`defaultPropertyPriority`) and the lower-cased
literal name (`keepAllProperties` keeps the literal name) -/
theorem property_text_default (p : Pty) (hw : p.wf = true) (hn : p.nameSeq = [.str p.lit])
    (hp : p.prioSeq = [] ∨ p.prioSeq = [.str [33], .str p.litPrio]) (hl : p.litPrio ≠ [33]) :
    propTextP SPrefs.default REnv.default p =
      p.lit ++ [58, 32] ++ p.val.css ++ (if p.prioSeq = [] then [] else 32 :: 33 :: p.prio) := by
  have hl' : ¬ ([33] = p.litPrio) := fun h => hl h.symm
  rcases hp with hp | hp
  · simp [propTextP, SPrefs.default, REnv.default, hw, hn, hp, namePartText]
  · simp [propTextP, SPrefs.default, REnv.default, hw, hn, hp, namePartText, prioPartTextP, hl']

/-- T10.8 (style block, reparse): if the front end reads every written declaration back as the same entry
(`ReparseOk`: a condition on tokenizer / value grammar, the parameters of the model), then assigning the written items
to ANY writable block is accepted and leaves exactly the written entries — same (name, value, priority), same order,
nothing dropped or added — and the written comments. With T10.8 above: all entries, or the effective one per name. -/
theorem cssText_reparse (env : Env) (pf : SPrefs) (re : REnv) (seq : List Item) (d0 : Decl) (hr : d0.readonly = false)
    (hok : ∀ p ∈ props (declSeqP pf seq), propTextP pf re p ≠ [] → ReparseOk env pf re p) :
    (setCssText env d0 (srcOf pf re (declSeqP pf seq))).out = .ok () ∧
    (props (setCssText env d0 (srcOf pf re (declSeqP pf seq))).st.seq).map entryKey =
      ((props (declSeqP pf seq)).filter (fun p => propTextP pf re p != [])).map entryKey ∧
    nonProps (setCssText env d0 (srcOf pf re (declSeqP pf seq))).st.seq = writtenComments pf (declSeqP pf seq) := by
  obtain ⟨r, hfold, h1, h2⟩ := reparse_fold env pf re (declSeqP pf seq) [] hok
  unfold setCssText
  simp only [hr, Bool.false_eq_true, if_false, hfold]
  exact ⟨trivial, by simpa [props] using h1, by simpa [nonProps] using h2⟩

/-- the hypothesis is satisfiable (`c: 2` under the minifying preferences, example front end) -/
example : ∀ p ∈ props (declSeqP minifiedPrefs reparseWitness), propTextP minifiedPrefs REnv.default p ≠ [] →
    ReparseOk exampleEnv minifiedPrefs REnv.default p := by
  intro p hp _
  have : p = { wf := true, nameSeq := [.str [99]], lit := [99], name := [99], val := ⟨[50], [50]⟩,
               prioSeq := [], litPrio := [], prio := [] } := by
    simpa [declSeqP, minifiedPrefs, reparseWitness, props] using hp
  subst this
  exact ⟨_, rfl, by decide, by decide⟩

/-- … and for entries without comments in name and priority (`PlainEntry`) the condition follows from three facts about
the front end on the written fields (`FrontEndReads`: the written name is one IDENT token, the value field parses to
the stored value, the written priority is `!` + IDENT), plus — when the normalised name is written
(`defaultPropertyName` without `keepAllProperties`) — the name being stable under `normalize` -/
theorem cssText_reparse_plain (env : Env) (pf : SPrefs) (re : REnv) (seq : List Item) (d0 : Decl)
    (hr : d0.readonly = false)
    (hplain : ∀ p ∈ props (declSeqP pf seq), propTextP pf re p ≠ [] → PlainEntry p ∧ FrontEndReads env pf re p ∧
      ((pf.defaultPropertyName && !pf.keepAllProperties) = true → normalize p.name = p.name)) :
    (props (setCssText env d0 (srcOf pf re (declSeqP pf seq))).st.seq).map entryKey =
      ((props (declSeqP pf seq)).filter (fun p => propTextP pf re p != [])).map entryKey :=
  (cssText_reparse env pf re seq d0 hr (fun p hp ht =>
    reparseOk_plain env pf re p (hplain p hp ht).1 (hplain p hp ht).2.1 (hplain p hp ht).2.2)).2.1

/-- the hypotheses are satisfiable together (`c: 2`, minifying preferences, example front end) -/
example : ∀ p ∈ props (declSeqP minifiedPrefs reparseWitness), propTextP minifiedPrefs REnv.default p ≠ [] →
    PlainEntry p ∧ FrontEndReads exampleEnv minifiedPrefs REnv.default p ∧
      ((minifiedPrefs.defaultPropertyName && !minifiedPrefs.keepAllProperties) = true → normalize p.name = p.name) := by
  intro p hp _
  have : p = { wf := true, nameSeq := [.str [99]], lit := [99], name := [99], val := ⟨[50], [50]⟩,
               prioSeq := [], litPrio := [], prio := [] } := by
    simpa [declSeqP, minifiedPrefs, reparseWitness, props] using hp
  subst this
  exact ⟨⟨rfl, rfl, by decide, by decide, by decide, Or.inl ⟨rfl, rfl⟩⟩,
    ⟨by decide, by decide, by decide, fun h => absurd rfl h⟩, fun _ => by decide⟩

/-- T10.8 (variables block, reparse): for every block satisfying the invariant (every reachable one, `vars_run`),
assigning the item sequence of the written block (`vWritten`: names as written, comments when kept) to ANY writable
block is accepted and yields the written items; it denotes the same variables — always with literal names, and with
`normalizedVarNames` whenever the keys are stable under `normalize` (a key that is not, e.g. `a\g`, is WRITTEN as the
different identifier `ag`: the residual of listing normalised names, see `vars_reported_direct_needs_guard`). -/
theorem vars_reparse (pf : SPrefs) (s s0 : Vars) (h : VInv s) (hr : s0.readonly = false)
    (hk : pf.normalizedVarNames = true → KeysStable s) :
    (vSetCssText s0 (vSrcOf (vWritten pf s.seq))).out = .ok () ∧
    (vSetCssText s0 (vSrcOf (vWritten pf s.seq))).st.seq = vWritten pf s.seq ∧
    (vSetCssText s0 (vSrcOf (vWritten pf s.seq))).st.vars = s.vars ∧
    vSerialized (vSetCssText s0 (vSrcOf (vWritten pf s.seq))).st = vSerialized s := by
  have hw : varsOf (vWritten pf s.seq) = varsOf s.seq := by
    apply varsOf_vWritten
    intro hp e he
    exact hk hp e.1 (by rw [vKeys, h.1]; exact List.mem_map_of_mem he)
  obtain ⟨b, hb, h1, h2⟩ := vReparse_fold (vWritten pf s.seq) {} (by
    simp only [List.nil_append, hw, ← h.1]; exact h.2)
  have e : vSetCssText s0 (vSrcOf (vWritten pf s.seq)) = ⟨{ s0 with seq := b.seq, vars := b.vars }, .ok ()⟩ := by
    unfold vSetCssText
    simp only [hr, Bool.false_eq_true, if_false, hb]
  rw [e]
  simp only [List.nil_append] at h1 h2
  refine ⟨rfl, h1, by rw [h2, hw, h.1], ?_⟩
  rw [vSerialized_eq, vSerialized_eq]
  simp only [h1, hw]

/-- T10.8 (variables block, exact text under the default preferences): a block of variables only whose written names
and value texts are ordinary words (`Solid`: not empty, no white space at the ends, none of the punctuation strings
`Out.append` reacts to) is written `name: value` per variable, joined by `;` and a line break — white space included -/
theorem vars_cssText_exact_default (re : REnv) (il : Nat) (s : Vars) (hne : s.seq ≠ []) (hs : SolidVars re s.seq) :
    vCssTextP SPrefs.default re il s = vBody re s.seq :=
  vCssTextP_exact_default re il s hne hs

/-- satisfiable: `x: 1; y: 2` -/
example : solidWitness.seq ≠ [] ∧ SolidVars REnv.default solidWitness.seq ∧
    vBody REnv.default solidWitness.seq = cps "x: 1;\ny: 2" := by
  refine ⟨by decide, ⟨?_, ?_, ?_, ?_, trivial⟩, by decide⟩ <;>
    exact solid_single _ (by decide) (by decide) (by decide) (by decide) (by decide)

/-! ## T10.6 (continued) attribute-style access

Model: `Model/DeclAttr.lean` — the generated properties as a table from the regenerated names, `getattr` / `setattr` /
`delattr` through `_getP` / `_setP` / `_delP`. -/

/-- T10.6 for every known property name `n`: the attribute `_toDOMname(n)` exists, its accessors use exactly `n`, and
reading, assigning and deleting it are `getPropertyValue(n)`, `setProperty(n, value)` and `removeProperty(n)` — at
every block -/
theorem attr_access_is_css_access (env : Env) (d : Decl) (value : Option Cps) :
    ∀ n ∈ CssVerif.Gen.C10.propertyNames,
      attrCss (toDOM n) = some n ∧
      attrGet d.seq (toDOM n) = some (getPropertyValue d.seq n true) ∧
      attrSet env d (toDOM n) value = some (setProperty env d n value [] true true) ∧
      attrDel d (toDOM n) = some (removeProperty d n true) := by
  intro n hn
  have h := attrCss_known dom_names_roundtrip n hn
  simp [attrGet, attrSet, attrDel, h]

/-- a name that is not the DOM name of a known property has no attribute (`AttributeError`) -/
theorem attr_unknown : attrCss (cps "fooBar") = none ∧ attrCss (cps "font-style") = none ∧
    attrCss (cps "fontStyle") = some (cps "font-style") := by
  decide +kernel

end CssVerif.C10
