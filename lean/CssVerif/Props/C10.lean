import CssVerif.Lemmas.Decl
import CssVerif.Gen.C10Names
/-!
# C10 — declaration blocks obey the ordered-multimap-with-cascade model
-/
namespace CssVerif.C10
open CssVerif.Decl

/-- T10.6 (exhaustive): every known property name survives CSS name → DOM name → CSS name -/
theorem dom_names_roundtrip : ∀ n ∈ CssVerif.Gen.C10.propertyNames, toCSS (toDOM n) = n := by
  decide +kernel

end CssVerif.C10
