import CssVerif.Lemmas.SelFinish
import CssVerif.Lemmas.SelPrep
import CssVerif.Lemmas.SelUsed
import CssVerif.Lemmas.SelList
import CssVerif.Lemmas.SelAcc
import CssVerif.Lemmas.SelTok
import CssVerif.Lemmas.SelAttachSpec
import CssVerif.Lemmas.SelAttachRun
/-!
# C16 — selector specificity, structure and list semantics

Property theorems only (helpers: `Lemmas/Sel*.lean`). Model: `Model/Sel.lean` (hand transcription of
`Selector._prepare_tokens`, the `New` state machine, the post-conditions and commit of
`Selector._setSelectorText`, `SelectorList`, `do_css_Selector`), tied to the source by the generated constants
(`Gen/C16SelConst.lean`) and by the differential correspondence of `tools/harness/c16.py`.
Specification side: `Model/SelSpec.lean` — a `Sel` is a selector of the CSS3 selector grammar *as written*
(structure + spelling); `Sel.raw` are the tokenizer's tokens, `Sel.count` the specificity (a function of the
skeleton `Sel.skel`, which forgets names, white space, comments and letter case), `Sel.items` the `seq`.
-/
namespace CssVerif.C16
open CssVerif.Sel CssVerif.Proto CssVerif.Gen.C16

/-! ## T16.1 — accounting, for every state and every token (no assumption on the token list) -/

/-- **T16.1 (one token).** Whatever the state and the token: either the counters `b, c, d` are unchanged, or the
token appended exactly one item `it` to `seq` and the counters grew by exactly
`(incB ctx it, incC ctx it, incD ctx it)`, where `ctx` is the context the item was appended in (the top of the
context stack before the token, or — for `:not(`, which pushes first — after it). By `inc_meaning` these
increments are: an `id` item → `b`; a `class` item or the `[` of an attribute → `c`; a `type-selector`,
`negation-type-selector` or `pseudo-element` item → `d`; each only while the context is the root or a negation,
never inside `[ ]` or the `( )` of a functional pseudo. Nothing else ever changes the specificity. -/
theorem accounting_step (ns : NsMap) (st st' : St) (t : Tok) (h : step ns st t = .ok st') :
    (st'.b = st.b ∧ st'.c = st.c ∧ st'.d = st.d) ∨
    (∃ ctx it, (st.ctx.head? = some ctx ∨ st'.ctx.head? = some ctx) ∧ st'.rseq = it :: st.rseq ∧
       st'.b = st.b + incB ctx it.typ ∧ st'.c = st.c + incC ctx it.typ it.val ∧
       st'.d = st.d + incD ctx it.typ it.val) := step_RS ns st st' t h

/-- what the increments are (they are 0 or 1, and at most one of them is 1) -/
theorem inc_meaning (ctx typ : Cps) (v : Val) :
    (incB ctx typ = 1 ↔ (ctx = [] ∨ ctx = cxNegation) ∧ typ = tyId) ∧
    (incC ctx typ v = 1 ↔ (ctx = [] ∨ ctx = cxNegation) ∧ typ ≠ tyId ∧ (typ = tyClass ∨ v = .str [91])) ∧
    (incD ctx typ v = 1 ↔ (ctx = [] ∨ ctx = cxNegation) ∧ typ ≠ tyId ∧ ¬ (typ = tyClass ∨ v = .str [91]) ∧
        elemOf typ dTypes = true) ∧
    incB ctx typ + incC ctx typ v + incD ctx typ v ≤ 1 := by
  have hv : v.isStr [91] = decide (v = .str [91]) := by
    cases v with
    | str s =>
      simp only [Val.isStr, Val.str.injEq]
      by_cases h : s = [91] <;> simp [h]
    | comment s => simp [Val.isStr]
    | ns u n => simp [Val.isStr]
  refine ⟨?_, ?_, ?_, inc_sum_le_one ctx typ v⟩ <;>
    (simp only [incB, incC, incD, countsIn, hv]
     by_cases h1 : ctx = [] <;> by_cases h2 : ctx = cxNegation <;> by_cases h3 : typ = tyId <;>
       by_cases h4 : typ = tyClass <;> by_cases h5 : v = .str [91] <;> cases h6 : elemOf typ dTypes <;>
       simp [h1, h2, h3, h4, h5])

/-- **T16.1 (a whole token list).** Along any run the counters never decrease, and they grow by at most one unit
per (regrouped) token: nothing is counted twice. -/
theorem accounting_run (ns : NsMap) (toks : List Tok) (st st' : St) (h : run ns st toks = .ok st') :
    st.b ≤ st'.b ∧ st.c ≤ st'.c ∧ st.d ≤ st'.d ∧ st'.b + st'.c + st'.d ≤ st.b + st.c + st.d + toks.length :=
  run_counts ns toks st st' h

/-! ## T16.2 — specificity and structure of every written selector, in every spelling -/

/-- **T16.2 `spec_render`.** For every selector of the grammar (compounds of optional type / universal
selector with optional namespace prefix, then id / class / attribute with every operator / pseudo-class /
functional pseudo with an+b, ident or string arguments / pseudo-element in one- and two-colon form /
`:not(simple)` — the simple selector may itself be a functional pseudo —, joined by the four combinators) and **every spelling** (white space and comments at every gap,
any letter case and backslash escapes in pseudo names and in `not(`, any quote style, any names), running
`_prepare_tokens`, the `New` state machine and the post-conditions on the tokenizer's tokens yields a wellformed
selector with specificity `(0, count)`, item sequence `items` and `element` as written. -/
theorem spec_render (ns : NsMap) (s : Sel) (hs : s.ok ns = true) :
    parseCore ns s.raw
      = .ok (some { b := s.count.1, c := s.count.2.1, d := s.count.2.2, seq := s.items ns, element := s.element ns }) := by
  unfold parseCore
  rw [prepare_raw ns s hs]
  exact run_sel_finish ns s hs

/-- … and `Selector.selectorText = …` commits it: no exception, not rejected, exactly these counts and items
(the namespace filter `_getUsedNamespaces` cannot fail on them). -/
theorem spec_render_commit (ns : NsMap) (s : Sel) (hs : s.ok ns = true) :
    ∃ used, parseSel ns s.raw
      = .ok (some { b := s.count.1, c := s.count.2.1, d := s.count.2.2, seq := s.items ns, element := s.element ns,
                    nsUsed := used }) := by
  have hne : s.raw.isEmpty = false := by
    cases hr : s.raw with
    | nil =>
      have h := spec_render ns s hs
      rw [hr] at h
      simp [parseCore, prepare, prepAcc, run, finishCore, bind, Except.bind, pure, Except.pure] at h
    | cons t ts => rfl
  obtain ⟨used, hu⟩ := usedNamespaces_ok ns (s.items ns)
  exact ⟨used, by simp [parseSel, hne, spec_render ns s hs, commit, hu, bind, Except.bind, pure, Except.pure]⟩

/-- **the specificity is what the property says**: `b` = number of ID selectors, `c` = number of class and
attribute selectors, `d` = number of type selectors and pseudo-elements — counted over all compounds and
including the arguments of `:not()`; universal selectors, pseudo-classes and `:not` itself count nothing. -/
theorem count_is_counting (s : Sel) :
    s.count = ((flatKinds s.skel).count .id,
               (flatKinds s.skel).count .cls + (flatKinds s.skel).count .attr,
               (flatKinds s.skel).count .type + (flatKinds s.skel).count .pelem) := by
  have hgen : ∀ (m : List (Option Comb × List (Kind × Bool))),
      m.foldr (fun p acc => add3 (countKinds p.2) acc) (0, 0, 0) = countKinds (m.flatMap (·.2)) := by
    intro m
    induction m with
    | nil => rfl
    | cons p t ih => simp [ih, countKinds_append]
  simp only [Sel.count, countSkel, hgen, ← countKinds_append, flatKinds]
  exact countKinds_counting _

/-- **invariance**: two written selectors with the same skeleton — i.e. differing only in white space, comments,
letter case, escapes, quote style, names, the spelling of `:not(` — get the same specificity from the code. -/
theorem specificity_depends_on_skeleton_only (ns₁ ns₂ : NsMap) (s₁ s₂ : Sel) (h₁ : s₁.ok ns₁ = true)
    (h₂ : s₂.ok ns₂ = true) (hk : s₁.skel = s₂.skel) :
    ∃ r₁ r₂, parseCore ns₁ s₁.raw = .ok (some r₁) ∧ parseCore ns₂ s₂.raw = .ok (some r₂) ∧
      (r₁.b, r₁.c, r₁.d) = (r₂.b, r₂.c, r₂.d) := by
  refine ⟨_, _, spec_render ns₁ s₁ h₁, spec_render ns₂ s₂ h₂, ?_⟩
  simp [Sel.count, hk]

/-- whether `:name` is a pseudo-element (and so counts) depends on the name only up to case and escapes -/
theorem pseudo_kind_case_insensitive (two : Bool) (n n' : Cps) (h : normalizeName n = normalizeName n') :
    pseudoIsElem two n = pseudoIsElem two n' := by
  simp [pseudoIsElem, normalizeName_colons, h]

/-- **the stored pseudo name survives a round trip**: `New._pseudo` / `New._negation` store `_normalize_name(value)`
(lower case; a backslash is dropped only before a character that may stand unescaped in an identifier), and that
value is a fixpoint — written out as it is stored and read back, the same value is stored again. With
`spec_render` (the item of a pseudo is `normalizeName` of its spelling): re-spelling a pseudo by its stored name
gives the same item. (Before fix "keep needed backslash escapes in pseudo-class and pseudo-element names" the
stored name of `a:b\.c` was `:b.c`, which reads back as `:b` + `.c`.) -/
theorem pseudo_name_stored_is_stable (x : Cps) : normalizeName (normalizeName x) = normalizeName x :=
  normalizeName_idem x

theorem pseudo_item_respelled_by_stored_name (two : Bool) (n : Cps) :
    pseudoItem two (normalizeName n) = pseudoItem two n := by
  simp [pseudoItem, pseudoIsElem, normalizeName_colons, normalizeName_idem]

/-! ## T16.3 — selector lists -/

/-- **T16.3 parse** (for every token list): `SelectorList.selectorText = …` splits at the top-level commas
(`chunksOf`), parses the chunks in order, and commits the list of all results iff every chunk is a wellformed
selector and the text does not end with a comma; otherwise nothing is set. (Also: the fuel of the model's loop is
irrelevant — `listLoop_noFuel`.) -/
theorem list_parse (ns : NsMap) (toks : List Tok) :
    parseList ns toks =
      ((chunksOf toks).mapM (fun ch => parseSel ns ch.1) >>= fun rs =>
        pure (if lastExp .initial (chunksOf toks) = .none ∧ rs.all Option.isSome = true then some (rs.filterMap id)
              else none)) := parseList_eq ns toks

/-- order: an accepted list consists of exactly the selectors of its chunks, in source order -/
theorem list_order (ns : NsMap) (toks : List Tok) (l : List SelRec) (h : parseList ns toks = .ok (some l)) :
    (chunksOf toks).mapM (fun ch => parseSel ns ch.1) = .ok (l.map some) := by
  rw [list_parse] at h
  cases hm : List.mapM (fun ch => parseSel ns ch.1) (chunksOf toks) with
  | error e => simp [hm, bind, Except.bind] at h
  | ok rs =>
    simp only [hm, bind, Except.bind, pure, Except.pure, Except.ok.injEq] at h
    split at h
    · rename_i hc
      simp only [Option.some.injEq] at h
      rw [← h, filterMap_id_of_all_some rs hc.2]
    · cases h

/-- all-or-nothing: one invalid member rejects the whole list -/
theorem list_all_or_nothing (ns : NsMap) (toks : List Tok) (rs : List (Option SelRec))
    (hm : (chunksOf toks).mapM (fun ch => parseSel ns ch.1) = .ok rs) (hbad : none ∈ rs) :
    parseList ns toks = .ok none := by
  rw [list_parse, hm]
  have : rs.all Option.isSome = false := by
    cases h : rs.all Option.isSome with
    | false => rfl
    | true => have := List.all_eq_true.mp h none hbad; simp at this
  simp [bind, Except.bind, pure, Except.pure, this]

/-- **T16.3 append**: appending a wellformed selector removes every member with the same serialised text and
puts the new one at the end … -/
theorem append_moves_to_end (l : List SelRec) (ns : NsMap) (toks : List Tok) (s : SelRec)
    (h : parseSel (dictUpdate (listNamespaces l) ns) toks = .ok (some s)) :
    appendSel l ns toks = .ok (l.filter (fun x => x.text != s.text) ++ [s]) := appendSel_some l ns toks s h

/-- … so afterwards the new selector is last, no other member has its text, the others keep their relative
order, and a list without duplicates that already held it keeps its length. -/
theorem append_result_shape (l : List SelRec) (s : SelRec) :
    let l' := l.filter (fun x => x.text != s.text) ++ [s]
    l'.getLast? = some s ∧ (∀ x ∈ l'.dropLast, x.text ≠ s.text) ∧ (l'.dropLast).Sublist l ∧
      ((l.map SelRec.text).Nodup → s.text ∈ l.map SelRec.text → l'.length = l.length) := by
  refine ⟨by simp, ?_, ?_, ?_⟩
  · intro x hx
    simp only [List.dropLast_concat, List.mem_filter, bne_iff_ne, ne_eq] at hx
    exact hx.2
  · simp only [List.dropLast_concat]; exact List.filter_sublist
  · intro hnd hin
    simp only [List.length_append, List.length_cons, List.length_nil]
    induction l with
    | nil => simp at hin
    | cons a t ih =>
      simp only [List.map_cons, List.nodup_cons] at hnd
      by_cases ha : a.text = s.text
      · have hnot : ∀ x ∈ t, x.text ≠ s.text := by
          intro x hx hxe
          exact hnd.1 (by rw [ha, ← hxe]; exact List.mem_map_of_mem hx)
        have : t.filter (fun x => x.text != s.text) = t := by
          apply List.filter_eq_self.mpr
          intro x hx; simp [hnot x hx]
        simp [List.filter_cons, ha, this]
      · have hin' : s.text ∈ t.map SelRec.text := by
          simp only [List.map_cons, List.mem_cons] at hin
          rcases hin with h | h
          · exact absurd h.symm ha
          · exact h
        have := ih hnd.2 hin'
        simp [List.filter_cons, ha] at this ⊢
        omega

/-- appending something that is not a wellformed selector changes nothing -/
theorem append_rejected_changes_nothing (l : List SelRec) (ns : NsMap) (toks : List Tok)
    (h : parseSel (dictUpdate (listNamespaces l) ns) toks = .ok none) :
    appendSel l ns toks = .ok l := appendSel_none l ns toks h

/-! ## the former known finding, now positive at its witness

`kfTokens` are the tokens of `a:b\.c`: the selector is stored with its escape, its serialisation is the
concatenation of those very token values (so it tokenizes to the same tokens), specificity `(0,0,0,1)`. -/
def kfTokens : List Tok := [⟨.ident, [97]⟩, ⟨.char, [58]⟩, ⟨.ident, [98, 92, 46, 99]⟩]

/-- TEST at the witness of the fixed finding `C16-pseudo-name-escape-dropped` (evaluation, one input) -/
theorem pseudo_escape_witness_round_trips :
    (parseSel [] kfTokens).toOption.join.map (fun r => (r.b, r.c, r.d, r.text))
      = some (0, 0, 1, kfTokens.flatMap (·.val)) := by
  decide

/-! ## the former known finding `C16-escaped-space-eats-descendant`, now positive at its witness

`kfSpace` are the tokens of `a b\ ` (the name of the second type selector ends with an escaped space): the
serialisation keeps the white space of the descendant combinator — it is the concatenation of those very token
values (with the white space as one space), specificity `(0,0,0,2)`. -/
def kfSpace : List Tok := [⟨.ident, [97]⟩, ⟨.s, [32]⟩, ⟨.ident, [98, 92, 32]⟩]

/-- TEST at the witness of the fixed finding (evaluation, one input) -/
theorem escaped_space_witness_round_trips :
    (parseSel [] kfSpace).toOption.join.map (fun r => (r.b, r.c, r.d, r.text))
      = some (0, 0, 2, kfSpace.flatMap (·.val)) := by
  decide

/-! ## non-vacuity: the hypotheses are satisfiable (a rich written selector is `ok`), and a test by evaluation -/

/-- `*|div#i/*x*/.c[ p|href ~='a']:HoVer:N\OT( [|x]):not(nth-child(2n)):BeFore > p|*:nth-child( 2n + 1 ) ::x(a) /*t*/ ` -/
def demo : Sel := {
  lead := [.ws [32]],
  first := {
    head := some ⟨.any, some [100, 105, 118]⟩,
    rest := [([], .id [35, 105]), ([[47, 42, 120, 42, 47]], .cls [99]),
             ([], .attr { f1 := [.ws [32]], pfx := .named [112], name := [104, 114, 101, 102], f2 := [.ws [32]],
                          opv := some (.includes, [], .string [39, 97, 39], []) }),
             ([], .pseudo false [72, 111, 86, 101, 114]),
             ([], .not [78, 92, 79, 84, 40] [.ws [32]]
                    (.attr { f1 := [], pfx := .empty, name := [120], f2 := [], opv := none }) []),
             ([], .not [110, 111, 116, 40] [] (.func false [110, 116, 104, 45, 99, 104, 105, 108, 100, 40] [.dim [50, 110]]) []),
             ([], .pseudo false [66, 101, 70, 111, 114, 101])] },
  more := [(⟨[.ws [32]], some (.child, [.ws [32]])⟩,
            { head := some ⟨.named [112], none⟩,
              rest := [([], .func false [110, 116, 104, 45, 99, 104, 105, 108, 100, 40]
                          [.ws [32], .dim [50, 110], .ws [32], .plus, .ws [32], .num [49], .ws [32]])] }),
           (⟨[.ws [32]], none⟩, { head := none, rest := [([], .func true [120, 40] [.ident [97]])] })],
  trail := [.ws [32], .cm [47, 42, 116, 42, 47], .ws [32]] }

def demoNs : NsMap := [([112], [117, 114, 110, 58, 112])]

example : demo.ok demoNs = true := by decide
example : demo.count = (1, 3, 3) := by decide
/-- the theorem applied: the model of the code reports `(0,1,3,3)` for `demo` -/
example : ∃ r, parseCore demoNs demo.raw = .ok (some r) ∧ (r.b, r.c, r.d) = (1, 3, 3) :=
  ⟨_, spec_render demoNs demo (by decide), by decide⟩
/-- TEST (evaluation on one input, not a theorem): `:NOT(` and `:n\ot(` in any case are the negation -/
example : (parseCore [] [⟨.ident, [97]⟩, ⟨.char, [58]⟩, ⟨.function, [78, 79, 84, 40]⟩, ⟨.char, [46]⟩, ⟨.ident, [98]⟩,
    ⟨.char, [41]⟩]).toOption.join.map (fun r => (r.b, r.c, r.d)) = some (0, 1, 1) := by decide

/-! ## T16.4 — text level: the tokenizer model (`Model/Tok.lean`, kernel K1 of C05) in front of the selector model

`tokensOf text` = `Tokenizer().tokenize(text)` (no full sheet, comments kept) handed to `Selector` by type name and
value; `flat l` = the concatenation of the token values; `Sel.text s = flat s.raw`.
`plainChain l` (decidable, `Model/SelText.lean`) = **plain spelling**: every token is a lexeme of its class whose value
is its spelling —
* IDENT / HASH / FUNCTION / the unit of a DIMENSION: names of letters, digits, `-`, `_`, non-ASCII code points and
  *simple escapes* (backslash + any code point that is no hex digit and no line break; in any letter case); an IDENT /
  FUNCTION / unit starts with a letter or `_` or a non-ASCII code point, or with `-` and a letter, or with a simple
  escape other than `\u` `\U`; after a leading `u` / `U` the second code point is a name code point other than `r` `R`
  (`url(`, `U+…` are other tokens); a FUNCTION is not `and(`; hex escapes are not plain (their value is not their
  spelling);
* white space of any length and kind; comments `/*…*/` whose text ends with its first `*/`; strings in either quote
  style without backslash and line break; integers and dimensions with an optional sign; the five match operators; the
  characters `, : > [ ] = ) * | ~ . + -`;
and each token may be followed by the first code point of the next one: a name / dimension by anything but a name code
point, backslash or `(`; white space by non-white space; `* | ~` not by `=`; `.` not by a digit; `+` not by a digit or
`.`; `-` by nothing that continues a name, a number or `-->`; an integer not by a name code point, `%`, `.`, `(`.
The first code point of the text is not `@`, U+00EF, U+00FE (no `@charset `, no BOM). About 93 % of the generated
grammar × spelling cases are plain (evidence: `text:plain` / `text:other-spelling`). -/

/-- **T16.4 `tokenize_plain`.** For every token list in plain spelling the tokenizer, run on the concatenation of
the token values, returns exactly these tokens: no two neighbours fuse, none is split, every type and value is kept
(no separating white space is needed — `a.b#c[d|=e]:not(f)>g` —, unlike `C05.lexeme_separation`). -/
theorem tokenize_plain (l : List Tok) (h : plainChain l = true) : tokensOf (flat l) = l := tokensOf_plain l h

/-- **T16.4 `text_render`** (`parse (tokenize (renderText ast)) = ast`). For every written selector of the grammar
of `spec_render` in plain spelling: tokenizing its *text* and running `_prepare_tokens`, the `New` state machine and
the post-conditions on the tokenizer's output yields the specificity `(0, count)`, the item sequence and the `element`
as written — text to structure, both kernels composed, no exception, not rejected. -/
theorem text_render (ns : NsMap) (s : Sel) (hs : s.ok ns = true) (hp : plainChain s.raw = true) :
    parseCore ns (tokensOf s.text)
      = .ok (some { b := s.count.1, c := s.count.2.1, d := s.count.2.2, seq := s.items ns, element := s.element ns }) := by
  rw [Sel.text, tokenize_plain s.raw hp]
  exact spec_render ns s hs

/-- … and `Selector.selectorText = text` commits exactly that -/
theorem text_render_commit (ns : NsMap) (s : Sel) (hs : s.ok ns = true) (hp : plainChain s.raw = true) :
    ∃ used, parseSel ns (tokensOf s.text)
      = .ok (some { b := s.count.1, c := s.count.2.1, d := s.count.2.2, seq := s.items ns, element := s.element ns,
                    nsUsed := used }) := by
  rw [Sel.text, tokenize_plain s.raw hp]
  exact spec_render_commit ns s hs

/-- at text level: two plain texts with the same skeleton get the same specificity -/
theorem text_specificity_depends_on_skeleton_only (ns₁ ns₂ : NsMap) (s₁ s₂ : Sel) (h₁ : s₁.ok ns₁ = true)
    (h₂ : s₂.ok ns₂ = true) (p₁ : plainChain s₁.raw = true) (p₂ : plainChain s₂.raw = true) (hk : s₁.skel = s₂.skel) :
    ∃ r₁ r₂, parseCore ns₁ (tokensOf s₁.text) = .ok (some r₁) ∧ parseCore ns₂ (tokensOf s₂.text) = .ok (some r₂) ∧
      (r₁.b, r₁.c, r₁.d) = (r₂.b, r₂.c, r₂.d) := by
  refine ⟨_, _, text_render ns₁ s₁ h₁ p₁, text_render ns₂ s₂ h₂ p₂, ?_⟩
  simp [Sel.count, hk]

/- Full statement of the text level (every spelling): the same with `Sel.source s` — the token *spellings*, i.e. with
   hex escapes, names that start with `ur` / `u\…`, strings with escapes, fractional numbers — in place of
   `Sel.text s`, and no hypothesis `plainChain`. Missing: the lexeme classes with hex escapes (`unicodesub` changes the
   value), the rest of the `u` / `U` start (productions URI and UNICODE-RANGE come first), escapes inside strings.
   Those spellings are covered by the correspondence streams
   `spec` (`Sel.raw` = the real tokenizer's tokens) and `seltext` (model pipeline on the text = `Selector(text)`).
   Round trip at text level (`tokensOf (SelRec.text r)` parses to the same items): not proved; it needs the
   serialisation `serItems` written as a plain chain (a canonical re-spelling of the written selector); checked on
   the implementation by the round-trip oracle on every accepted selector. -/

/-- `*|div#i/*x*/.c[ p|href ~='a']:hover:not( [|x]):not(:nth-child(2)):before > p|*:lang( en ) ::x(a) /*t*/ ` -/
def demoText : Sel := {
  lead := [.ws [32]],
  first := {
    head := some ⟨.any, some [100, 105, 118]⟩,
    rest := [([], .id [35, 105]), ([[47, 42, 120, 42, 47]], .cls [99]),
             ([], .attr { f1 := [.ws [32]], pfx := .named [112], name := [104, 114, 101, 102], f2 := [.ws [32]],
                          opv := some (.includes, [], .string [39, 97, 39], []) }),
             ([], .pseudo false [104, 111, 118, 101, 114]),
             ([], .not [110, 111, 116, 40] [.ws [32]]
                    (.attr { f1 := [], pfx := .empty, name := [120], f2 := [], opv := none }) []),
             ([], .not [110, 111, 116, 40] [] (.func false [110, 116, 104, 45, 99, 104, 105, 108, 100, 40] [.num [50]]) []),
             ([], .pseudo false [98, 101, 102, 111, 114, 101])] },
  more := [(⟨[.ws [32]], some (.child, [.ws [32]])⟩,
            { head := some ⟨.named [112], none⟩,
              rest := [([], .func false [108, 97, 110, 103, 40] [.ws [32], .ident [101, 110], .ws [32]])] }),
           (⟨[.ws [32]], none⟩, { head := none, rest := [([], .func true [120, 40] [.ident [97]])] })],
  trail := [.ws [32], .cm [47, 42, 116, 42, 47], .ws [32]] }

example : demoText.ok demoNs = true := by decide
example : plainChain demoText.raw = true := by decide
/-- the theorem applied: text in, specificity `(0,1,3,3)` out -/
example : ∃ r, parseCore demoNs (tokensOf demoText.text) = .ok (some r) ∧ (r.b, r.c, r.d) = (1, 3, 3) :=
  ⟨_, text_render demoNs demoText (by decide) (by decide), by decide⟩
/-- neighbours that would fuse are not plain: `a` directly followed by `b`; `*` followed by `=`; `.` followed by `5` -/
example : plainChain [⟨.ident, [97]⟩, ⟨.ident, [98]⟩] = false ∧ plainChain [⟨.char, [42]⟩, ⟨.char, [61]⟩] = false ∧
    plainChain [⟨.char, [46]⟩, ⟨.number, [53]⟩] = false := by decide
/-- TEST (evaluation of the tokenizer model on one text, not a theorem): `a.b#c[d|=e]:not(f)>g` -/
example : tokensOf [97, 46, 98, 35, 99, 91, 100, 124, 61, 101, 93, 58, 110, 111, 116, 40, 102, 41, 62, 103] =
    [⟨.ident, [97]⟩, ⟨.char, [46]⟩, ⟨.ident, [98]⟩, ⟨.hash, [35, 99]⟩, ⟨.char, [91]⟩, ⟨.ident, [100]⟩,
     ⟨.dashmatch, [124, 61]⟩, ⟨.ident, [101]⟩, ⟨.char, [93]⟩, ⟨.char, [58]⟩, ⟨.function, [110, 111, 116, 40]⟩,
     ⟨.ident, [102]⟩, ⟨.char, [41]⟩, ⟨.char, [62]⟩, ⟨.ident, [103]⟩] := by decide +kernel

/-! ## T16.5 — attaching a selector to a sheet (`Selector._namespaces`, selector.py:673-678)

While a selector is not attached, `do_css_Selector` writes it with its own dict `__namespaces` — the namespaces it was
parsed with, filtered to the URIs it uses (`SelRec.nsUsed`); once `parent.parentRule.parentStyleSheet` exists, with the
namespaces of that sheet (`SelRec.textIn sheetNs`). Specificity, `seq` and `element` are stored: attaching cannot
touch them (they are fields of `SelRec`; `textIn` reads `seq` only). -/

/-- **T16.5 `attach_text_congr`** (every item sequence, any two namespace maps): the written text depends on the
namespaces only through the decision "this URI is the default namespace" and the prefix found for the URIs that are
written with a prefix. -/
theorem attach_text_congr (ns₁ ns₂ : NsMap) (seq : List Item)
    (h : ∀ it ∈ seq, ∀ u n, it.val = .ns u n →
      plainOf (nsGet ns₁ []) u = plainOf (nsGet ns₂ []) u ∧
      ∀ y, u = .uri y → plainOf (nsGet ns₂ []) u = false → prefixFor ns₁ y = prefixFor ns₂ y) :
    serItems ns₁ seq = serItems ns₂ seq := serItems_congr ns₁ ns₂ seq h

/-- **T16.5 `attach_keeps_text`**: a written selector parsed with the namespaces `ns` of a sheet (a dict: no prefix
twice) and then attached to that sheet keeps its specificity, its items and its **text**: the sheet's namespaces
write what the selector's own filtered namespaces wrote. -/
theorem attach_keeps_text (ns : NsMap) (s : Sel) (hs : s.ok ns = true) (hnd : (ns.map (·.1)).Nodup) :
    ∃ r, parseSel ns s.raw = .ok (some r) ∧ (r.b, r.c, r.d) = s.count ∧ r.seq = s.items ns ∧
      r.textIn ns = r.text := by
  obtain ⟨uris, hu⟩ := usedUris_ok (s.items ns)
  have hne : s.raw.isEmpty = false := by
    cases hr : s.raw with
    | nil =>
      have h := spec_render ns s hs
      rw [hr] at h
      simp [parseCore, prepare, prepAcc, run, finishCore, bind, Except.bind, pure, Except.pure] at h
    | cons t ts => rfl
  refine ⟨{ b := s.count.1, c := s.count.2.1, d := s.count.2.2, seq := s.items ns, element := s.element ns,
            nsUsed := ns.filter fun pu => uris.contains (.uri pu.2) }, ?_, rfl, rfl, ?_⟩
  · simp [parseSel, hne, spec_render ns s hs, commit, usedNamespaces, hu, bind, Except.bind, pure, Except.pure]
  · exact (serItems_filter ns (s.items ns) uris hu hnd (items_nsTyped ns s hs) (items_noneOnly ns s hs)).symm

/-- the same from the text: tokenize, parse, attach -/
theorem attach_keeps_text_of_text (ns : NsMap) (s : Sel) (hs : s.ok ns = true) (hp : plainChain s.raw = true)
    (hnd : (ns.map (·.1)).Nodup) :
    ∃ r, parseSel ns (tokensOf s.text) = .ok (some r) ∧ (r.b, r.c, r.d) = s.count ∧ r.seq = s.items ns ∧
      r.textIn ns = r.text := by
  rw [Sel.text, tokenize_plain s.raw hp]
  exact attach_keeps_text ns s hs hnd

/-- the namespaces of a sheet of the `Ns` model (C15) are such a map: `Ns.view sheet` — the theorem instantiated -/
theorem attach_to_sheet (sheet : CssVerif.Ns.Sheet) (s : Sel) (hs : s.ok (CssVerif.Ns.view sheet) = true)
    (hnd : ((CssVerif.Ns.view sheet).map (·.1)).Nodup) :
    ∃ r, parseSel (CssVerif.Ns.view sheet) s.raw = .ok (some r) ∧ (r.b, r.c, r.d) = s.count ∧
      r.textIn (CssVerif.Ns.view sheet) = r.text := by
  obtain ⟨r, h1, h2, _, h4⟩ := attach_keeps_text (CssVerif.Ns.view sheet) s hs hnd
  exact ⟨r, h1, h2, h4⟩

/-- **T16.5 `attach_keeps_text_all`** (every token list, not only written selectors): whatever `Selector` commits from
tokens parsed with the namespaces `ns` of a sheet (a dict) is written, once attached to that sheet, exactly as before.
(The two invariants of the item sequence — a `(namespaceURI, name)` pair sits only in `*-selector` / `universal` items,
its URI is `None` only without a default namespace — hold along every run of the state machine: `run_good`, all 14
callbacks.) -/
theorem attach_keeps_text_all (ns : NsMap) (toks : List Tok) (r : SelRec) (hnd : (ns.map (·.1)).Nodup)
    (h : parseSel ns toks = .ok (some r)) : r.textIn ns = r.text := by
  obtain ⟨hgood, uris, hu, hused⟩ := parseSel_good ns toks r h
  unfold SelRec.textIn SelRec.text
  rw [hused]
  exact (serItems_filter ns r.seq uris hu hnd (fun it hit u n hv => (hgood it hit u n hv).1)
    (fun it hit n hv => (hgood it hit .none n hv).2 rfl)).symm

/-- … for every text: tokenize, parse with the sheet's namespaces, attach -/
theorem attach_keeps_text_of_any_text (ns : NsMap) (text : Cps) (r : SelRec) (hnd : (ns.map (·.1)).Nodup)
    (h : parseSel ns (tokensOf text) = .ok (some r)) : r.textIn ns = r.text :=
  attach_keeps_text_all ns (tokensOf text) r hnd h

/- A sheet whose namespaces differ from the ones the selector was parsed with (a rule moved between sheets; two
   prefixes for one URI, where the sheet reports the last one): `attach_text_congr` says exactly when the text stays;
   the `attach` correspondence stream exercises renamed / missing / other-default / extra declarations. -/

/-- non-vacuity: `demoNs` is a dict, `demo` is ok — and a TEST by evaluation: with another prefix for the same URI
the text changes (`q|*` instead of `p|*`), the specificity cannot -/
example : (demoNs.map (·.1)).Nodup := by decide
example : ∃ r, parseSel demoNs demo.raw = .ok (some r) ∧ r.textIn demoNs = r.text :=
  let ⟨r, h1, _, _, h4⟩ := attach_keeps_text demoNs demo (by decide) (by decide); ⟨r, h1, h4⟩
example : (parseSel demoNs [⟨.ident, [112]⟩, ⟨.char, [124]⟩, ⟨.char, [42]⟩]).toOption.join.map
    (fun r => (r.text, r.textIn [([113], [117, 114, 110, 58, 112])])) = some ([112, 124, 42], [113, 124, 42]) := by
  decide

end CssVerif.C16
