import CssVerif.Lemmas.Sel
/-! # C16 — selector specificity, structure and list semantics (property theorems only) -/
namespace CssVerif.C16
open CssVerif.Sel

/-- the token loop of `Base._parse` is compositional: running a concatenation is running the parts in turn -/
theorem run_concat (ns : NsMap) (st : St) (l1 l2 : List Tok) :
    run ns st (l1 ++ l2) = (run ns st l1 >>= fun st' => run ns st' l2) := run_append ns st l1 l2

end CssVerif.C16
