import CssVerif.Lemmas.Num
import CssVerif.Lemmas.NumColor
import CssVerif.Lemmas.NumStr
import CssVerif.Model.NumF64
import CssVerif.Lemmas.NumF64
import CssVerif.Lemmas.NumPV
import CssVerif.Lemmas.NumF64Ops
/-!
# C18 — value normalisation never changes what a value denotes

Property theorems only (helpers: `Lemmas/Num.lean`). Models: `Model/Num.lean` (numbers, strings, URLs, hash,
`Out.append` on the value path). Tied to `cssutils/serialize.py`, `css/value.py`, `helper.py` by the
correspondence of `tools/harness/c18.py` and to the tables of the source by `Gen/C18Tables.lean`.

A literal is given by its parts `l : Lit` (sign, integer digits, optional fraction digits, unit) — every text the
tokenizer delivers as one NUMBER / PERCENTAGE / DIMENSION token whose unit has no escape is `l.text` for a
well-formed `l` (`Lit.Wf`). `roundTrip p typ text` is `DimensionValue(text).cssText` under preferences `p`.
The number operations are those of the *exact layer* (`exactOps`).
-/
namespace CssVerif.C18
open CssVerif.Num CssVerif.Proto

/-! ## tables of the source the theorems are about -/

/-- the units after which the serializer drops the unit of a zero are exactly the eight CSS 2.1 length units -/
theorem zero_length_units_table :
    zeroLenUnits = [cps "cm", cps "mm", cps "in", cps "px", cps "pc", cps "pt", cps "em", cps "ex"] := by decide

/-- the defaults and the minified preset of the preferences the model reads -/
theorem prefs_tables :
    Gen.C18.defaultPrefs = (false, true, [0x20], [0x20]) ∧ Gen.C18.minifiedPrefs = (true, true, [], []) := by decide

/-- the regular expressions transcribed by hand are the ones in the source (a changed pattern breaks this) -/
theorem regex_sources_pinned :
    Gen.C18.reUnNumDimPattern = ("^([+-]?)([0-9]*\\.[0-9]+|[0-9]+)(.*)$", "re.I|re.S|re.U|re.X") ∧
    Gen.C18.reHexcolorPattern = ("^\\#(?:[0-9abcdefABCDEF]{3}|[0-9abcdefABCDEF]{6})\\Z", "") ∧
    Gen.C18.simpleescapesPattern = ("(\\\\[^0-9a-fA-F])", "") ∧
    Gen.C18.forbiddenInUriPattern = (".*?[\\(\\)\\s\\;,'\"\\x00-\\x08\\x0e-\\x1f\\x7f]", "re.U|re.S") := by
  decide

/-- the `.replace` chain of `helper.string` consists of exactly these four replacements (in any order: no
replacement produces a character another one looks for, so the order does not matter and is not pinned) -/
theorem string_replaces_table :
    Gen.C18.stringReplaces.length = 4 ∧
    ∀ pr ∈ [([0x0A], cps "\\a "), ([0x0D], cps "\\d "), ([0x0C], cps "\\c "), ([0x22], cps "\\\"")],
      pr ∈ Gen.C18.stringReplaces := by
  decide

/-- the white-space table of the interpreter (`str.isspace`, regex `\s`) that `strip`, `isBlank` and the URL
quoting rule use -/
theorem space_table : Gen.C18.spaceChars =
    [9, 10, 11, 12, 13, 28, 29, 30, 31, 32, 0x85, 0xA0, 0x1680, 0x2000, 0x2001, 0x2002, 0x2003, 0x2004, 0x2005,
     0x2006, 0x2007, 0x2008, 0x2009, 0x200A, 0x2028, 0x2029, 0x202F, 0x205F, 0x3000] := by decide

/-! ## T18.1 numbers: written form = canonical literal; same real number, same unit -/

/-- **T18.1a** the text written for a number is the canonical literal of its parts: sign as written, leading
zeros of the integer part and trailing zeros of the fraction dropped, unit in lower case, `0` for zero
(unit-less exactly after the eight length units), a single `0` before the point exactly when `omitLeadingZero`
is off — for every literal with at most six fraction digits, every unit, every preference record. -/
theorem number_written_canonical (l : Lit) (h : l.Wf) (p : Prefs) (typ : NumType)
    (hsp : isCssBlank p.spacer = true) (h6 : (l.fp.getD []).length ≤ 6) (hov : l.tooLarge = false) :
    roundTrip p typ l.text = .ok (canonLit p.omitLeadingZero l).text :=
  roundTrip_canon h p typ hsp h6 hov

/-- **T18.6** (numbers) the typed accessors are the parts of the literal: `_sign` the sign as written, `value` the
integer / decimal given by the digits, `dimension` the unit in lower case, `type` the token type -/
theorem number_accessors (l : Lit) (h : l.Wf) (typ : NumType) (hov : l.tooLarge = false) :
    parseDim typ l.text =
      .ok { sign := l.sign, ip := l.ip, fp := l.fp, dim := l.unit.map lowerAscii, typ := typ } :=
  parseDim_text h typ hov

/-- **T18.1** `number_denotes`: the written text denotes exactly the same rational number as the literal
(`Lit.value`, computed from the parts) and the same unit; the only unit ever dropped is a zero-length unit after
a zero value. -/
theorem number_denotes (l : Lit) (h : l.Wf) (p : Prefs) (typ : NumType)
    (hsp : isCssBlank p.spacer = true) (h6 : (l.fp.getD []).length ≤ 6) (hov : l.tooLarge = false) :
    ∃ out d, roundTrip p typ l.text = .ok out ∧ denote out = some d ∧ denote l.text = some l.den ∧
      l.den.toRat = l.value ∧ d.toRat = l.value ∧
      (d.unit = l.unit.map lowerAscii ∨
        (l.value = 0 ∧ l.unit.map lowerAscii ∈ zeroLenUnits ∧ d.unit = [])) := by
  refine ⟨_, _, roundTrip_canon h p typ hsp h6 hov, denote_text (Wf.canon h _), denote_text h, l.den_toRat, ?_, ?_⟩
  · rw [Den.toRat_eq_of_sameValue (canon_sameValue _), l.den_toRat]
  · rcases canon_unit p.omitLeadingZero l with hu | ⟨hm, hz, hu⟩
    · exact Or.inl hu
    · refine Or.inr ⟨?_, hz, hu⟩
      rw [← l.den_toRat]
      unfold Den.toRat
      rw [hm]
      have c0 : ((0 : Nat) : Rat) = 0 := rfl
      rw [c0, Rat.div_def]; simp [Rat.mul_zero]

/-- **T18.2** normalisation is idempotent: the written text, parsed again (as whatever numeric token type),
is written unchanged. -/
theorem number_idempotent (l : Lit) (h : l.Wf) (p : Prefs) (typ typ' : NumType)
    (hsp : isCssBlank p.spacer = true) (h6 : (l.fp.getD []).length ≤ 6) (hov : l.tooLarge = false) :
    ∃ out, roundTrip p typ l.text = .ok out ∧ roundTrip p typ' out = .ok out := by
  refine ⟨_, roundTrip_canon h p typ hsp h6 hov, ?_⟩
  have hw := Wf.canon h p.omitLeadingZero
  have := roundTrip_canon hw p typ' hsp (canon_frac_le h6 _) (canon_not_tooLarge h hov _)
  rw [this, canonLit_idem l _ (by decide)]

/-- sign rule, spelled out: a `-` is kept on every non-zero number, a `+` is kept exactly when it was written and
the number is not zero, zero is written without sign -/
theorem number_sign_kept (l : Lit) (olz : Bool) :
    (canonLit olz l).sign = if E.allZero l.ip && E.allZero (l.fp.getD []) then [] else l.sign := by
  rcases Bool.eq_false_or_eq_true (E.allZero (l.fp.getD [])) with hf | hf
  · rcases Bool.eq_false_or_eq_true (E.allZero l.ip) with hi | hi
    · rw [canonLit_zero olz hi hf]; simp [hi, hf]
    · rw [canonLit_int olz hi hf]; simp [hi]
  · rw [canonLit_frac olz hf]; simp [hf]

/-- zero rule, spelled out: a zero value is written `0`, followed by its unit unless that is one of the eight
length units — whatever the sign and however many zeros were written -/
theorem number_zero (l : Lit) (h : l.Wf) (p : Prefs) (typ : NumType) (hsp : isCssBlank p.spacer = true)
    (h6 : (l.fp.getD []).length ≤ 6) (hi : E.allZero l.ip = true) (hf : E.allZero (l.fp.getD []) = true)
    (hlen : l.ip.length ≤ Gen.C18.maxStrDigits) :
    roundTrip p typ l.text =
      .ok (cZero :: (if zeroLenUnits.contains (l.unit.map lowerAscii) then [] else l.unit.map lowerAscii)) := by
  have hov : l.tooLarge = false := by
    unfold Lit.tooLarge
    cases l.fp with
    | none => simpa using hlen
    | some _ => simp only; unfold floatOverflows; rw [natOfDigits_allZero hi]; decide +kernel
  rw [roundTrip_canon h p typ hsp h6 hov, canonLit_zero _ hi hf]
  simp [Lit.text, fracText]

/-! non-vacuity and samples (tests, not theorems) -/

example : (⟨[cPlus], cps "0", some (cps "50"), cps "PX"⟩ : Lit).text = cps "+0.50PX" := by decide +kernel
example : roundTrip Prefs.default .dimension (cps "+0.50PX") = .ok (cps "+0.5px") := by decide +kernel
example : roundTrip { Prefs.default with omitLeadingZero := true } .dimension (cps "-0.05em") = .ok (cps "-.05em") := by
  decide +kernel
example : roundTrip Prefs.default .dimension (cps "-00.000em") = .ok (cps "0") := by decide +kernel
example : roundTrip Prefs.default .percentage (cps "+0%") = .ok (cps "0%") := by decide +kernel
example : roundTrip Prefs.default .dimension (cps "001.500deg") = .ok (cps "1.5deg") := by decide +kernel
example : roundTrip Prefs.default .number (cps "x") = .error .indexError := by decide +kernel

/-! ## the binary64 layer and the known finding `C18-float-digits`

`roundTripF64` evaluates the serializer's number operations on IEEE-754 doubles, as CPython does; it agrees with
the implementation on every literal of every run (correspondence, no domain restriction). The theorems above are
about the exact layer `roundTrip`. Full statement of the bridge (validated by the driver on every in-domain literal
of every run — 134 000 per quick run; proved in Lean below 2^33, see `f64_bridge_partial`):

    theorem f64_bridge (l : Lit) (h : l.Wf) (h6 : (l.fp.getD []).length ≤ 6)
        (hr : if E.allZero (l.fp.getD []) then natOfDigits l.ip ≤ 2^53 else natOfDigits l.ip < 2^33) :
        roundTripF64 p typ l.text = roundTrip p typ l.text

What IS proved of the bridge (wave 3: the window itself, not only its core):
* `f64_conversion_half_ulp` — the conversion of the model (`nearestF64`, the function the driver runs against
  CPython's `float()` on every literal) returns, for EVERY `num / den`, a double within half a unit in the last place,
  whatever exponent it chose;
* `f64_window_normal` — for `0 < num / den < 2^33`, `den < 2^20` the exponent selection (`chooseExp`, `Nat.log2`)
  yields a normal double (`2^52 ≤ m`) with a negative exponent;
* `f64_window_exponent` — such a double of a decimal with at most six fraction digits has exponent ≤ -20 (because
  `10^6 < 2^20`): the bound 2^33 of `C18-float-digits` is exactly where this stops;
* `f64_pctF_window` — hence, for EVERY non-zero literal with at most six fraction digits below 2^33, `'%f'` of the
  double prints exactly the literal's value on six places (no hypothesis on the double);
* `f64_sixth_decimal_partial` — the numerical core used by the above.
* `f64_predicates_window`, **`f64_bridge_fraction`** — the predicates `== 0`, `-1 < x < 1`, `== int(x)` on the double
  agree with the exact layer, `str(n)` of the model spells the digits (`natToDigits_spell`), `'%f'` on the double is
  the exact layer's `'%f'` as a text (`pctF_eq_window`), hence `roundTripF64 = roundTrip` for every literal with a
  non-zero fraction (≤ 6 digits) and integer part < 2^33: **the fraction half of `f64_bridge` is proved**.
* **`f64_bridge_partial`** — together with the integral and the zero literals with a point (`toF64_integral_window`:
  the conversion of an integer below 2^33 is exact; `str(int(x))` spells its digits): `roundTripF64 = roundTrip` for
  EVERY literal with at most six fraction digits and integer part below 2^33 (below 2^51 when the fraction is all
  zeros); `number_written_canonical_f64` transfers
  T18.1a to the binary64 layer.
Missing for the full `f64_bridge`: only the literals with an all-zero fraction and an integer part in `[2^51, 2^53]`
(e.g. `4503599627370496.0`): there the exponent selection lemma `chooseExp_window_gen` (negative exponents, quotients
below 2^51) has to be extended to non-negative exponents. Validated by the driver on every in-domain literal of every run.

Outside that window the implementation really is lossy: -/

/-- the numerical core of `f64_bridge` (partial, see above): for every double `m · 2^-j` with `j ≥ 20` within half
an ulp (`2^-(j+1)`) of the decimal `n6 / 10^6` — the two hypotheses are that inequality multiplied out —
`'%f'` prints exactly `n6`: integer digits `n6 / 10^6`, a point, and `n6 % 10^6` on six places -/
theorem f64_sixth_decimal_partial (neg : Bool) (m j n6 : Nat) (hj : 20 ≤ j)
    (h1 : 2 * (m * 10 ^ 6 - n6 * 2 ^ j) ≤ 10 ^ 6) (h2 : 2 * (n6 * 2 ^ j - m * 10 ^ 6) ≤ 10 ^ 6) :
    F.pctF { neg := neg, m := m, e := -(j : Int) } =
      (if neg then [cMinus] else []) ++ natToDigits (n6 / 10 ^ 6) ++ cDot ::
        (List.replicate (6 - (natToDigits (n6 % 10 ^ 6)).length) cZero ++ natToDigits (n6 % 10 ^ 6)) :=
  pctF_of_close neg m j n6 hj h1 h2

/-- the hypotheses are satisfiable: 0.1 = 100000 / 10^6 and its double 0x1.999999999999ap-4 = 7205759403792794 · 2^-56 -/
example : 2 * (7205759403792794 * 10 ^ 6 - 100000 * 2 ^ 56) ≤ 10 ^ 6 ∧
    2 * (100000 * 2 ^ 56 - 7205759403792794 * 10 ^ 6) ≤ 10 ^ 6 ∧
    toF64 [] (cps "0") (cps "1") = some { neg := false, m := 7205759403792794, e := -56 } := by decide +kernel

/-- accuracy of the float conversion the binary64 layer uses (for all `num`, `den > 0`): the double `m · 2^-j` that
`nearestF64` returns for `num / den` is within half a unit in the last place, `|m / 2^j - num / den| ≤ 2^-(j+1)`
(multiplied out); `nearestF64` is tied to CPython's `float()` by the correspondence on every literal -/
theorem f64_conversion_half_ulp (num den : Nat) (hd : 0 < den) (m j : Nat)
    (h : nearestF64 num den = some (m, -(j : Int))) (hj : 0 < j) :
    2 * (m * den - num * 2 ^ j) ≤ den ∧ 2 * (num * 2 ^ j - m * den) ≤ den :=
  nearestF64_half_ulp num den hd m j h hj

/-- **the window of `C18-float-digits` is where it is**: the (normal) double of a decimal `n / 10^k`, `k ≤ 6`, below
`2^33` has binary exponent `≤ -20`, so that half an ulp is smaller than half a unit of the sixth decimal place -/
theorem f64_window_exponent (n k m j : Nat) (hk : k ≤ 6) (hj : 0 < j) (hm : 2 ^ 52 ≤ m)
    (hn : n < 2 ^ 33 * 10 ^ k) (h : nearestF64 n (10 ^ k) = some (m, -(j : Int))) : 20 ≤ j :=
  window_exponent n k m j hk hj hm hn h

/-- inside the window the conversion returns a normal double with a negative exponent (the exponent selection
`chooseExp` with `Nat.log2`, for all `0 < num / den < 2^33`, `den < 2^20`) -/
theorem f64_window_normal (num den : Nat) (hnum : 0 < num) (hden : 0 < den) (hwin : num < 2 ^ 33 * den)
    (hsmall : den < 2 ^ 20) :
    ∃ m j : Nat, nearestF64 num den = some (m, -(j : Int)) ∧ 0 < j ∧ 2 ^ 52 ≤ m :=
  nearestF64_window num den hnum hden hwin hsmall

/-- **the `'%f'` step of `f64_bridge` on the whole window** (no hypothesis on the double any more): for every
non-zero literal `sign ip . fp` with at most six fraction digits and value below `2^33`, `float()` of the model
returns a double and `'%f'` of it is exactly the literal's value `n · 10^(6-k)` on six places — integer digits,
the point, six fraction digits; no digit is changed anywhere in the window -/
theorem f64_pctF_window (sign ip fp : List Nat) (hk : fp.length ≤ 6) (hn0 : natOfDigits (ip ++ fp) ≠ 0)
    (hn : natOfDigits (ip ++ fp) < 2 ^ 33 * 10 ^ fp.length) :
    ∃ x : F64, toF64 sign ip fp = some x ∧
      F.pctF x =
        (if sign == [cMinus] then [cMinus] else []) ++
          natToDigits (natOfDigits (ip ++ fp) * 10 ^ (6 - fp.length) / 10 ^ 6) ++ cDot ::
          (List.replicate (6 - (natToDigits (natOfDigits (ip ++ fp) * 10 ^ (6 - fp.length) % 10 ^ 6)).length) cZero ++
            natToDigits (natOfDigits (ip ++ fp) * 10 ^ (6 - fp.length) % 10 ^ 6)) :=
  toF64_pctF_window sign ip fp hk hn0 hn

example : (cps "999999").length ≤ 6 ∧ natOfDigits (cps "8589934591" ++ cps "999999") ≠ 0 ∧
    natOfDigits (cps "8589934591" ++ cps "999999") < 2 ^ 33 * 10 ^ (cps "999999").length := by decide +kernel

/-- the predicates of `do_css_Value` on the double — `== 0`, `-1 < x < 1`, and `== int(x)` when the fraction is not
zero — agree with the exact layer for every non-zero literal in the window (they choose the branch that is run) -/
theorem f64_predicates_window (v : DimVal) (f : List Nat) (hfp : v.fp = some f) (hip : Digits v.ip) (hf : Digits f)
    (hk : f.length ≤ 6) (hn0 : natOfDigits (v.ip ++ f) ≠ 0) (hn : natOfDigits (v.ip ++ f) < 2 ^ 33 * 10 ^ f.length) :
    f64Ops.isZero v = exactOps.isZero v ∧ f64Ops.absLtOne v = exactOps.absLtOne v ∧
      (E.allZero f = false → f64Ops.isIntegral v = exactOps.isIntegral v) :=
  f64Ops_predicates_window v f hfp hip hf hk hn0 hn

/-- **`f64_bridge`, fraction half — the window `C18-float-digits` leaves is exact**: for EVERY well-formed literal with
a non-zero fraction of at most six digits and an integer part below `2^33`, every unit, every preference record, the
text CPython's float arithmetic writes (binary64 layer: `float()`, `== 0`, `== int(x)`, `-1 < x < 1`, `'%f'`) is the
text the exact layer writes — so `number_written_canonical`, `number_denotes`, `number_idempotent` … hold for what the
implementation computes there, not only for the exact layer. (Full `f64_bridge` = this + the integral half, below.) -/
theorem f64_bridge_fraction (l : Lit) (h : l.Wf) (p : Prefs) (typ : NumType) (f : List Nat) (hfp : l.fp = some f)
    (hk : f.length ≤ 6) (hfz : E.allZero f = false) (hwin : natOfDigits l.ip < 2 ^ 33) (hov : l.tooLarge = false) :
    roundTripF64 p typ l.text = roundTrip p typ l.text :=
  roundTripF64_eq_fraction h p typ f hfp hk hfz hwin hov

/-- **`f64_bridge` below `2^33`, below `2^51` for an all-zero fraction** (partial only in this: literals with an
all-zero fraction and an integer part in `[2^51, 2^53]` are not covered; full statement above): for EVERY well-formed
literal with at most six fraction digits — zero, integral or not, with or without `.` — every unit and every
preference record, the binary64 layer (what CPython computes, tied to the implementation on every literal of every
run) writes exactly what the exact layer writes -/
theorem f64_bridge_partial (l : Lit) (h : l.Wf) (p : Prefs) (typ : NumType)
    (h6 : (l.fp.getD []).length ≤ 6)
    (hwin : natOfDigits l.ip < (if E.allZero (l.fp.getD []) then 2 ^ 51 else 2 ^ 33)) (hov : l.tooLarge = false) :
    roundTripF64 p typ l.text = roundTrip p typ l.text :=
  roundTripF64_eq_window h p typ h6 hwin hov

/-- consequence: T18.1a holds for what the implementation's float arithmetic computes, not only for the exact layer:
in the window the binary64 layer writes the canonical literal -/
theorem number_written_canonical_f64 (l : Lit) (h : l.Wf) (p : Prefs) (typ : NumType)
    (hsp : isCssBlank p.spacer = true) (h6 : (l.fp.getD []).length ≤ 6)
    (hwin : natOfDigits l.ip < (if E.allZero (l.fp.getD []) then 2 ^ 51 else 2 ^ 33)) (hov : l.tooLarge = false) :
    roundTripF64 p typ l.text = .ok (canonLit p.omitLeadingZero l).text := by
  rw [f64_bridge_partial l h p typ h6 hwin hov]
  exact roundTrip_canon h p typ hsp h6 hov

/-- the hypotheses are satisfiable at the upper edge of the window: `8589934591.999999px` -/
example : (⟨[], cps "8589934591", some (cps "999999"), cps "px"⟩ : Lit).Wf ∧ (cps "999999").length ≤ 6 ∧
    E.allZero (cps "999999") = false ∧ natOfDigits (cps "8589934591") < 2 ^ 33 ∧
    (⟨[], cps "8589934591", some (cps "999999"), cps "px"⟩ : Lit).tooLarge = false := by
  refine ⟨⟨by decide, by unfold Digits; decide, ?_, by decide, by decide, by decide⟩, by decide, by decide,
    by decide +kernel, by decide +kernel⟩
  intro f hf; injection hf with hf; subst hf; exact ⟨by unfold Digits; decide, by decide⟩

/-- the hypotheses are satisfiable — `8589934591.999999` (the largest six-place decimal below 2^33) has the normal
double `9007199254740991 · 2^-20` (exponent exactly at the bound) — and are not met just above:
`8589934592.3` has exponent `-19` -/
example : nearestF64 8589934591999999 (10 ^ 6) = some (9007199254740991, -((20 : Nat) : Int)) ∧ 2 ^ 52 ≤ 9007199254740991 ∧
    8589934591999999 < 2 ^ 33 * 10 ^ 6 ∧
    nearestF64 85899345923 (10 ^ 1) = some (4503599627527782, -((19 : Nat) : Int)) := by decide +kernel


/-- the witness of `C18-float-digits`, machine-checked: CPython's arithmetic writes `8589934592.3px` as
`8589934592.299999px` (2^33 is the first magnitude where half an ulp exceeds half a unit of the sixth decimal),
and the two texts denote different numbers -/
theorem float_region_witness :
    roundTripF64 Prefs.default .dimension (cps "8589934592.3px") = .ok (cps "8589934592.299999px") ∧
    roundTrip Prefs.default .dimension (cps "8589934592.3px") = .ok (cps "8589934592.3px") ∧
    (denote (cps "8589934592.299999px")).map (fun d => (d.mant, d.scale)) = some (8589934592299999, 6) ∧
    (denote (cps "8589934592.3px")).map (fun d => (d.mant, d.scale)) = some (85899345923, 1) ∧
    8589934592299999 * 10 ^ 1 ≠ 85899345923 * 10 ^ 6 := by
  decide +kernel

/-- … and from 2^53 on the integer digits go: `12345678901234567.5px` is written `12345678901234568px` -/
theorem float_region_witness_2 :
    roundTripF64 Prefs.default .dimension (cps "12345678901234567.5px") = .ok (cps "12345678901234568px") := by
  decide +kernel

/-- just below the bound the binary64 layer is exact (samples; the general statement is `f64_bridge` above) -/
example : roundTripF64 Prefs.default .dimension (cps "8589934591.999999px") = .ok (cps "8589934591.999999px") := by
  decide +kernel
example : roundTripF64 { Prefs.default with omitLeadingZero := true } .dimension (cps "-0.050em") = .ok (cps "-.05em") := by
  decide +kernel
example : roundTripF64 Prefs.default .number (cps "9007199254740992.0") = .ok (cps "9007199254740992") := by
  decide +kernel

/-! ## T18.3 hash colours -/

/-- T18.3a: a hash colour is only ever rewritten when `minimizeColorHash` is set, it has seven characters
and its three digit pairs are equal; the short form expands back to it -/
theorem hash_changes_only_when_lossless (p : Prefs) (v : List Nat) (h : hashShort p v ≠ v) :
    p.minimizeColorHash = true ∧ ∃ x a c e, v = [x, a, a, c, c, e, e] ∧ hashShort p v = [0x23, a, c, e] := by
  unfold hashShort at h ⊢
  split at h
  · rename_i x a b c d e f
    split at h
    · rename_i hh
      obtain ⟨hm, h1, h2, h3⟩ := hh
      subst h1 h2 h3
      exact ⟨hm, x, a, c, e, rfl, by simp [hm]⟩
    · exact absurd rfl h
  · exact absurd rfl h


/-- T18.3b: a short hash has the channels of its long form — for every three characters (all 22³ hex spellings
included), by computation of the model, not by enumeration -/
theorem hash_short_eq_long (x y a b c : Nat) :
    hashChannels [x, a, b, c] = hashChannels [y, a, a, b, b, c, c] := rfl

/-- T18.3c: every text that passes `reHexcolor` has channels (no exception), each `17·digit` for the short form -/
theorem hash_channels_total (v : List Nat) (h : isHexColor v = true) : ∃ c, hashChannels v = .ok c := by
  unfold isHexColor at h
  cases v with
  | nil => simp at h
  | cons x t =>
    simp only [Bool.and_eq_true, Bool.or_eq_true, decide_eq_true_eq] at h
    obtain ⟨⟨_, hl⟩, hall⟩ := h
    have hx : ∀ c ∈ t, ∃ v, hexVal? c = some v ∧ v < 16 := fun c hc => hexVal_isSome_of_hex (List.all_eq_true.mp hall c hc)
    rcases hl with hl | hl
    · match t, hl, hx with
      | [a, b, c], _, hx =>
        obtain ⟨va, ha, _⟩ := hx a (by simp)
        obtain ⟨vb, hb, _⟩ := hx b (by simp)
        obtain ⟨vc, hc, _⟩ := hx c (by simp)
        simp only [hashChannels, hexPair?, ha, hb, hc]; exact ⟨_, rfl⟩
    · match t, hl, hx with
      | [a, b, c, d, e, f], _, hx =>
        obtain ⟨va, ha, _⟩ := hx a (by simp)
        obtain ⟨vb, hb, _⟩ := hx b (by simp)
        obtain ⟨vc, hc, _⟩ := hx c (by simp)
        obtain ⟨vd, hd, _⟩ := hx d (by simp)
        obtain ⟨ve, he, _⟩ := hx e (by simp)
        obtain ⟨vf, hf, _⟩ := hx f (by simp)
        simp only [hashChannels, hexPair?, ha, hb, hc, hd, he, hf]; exact ⟨_, rfl⟩

/-- **T18.3** `hash_lossless`: whatever `_hash` writes has the channels of what was given — for every text and
every preference record -/
theorem hash_lossless (p : Prefs) (v : List Nat) : hashChannels (hashShort p v) = hashChannels v := by
  by_cases h : hashShort p v = v
  · rw [h]
  · obtain ⟨_, x, a, c, e, hv, hs⟩ := hash_changes_only_when_lossless p v h
    rw [hs, hv]; rfl

/-- the serializer's two passes over a hash colour (`do_css_Value` over `value.value`) write exactly `_hash(v)`:
together with `hash_lossless` the written hash has the channels of the source hash under every preference record -/
theorem hash_written (p : Prefs) (hsp : isCssBlank p.spacer = true) (t : List Nat) :
    fmtColorSimple p .hash (0x23 :: t) = hashShort p (0x23 :: t) :=
  fmtColorSimple_hash p hsp t

example : fmtColorSimple Prefs.default .hash (cps "#aaBBcc") = cps "#aBc" := by decide
example : fmtColorSimple Prefs.default .hash (cps "#aAbbcc") = cps "#aAbbcc" := by decide
example : fmtColorSimple { Prefs.default with minimizeColorHash := false } .hash (cps "#aabbcc") = cps "#aabbcc" := by
  decide

/-! ## T18.4 colour channels -/

/-- the keyword table of the source is the CSS Color Level 3 table (an independent copy kept with the harness):
same names (each once), same red/green/blue, alpha 1 except `transparent` -/
theorem colors_are_css3 : colorsAgreeWithCss3 = true := by decide +kernel

/-- a colour keyword, in any letter case and with simple escapes, has the channels of its table entry -/
theorem keyword_channels (v : List Nat) (c : Rgba) (h : lookupColor (normalize v) Gen.C18.colors = some c) :
    keywordChannels v = .ok c := by
  unfold keywordChannels; rw [h]

example : keywordChannels (cps "ReD") = .ok { r := 255, g := 0, b := 0, a := 1 } := by decide +kernel
example : keywordChannels (cps "transparent") = .ok { r := 0, g := 0, b := 0, a := 0 } := by decide +kernel

/-- **T18.4** the channels of a colour function depend only on its name and on the kind (number / percentage) and
exact value of each argument: writing the arguments in another way that denotes the same numbers (which is all
that number normalisation does, T18.1) cannot change red, green, blue or alpha — rgb, rgba, hsl and hsla alike -/
theorem color_function_channels_stable (s t : List CItem) (h : SameComps s t) : funcChannels s = funcChannels t :=
  funcChannels_congr h


/-! ## T18.5 separators inside `calc()`

The order and the separators (space, comma, slash) of the components of a whole property value are checked on the
implementation (token sequence and reparse under every spacer preference, `order_and_separators` in the harness);
`do_css_CSSCalc` with `Out.append(..., alwaysS=True)` is modelled (`fmtCalc`) and tied by correspondence. -/

/-- the white space after a `calc()` operator does not depend on any preference: `Out.append(val, 'CHAR',
alwaysS=True)` ends with the operator followed by one space item, whatever came before (the model function takes no
preferences at all; a serializer that used `prefs.spacer` here would fuse `- 10px` into `-10px`) -/
theorem calc_operator_followed_by_space (out : List (List Nat)) (v : List Nat) :
    ∃ o, outAppendOperator out v = o ++ [v, [0x20]] :=
  ⟨(if wouldFuse (if endsWithRawSpace v then removeLastIfS out else out) v
      then (if endsWithRawSpace v then removeLastIfS out else out) ++ [[0x20]]
      else (if endsWithRawSpace v then removeLastIfS out else out)), by simp [outAppendOperator, outPush]⟩

/-- kernel-run small-scope TEST (not a general theorem): 72 expressions `calc(a o1 b o2 calc(c))` over positive,
negative and signed operands and all operators are written with exactly one space around every operator — the same
text under the default preferences, with `spacer=''`, with `listItemSpacer=''` and with both empty -/
theorem calc_separators_small_scope : calcSamplesOk = true := by decide +kernel

example : fmtCalc f64Ops { Prefs.default with spacer := [], omitLeadingZero := true }
    [.func (cps "calc("), .operand .percentage (cps "100%"), .s, .op (cps "-"), .s, .operand .dimension (cps "0.50px"),
     .rparen] = .ok (cps "calc(100% - .5px)") := by decide +kernel

/-! ## T18.5 order and separators of the components of a whole value

`fmtPV` / `Comp.text` / `Args.fmt` (`Model/NumPV.lean`) transcribe `do_css_PropertyValue` and `do_css_CSSFunction`
item by item on top of `Out.append`. `pvRender` / `Comp.render` / `Args.render` (`Lemmas/NumPV.lean`) are the
specification: they do not know `Out`; the text of a value (of a function) is the texts of its components (its name,
its arguments, `)`) **in source order**, with `,` + `listItemSpacer` exactly where the source has a comma, `/` exactly
where it has a slash, and the spacer (one blank if the spacer is empty) exactly between two adjacent components —
nothing else, nothing dropped, nothing reordered, at every nesting depth. The rendering is defined for every item
sequence in which a separator stands between two components (the only ones the grammar of `PropertyValue` /
`CSSFunction` produces; the harness checks this shape on every parsed value).

Hypotheses: the spacer is CSS white space (`isCssBlank`), and every *leaf* is written as an ordinary word (`Plain`: a
character that is neither white space nor punctuation of `Out.append`, no unescaped blank at the end, no `*` at the
start) — proved here for strings and URLs, for function texts (so it propagates upwards), checked by the harness on
the written text of every number, identifier, colour and `calc()` of every generated value. -/

/-- **T18.5** for a function (any nesting depth): `CSSFunction.cssText` is the rendering of its structure — the
name, the arguments in source order, `,` + `listItemSpacer` for a comma, the spacer between adjacent arguments,
`)` — and it is again an ordinary word, under every preference record with a blank spacer -/
theorem function_written_structure (ops : NumOps) (p : Prefs) (hsp : isCssBlank p.spacer = true) (c : Comp) (t : List Nat)
    (hl : Comp.LeavesPlain ops p c) (hr : Comp.render ops p c = .ok t) :
    Comp.text ops p c = .ok t ∧ Plain t :=
  Comp.text_of_render ops p hsp c t hl hr

/-- **T18.5** for a whole value: `PropertyValue.cssText` is the rendering of its structure — the components in source
order (each written by its own serializer), `,` + `listItemSpacer` where the source has a comma, `/` where it has a
slash, the spacer (one blank if empty) between adjacent components — for every value with at least one component,
under every preference record with a blank spacer -/
theorem value_written_structure (ops : NumOps) (p : Prefs) (hsp : isCssBlank p.spacer = true) (items : List PVItem)
    (r : List Nat) (hl : ∀ i ∈ items, PVItem.LeavesPlain ops p i) (hv : items.any PVItem.isValue = true)
    (hr : pvRender ops p items .first = .ok r) : fmtPV ops p items = .ok r :=
  fmtPV_of_render ops p hsp items r hl hv hr

/-- the hypothesis on the leaves holds for every STRING and URI value, whatever its content: they are written as
`helper.string` / `helper.uri` of the stored value, which start with `"` / `u` and end with `"` / `)` -/
theorem string_uri_leaves_plain (ops : NumOps) (p : Prefs) (hsp : isCssBlank p.spacer = true) (v : List Nat) :
    Comp.LeavesPlain ops p (.simple .string v) ∧ Comp.LeavesPlain ops p (.uri v) := by
  constructor
  · intro t h
    simp only [Comp.text, (fmtSimple_quoted p hsp v).1] at h
    injection h with h; subst h; exact plain_helperString v
  · intro t h
    simp only [Comp.text, (fmtSimple_quoted p hsp v).2] at h
    injection h with h; subst h; exact plain_helperUri v

/-- the hypothesis on the leaves holds for every number the number theorems cover: a well-formed literal with at most
six fraction digits whose unit has no blank is written (exact layer, `number_written_canonical`) as a text with a
digit, starting with its sign, a digit or the point and ending with a digit or the last character of the unit -/
theorem number_leaves_plain (l : Lit) (h : l.Wf) (p : Prefs) (typ : NumType) (hsp : isCssBlank p.spacer = true)
    (h6 : (l.fp.getD []).length ≤ 6) (hov : l.tooLarge = false) (hu : ∀ c ∈ l.unit, c ≠ 0x20) :
    Comp.LeavesPlain exactOps p (.num typ l.text) :=
  num_leaf_plain h p typ hsp h6 hov hu

/-- … and for every identifier that is an ordinary word itself (it is written unchanged) -/
theorem ident_leaves_plain (ops : NumOps) (p : Prefs) (hsp : isCssBlank p.spacer = true) (v : List Nat) (hv : Plain v) :
    Comp.LeavesPlain ops p (.simple .ident v) := by
  intro t ht
  simp only [Comp.text, fmtSimple, outValue_outAppend_text p hsp v .ident hv.punct (by decide) false] at ht
  injection ht with ht; subst ht; exact hv

example : (⟨[cPlus], cps "0", some (cps "50"), cps "PX"⟩ : Lit).Wf ∧
    ∀ c ∈ (⟨[cPlus], cps "0", some (cps "50"), cps "PX"⟩ : Lit).unit, c ≠ 0x20 := by
  refine ⟨⟨by decide, by unfold Digits; decide, ?_, by decide, by decide, by decide⟩, by decide⟩
  intro f hf; injection hf with hf; subst hf; exact ⟨by unfold Digits; decide, by decide⟩

/-- the separators are the only place where a spacer preference shows: with two preference records that agree on
`omitLeadingZero` / `minimizeColorHash` the renderings of a comma-free, slash-free pair of leaves differ exactly in the
spacer (instance of the rendering, spelled out) -/
theorem pair_rendering (ops : NumOps) (p : Prefs) (a b : Comp) (ta tb : List Nat)
    (ha : Comp.render ops p a = .ok ta) (hb : Comp.render ops p b = .ok tb) :
    pvRender ops p [.comp a, .comp b] .first = .ok (ta ++ sepSpace p ++ tb) ∧
    pvRender ops p [.comp a, .op (cps ","), .comp b] .first = .ok (ta ++ cps "," ++ p.listItemSpacer ++ tb) ∧
    pvRender ops p [.comp a, .op (cps "/"), .comp b] .first = .ok (ta ++ cps "/" ++ tb) := by
  have n : cps "/" ≠ cps "," := by decide
  simp [pvRender, ha, hb, n]

/-- non-vacuity of `value_written_structure` / `function_written_structure`, minified preferences (both spacers
empty), `sampleValue` = `1.50px/"a" , f(g(0.5,url(x y)) b)`: the hypotheses hold, the rendering is defined, and the
written text is `1.5px/"a",f(g(.5,url("x y")) b)` -/
example :
    isCssBlank samplePrefs.spacer = true ∧ (∀ i ∈ sampleValue, PVItem.LeavesPlain exactOps samplePrefs i) ∧
      sampleValue.any PVItem.isValue = true ∧ pvRender exactOps samplePrefs sampleValue .first = .ok sampleText ∧
      fmtPV exactOps samplePrefs sampleValue = .ok sampleText := by
  have hr : pvRender exactOps samplePrefs sampleValue .first = .ok sampleText := by decide +kernel
  have hb : isCssBlank samplePrefs.spacer = true := by decide
  have hl : ∀ i ∈ sampleValue, PVItem.LeavesPlain exactOps samplePrefs i := by
    have leaf : ∀ (c : Comp) (t0 : List Nat), Comp.text exactOps samplePrefs c = .ok t0 → Plain t0 →
        ∀ t, Comp.text exactOps samplePrefs c = .ok t → Plain t := by
      intro c t0 h0 hp t h; exact Except.ok.inj (h0.symm.trans h) ▸ hp
    intro i hi
    simp only [sampleValue, List.mem_cons, List.mem_nil_iff, or_false] at hi
    rcases hi with rfl | rfl | rfl | rfl | rfl
    · simp only [PVItem.LeavesPlain, Comp.LeavesPlain]
      exact leaf (.num .dimension (cps "1.50px")) (cps "1.5px") (by decide +kernel) (by decide)
    · trivial
    · exact (string_uri_leaves_plain exactOps samplePrefs hb _).1
    · trivial
    · simp only [PVItem.LeavesPlain, Comp.LeavesPlain, Args.LeavesPlain, and_true]
      refine ⟨by decide, ⟨by decide, ?_, ?_⟩, ?_⟩
      · exact leaf (.num .number (cps "0.5")) (cps ".5") (by decide +kernel) (by decide)
      · exact (string_uri_leaves_plain exactOps samplePrefs hb _).2
      · exact leaf (.simple .ident (cps "b")) (cps "b") (by decide +kernel) (by decide)
  exact ⟨hb, hl, by decide, hr, value_written_structure exactOps samplePrefs hb sampleValue _ hl (by decide) hr⟩

/-! ## strings and URLs

`cssStringDenote` / `writtenUrlDenote` read a written string / `url(...)` as CSS 2.1 defines it (hex escapes with
their optional white space, simple escapes, line continuations; a raw line break or an early closing quote is not a
string; an unquoted URL may only contain the characters of the `url` production). For every content **without a
backslash** the statement is a theorem for all inputs; for stored values with simple escapes (`\c`) the full statement

    cssStringDenote (helperString r) = some (storedDenote r)      for every r with storedOk r
    writtenUrlDenote (helperUri r)   = some (storedDenote r)      for every r with storedOk r

is checked by the kernel for all `r` of length ≤ 3 over a ten-character alphabet (`*_small_scope`, a test), by the
correspondence and by the oracle; outside `storedOk` it is false — witnesses below. -/

/-- **strings keep their exact character content**: for every content without backslash — quotes of both kinds,
line breaks, parentheses, white space, any non-ASCII or control character — what `helper.string` writes is one
complete CSS string denoting exactly that content -/
theorem string_written_denotes_content (r : List Nat) (hr : ∀ c ∈ r, c ≠ cBackslash) :
    cssStringDenote (helperString r) = some r :=
  helperString_denotes r hr

/-- **URLs keep their exact character content**: for EVERY URL without backslash — control characters included
since `helper.uri` quotes them (fix "quote a URL which contains a control character") — the `url(...)` that
`helper.uri` writes (quoted exactly when the URL contains `( ) ; , ' "`, white space or a control character) is
readable and denotes exactly that URL -/
theorem url_written_denotes_content (r : List Nat) (hr : ∀ c ∈ r, c ≠ cBackslash) :
    writtenUrlDenote (helperUri r) = some r :=
  helperUri_denotes r hr

/-- every character either may stand raw in an unquoted `url()` or makes `helper.uri` quote the URL: nothing is
written unquoted that the tokenizer's url production rejects (the former finding `C18-url-control-char`) -/
theorem url_char_or_quoted (c : Nat) : isUrlChar c = true ∨ forbiddenInUri c = true :=
  urlChar_or_forbidden c

/-- `C18-escaped-dquote`: the stored value `a\"b` (from `'a\"b'`) is written `"a\\"b"`, which is not one string -/
theorem escaped_dquote_witness :
    helperString (cps "a\\\"b") = cps "\"a\\\\\"b\"" ∧ cssStringDenote (cps "\"a\\\\\"b\"") = none ∧
    storedDenote (cps "a\\\"b") = cps "a\"b" := by decide +kernel

/-- the former witness of `C18-url-trailing-backslash` (fixed by 61e31a0): the stored URL `a \\` (content `a \`, an
escaped backslash at the end) is written with its two backslashes and the closing quote, and reads back; a single
(unescaped) trailing backslash still gets its partner -/
theorem url_trailing_backslash_witness :
    helperUri (cps "a \\\\") = cps "url(\"a \\\\\")" ∧
    writtenUrlDenote (cps "url(\"a \\\\\")") = some (cps "a \\") ∧
    helperString (cps "a\\") = cps "\"a\\\\\"" := by
  decide +kernel

/-- the former witness of `C18-url-control-char` (fixed): a URL with U+007F is now written quoted and reads back -/
theorem url_control_witness :
    helperUri [0x61, 0x7F, 0x62] = cps "url(\"" ++ [0x61, 0x7F, 0x62] ++ cps "\")" ∧
    writtenUrlDenote (helperUri [0x61, 0x7F, 0x62]) = some [0x61, 0x7F, 0x62] := by decide +kernel

/-- `urivalue` strips CSS white space only (fix "strip only CSS white space around the content of url()"): padding of
space, tab, CR, LF, FF goes, U+00A0 / U+3000 / U+000B at the edges stay -/
theorem url_edge_nonascii_space_kept :
    uriValue (cps "url(" ++ [0x20, 0x09, 0xA0, 0x61, 0x3000, 0x0A, 0x29]) = .ok [0xA0, 0x61, 0x3000] ∧
    uriValue (cps "url(" ++ [0x0B, 0x61, 0x29]) = .ok [0x0B, 0x61] ∧
    uriValue (cps "url( \"" ++ [0xA0] ++ cps "\" )") = .ok [0xA0] := by decide +kernel

/-- `C18-url-edge-escape` (what remains): `urivalue` sees the token value with hex escapes already resolved, so
`url(\20 a)` (value `url( a)`) loses its leading space and `url(\27 x\27 )` (value `url('x')`) its quotes -/
theorem url_edge_witness :
    uriValue (cps "url( a)") = .ok (cps "a") ∧ uriValue (cps "url('x')") = .ok (cps "x") := by decide +kernel

/-- small-scope exhaustive check (a test run by the kernel, NOT a general theorem): for every stored value of
length ≤ 3 over {a z 4 " ' \ LF CR space (} that is outside the regions of the known findings (`storedOk`), the
written string denotes exactly what the stored value stands for. (Length ≤ 4 — 11 111 values — was checked the same
way once; it takes 2.5 min and is not part of the build.) -/
theorem string_roundtrip_small_scope : stringRoundTripOn (allStrings strAlphabet 3) = true := by decide +kernel

/-- the same for `helper.uri` (quoted or unquoted as it decides), alphabet extended by `;` and U+007F; no guard for
control characters any more -/
theorem url_roundtrip_small_scope : urlRoundTripOn (allStrings (0x7F :: 0x3B :: strAlphabet) 3) = true := by
  decide +kernel

/-! ### source strings / URLs through the tokenizer-side value function (`Model/NumTok.lean`, `tokenValue`) -/

/-- `C18-backslash-then-hex-escape` (what remains): `"\\\22 "` (an escaped backslash, then U+0022 as a hex escape)
denotes `\"` but is stored as `\"`, which stands for `"` alone — `helper.stringvalue` takes the decoded quote for an
escaped one -/
theorem backslash_hex_escape_witness :
    cssStringDenote (cps "\"\\\\\\22 \"") = some (cps "\\\"") ∧
    stringSourceValue (cps "\"\\\\\\22 \"") = .ok (cps "\\\"") ∧ storedDenote (cps "\\\"") = cps "\"" := by
  decide +kernel

/-- the line-break half of that finding is fixed (tokenizer decodes strings in one pass, `stringsub`): a backslash
followed by a hex-escaped line feed keeps both — the stored value stands for exactly what the source denotes, and the
written string denotes it again -/
theorem backslash_then_escaped_newline_kept :
    cssStringDenote (cps "\"\\\\\\a \"") = some [0x5C, 0x0A] ∧
    (stringSourceValue (cps "\"\\\\\\a \"")).toOption.map storedDenote = some [0x5C, 0x0A] ∧
    (stringSourceValue (cps "\"\\\\\\a \"")).toOption.bind (fun r => cssStringDenote (helperString r)) = some [0x5C, 0x0A] := by
  decide +kernel

/-- the former `C18-url-line-continuation` (fixed): a line continuation inside a quoted `url()` denotes nothing and is
no longer part of the uri — the same as in a string -/
theorem url_line_continuation_removed :
    uriSourceValue (cps "url(\"a\\" ++ [0x0A] ++ cps "b\")") = .ok (cps "ab") ∧
    cssStringDenote (cps "\"a\\" ++ [0x0A] ++ cps "b\"") = some (cps "ab") ∧
    stringSourceValue (cps "\"a\\" ++ [0x0A] ++ cps "b\"") = .ok (cps "ab") ∧
    uriSourceValue (cps "url('a\\" ++ [0x0D, 0x0A] ++ cps "b')") = .ok (cps "ab") := by decide +kernel

/-- `C18-url-edge-escape` at source level: `url(\20 a)` denotes ` a`, its uri is `a` -/
theorem url_edge_source_witness :
    uriSourceValue (cps "url(\\20 a)") = .ok (cps "a") ∧ uriSourceValue (cps "url(\\27 x\\27 )") = .ok (cps "x") := by
  decide +kernel

/-- ordinary sources (tests): hex escapes, simple escapes, both quote styles, padding -/
example : stringSourceValue (cps "'a\\41 \\\"b\\'c'") = .ok (cps "aA\\\"b'c") := by decide +kernel
example : uriSourceValue (cps "url( 'a b' )") = .ok (cps "a b") := by decide +kernel
example : uriSourceValue (cps "URL(a\\ b\\29 )") = .ok (cps "a\\ b)") := by decide +kernel

/-- samples where the written form does denote the stored value (tests) -/
example : cssStringDenote (helperString (cps "a\"b'c")) = some (cps "a\"b'c") := by decide +kernel
example : cssStringDenote (helperString [0x61, 0x0A, 0x62, 0x0D, 0x5C]) = some [0x61, 0x0A, 0x62, 0x0D, 0x5C] := by
  decide +kernel
example : writtenUrlDenote (helperUri (cps "a b(c)")) = some (cps "a b(c)") := by decide +kernel
example : writtenUrlDenote (helperUri (cps "a.png")) = some (cps "a.png") := by decide +kernel

end CssVerif.C18
