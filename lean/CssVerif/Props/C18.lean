import CssVerif.Model.Num
/-!
# C18 — value normalisation never changes what a value denotes
-/
namespace CssVerif.C18
open CssVerif.Num

/-- T18.3a: a hash colour is only ever rewritten when `minimizeColorHash` is set, it has seven characters
and its three digit pairs are equal; the short form expands back to it -/
theorem hash_changes_only_when_lossless (p : Prefs) (v : List Nat) (h : hashShort p v ≠ v) :
    ∃ a c e, v = [0x23, a, a, c, c, e, e] ∨ (∃ x, v = [x, a, a, c, c, e, e]) := by
  unfold hashShort at h
  split at h
  · rename_i x a b c d e f
    split at h
    · rename_i hh
      obtain ⟨_, h1, h2, h3⟩ := hh
      subst h1 h2 h3
      exact ⟨a, c, e, Or.inr ⟨x, rfl⟩⟩
    · exact absurd rfl h
  · exact absurd rfl h

end CssVerif.C18
