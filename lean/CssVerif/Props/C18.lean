import CssVerif.Lemmas.Num
/-!
# C18 — value normalisation never changes what a value denotes

Property theorems only (helpers: `Lemmas/Num.lean`). Models: `Model/Num.lean` (numbers, strings, URLs, hash,
`Out.append` on the value path). Tied to `cssutils/serialize.py`, `css/value.py`, `helper.py` by the
correspondence of `tools/harness/c18.py` and to the tables of the source by `Gen/C18Tables.lean`.

A literal is given by its parts `l : Lit` (sign, integer digits, optional fraction digits, unit) — every text the
tokenizer delivers as one NUMBER / PERCENTAGE / DIMENSION token whose unit has no escape is `l.text` for a
well-formed `l` (`Lit.Wf`). `roundTrip p typ text` is `DimensionValue(text).cssText` under preferences `p`.
The number operations are those of the *exact layer* (`exactOps`).
-/
namespace CssVerif.C18
open CssVerif.Num CssVerif.Proto

/-! ## tables of the source the theorems are about -/

/-- the units after which the serializer drops the unit of a zero are exactly the eight CSS 2.1 length units -/
theorem zero_length_units_table :
    zeroLenUnits = [cps "cm", cps "mm", cps "in", cps "px", cps "pc", cps "pt", cps "em", cps "ex"] := by decide

/-- the defaults and the minified preset of the preferences the model reads -/
theorem prefs_tables :
    Gen.C18.defaultPrefs = (false, true, [0x20], [0x20]) ∧ Gen.C18.minifiedPrefs = (true, true, [], []) := by decide

/-- the regular expressions transcribed by hand are the ones in the source (a changed pattern breaks this) -/
theorem regex_sources_pinned :
    Gen.C18.reUnNumDimPattern = ("^([+-]?)([0-9]*\\.[0-9]+|[0-9]+)(.*)$", "re.I|re.S|re.U|re.X") ∧
    Gen.C18.reHexcolorPattern = ("^\\#(?:[0-9abcdefABCDEF]{3}|[0-9abcdefABCDEF]{6})$", "") ∧
    Gen.C18.simpleescapesPattern = ("(\\\\[^0-9a-fA-F])", "") ∧
    Gen.C18.forbiddenInUriPattern = (".*?[\\(\\)\\s\\;,'\"]", "re.U") ∧
    Gen.C18.stringReplaces = [([0x0A], cps "\\a "), ([0x0D], cps "\\d "), ([0x0C], cps "\\c "), ([0x22], cps "\\\"")] := by
  decide

/-- the white-space table of the interpreter (`str.isspace`, regex `\s`) that `strip`, `isBlank` and the URL
quoting rule use -/
theorem space_table : Gen.C18.spaceChars =
    [9, 10, 11, 12, 13, 28, 29, 30, 31, 32, 0x85, 0xA0, 0x1680, 0x2000, 0x2001, 0x2002, 0x2003, 0x2004, 0x2005,
     0x2006, 0x2007, 0x2008, 0x2009, 0x200A, 0x2028, 0x2029, 0x202F, 0x205F, 0x3000] := by decide

/-! ## T18.1 numbers: written form = canonical literal; same real number, same unit -/

/-- **T18.1a** the text written for a number is the canonical literal of its parts: sign as written, leading
zeros of the integer part and trailing zeros of the fraction dropped, unit in lower case, `0` for zero
(unit-less exactly after the eight length units), a single `0` before the point exactly when `omitLeadingZero`
is off — for every literal with at most six fraction digits, every unit, every preference record. -/
theorem number_written_canonical (l : Lit) (h : l.Wf) (p : Prefs) (typ : NumType)
    (hsp : isBlank p.spacer = true) (h6 : (l.fp.getD []).length ≤ 6) (hov : floatOverflows l.ip = false) :
    roundTrip p typ l.text = .ok (canonLit p.omitLeadingZero l).text :=
  roundTrip_canon h p typ hsp h6 hov

/-- **T18.1** `number_denotes`: the written text denotes exactly the same rational number as the literal
(`Lit.value`, computed from the parts) and the same unit; the only unit ever dropped is a zero-length unit after
a zero value. -/
theorem number_denotes (l : Lit) (h : l.Wf) (p : Prefs) (typ : NumType)
    (hsp : isBlank p.spacer = true) (h6 : (l.fp.getD []).length ≤ 6) (hov : floatOverflows l.ip = false) :
    ∃ out d, roundTrip p typ l.text = .ok out ∧ denote out = some d ∧ denote l.text = some l.den ∧
      l.den.toRat = l.value ∧ d.toRat = l.value ∧
      (d.unit = l.unit.map lowerAscii ∨
        (l.value = 0 ∧ l.unit.map lowerAscii ∈ zeroLenUnits ∧ d.unit = [])) := by
  refine ⟨_, _, roundTrip_canon h p typ hsp h6 hov, denote_text (Wf.canon h _), denote_text h, l.den_toRat, ?_, ?_⟩
  · rw [Den.toRat_eq_of_sameValue (canon_sameValue _), l.den_toRat]
  · rcases canon_unit p.omitLeadingZero l with hu | ⟨hm, hz, hu⟩
    · exact Or.inl hu
    · refine Or.inr ⟨?_, hz, hu⟩
      rw [← l.den_toRat]
      unfold Den.toRat
      rw [hm]
      have c0 : ((0 : Nat) : Rat) = 0 := rfl
      rw [c0, Rat.div_def]; simp [Rat.mul_zero]

/-- **T18.2** normalisation is idempotent: the written text, parsed again (as whatever numeric token type),
is written unchanged. -/
theorem number_idempotent (l : Lit) (h : l.Wf) (p : Prefs) (typ typ' : NumType)
    (hsp : isBlank p.spacer = true) (h6 : (l.fp.getD []).length ≤ 6) (hov : floatOverflows l.ip = false) :
    ∃ out, roundTrip p typ l.text = .ok out ∧ roundTrip p typ' out = .ok out := by
  refine ⟨_, roundTrip_canon h p typ hsp h6 hov, ?_⟩
  have hw := Wf.canon h p.omitLeadingZero
  have := roundTrip_canon hw p typ' hsp (canon_frac_le h6 _) (canon_no_overflow hov _)
  rw [this, canonLit_idem l _ (by decide)]

/-- sign rule, spelled out: a `-` is kept on every non-zero number, a `+` is kept exactly when it was written and
the number is not zero, zero is written without sign -/
theorem number_sign_kept (l : Lit) (olz : Bool) :
    (canonLit olz l).sign = if E.allZero l.ip && E.allZero (l.fp.getD []) then [] else l.sign := by
  rcases Bool.eq_false_or_eq_true (E.allZero (l.fp.getD [])) with hf | hf
  · rcases Bool.eq_false_or_eq_true (E.allZero l.ip) with hi | hi
    · rw [canonLit_zero olz hi hf]; simp [hi, hf]
    · rw [canonLit_int olz hi hf]; simp [hi]
  · rw [canonLit_frac olz hf]; simp [hf]

/-- zero rule, spelled out: a zero value is written `0`, followed by its unit unless that is one of the eight
length units — whatever the sign and however many zeros were written -/
theorem number_zero (l : Lit) (h : l.Wf) (p : Prefs) (typ : NumType) (hsp : isBlank p.spacer = true)
    (h6 : (l.fp.getD []).length ≤ 6) (hi : E.allZero l.ip = true) (hf : E.allZero (l.fp.getD []) = true) :
    roundTrip p typ l.text =
      .ok (cZero :: (if zeroLenUnits.contains (l.unit.map lowerAscii) then [] else l.unit.map lowerAscii)) := by
  have hov : floatOverflows l.ip = false := by
    unfold floatOverflows; rw [natOfDigits_allZero hi]; decide +kernel
  rw [roundTrip_canon h p typ hsp h6 hov, canonLit_zero _ hi hf]
  simp [Lit.text, fracText]

/-! non-vacuity and samples (tests, not theorems) -/

example : (⟨[cPlus], cps "0", some (cps "50"), cps "PX"⟩ : Lit).text = cps "+0.50PX" := by decide +kernel
example : roundTrip Prefs.default .dimension (cps "+0.50PX") = .ok (cps "+0.5px") := by decide +kernel
example : roundTrip { Prefs.default with omitLeadingZero := true } .dimension (cps "-0.05em") = .ok (cps "-.05em") := by
  decide +kernel
example : roundTrip Prefs.default .dimension (cps "-00.000em") = .ok (cps "0") := by decide +kernel
example : roundTrip Prefs.default .percentage (cps "+0%") = .ok (cps "0%") := by decide +kernel
example : roundTrip Prefs.default .dimension (cps "001.500deg") = .ok (cps "1.5deg") := by decide +kernel
example : roundTrip Prefs.default .number (cps "x") = .error .indexError := by decide +kernel

/-! ## T18.3 hash colours -/

/-- T18.3a: a hash colour is only ever rewritten when `minimizeColorHash` is set, it has seven characters
and its three digit pairs are equal; the short form expands back to it -/
theorem hash_changes_only_when_lossless (p : Prefs) (v : List Nat) (h : hashShort p v ≠ v) :
    p.minimizeColorHash = true ∧ ∃ x a c e, v = [x, a, a, c, c, e, e] ∧ hashShort p v = [0x23, a, c, e] := by
  unfold hashShort at h ⊢
  split at h
  · rename_i x a b c d e f
    split at h
    · rename_i hh
      obtain ⟨hm, h1, h2, h3⟩ := hh
      subst h1 h2 h3
      exact ⟨hm, x, a, c, e, rfl, by simp [hm]⟩
    · exact absurd rfl h
  · exact absurd rfl h

end CssVerif.C18
