import CssVerif.Model.Struct
namespace CssVerif.Props.C04
open CssVerif.Struct

/-- `_tokensupto2` only splits the token stream: what it returns followed by what it leaves is the input -/
theorem upto_splits (m : Mode) (ts : List Tok) :
    (upto m none ts).1 ++ (upto m none ts).2 = ts := by
  simp [upto, uptoLoop_append]

end CssVerif.Props.C04
