import CssVerif.Lemmas.Struct
import CssVerif.Lemmas.StructMedia
import CssVerif.Lemmas.StructCss
import CssVerif.Lemmas.StructText
/-!
# C04 — syntax errors are contained: only the malformed construct is dropped

Model: `CssVerif/Model/Struct.lean` (K2).  All theorems hold for EVERY oracle `O` (selector / value / media
query / opaque at-rule verdicts) and every margin table `M`.

Vocabulary (defined in `Lemmas/Struct.lean`, all decidable):
* `nest stk g = some stk'` — running the bracket stack over `g` from `stk` succeeds (every closing bracket
  matches) and leaves `stk'`; `Balanced g := nest [] g = some []`.  Brackets are classified as
  `_tokensupto2` does it (`Tok.br`: by token VALUE, FUNCTION tokens open a parenthesis).
* `Quiet m stk g` — additionally: no EOF in `g` and no end token of mode `m` at nesting depth 0.
* `startStack s` — the bracket a start token contributes.
* `DeclUnit` / `DeclSeq`, `StmtUnit` / `StmtSeq` — complete constructs of a declaration block / of a sheet.
* wave 3 (`Model/StructCut.lean`, `Lemmas/StructMedia.lean`): `mediaRules O ns ts` — the rules `ts` yields as
  content of an `@media` block; `MediaUnit` / `MediaSeq` — complete constructs of such a block; `MqShape` — the
  media query part; `MFrame`, `openToks`, `openRules` — `@media` rules open at a cut, outermost first;
  `Open` / `Cut` with `Cut.ok` (decides all hypotheses) and `Cut.predict` — truncation certificates;
  `mediaStmtRules` — what one statement of a media block appends.
* `sheetToks text doC` (`Model/StructText.lean`) — the token list of `parseString(text)` in the composed model
  (tokenizer model of C05, then (type, value) projection).
* `nestCss`, `QuietCss`, `endTokCss`, `plainTokS` (`Lemmas/StructCss.lean`) — CSS-level classification and the
  guard of the known finding.
-/
namespace CssVerif.Props.C04
open CssVerif.Struct CssVerif.Proto

/-! ## T4.1 `upto_balanced` — `_tokensupto2` takes exactly a balanced stretch and its end token -/

/-- T4.1 (no start token): for a mode whose counters start at stack `stk₀` (`[]`; `[{]` for blockend /
mediaend; `[(]` for funcend), a quiet well nested stretch `g`, and a token `e` that is an end token of the
mode and brings the nesting to depth 0 (a `;` `:` `!` `,` at depth 0, or the closing bracket of the last
open one): `_tokensupto2` returns exactly `g ++ [e]` and leaves `rest` in the tokenizer. -/
theorem upto_balanced (m : Mode) (stk₀ stk' : List K) (g : List Tok) (e : Tok) (rest : List Tok)
    (hm : m.initStack = some stk₀)
    (hq : Quiet m stk₀ g = true) (hn : nest stk₀ g = some stk') (hp : push stk' e = some [])
    (he : endTok m e = true) :
    upto m none (g ++ e :: rest) = (g ++ [e], rest) :=
  upto_none_end m stk₀ stk' g e rest hm hq hn hp he

/-- T4.1 (with start token): the start token's opening bracket is counted (`{ [ (` and, since fix dbc983c,
a FUNCTION token). -/
theorem upto_balanced_start (m : Mode) (stk₀ stk' : List K) (s : Tok) (g : List Tok) (e : Tok)
    (rest : List Tok) (hm : m.initStack = some stk₀)
    (hq : Quiet m (startStack s ++ stk₀) g = true) (hn : nest (startStack s ++ stk₀) g = some stk')
    (hp : push stk' e = some []) (he : endTok m e = true) :
    upto m (some s) (g ++ e :: rest) = (s :: g ++ [e], rest) :=
  upto_start_end m stk₀ stk' s g e rest hm hq hn hp he

/-- T4.1, special case in the words of the property: balanced garbage `g` (no EOF, no `;` at depth 0)
followed by `;` — in the three modes the declaration block uses, the garbage and its `;` are taken and
nothing else. -/
theorem upto_balanced_semicolon (m : Mode) (hm : m = .semicolon ∨ m = .default ∨ m = .propprio)
    (g : List Tok) (semi : Tok) (rest : List Tok)
    (hq : Quiet m [] g = true) (hb : Balanced g) (h1 : semi.typ = .char) (h2 : semi.val = vSemi) :
    upto m none (g ++ semi :: rest) = (g ++ [semi], rest) := by
  have hi : m.initStack = some [] := by rcases hm with h | h | h <;> subst h <;> rfl
  refine upto_none_end m [] [] g semi rest hi hq hb (push_no [] semi (semi_br semi h1 h2)) ?_
  rcases hm with h | h | h <;> subst h <;> exact semi_endTok _ semi h2 (by simp)

/-- T4.1 at end of input: a quiet stretch that is still open is taken together with the EOF token. -/
theorem upto_open_eof (m : Mode) (stk₀ stk' : List K) (g : List Tok) (e : Tok) (rest : List Tok)
    (hm : m.initStack = some stk₀) (hq : Quiet m stk₀ g = true) (hn : nest stk₀ g = some stk')
    (he : e.typ = .eof) :
    upto m none (g ++ e :: rest) = (g ++ [e], rest) :=
  upto_none_eof m stk₀ stk' g e rest hm hq hn he

/-- T4.1 for `blockstartonly` (counters start at brace = -1): a balanced stretch without braces, then `{`. -/
theorem upto_blockstart_balanced (g : List Tok) (lb : Tok) (rest : List Tok)
    (hbal : Balanced g) (hb : noBrace g = true) (he : noEof g = true) (hl : lb.val = vLBrace) :
    upto .blockstart none (g ++ lb :: rest) = (g ++ [lb], rest) :=
  upto_blockstart g lb rest hbal hb he hl

/-- `_tokensupto2` never invents or loses tokens (T1.2 of C01, needed here for "nothing else is dropped"). -/
theorem upto_splits (m : Mode) (ts : List Tok) :
    (upto m none ts).1 ++ (upto m none ts).2 = ts := by
  simp [upto, uptoLoop_append]

-- non-vacuity: `( x ; [ y ] )` is quiet and balanced in mode `semicolon` (the `;` is nested)
example : Quiet .semicolon [] [Ex.lparen, Ex.idt "x", Ex.semi, Ex.lbrack, Ex.idt "y", Ex.rbrack, Ex.rparen] = true
    ∧ Balanced [Ex.lparen, Ex.idt "x", Ex.semi, Ex.lbrack, Ex.idt "y", Ex.rbrack, Ex.rparen] := by decide
-- a FUNCTION start token: `f( y ) : 1` is quiet from the stack the start token leaves, and closes it
example : startStack (Ex.fn "f(") = [K.paren]
    ∧ nest (startStack (Ex.fn "f(")) [Ex.idt "y", Ex.rparen, Ex.colon, Ex.num "1"] = some [] := by decide
-- test (not a theorem): the model on `(x):1;top:0` in unexpected()'s mode, start token `(`
example : upto .semicolon (some Ex.lparen)
    [Ex.idt "x", Ex.rparen, Ex.colon, Ex.num "1", Ex.semi, Ex.idt "top", Ex.colon, Ex.num "0"]
    = ([Ex.lparen, Ex.idt "x", Ex.rparen, Ex.colon, Ex.num "1", Ex.semi], [Ex.idt "top", Ex.colon, Ex.num "0"]) := by
  decide

/-! ## T4.2 declaration containment -/

/-- **Locality of the declaration block** (the lemma T4.2 and T4.4 hang on): after complete units the
parser is back in its start state, whatever follows. -/
theorem decls_local (O : Oracle) (d x : List Tok) (hd : DeclSeq d) :
    parseDecls O (d ++ x) = parseDecls O d ++ parseDecls O x :=
  parseDecls_append O d x hd

/-- T4.2: `d₁` complete units; garbage `t :: g` that is well nested (the start token's bracket counted),
has no EOF and no `;` at depth 0, does not start with white space / a comment / an at-keyword / `;`, and
is not a well-formed declaration (`parseProperty` rejects it when it starts with an IDENT — otherwise it
is never one); then its `;`.  The parsed block is that of `d₁ ++ d₂`: only the garbage is dropped, for
ANY `d₂`. -/
theorem decl_containment (O : Oracle) (d₁ d₂ : List Tok) (t : Tok) (g : List Tok) (semi : Tok)
    (hd : DeclSeq d₁)
    (h1 : t.typ ≠ .s) (h2 : t.typ ≠ .comment) (h3 : t.typ ≠ .eof) (h4 : t.typ ≠ .atkeyword)
    (h5 : ¬(t.typ = .char ∧ t.val = vSemi))
    (hq : Quiet .semicolon (startStack t) g = true) (hn : nest (startStack t) g = some [])
    (hs1 : semi.typ = .char) (hs2 : semi.val = vSemi)
    (hbad : t.typ = .ident → parseProperty O (t :: g) = none) :
    parseDecls O (d₁ ++ (t :: g ++ [semi]) ++ d₂) = parseDecls O (d₁ ++ d₂) := by
  have hu : DeclUnit (t :: g ++ [semi]) := DeclUnit.decl t g semi h1 h2 h3 h4 h5 hq hn hs1 hs2
  have hgone : parseDecls O (t :: g ++ [semi]) = [] := by
    unfold parseDecls
    rw [declTrace_declUnit O t g semi h1 h2 h3 h4 h5 hq hn hs1 hs2]
    by_cases hid : t.typ = .ident
    · simp [hid, hbad hid, Item.kept]
    · simp [hid, Item.kept]
  rw [List.append_assoc, parseDecls_append O d₁ _ hd, parseDecls_append O _ d₂ (DeclSeq.single hu), hgone,
    parseDecls_append O d₁ d₂ hd]
  simp

/-- T4.2 for an at-rule inside a block (`a{ @foo {…} color:red }`): the block parser consumes exactly the
at-rule (to its `;` or the `}` of its block); it is kept as a `CSSUnknownRule` item iff well formed, and the
following declarations are parsed as if it were not there. -/
theorem decl_atrule_containment (O : Oracle) (d₁ d₂ : List Tok) (t : Tok) (g : List Tok) (e : Tok)
    (stk' : List K) (hd : DeclSeq d₁) (ht : t.typ = .atkeyword)
    (hq : Quiet .default (startStack t) g = true) (hn : nest (startStack t) g = some stk')
    (hp : push stk' e = some []) (he : endTok .default e = true) :
    parseDecls O (d₁ ++ (t :: g ++ [e]) ++ d₂) =
      parseDecls O d₁ ++ (if unknownOk (t :: g ++ [e]) then [Item.unknown (t :: g ++ [e])] else [])
        ++ parseDecls O d₂ := by
  have hu : DeclUnit (t :: g ++ [e]) := DeclUnit.atrule t g e stk' ht hq hn hp he
  have hup : upto .default (some t) (g ++ [e]) = (t :: g ++ [e], []) :=
    upto_start_end .default [] stk' t g e [] rfl (by simpa using hq) (by simpa using hn) hp he
  have hone : parseDecls O (t :: g ++ [e]) =
      (if unknownOk (t :: g ++ [e]) then [Item.unknown (t :: g ++ [e])] else []) := by
    unfold parseDecls declTrace
    rw [List.cons_append, declLoop_cons]
    simp only [declStep, ht, hup]
    split <;> simp_all [parseLoop_nil, Item.kept]
  rw [List.append_assoc, parseDecls_append O d₁ _ hd, parseDecls_append O _ d₂ (DeclSeq.single hu), hone]
  simp

-- non-vacuity of T4.2: `color:red;` is a complete unit, and `( x ) : 1` is garbage of the stated shape
example : DeclSeq ([Ex.idt "color", Ex.colon, Ex.idt "red"] ++ [Ex.semi]) :=
  DeclSeq.single (DeclUnit.decl (Ex.idt "color") [Ex.colon, Ex.idt "red"] Ex.semi
    (by decide) (by decide) (by decide) (by decide) (by decide) (by decide) (by decide) rfl rfl)
example : Quiet .semicolon (startStack Ex.lparen) [Ex.idt "x", Ex.rparen, Ex.colon, Ex.num "1"] = true
    ∧ nest (startStack Ex.lparen) [Ex.idt "x", Ex.rparen, Ex.colon, Ex.num "1"] = some [] := by decide
-- `x y` (no colon) starts with an IDENT and is rejected by the property split, for every oracle
example (O : Oracle) : parseProperty O [Ex.idt "x", Ex.sp, Ex.idt "y"] = none := by
  simp [parseProperty, upto, uptoLoop, Mode.init, bump, stop, Cnt.isZero, endTok, Mode.ends, Mode.endString,
    isInfixOf, Ex.idt, Ex.sp, CssVerif.Proto.cps]

-- the shape of seeded change C04-3: `foo {z} color: blue` — IDENT first, a `{…}` block at depth 0, then
-- declaration-looking text; it is quiet in mode `semicolon` (a `}` is no end token there), so T4.2 applies …
example : Quiet .semicolon (startStack (Ex.idt "foo"))
      [Ex.sp, Ex.lbrace, Ex.idt "z", Ex.rbrace, Ex.sp, Ex.idt "color", Ex.colon, Ex.idt "blue"] = true
    ∧ nest (startStack (Ex.idt "foo"))
      [Ex.sp, Ex.lbrace, Ex.idt "z", Ex.rbrace, Ex.sp, Ex.idt "color", Ex.colon, Ex.idt "blue"] = some [] := by
  decide
-- … and it is rejected as a declaration for every oracle (the name part `foo {z} color` contains a CHAR)
example (O : Oracle) : parseProperty O
    [Ex.idt "foo", Ex.sp, Ex.lbrace, Ex.idt "z", Ex.rbrace, Ex.sp, Ex.idt "color", Ex.colon, Ex.idt "blue"]
    = none := by
  simp [parseProperty, parseName, nameStep, parseLoop_cons', parseLoop_nil, upto, uptoLoop, Mode.init, bump, stop,
    Cnt.isZero, endTok, Mode.ends, Mode.endString, isInfixOf, Ex.idt, Ex.sp, Ex.lbrace, Ex.rbrace, Ex.colon, Ex.ch,
    CssVerif.Proto.cps]

/-! ## T4.3 statement containment -/

/-- **Locality of the sheet dispatcher**: after complete statements the rest is parsed from the state they
leave (order level, rules, namespaces) — whatever the rest is. -/
theorem sheet_local (O : Oracle) (M : List Cps) (s₁ x : List Tok) (hs : StmtSeq s₁) (st : SheetSt) :
    sheetLoop O M st (s₁ ++ x) = sheetLoop O M (sheetLoop O M st s₁) x :=
  sheetLoop_append O M s₁ x hs st

/-- T4.3: a statement `t :: g ++ [e]` (well nested, no EOF, no `;` at depth 0 inside, closed by its `;`
or by the `}` that brings the nesting back to 0) is consumed exactly, and the tokens after it are parsed
from the state `stmtEffect` computes from the statement alone. -/
theorem stmt_consumed_exactly (O : Oracle) (M : List Cps) (st : SheetSt) (t : Tok) (g : List Tok) (e : Tok)
    (stk' : List K) (s₂ : List Tok)
    (h1 : t.typ ≠ .s) (h2 : t.typ ≠ .cdo) (h3 : t.typ ≠ .cdc) (h4 : t.typ ≠ .comment) (h5 : t.typ ≠ .eof)
    (hq : Quiet .default (startStack t) g = true) (hn : nest (startStack t) g = some stk')
    (hp : push stk' e = some []) (he : endTok .default e = true) :
    sheetLoop O M st (t :: g ++ e :: s₂) = sheetLoop O M (stmtEffect O M st t (t :: g ++ [e])) s₂ :=
  sheetLoop_stmt O M st t g e stk' s₂ h1 h2 h3 h4 h5 hq hn hp he

/-- T4.3 (containment): if the statement is dropped in the state reached after `s₁` — `stmtEffect` leaves
that state unchanged; the cases are listed below — the sheet parses exactly as without it, for ANY `s₂`. -/
theorem stmt_containment (O : Oracle) (M : List Cps) (s₁ s₂ : List Tok) (t : Tok) (g : List Tok) (e : Tok)
    (stk' : List K) (hs : StmtSeq s₁)
    (h1 : t.typ ≠ .s) (h2 : t.typ ≠ .cdo) (h3 : t.typ ≠ .cdc) (h4 : t.typ ≠ .comment) (h5 : t.typ ≠ .eof)
    (hq : Quiet .default (startStack t) g = true) (hn : nest (startStack t) g = some stk')
    (hp : push stk' e = some []) (he : endTok .default e = true)
    (hdrop : stmtEffect O M (sheetLoop O M {} s₁) t (t :: g ++ [e]) = sheetLoop O M {} s₁) :
    parseSheet O M (s₁ ++ (t :: g ++ e :: s₂)) = parseSheet O M (s₁ ++ s₂) := by
  unfold parseSheet
  rw [sheetLoop_append O M s₁ _ hs, sheetLoop_append O M s₁ s₂ hs,
    sheetLoop_stmt O M _ t g e stk' s₂ h1 h2 h3 h4 h5 hq hn hp he, hdrop]

/-- dropped (i): a ruleset whose selector is invalid or whose structure is broken (`styleRule = none`);
since fix e2aca07 it does not raise the order level either. -/
theorem dropped_invalid_ruleset (O : Oracle) (M : List Cps) (st : SheetSt) (t : Tok) (stmt : List Tok)
    (ht : startsRuleset t = true) (hbad : styleRule O st.nsmap stmt = none) :
    stmtEffect O M st t stmt = st := by
  rw [stmtEffect_ruleset O M st t stmt ht, hbad]

/-- dropped (ii): a misplaced `@charset` (anything came before), `@import` (after `@namespace` or a
rule), `@namespace` / `@variables` (after a rule): parsed, not inserted, order level kept. -/
theorem dropped_misplaced (O : Oracle) (M : List Cps) (st : SheetSt) (t : Tok) (stmt : List Tok)
    (h : (t.typ = .charsetSym ∧ st.expected > 0) ∨ (t.typ = .importSym ∧ st.expected > 1)
       ∨ (t.typ = .namespaceSym ∧ st.expected > 2) ∨ (t.typ = .variablesSym ∧ st.expected > 2)) :
    stmtEffect O M st t stmt = st := by
  rcases h with ⟨h, he⟩ | ⟨h, he⟩ | ⟨h, he⟩ | ⟨h, he⟩ <;> simp [stmtEffect, h, he]

/-- in particular (seeded change C04-1): a misplaced `@namespace` — also one that declares a default
namespace or re-declares a prefix — leaves the prefix map the later selectors are resolved with, and the
order level, exactly as they were: everything after it is parsed as if it were not there. -/
theorem misplaced_namespace_is_inert (O : Oracle) (M : List Cps) (st : SheetSt) (t : Tok) (stmt s₂ : List Tok)
    (ht : t.typ = .namespaceSym) (he : st.expected > 2) :
    (stmtEffect O M st t stmt).nsmap = st.nsmap ∧ (stmtEffect O M st t stmt).expected = st.expected
      ∧ sheetLoop O M (stmtEffect O M st t stmt) s₂ = sheetLoop O M st s₂ := by
  rw [dropped_misplaced O M st t stmt (Or.inr (Or.inr (Or.inl ⟨ht, he⟩)))]
  exact ⟨rfl, rfl, rfl⟩

/-- dropped (iii): a malformed `@namespace` (since fix 8eade3e the order level is kept). -/
theorem dropped_malformed_namespace (O : Oracle) (M : List Cps) (st : SheetSt) (t : Tok) (stmt : List Tok)
    (h : t.typ = .namespaceSym) (hbad : O.nsInfo stmt = none) :
    stmtEffect O M st t stmt = st := by
  simp only [stmtEffect, h, hbad]
  split <;> rfl

/-- an unknown at-rule: the only effect is that the rule itself is appended when it is well formed (the
damaged construct itself), and the order level goes from 0 to 1 (which can only disable a following
`@charset`, which is not at the start of the sheet anyway). -/
theorem unknown_atrule_effect (O : Oracle) (M : List Cps) (st : SheetSt) (t : Tok) (stmt : List Tok)
    (h : t.typ = .atkeyword) (hm : isMargin M t = false) (hlevel : 1 ≤ st.expected) :
    stmtEffect O M st t stmt =
      if unknownOk stmt then { st with rules := st.rules ++ [Rule.unknown stmt] } else st := by
  have hmax : max 1 st.expected = st.expected := by omega
  simp only [stmtEffect, h, hm, hmax]
  by_cases hu : unknownOk stmt = true <;> simp [hu, sheetInsert, Rule.kind]

-- non-vacuity: `$ x { }` is a statement of the stated shape (`$` is a CHAR; the `}` closes the only brace)
example : Quiet .default (startStack (Ex.ch 0x24)) [Ex.idt "x", Ex.lbrace] = true
    ∧ nest (startStack (Ex.ch 0x24)) [Ex.idt "x", Ex.lbrace] = some [K.brace]
    ∧ push [K.brace] Ex.rbrace = some [] ∧ endTok .default Ex.rbrace = true
    ∧ startsRuleset (Ex.ch 0x24) = true := by decide
-- and an oracle that rejects its selector drops it
example : styleRule Ex.no [] [Ex.ch 0x24, Ex.idt "x", Ex.lbrace, Ex.rbrace] = none := by decide

/-! ## T4.4 truncation (token level)

The tokenizer closes an open comment / string / `url(` and appends one EOF token (C05, T4.5 is the
text-level link); here: what the structure level does with a token list that stops anywhere. -/

/-- T4.4 (rules): `s₁` complete statements, then ANY tokens (the construct that was cut off, the EOF
token, …).  Every rule that `s₁` alone produces is still there, in order, followed by whatever the rest
adds — up to the URI of `@namespace` rules, which a later `@namespace` with the same prefix overwrites
(`_replaceNamespaceURI`); style, media and all other rules are literally unchanged (`eraseUri` is the
identity on them). -/
theorem truncation_keeps_rules (O : Oracle) (M : List Cps) (s₁ junk : List Tok) (hs : StmtSeq s₁) :
    ∃ more, (sheetLoop O M {} (s₁ ++ junk)).rules.map eraseUri =
      (sheetLoop O M {} s₁).rules.map eraseUri ++ more := by
  rw [sheetLoop_append O M s₁ junk hs]
  exact sheetLoop_extends O M _ junk

/-- T4.4 (declarations): `d₁` complete units of a declaration block, then ANY tokens: the items of `d₁`
are all there, unchanged, followed by whatever the rest yields. -/
theorem truncation_keeps_declarations (O : Oracle) (d₁ junk : List Tok) (hd : DeclSeq d₁) :
    parseDecls O (d₁ ++ junk) = parseDecls O d₁ ++ parseDecls O junk :=
  parseDecls_append O d₁ junk hd

/-- T4.4 (a style rule cut off inside its block): after complete statements `s₁` comes a style rule whose
selector `t :: sel'` is complete, then `{`, complete declarations `d₁`, an unfinished rest `junk` that
never closes the block, and EOF.  The sheet has the rules of `s₁` and then — iff the selector is accepted
— the style rule with exactly the declarations of `d₁` followed by what the unfinished rest yields:
"constructs left open at the end of the input are closed there". -/
theorem truncated_style_rule (O : Oracle) (M : List Cps) (s₁ : List Tok) (t : Tok)
    (sel' d₁ junk : List Tok) (lb eof : Tok) (stk : List K)
    (hs : StmtSeq s₁) (ht : startsRuleset t = true) (hsel : SelShape (t :: sel'))
    (hq : Quiet .default [] (t :: sel') = true) (hl : lb.val = vLBrace) (hlt : lb.typ ≠ .eof)
    (hd : DeclSeq d₁) (hx : nest [] (d₁ ++ junk) = some stk) (hxe : noEof (d₁ ++ junk) = true)
    (he : eof.typ = .eof) :
    (sheetLoop O M {} (s₁ ++ (t :: sel' ++ lb :: (d₁ ++ junk) ++ [eof]))).rules =
      (sheetLoop O M {} s₁).rules ++
        (if O.selOk (sheetLoop O M {} s₁).nsmap (t :: sel') then
          [Rule.style (sheetLoop O M {} s₁).nsmap (t :: sel')
            (parseDecls O d₁ ++ parseDecls O (junk ++ [eof]))] else []) := by
  rw [sheetLoop_append O M s₁ _ hs,
    sheetLoop_truncated_style O M _ t sel' (d₁ ++ junk) lb eof stk ht hsel hq hl hlt hx hxe he,
    List.append_assoc, parseDecls_append O d₁ (junk ++ [eof]) hd]

/-- the same rule when it is complete (for comparison: same selector, same first declarations). -/
theorem complete_style_rule (O : Oracle) (ns : List (Cps × Cps)) (sel d₁ d₂ : List Tok) (lb rb : Tok)
    (hsel : SelShape sel) (hl : lb.val = vLBrace) (hd : DeclSeq d₁)
    (hb : Balanced (d₁ ++ d₂)) (hde : noEof (d₁ ++ d₂) = true) (hr : rb.val = vRBrace) (hrt : rb.typ ≠ .eof) :
    styleRule O ns (sel ++ lb :: (d₁ ++ d₂) ++ [rb]) =
      if O.selOk ns sel then some (sel, parseDecls O d₁ ++ parseDecls O d₂) else none := by
  rw [styleRule_complete O ns sel (d₁ ++ d₂) lb rb hsel hl hb hde hr hrt, parseDecls_append O d₁ d₂ hd]

-- non-vacuity: selector `a`, block `color:red;` complete, `top` unfinished
example : SelShape [Ex.idt "a"] := ⟨by decide, by decide, by decide, by decide, by decide⟩
example : nest [] ([Ex.idt "color", Ex.colon, Ex.idt "red", Ex.semi] ++ [Ex.idt "top", Ex.colon, Ex.fn "f("])
    = some [K.paren] := by decide

/-! ## T4.4 inside `@media`, at any nesting depth

`mediaRules O ns ts`: the rules the token list `ts` yields as content of an `@media` block (the loop of
`cssmediarule.py:163-245`; nested `@media` rules are parsed by `mediaRule` with enough fuel, which by
`media_fuel_irrelevant` is the same as any larger amount).  `MediaUnit` / `MediaSeq`: complete constructs of
such a block.  `MqShape mq`: the media query part (balanced, no brace, no EOF, no STRING — the named form
`@media "name" {` is left to the correspondence —, no `;` `}` at depth 0). -/

/-- **Locality of the `@media` block**: after complete units the block parser is back in its start state,
whatever follows (the analogue of `decls_local` / `sheet_local` one level down). -/
theorem media_block_local (O : Oracle) (ns : List (Cps × Cps)) (m₁ x : List Tok) (hm : MediaSeq m₁) :
    mediaRules O ns (m₁ ++ x) = mediaRules O ns m₁ ++ mediaRules O ns x :=
  mediaRules_append O ns m₁ x hm

/-- the complete `@media` rule, for comparison: the statement `@media mq { m₁ m₂ }` appends one media rule
whose rules are those of `m₁` followed by those of `m₂` (or the stub `@media all {}` when the media query
is rejected). -/
theorem complete_media_rule (O : Oracle) (M : List Cps) (st : SheetSt) (at_ : Tok) (mq : List Tok) (lb : Tok)
    (m₁ m₂ : List Tok) (rb : Tok)
    (hat : at_.typ = .mediaSym) (hs : MqShape mq) (hl : lb.val = vLBrace) (hlt : lb.typ = .char)
    (hm : MediaSeq m₁) (hd : Balanced (m₁ ++ m₂)) (hde : noEof (m₁ ++ m₂) = true)
    (hr : rb.val = vRBrace) (hrt : rb.typ ≠ .eof) :
    (stmtEffect O M st at_ (at_ :: (mq ++ lb :: ((m₁ ++ m₂) ++ [rb])))).rules =
      st.rules ++ [if O.mediaOk mq then
        Rule.media (some (mq, none)) (mediaRules O st.nsmap m₁ ++ mediaRules O st.nsmap m₂)
        else Rule.media none []] := by
  rw [stmtEffect_complete_media O M st at_ mq lb (m₁ ++ m₂) rb hat hs hl hlt hd hde hr hrt,
    mediaRules_append O st.nsmap m₁ m₂ hm]

/-- T4.4 (an `@media` rule cut off inside its block): after complete statements `s₁` comes `@media mq {`,
complete units `m₁` of the block, an unfinished rest `junk` that never closes the block, and EOF.  The
sheet has the rules of `s₁` and then the media rule, closed at EOF, with exactly the rules of `m₁`
followed by what the unfinished rest yields. -/
theorem truncated_media_rule (O : Oracle) (M : List Cps) (s₁ : List Tok) (at_ : Tok) (mq : List Tok)
    (lb : Tok) (m₁ junk : List Tok) (eof : Tok) (stk : List K)
    (hs₁ : StmtSeq s₁) (hat : at_.typ = .mediaSym) (hv : normalize at_.val = atMedia) (hs : MqShape mq)
    (hl : lb.val = vLBrace) (hlt : lb.typ = .char) (hm : MediaSeq m₁)
    (hx : nest [] (m₁ ++ junk) = some stk) (hxe : noEof (m₁ ++ junk) = true) (he : eof.typ = .eof) :
    (sheetLoop O M {} (s₁ ++ at_ :: (mq ++ lb :: ((m₁ ++ junk) ++ [eof])))).rules =
      (sheetLoop O M {} s₁).rules ++
        [if O.mediaOk mq then
          Rule.media (some (mq, none))
            (mediaRules O (sheetLoop O M {} s₁).nsmap m₁
              ++ mediaRules O (sheetLoop O M {} s₁).nsmap (junk ++ [eof]))
         else Rule.media none []] := by
  rw [sheetLoop_append O M s₁ _ hs₁,
    sheetLoop_open_media O M _ at_ mq lb (m₁ ++ junk) eof stk hat hv hs hl hlt hx hxe he,
    List.append_assoc, mediaRules_append O _ m₁ (junk ++ [eof]) hm]

/-- T4.4 (a style rule inside an `@media` block, cut off inside its declaration block): the content
`sel { d₁ junk EOF` of a media block yields — iff the selector is accepted — the style rule with exactly the
declarations of `d₁` followed by what the unfinished rest yields. -/
theorem truncated_style_in_media (O : Oracle) (ns : List (Cps × Cps)) (t : Tok) (sel' : List Tok) (lb : Tok)
    (d₁ junk : List Tok) (eof : Tok) (stk : List K)
    (ht : startsMediaRuleset t = true) (hsel : SelShape (t :: sel'))
    (hq : Quiet .default [] (t :: sel') = true) (hl : lb.val = vLBrace) (hlt : lb.typ ≠ .eof)
    (hd : DeclSeq d₁) (hx : nest [] (d₁ ++ junk) = some stk) (hxe : noEof (d₁ ++ junk) = true)
    (he : eof.typ = .eof) :
    mediaRules O ns (t :: (sel' ++ lb :: ((d₁ ++ junk) ++ [eof]))) =
      if O.selOk ns (t :: sel') then
        [Rule.style ns (t :: sel') (parseDecls O d₁ ++ parseDecls O (junk ++ [eof]))] else [] := by
  rw [mediaRules_open_style O ns t sel' lb (d₁ ++ junk) eof stk ht hsel hq hl hlt hx hxe he,
    List.append_assoc, parseDecls_append O d₁ (junk ++ [eof]) hd]

/-- T4.4 (`@media` inside `@media`, cut off inside the inner block): the content `@media mq { m₁ junk EOF` of
a media block yields the inner media rule, closed at EOF, with the rules of `m₁` and what the rest yields. -/
theorem truncated_media_in_media (O : Oracle) (ns : List (Cps × Cps)) (at_ : Tok) (mq : List Tok) (lb : Tok)
    (m₁ junk : List Tok) (eof : Tok) (stk : List K)
    (hat : at_.typ = .mediaSym) (hv : normalize at_.val = atMedia) (hs : MqShape mq)
    (hl : lb.val = vLBrace) (hlt : lb.typ = .char) (hm : MediaSeq m₁)
    (hx : nest [] (m₁ ++ junk) = some stk) (hxe : noEof (m₁ ++ junk) = true) (he : eof.typ = .eof) :
    mediaRules O ns (at_ :: (mq ++ lb :: ((m₁ ++ junk) ++ [eof]))) =
      [if O.mediaOk mq then
        Rule.media (some (mq, none)) (mediaRules O ns m₁ ++ mediaRules O ns (junk ++ [eof]))
       else Rule.media none []] := by
  rw [mediaRules_open_media O ns at_ mq lb (m₁ ++ junk) eof stk hat hv hs hl hlt hx hxe he,
    List.append_assoc, mediaRules_append O ns m₁ (junk ++ [eof]) hm]

/-- **T4.4 at ANY nesting depth.**  `fs` lists the `@media` rules that are open at the cut, outermost
first; each frame `F` has the complete units `F.done` that stand before it in the enclosing block and its
head `@media F.mq {` (`MFrame.Ok`).  `openToks fs junk` is the token list (`junk`: the unfinished content of
the innermost block), `openRules O ns fs inner` the rule list: at every level the rules of the complete
units, unchanged, then the open media rule closed at EOF containing, recursively, the same for the next
level.  Together with `truncated_style_in_media` (for `junk = sel { d₁ junk'`) and `media_block_local`
(for `junk = m₁ ++ junk'`) this is the truncation clause of the property for every nesting depth. -/
theorem truncation_nested_media (O : Oracle) (ns : List (Cps × Cps)) (fs : List MFrame) (junk : List Tok)
    (eof : Tok) (stk : List K)
    (hf : ∀ F ∈ fs, F.Ok) (hj : nest [] junk = some stk) (hje : noEof junk = true) (he : eof.typ = .eof) :
    mediaRules O ns (openToks fs junk ++ [eof]) = openRules O ns fs (mediaRules O ns (junk ++ [eof])) :=
  mediaRules_open O ns fs junk eof stk hf hj hje he

/-- … and from the sheet level: complete statements `s₁`, an `@media` rule open at the cut, inside it the
frames `fs`, innermost the unfinished `junk`. -/
theorem truncation_nested (O : Oracle) (M : List Cps) (s₁ : List Tok) (at_ : Tok) (mq : List Tok) (lb : Tok)
    (fs : List MFrame) (junk : List Tok) (eof : Tok) (stk : List K)
    (hs₁ : StmtSeq s₁) (hat : at_.typ = .mediaSym) (hv : normalize at_.val = atMedia) (hs : MqShape mq)
    (hl : lb.val = vLBrace) (hlt : lb.typ = .char)
    (hf : ∀ F ∈ fs, F.Ok) (hj : nest [] junk = some stk) (hje : noEof junk = true) (he : eof.typ = .eof) :
    (sheetLoop O M {} (s₁ ++ at_ :: (mq ++ lb :: (openToks fs junk ++ [eof])))).rules =
      (sheetLoop O M {} s₁).rules ++
        [if O.mediaOk mq then
          Rule.media (some (mq, none))
            (openRules O (sheetLoop O M {} s₁).nsmap fs
              (mediaRules O (sheetLoop O M {} s₁).nsmap (junk ++ [eof])))
         else Rule.media none []] := by
  obtain ⟨s, hn, hne⟩ := openToks_nest fs junk stk hf hj hje
  rw [sheetLoop_append O M s₁ _ hs₁,
    sheetLoop_open_media O M _ at_ mq lb (openToks fs junk) eof s hat hv hs hl hlt hn hne he,
    mediaRules_open O _ fs junk eof stk hf hj hje he]

-- non-vacuity: the frame `a{} @media print{` (one complete unit `a{}`, then the head of an open rule) …
example : MFrame.Ok ⟨[Ex.idt "a", Ex.lbrace, Ex.rbrace], ⟨.mediaSym, cps "@media", 0⟩,
    [Ex.sp, Ex.idt "print"], Ex.lbrace⟩ :=
  { seq := MediaSeq.single (MediaUnit.stmt (Ex.idt "a") [Ex.lbrace] Ex.rbrace [K.brace]
      (by decide) (by decide) (by decide) (by decide) (by decide) (by decide) (by decide))
    bal := by decide, ne := by decide, atT := rfl, atV := by decide
    mq := ⟨by decide, by decide, by decide, by decide, by decide⟩, lbV := rfl, lbT := rfl }
-- … the at-keyword may be spelled with escapes / upper case (`@\MEDIA`) …
example : normalize (cps "@\\MEDIA") = atMedia := by decide
-- … and an unfinished innermost content `b{c:d;e` (selector, `{`, one complete declaration, a started one)
example : nest [] [Ex.idt "b", Ex.lbrace, Ex.idt "c", Ex.colon, Ex.idt "d", Ex.semi, Ex.idt "e"] = some [K.brace]
    ∧ startsMediaRuleset (Ex.idt "b") = true ∧ SelShape [Ex.idt "b"] :=
  ⟨by decide, by decide, ⟨by decide, by decide, by decide, by decide, by decide⟩⟩
-- two open frames: the token list is `a{} @media print{ a{} @media print{ b{c:d;e`
example : (openToks [⟨[Ex.idt "a", Ex.lbrace, Ex.rbrace], ⟨.mediaSym, cps "@media", 0⟩, [Ex.sp, Ex.idt "print"], Ex.lbrace⟩,
      ⟨[], ⟨.mediaSym, cps "@media", 0⟩, [], Ex.lbrace⟩] [Ex.idt "b"]).length = 10 := by decide

/-- **T4.4, certified form** (`Model/StructCut.lean`): a certificate `c` divides a truncated sheet into
complete statements `c.s₁` and the construct `c.o` that is open at the end of input — an `@media` rule with
its complete units and, recursively, the open construct inside it; a style rule with its complete
declarations; or an undivided rest —, `Cut.ok` decides every hypothesis of the theorems above (unit shapes,
selector / media query shapes, well nested contents), and `Cut.predict` is the rule list: all rules of the
complete statements, then the open rules closed at EOF with exactly their complete inner rules /
declarations, to any depth.  The driver request `cut` builds a certificate for the token list of a REAL
truncated sheet, evaluates `Cut.ok` and answers with `Cut.predict`; the harness compares it with the DOM of
`parseString` (phase `truncate`, kinds `cut:*`). -/
theorem truncation_certified (O : Oracle) (M : List Cps) (c : Cut) (h : c.ok = true) :
    (sheetLoop O M {} c.toks).rules = c.predict O M :=
  Cut.predict_sound O M c h

/-- the certificate search of the driver (`findCut`) is faithful: for every non-empty token list it returns a
division of exactly that list — so on every input the only thing that decides whether the prediction applies
is the verified check `Cut.ok`; the search itself needs no trust. -/
theorem certificate_search_faithful (O : Oracle) (M : List Cps) (ts : List Tok) (h : ts ≠ []) :
    ∃ c, findCut ts = some c ∧ c.toks = ts ∧
      (c.ok = true → (sheetLoop O M {} ts).rules = c.predict O M) := by
  obtain ⟨c, hc, ht⟩ := findCut_toks ts h
  exact ⟨c, hc, ht, fun hok => ht ▸ Cut.predict_sound O M c hok⟩

-- non-vacuity: the tokens of `a{} @media print{b{} @media print{c{d:e;f` get a certificate of shape
-- media > media > style with one complete unit at each level, and it passes the check
example : ((findCut [Ex.idt "a", Ex.lbrace, Ex.rbrace, ⟨.mediaSym, cps "@media", 0⟩, Ex.sp, Ex.idt "print", Ex.lbrace,
      Ex.idt "b", Ex.lbrace, Ex.rbrace, ⟨.mediaSym, cps "@media", 0⟩, Ex.sp, Ex.idt "print", Ex.lbrace,
      Ex.idt "c", Ex.lbrace, Ex.idt "d", Ex.colon, Ex.idt "e", Ex.semi, Ex.idt "f", Ex.eof]).map
      fun c => (c.ok, c.o.shape, c.s₁.length)) = some (true, "media>media>style", 1) := by decide

/-! ## T4.3 inside `@media`, at any nesting depth

`mediaStmtRules O ns t stmt`: what the statement production of an `@media` block (`atrule` / `ruleset`,
`cssmediarule.py:171-220`) appends for the collected statement `stmt` that starts with `t`. -/

/-- T4.3 in a media block: `m₁` complete units; a statement `t :: g ++ [e]` of the usual shape that yields no
rule (cases below); then ANYTHING.  The block parses exactly as without the statement. -/
theorem media_stmt_containment (O : Oracle) (ns : List (Cps × Cps)) (m₁ m₂ : List Tok) (t : Tok)
    (g : List Tok) (e : Tok) (stk' : List K) (hm : MediaSeq m₁)
    (h1 : t.typ ≠ .s) (h2 : t.typ ≠ .comment) (h3 : t.typ ≠ .eof)
    (hq : Quiet .default (startStack t) g = true) (hn : nest (startStack t) g = some stk')
    (hp : push stk' e = some []) (he : endTok .default e = true)
    (hdrop : mediaStmtRules O ns t (t :: g ++ [e]) = []) :
    mediaRules O ns (m₁ ++ (t :: g ++ [e]) ++ m₂) = mediaRules O ns (m₁ ++ m₂) :=
  mediaRules_drop_stmt O ns m₁ m₂ t g e stk' hm h1 h2 h3 hq hn hp he hdrop

/-- dropped in a media block (i): a ruleset whose selector is invalid or whose structure is broken -/
theorem dropped_in_media_invalid_ruleset (O : Oracle) (ns : List (Cps × Cps)) (t : Tok) (stmt : List Tok)
    (ht : startsMediaRuleset t = true) (hbad : styleRule O ns stmt = none) :
    mediaStmtRules O ns t stmt = [] := by
  rw [mediaStmtRules_ruleset O ns t stmt ht, hbad]

/-- dropped in a media block (ii): `@charset ` / `@font-face` / `@import` / `@namespace` / `@variables`
(by the normalised at-keyword) are not allowed there: parsed, consumed, nothing inserted -/
theorem dropped_in_media_misplaced (O : Oracle) (ns : List (Cps × Cps)) (t : Tok) (stmt : List Tok)
    (ht : isMediaAt t = true) (hf : mediaForbidden.contains (normalize t.val) = true) :
    mediaStmtRules O ns t stmt = [] :=
  mediaStmtRules_forbidden O ns t stmt ht hf

/-- an unknown at-rule in a media block: the only effect is the rule itself, iff it is well formed -/
theorem unknown_atrule_in_media (O : Oracle) (ns : List (Cps × Cps)) (t : Tok) (stmt : List Tok)
    (ht : isMediaAt t = true) (hf : mediaForbidden.contains (normalize t.val) = false)
    (hp : normalize t.val ≠ atPage) (hm : normalize t.val ≠ atMedia) :
    mediaStmtRules O ns t stmt = if unknownOk stmt then [Rule.unknown stmt] else [] :=
  mediaStmtRules_unknown O ns t stmt ht hf hp hm

/-- **lifting through one `@media` level (inside a media block)**: if two block contents `x`, `y` yield the
same rules, the enclosing blocks `m₁ @media mq { x } m₂` and `m₁ @media mq { y } m₂` yield the same rules.
With `media_stmt_containment` at the innermost level this is containment at every nesting depth. -/
theorem containment_lifts_through_media (O : Oracle) (ns : List (Cps × Cps)) (m₁ m₂ : List Tok) (at_ : Tok)
    (mq : List Tok) (lb : Tok) (x y : List Tok) (rb : Tok) (hm : MediaSeq m₁)
    (hat : at_.typ = .mediaSym) (hv : normalize at_.val = atMedia) (hs : MqShape mq)
    (hl : lb.val = vLBrace) (hlt : lb.typ = .char) (hr : rb.val = vRBrace) (hrt : rb.typ ≠ .eof)
    (hx : Balanced x) (hxe : noEof x = true) (hy : Balanced y) (hye : noEof y = true)
    (hxy : mediaRules O ns x = mediaRules O ns y) :
    mediaRules O ns (m₁ ++ (at_ :: (mq ++ lb :: x) ++ [rb]) ++ m₂) =
      mediaRules O ns (m₁ ++ (at_ :: (mq ++ lb :: y) ++ [rb]) ++ m₂) := by
  obtain ⟨ux, rx⟩ := mediaRules_complete_media O ns at_ mq lb x rb hat hv hs hl hlt hx hxe hr hrt
  obtain ⟨uy, ry⟩ := mediaRules_complete_media O ns at_ mq lb y rb hat hv hs hl hlt hy hye hr hrt
  rw [List.append_assoc, mediaRules_append O ns m₁ _ hm, mediaRules_append O ns _ m₂ (MediaSeq.single ux), rx,
    List.append_assoc, mediaRules_append O ns m₁ _ hm, mediaRules_append O ns _ m₂ (MediaSeq.single uy), ry, hxy]

/-- **lifting to the sheet**: … and the sheets `s₁ @media mq { x } s₂` and `s₁ @media mq { y } s₂` parse to
the same DOM (rules, namespaces, order level), for ANY `s₂`. -/
theorem containment_lifts_to_sheet (O : Oracle) (M : List Cps) (s₁ s₂ : List Tok) (at_ : Tok)
    (mq : List Tok) (lb : Tok) (x y : List Tok) (rb : Tok) (hs₁ : StmtSeq s₁)
    (hat : at_.typ = .mediaSym) (hv : normalize at_.val = atMedia) (hs : MqShape mq)
    (hl : lb.val = vLBrace) (hlt : lb.typ = .char) (hr : rb.val = vRBrace) (hrt : rb.typ ≠ .eof)
    (hx : Balanced x) (hxe : noEof x = true) (hy : Balanced y) (hye : noEof y = true)
    (hxy : mediaRules O (sheetLoop O M {} s₁).nsmap x = mediaRules O (sheetLoop O M {} s₁).nsmap y) :
    parseSheet O M (s₁ ++ (at_ :: (mq ++ lb :: x) ++ rb :: s₂)) =
      parseSheet O M (s₁ ++ (at_ :: (mq ++ lb :: y) ++ rb :: s₂)) := by
  unfold parseSheet
  rw [sheetLoop_append O M s₁ _ hs₁, sheetLoop_append O M s₁ _ hs₁,
    sheetLoop_complete_media O M _ at_ mq lb x rb s₂ hat hv hs hl hlt hx hxe hr hrt,
    sheetLoop_complete_media O M _ at_ mq lb y rb s₂ hat hv hs hl hlt hy hye hr hrt, hxy]

-- non-vacuity: `$ x { }` inside a media block is a statement of the stated shape that starts a ruleset, and an
-- oracle that rejects its selector drops it; `@import "a";` is not allowed there
example : startsMediaRuleset (Ex.ch 0x24) = true
    ∧ styleRule Ex.no [] [Ex.ch 0x24, Ex.idt "x", Ex.lbrace, Ex.rbrace] = none
    ∧ isMediaAt (Ex.imp "@import") = true
    ∧ mediaForbidden.contains (normalize (Ex.imp "@import").val) = true := by decide

/-! ## T4.5 text level: composition with the tokenizer model of C05

`sheetToks text doC` (`Lemmas/StructText.lean`): the token list `parseString(text)` hands to the sheet
dispatcher — the yielded tokens of `Tok.tokenize text true doC` (C05's model of `tokenize2.py`), projected to
(type, value).  "Constructs left open at the end of the input are closed there": the tokenizer closes an open
comment / string / `url(` inside the LAST token and appends exactly one EOF token (C05 T5.1, `found_is_span`),
the structure level closes open blocks at that EOF token (T4.4). -/

/-- T4.5 (domain): for EVERY text the token list is `body ++ [eof]` with exactly one EOF token, last — the
EOF hypotheses of all T4.4 theorems hold for every real input (from C05's totality / `eof_once` argument). -/
theorem text_tokens_domain (text : Cps) (doC : Bool) :
    ∃ body eof, sheetToks text doC = body ++ [eof] ∧ eof.typ = .eof ∧ noEof body = true :=
  let ⟨b, e, h1, h2, h3, _⟩ := sheetToks_shape text doC
  ⟨b, e, h1, h2, h3⟩

/-- T4.5 (a cut in the token list is a cut in the text): the tokenizer's steps tile the text (C05 T5.2), so
the steps behind any prefix of the token list consumed exactly a prefix of the text. -/
theorem token_cut_is_text_cut (text : Cps) (doC : Bool) (a b : List CssVerif.Tok.Item)
    (h : (CssVerif.Tok.tokenize text true doC).items = a ++ b) :
    text = CssVerif.Tok.spans a ++ CssVerif.Tok.spans b :=
  items_split_text text doC a b h

/-- T4.4 + T4.5, `@media` rule open at the end of a TEXT: if the tokens of `text` are complete statements
`s₁`, then `@media mq {`, complete units `m₁` and an unfinished rest `junk` — no hypothesis about EOF: the
last token is the tokenizer's EOF and there is no other — the parsed sheet has the rules of `s₁` and the media
rule, closed, with exactly the rules of `m₁` and then what the rest yields. -/
theorem text_truncated_media_rule (O : Oracle) (M : List Cps) (text : Cps) (doC : Bool) (s₁ : List Tok)
    (at_ : Tok) (mq : List Tok) (lb : Tok) (m₁ junk : List Tok) (e : Tok) (stk : List K)
    (ht : sheetToks text doC = s₁ ++ at_ :: (mq ++ lb :: ((m₁ ++ junk) ++ [e])))
    (hs₁ : StmtSeq s₁) (hat : at_.typ = .mediaSym) (hv : normalize at_.val = atMedia) (hs : MqShape mq)
    (hl : lb.val = vLBrace) (hlt : lb.typ = .char) (hm : MediaSeq m₁)
    (hx : nest [] (m₁ ++ junk) = some stk) :
    (sheetLoop O M {} (sheetToks text doC)).rules =
      (sheetLoop O M {} s₁).rules ++
        [if O.mediaOk mq then
          Rule.media (some (mq, none))
            (mediaRules O (sheetLoop O M {} s₁).nsmap m₁
              ++ mediaRules O (sheetLoop O M {} s₁).nsmap (junk ++ [e]))
         else Rule.media none []] := by
  have hsplit : sheetToks text doC = (s₁ ++ at_ :: (mq ++ lb :: (m₁ ++ junk))) ++ [e] := by
    rw [ht]; simp
  obtain ⟨he, hne⟩ := sheetToks_open text doC _ e hsplit
  have hxe : noEof (m₁ ++ junk) = true := by
    simp only [noEof, List.all_append, List.all_cons, Bool.and_eq_true] at hne ⊢
    exact hne.2.2.2.2
  rw [ht]
  exact truncated_media_rule O M s₁ at_ mq lb m₁ junk e stk hs₁ hat hv hs hl hlt hm hx hxe he

/-- T4.4 + T4.5, certified form at text level: a checked certificate for the token list of ANY text predicts
the rule list of `parseString(text)` in the composed model (tokenizer model, then structure model). -/
theorem text_truncation_certified (O : Oracle) (M : List Cps) (text : Cps) (doC : Bool) (c : Cut)
    (hc : c.toks = sheetToks text doC) (hok : c.ok = true) :
    (sheetLoop O M {} (sheetToks text doC)).rules = c.predict O M := by
  rw [← hc]; exact Cut.predict_sound O M c hok

/-- `_partial` — T4.5, the cut itself.  Full statement wanted by the property:

    text = a ++ b, `pre` = the tokens of `a ++ b` that end at or before a token boundary `≤ |a|` of the uncut
    text (and, in full-sheet mode, do not change under end-of-input completion) ⊢
    `sheetToks a = pre ++ post'` and `sheetToks (a ++ b) = pre ++ post`

which is the tokenizer's cut property — proved by C05 in this round for the partial-sheet loop
(`tokenize_cut`, `Lemmas/TokAppend.lean` on branch build3-C05: no separation predicate, the only hypothesis is
`spans pre = a₁`) together with the bridge to full-sheet mode (`full_sheet_completion`, Props/C05 §T5.8: the
full-sheet body is the partial-sheet body, or its prefix up to the ONE token that end-of-input completion
replaces — INVALID → STRING, FUNCTION `url(` → URI, CHAR `/` → COMMENT).  Both live on the other branch, so
the composition (`pre` = the partial-sheet tokens before both the boundary `|a₁|` and the completion point)
is left for after the merge.  Proved here: GIVEN that the two token lists share the prefix `pre`, every rule of the complete
statements `s₁` inside `pre` is present, in order, unchanged (up to the URI of `@namespace` rules) in the DOM
of the truncated text AND in the DOM of the full text. -/
theorem text_truncation_partial (O : Oracle) (M : List Cps) (a b : Cps) (doC : Bool)
    (pre post post' s₁ rest : List Tok)
    (hfull : sheetToks (a ++ b) doC = pre ++ post) (hcut : sheetToks a doC = pre ++ post')
    (hpre : pre = s₁ ++ rest) (hs : StmtSeq s₁) :
    ∃ more more',
      (sheetLoop O M {} (sheetToks (a ++ b) doC)).rules.map eraseUri =
        (sheetLoop O M {} s₁).rules.map eraseUri ++ more ∧
      (sheetLoop O M {} (sheetToks a doC)).rules.map eraseUri =
        (sheetLoop O M {} s₁).rules.map eraseUri ++ more' := by
  subst hpre
  obtain ⟨m, hm⟩ := truncation_keeps_rules O M s₁ (rest ++ post) hs
  obtain ⟨m', hm'⟩ := truncation_keeps_rules O M s₁ (rest ++ post') hs
  refine ⟨m, m', ?_, ?_⟩
  · rw [hfull, List.append_assoc]; exact hm
  · rw [hcut, List.append_assoc]; exact hm'

-- non-vacuity (a test, evaluated by the kernel): the text `a{}b{` is tokenized by the C05 model into
-- IDENT CHAR CHAR IDENT CHAR EOF, i.e. the complete statement `a{}` and a style rule open at EOF
example : (sheetToks (cps "a{}b{") true).map (fun t => (t.typ, t.val)) =
    [(.ident, cps "a"), (.char, cps "{"), (.char, cps "}"), (.ident, cps "b"), (.char, cps "{"), (.eof, [])] := by
  decide +kernel

/-! ## the model's only fuel (nesting depth of `@media` in `@media`) never runs out -/

/-- noFuel: more fuel than tokens is always enough — the result does not depend on the amount, and it is
never the out-of-fuel value; `stmtEffect` starts `mediaRule` with `stmt.length + 1`. -/
theorem media_fuel_irrelevant (O : Oracle) (ns : List (Cps × Cps)) (f₁ f₂ : Nat) (ts : List Tok)
    (h1 : ts.length < f₁) (h2 : ts.length < f₂) :
    mediaRule O ns f₁ ts = mediaRule O ns f₂ ts ∧ mediaRule O ns f₁ ts ≠ none :=
  ⟨mediaRule_fuel O ns f₁ f₂ ts h1 h2, mediaRule_noFuel O ns f₁ ts h1⟩

/-! ## known finding `C04-escaped-delimiter-ident`

All theorems above classify brackets and end tokens the way `_tokensupto2` does: by token VALUE.  The
tokenizer unescapes identifiers, so `\7b ` is an IDENT token with value `{`, which the code (and therefore
`Tok.br`, `nest`, `Balanced`, `Quiet`, `endTok`) counts as an opening brace although in CSS it is a plain
identifier.  Full statement wanted by the property (brackets and end tokens = CHAR tokens, FUNCTION opens
a parenthesis: `Tok.cssBr`, `nestCss`, `QuietCss`, `endTokCss` of `Lemmas/StructCss.lean`):

    theorem upto_balanced_css : QuietCss m stk₀ g → nestCss stk₀ g = some stk' → pushCss stk' e = some [] →
      endTokCss m e → upto m none (g ++ e :: rest) = (g ++ [e], rest)

It is FALSE for the code (witness below); it holds under the guard that no non-CHAR token has a delimiter as
its value (`plainTokS`), because then the two classifications coincide.  The proposed tokenizer repair
`proposed-fixes/C04-escaped-delimiter-kept.diff` (a hex escape that decodes to a delimiter stays escaped)
makes the guard an invariant of the token lists the parser sees. -/

/-- `_partial` (per token): under the guard `plainTok` the value-based bracket classification is the CSS one. -/
theorem bracket_classification_partial (t : Tok) (h : plainTok t = true) : t.br = t.cssBr :=
  br_eq_cssBr t h

/-- `_partial` (T4.1 at CSS level): for token lists that satisfy the guard `plainTokS`, a stretch that is
quiet and well nested in the CSS sense, followed by a CSS-level end token that closes it, is taken exactly. -/
theorem upto_balanced_css_partial (m : Mode) (stk₀ stk' : List K) (g : List Tok) (e : Tok) (rest : List Tok)
    (hm : m.initStack = some stk₀) (hplain : ∀ t ∈ g ++ [e], plainTokS t = true)
    (hq : QuietCss m stk₀ g = true) (hn : nestCss stk₀ g = some stk') (hp : pushCss stk' e = some [])
    (he : endTokCss m e = true) :
    upto m none (g ++ e :: rest) = (g ++ [e], rest) := by
  have hg : ∀ t ∈ g, plainTokS t = true := fun t ht => hplain t (List.mem_append_left _ ht)
  have hpe : plainTokS e = true := hplain e (by simp)
  refine upto_none_end m stk₀ stk' g e rest hm ?_ ?_ ?_ ?_
  · rw [quiet_eq_quietCss m stk₀ g hg]; exact hq
  · rw [nest_eq_nestCss stk₀ g hg]; exact hn
  · rw [push_eq_pushCss stk' e hpe]; exact hp
  · rw [plainTokS_end m e hpe]; exact he

/-- the same lifting for whole token lists: under the guard, `nest` / `Quiet` (the vocabulary of every theorem of
this file) ARE the CSS-level notions, so all of T4.2–T4.4 read as statements about CSS-level balance. -/
theorem css_level_reading_partial (m : Mode) (stk : List K) (g : List Tok) (h : ∀ t ∈ g, plainTokS t = true) :
    nest stk g = nestCss stk g ∧ Quiet m stk g = QuietCss m stk g :=
  ⟨nest_eq_nestCss stk g h, quiet_eq_quietCss m stk g h⟩

-- non-vacuity: `( x ; [ y ] )` satisfies the guard and is quiet / well nested at CSS level
example : (∀ t ∈ [Ex.lparen, Ex.idt "x", Ex.semi, Ex.lbrack, Ex.idt "y", Ex.rbrack, Ex.rparen] ++ [Ex.semi],
      plainTokS t = true)
    ∧ QuietCss .semicolon [] [Ex.lparen, Ex.idt "x", Ex.semi, Ex.lbrack, Ex.idt "y", Ex.rbrack, Ex.rparen] = true
    ∧ nestCss [] [Ex.lparen, Ex.idt "x", Ex.semi, Ex.lbrack, Ex.idt "y", Ex.rbrack, Ex.rparen] = some []
    ∧ pushCss [] Ex.semi = some [] ∧ endTokCss .semicolon Ex.semi = true := by decide
-- the guard excludes exactly the tokens of the finding: IDENT `{`, IDENT `;`, HASH-like `:` …
example : plainTokS ⟨.ident, vLBrace, 0⟩ = false ∧ plainTokS ⟨.ident, vSemi, 0⟩ = false
    ∧ plainTokS ⟨.other, vColon, 0⟩ = false ∧ plainTokS (Ex.idt "x") = true ∧ plainTokS Ex.lbrace = true := by
  decide

/-- the witness `a{\7b :1;color:red} b{c:d}`: the IDENT `{` violates the guard and is counted as a brace … -/
example : plainTok ⟨.ident, vLBrace, 0⟩ = false ∧ (⟨.ident, vLBrace, 0⟩ : Tok).br = .op .brace
    ∧ (⟨.ident, vLBrace, 0⟩ : Tok).cssBr = .no := by decide

/-- … so the statement that starts at `a` swallows the whole rest of the sheet, the rule `b{c:d}` included
(negation of containment at the witness, in the model; the implementation does the same, see known/C04.json) -/
example : (upto .default (some (Ex.idt "a"))
    [Ex.lbrace, ⟨.ident, vLBrace, 0⟩, Ex.colon, Ex.num "1", Ex.semi, Ex.idt "color", Ex.colon, Ex.idt "red",
     Ex.rbrace, Ex.sp, Ex.idt "b", Ex.lbrace, Ex.idt "c", Ex.colon, Ex.idt "d", Ex.rbrace, Ex.eof]).2 = [] := by
  decide

/-- with a harmless identifier in its place the statement ends at its `}` and `b{c:d}` is left for the next
production -/
example : (upto .default (some (Ex.idt "a"))
    [Ex.lbrace, Ex.idt "x", Ex.colon, Ex.num "1", Ex.semi, Ex.idt "color", Ex.colon, Ex.idt "red",
     Ex.rbrace, Ex.sp, Ex.idt "b", Ex.lbrace, Ex.idt "c", Ex.colon, Ex.idt "d", Ex.rbrace, Ex.eof]).2
    = [Ex.sp, Ex.idt "b", Ex.lbrace, Ex.idt "c", Ex.colon, Ex.idt "d", Ex.rbrace, Ex.eof] := by
  decide

end CssVerif.Props.C04
